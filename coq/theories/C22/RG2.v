(* C22 — the program logic of RG.v made robust against SAME-HOST concurrency (several processes acting for one
   host), for the repaired claimAffineBlock (fx = true).

   The guarantee GP h strengthens G h with two facts that relate revisions (revisions come from one global counter,
   so they order the writes of the whole history):
     gp_conf : an affinity object of h becomes (or is rewritten as) confirmed only when the block exists, names h, and
               carries a revision NEWER than the affinity revision being replaced  (the claim path re-writes the
               block - "bumps" it - after it obtained the affinity revision and before it confirms);
     gp_rel  : a block naming h is deleted / loses its Affinity field only when the affinity object of h is absent or
               NEWER than the block revision (the release path marks the affinity pendingDeletion after reading the block).
   Assertions must now be stable under the steps of EVERY host, the own one included (Stable2). *)
From Coq Require Import List NArith Bool Arith Lia.
From Verif.Common Require Import Cas.
From Verif.C19 Require Import Model BlockLemmas.
From Verif.C22 Require Import Model RG StepLemmas.
Import ListNotations.
Open Scope N_scope.

Definition mine_ent (h : N) (s : store) (c : N) (eb : entry) : Prop :=
  s_lookup s (KBlock c) = Some eb /\ exists b, e_val eb = VBlock b /\ bk_aff b = Some h.

Record GP (h : N) (s s' : store) : Prop := {
  gp_g : G h s s';
  gp_conf : forall c e', s_lookup s' (KAff h c) = Some e' -> e_val e' = VAff AConfirmed ->
            s_lookup s (KAff h c) <> Some e' ->
            exists e0 eb, s_lookup s (KAff h c) = Some e0 /\ mine_ent h s c eb /\ e_rev e0 < e_rev eb;
  gp_rel : forall c eb, mine_ent h s c eb -> (forall eb', ~ mine_ent h s' c eb') ->
           s_lookup s (KAff h c) = None \/ exists e0, s_lookup s (KAff h c) = Some e0 /\ e_rev eb < e_rev e0
}.
Arguments gp_g {h s s'}.
Arguments gp_conf {h s s'}.
Arguments gp_rel {h s s'}.

Definition Stable2 (P : assertion) : Prop :=
  forall s rq h', wf s -> Inv s -> P s -> GP h' s (fst (exec s rq)) -> P (fst (exec s rq)).

(* every entry of the store after a request is an old entry or carries the fresh revision *)
Lemma rev_mono s rq k e' : wf s -> s_lookup (fst (exec s rq)) k = Some e' ->
  s_lookup s k = Some e' \/ e_rev e' = st_next s.
Proof.
  intros W. destruct rq as [k0 | l | k0 v0 | k0 v0 rev | k0 rev].
  - rewrite exec_get. auto.
  - auto.
  - destruct (exec_create s k0 v0) as [[_ X]|[_ (s' & X & NX & LK)]]; rewrite X; cbn [fst]; auto.
    rewrite LK. destruct (key_eqb k0 k); auto. intros Y; inversion Y; subst; auto.
  - destruct (exec_update s k0 v0 rev) as [[_ X]|[(e0 & _ & _ & X)|(e0 & s' & _ & _ & X & NX & LK)]]; rewrite X; cbn [fst]; auto.
    rewrite LK. destruct (key_eqb k0 k); auto. intros Y; inversion Y; subst; auto.
  - destruct (exec_delete s k0 rev W) as [[_ X]|[(e0 & _ & _ & X)|(e0 & s' & _ & _ & X & NX & LK)]]; rewrite X; cbn [fst]; auto.
    rewrite LK. destruct (key_eqb k0 k); auto. discriminate.
Qed.

Lemma next_mono s rq : wf s -> st_next s <= st_next (fst (exec s rq)).
Proof.
  intros W. destruct rq as [k0 | l | k0 v0 | k0 v0 rev | k0 rev].
  - rewrite exec_get. simpl. lia.
  - simpl. lia.
  - destruct (exec_create s k0 v0) as [[_ X]|[_ (s' & X & NX & LK)]]; rewrite X; cbn [fst]; lia.
  - destruct (exec_update s k0 v0 rev) as [[_ X]|[(e0 & _ & _ & X)|(e0 & s' & _ & _ & X & NX & LK)]]; rewrite X; cbn [fst]; lia.
  - destruct (exec_delete s k0 rev W) as [[_ X]|[(e0 & _ & _ & X)|(e0 & s' & _ & _ & X & NX & LK)]]; rewrite X; cbn [fst]; lia.
Qed.

(* ------------------------------------------------------------------ the two conditional facts *)
(* Psi h c r: as long as the affinity object (h, c) still carries revision r, block c exists, names h, and is newer than r *)
Definition Psi (h c r : N) : assertion := fun s =>
  r < st_next s /\
  forall e, s_lookup s (KAff h c) = Some e -> e_rev e = r -> exists eb, mine_ent h s c eb /\ r < e_rev eb.

(* Phi h c brv arv: the client read block revision brv and then wrote the affinity (pendingDeletion) at revision arv:
   the affinity object is absent or at least as new as arv, and while it is confirmed the block is newer than brv *)
Definition Phi (h c brv arv : N) : assertion := fun s =>
  brv < arv /\ arv < st_next s /\
  (s_lookup s (KAff h c) = None \/ exists e, s_lookup s (KAff h c) = Some e /\ arv <= e_rev e) /\
  (forall e eb, s_lookup s (KAff h c) = Some e -> e_val e = VAff AConfirmed ->
                s_lookup s (KBlock c) = Some eb -> brv < e_rev eb).

Lemma mine_dec h s c : (exists eb, mine_ent h s c eb) \/ (forall eb, ~ mine_ent h s c eb).
Proof.
  unfold mine_ent. destruct (s_lookup s (KBlock c)) as [eb|] eqn:L.
  - destruct (e_val eb) as [b|st|mm] eqn:EV.
    + destruct (optN_eqb (bk_aff b) (Some h)) eqn:AF.
      * apply optN_eqb_eq in AF. left. exists eb. split; auto. exists b; auto.
      * right. intros eb' [X (b' & Y & Z)]. inversion X; subst. rewrite EV in Y. inversion Y; subst.
        apply optN_eqb_eq in Z. congruence.
    + right. intros eb' [X (b' & Y & Z)]. inversion X; subst. congruence.
    + right. intros eb' [X (b' & Y & Z)]. inversion X; subst. congruence.
  - right. intros eb' [X _]. discriminate.
Qed.

Lemma mine_blk_at h s c eb : mine_ent h s c eb -> exists b, blk_at s c = Some b /\ bk_aff b = Some h.
Proof. intros [L (b & EV & AF)]. exists b. unfold blk_at. rewrite L, EV. auto. Qed.

Lemma blk_at_mine h s c b : blk_at s c = Some b -> bk_aff b = Some h -> exists eb, mine_ent h s c eb.
Proof.
  unfold blk_at, mine_ent. destruct (s_lookup s (KBlock c)) as [eb|]; [|discriminate].
  destruct (e_val eb) eqn:EV; try discriminate. intros X AF. inversion X; subst. exists eb. split; auto. exists b; auto.
Qed.

Lemma Stable2_Psi h c r : Stable2 (Psi h c r).
Proof.
  intros s rq h' W I [RL PS] GP'. split.
  - pose proof (next_mono s rq W). lia.
  - intros e L ER.
    destruct (rev_mono s rq _ _ W L) as [OLD|FR]; [|lia].
    destruct (PS e OLD ER) as (eb & ME & LT).
    destruct (mine_dec h (fst (exec s rq)) c) as [(eb' & ME')|NM].
    + exists eb'. split; auto. destruct ME' as [L' X'].
      destruct (rev_mono s rq _ _ W L') as [OLD'|FR'].
      * destruct ME as [L0 _]. rewrite L0 in OLD'. inversion OLD'; subst. exact LT.
      * lia.
    + exfalso. destruct (N.eq_dec h' h) as [->|NE].
      * destruct (gp_rel GP' c eb ME NM) as [N0|(e0 & L0 & LT0)]; [congruence|].
        rewrite OLD in L0. inversion L0; subst. lia.
      * destruct (mine_blk_at _ _ _ _ ME) as (b & B & AF).
        destruct (g_keep (gp_g GP') c b h (not_eq_sym NE) B AF) as (b' & B' & AF').
        destruct (blk_at_mine _ _ _ _ B' AF') as (eb' & ME'). exact (NM eb' ME').
Qed.

Lemma Stable2_Phi h c brv arv : Stable2 (Phi h c brv arv).
Proof.
  intros s rq h' W I (BA & AN & AFF & CF) GP'.
  pose proof (next_mono s rq W) as NM.
  split; [exact BA|]. split; [lia|]. split.
  - destruct (s_lookup (fst (exec s rq)) (KAff h c)) as [e|] eqn:L; [|left; auto].
    right. exists e. split; auto.
    destruct (rev_mono s rq _ _ W L) as [OLD|FR]; [|lia].
    destruct AFF as [N0|(e0 & L0 & LE)]; [congruence|]. rewrite OLD in L0. inversion L0; subst. exact LE.
  - intros e eb L EV LB.
    destruct (rev_mono s rq _ _ W LB) as [OLDB|FRB]; [|lia].
    destruct (rev_mono s rq _ _ W L) as [OLD|FR]; [eapply CF; eauto|].
    (* the affinity object was (re)written as confirmed by this very step *)
    assert (CH : s_lookup s (KAff h c) <> Some e).
    { intros X. destruct W as [_ RB]. apply RB in X. lia. }
    destruct (N.eq_dec h' h) as [->|NE].
    + destruct (gp_conf GP' c e L EV CH) as (e0 & eb0 & L0 & [LB0 _] & LT).
      rewrite OLDB in LB0. inversion LB0; subst eb0.
      destruct AFF as [N0|(e1 & L1 & LE)]; [congruence|]. rewrite L0 in L1. inversion L1; subst. lia.
    + exfalso. apply CH. rewrite <- (g_aff (gp_g GP') h c (not_eq_sym NE)). exact L.
Qed.

Lemma Stable2_and P1 P2 : Stable2 P1 -> Stable2 P2 -> Stable2 (fun s => P1 s /\ P2 s).
Proof. intros A B s rq h' W I [X Y] GG. split; [eapply A | eapply B]; eauto. Qed.
Lemma Stable2_true : Stable2 (fun _ => True).
Proof. red; auto. Qed.

(* ------------------------------------------------------------------ the logic *)
Section Logic2.
  Variable h : N.

  Fixpoint safeP {R} (p : prog R) (P : assertion) (Q : R -> assertion) : Prop :=
    match p with
    | Ret r => forall s, wf s -> Inv s -> P s -> Q r s
    | Act rq k =>
        forall s, wf s -> Inv s -> P s ->
          GP h s (fst (exec s rq)) /\ Inv (fst (exec s rq)) /\
          (exists P', Stable2 P' /\ P' (fst (exec s rq)) /\ safeP (k (snd (exec s rq))) P' Q) /\
          (Cas.is_cond_write rq = true -> exists P', Stable2 P' /\ P' s /\ safeP (k RConflict) P' Q)
    end.

  Lemma safeP_pre {R} (p : prog R) (P P' : assertion) Q :
    (forall s, wf s -> Inv s -> P s -> P' s) -> safeP p P' Q -> safeP p P Q.
  Proof. destruct p as [r | rq k]; simpl; intros IMP S s W I Ps; apply S; auto. Qed.

  Lemma safeP_post {R} (p : prog R) : forall (P : assertion) (Q Q' : R -> assertion),
    (forall r s, wf s -> Inv s -> Q r s -> Q' r s) -> safeP p P Q -> safeP p P Q'.
  Proof.
    induction p as [r | rq k IH]; simpl; intros P Q Q' IMP S s W I Ps.
    - apply IMP; auto.
    - destruct (S s W I Ps) as (GG & I' & (P1 & S1 & H1 & K1) & CW).
      split; auto. split; auto. split.
      + exists P1. split; auto. split; auto. eapply IH; eauto.
      + intros C. destruct (CW C) as (P2 & S2 & H2 & K2). exists P2. split; auto. split; auto. eapply IH; eauto.
  Qed.

  Lemma safeP_bind {A B} (p : prog A) : forall (f : A -> prog B) (P : assertion) (Q1 : A -> assertion) (Q : B -> assertion),
    safeP p P Q1 -> (forall a, safeP (f a) (Q1 a) Q) -> safeP (Cas.bind p f) P Q.
  Proof.
    induction p as [a | rq k IH]; simpl; intros f P Q1 Q S F.
    - eapply safeP_pre; [|apply F]. exact S.
    - intros s W I Ps. destruct (S s W I Ps) as (GG & I' & (P1 & S1 & H1 & K1) & CW).
      split; auto. split; auto. split.
      + exists P1. split; auto. split; auto. eapply IH; eauto.
      + intros C. destruct (CW C) as (P2 & S2 & H2 & K2). exists P2. split; auto. split; auto. eapply IH; eauto.
  Qed.

  Lemma safeP_ret {R} (r : R) (P : assertion) (Q : R -> assertion) :
    (forall s, wf s -> Inv s -> P s -> Q r s) -> safeP (Ret r) P Q.
  Proof. simpl. auto. Qed.
End Logic2.

(* ------------------------------------------------------------------ GP for each kind of step *)
Lemma GP_refl h s : GP h s s.
Proof.
  constructor; [apply G_refl| |].
  - intros c e' L _ X. contradiction.
  - intros c eb ME NM. exfalso. exact (NM eb ME).
Qed.

(* a step that leaves every block entry and every affinity entry of h alone, or changes affinity entries of h only to
   non-confirmed values *)
Lemma GP_of_G h s s' : G h s s' ->
  (forall c e', s_lookup s' (KAff h c) = Some e' -> e_val e' = VAff AConfirmed -> s_lookup s (KAff h c) = Some e') ->
  (forall c, s_lookup s' (KBlock c) = s_lookup s (KBlock c)) -> GP h s s'.
Proof.
  intros GG AF BL. constructor; auto.
  - intros c e' L EV X. exfalso. apply X. apply AF; auto.
  - intros c eb [L M] NM. exfalso. apply (NM eb). split; auto. rewrite BL. exact L.
Qed.

(* a block step that keeps block c naming h whenever it did, and touches no affinity *)
Lemma GP_of_G_blk h s s' : G h s s' ->
  (forall c, s_lookup s' (KAff h c) = s_lookup s (KAff h c)) ->
  (forall c eb, mine_ent h s c eb -> exists eb', mine_ent h s' c eb') -> GP h s s'.
Proof.
  intros GG AF KP. constructor; auto.
  - intros c e' L EV X. exfalso. apply X. rewrite <- AF. exact L.
  - intros c eb ME NM. exfalso. destruct (KP c eb ME) as (eb' & ME'). exact (NM eb' ME').
Qed.
