(* C22 — Hoare triples (RG.safeS) of the composite programs of Model.v / C19.Model, for a client acting for host h. *)
From Coq Require Import List NArith Bool Arith Lia.
From Verif.Common Require Import Cas.
From Verif.C19 Require Import Model BlockLemmas.
From Verif.C22 Require Import Model RG3 StepLemmas3 Prims3 Sys3.
Import ListNotations.
Open Scope N_scope.

Lemma A_relax h c (E E' : assertion) m ao m' ao' s :
  (forall s, E s -> E' s) -> (m' = true -> m = true) -> (ao' = None \/ ao' = ao) ->
  A h c E m ao s -> A h c E' m' ao' s.
Proof.
  intros IMP M O (X & Y & Z). split; auto. split; auto. destruct O as [->| ->]; simpl; auto.
Qed.

Lemma A_switch h c c' (E : assertion) s : A h c E false None s -> A h c' E false None s.
Proof. intros (X & _ & _). split; auto. split; [discriminate | exact I]. Qed.

Ltac relax :=
  eapply A_relax; [ | | | eassumption ];
  [ intros ?s0; unfold EK; tauto
  | first [ tauto | (intros; congruence) | auto ]
  | first [ left; reflexivity | right; reflexivity ] ].

Ltac sret := apply safeS_ret; intros ?s ?W ?I ?X.
Lemma optN_eqb_neq a b : optN_eqb a b = false -> a <> b.
Proof. intros E X. apply optN_eqb_eq in X. congruence. Qed.
(* drop / use the "block does not name h" half of get_block's postcondition *)
Ltac dropnm := eapply safeS_pre; [intros ?s ?W ?I ?H; cbv beta in H; destruct H as [?X _]; exact X|].

Section HostOps.
  Variable cf : config.
  Variable fx : bool.
  Variable h : N.
  Notation safe := (safeS h (G h)).
  Notation A := (A h).

  Ltac side := first [ solve [auto using Eternal_EK, Eternal_true] | discriminate | solve [intros; reflexivity]
                     | apply blk_empty_new | solve [intros; discriminate] | solve [eexists; reflexivity] ].
  Ltac sb L := eapply safeS_bind; [ eapply L; side | cbv beta; intros ?r ].

  (* ---------------------------------------------------------------- claiming *)
  Definition Qconfirm c E (r : res N) : assertion :=
    match r with inl _ => A c E true (Some (Some AConfirmed)) | inr _ => A c E true None end.

  Lemma confirm_aff_safe c E ao rev : Eternal E ->
    safe (confirm_aff h c rev) (A c E true ao) (Qconfirm c E).
  Proof.
    intros EE. unfold confirm_aff. sb safe_update_aff.
    destruct r as [rev'|e]; unfold Qupd_aff.
    - sret. exact X.
    - sb safe_get_aff. destruct r as [[st rev2]|e2]; unfold Qget_aff.
      + destruct st; sret; unfold Qconfirm; try exact X; relax.
      + destruct e2; sret; unfold Qconfirm; relax.
  Qed.

  Definition Qpending c E m (r : res (affst * N)) : assertion :=
    match r with inl (st, _) => A c E m (Some (Some st)) | inr _ => A c E m None end.

  Lemma get_pending_aff_safe c E m ao : Eternal E ->
    safe (get_pending_aff h c) (A c E m ao) (Qpending c E m).
  Proof.
    intros EE. unfold get_pending_aff. sb safe_create_aff.
    destruct r as [rev|e]; unfold Qwrite_aff.
    - sret. exact X.
    - destruct e; try (sret; unfold Qpending; relax).
      sb safe_get_aff. destruct r as [[st rev]|e2]; unfold Qget_aff.
      + destruct st.
        * sb safe_update_aff. destruct r as [rev'|e3]; unfold Qupd_aff; sret; unfold Qpending; try exact X; relax.
        * sret. exact X.
        * sb safe_update_aff. destruct r as [rev'|e3]; unfold Qupd_aff; sret; unfold Qpending; try exact X; relax.
      + destruct e2; sret; unfold Qpending; relax.
  Qed.

  Definition Qclaim c E (r : res (block * N)) : assertion :=
    match r with
    | inl (b, rev) => A c (EK E c rev b) true (Some (Some AConfirmed))
    | inr _ => A c E false None
    end.

  Lemma claim_affine_block_safe c E m st0 affrev : Eternal E ->
    safe (claim_affine_block cf fx h c affrev) (A c E m (Some (Some st0))) (Qclaim c E).
  Proof.
    intros EE. unfold claim_affine_block.
    sb safe_create_block.
    destruct r as [[b rev]|e]; unfold Qcreate_block.
    - sb confirm_aff_safe.
      destruct r as [x|e]; unfold Qconfirm; sret; unfold Qclaim; try exact X; relax.
    - destruct e; try (sret; unfold Qclaim; relax).
      sb safe_get_block. destruct r as [[b brev]|e]; unfold Qget_block.
      2:{ sret; unfold Qclaim; relax. }
      destruct (optN_eqb (bk_aff b) (Some h)) eqn:AF.
      + dropnm. rewrite orb_true_r. destruct fx.
        * eapply safeS_bind.
          { eapply safe_update_block with (b0 := b); [apply Eternal_EK; auto | intros s0 [_ K]; exact K | reflexivity]. }
          cbv beta. intros r. destruct r as [[b2 rev2]|e]; unfold Qupdate_block.
          2:{ sret; unfold Qclaim; relax. }
          sb confirm_aff_safe.
          destruct r as [x|e]; unfold Qconfirm; sret; unfold Qclaim; relax.
        * sb confirm_aff_safe.
          destruct r as [x|e]; unfold Qconfirm; sret; unfold Qclaim; try exact X; relax.
      + eapply safeS_pre with (P' := fun s => A c (EK E c brev b) (m || false) (Some (Some st0)) s /\ NotMine h c s); [intros s W I H; cbv beta in H; destruct H as [X NM]; split; [exact X | apply NM; apply optN_eqb_neq; exact AF]|].
        sb safe_delete_aff. destruct r; unfold Qdel_aff; sret; unfold Qclaim; relax.
  Qed.

  Definition QB c E (r : res (block * N)) : assertion :=
    match r with
    | inl (b, rev) => A c (EK E c rev b) false None
    | inr _ => A c E false None
    end.

  Lemma get_block_from_aff_safe c E m ao aff : Eternal E ->
    safe (get_block_from_aff cf fx h c aff) (A c E m ao) (QB c E).
  Proof.
    intros EE. unfold get_block_from_aff. destruct aff as [st affrev].
    sb safe_get_block. destruct r as [[b brev]|e]; unfold Qget_block.
    - destruct (optN_eqb (bk_aff b) (Some h)) eqn:AF; cbn [negb].
      + dropnm. rewrite orb_true_r. destruct (affst_eqb st AConfirmed).
        * sret. unfold QB. relax.
        * sb safe_update_aff.
          destruct r as [rev1|e]; unfold Qupd_aff.
          2:{ sret; unfold QB; relax. }
          eapply safeS_bind.
          { eapply safe_update_block with (b0 := b); [apply Eternal_EK; auto | intros s0 [_ K]; exact K | reflexivity]. }
          cbv beta. intros r. destruct r as [[b2 rev2]|e]; unfold Qupdate_block.
          2:{ sret; unfold QB; relax. }
          sb safe_update_aff.
          destruct r as [x|e]; unfold Qupd_aff; sret; unfold QB; relax.
      + eapply safeS_pre with (P' := fun s => A c (EK E c brev b) (m || false) ao s /\ NotMine h c s); [intros s W I H; cbv beta in H; destruct H as [X NM]; split; [exact X | apply NM; apply optN_eqb_neq; exact AF]|].
        sb safe_delete_aff.
        destruct r as [x|e]; unfold Qdel_aff; sret; unfold QB; relax.
    - destruct e; try (sret; unfold QB; relax).
      sb safe_update_aff. destruct r as [rev'|e]; unfold Qupd_aff.
      2:{ sret; unfold QB; relax. }
      eapply safeS_post; [|apply claim_affine_block_safe; auto].
      intros r s W I X. destruct r as [[b rev]|e]; unfold Qclaim, QB in *; relax.
  Qed.

  (* ClaimAffinity: "claimed" is reported only with a confirmed affinity and a block that names the host *)
  Definition Qclaim_res c (r : result) : assertion :=
    match r with
    | ResClaim true _ _ => fun s => AffIs h c (Some AConfirmed) s /\ BlockMine h c s
    | _ => fun _ => True
    end.

  Lemma claim_aff_loop_safe fuel : forall c E m ao, Eternal E ->
    safe (claim_aff_loop cf fx fuel h c) (A c E m ao) (Qclaim_res c).
  Proof.
    induction fuel as [|f IH]; intros c E m ao EE; cbn [claim_aff_loop].
    - sret. exact Logic.I.
    - sb get_pending_aff_safe. destruct r as [[st affrev]|e]; unfold Qpending.
      + sb claim_affine_block_safe. destruct r as [[b rev]|e]; unfold Qclaim.
        * sret. destruct X as (_ & Y & Z). split; auto.
        * destruct e; try (sret; exact Logic.I). apply IH; auto.
      + destruct e; try (sret; exact Logic.I). apply IH; auto.
  Qed.

  (* ---------------------------------------------------------------- releasing *)
  Lemma release_block_affinity_safe c E m ao must : Eternal E ->
    safe (release_block_affinity h c must) (A c E m ao) (fun _ => A c E false None).
  Proof.
    intros EE. unfold release_block_affinity.
    sb safe_get_aff. destruct r as [[st affrev]|e]; unfold Qget_aff.
    2:{ destruct e; sret; relax. }
    sb safe_get_block. destruct r as [[b brev]|e]; unfold Qget_block.
    2:{ sret; relax. }
    destruct (match bk_aff b with Some h' => negb (N.eqb h' h) | None => false end) eqn:MIS.
    { eapply safeS_pre with (P' := fun s => A c (EK E c brev b) (m || optN_eqb (bk_aff b) (Some h)) (Some (Some st)) s /\ NotMine h c s).
      { intros s W I H. cbv beta in H. destruct H as [X NM]. split; [exact X | apply NM]. destruct (bk_aff b) as [h'|]; [|discriminate].
        apply negb_true_iff in MIS. apply N.eqb_neq in MIS. congruence. }
      sb safe_delete_aff. destruct r; unfold Qdel_aff; sret; relax. }
    dropnm.
    assert (OW : bk_aff b = None \/ bk_aff b = Some h).
    { destruct (bk_aff b) as [h'|]; auto. right. apply negb_false_iff in MIS. apply N.eqb_eq in MIS. congruence. }
    destruct (must && negb (blk_empty b)); [sret; relax|].
    sb safe_update_aff.
    destruct r as [affrev'|e]; unfold Qupd_aff.
    2:{ sret; relax. }
    assert (FIN : forall m0 ao0, safe (d2 <- delete_aff h c affrev' ;;
                               match d2 with
                               | inl _ => Ret (inl tt)
                               | inr ENotFound => Ret (inl tt)
                               | inr e => Ret (inr e)
                               end) (fun s => A c (EK E c brev b) m0 ao0 s /\ NotMine h c s) (fun _ : res unit => A c E false None)).
    { intros m0 ao0. sb safe_delete_aff.
      destruct r as [x|e]; unfold Qdel_aff; [sret; relax|]. destruct e; sret; relax. }
    destruct (blk_empty b) eqn:EM.
    - eapply safeS_bind.
      { eapply safe_delete_block_owner with (b0 := b); [apply Eternal_EK; auto | discriminate | intros s0 [_ K]; exact K | exact OW | exact EM]. }
      cbv beta. intros r. destruct r as [x|e]; unfold Qgiveup_u; [apply FIN|].
      destruct e; try (sret; relax). apply FIN.
    - eapply safeS_bind.
      { eapply safe_clear_block with (b0 := b); [apply Eternal_EK; auto | discriminate | intros s0 [_ K]; exact K | exact OW]. }
      cbv beta. intros r. destruct r as [x|e]; unfold Qgiveup; [apply FIN|]. sret; relax.
  Qed.

  Lemma release_aff_loop_safe fuel : forall c E m ao must, Eternal E ->
    safe (release_aff_loop fuel h c must) (A c E m ao) (fun _ => A c E false None).
  Proof.
    induction fuel as [|f IH]; intros c E m ao must EE; cbn [release_aff_loop].
    - sret. relax.
    - sb release_block_affinity_safe. destruct r as [x|e]; [sret; exact X|].
      destruct e; try (sret; exact X). apply IH; auto.
  Qed.

  Lemma rha_one_safe fuel : forall c E m ao must, Eternal E ->
    safe (rha_one fuel h c must) (A c E m ao) (fun _ => A c E false None).
  Proof.
    induction fuel as [|f IH]; intros c E m ao must EE; cbn [rha_one].
    - sret. relax.
    - sb release_block_affinity_safe. destruct r as [x|e]; [sret; exact X|].
      destruct e; try (sret; exact X). apply IH; auto.
  Qed.

  Lemma rha_blocks_safe cs : forall E must stored, Eternal E ->
    safe (rha_blocks cf cs h must stored) (A 0 E false None) (fun _ => A 0 E false None).
  Proof.
    induction cs as [|c t IH]; intros E must stored EE; cbn [rha_blocks].
    - sret. exact X.
    - eapply safeS_bind.
      { eapply safeS_pre; [|apply (rha_one_safe (cf_retries cf) c E false None must EE)].
        intros s W I X. eapply A_switch; eauto. }
      cbv beta. intros e. eapply safeS_pre; [|apply IH; auto].
      intros s W I X. eapply A_switch; eauto.
  Qed.

  Lemma release_host_affs_safe E must : Eternal E ->
    safe (release_host_affs cf h must) (A 0 E false None) (fun _ => A 0 E false None).
  Proof.
    intros EE. unfold release_host_affs. apply safe_neutral; auto; [exact Logic.I|].
    intros rs. destruct rs; try (sret; exact X).
    sb rha_blocks_safe. apply safe_neutral; auto; [exact Logic.I|]. intros rs. sret. exact X.
  Qed.
  (* ---------------------------------------------------------------- programs that touch only handles / list *)
  Fixpoint allneutral {R} (p : prog R) : Prop :=
    match p with
    | Ret _ => True
    | Act rq k => neutral rq /\ forall rs, allneutral (k rs)
    end.

  Lemma allneutral_safe {R} (p : prog R) : allneutral p -> forall c E m ao, Eternal E ->
    safe p (A c E m ao) (fun _ => A c E m ao).
  Proof.
    induction p as [r | rq k IH]; intros AN c E m ao EE.
    - sret. exact X.
    - destruct AN as [NT K]. apply safe_neutral; auto.
  Qed.

  Lemma allneutral_bind {X Y} (p : prog X) (f : X -> prog Y) :
    allneutral p -> (forall a, allneutral (f a)) -> allneutral (Cas.bind p f).
  Proof.
    induction p as [r | rq k IH]; simpl; intros AN F; auto.
    destruct AN as [NT K]. split; auto.
  Qed.

  Lemma an_get_handle x : allneutral (get_handle x).
  Proof. simpl. split; [exact Logic.I|]. intros rs. destruct rs; simpl; auto. destruct (e_val e); simpl; auto. Qed.
  Lemma an_update_handle x mm rev : allneutral (update_handle x mm rev).
  Proof. simpl. split; [eauto|]. intros rs. destruct rs; simpl; auto. Qed.
  Lemma an_create_handle x mm : allneutral (create_handle x mm).
  Proof. simpl. split; [eauto|]. intros rs. destruct rs; simpl; auto. Qed.
  Lemma an_delete_handle x rev : allneutral (delete_handle x rev).
  Proof. simpl. split; [eauto|]. intros rs. destruct rs; simpl; auto. Qed.

  Lemma an_inc_handle fuel : forall x c n, allneutral (inc_handle fuel x c n).
  Proof.
    induction fuel as [|f IH]; intros x c n; cbn [inc_handle]; [exact Logic.I|].
    apply allneutral_bind; [apply an_get_handle|]. intros r. destruct r as [[mm rev]|e].
    - apply allneutral_bind; [apply an_update_handle|]. intros w. destruct w; [exact Logic.I | apply IH].
    - destruct e; try exact Logic.I.
      apply allneutral_bind; [apply an_create_handle|]. intros w. destruct w; [exact Logic.I | apply IH].
  Qed.

  Lemma an_dec_handle sbug fuel : forall x c n cached, allneutral (dec_handle sbug fuel x c n cached).
  Proof.
    induction fuel as [|f IH]; intros x c n cached; cbn [dec_handle]; [exact Logic.I|].
    apply allneutral_bind.
    { destruct cached; [exact Logic.I | apply an_get_handle]. }
    intros r. destruct r as [[mm rev]|e]; [|exact Logic.I].
    destruct (hdec mm c n) as [[|y m']|].
    - apply allneutral_bind; [apply an_delete_handle|]. intros w. destruct w as [u|e]; [exact Logic.I|].
      destruct e; try exact Logic.I. apply IH.
    - apply allneutral_bind; [apply an_update_handle|]. intros w. destruct w as [u|e]; [exact Logic.I|].
      destruct e; try exact Logic.I. apply IH.
    - destruct cached; [|exact Logic.I]. destruct sbug; [exact Logic.I | apply IH].
  Qed.

  Lemma an_dec_all l : forall c cache, allneutral (dec_all cf l c cache).
  Proof.
    induction l as [|[x n] t IH]; intros c cache; cbn [dec_all]; [exact Logic.I|].
    apply allneutral_bind; [apply an_dec_handle|]. intros u. apply IH.
  Qed.

  (* ---------------------------------------------------------------- block functions keep the Affinity field *)
  Lemma blk_auto_assign_aff b num x tag ac host b' ips :
    blk_auto_assign b num x tag ac host = Some (b', ips) -> bk_aff b' = bk_aff b.
  Proof.
    unfold blk_auto_assign. destruct (negb (aff_check_ok b ac host)); [discriminate|].
    destruct (firstn num (bk_unalloc b)); [intros Y; inversion Y; auto|].
    destruct (find_or_add_attr _ _). intros Y; inversion Y; reflexivity.
  Qed.
  Lemma blk_assign_aff b a x tag ac host b' : blk_assign b a x tag ac host = inl b' -> bk_aff b' = bk_aff b.
  Proof.
    unfold blk_assign. destruct (negb (aff_check_ok b ac host)); [discriminate|].
    destruct (nth (ordinal_of b a) (bk_allocs b) None); [discriminate|].
    destruct (find_or_add_attr _ _). intros Y; inversion Y; reflexivity.
  Qed.
  Lemma blk_release_aff b opts b' un cnt : blk_release b opts = inl (b', un, cnt) -> bk_aff b' = bk_aff b.
  Proof.
    unfold blk_release.
    match goal with |- context [if ?c then _ else _] => destruct c end; [discriminate|].
    match goal with |- context [match ?l with [] => _ | _ :: _ => _ end] => destruct l end;
      intros Y; inversion Y; subst; reflexivity.
  Qed.
  Lemma blk_release_by_handle_aff b x b' n : blk_release_by_handle b x = (b', n) -> bk_aff b' = bk_aff b.
  Proof.
    unfold blk_release_by_handle.
    match goal with |- context [match ?l with [] => _ | _ :: _ => _ end] => destruct l end;
      intros Y; inversion Y; subst; reflexivity.
  Qed.

  (* the strict-affinity check of the block functions: what "ownership" means to an allocation *)
  Lemma blk_auto_assign_strict b num x tag host b' ips :
    blk_auto_assign b num x tag true host = Some (b', ips) -> bk_aff b = Some host /\ bk_aff b' = Some host.
  Proof.
    intros Y. pose proof (blk_auto_assign_aff _ _ _ _ _ _ _ _ Y) as AF. rewrite AF.
    unfold blk_auto_assign in Y. destruct (negb (aff_check_ok b true host)) eqn:C; [discriminate|].
    apply negb_false_iff in C. unfold aff_check_ok in C. destruct (bk_aff b) as [h'|]; simpl in C; [|discriminate].
    apply N.eqb_eq in C. subst. auto.
  Qed.
  Lemma blk_assign_strict b a x tag host b' :
    blk_assign b a x tag true host = inl b' -> bk_aff b = Some host /\ bk_aff b' = Some host.
  Proof.
    intros Y. pose proof (blk_assign_aff _ _ _ _ _ _ _ Y) as AF. rewrite AF.
    unfold blk_assign in Y. destruct (negb (aff_check_ok b true host)) eqn:C; [discriminate|].
    apply negb_false_iff in C. unfold aff_check_ok in C. destruct (bk_aff b) as [h'|]; simpl in C; [|discriminate].
    apply N.eqb_eq in C. subst. auto.
  Qed.

  (* ---------------------------------------------------------------- allocation and address release *)
  Definition P0 (E : assertion) : assertion := A 0 E false None.

  Lemma P0_of c E m ao s : A c E m ao s -> P0 E s.
  Proof. intros (Y & _ & _). split; auto. split; [discriminate | exact Logic.I]. Qed.
  Lemma P0_EK c0 c E rev b m ao s : A c0 (EK E c rev b) m ao s -> P0 E s.
  Proof. intros ((Y & _) & _ & _). split; auto. split; [discriminate | exact Logic.I]. Qed.

  Lemma P0_weaken (E E' : assertion) s : (forall s, E s -> E' s) -> P0 E s -> P0 E' s.
  Proof. intros IMP (Y & _ & _). split; auto. split; [discriminate | exact Logic.I]. Qed.

  Ltac p0w := eapply P0_weaken; [|eassumption]; intros ?s0; unfold EK; tauto.

  Lemma an_safe0 {R} (p : prog R) E : allneutral p -> Eternal E -> safe p (P0 E) (fun _ => P0 E).
  Proof. intros AN EE. apply allneutral_safe; auto. Qed.

  Lemma update_block_keep_safe c E b0 b' rev : Eternal E ->
    (forall s, E s -> Known (KBlock c) rev (VBlock b0) s) -> bk_aff b' = bk_aff b0 ->
    safe (update_block c b' rev) (P0 E) (fun r => match r with inl (b2, rev2) => P0 (EK E c rev2 b2) | inr _ => P0 E end).
  Proof.
    intros EE KN AF. eapply safeS_post; [|eapply safe_update_block with (c := 0) (b0 := b0); eauto].
    intros r s W I X. destruct r as [[b2 rev2]|e]; exact X.
  Qed.

  Lemma assign_from_block_safe E b rev c num x tag host ac : Eternal E ->
    (forall s, E s -> Known (KBlock c) rev (VBlock b) s) ->
    safe (assign_from_block cf (b, rev) c num x tag host ac) (P0 E) (fun _ => P0 E).
  Proof.
    intros EE KN. unfold assign_from_block.
    destruct (blk_auto_assign b num x tag ac host) as [[b' ips]|] eqn:AA; [|sret; exact X].
    destruct ips as [|a0 ips']; [sret; exact X|].
    eapply safeS_bind; [apply an_safe0; [apply an_inc_handle | auto]|]. cbv beta. intros i.
    destruct i as [u|e]; [|sret; exact X].
    eapply safeS_bind; [eapply update_block_keep_safe; eauto; eapply blk_auto_assign_aff; eauto|].
    cbv beta. intros w. destruct w as [[b2 rev2]|e].
    - sret. eapply P0_EK; eauto.
    - eapply safeS_bind; [apply an_safe0; [apply an_dec_handle | auto]|]. cbv beta. intros u2. sret. exact X.
  Qed.

  Definition QB0 c E (r : res (block * N)) : assertion :=
    match r with inl (b, rev) => P0 (EK E c rev b) | inr _ => P0 E end.

  Lemma get_block0_safe c E : Eternal E -> safe (get_block c) (P0 E) (QB0 c E).
  Proof.
    intros EE. eapply safeS_post; [|eapply safe_get_block_any with (c := 0); eauto].
    intros r s W I X. destruct r as [[b rev]|e]; exact X.
  Qed.

  Lemma assign_ip_loop_safe fuel : forall E x tag a, Eternal E ->
    safe (assign_ip_loop cf fx fuel h x tag a) (P0 E) (fun _ => P0 E).
  Proof.
    induction fuel as [|f IH]; intros E x tag a EE; cbn [assign_ip_loop]; [sret; exact X|].
    assert (CONT : forall b brev, safe
      (match blk_assign b a x tag (cf_strict cf) h with
       | inr e => Ret (ResErr (nz e))
       | inl b' =>
           i <- inc_handle (cf_retries cf) x (block_of cf a) 1 ;;
           match i with
           | inr _ => Ret (ResErr EOther)
           | inl _ =>
               w <- update_block (block_of cf a) b' brev ;;
               match w with
               | inl _ => Ret (ResErr ENone)
               | inr EConflict =>
                   u_ <- dec_handle false (cf_retries cf) x (block_of cf a) 1 None ;; assign_ip_loop cf fx f h x tag a
               | inr e => u_ <- dec_handle false (cf_retries cf) x (block_of cf a) 1 None ;; Ret (ResErr (nz e))
               end
           end
       end) (P0 (EK E (block_of cf a) brev b)) (fun _ => P0 E)).
    { intros b brev. destruct (blk_assign b a x tag (cf_strict cf) h) as [b'|e] eqn:BA.
      2:{ sret. p0w. }
      eapply safeS_bind; [apply an_safe0; [apply an_inc_handle | apply Eternal_EK; auto]|]. cbv beta. intros i.
      destruct i as [u|e]; [|sret; p0w].
      eapply safeS_bind.
      { eapply update_block_keep_safe with (b0 := b); [apply Eternal_EK; auto | intros s0 [_ K]; exact K | eapply blk_assign_aff; eauto]. }
      cbv beta. intros w. destruct w as [[b2 rev2]|e].
      - sret. eapply P0_weaken; [|exact X]. intros s0; unfold EK; tauto.
      - assert (DEC : forall (k : prog result), safe k (P0 E) (fun _ => P0 E) ->
                  safe (u_ <- dec_handle false (cf_retries cf) x (block_of cf a) 1 None ;; k)
                       (P0 (EK E (block_of cf a) brev b)) (fun _ => P0 E)).
        { intros k K. eapply safeS_bind; [apply an_safe0; [apply an_dec_handle | apply Eternal_EK; auto]|].
          cbv beta. intros u2. eapply safeS_pre; [|exact K]. intros s W I X. p0w. }
        destruct e; try (apply DEC; sret; exact X). apply DEC. apply IH; auto. }
    eapply safeS_bind; [apply get_block0_safe; auto|]. cbv beta. intros g.
    destruct g as [[b brev]|e]; unfold QB0.
    - apply CONT.
    - destruct e; try (sret; exact X).
      eapply safeS_bind.
      { eapply safeS_pre; [|eapply get_pending_aff_safe with (c := block_of cf a) (E := E) (m := false) (ao := None); auto].
        intros s W I X. eapply A_switch. exact X. }
      { cbv beta. intros pa. destruct pa as [[st affrev]|e]; unfold Qpending.
        - eapply safeS_bind; [eapply claim_affine_block_safe; auto|]. cbv beta. intros cb.
          destruct cb as [[b brev]|e]; unfold Qclaim.
          + eapply safeS_pre; [|apply CONT]. intros s W I X. eapply P0_of. exact X.
          + destruct e; try (sret; eapply P0_of; exact X).
            eapply safeS_pre; [|apply IH; auto]. intros s W I X. eapply P0_of; exact X.
        - destruct e; try (sret; eapply P0_of; exact X).
          eapply safeS_pre; [|apply IH; auto]. intros s W I X. eapply P0_of; exact X. }
  Qed.

  Lemma release_loop_safe fuel : forall E c opts hint cache, Eternal E ->
    safe (release_loop cf fuel c opts hint cache) (P0 E) (fun _ => P0 E).
  Proof.
    induction fuel as [|f IH]; intros E c opts hint cache EE; cbn [release_loop]; [sret; exact X|].
    eapply safeS_bind; [apply get_block0_safe; auto|]. cbv beta. intros g.
    destruct g as [[b brev]|e]; unfold QB0; [|destruct e; sret; exact X].
    destruct (blk_release b opts) as [[[b' un] cnt]|e] eqn:BR; [|sret; p0w].
    destruct (Nat.eqb (length opts) (length un)); [sret; p0w|].
    eapply safeS_bind with (Q1 := fun _ => P0 E).
    { destruct (blk_empty b' && optN_eqb (bk_aff b') None) eqn:DEL.
      - apply andb_true_iff in DEL. destruct DEL as [_ AN]. apply optN_eqb_eq in AN.
        eapply safeS_post; [|eapply safe_delete_block_unowned with (c := 0) (b0 := b) (ao := None)].
        + intros r s W I X. eapply P0_weaken; [|exact X]. intros s0; unfold EK; tauto.
        + apply Eternal_EK; auto.
        + intros s0 [_ K]; exact K.
        + rewrite <- (blk_release_aff _ _ _ _ _ BR). exact AN.
      - eapply safeS_bind.
        { eapply update_block_keep_safe with (b0 := b); [apply Eternal_EK; auto | intros s0 [_ K]; exact K | eapply blk_release_aff; eauto]. }
        cbv beta. intros u. destruct u as [[b2 rev2]|e]; sret; p0w. }
    cbv beta. intros w. destruct w as [u|e].
    - eapply safeS_bind; [apply an_safe0; [apply an_dec_all | auto]|]. cbv beta. intros u2. sret. exact X.
    - destruct e; try (sret; exact X). apply IH; auto.
  Qed.

  Lemma release_ips_safe E opts hint : Eternal E -> safe (release_ips cf opts hint) (P0 E) (fun _ => P0 E).
  Proof.
    intros EE. unfold release_ips. destruct opts as [|[a oh] t]; [sret; exact X|].
    destruct (Nat.ltb 2 (length ((a, oh) :: t))); [|apply release_loop_safe; auto].
    apply safe_neutral; auto; [exact Logic.I|]. intros rs. destruct rs; try (sret; exact X).
    apply release_loop_safe; auto.
  Qed.

  Lemma rbh_one_safe fuel : forall E c x, Eternal E -> safe (rbh_one cf fuel c x) (P0 E) (fun _ => P0 E).
  Proof.
    induction fuel as [|f IH]; intros E c x EE; cbn [rbh_one]; [sret; exact X|].
    eapply safeS_bind; [apply get_block0_safe; auto|]. cbv beta. intros g.
    destruct g as [[b brev]|e]; unfold QB0; [|destruct e; sret; exact X].
    destruct (blk_release_by_handle b x) as [b' n] eqn:BR.
    destruct n as [|n]; [sret; p0w|].
    assert (AFTER : forall E', Eternal E' -> (forall s, E' s -> E s) ->
              safe (u_ <- dec_handle (cf_stale_cache cf) (cf_retries cf) x c (N.of_nat (S n)) None ;; Ret (inl tt))
                   (P0 E') (fun _ : res unit => P0 E)).
    { intros E' EE' IMP. eapply safeS_bind; [apply an_safe0; [apply an_dec_handle | auto]|]. cbv beta. intros u2. sret.
      eapply P0_weaken; [|exact X]. exact IMP. }
    destruct (blk_empty b' && optN_eqb (bk_aff b') None) eqn:DEL.
    - apply andb_true_iff in DEL. destruct DEL as [_ AN]. apply optN_eqb_eq in AN.
      eapply safeS_bind.
      { eapply safe_delete_block_unowned with (c := 0) (b0 := b) (ao := None);
          [apply Eternal_EK; auto | intros s0 [_ K]; exact K | rewrite <- (blk_release_by_handle_aff _ _ _ _ BR); exact AN]. }
      cbv beta. intros w.
      assert (AF2 : safe (u_ <- dec_handle (cf_stale_cache cf) (cf_retries cf) x c (N.of_nat (S n)) None ;; Ret (inl tt))
                         (A 0 (EK E c brev b) false None) (fun _ : res unit => P0 E)).
      { apply AFTER; [apply Eternal_EK; auto | intros s0; unfold EK; tauto]. }
      destruct w as [u|e]; [exact AF2|]. destruct e; try (sret; p0w); try exact AF2.
      eapply safeS_pre; [|apply IH; auto]. intros s W I X. p0w.
    - eapply safeS_bind.
      { eapply update_block_keep_safe with (b0 := b); [apply Eternal_EK; auto | intros s0 [_ K]; exact K | eapply blk_release_by_handle_aff; eauto]. }
      cbv beta. intros w. destruct w as [[b2 rev2]|e].
      + apply AFTER; [apply Eternal_EK; apply Eternal_EK; auto | intros s0; unfold EK; tauto].
      + destruct e; try (sret; p0w). eapply safeS_pre; [|apply IH; auto]. intros s W I X. p0w.
  Qed.

  Lemma rbh_blocks_safe cs : forall E x, Eternal E -> safe (rbh_blocks cf cs x) (P0 E) (fun _ => P0 E).
  Proof.
    induction cs as [|c t IH]; intros E x EE; cbn [rbh_blocks]; [sret; exact X|].
    eapply safeS_bind; [apply rbh_one_safe; auto|]. cbv beta. intros r.
    destruct r; [apply IH; auto | sret; exact X].
  Qed.

  Lemma release_by_handle_safe E x hint : Eternal E -> safe (release_by_handle cf x hint) (P0 E) (fun _ => P0 E).
  Proof.
    intros EE. unfold release_by_handle.
    eapply safeS_bind; [apply an_safe0; [apply an_get_handle | auto]|]. cbv beta. intros r.
    destruct r as [[mm rev]|e]; [apply rbh_blocks_safe; auto | sret; exact X].
  Qed.

  (* ---------------------------------------------------------------- AutoAssign *)
  Definition Qopt c E (r : option (block * N)) : assertion :=
    match r with Some (b, rev) => P0 (EK E c rev b) | None => P0 E end.

  Lemma try_affine_safe fuel : forall E c, Eternal E -> safe (try_affine cf fx fuel h c) (P0 E) (Qopt c E).
  Proof.
    induction fuel as [|f IH]; intros E c EE; cbn [try_affine]; [sret; exact X|].
    eapply safeS_bind.
    { eapply safeS_pre; [|eapply safe_get_aff with (c := c) (E := E) (m := false) (ao := None); auto].
      intros s W I X. eapply A_switch. exact X. }
    cbv beta. intros r. destruct r as [aff|e]; unfold Qget_aff.
    2:{ destruct e; sret; eapply P0_of; exact X. }
    destruct aff as [st affrev].
    eapply safeS_bind; [eapply get_block_from_aff_safe; auto|]. cbv beta. intros g.
    destruct g as [[b brev]|e]; unfold QB.
    - destruct (Nat.leb 1 (num_free b)); sret; unfold Qopt.
      + eapply P0_of. exact X.
      + eapply P0_EK. exact X.
    - destruct e; try (sret; eapply P0_of; exact X).
      eapply safeS_pre; [|apply IH; auto]. intros s W I X. eapply P0_of; exact X.
  Qed.

  Definition Qscan E (r : option (block * N * N) * list N) : assertion :=
    match fst r with Some (b, rev, c) => P0 (EK E c rev b) | None => P0 E end.

  Lemma scan_affine_safe rem : forall E, Eternal E -> safe (scan_affine cf fx rem h) (P0 E) (Qscan E).
  Proof.
    induction rem as [|c rest IH]; intros E EE; cbn [scan_affine]; [sret; exact X|].
    eapply safeS_bind; [apply try_affine_safe; auto|]. cbv beta. intros r.
    destruct r as [[b rev]|]; unfold Qopt; [sret; exact X | apply IH; auto].
  Qed.

  Lemma find_usable_safe E : Eternal E -> safe (find_usable cf h) (P0 E) (fun _ => P0 E).
  Proof.
    intros EE. unfold find_usable. apply safe_neutral; auto; [exact Logic.I|].
    intros rs. destruct rs; try (sret; exact X). destruct (find _ _); sret; exact X.
  Qed.

  Definition Qcr c E (r : claim_res) : assertion :=
    match r with CRBlock (b, rev) => P0 (EK E c rev b) | _ => P0 E end.

  Lemma claim_inner_safe fuel : forall E c, Eternal E -> safe (claim_inner cf fx fuel h c) (P0 E) (Qcr c E).
  Proof.
    induction fuel as [|f IH]; intros E c EE; cbn [claim_inner]; [sret; exact X|].
    eapply safeS_bind.
    { eapply safeS_pre; [|eapply get_pending_aff_safe with (c := c) (E := E) (m := false) (ao := None); auto].
      intros s W I X. eapply A_switch. exact X. }
    cbv beta. intros pa. destruct pa as [aff|e]; unfold Qpending.
    - destruct aff as [st affrev].
      eapply safeS_bind; [eapply get_block_from_aff_safe; auto|]. cbv beta. intros g.
      destruct g as [[b brev]|e]; unfold QB.
      + destruct (Nat.leb 1 (num_free b)); sret; unfold Qcr.
        * eapply P0_of. exact X.
        * eapply P0_EK. exact X.
      + destruct e; try (sret; eapply P0_of; exact X).
        eapply safeS_pre; [|apply IH; auto]. intros s W I X. eapply P0_of; exact X.
    - destruct e; try (sret; eapply P0_of; exact X).
      eapply safeS_pre; [|apply IH; auto]. intros s W I X. eapply P0_of; exact X.
  Qed.

  Definition Qco E (r : res (block * N * N)) : assertion :=
    match r with inl (b, rev, c) => P0 (EK E c rev b) | inr _ => P0 E end.

  Lemma claim_outer_safe fuel : forall E, Eternal E -> safe (claim_outer cf fx fuel h) (P0 E) (Qco E).
  Proof.
    induction fuel as [|f IH]; intros E EE; cbn [claim_outer]; [sret; exact X|].
    eapply safeS_bind; [apply find_usable_safe; auto|]. cbv beta. intros u.
    destruct u as [c|e]; [|sret; exact X].
    eapply safeS_bind; [apply claim_inner_safe; auto|]. cbv beta. intros r.
    destruct r as [[b rev]| |e]; unfold Qcr; [sret; exact X | apply IH; auto | sret; exact X].
  Qed.

  Definition Qfc E (r : res (block * N * N * bool) * list N) : assertion :=
    match fst r with inl (b, rev, c, _) => P0 (EK E c rev b) | inr _ => P0 E end.

  Lemma find_or_claim_safe E rem allow : Eternal E -> safe (find_or_claim cf fx rem h allow) (P0 E) (Qfc E).
  Proof.
    intros EE. unfold find_or_claim.
    eapply safeS_bind; [apply scan_affine_safe; auto|]. cbv beta. intros sres.
    destruct sres as [[[[b rev] c]|] rest]; unfold Qscan; cbn [fst].
    - sret. exact X.
    - destruct (negb allow); [sret; exact X|]. destruct (cf_autoalloc cf); [|sret; exact X].
      eapply safeS_bind; [apply claim_outer_safe; auto|]. cbv beta. intros r.
      destruct r as [[[b rev] c]|e]; unfold Qco; sret; exact X.
  Qed.

  Lemma assign_retry_safe (E : assertion) fuel : forall E' b rev c rem x tag, Eternal E' -> (forall s, E' s -> E s) ->
    (forall s, E' s -> Known (KBlock c) rev (VBlock b) s) ->
    safe (assign_retry cf fuel (b, rev) c rem x tag h) (P0 E') (fun _ => P0 E).
  Proof.
    induction fuel as [|f IH]; intros E' b rev c rem x tag EE IMP KN; cbn [assign_retry].
    - sret. eapply P0_weaken; [|exact X]. exact IMP.
    - eapply safeS_bind; [eapply assign_from_block_safe; eauto|]. cbv beta. intros r.
      assert (FIN : forall l : list N, safe (Ret l) (P0 E') (fun _ => P0 E)).
      { intros l. sret. eapply P0_weaken; [|exact X]. exact IMP. }
      destruct r as [ips|e]; [apply FIN|]. destruct e; try apply FIN.
      eapply safeS_bind; [apply get_block0_safe; auto|]. cbv beta. intros g.
      destruct g as [[b2 rev2]|e]; unfold QB0; [|apply FIN].
      apply IH; [apply Eternal_EK; auto | intros s0 [Y _]; auto | intros s0 [_ K]; exact K].
  Qed.

  Lemma na_try_safe fuel : forall E c rem x tag, Eternal E -> safe (na_try cf fuel c rem x tag h) (P0 E) (fun _ => P0 E).
  Proof.
    induction fuel as [|f IH]; intros E c rem x tag EE; cbn [na_try]; [sret; exact X|].
    eapply safeS_bind; [apply get_block0_safe; auto|]. cbv beta. intros g.
    destruct g as [[b rev]|e]; unfold QB0; [|sret; exact X].
    eapply safeS_bind.
    { eapply assign_from_block_safe with (E := EK E c rev b); [apply Eternal_EK; auto | intros s0 [_ K]; exact K]. }
    cbv beta. intros r.
    assert (FIN : forall l : list N, safe (Ret l) (P0 (EK E c rev b)) (fun _ => P0 E)) by (intros l; sret; p0w).
    destruct r as [ips|e]; [apply FIN|]. destruct e; try apply FIN.
    eapply safeS_pre; [|apply IH; auto]. intros s W I X. p0w.
  Qed.

  Lemma na_loop_safe order : forall E ips num x tag, Eternal E -> safe (na_loop cf order ips num x tag h) (P0 E) (fun _ => P0 E).
  Proof.
    induction order as [|c rest IH]; intros E ips num x tag EE; cbn [na_loop]; [sret; exact X|].
    destruct (Nat.leb num (length ips)); [sret; exact X|].
    eapply safeS_bind; [apply na_try_safe; auto|]. cbv beta. intros new. apply IH; auto.
  Qed.

  Lemma aa_loop_safe fuel : forall E ips rem_aff owned num x tag, Eternal E ->
    safe (aa_loop cf fx fuel ips rem_aff owned num x tag h) (P0 E) (fun _ => P0 E).
  Proof.
    induction fuel as [|f IH]; intros E ips rem_aff owned num x tag EE; cbn [aa_loop].
    - destruct (Nat.leb num (length ips)); sret; exact X.
    - destruct (Nat.leb num (length ips)); [sret; exact X|].
      eapply safeS_bind; [apply find_or_claim_safe; auto|]. cbv beta. intros fc.
      destruct fc as [[[[[b rev] c] newly]|e] rem']; unfold Qfc; cbn [fst].
      + eapply safeS_bind.
        { eapply assign_retry_safe with (E := E) (E' := EK E c rev b);
            [apply Eternal_EK; auto | intros s0 [Y _]; auto | intros s0 [_ K]; exact K]. }
        cbv beta. intros new. apply IH; auto.
      + destruct e; try (sret; exact X).
        destruct (negb (cf_strict cf)); [|sret; exact X].
        eapply safeS_bind; [apply na_loop_safe; auto|]. cbv beta. intros ips'. sret. exact X.
  Qed.

  Lemma auto_assign_safe E x tag num : Eternal E -> safe (auto_assign cf fx h x tag num) (P0 E) (fun _ => P0 E).
  Proof.
    intros EE. unfold auto_assign. apply safe_neutral; auto; [exact Logic.I|].
    intros rs. destruct rs; try (sret; exact X). apply aa_loop_safe; auto.
  Qed.

  (* ---------------------------------------------------------------- every operation *)
  Theorem compile22_safe o : safe (compile22 cf fx h o) Ptop Qtop.
  Proof.
    assert (PRE : forall s, wf s -> Inv s -> Ptop s -> P0 (fun _ => True) s).
    { intros s _ _ _. split; [exact Logic.I|]. split; [discriminate | exact Logic.I]. }
    eapply safeS_pre; [exact PRE|].
    eapply safeS_post with (Q := fun _ => P0 (fun _ => True)); [intros; exact Logic.I|].
    destruct o; cbn [compile22].
    - eapply safeS_post; [|eapply safeS_pre; [|eapply claim_aff_loop_safe with (E := fun _ => True) (m := false) (ao := None); apply Eternal_true]].
      + intros r s W I X. split; [exact Logic.I|]. split; [discriminate | exact Logic.I].
      + intros s W I X. eapply A_switch. exact X.
    - eapply safeS_post; [|eapply safeS_pre; [|eapply release_aff_loop_safe with (E := fun _ => True) (m := false) (ao := None); apply Eternal_true]].
      + intros r s W I X. eapply A_switch. exact X.
      + intros s W I X. eapply A_switch. exact X.
    - apply release_host_affs_safe. apply Eternal_true.
    - apply auto_assign_safe. apply Eternal_true.
    - apply assign_ip_loop_safe. apply Eternal_true.
    - apply release_ips_safe. apply Eternal_true.
    - apply release_by_handle_safe. apply Eternal_true.
  Qed.

End HostOps.
