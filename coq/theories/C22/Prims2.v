(* C22 — triples (RG2.safeP) of the single-access primitives under same-host concurrency.  The assertion carried
   through a program is  A2 c E mr ph :
     E   an eternal fact (revisions seen),
     mr  = Some r      : Psi h c r      (while the affinity (h,c) carries revision r, block c names h and is newer than r),
     ph  = Some (b, a) : Phi h c b a    (block revision b was read before the affinity was marked at revision a). *)
From Coq Require Import List NArith Bool Arith Lia.
From Verif.Common Require Import Cas.
From Verif.C19 Require Import Model BlockLemmas.
From Verif.C22 Require Import Model RG StepLemmas Prims RG2.
Import ListNotations.
Open Scope N_scope.

Definition ER (E : assertion) (rev : N) : assertion := fun s => E s /\ rev < st_next s.
Lemma Eternal_ER E rev : Eternal E -> Eternal (ER E rev).
Proof. intros EE s rq W [X Y]. split; [apply EE; auto|]. pose proof (next_mono s rq W). lia. Qed.

Lemma Eternal_Stable2 E : Eternal E -> Stable2 E.
Proof. intros EE s rq h' W I X _. apply EE; auto. Qed.

Lemma keq_aff_blk h c c' : key_eqb (KAff h c) (KBlock c') = false. Proof. reflexivity. Qed.
Lemma keq_blk_aff h c c' : key_eqb (KBlock c') (KAff h c) = false. Proof. reflexivity. Qed.
Lemma keq_handle_blk x c' : key_eqb (KHandle x) (KBlock c') = false. Proof. reflexivity. Qed.
Lemma keq_handle_aff x h c : key_eqb (KHandle x) (KAff h c) = false. Proof. reflexivity. Qed.
Lemma keq_aff h c c' : key_eqb (KAff h c) (KAff h c') = N.eqb c c'.
Proof. simpl. rewrite N.eqb_refl. reflexivity. Qed.
Lemma keq_blk c c' : key_eqb (KBlock c) (KBlock c') = N.eqb c c'. Proof. reflexivity. Qed.

Section Host2.
  Variable h : N.
  Notation safe := (safeP h).

  Definition A2 (c : N) (E : assertion) (mr : option N) (ph : option (N * N)) : assertion :=
    fun s => E s /\
             match mr with Some r => Psi h c r s | None => True end /\
             match ph with Some (brv, arv) => Phi h c brv arv s | None => True end.

  Lemma A2_stable c E mr ph : Eternal E -> Stable2 (A2 c E mr ph).
  Proof.
    intros EE s rq h' W I (X & Y & Z) GG. split; [apply EE; auto|]. split.
    - destruct mr; auto. eapply Stable2_Psi; eauto.
    - destruct ph as [[brv arv]|]; auto. eapply Stable2_Phi; eauto.
  Qed.

  Lemma A2_relax c (E E' : assertion) mr ph mr' ph' s :
    (forall s, E s -> E' s) -> (mr' = None \/ mr' = mr) -> (ph' = None \/ ph' = ph) ->
    A2 c E mr ph s -> A2 c E' mr' ph' s.
  Proof.
    intros IMP M O (X & Y & Z). split; auto. split.
    - destruct M as [->| ->]; simpl; auto.
    - destruct O as [->| ->]; simpl; auto.
  Qed.

  Lemma ret_self2 {R} (r : R) (Q : R -> assertion) : safe (Ret r) (Q r) Q.
  Proof. simpl; auto. Qed.

  (* the assertion survives the client's own step, because the step satisfies GP h *)
  Lemma A2_own c E mr ph s rq : Eternal E -> wf s -> Inv s -> A2 c E mr ph s ->
    GP h s (fst (exec s rq)) -> A2 c E mr ph (fst (exec s rq)).
  Proof. intros EE W I X GG. eapply A2_stable; eauto. Qed.

  (* ---------------------------------------------------------------- GP of the writes *)
  Lemma GP_aff_set_nc s s' c st r : set_spec s s' (KAff h c) (mk (KAff h c) (VAff st) r) -> st <> AConfirmed -> GP h s s'.
  Proof.
    intros SP NC. apply GP_of_G; [eapply G_aff_set; eauto | |]; destruct SP as [_ LK].
    - intros c' e'. rewrite LK, keq_aff. destruct (N.eqb c c'); auto.
      intros X EV. inversion X; subst. simpl in EV. congruence.
    - intros c'. rewrite LK, keq_aff_blk. reflexivity.
  Qed.

  Lemma GP_aff_del s s' c : del_spec s s' (KAff h c) -> GP h s s'.
  Proof.
    intros SP. apply GP_of_G; [eapply G_aff_del; eauto | |]; destruct SP as [_ LK].
    - intros c' e'. rewrite LK, keq_aff. destruct (N.eqb c c'); auto. discriminate.
    - intros c'. rewrite LK, keq_aff_blk. reflexivity.
  Qed.

  Lemma GP_aff_confirm s s' c r e0 : set_spec s s' (KAff h c) (mk (KAff h c) (VAff AConfirmed) r) ->
    s_lookup s (KAff h c) = Some e0 -> Psi h c (e_rev e0) s -> GP h s s'.
  Proof.
    intros SP L0 [_ PS]. constructor; [eapply G_aff_set; eauto | |]; destruct SP as [_ LK].
    - intros c' e'. rewrite LK, keq_aff. destruct (N.eqb c c') eqn:EC.
      + apply N.eqb_eq in EC. subst c'. intros _ _ _. destruct (PS e0 L0 eq_refl) as (eb & ME & LT).
        exists e0, eb. auto.
      + intros X _ Y. contradiction.
    - intros c' eb [L M] NM. exfalso. apply (NM eb). split; auto. rewrite LK, keq_aff_blk. exact L.
  Qed.

  Lemma GP_handle_set s s' x e : set_spec s s' (KHandle x) e -> GP h s s'.
  Proof.
    intros SP. apply GP_of_G; [eapply G_handle_set; eauto | |]; destruct SP as [_ LK].
    - intros c' e'. rewrite LK, keq_handle_aff. auto.
    - intros c'. rewrite LK, keq_handle_blk. reflexivity.
  Qed.
  Lemma GP_handle_del s s' x : del_spec s s' (KHandle x) -> GP h s s'.
  Proof.
    intros SP. apply GP_of_G; [eapply G_handle_del; eauto | |]; destruct SP as [_ LK].
    - intros c' e'. rewrite LK, keq_handle_aff. auto.
    - intros c'. rewrite LK, keq_handle_blk. reflexivity.
  Qed.

  Lemma GP_blk_create s s' c b r : set_spec s s' (KBlock c) (mk (KBlock c) (VBlock b) r) ->
    s_lookup s (KBlock c) = None -> bk_aff b = Some h -> blk_empty b = true -> GP h s s'.
  Proof.
    intros SP NL AF EM.
    assert (NB : blk_at s c = None) by (unfold blk_at; rewrite NL; reflexivity).
    apply GP_of_G_blk; [eapply G_blk_create; eauto | |]; destruct SP as [_ LK].
    - intros c'. rewrite LK, keq_blk_aff. reflexivity.
    - intros c' eb [L M]. destruct (N.eqb c c') eqn:EC.
      + apply N.eqb_eq in EC. subst c'. congruence.
      + exists eb. split; auto. rewrite LK, keq_blk, EC. exact L.
  Qed.

  Lemma GP_blk_keep s s' c b0 b1 r e0 : set_spec s s' (KBlock c) (mk (KBlock c) (VBlock b1) r) ->
    s_lookup s (KBlock c) = Some e0 -> e_val e0 = VBlock b0 -> bk_aff b1 = bk_aff b0 -> GP h s s'.
  Proof.
    intros SP L0 EV AF.
    assert (B0 : blk_at s c = Some b0) by (unfold blk_at; rewrite L0, EV; reflexivity).
    apply GP_of_G_blk; [eapply G_blk_keep; eauto | |]; destruct SP as [_ LK].
    - intros c'. rewrite LK, keq_blk_aff. reflexivity.
    - intros c' eb [L (b & EB & AB)]. destruct (N.eqb c c') eqn:EC.
      + apply N.eqb_eq in EC. subst c'. rewrite L0 in L. inversion L; subst eb.
        exists (mk (KBlock c) (VBlock b1) r). split; [rewrite LK, keq_blk, N.eqb_refl; reflexivity|].
        exists b1. split; auto. rewrite EV in EB. inversion EB; subst. congruence.
      + exists eb. split; [rewrite LK, keq_blk, EC; exact L|]. exists b; auto.
  Qed.

  Lemma GP_blk_unowned_del s s' c b0 e0 : del_spec s s' (KBlock c) ->
    s_lookup s (KBlock c) = Some e0 -> e_val e0 = VBlock b0 -> bk_aff b0 = None -> GP h s s'.
  Proof.
    intros SP L0 EV AF.
    assert (B0 : blk_at s c = Some b0) by (unfold blk_at; rewrite L0, EV; reflexivity).
    apply GP_of_G_blk; [eapply G_blk_del; eauto | |]; destruct SP as [_ LK].
    - intros c'. rewrite LK, keq_blk_aff. reflexivity.
    - intros c' eb [L (b & EB & AB)]. destruct (N.eqb c c') eqn:EC.
      + apply N.eqb_eq in EC. subst c'. rewrite L0 in L. inversion L; subst eb. congruence.
      + exists eb. split; [rewrite LK, keq_blk, EC; exact L|]. exists b; auto.
  Qed.

  (* the owner gives the block up (delete, or clear the field): allowed by Phi *)
  Lemma GP_blk_giveup s s' c e0 arv (GG : G h s s') :
    (forall k', s_lookup s' k' = if key_eqb (KBlock c) k' then None else s_lookup s k') \/
    (exists e1, forall k', s_lookup s' k' = if key_eqb (KBlock c) k' then Some e1 else s_lookup s k') ->
    s_lookup s (KBlock c) = Some e0 -> Phi h c (e_rev e0) arv s -> GP h s s'.
  Proof.
    intros LK L0 (BA & AN & AFF & CF).
    assert (LKA : forall c', s_lookup s' (KAff h c') = s_lookup s (KAff h c')).
    { intros c'. destruct LK as [LK|[e1 LK]]; rewrite LK, keq_blk_aff; reflexivity. }
    assert (LKB : forall c', c' <> c -> s_lookup s' (KBlock c') = s_lookup s (KBlock c')).
    { intros c' NE. assert (N.eqb c c' = false) by (apply N.eqb_neq; congruence).
      destruct LK as [LK|[e1 LK]]; rewrite LK, keq_blk, H; reflexivity. }
    constructor; auto.
    - intros c' e' L EV X. exfalso. apply X. rewrite <- LKA. exact L.
    - intros c' eb [L M] NM. destruct (N.eq_dec c' c) as [->|NE].
      + rewrite L0 in L. inversion L; subst eb.
        destruct AFF as [N0|(e & La & LE)]; [left; auto|]. right. exists e. split; auto. lia.
      + exfalso. apply (NM eb). split; auto. rewrite LKB; auto.
  Qed.

  Lemma Phi_not_confirmed s c e0 b0 arv : s_lookup s (KBlock c) = Some e0 -> e_val e0 = VBlock b0 ->
    Phi h c (e_rev e0) arv s -> aff_at s h c <> Some AConfirmed.
  Proof.
    intros L0 EV (_ & _ & _ & CF). unfold aff_at. destruct (s_lookup s (KAff h c)) as [e|] eqn:L; [|discriminate].
    destruct (e_val e) as [b|st|mm] eqn:EA; try discriminate. intros X. inversion X; subst.
    specialize (CF e e0 eq_refl EA L0). lia.
  Qed.

  (* ---------------------------------------------------------------- affinity object (h, c) *)
  Definition Qaff2 c E mr ph (r : res (affst * N)) : assertion :=
    match r with inl (_, rev) => A2 c (ER E rev) mr ph | inr _ => A2 c E mr ph end.

  Lemma safe2_get_aff c E mr ph : Eternal E -> safe (get_aff h c) (A2 c E mr ph) (Qaff2 c E mr ph).
  Proof.
    intros EE. unfold get_aff. cbn [safeP]. intros s W I Ps. rewrite exec_get. cbn [fst snd].
    split; [apply GP_refl|]. split; [exact I|]. split; [|discriminate].
    assert (SAME : forall r : res (affst * N), (exists e, r = inr e) ->
              exists P', Stable2 P' /\ P' s /\ safe (Ret r) P' (Qaff2 c E mr ph)).
    { intros r [e ->]. exists (A2 c E mr ph). split; [apply A2_stable; auto|]. split; [exact Ps|]. simpl; auto. }
    destruct (s_lookup s (KAff h c)) as [e|] eqn:L; [|apply SAME; eauto].
    destruct (e_val e) as [b|st|mm] eqn:EV; [apply SAME; eauto | | apply SAME; eauto].
    exists (A2 c (ER E (e_rev e)) mr ph). split; [apply A2_stable; apply Eternal_ER; auto|]. split; [|simpl; auto].
    destruct Ps as (X & Y & Z). split; auto. split; auto. destruct W as [_ RB]. eapply RB; eauto.
  Qed.

  Definition Qrev2 c E mr ph (r : res N) : assertion :=
    match r with inl rev => A2 c (ER E rev) mr ph | inr _ => A2 c E mr ph end.

  Lemma ER_after_write (E : assertion) s rq : Eternal E -> wf s -> E s ->
    st_next (fst (exec s rq)) = st_next s + 1 -> ER E (st_next s) (fst (exec s rq)).
  Proof. intros EE W X NX. split; [apply EE; auto | lia]. Qed.

  Lemma safe2_create_aff c E mr ph st : Eternal E -> st <> AConfirmed ->
    safe (create_aff h c st) (A2 c E mr ph) (Qrev2 c E mr ph).
  Proof.
    intros EE NC. unfold create_aff. cbn [safeP]. intros s W I Ps.
    destruct (exec_create s (KAff h c) (VAff st)) as [[_ X]|[_ (s' & X & SP)]]; rewrite X; cbn [fst snd].
    - split; [apply GP_refl|]. split; [exact I|]. split; [|discriminate].
      exists (A2 c E mr ph). split; [apply A2_stable; auto|]. split; [exact Ps|]. simpl; auto.
    - assert (GG : GP h s s') by (eapply GP_aff_set_nc; eauto).
      split; [exact GG|]. split; [eapply Inv_aff_set; eauto; congruence|]. split; [|discriminate].
      exists (A2 c (ER E (st_next s)) mr ph). split; [apply A2_stable; apply Eternal_ER; auto|]. split; [|simpl; auto].
      assert (S' : s' = fst (exec s (RCreate (KAff h c) (VAff st)))) by (rewrite X; reflexivity).
      rewrite S' in *. pose proof (A2_own c E mr ph s _ EE W I Ps GG) as (X1 & Y & Z).
      split; [|split; auto]. split; auto. destruct SP as [NX _]. lia.
  Qed.

  (* update to a non-confirmed state *)
  Lemma safe2_update_aff c E mr ph st rev : Eternal E -> st <> AConfirmed ->
    safe (update_aff h c st rev) (A2 c E mr ph) (Qrev2 c E mr ph).
  Proof.
    intros EE NC. unfold update_aff. cbn [safeP]. intros s W I Ps.
    assert (NOP : forall r : res N, (exists e, r = inr e) ->
              exists P', Stable2 P' /\ P' s /\ safe (Ret r) P' (Qrev2 c E mr ph)).
    { intros r [e ->]. exists (A2 c E mr ph). split; [apply A2_stable; auto|]. split; [exact Ps|]. simpl; auto. }
    destruct (exec_update s (KAff h c) (VAff st) rev) as [[_ X]|[(e0 & _ & _ & X)|(e0 & s' & _ & _ & X & SP)]];
      rewrite X; cbn [fst snd].
    - split; [apply GP_refl|]. split; [exact I|]. split; [apply NOP; eauto | intros _; apply NOP; eauto].
    - split; [apply GP_refl|]. split; [exact I|]. split; [apply NOP; eauto | intros _; apply NOP; eauto].
    - assert (GG : GP h s s') by (eapply GP_aff_set_nc; eauto).
      split; [exact GG|]. split; [eapply Inv_aff_set; eauto; congruence|]. split; [|intros _; apply NOP; eauto].
      exists (A2 c (ER E (st_next s)) mr ph). split; [apply A2_stable; apply Eternal_ER; auto|]. split; [|simpl; auto].
      assert (S' : s' = fst (exec s (RUpdate (KAff h c) (VAff st) rev))) by (rewrite X; reflexivity).
      rewrite S' in *. pose proof (A2_own c E mr ph s _ EE W I Ps GG) as (X1 & Y & Z).
      split; [|split; auto]. split; auto. destruct SP as [NX _]. lia.
  Qed.

  (* the release marks the affinity pendingDeletion after it read block revision brv: Phi *)
  Definition Qpd2 c E mr brv (r : res N) : assertion :=
    match r with inl rev => A2 c (ER E rev) mr (Some (brv, rev)) | inr _ => A2 c E mr None end.

  Lemma safe2_update_aff_pd c E mr ph rev brv b0 : Eternal E ->
    (forall s, E s -> Known (KBlock c) brv (VBlock b0) s) ->
    safe (update_aff h c APendingDeletion rev) (A2 c E mr ph) (Qpd2 c E mr brv).
  Proof.
    intros EE KN. unfold update_aff. cbn [safeP]. intros s W I Ps.
    assert (NOP : forall r : res N, (exists e, r = inr e) ->
              exists P', Stable2 P' /\ P' s /\ safe (Ret r) P' (Qpd2 c E mr brv)).
    { intros r [e ->]. exists (A2 c E mr None). split; [apply A2_stable; auto|]. split; [|simpl; auto].
      eapply A2_relax; [| | |exact Ps]; auto. }
    destruct (exec_update s (KAff h c) (VAff APendingDeletion) rev) as [[_ X]|[(e0 & _ & _ & X)|(e0 & s' & _ & _ & X & SP)]];
      rewrite X; cbn [fst snd].
    - split; [apply GP_refl|]. split; [exact I|]. split; [apply NOP; eauto | intros _; apply NOP; eauto].
    - split; [apply GP_refl|]. split; [exact I|]. split; [apply NOP; eauto | intros _; apply NOP; eauto].
    - assert (GG : GP h s s') by (eapply GP_aff_set_nc; eauto; discriminate).
      split; [exact GG|]. split; [eapply Inv_aff_set; eauto; congruence|]. split; [|intros _; apply NOP; eauto].
      exists (A2 c (ER E (st_next s)) mr (Some (brv, st_next s))).
      split; [apply A2_stable; apply Eternal_ER; auto|]. split; [|simpl; auto].
      assert (S' : s' = fst (exec s (RUpdate (KAff h c) (VAff APendingDeletion) rev))) by (rewrite X; reflexivity).
      pose proof Ps as (E0 & _ & _). destruct (KN s E0) as [BL _].
      rewrite S' in *. pose proof (A2_own c E mr ph s _ EE W I Ps GG) as (X1 & Y & Z).
      destruct SP as [NX LK].
      split; [split; auto; lia|]. split; auto.
      split; [exact BL|]. split; [lia|]. split.
      + right. exists (mk (KAff h c) (VAff APendingDeletion) (st_next s)). split; [|simpl; lia].
        rewrite LK, key_eqb_refl. reflexivity.
      + intros e eb L EV _. rewrite LK, key_eqb_refl in L. inversion L; subst. simpl in EV. discriminate.
  Qed.

  (* confirm: needs Psi for the revision sent *)
  Lemma safe2_confirm c E ph rev : Eternal E ->
    safe (update_aff h c AConfirmed rev) (A2 c E (Some rev) ph) (fun _ => A2 c E None ph).
  Proof.
    intros EE. unfold update_aff. cbn [safeP]. intros s W I Ps.
    assert (WK : A2 c E None ph s) by (eapply A2_relax; [| | |exact Ps]; auto).
    assert (NOP : forall r : res N, exists P', Stable2 P' /\ P' s /\ safe (Ret r) P' (fun _ => A2 c E None ph)).
    { intros r. exists (A2 c E None ph). split; [apply A2_stable; auto|]. split; [exact WK|]. simpl; auto. }
    destruct (exec_update s (KAff h c) (VAff AConfirmed) rev) as [[_ X]|[(e0 & _ & _ & X)|(e0 & s' & L0 & R0 & X & SP)]];
      rewrite X; cbn [fst snd].
    - split; [apply GP_refl|]. split; [exact I|]. split; [exact (NOP (inr EOther)) | intros _; exact (NOP (inr EOther))].
    - split; [apply GP_refl|]. split; [exact I|]. split; [exact (NOP (inr EOther)) | intros _; exact (NOP (inr EOther))].
    - destruct Ps as (E0 & PS & Z). subst rev.
      assert (GG : GP h s s') by (eapply GP_aff_confirm; eauto).
      split; [exact GG|]. split.
      { eapply Inv_aff_set; eauto. intros _. destruct PS as [_ PS]. destruct (PS e0 L0 eq_refl) as (eb & ME & _).
        destruct (mine_blk_at _ _ _ _ ME) as (b & B & AF). exists b; auto. }
      split; [|intros _; exact (NOP (inr EOther))].
      exists (A2 c E None ph). split; [apply A2_stable; auto|]. split; [|simpl; auto].
      assert (S' : s' = fst (exec s (RUpdate (KAff h c) (VAff AConfirmed) (e_rev e0)))) by (rewrite X; reflexivity).
      rewrite S' in *. eapply A2_own; eauto.
  Qed.

  Lemma safe2_delete_aff c E mr ph rev : Eternal E ->
    safe (delete_aff h c rev) (A2 c E mr ph) (fun _ => A2 c E mr ph).
  Proof.
    intros EE. unfold delete_aff. cbn [safeP]. intros s W I Ps.
    assert (NOP : forall r : res unit, exists P', Stable2 P' /\ P' s /\ safe (Ret r) P' (fun _ => A2 c E mr ph)).
    { intros r. exists (A2 c E mr ph). split; [apply A2_stable; auto|]. split; [exact Ps|]. simpl; auto. }
    destruct (exec_delete s (KAff h c) rev W) as [[_ X]|[(e0 & _ & _ & X)|(e0 & s' & _ & _ & X & SP)]];
      rewrite X; cbn [fst snd].
    - split; [apply GP_refl|]. split; [exact I|]. split; [exact (NOP (inl tt)) | intros _; exact (NOP (inl tt))].
    - split; [apply GP_refl|]. split; [exact I|]. split; [exact (NOP (inl tt)) | intros _; exact (NOP (inl tt))].
    - assert (GG : GP h s s') by (eapply GP_aff_del; eauto).
      split; [exact GG|]. split; [eapply Inv_aff_del; eauto|]. split; [|intros _; exact (NOP (inl tt))].
      exists (A2 c E mr ph). split; [apply A2_stable; auto|]. split; [|simpl; auto].
      assert (S' : s' = fst (exec s (RDelete (KAff h c) rev))) by (rewrite X; reflexivity).
      rewrite S' in *. eapply A2_own; eauto.
  Qed.
  (* ---------------------------------------------------------------- blocks *)
  Lemma cas_entry s c rev b0 e0 : Known (KBlock c) rev (VBlock b0) s ->
    s_lookup s (KBlock c) = Some e0 -> e_rev e0 = rev -> e_val e0 = VBlock b0.
  Proof. intros [_ K] L R. apply K; auto. Qed.

  Definition Qblk2 c c' E mr ph (r : res (block * N)) : assertion :=
    match r with inl (b, rev) => A2 c (EK E c' rev b) mr ph | inr _ => A2 c E mr ph end.

  Lemma safe2_get_block c c' E mr ph : Eternal E -> safe (get_block c') (A2 c E mr ph) (Qblk2 c c' E mr ph).
  Proof.
    intros EE. unfold get_block. cbn [safeP]. intros s W I Ps. rewrite exec_get. cbn [fst snd].
    split; [apply GP_refl|]. split; [exact I|]. split; [|discriminate].
    assert (SAME : forall r : res (block * N), (exists e, r = inr e) ->
              exists P', Stable2 P' /\ P' s /\ safe (Ret r) P' (Qblk2 c c' E mr ph)).
    { intros r [e ->]. exists (A2 c E mr ph). split; [apply A2_stable; auto|]. split; [exact Ps|]. simpl; auto. }
    destruct (s_lookup s (KBlock c')) as [e|] eqn:L; [|apply SAME; eauto].
    destruct (e_val e) as [b|st|mm] eqn:EV; [|apply SAME; eauto | apply SAME; eauto].
    exists (A2 c (EK E c' (e_rev e) b) mr ph). split; [apply A2_stable; apply Eternal_EK; auto|]. split; [|simpl; auto].
    destruct Ps as (X & Y & Z). split; auto. split; auto. rewrite <- EV. apply Known_of_lookup; auto.
  Qed.

  Lemma Known_fresh s s' k v : wf s' -> set_spec s s' k (mk k v (st_next s)) -> Known k (st_next s) v s'.
  Proof.
    intros W' [_ LK].
    change (st_next s) with (e_rev (mk k v (st_next s))) at 1.
    change v with (e_val (mk k v (st_next s))) at 2.
    apply Known_of_lookup; auto. rewrite LK, key_eqb_refl. reflexivity.
  Qed.

  (* create: the new block names h and is newer than every revision seen so far *)
  Definition Qcreate2 c E r0 mr ph (r : res (block * N)) : assertion :=
    match r with inl (b, rev) => A2 c (EK E c rev b) (Some r0) ph | inr _ => A2 c E mr ph end.

  Lemma safe2_create_block c E mr ph b0 r0 : Eternal E -> bk_aff b0 = Some h -> blk_empty b0 = true ->
    (forall s, E s -> r0 < st_next s) ->
    safe (create_block c b0) (A2 c E mr ph) (Qcreate2 c E r0 mr ph).
  Proof.
    intros EE AF EM RS. unfold create_block. cbn [safeP]. intros s W I Ps.
    destruct (exec_create s (KBlock c) (VBlock b0)) as [[_ X]|[NL (s' & X & SP)]]; rewrite X; cbn [fst snd].
    - split; [apply GP_refl|]. split; [exact I|]. split; [|discriminate].
      exists (A2 c E mr ph). split; [apply A2_stable; auto|]. split; [exact Ps|]. simpl; auto.
    - assert (NB : blk_at s c = None) by (unfold blk_at; rewrite NL; reflexivity).
      assert (GG : GP h s s') by (eapply GP_blk_create; eauto).
      split; [exact GG|]. split; [eapply Inv_blk_create; eauto|]. split; [|discriminate].
      exists (A2 c (EK E c (st_next s) b0) (Some r0) ph).
      split; [apply A2_stable; apply Eternal_EK; auto|]. split; [|simpl; auto].
      assert (S' : s' = fst (exec s (RCreate (KBlock c) (VBlock b0)))) by (rewrite X; reflexivity).
      assert (W' : wf s') by (rewrite S'; apply wf_exec; auto).
      pose proof Ps as (E0 & _ & _). pose proof (RS s E0) as R0.
      pose proof SP as [NX LK].
      assert (OWN : A2 c E mr ph s') by (rewrite S'; eapply A2_own; eauto; rewrite <- S'; exact GG).
      destruct OWN as (X1 & Y & Z).
      split; [split; auto; apply Known_fresh; auto|]. split; auto.
      split; [lia|]. intros e L ER.
      exists (mk (KBlock c) (VBlock b0) (st_next s)). split; [|simpl; lia].
      split; [rewrite LK, key_eqb_refl; reflexivity|]. exists b0; auto.
  Qed.

  (* update that keeps the Affinity field; if the block names h it also re-establishes Psi for any revision seen *)
  Definition Qupd2 c c' E mr ph (r : res (block * N)) : assertion :=
    match r with inl (b, rev) => A2 c (EK E c' rev b) mr ph | inr _ => A2 c E mr ph end.

  Lemma safe2_update_block c c' E mr ph b0 b' rev : Eternal E ->
    (forall s, E s -> Known (KBlock c') rev (VBlock b0) s) -> bk_aff b' = bk_aff b0 ->
    safe (update_block c' b' rev) (A2 c E mr ph) (Qupd2 c c' E mr ph).
  Proof.
    intros EE KN AF. unfold update_block. cbn [safeP]. intros s W I Ps.
    assert (NOP : forall r : res (block * N), (exists e, r = inr e) ->
              exists P', Stable2 P' /\ P' s /\ safe (Ret r) P' (Qupd2 c c' E mr ph)).
    { intros r [e ->]. exists (A2 c E mr ph). split; [apply A2_stable; auto|]. split; [exact Ps|]. simpl; auto. }
    destruct (exec_update s (KBlock c') (VBlock (bump b')) rev) as [[_ X]|[(e0 & _ & _ & X)|(e0 & s' & L0 & R0 & X & SP)]];
      rewrite X; cbn [fst snd].
    - split; [apply GP_refl|]. split; [exact I|]. split; [apply NOP; eauto | intros _; apply NOP; eauto].
    - split; [apply GP_refl|]. split; [exact I|]. split; [apply NOP; eauto | intros _; apply NOP; eauto].
    - pose proof Ps as (E0 & _ & _).
      assert (EV : e_val e0 = VBlock b0) by (eapply cas_entry; eauto).
      assert (B0 : blk_at s c' = Some b0) by (unfold blk_at; rewrite L0, EV; reflexivity).
      assert (GG : GP h s s') by (eapply GP_blk_keep; eauto).
      split; [exact GG|]. split; [eapply Inv_blk_keep; eauto|]. split; [|intros _; apply NOP; eauto].
      exists (A2 c (EK E c' (st_next s) (bump b')) mr ph).
      split; [apply A2_stable; apply Eternal_EK; auto|]. split; [|simpl; auto].
      assert (S' : s' = fst (exec s (RUpdate (KBlock c') (VBlock (bump b')) rev))) by (rewrite X; reflexivity).
      assert (W' : wf s') by (rewrite S'; apply wf_exec; auto).
      assert (OWN : A2 c E mr ph s') by (rewrite S'; eapply A2_own; eauto; rewrite <- S'; exact GG).
      destruct OWN as (X1 & Y & Z). split; [split; auto; apply Known_fresh; auto | split; auto].
  Qed.

  Definition Qbump2 c E r0 mr ph (r : res (block * N)) : assertion :=
    match r with inl (b, rev) => A2 c (EK E c rev b) (Some r0) ph | inr _ => A2 c E mr ph end.

  Lemma safe2_bump_mine c E mr ph b0 rev r0 : Eternal E ->
    (forall s, E s -> Known (KBlock c) rev (VBlock b0) s) -> bk_aff b0 = Some h ->
    (forall s, E s -> r0 < st_next s) ->
    safe (update_block c b0 rev) (A2 c E mr ph) (Qbump2 c E r0 mr ph).
  Proof.
    intros EE KN AF RS. unfold update_block. cbn [safeP]. intros s W I Ps.
    assert (NOP : forall r : res (block * N), (exists e, r = inr e) ->
              exists P', Stable2 P' /\ P' s /\ safe (Ret r) P' (Qbump2 c E r0 mr ph)).
    { intros r [e ->]. exists (A2 c E mr ph). split; [apply A2_stable; auto|]. split; [exact Ps|]. simpl; auto. }
    destruct (exec_update s (KBlock c) (VBlock (bump b0)) rev) as [[_ X]|[(e0 & _ & _ & X)|(e0 & s' & L0 & R0 & X & SP)]];
      rewrite X; cbn [fst snd].
    - split; [apply GP_refl|]. split; [exact I|]. split; [apply NOP; eauto | intros _; apply NOP; eauto].
    - split; [apply GP_refl|]. split; [exact I|]. split; [apply NOP; eauto | intros _; apply NOP; eauto].
    - pose proof Ps as (E0 & _ & _).
      assert (EV : e_val e0 = VBlock b0) by (eapply cas_entry; eauto).
      assert (B0 : blk_at s c = Some b0) by (unfold blk_at; rewrite L0, EV; reflexivity).
      assert (GG : GP h s s') by (eapply GP_blk_keep; eauto).
      split; [exact GG|]. split; [eapply Inv_blk_keep; eauto|]. split; [|intros _; apply NOP; eauto].
      exists (A2 c (EK E c (st_next s) (bump b0)) (Some r0) ph).
      split; [apply A2_stable; apply Eternal_EK; auto|]. split; [|simpl; auto].
      assert (S' : s' = fst (exec s (RUpdate (KBlock c) (VBlock (bump b0)) rev))) by (rewrite X; reflexivity).
      assert (W' : wf s') by (rewrite S'; apply wf_exec; auto).
      pose proof (RS s E0) as RL. pose proof SP as [NX LK].
      assert (OWN : A2 c E mr ph s') by (rewrite S'; eapply A2_own; eauto; rewrite <- S'; exact GG).
      destruct OWN as (X1 & Y & Z). split; [split; auto; apply Known_fresh; auto|]. split; auto.
      split; [lia|]. intros e L ER.
      exists (mk (KBlock c) (VBlock (bump b0)) (st_next s)). split; [|simpl; lia].
      split; [rewrite LK, key_eqb_refl; reflexivity|]. exists (bump b0); auto.
  Qed.

  (* the owner gives the block up *)
  Lemma safe2_clear_block c E mr b0 rev arv : Eternal E ->
    (forall s, E s -> Known (KBlock c) rev (VBlock b0) s) -> (bk_aff b0 = None \/ bk_aff b0 = Some h) ->
    safe (update_block c (clear_aff b0) rev) (A2 c E mr (Some (rev, arv))) (fun _ => A2 c E mr None).
  Proof.
    intros EE KN OW. unfold update_block. cbn [safeP]. intros s W I Ps.
    assert (WK : A2 c E mr None s) by (eapply A2_relax; [| | |exact Ps]; auto).
    assert (NOP : forall r : res (block * N), exists P', Stable2 P' /\ P' s /\ safe (Ret r) P' (fun _ => A2 c E mr None)).
    { intros r. exists (A2 c E mr None). split; [apply A2_stable; auto|]. split; [exact WK|]. simpl; auto. }
    destruct (exec_update s (KBlock c) (VBlock (bump (clear_aff b0))) rev) as [[_ X]|[(e0 & _ & _ & X)|(e0 & s' & L0 & R0 & X & SP)]];
      rewrite X; cbn [fst snd].
    - split; [apply GP_refl|]. split; [exact I|]. split; [exact (NOP (inr EOther)) | intros _; exact (NOP (inr EOther))].
    - split; [apply GP_refl|]. split; [exact I|]. split; [exact (NOP (inr EOther)) | intros _; exact (NOP (inr EOther))].
    - pose proof Ps as (E0 & _ & PH). subst rev.
      assert (EV : e_val e0 = VBlock b0) by (eapply cas_entry; eauto).
      assert (B0 : blk_at s c = Some b0) by (unfold blk_at; rewrite L0, EV; reflexivity).
      assert (G0 : G h s s') by (eapply G_blk_clear; eauto; try reflexivity; intros o; reflexivity).
      assert (GG : GP h s s').
      { eapply GP_blk_giveup; eauto. right. eexists. destruct SP as [_ LK]. exact LK. }
      split; [exact GG|]. split.
      { eapply Inv_blk_clear with (h := h); eauto. destruct OW as [O|O]; [left; exact O | right; split; [exact O|]].
        eapply Phi_not_confirmed; eauto. }
      split; [|intros _; exact (NOP (inr EOther))].
      exists (A2 c E mr None). split; [apply A2_stable; auto|]. split; [|simpl; auto].
      assert (S' : s' = fst (exec s (RUpdate (KBlock c) (VBlock (bump (clear_aff b0))) (e_rev e0)))) by (rewrite X; reflexivity).
      rewrite S' in *. eapply A2_own; eauto.
  Qed.

  Lemma safe2_delete_block_owner c E mr b0 rev arv : Eternal E ->
    (forall s, E s -> Known (KBlock c) rev (VBlock b0) s) -> (bk_aff b0 = None \/ bk_aff b0 = Some h) ->
    blk_empty b0 = true ->
    safe (delete_block c rev) (A2 c E mr (Some (rev, arv))) (fun _ => A2 c E mr None).
  Proof.
    intros EE KN OW EM. unfold delete_block. cbn [safeP]. intros s W I Ps.
    assert (WK : A2 c E mr None s) by (eapply A2_relax; [| | |exact Ps]; auto).
    assert (NOP : forall r : res unit, exists P', Stable2 P' /\ P' s /\ safe (Ret r) P' (fun _ => A2 c E mr None)).
    { intros r. exists (A2 c E mr None). split; [apply A2_stable; auto|]. split; [exact WK|]. simpl; auto. }
    destruct (exec_delete s (KBlock c) rev W) as [[_ X]|[(e0 & _ & _ & X)|(e0 & s' & L0 & R0 & X & SP)]];
      rewrite X; cbn [fst snd].
    - split; [apply GP_refl|]. split; [exact I|]. split; [exact (NOP (inl tt)) | intros _; exact (NOP (inl tt))].
    - split; [apply GP_refl|]. split; [exact I|]. split; [exact (NOP (inl tt)) | intros _; exact (NOP (inl tt))].
    - pose proof Ps as (E0 & _ & PH). subst rev.
      assert (EV : e_val e0 = VBlock b0) by (eapply cas_entry; eauto).
      assert (B0 : blk_at s c = Some b0) by (unfold blk_at; rewrite L0, EV; reflexivity).
      assert (G0 : G h s s') by (eapply G_blk_del; eauto; destruct OW; auto).
      assert (GG : GP h s s').
      { eapply GP_blk_giveup; eauto. left. destruct SP as [_ LK]. exact LK. }
      split; [exact GG|]. split.
      { eapply Inv_blk_del with (h := h); eauto. destruct OW as [O|O]; [left; exact O | right; split; [exact O|]].
        eapply Phi_not_confirmed; eauto. }
      split; [|intros _; exact (NOP (inl tt))].
      exists (A2 c E mr None). split; [apply A2_stable; auto|]. split; [|simpl; auto].
      assert (S' : s' = fst (exec s (RDelete (KBlock c) (e_rev e0)))) by (rewrite X; reflexivity).
      rewrite S' in *. eapply A2_own; eauto.
  Qed.

  Lemma safe2_delete_block_unowned c c' E mr ph b0 rev : Eternal E ->
    (forall s, E s -> Known (KBlock c') rev (VBlock b0) s) -> bk_aff b0 = None ->
    safe (delete_block c' rev) (A2 c E mr ph) (fun _ => A2 c E mr ph).
  Proof.
    intros EE KN OW. unfold delete_block. cbn [safeP]. intros s W I Ps.
    assert (NOP : forall r : res unit, exists P', Stable2 P' /\ P' s /\ safe (Ret r) P' (fun _ => A2 c E mr ph)).
    { intros r. exists (A2 c E mr ph). split; [apply A2_stable; auto|]. split; [exact Ps|]. simpl; auto. }
    destruct (exec_delete s (KBlock c') rev W) as [[_ X]|[(e0 & _ & _ & X)|(e0 & s' & L0 & R0 & X & SP)]];
      rewrite X; cbn [fst snd].
    - split; [apply GP_refl|]. split; [exact I|]. split; [exact (NOP (inl tt)) | intros _; exact (NOP (inl tt))].
    - split; [apply GP_refl|]. split; [exact I|]. split; [exact (NOP (inl tt)) | intros _; exact (NOP (inl tt))].
    - pose proof Ps as (E0 & _ & _).
      assert (EV : e_val e0 = VBlock b0) by (eapply cas_entry; eauto).
      assert (B0 : blk_at s c' = Some b0) by (unfold blk_at; rewrite L0, EV; reflexivity).
      assert (GG : GP h s s') by (eapply GP_blk_unowned_del; eauto).
      split; [exact GG|]. split; [eapply Inv_blk_del with (h := h); eauto; left; auto|].
      split; [|intros _; exact (NOP (inl tt))].
      exists (A2 c E mr ph). split; [apply A2_stable; auto|]. split; [|simpl; auto].
      assert (S' : s' = fst (exec s (RDelete (KBlock c') rev))) by (rewrite X; reflexivity).
      rewrite S' in *. eapply A2_own; eauto.
  Qed.

  (* ---------------------------------------------------------------- accesses that touch neither blocks nor affinities *)
  Lemma safe2_neutral {R} rq (k : Cas.resp key value -> prog R) c E mr ph Q : Eternal E -> neutral rq ->
    (forall rs, safe (k rs) (A2 c E mr ph) Q) -> safe (Act rq k) (A2 c E mr ph) Q.
  Proof.
    intros EE NT K. cbn [safeP]. intros s W I Ps.
    assert (ST : Stable2 (A2 c E mr ph)) by (apply A2_stable; auto).
    assert (SAME : forall rs, exists P', Stable2 P' /\ P' s /\ safe (k rs) P' Q).
    { intros rs. exists (A2 c E mr ph). auto. }
    assert (MOVE : forall rs, GP h s (fst (exec s rq)) -> exists P', Stable2 P' /\ P' (fst (exec s rq)) /\ safe (k rs) P' Q).
    { intros rs GG. exists (A2 c E mr ph). split; auto. split; auto. eapply A2_own; eauto. }
    destruct rq as [k0 | l | k0 v0 | k0 v0 rev | k0 rev].
    - rewrite exec_get. cbn [fst snd]. split; [apply GP_refl|]. split; [exact I|]. split; [apply SAME | discriminate].
    - split; [apply GP_refl|]. split; [exact I|]. split; [apply SAME | discriminate].
    - destruct NT as [x ->].
      destruct (exec_create s (KHandle x) v0) as [[_ X]|[_ (s' & X & SP)]].
      + rewrite X; cbn [fst snd]. split; [apply GP_refl|]. split; [exact I|]. split; [apply SAME | discriminate].
      + assert (GG : GP h s (fst (exec s (RCreate (KHandle x) v0)))) by (rewrite X; eapply GP_handle_set; eauto).
        split; [exact GG|]. split; [rewrite X; eapply Inv_handle_set; eauto|]. split; [apply MOVE; auto | discriminate].
    - destruct NT as [x ->].
      destruct (exec_update s (KHandle x) v0 rev) as [[_ X]|[(e0 & _ & _ & X)|(e0 & s' & _ & _ & X & SP)]].
      + rewrite X; cbn [fst snd]. split; [apply GP_refl|]. split; [exact I|]. split; [apply SAME | intros _; apply SAME].
      + rewrite X; cbn [fst snd]. split; [apply GP_refl|]. split; [exact I|]. split; [apply SAME | intros _; apply SAME].
      + assert (GG : GP h s (fst (exec s (RUpdate (KHandle x) v0 rev)))) by (rewrite X; eapply GP_handle_set; eauto).
        split; [exact GG|]. split; [rewrite X; eapply Inv_handle_set; eauto|]. split; [apply MOVE; auto | intros _; apply SAME].
    - destruct NT as [x ->].
      destruct (exec_delete s (KHandle x) rev W) as [[_ X]|[(e0 & _ & _ & X)|(e0 & s' & _ & _ & X & SP)]].
      + rewrite X; cbn [fst snd]. split; [apply GP_refl|]. split; [exact I|]. split; [apply SAME | intros _; apply SAME].
      + rewrite X; cbn [fst snd]. split; [apply GP_refl|]. split; [exact I|]. split; [apply SAME | intros _; apply SAME].
      + assert (GG : GP h s (fst (exec s (RDelete (KHandle x) rev)))) by (rewrite X; eapply GP_handle_del; eauto).
        split; [exact GG|]. split; [rewrite X; eapply Inv_handle_del; eauto|]. split; [apply MOVE; auto | intros _; apply SAME].
  Qed.
End Host2.
