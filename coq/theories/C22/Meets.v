(* C22 — the tie between the theorems and the oracle of Spec.v: on every reachable store of the model the STATE part
   of the oracle (one_confirmed, confirmed_match) answers true; and the two-directional reading of the invariant. *)
From Coq Require Import List NArith Bool Arith Lia.
From Verif.Common Require Import Cas.
From Verif.C19 Require Import Model BlockLemmas.
From Verif.C22 Require Import Model RG Sys RG2 Sys2 Proofs Proofs2 Final Final2 Spec.
Import ListNotations.
Open Scope N_scope.

(* ------------------------------------------------------------------ dumps and lookups *)
Lemma dlookup_dump (es : list entry) k :
  dlookup (map (fun e => (e_key e, e_val e)) es) k = option_map (@e_val key value) (Cas.lookup key_eqb es k).
Proof.
  induction es as [|a es IH]; simpl; auto. destruct (key_eqb (e_key a) k); simpl; auto.
Qed.

Lemma d_block_dump s c : d_block (store_dump s) c = blk_at s c.
Proof.
  unfold d_block, blk_at, store_dump, s_lookup. rewrite dlookup_dump.
  destruct (Cas.lookup key_eqb (st_ents s) (KBlock c)) as [e|]; simpl; [destruct (e_val e); reflexivity | reflexivity].
Qed.
Lemma d_aff_dump s h c : d_aff (store_dump s) h c = aff_at s h c.
Proof.
  unfold d_aff, aff_at, store_dump, s_lookup. rewrite dlookup_dump.
  destruct (Cas.lookup key_eqb (st_ents s) (KAff h c)) as [e|]; simpl; [destruct (e_val e); reflexivity | reflexivity].
Qed.

Lemma In_lookup (es : list entry) e : NoDup (map (@e_key key value) es) -> In e es -> Cas.lookup key_eqb es (e_key e) = Some e.
Proof.
  induction es as [|a es IH]; simpl; intros ND Hin; [contradiction|].
  inversion ND as [|? ? NI ND']; subst. destruct Hin as [->|Hin].
  - rewrite key_eqb_refl. reflexivity.
  - destruct (key_eqb (e_key a) (e_key e)) eqn:E.
    + apply key_eqb_eq in E. exfalso. apply NI. rewrite E. apply in_map; auto.
    + apply IH; auto.
Qed.

Lemma In_dump_aff s h c st : wf s -> In (KAff h c, VAff st) (store_dump s) -> aff_at s h c = Some st.
Proof.
  intros [ND _] Hin. unfold store_dump in Hin. apply in_map_iff in Hin. destruct Hin as (e & EQ & Hin).
  inversion EQ as [[EK EV]]. pose proof (In_lookup _ _ ND Hin) as L. rewrite EK in L.
  unfold aff_at, s_lookup. rewrite L, EV. reflexivity.
Qed.

(* ------------------------------------------------------------------ the state part of the oracle *)
Section StateOracle.
  Variable s : store.
  Hypothesis W : wf s.
  Hypothesis I : Inv s.

  Lemma confirmed_match_true : confirmed_match (store_dump s) = true.
  Proof.
    unfold confirmed_match. apply forallb_forall. intros [k v] Hin.
    destruct k as [c0|x|h c]; auto. destruct v as [b|st|m]; auto. destruct st; auto.
    rewrite d_block_dump. pose proof (In_dump_aff _ _ _ _ W Hin) as A.
    destruct (I _ _ A) as (b & B & AF). rewrite B. apply optN_eqb_eq. exact AF.
  Qed.

  Lemma In_confirmed_hosts (d : dump) c h : In h (confirmed_hosts d c) -> In (KAff h c, VAff AConfirmed) d.
  Proof.
    unfold confirmed_hosts. intros Hin. apply in_flat_map in Hin. destruct Hin as ([k v] & Hd & Hx).
    destruct k as [c0|x|h' c']; try contradiction. destruct v as [b|st|m]; try contradiction.
    destruct st; try contradiction. destruct (N.eqb c' c) eqn:E; [|contradiction].
    apply N.eqb_eq in E. subst c'. destruct Hx as [->|[]]. exact Hd.
  Qed.

  Lemma confirmed_hosts_le1 (d : dump) c : NoDup (map fst d) ->
    (forall h1 h2, In (KAff h1 c, VAff AConfirmed) d -> In (KAff h2 c, VAff AConfirmed) d -> h1 = h2) ->
    (length (confirmed_hosts d c) <= 1)%nat.
  Proof.
    induction d as [|[k v] t IH]; simpl; intros ND UNI; [lia|].
    inversion ND as [|? ? NI ND']; subst.
    assert (IHt : (length (confirmed_hosts t c) <= 1)%nat).
    { apply IH; [exact ND'|]. intros h1 h2 A B. apply UNI; right; assumption. }
    unfold confirmed_hosts in *. simpl.
    destruct k as [c0|x|h c']; simpl; auto. destruct v as [b|st|m]; simpl; auto. destruct st; simpl; auto.
    destruct (N.eqb c' c) eqn:E; simpl; auto. apply N.eqb_eq in E. subst c'.
    (* the head is a confirmed row for c: the tail has none *)
    destruct (flat_map _ t) as [|h2 rest] eqn:FM; simpl; [lia|]. exfalso.
    assert (Hin : In (KAff h2 c, VAff AConfirmed) t).
    { apply In_confirmed_hosts. unfold confirmed_hosts. rewrite FM. left; auto. }
    assert (h = h2) by (apply UNI; [left; auto | right; auto]). subst h2.
    apply NI. change (KAff h c) with (fst (KAff h c, VAff AConfirmed)). apply in_map. exact Hin.
  Qed.

  Lemma one_confirmed_true : one_confirmed (store_dump s) = true.
  Proof.
    unfold one_confirmed. apply forallb_forall. intros [k v] Hin.
    destruct k as [c0|x|h c]; auto. destruct v as [b|st|m]; auto. destruct st; auto.
    apply Nat.leb_le. apply confirmed_hosts_le1.
    - unfold store_dump. rewrite map_map. simpl. destruct W as [ND _]. exact ND.
    - intros h1 h2 A1 A2. pose proof (In_dump_aff _ _ _ _ W A1) as X1. pose proof (In_dump_aff _ _ _ _ W A2) as X2.
      destruct (I _ _ X1) as (b1 & B1 & F1). destruct (I _ _ X2) as (b2 & B2 & F2). congruence.
  Qed.

  Lemma state_ok_true : state_ok false (store_dump s) = true.
  Proof. unfold state_ok. rewrite one_confirmed_true, confirmed_match_true. reflexivity. Qed.

  (* both directions: among the hosts, exactly the one recorded in the block holds the confirmed row *)
  Lemma confirmed_iff_block_affinity c b h :
    blk_at s c = Some b -> (exists h', aff_at s h' c = Some AConfirmed) ->
    (aff_at s h c = Some AConfirmed <-> bk_aff b = Some h).
  Proof.
    intros B [h' C']. split.
    - intros C. destruct (I _ _ C) as (b0 & B0 & AF). congruence.
    - intros AF. destruct (I _ _ C') as (b0 & B0 & AF'). assert (h' = h) by congruence. subst. exact C'.
  Qed.
End StateOracle.

(* ------------------------------------------------------------------ reachable stores *)
Lemma reach_wf_inv cf fx clients evs : NoDup (map fst clients) ->
  wf (sy_store (reach cf fx clients evs)) /\ Inv (sy_store (reach cf fx clients evs)).
Proof.
  intros ND.
  destruct (Sys.sys_run_ok cf fx any_op (fun host o _ => compile22_safe cf fx host o) evs _
              (Sys.sys0_ok cf fx any_op (fun host o _ => compile22_safe cf fx host o) clients ND (all_supported clients)))
    as (W & I & _). split; assumption.
Qed.

Lemma reach_wf_inv_same_host cf clients evs :
  wf (sy_store (reach cf true clients evs)) /\ Inv (sy_store (reach cf true clients evs)).
Proof.
  destruct (Sys2.sys_run_ok cf true any_op (fun host o _ => compile22_safe2 cf host o) evs _
              (Sys2.sys0_ok cf true any_op (fun host o _ => compile22_safe2 cf host o) clients (all_supported clients)))
    as (W & I & _). split; assumption.
Qed.

Lemma model_meets_spec cf fx clients evs : NoDup (map fst clients) ->
  state_ok false (store_dump (sy_store (reach cf fx clients evs))) = true.
Proof. intros ND. destruct (reach_wf_inv cf fx clients evs ND). apply state_ok_true; assumption. Qed.

Lemma model_meets_spec_same_host cf clients evs :
  state_ok false (store_dump (sy_store (reach cf true clients evs))) = true.
Proof. destruct (reach_wf_inv_same_host cf clients evs). apply state_ok_true; assumption. Qed.

Lemma confirmed_row_iff_block_affinity cf fx clients evs c b h : NoDup (map fst clients) ->
  let s := sy_store (reach cf fx clients evs) in
  blk_at s c = Some b -> (exists h', aff_at s h' c = Some AConfirmed) ->
  (aff_at s h c = Some AConfirmed <-> bk_aff b = Some h).
Proof. intros ND s. destruct (reach_wf_inv cf fx clients evs ND). apply confirmed_iff_block_affinity; assumption. Qed.

Lemma confirmed_row_iff_block_affinity_same_host cf clients evs c b h :
  let s := sy_store (reach cf true clients evs) in
  blk_at s c = Some b -> (exists h', aff_at s h' c = Some AConfirmed) ->
  (aff_at s h c = Some AConfirmed <-> bk_aff b = Some h).
Proof. intros s. destruct (reach_wf_inv_same_host cf clients evs). apply confirmed_iff_block_affinity; assumption. Qed.
