(* C22 — "a mustBeEmpty release never rewrites a block": whatever the datastore answers (hence: whatever the
   other clients do, whichever conflicts are injected), ReleaseAffinity / ReleaseHostAffinities called with
   mustBeEmpty = true never issue a Create or an Update of a block key; the only block write they can issue is the
   compare-and-delete of the block they read (which, by c22_release_only_if_empty, succeeds only on an empty block). *)
From Coq Require Import List NArith Bool Arith.
From Verif.Common Require Import Cas.
From Verif.C19 Require Import Model.
From Verif.C22 Require Import Model.
Import ListNotations.
Open Scope N_scope.

Definition writes_block (rq : Cas.req key value lopt) : bool :=
  match rq with
  | RCreate (KBlock _) _ | RUpdate (KBlock _) _ _ => true
  | _ => false
  end.

Fixpoint never_rewrites_block {R} (p : prog R) : Prop :=
  match p with
  | Ret _ => True
  | Act rq k => writes_block rq = false /\ forall rs, never_rewrites_block (k rs)
  end.

Lemma nrb_bind {X Y} (p : prog X) (f : X -> prog Y) :
  never_rewrites_block p -> (forall a, never_rewrites_block (f a)) -> never_rewrites_block (Cas.bind p f).
Proof.
  induction p as [r | rq k IH]; simpl; intros A F; auto. destruct A as [W K]. split; auto.
Qed.

Ltac prim := simpl; split; [reflexivity|]; intros rs; destruct rs; simpl; auto;
             match goal with |- context [e_val ?e] => destruct (e_val e); simpl; auto | _ => idtac end.

Lemma nrb_get_aff h c : never_rewrites_block (get_aff h c). Proof. prim. Qed.
Lemma nrb_get_block c : never_rewrites_block (get_block c). Proof. prim. Qed.
Lemma nrb_update_aff h c st rev : never_rewrites_block (update_aff h c st rev). Proof. prim. Qed.
Lemma nrb_delete_aff h c rev : never_rewrites_block (delete_aff h c rev). Proof. prim. Qed.
Lemma nrb_delete_block c rev : never_rewrites_block (delete_block c rev). Proof. prim. Qed.

Lemma nrb_release_block_affinity h c : never_rewrites_block (release_block_affinity h c true).
Proof.
  unfold release_block_affinity.
  apply nrb_bind; [apply nrb_get_aff|]. intros a. destruct a as [[st affrev]|e]; [|exact I].
  apply nrb_bind; [apply nrb_get_block|]. intros g. destruct g as [[b brev]|e]; [|exact I].
  destruct (match bk_aff b with Some h' => negb (N.eqb h' h) | None => false end).
  { apply nrb_bind; [apply nrb_delete_aff|]. intros u. exact I. }
  cbn [andb]. destruct (blk_empty b) eqn:EM; cbn [negb]; [|exact I].
  apply nrb_bind; [apply nrb_update_aff|]. intros u. destruct u as [affrev'|e]; [|exact I].
  apply nrb_bind; [apply nrb_delete_block|]. intros d.
  assert (FIN : never_rewrites_block (d2 <- delete_aff h c affrev' ;;
                                      match d2 with
                                      | inl _ => Ret (inl tt)
                                      | inr ENotFound => Ret (inl tt)
                                      | inr e => Ret (inr e)
                                      end)).
  { apply nrb_bind; [apply nrb_delete_aff|]. intros d2. destruct d2 as [x|e]; [exact I|]. destruct e; exact I. }
  destruct d as [x|e]; [exact FIN|]. destruct e; try exact I. exact FIN.
Qed.

Lemma nrb_release_aff_loop fuel : forall h c, never_rewrites_block (release_aff_loop fuel h c true).
Proof.
  induction fuel as [|f IH]; intros h c; cbn [release_aff_loop]; [exact I|].
  apply nrb_bind; [apply nrb_release_block_affinity|]. intros r. destruct r as [x|e]; [exact I|].
  destruct e; try exact I. apply IH.
Qed.

Lemma nrb_rha_one fuel : forall h c, never_rewrites_block (rha_one fuel h c true).
Proof.
  induction fuel as [|f IH]; intros h c; cbn [rha_one]; [exact I|].
  apply nrb_bind; [apply nrb_release_block_affinity|]. intros r. destruct r as [x|e]; [exact I|].
  destruct e; try exact I. apply IH.
Qed.

Lemma nrb_rha_blocks cf cs : forall h stored, never_rewrites_block (rha_blocks cf cs h true stored).
Proof.
  induction cs as [|c t IH]; intros h stored; cbn [rha_blocks]; [exact I|].
  apply nrb_bind; [apply nrb_rha_one|]. intros e. apply IH.
Qed.

Lemma must_release_never_rewrites cf fx h o :
  (exists c, o = ORelease c true) \/ o = OReleaseHost true ->
  never_rewrites_block (compile22 cf fx h o).
Proof.
  intros [[c ->]| ->]; cbn [compile22].
  - apply nrb_release_aff_loop.
  - unfold release_host_affs. simpl. split; [reflexivity|]. intros rs. destruct rs; try exact I.
    apply nrb_bind; [apply nrb_rha_blocks|]. intros e. simpl. split; [reflexivity|]. intros rs2. exact I.
Qed.
