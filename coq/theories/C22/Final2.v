(* C22 — the invariant for the REPAIRED code (fx = true) under arbitrary same-host concurrency: no hypothesis on the
   hosts of the clients.  Assembled from Sys2.v (system theorem) and Proofs2.v (every operation is safeP). *)
From Coq Require Import List NArith Bool Arith Lia.
From Verif.Common Require Import Cas.
From Verif.C19 Require Import Model.
From Verif.C22 Require Import Model RG Sys RG2 Sys2 Proofs2 Final Witness Must.
Import ListNotations.
Open Scope N_scope.

Lemma confirmed_matches_block_same_host cf clients evs h c :
  aff_at (sy_store (reach cf true clients evs)) h c = Some AConfirmed ->
  exists b, blk_at (sy_store (reach cf true clients evs)) c = Some b /\ bk_aff b = Some h.
Proof.
  intros X.
  exact (system_invariant2 cf true any_op (fun host o _ => compile22_safe2 cf host o) clients evs
           (all_supported clients) h c X).
Qed.

Lemma one_confirmed_owner_same_host cf clients evs h1 h2 c :
  aff_at (sy_store (reach cf true clients evs)) h1 c = Some AConfirmed ->
  aff_at (sy_store (reach cf true clients evs)) h2 c = Some AConfirmed -> h1 = h2.
Proof.
  intros X1 X2.
  destruct (confirmed_matches_block_same_host cf clients evs h1 c X1) as (b1 & B1 & A1).
  destruct (confirmed_matches_block_same_host cf clients evs h2 c X2) as (b2 & B2 & A2).
  congruence.
Qed.

(* non-vacuity: the clients and the schedule of the finding (two processes of host 0, and host 1), run to the end on
   the repaired code, finish with exactly one confirmed affinity, matching the block *)
Definition rr40 : list event := flat_map (fun _ => [wev 0; wev 1; wev 2]) (seq 0 40).
Example ex_same_host_fixed :
  ~ NoDup (map fst wit_clients) /\
  aff_at (sy_store (reach wit_cf true wit_clients (wit_evs ++ rr40))) 0 wc = Some AConfirmed /\
  aff_at (sy_store (reach wit_cf true wit_clients (wit_evs ++ rr40))) 1 wc = None.
Proof.
  split.
  - intros ND. inversion ND as [|? ? NI _]; subst. apply NI. simpl. auto.
  - vm_compute. split; reflexivity.
Qed.

(* "a block that names host h has an affinity object (h, c)" does NOT survive same-host concurrency (pinned and
   repaired code alike): host 1 owns the block; P2 (host 0) creates its pending affinity; P1 (host 0) re-marks that
   affinity pending (its own revision), finds the block owned by host 1; host 1 releases the block; P2 creates the
   block (it now names host 0); P1 deletes "its" pending affinity with the revision it wrote.  The block names host 0
   and no affinity object (0, c) exists (until P2's retry re-creates it). *)
Definition cl3 : list (N * list op22) := [(0, [OClaim wc]); (0, [OClaim wc]); (1, [OClaim wc; ORelease wc false])].
Definition ev3 : list event :=
  repeat (wev 2) 3 ++ [wev 1] ++ repeat (wev 0) 5 ++ repeat (wev 2) 5 ++ [wev 1] ++ [wev 0].

Lemma named_block_without_affinity_same_host :
  exists (cf : config) (fx : bool) (clients : list (N * list op22)) (evs : list event) (h c : N) (b : block),
    let s := sy_store (sys_run cf fx (sys0 cf fx clients) evs) in
    blk_at s c = Some b /\ bk_aff b = Some h /\ aff_at s h c = None.
Proof.
  exists wit_cf, true, cl3, ev3, 0, wc. eexists. cbv zeta. vm_compute. split; [reflexivity|]. split; reflexivity.
Qed.
