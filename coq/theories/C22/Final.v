(* C22 — the theorems, assembled from Sys.v (system theorem) and Proofs.v (every operation is safe). *)
From Coq Require Import List NArith Bool Arith Lia.
From Verif.Common Require Import Cas.
From Verif.C19 Require Import Model BlockLemmas.
From Verif.C22 Require Import Model RG StepLemmas Prims Sys Proofs Witness.
Import ListNotations.
Open Scope N_scope.

Definition any_op (o : op22) : Prop := True.

Lemma all_supported (clients : list (N * list op22)) : Forall (fun hc => Forall any_op (snd hc)) clients.
Proof. apply Forall_forall. intros hc _. apply Forall_forall. intros o _. exact I. Qed.

Definition reach (cf : config) (fx : bool) (clients : list (N * list op22)) (evs : list event) : sys :=
  sys_run cf fx (sys0 cf fx clients) evs.

Lemma confirmed_matches_block cf fx clients evs h c :
  NoDup (map fst clients) ->
  aff_at (sy_store (reach cf fx clients evs)) h c = Some AConfirmed ->
  exists b, blk_at (sy_store (reach cf fx clients evs)) c = Some b /\ bk_aff b = Some h.
Proof.
  intros ND X.
  exact (system_invariant cf fx any_op (fun host o _ => compile22_safe cf fx host o) clients evs ND
           (all_supported clients) h c X).
Qed.

Lemma one_confirmed_owner cf fx clients evs h1 h2 c :
  NoDup (map fst clients) ->
  aff_at (sy_store (reach cf fx clients evs)) h1 c = Some AConfirmed ->
  aff_at (sy_store (reach cf fx clients evs)) h2 c = Some AConfirmed -> h1 = h2.
Proof.
  intros ND X1 X2.
  destruct (confirmed_matches_block cf fx clients evs h1 c ND X1) as (b1 & B1 & A1).
  destruct (confirmed_matches_block cf fx clients evs h2 c ND X2) as (b2 & B2 & A2).
  congruence.
Qed.

(* what one step of any schedule does to blocks, spelled out *)
Definition step_spec (host : N) (s s' : store) : Prop :=
  (* a block is deleted by the host its Affinity field names, and then it holds no allocation, or it names nobody *)
  (forall c b0, blk_at s c = Some b0 -> blk_at s' c = None ->
     (bk_aff b0 = Some host /\ blk_empty b0 = true) \/ bk_aff b0 = None) /\
  (* the Affinity field of an existing block only changes from "this host" to "none"; allocations are kept *)
  (forall c b0 b1, blk_at s c = Some b0 -> blk_at s' c = Some b1 ->
     bk_aff b1 = bk_aff b0 \/ (bk_aff b0 = Some host /\ bk_aff b1 = None /\ forall o, owner_of b1 o = owner_of b0 o)) /\
  (* a block is created empty, with the creating host in its Affinity field: the create IS the claim, whatever
     pending affinities exist *)
  (forall c b, blk_at s c = None -> blk_at s' c = Some b -> bk_aff b = Some host /\ blk_empty b = true) /\
  (* nobody touches the affinity objects of another host *)
  (forall h' c, h' <> host -> s_lookup s' (KAff h' c) = s_lookup s (KAff h' c)).

Lemma every_step cf fx clients evs ev :
  NoDup (map fst clients) ->
  let y := reach cf fx clients evs in
  sy_store (sys_step cf fx y ev) = sy_store y \/
  exists cl, nth_error (sy_clients y) (ev_client ev) = Some cl /\
             step_spec (cl_host cl) (sy_store y) (sy_store (sys_step cf fx y ev)).
Proof.
  intros ND y.
  destruct (system_steps cf fx any_op (fun host o _ => compile22_safe cf fx host o) clients evs ev ND
              (all_supported clients)) as [E|(cl & NE & GG)]; [left; exact E|].
  right. exists cl. split; [exact NE|].
  split; [exact (g_delete GG)|]. split; [exact (g_field GG)|]. split; [exact (g_create GG) | exact (g_aff GG)].
Qed.

(* ClaimAffinity as a Hoare triple valid in every environment of other hosts' operations: it reports "claimed"
   only in a store where the host's affinity is confirmed and the block names the host *)
Lemma claim_reports_confirmed cf fx h c :
  safeS h (G h) (compile22 cf fx h (OClaim c)) Ptop
        (fun r s => match r with
                    | ResClaim true _ _ => aff_at s h c = Some AConfirmed /\
                                           exists b, blk_at s c = Some b /\ bk_aff b = Some h
                    | _ => True end).
Proof.
  cbn [compile22].
  eapply safeS_post; [|eapply safeS_pre; [|eapply claim_aff_loop_safe with (E := fun _ => True) (m := false) (ao := None); apply Eternal_true]].
  - intros r s W I X. destruct r; auto. destruct claimed; auto.
  - intros s W I X. split; [exact Logic.I|]. split; [discriminate | exact Logic.I].
Qed.

Lemma strict_allocation_needs_block_affinity b num x tag host b' ips a b'' :
  (blk_auto_assign b num x tag true host = Some (b', ips) -> bk_aff b = Some host /\ bk_aff b' = Some host) /\
  (blk_assign b a x tag true host = inl b'' -> bk_aff b = Some host /\ bk_aff b'' = Some host).
Proof. split; [apply blk_auto_assign_strict | apply blk_assign_strict]. Qed.

(* non-vacuity: two different hosts race for one block; one of them ends up confirmed *)
Definition ex_clients : list (N * list op22) := [(0, [OClaim wc]); (1, [OClaim wc; ORelease wc true])].
Definition ex_evs : list event := [wev 0; wev 1; wev 0; wev 1; wev 0; wev 1; wev 1; wev 1; wev 1].
Example ex_reaches_confirmed :
  NoDup (map fst ex_clients) /\ aff_at (sy_store (reach wit_cf false ex_clients ex_evs)) 0 wc = Some AConfirmed.
Proof. split; [repeat constructor; simpl; intuition discriminate | vm_compute; reflexivity]. Qed.
