(* C22 — the system theorem of the rely/guarantee logic (RG.v): clients on pairwise distinct hosts, each running
   a list of operations that are safe from the trivial assertion; any schedule; crash = abandon the operation in
   progress and go on with the next one. *)
From Coq Require Import List NArith Bool Arith Lia.
From Verif.Common Require Import Cas.
From Verif.C19 Require Import Model BlockLemmas.
From Verif.C22 Require Import Model RG3.
Import ListNotations.
Open Scope N_scope.

Definition Ptop : assertion := fun _ => True.
Definition Qtop {R : Type} : R -> assertion := fun _ _ => True.

Section System.
  Variable cf : config.
  Variable fx : bool.
  Variable supported : op22 -> Prop.
  Hypothesis compile_safe : forall host o, supported o ->
    safeS host (G host) (compile22 cf fx host o) Ptop Qtop.

  Definition cur_ok (host : N) (s : store) (cur : option (prog result)) : Prop :=
    match cur with
    | None => True
    | Some p => exists P, Stable host P /\ P s /\ safeS host (G host) p P Qtop
    end.

  Definition client_ok (s : store) (cl : client) : Prop :=
    Forall supported (cl_todo cl) /\ cur_ok (cl_host cl) s (cl_cur cl).

  Definition sys_ok (y : sys) : Prop :=
    wf (sy_store y) /\ Inv (sy_store y) /\ NoDup (map cl_host (sy_clients y)) /\
    Forall (client_ok (sy_store y)) (sy_clients y).

  Lemma settle_ok fuel : forall host s p todo done,
    Forall supported todo -> cur_ok host s (Some p) ->
    Forall supported (snd (fst (settle cf fx fuel host p todo done))) /\
    cur_ok host s (fst (fst (settle cf fx fuel host p todo done))).
  Proof.
    induction fuel as [|f IH]; intros host s p todo done FS CO.
    - destruct p as [r | rq k]; simpl.
      + destruct todo; simpl; auto.
      + auto.
    - destruct p as [r | rq k]; simpl.
      + destruct todo as [|o t]; simpl; auto.
        inversion FS; subst. apply IH; auto.
        exists Ptop. split; [apply Stable_true|]. split; [exact I|]. apply compile_safe; auto.
      + auto.
  Qed.

  Lemma load_ok host s todo : Forall supported todo ->
    Forall supported (snd (fst (load cf fx host todo))) /\ cur_ok host s (fst (fst (load cf fx host todo))).
  Proof.
    intros FS. destruct todo as [|o t]; [simpl; auto|].
    unfold load. cbv beta iota. inversion FS; subst. apply settle_ok; auto.
    exists Ptop. split; [apply Stable_true|]. split; [exact I|]. apply compile_safe; auto.
  Qed.

  Lemma others_step (s s' : store) : forall (l : list client) i cli cl',
    nth_error l i = Some cli -> NoDup (map cl_host l) -> Forall (client_ok s) l ->
    (forall cl, cl_host cl <> cl_host cli -> client_ok s cl -> client_ok s' cl) ->
    client_ok s' cl' -> cl_host cl' = cl_host cli ->
    Forall (client_ok s') (set_nth_opt l i cl') /\ NoDup (map cl_host (set_nth_opt l i cl')).
  Proof.
    induction l as [|a t IH]; intros i cli cl' NE ND F TR OK HE.
    - destruct i; discriminate.
    - inversion ND as [|? ? NI ND']; subst. inversion F as [|? ? Fa Ft]; subst.
      destruct i as [|i]; simpl in *.
      + inversion NE; subst a. split.
        * constructor; auto. rewrite Forall_forall in *. intros cl Hin. apply TR; auto.
          intros E. apply NI. rewrite <- E. apply in_map; auto.
        * rewrite HE. constructor; auto.
      + destruct (IH i cli cl' NE ND' Ft TR OK HE) as [F' ND2]. split.
        * constructor; auto. apply TR; auto. intros E. apply NI. rewrite E.
          apply nth_error_In in NE. apply in_map; auto.
        * constructor; auto. intros X. apply NI.
          clear - X NE HE. revert i NE X. induction t as [|b t IHt]; intros [|i] NE X; simpl in *; try discriminate.
          -- inversion NE; subst. destruct X as [X|X]; auto. left. congruence.
          -- destruct X as [X|X]; auto. right. eapply IHt; eauto.
  Qed.

  Lemma client_transfer s rq hi cl : wf s -> cl_host cl <> hi -> G hi s (fst (exec s rq)) ->
    client_ok s cl -> client_ok (fst (exec s rq)) cl.
  Proof.
    intros W NE GG [FS CO]. split; auto. unfold cur_ok in *. destruct (cl_cur cl) as [p|]; auto.
    destruct CO as (P & SP & Ps & Sf). exists P. split; auto. split; auto.
    eapply SP; eauto.
  Qed.

  (* one event: the invariant is kept, and the store is unchanged or changed according to the guarantee of the
     acting client's host *)
  Lemma sys_step_ok y ev : sys_ok y ->
    sys_ok (sys_step cf fx y ev) /\
    (sy_store (sys_step cf fx y ev) = sy_store y \/
     exists cl, nth_error (sy_clients y) (ev_client ev) = Some cl /\
                G (cl_host cl) (sy_store y) (sy_store (sys_step cf fx y ev))).
  Proof.
    intros (W & I & ND & F). unfold sys_step.
    destruct (nth_error (sy_clients y) (ev_client ev)) as [cl|] eqn:NE; [|split; [split; [exact W|]; split; [exact I|]; split; [exact ND|exact F] | left; auto]].
    assert (CLOK : client_ok (sy_store y) cl).
    { rewrite Forall_forall in F. apply F. eapply nth_error_In; eauto. }
    destruct CLOK as [FS CO].
    (* the two ways a step can end: same store / store after executing the request *)
    assert (SAME : forall cur todo, Forall supported todo -> cur_ok (cl_host cl) (sy_store y) cur ->
              sys_ok {| sy_store := sy_store y;
                        sy_clients := set_nth_opt (sy_clients y) (ev_client ev)
                                        {| cl_host := cl_host cl; cl_cur := cur; cl_todo := todo |} |}).
    { intros cur todo FS' CO'.
      assert (OK' : client_ok (sy_store y) {| cl_host := cl_host cl; cl_cur := cur; cl_todo := todo |}) by (split; auto).
      destruct (others_step (sy_store y) (sy_store y) (sy_clients y) (ev_client ev) cl
                  {| cl_host := cl_host cl; cl_cur := cur; cl_todo := todo |} NE ND F (fun _ _ X => X) OK' eq_refl) as [F' ND'].
      unfold sys_ok; cbn [sy_store sy_clients]. split; [exact W|]. split; [exact I|]. split; [exact ND'|exact F']. }
    assert (EXEC : forall rq cur todo, G (cl_host cl) (sy_store y) (fst (exec (sy_store y) rq)) ->
              Inv (fst (exec (sy_store y) rq)) ->
              Forall supported todo -> cur_ok (cl_host cl) (fst (exec (sy_store y) rq)) cur ->
              sys_ok {| sy_store := fst (exec (sy_store y) rq);
                        sy_clients := set_nth_opt (sy_clients y) (ev_client ev)
                                        {| cl_host := cl_host cl; cl_cur := cur; cl_todo := todo |} |}).
    { intros rq cur todo GG I' FS' CO'.
      assert (OK' : client_ok (fst (exec (sy_store y) rq)) {| cl_host := cl_host cl; cl_cur := cur; cl_todo := todo |}) by (split; auto).
      assert (TR : forall c0, cl_host c0 <> cl_host cl -> client_ok (sy_store y) c0 -> client_ok (fst (exec (sy_store y) rq)) c0).
      { intros c0 NEQ OK0. eapply client_transfer; eauto. }
      destruct (others_step (sy_store y) (fst (exec (sy_store y) rq)) (sy_clients y) (ev_client ev) cl
                  {| cl_host := cl_host cl; cl_cur := cur; cl_todo := todo |} NE ND F TR OK' eq_refl) as [F' ND'].
      unfold sys_ok; cbn [sy_store sy_clients]. split; [apply wf_exec; exact W|]. split; [exact I'|]. split; [exact ND'|exact F']. }
    unfold client_event. destruct (cl_cur cl) as [p|] eqn:CUR.
    2:{ simpl. split; [|left; auto]. replace cl with {| cl_host := cl_host cl; cl_cur := cl_cur cl; cl_todo := cl_todo cl |} by (destruct cl; reflexivity).
        rewrite CUR. apply SAME; simpl; auto. }
    unfold cur_ok in CO. destruct CO as (P & SP & Ps & Sf).
    unfold cstep, Cas.client_step.
    destruct p as [r | rq k].
    - (* a finished program that was not settled: cannot be produced by settle, handled anyway *)
      destruct (settle cf fx (S (length (cl_todo cl))) (cl_host cl) (Ret r) (cl_todo cl) []) as [[cur todo] done] eqn:ST.
      simpl. split; [|left; auto].
      pose proof (settle_ok (S (length (cl_todo cl))) (cl_host cl) (sy_store y) (Ret r) (cl_todo cl) [] FS) as X.
      rewrite ST in X. simpl in X. destruct X as [X1 X2].
      { exists P. auto. }
      apply SAME; auto.
    - simpl in Sf. destruct (Sf (sy_store y) W I Ps) as (GG & I' & (P1 & SP1 & H1 & K1) & CW).
      change (Cas.exec key_eqb key_ltb lmatch (sy_store y) rq) with (exec (sy_store y) rq).
      destruct (ev_fault ev).
      + (* no fault *)
        destruct (exec (sy_store y) rq) as [s' rs] eqn:EX. cbn [fst snd] in *.
        destruct (settle cf fx (S (length (cl_todo cl))) (cl_host cl) (k rs) (cl_todo cl) []) as [[cur todo] done] eqn:ST.
        simpl.
        pose proof (settle_ok (S (length (cl_todo cl))) (cl_host cl) s' (k rs) (cl_todo cl) [] FS) as X.
        rewrite ST in X. simpl in X. destruct X as [X1 X2]. { exists P1; auto. }
        split; [|right; exists cl; split; auto; replace s' with (fst (exec (sy_store y) rq)) by (rewrite EX; auto); auto].
        replace s' with (fst (exec (sy_store y) rq)) in * by (rewrite EX; auto).
        apply EXEC; auto.
      + (* injected conflict *)
        destruct (Cas.is_cond_write rq) eqn:CWQ.
        * destruct (CW eq_refl) as (P2 & SP2 & H2 & K2).
          destruct (settle cf fx (S (length (cl_todo cl))) (cl_host cl) (k RConflict) (cl_todo cl) []) as [[cur todo] done] eqn:ST.
          simpl.
          pose proof (settle_ok (S (length (cl_todo cl))) (cl_host cl) (sy_store y) (k RConflict) (cl_todo cl) [] FS) as X.
          rewrite ST in X. simpl in X. destruct X as [X1 X2]. { exists P2; auto. }
          split; [|left; auto]. apply SAME; auto.
        * destruct (exec (sy_store y) rq) as [s' rs] eqn:EX. cbn [fst snd] in *.
          destruct (settle cf fx (S (length (cl_todo cl))) (cl_host cl) (k rs) (cl_todo cl) []) as [[cur todo] done] eqn:ST.
          simpl.
          pose proof (settle_ok (S (length (cl_todo cl))) (cl_host cl) s' (k rs) (cl_todo cl) [] FS) as X.
          rewrite ST in X. simpl in X. destruct X as [X1 X2]. { exists P1; auto. }
          split; [|right; exists cl; split; auto; replace s' with (fst (exec (sy_store y) rq)) by (rewrite EX; auto); auto].
          replace s' with (fst (exec (sy_store y) rq)) in * by (rewrite EX; auto).
          apply EXEC; auto.
      + (* crash before the access: restart with the next operation *)
        destruct (load cf fx (cl_host cl) (cl_todo cl)) as [[cur todo] done] eqn:LD. simpl.
        pose proof (load_ok (cl_host cl) (sy_store y) (cl_todo cl) FS) as X. rewrite LD in X. simpl in X. destruct X as [X1 X2].
        split; [|left; auto]. apply SAME; auto.
      + (* crash after the access *)
        destruct (exec (sy_store y) rq) as [s' rs] eqn:EX. cbn [fst snd] in *.
        destruct (load cf fx (cl_host cl) (cl_todo cl)) as [[cur todo] done] eqn:LD. simpl.
        pose proof (load_ok (cl_host cl) s' (cl_todo cl) FS) as X. rewrite LD in X. simpl in X. destruct X as [X1 X2].
        split; [|right; exists cl; split; auto; replace s' with (fst (exec (sy_store y) rq)) by (rewrite EX; auto); auto].
        replace s' with (fst (exec (sy_store y) rq)) in * by (rewrite EX; auto).
        apply EXEC; auto.
  Qed.

  Lemma sys_run_ok evs : forall y, sys_ok y -> sys_ok (sys_run cf fx y evs).
  Proof.
    induction evs as [|ev evs IH]; intros y OK; simpl; auto.
    apply IH. apply sys_step_ok; auto.
  Qed.

  Lemma wf_init : wf init_store.
  Proof. split; simpl; [constructor|]. intros k e X. discriminate. Qed.

  Lemma cl_host_start host ops : cl_host (start_client cf fx host ops) = host.
  Proof. unfold start_client. destruct (load cf fx host ops) as [[cur todo] done]. reflexivity. Qed.

  Lemma sys0_ok clients :
    NoDup (map fst clients) -> Forall (fun hc => Forall supported (snd hc)) clients ->
    sys_ok (sys0 cf fx clients).
  Proof.
    intros ND FS. split; [apply wf_init|]. split.
    - split; [intros h c X; discriminate | intros c b h X; discriminate].
    - split; simpl.
      + rewrite map_map. erewrite map_ext; [exact ND|]. intros [host ops]. apply cl_host_start.
      + apply Forall_forall. intros cl Hin. apply in_map_iff in Hin. destruct Hin as ([host ops] & <- & Hin).
        rewrite Forall_forall in FS. specialize (FS _ Hin). simpl in *.
        unfold start_client. pose proof (load_ok host init_store ops FS) as X.
        destruct (load cf fx host ops) as [[cur todo] done]. simpl in *. split; simpl; tauto.
  Qed.

  Theorem system_invariant clients evs :
    NoDup (map fst clients) -> Forall (fun hc => Forall supported (snd hc)) clients ->
    Inv (sy_store (sys_run cf fx (sys0 cf fx clients) evs)).
  Proof.
    intros ND FS. destruct (sys_run_ok evs _ (sys0_ok clients ND FS)) as (_ & I & _). exact I.
  Qed.

  Theorem system_steps clients evs ev :
    NoDup (map fst clients) -> Forall (fun hc => Forall supported (snd hc)) clients ->
    let y := sys_run cf fx (sys0 cf fx clients) evs in
    sy_store (sys_step cf fx y ev) = sy_store y \/
    exists cl, nth_error (sy_clients y) (ev_client ev) = Some cl /\
               G (cl_host cl) (sy_store y) (sy_store (sys_step cf fx y ev)).
  Proof.
    intros ND FS y. apply sys_step_ok. apply sys_run_ok. apply sys0_ok; auto.
  Qed.
End System.
