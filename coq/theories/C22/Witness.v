(* C22 — the same-host race, on the model: two processes acting for host 0 (one claims block wc twice, the other
   releases it with mustBeEmpty) and host 1 claiming the same block.  With the pinned claimAffineBlock (fx = false)
   the schedule wit_evs ends with a confirmed affinity of BOTH hosts for the block; the same prefix of accesses on
   the repaired code (fx = true) makes the release lose its compare-and-delete of the block. *)
From Coq Require Import List NArith Bool Arith.
From Verif.Common Require Import Cas.
From Verif.C19 Require Import Model.
From Verif.C22 Require Import Model.
Import ListNotations.
Open Scope N_scope.

Definition wit_cf : config :=
  {| cf_strict := false; cf_autoalloc := true; cf_maxblocks := 20; cf_pool_base := 167772160; cf_nblocks := 2;
     cf_bsize := 2; cf_retries := 100; cf_starts := [(0, O); (1, O)]; cf_count_requested := false;
     cf_aip_leak := false; cf_stale_cache := false |}.
Definition wc : N := 167772160.
Definition wit_clients : list (N * list op22) :=
  [(0, [OClaim wc; OClaim wc]); (0, [ORelease wc true]); (1, [OClaim wc])].
Definition wev (i : nat) : event := {| ev_client := i; ev_fault := FNone |}.
(* client 0 claims (3 accesses); client 1 reads affinity and block and marks the affinity pendingDeletion (3);
   client 0 claims again: create affinity (exists), get, update to pending, create block (exists), get block,
   confirm (6); client 1 deletes the block, fails to delete the affinity, re-reads, finds no block (4);
   client 2 = host 1 creates its pending affinity, creates the block, confirms (3). *)
Definition wit_evs : list event :=
  repeat (wev 0) 3 ++ repeat (wev 1) 3 ++ repeat (wev 0) 6 ++ repeat (wev 1) 4 ++ repeat (wev 2) 3.

Definition wit_final (fx : bool) : store := sy_store (sys_run wit_cf fx (sys0 wit_cf fx wit_clients) wit_evs).

Lemma wit_two_confirmed :
  aff_at (wit_final false) 0 wc = Some AConfirmed /\ aff_at (wit_final false) 1 wc = Some AConfirmed /\
  (exists b, blk_at (wit_final false) wc = Some b /\ bk_aff b = Some 1).
Proof. vm_compute. split; [reflexivity|]. split; [reflexivity|]. eexists; split; reflexivity. Qed.

(* after client 1's attempt to delete the block (step 13 of the schedule) *)
Definition wit_mid (fx : bool) : store :=
  sy_store (sys_run wit_cf fx (sys0 wit_cf fx wit_clients) (firstn 13 wit_evs)).

Lemma wit_mid_unfixed : aff_at (wit_mid false) 0 wc = Some AConfirmed /\ blk_at (wit_mid false) wc = None.
Proof. vm_compute. split; reflexivity. Qed.

Lemma wit_mid_fixed : aff_at (wit_mid true) 0 wc <> Some AConfirmed /\ blk_at (wit_mid true) wc <> None.
Proof. vm_compute. split; discriminate. Qed.

Lemma same_host_refuted :
  exists (cf : config) (clients : list (N * list op22)) (evs : list event) (h1 h2 c : N),
    let s := sy_store (sys_run cf false (sys0 cf false clients) evs) in
    h1 <> h2 /\ aff_at s h1 c = Some AConfirmed /\ aff_at s h2 c = Some AConfirmed.
Proof.
  exists wit_cf, wit_clients, wit_evs, 0, 1, wc. cbv zeta.
  destruct wit_two_confirmed as (A & B & _). split; [discriminate|]. split; [exact A | exact B].
Qed.
