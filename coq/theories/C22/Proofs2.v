(* C22 — triples (RG2.safeP) of the composite programs for the REPAIRED claimAffineBlock (fx = true), valid under
   same-host concurrency. *)
From Coq Require Import List NArith Bool Arith Lia.
From Verif.Common Require Import Cas.
From Verif.C19 Require Import Model BlockLemmas.
From Verif.C22 Require Import Model RG StepLemmas Prims Sys Proofs RG2 Prims2 Sys2.
Import ListNotations.
Open Scope N_scope.

Ltac relax2 :=
  eapply A2_relax; [ | | | eassumption ];
  [ intros ?s0; unfold EK, ER; tauto
  | first [ left; reflexivity | right; reflexivity ]
  | first [ left; reflexivity | right; reflexivity ] ].
Ltac sret2 := apply safeP_ret; intros ?s ?W ?I ?X.
Ltac rs := intros ?s0 ?H0; unfold EK, ER in *; tauto.

Section HostOps2.
  Variable cf : config.
  Variable h : N.
  Notation safe := (safeP h).
  Notation A2 := (A2 h).

  Ltac side2 := first [ solve [auto using Eternal_EK, Eternal_ER, Eternal_true] | discriminate | solve [intros; reflexivity]
                      | apply blk_empty_new | solve [intros; discriminate] | solve [rs] ].
  Ltac sb L := eapply safeP_bind; [ eapply L; side2 | cbv beta; intros ?r ].

  Definition P0 (E : assertion) : assertion := A2 0 E None None.
  Lemma P0_weak c (E E' : assertion) mr ph s : (forall s, E s -> E' s) -> A2 c E mr ph s -> P0 E' s.
  Proof. intros IMP (X & _ & _). split; [auto|]. split; exact Logic.I. Qed.
  Lemma P0_imp (E E' : assertion) s : (forall s, E s -> E' s) -> P0 E s -> P0 E' s.
  Proof. apply P0_weak. Qed.
  Lemma A2_switch c c' (E E' : assertion) mr ph s : (forall s, E s -> E' s) -> A2 c E mr ph s -> A2 c' E' None None s.
  Proof. intros IMP (X & _ & _). split; [auto|]. split; exact Logic.I. Qed.
  Ltac p0 := cbv beta in *; eapply P0_weak; [|eassumption]; intros ?s0; unfold EK, ER; tauto.
  Ltac sw := cbv beta in *; eapply A2_switch; [|eassumption]; intros ?s0; unfold EK, ER; tauto.

  (* ---------------------------------------------------------------- claiming *)
  Lemma confirm_aff_safe2 c E ph rev : Eternal E ->
    safe (confirm_aff h c rev) (A2 c E (Some rev) ph) (fun _ => A2 c E None None).
  Proof.
    intros EE. unfold confirm_aff. sb safe2_confirm.
    destruct r as [rev'|e].
    - sret2. relax2.
    - sb safe2_get_aff. destruct r as [[st rev2]|e2]; unfold Qaff2.
      + destruct st; sret2; relax2.
      + sret2; relax2.
  Qed.

  Definition Qpending2 c E mr ph (r : res (affst * N)) : assertion :=
    match r with inl (_, rev) => A2 c (ER E rev) mr ph | inr _ => A2 c E mr ph end.

  Lemma get_pending_aff_safe2 c E mr ph : Eternal E ->
    safe (get_pending_aff h c) (A2 c E mr ph) (Qpending2 c E mr ph).
  Proof.
    intros EE. unfold get_pending_aff. sb safe2_create_aff.
    destruct r as [rev|e]; unfold Qrev2.
    - sret2. exact X.
    - destruct e; try (sret2; exact X).
      sb safe2_get_aff. destruct r as [[st rev]|e2]; unfold Qaff2.
      + destruct st.
        * sb safe2_update_aff. destruct r as [rev'|e3]; unfold Qrev2; sret2; unfold Qpending2; relax2.
        * sret2. exact X.
        * sb safe2_update_aff. destruct r as [rev'|e3]; unfold Qrev2; sret2; unfold Qpending2; relax2.
      + sret2. exact X.
  Qed.

  Definition QB2 c E (r : res (block * N)) : assertion :=
    match r with
    | inl (b, rev) => A2 c (EK E c rev b) None None
    | inr _ => A2 c E None None
    end.

  Lemma claim_affine_block_safe2 c E mr ph affrev : Eternal E -> (forall s, E s -> affrev < st_next s) ->
    safe (claim_affine_block cf true h c affrev) (A2 c E mr ph) (QB2 c E).
  Proof.
    intros EE RS. unfold claim_affine_block.
    eapply safeP_bind.
    { eapply safe2_create_block with (r0 := affrev); [auto | reflexivity | apply blk_empty_new | exact RS]. }
    cbv beta. intros r. destruct r as [[b rev]|e]; unfold Qcreate2.
    - sb confirm_aff_safe2. destruct r as [x|e]; sret2; unfold QB2; relax2.
    - destruct e; try (sret2; unfold QB2; relax2).
      sb safe2_get_block. destruct r as [[b brev]|e]; unfold Qblk2.
      2:{ sret2; unfold QB2; relax2. }
      destruct (optN_eqb (bk_aff b) (Some h)) eqn:AF.
      + apply optN_eqb_eq in AF.
        eapply safeP_bind.
        { eapply safe2_bump_mine with (b0 := b) (r0 := affrev);
            [apply Eternal_EK; auto | intros s0 [_ K]; exact K | exact AF | intros s0 [E0 _]; auto]. }
        cbv beta. intros r. destruct r as [[b2 rev2]|e]; unfold Qbump2.
        2:{ sret2; unfold QB2; relax2. }
        sb confirm_aff_safe2. destruct r as [x|e]; sret2; unfold QB2; relax2.
      + sb safe2_delete_aff. sret2; unfold QB2; relax2.
  Qed.

  Lemma get_block_from_aff_safe2 c E mr ph st affrev : Eternal E -> (forall s, E s -> affrev < st_next s) ->
    safe (get_block_from_aff cf true h c (st, affrev)) (A2 c E mr ph) (QB2 c E).
  Proof.
    intros EE RS. unfold get_block_from_aff.
    sb safe2_get_block. destruct r as [[b brev]|e]; unfold Qblk2.
    - destruct (optN_eqb (bk_aff b) (Some h)) eqn:AF; cbn [negb].
      + apply optN_eqb_eq in AF. destruct (affst_eqb st AConfirmed).
        * sret2. unfold QB2. relax2.
        * sb safe2_update_aff. destruct r as [rev1|e]; unfold Qrev2.
          2:{ sret2; unfold QB2; relax2. }
          eapply safeP_bind.
          { eapply safe2_bump_mine with (b0 := b) (r0 := rev1);
              [apply Eternal_ER; apply Eternal_EK; auto | intros s0 [[_ K] _]; exact K | exact AF | intros s0 [_ R]; exact R]. }
          cbv beta. intros r. destruct r as [[b2 rev2]|e]; unfold Qbump2.
          2:{ sret2; unfold QB2; relax2. }
          sb safe2_confirm. destruct r; sret2; unfold QB2; relax2.
      + sb safe2_delete_aff. destruct r as [x|e]; sret2; unfold QB2; relax2.
    - destruct e; try (sret2; unfold QB2; relax2).
      sb safe2_update_aff. destruct r as [rev'|e]; unfold Qrev2.
      2:{ sret2; unfold QB2; relax2. }
      eapply safeP_post; [|eapply claim_affine_block_safe2 with (E := ER E rev'); [apply Eternal_ER; auto | intros s0 [_ R]; exact R]].
      intros r s W I X. destruct r as [[b rev]|e]; unfold QB2 in *; relax2.
  Qed.

  Lemma claim_aff_loop_safe2 fuel : forall c E mr ph, Eternal E ->
    safe (claim_aff_loop cf true fuel h c) (A2 c E mr ph) (fun _ => A2 c E None None).
  Proof.
    induction fuel as [|f IH]; intros c E mr ph EE; cbn [claim_aff_loop].
    - sret2. relax2.
    - sb get_pending_aff_safe2. destruct r as [[st affrev]|e]; unfold Qpending2.
      + eapply safeP_bind; [eapply claim_affine_block_safe2; [apply Eternal_ER; auto | intros s0 [_ R]; exact R]|].
        cbv beta. intros r. destruct r as [[b rev]|e]; unfold QB2.
        * sret2. relax2.
        * destruct e; try (sret2; relax2). eapply safeP_pre; [|apply IH; auto]. intros s W I X. relax2.
      + destruct e; try (sret2; relax2). apply IH; auto.
  Qed.

  (* ---------------------------------------------------------------- releasing *)
  Lemma release_block_affinity_safe2 c E mr ph must : Eternal E ->
    safe (release_block_affinity h c must) (A2 c E mr ph) (fun _ => A2 c E None None).
  Proof.
    intros EE. unfold release_block_affinity.
    sb safe2_get_aff. destruct r as [[st affrev]|e]; unfold Qaff2.
    2:{ sret2; relax2. }
    sb safe2_get_block. destruct r as [[b brev]|e]; unfold Qblk2.
    2:{ sret2; relax2. }
    destruct (match bk_aff b with Some h' => negb (N.eqb h' h) | None => false end) eqn:MIS.
    { sb safe2_delete_aff. sret2; relax2. }
    assert (OW : bk_aff b = None \/ bk_aff b = Some h).
    { destruct (bk_aff b) as [h'|]; auto. right. apply negb_false_iff in MIS. apply N.eqb_eq in MIS. congruence. }
    destruct (must && negb (blk_empty b)); [sret2; relax2|].
    eapply safeP_bind.
    { eapply safe2_update_aff_pd with (brv := brev) (b0 := b);
        [apply Eternal_EK; apply Eternal_ER; auto | intros s0 [_ K]; exact K]. }
    cbv beta. intros r. destruct r as [affrev'|e]; unfold Qpd2.
    2:{ sret2; relax2. }
    assert (FIN : forall E' mr0 ph0, Eternal E' -> (forall s, E' s -> E s) ->
              safe (d2 <- delete_aff h c affrev' ;;
                    match d2 with
                    | inl _ => Ret (inl tt)
                    | inr ENotFound => Ret (inl tt)
                    | inr e => Ret (inr e)
                    end) (A2 c E' mr0 ph0) (fun _ : res unit => A2 c E None None)).
    { intros E' mr0 ph0 EE' IMP. sb safe2_delete_aff.
      destruct r as [x|e]; [sret2; eapply A2_switch; [exact IMP | exact X]|].
      destruct e; sret2; (eapply A2_switch; [exact IMP | exact X]). }
    set (E1 := ER (EK (ER E affrev) c brev b) affrev').
    assert (EE1 : Eternal E1) by (apply Eternal_ER; apply Eternal_EK; apply Eternal_ER; auto).
    assert (IMP1 : forall s, E1 s -> E s) by (intros s0; unfold E1, EK, ER; tauto).
    assert (KN1 : forall s, E1 s -> Known (KBlock c) brev (VBlock b) s) by (intros s0; unfold E1, EK, ER; tauto).
    destruct (blk_empty b) eqn:EM.
    - eapply safeP_bind.
      { eapply safe2_delete_block_owner with (b0 := b); [exact EE1 | exact KN1 | exact OW | exact EM]. }
      cbv beta. intros r. destruct r as [x|e]; [apply FIN; auto|].
      destruct e; try (sret2; (eapply A2_switch; [exact IMP1 | exact X])). apply FIN; auto.
    - eapply safeP_bind.
      { eapply safe2_clear_block with (b0 := b); [exact EE1 | exact KN1 | exact OW]. }
      cbv beta. intros r. destruct r as [x|e]; [apply FIN; auto|]. sret2; eapply A2_switch; [exact IMP1 | exact X].
  Qed.

  Lemma release_aff_loop_safe2 fuel : forall c E mr ph must, Eternal E ->
    safe (release_aff_loop fuel h c must) (A2 c E mr ph) (fun _ => A2 c E None None).
  Proof.
    induction fuel as [|f IH]; intros c E mr ph must EE; cbn [release_aff_loop].
    - sret2. relax2.
    - sb release_block_affinity_safe2. destruct r as [x|e]; [sret2; exact X|].
      destruct e; try (sret2; exact X). apply IH; auto.
  Qed.

  Lemma rha_one_safe2 fuel : forall c E mr ph must, Eternal E ->
    safe (rha_one fuel h c must) (A2 c E mr ph) (fun _ => A2 c E None None).
  Proof.
    induction fuel as [|f IH]; intros c E mr ph must EE; cbn [rha_one].
    - sret2. relax2.
    - sb release_block_affinity_safe2. destruct r as [x|e]; [sret2; exact X|].
      destruct e; try (sret2; exact X). apply IH; auto.
  Qed.

  Lemma rha_blocks_safe2 cs : forall E must stored, Eternal E ->
    safe (rha_blocks cf cs h must stored) (P0 E) (fun _ => P0 E).
  Proof.
    induction cs as [|c t IH]; intros E must stored EE; cbn [rha_blocks].
    - sret2. exact X.
    - eapply safeP_bind.
      { eapply safeP_pre; [|apply (rha_one_safe2 (cf_retries cf) c E None None must EE)].
        intros s W I X. sw. }
      cbv beta. intros e. eapply safeP_pre; [|apply IH; auto].
      intros s W I X. sw.
  Qed.

  Lemma release_host_affs_safe2 E must : Eternal E ->
    safe (release_host_affs cf h must) (P0 E) (fun _ => P0 E).
  Proof.
    intros EE. unfold release_host_affs. apply safe2_neutral; auto; [exact Logic.I|].
    intros rs. destruct rs; try (sret2; exact X).
    sb rha_blocks_safe2. apply safe2_neutral; auto; [exact Logic.I|]. intros rs. sret2. exact X.
  Qed.
  (* ---------------------------------------------------------------- handles, allocation, address release
     (ported from Proofs.v: the bookkeeping of revisions seen replaces the per-host facts) *)
  Lemma allneutral_safe2 {R} (p : prog R) : allneutral p -> forall c E mr ph, Eternal E ->
    safe p (A2 c E mr ph) (fun _ => A2 c E mr ph).
  Proof.
    induction p as [r | rq k IH]; intros AN c E mr ph EE.
    - sret2. exact X.
    - destruct AN as [NT K]. apply safe2_neutral; auto.
  Qed.

  Lemma an_safe0 {R} (p : prog R) E : allneutral p -> Eternal E -> safe p (P0 E) (fun _ => P0 E).
  Proof. intros AN EE. apply allneutral_safe2; auto. Qed.

  Lemma update_block_keep_safe c E b0 b' rev : Eternal E ->
    (forall s, E s -> Known (KBlock c) rev (VBlock b0) s) -> bk_aff b' = bk_aff b0 ->
    safe (update_block c b' rev) (P0 E) (fun r => match r with inl (b2, rev2) => P0 (EK E c rev2 b2) | inr _ => P0 E end).
  Proof.
    intros EE KN AF. eapply safeP_post; [|eapply safe2_update_block with (c := 0) (b0 := b0) (mr := None) (ph := None); eauto].
    intros r s W I X. destruct r as [[b2 rev2]|e]; exact X.
  Qed.

  Lemma assign_from_block_safe E b rev c num x tag host ac : Eternal E ->
    (forall s, E s -> Known (KBlock c) rev (VBlock b) s) ->
    safe (assign_from_block cf (b, rev) c num x tag host ac) (P0 E) (fun _ => P0 E).
  Proof.
    intros EE KN. unfold assign_from_block.
    destruct (blk_auto_assign b num x tag ac host) as [[b' ips]|] eqn:AA; [|sret2; exact X].
    destruct ips as [|a0 ips']; [sret2; exact X|].
    eapply safeP_bind; [apply an_safe0; [apply an_inc_handle | auto]|]. cbv beta. intros i.
    destruct i as [u|e]; [|sret2; exact X].
    eapply safeP_bind; [eapply update_block_keep_safe; eauto; eapply blk_auto_assign_aff; eauto|].
    cbv beta. intros w. destruct w as [[b2 rev2]|e].
    - sret2. p0.
    - eapply safeP_bind; [apply an_safe0; [apply an_dec_handle | auto]|]. cbv beta. intros u2. sret2. exact X.
  Qed.

  Definition QB0 c E (r : res (block * N)) : assertion :=
    match r with inl (b, rev) => P0 (EK E c rev b) | inr _ => P0 E end.

  Lemma get_block0_safe c E : Eternal E -> safe (get_block c) (P0 E) (QB0 c E).
  Proof.
    intros EE. eapply safeP_post; [|eapply safe2_get_block with (c := 0) (mr := None) (ph := None); eauto].
    intros r s W I X. destruct r as [[b rev]|e]; exact X.
  Qed.

  Lemma assign_ip_loop_safe fuel : forall E x tag a, Eternal E ->
    safe (assign_ip_loop cf true fuel h x tag a) (P0 E) (fun _ => P0 E).
  Proof.
    induction fuel as [|f IH]; intros E x tag a EE; cbn [assign_ip_loop]; [sret2; exact X|].
    assert (CONT : forall b brev, safe
      (match blk_assign b a x tag (cf_strict cf) h with
       | inr e => Ret (ResErr (nz e))
       | inl b' =>
           i <- inc_handle (cf_retries cf) x (block_of cf a) 1 ;;
           match i with
           | inr _ => Ret (ResErr EOther)
           | inl _ =>
               w <- update_block (block_of cf a) b' brev ;;
               match w with
               | inl _ => Ret (ResErr ENone)
               | inr EConflict =>
                   u_ <- dec_handle false (cf_retries cf) x (block_of cf a) 1 None ;; assign_ip_loop cf true f h x tag a
               | inr e => u_ <- dec_handle false (cf_retries cf) x (block_of cf a) 1 None ;; Ret (ResErr (nz e))
               end
           end
       end) (P0 (EK E (block_of cf a) brev b)) (fun _ => P0 E)).
    { intros b brev. destruct (blk_assign b a x tag (cf_strict cf) h) as [b'|e] eqn:BA.
      2:{ sret2. p0. }
      eapply safeP_bind; [apply an_safe0; [apply an_inc_handle | apply Eternal_EK; auto]|]. cbv beta. intros i.
      destruct i as [u|e]; [|sret2; p0].
      eapply safeP_bind.
      { eapply update_block_keep_safe with (b0 := b); [apply Eternal_EK; auto | intros s0 [_ K]; exact K | eapply blk_assign_aff; eauto]. }
      cbv beta. intros w. destruct w as [[b2 rev2]|e].
      - sret2. p0.
      - assert (DEC : forall (k : prog result), safe k (P0 E) (fun _ => P0 E) ->
                  safe (u_ <- dec_handle false (cf_retries cf) x (block_of cf a) 1 None ;; k)
                       (P0 (EK E (block_of cf a) brev b)) (fun _ => P0 E)).
        { intros k K. eapply safeP_bind; [apply an_safe0; [apply an_dec_handle | apply Eternal_EK; auto]|].
          cbv beta. intros u2. eapply safeP_pre; [|exact K]. intros s W I X. p0. }
        destruct e; try (apply DEC; sret2; exact X). apply DEC. apply IH; auto. }
    eapply safeP_bind; [apply get_block0_safe; auto|]. cbv beta. intros g.
    destruct g as [[b brev]|e]; unfold QB0.
    - apply CONT.
    - destruct e; try (sret2; exact X).
      eapply safeP_bind.
      { eapply safeP_pre; [|eapply get_pending_aff_safe2 with (c := block_of cf a) (E := E) (mr := None) (ph := None); auto].
        intros s W I X. sw. }
      { cbv beta. intros pa. destruct pa as [[st affrev]|e]; unfold Qpending2.
        - eapply safeP_bind; [eapply claim_affine_block_safe2; [apply Eternal_ER; auto | rs]|]. cbv beta. intros cb.
          destruct cb as [[b brev]|e]; unfold QB2.
          + eapply safeP_pre; [|apply CONT]. intros s W I X. p0.
          + destruct e; try (sret2; p0).
            eapply safeP_pre; [|apply IH; auto]. intros s W I X. p0.
        - destruct e; try (sret2; p0).
          eapply safeP_pre; [|apply IH; auto]. intros s W I X. p0. }
  Qed.

  Lemma release_loop_safe fuel : forall E c opts hint cache, Eternal E ->
    safe (release_loop cf fuel c opts hint cache) (P0 E) (fun _ => P0 E).
  Proof.
    induction fuel as [|f IH]; intros E c opts hint cache EE; cbn [release_loop]; [sret2; exact X|].
    eapply safeP_bind; [apply get_block0_safe; auto|]. cbv beta. intros g.
    destruct g as [[b brev]|e]; unfold QB0; [|destruct e; sret2; exact X].
    destruct (blk_release b opts) as [[[b' un] cnt]|e] eqn:BR; [|sret2; p0].
    destruct (Nat.eqb (length opts) (length un)); [sret2; p0|].
    eapply safeP_bind with (Q1 := fun _ => P0 E).
    { destruct (blk_empty b' && optN_eqb (bk_aff b') None) eqn:DEL.
      - apply andb_true_iff in DEL. destruct DEL as [_ AN]. apply optN_eqb_eq in AN.
        eapply safeP_post; [|eapply safe2_delete_block_unowned with (c := 0) (b0 := b) (mr := None) (ph := None)].
        + intros r s W I X. p0.
        + apply Eternal_EK; auto.
        + intros s0 [_ K]; exact K.
        + rewrite <- (blk_release_aff _ _ _ _ _ BR). exact AN.
      - eapply safeP_bind.
        { eapply update_block_keep_safe with (b0 := b); [apply Eternal_EK; auto | intros s0 [_ K]; exact K | eapply blk_release_aff; eauto]. }
        cbv beta. intros u. destruct u as [[b2 rev2]|e]; sret2; p0. }
    cbv beta. intros w. destruct w as [u|e].
    - eapply safeP_bind; [apply an_safe0; [apply an_dec_all | auto]|]. cbv beta. intros u2. sret2. exact X.
    - destruct e; try (sret2; exact X). apply IH; auto.
  Qed.

  Lemma release_ips_safe E opts hint : Eternal E -> safe (release_ips cf opts hint) (P0 E) (fun _ => P0 E).
  Proof.
    intros EE. unfold release_ips. destruct opts as [|[a oh] t]; [sret2; exact X|].
    destruct (Nat.ltb 2 (length ((a, oh) :: t))); [|apply release_loop_safe; auto].
    apply safe2_neutral; auto; [exact Logic.I|]. intros rs. destruct rs; try (sret2; exact X).
    apply release_loop_safe; auto.
  Qed.

  Lemma rbh_one_safe fuel : forall E c x, Eternal E -> safe (rbh_one cf fuel c x) (P0 E) (fun _ => P0 E).
  Proof.
    induction fuel as [|f IH]; intros E c x EE; cbn [rbh_one]; [sret2; exact X|].
    eapply safeP_bind; [apply get_block0_safe; auto|]. cbv beta. intros g.
    destruct g as [[b brev]|e]; unfold QB0; [|destruct e; sret2; exact X].
    destruct (blk_release_by_handle b x) as [b' n] eqn:BR.
    destruct n as [|n]; [sret2; p0|].
    assert (AFTER : forall E', Eternal E' -> (forall s, E' s -> E s) ->
              safe (u_ <- dec_handle (cf_stale_cache cf) (cf_retries cf) x c (N.of_nat (S n)) None ;; Ret (inl tt))
                   (P0 E') (fun _ : res unit => P0 E)).
    { intros E' EE' IMP. eapply safeP_bind; [apply an_safe0; [apply an_dec_handle | auto]|]. cbv beta. intros u2. sret2.
      eapply P0_imp; [exact IMP | exact X]. }
    destruct (blk_empty b' && optN_eqb (bk_aff b') None) eqn:DEL.
    - apply andb_true_iff in DEL. destruct DEL as [_ AN]. apply optN_eqb_eq in AN.
      eapply safeP_bind.
      { eapply safe2_delete_block_unowned with (c := 0) (b0 := b) (mr := None) (ph := None);
          [apply Eternal_EK; auto | intros s0 [_ K]; exact K | rewrite <- (blk_release_by_handle_aff _ _ _ _ BR); exact AN]. }
      cbv beta. intros w.
      assert (AF2 : safe (u_ <- dec_handle (cf_stale_cache cf) (cf_retries cf) x c (N.of_nat (S n)) None ;; Ret (inl tt))
                         (A2 0 (EK E c brev b) None None) (fun _ : res unit => P0 E)).
      { apply AFTER; [apply Eternal_EK; auto | intros s0; unfold EK; tauto]. }
      destruct w as [u|e]; [exact AF2|]. destruct e; try (sret2; p0); try exact AF2.
      eapply safeP_pre; [|apply IH; auto]. intros s W I X. p0.
    - eapply safeP_bind.
      { eapply update_block_keep_safe with (b0 := b); [apply Eternal_EK; auto | intros s0 [_ K]; exact K | eapply blk_release_by_handle_aff; eauto]. }
      cbv beta. intros w. destruct w as [[b2 rev2]|e].
      + apply AFTER; [apply Eternal_EK; apply Eternal_EK; auto | intros s0; unfold EK; tauto].
      + destruct e; try (sret2; p0). eapply safeP_pre; [|apply IH; auto]. intros s W I X. p0.
  Qed.

  Lemma rbh_blocks_safe cs : forall E x, Eternal E -> safe (rbh_blocks cf cs x) (P0 E) (fun _ => P0 E).
  Proof.
    induction cs as [|c t IH]; intros E x EE; cbn [rbh_blocks]; [sret2; exact X|].
    eapply safeP_bind; [apply rbh_one_safe; auto|]. cbv beta. intros r.
    destruct r; [apply IH; auto | sret2; exact X].
  Qed.

  Lemma release_by_handle_safe E x hint : Eternal E -> safe (release_by_handle cf x hint) (P0 E) (fun _ => P0 E).
  Proof.
    intros EE. unfold release_by_handle.
    eapply safeP_bind; [apply an_safe0; [apply an_get_handle | auto]|]. cbv beta. intros r.
    destruct r as [[mm rev]|e]; [apply rbh_blocks_safe; auto | sret2; exact X].
  Qed.

  (* ---------------------------------------------------------------- AutoAssign *)
  Definition Qopt c E (r : option (block * N)) : assertion :=
    match r with Some (b, rev) => P0 (EK E c rev b) | None => P0 E end.

  Lemma try_affine_safe fuel : forall E c, Eternal E -> safe (try_affine cf true fuel h c) (P0 E) (Qopt c E).
  Proof.
    induction fuel as [|f IH]; intros E c EE; cbn [try_affine]; [sret2; exact X|].
    eapply safeP_bind.
    { eapply safeP_pre; [|eapply safe2_get_aff with (c := c) (E := E) (mr := None) (ph := None); auto].
      intros s W I X. sw. }
    cbv beta. intros r. destruct r as [aff|e]; unfold Qaff2.
    2:{ destruct e; sret2; p0. }
    destruct aff as [st affrev].
    eapply safeP_bind; [eapply get_block_from_aff_safe2; [apply Eternal_ER; auto | rs]|]. cbv beta. intros g.
    destruct g as [[b brev]|e]; unfold QB2.
    - destruct (Nat.leb 1 (num_free b)); sret2; unfold Qopt.
      + p0.
      + p0.
    - destruct e; try (sret2; p0).
      eapply safeP_pre; [|apply IH; auto]. intros s W I X. p0.
  Qed.

  Definition Qscan E (r : option (block * N * N) * list N) : assertion :=
    match fst r with Some (b, rev, c) => P0 (EK E c rev b) | None => P0 E end.

  Lemma scan_affine_safe rem : forall E, Eternal E -> safe (scan_affine cf true rem h) (P0 E) (Qscan E).
  Proof.
    induction rem as [|c rest IH]; intros E EE; cbn [scan_affine]; [sret2; exact X|].
    eapply safeP_bind; [apply try_affine_safe; auto|]. cbv beta. intros r.
    destruct r as [[b rev]|]; unfold Qopt; [sret2; exact X | apply IH; auto].
  Qed.

  Lemma find_usable_safe E : Eternal E -> safe (find_usable cf h) (P0 E) (fun _ => P0 E).
  Proof.
    intros EE. unfold find_usable. apply safe2_neutral; auto; [exact Logic.I|].
    intros rs. destruct rs; try (sret2; exact X). destruct (find _ _); sret2; exact X.
  Qed.

  Definition Qcr c E (r : claim_res) : assertion :=
    match r with CRBlock (b, rev) => P0 (EK E c rev b) | _ => P0 E end.

  Lemma claim_inner_safe fuel : forall E c, Eternal E -> safe (claim_inner cf true fuel h c) (P0 E) (Qcr c E).
  Proof.
    induction fuel as [|f IH]; intros E c EE; cbn [claim_inner]; [sret2; exact X|].
    eapply safeP_bind.
    { eapply safeP_pre; [|eapply get_pending_aff_safe2 with (c := c) (E := E) (mr := None) (ph := None); auto].
      intros s W I X. sw. }
    cbv beta. intros pa. destruct pa as [aff|e]; unfold Qpending2.
    - destruct aff as [st affrev].
      eapply safeP_bind; [eapply get_block_from_aff_safe2; [apply Eternal_ER; auto | rs]|]. cbv beta. intros g.
      destruct g as [[b brev]|e]; unfold QB2.
      + destruct (Nat.leb 1 (num_free b)); sret2; unfold Qcr.
        * p0.
        * p0.
      + destruct e; try (sret2; p0).
        eapply safeP_pre; [|apply IH; auto]. intros s W I X. p0.
    - destruct e; try (sret2; p0).
      eapply safeP_pre; [|apply IH; auto]. intros s W I X. p0.
  Qed.

  Definition Qco E (r : res (block * N * N)) : assertion :=
    match r with inl (b, rev, c) => P0 (EK E c rev b) | inr _ => P0 E end.

  Lemma claim_outer_safe fuel : forall E, Eternal E -> safe (claim_outer cf true fuel h) (P0 E) (Qco E).
  Proof.
    induction fuel as [|f IH]; intros E EE; cbn [claim_outer]; [sret2; exact X|].
    eapply safeP_bind; [apply find_usable_safe; auto|]. cbv beta. intros u.
    destruct u as [c|e]; [|sret2; exact X].
    eapply safeP_bind; [apply claim_inner_safe; auto|]. cbv beta. intros r.
    destruct r as [[b rev]| |e]; unfold Qcr; [sret2; exact X | apply IH; auto | sret2; exact X].
  Qed.

  Definition Qfc E (r : res (block * N * N * bool) * list N) : assertion :=
    match fst r with inl (b, rev, c, _) => P0 (EK E c rev b) | inr _ => P0 E end.

  Lemma find_or_claim_safe E rem allow : Eternal E -> safe (find_or_claim cf true rem h allow) (P0 E) (Qfc E).
  Proof.
    intros EE. unfold find_or_claim.
    eapply safeP_bind; [apply scan_affine_safe; auto|]. cbv beta. intros sres.
    destruct sres as [[[[b rev] c]|] rest]; unfold Qscan; cbn [fst].
    - sret2. exact X.
    - destruct (negb allow); [sret2; exact X|]. destruct (cf_autoalloc cf); [|sret2; exact X].
      eapply safeP_bind; [apply claim_outer_safe; auto|]. cbv beta. intros r.
      destruct r as [[[b rev] c]|e]; unfold Qco; sret2; exact X.
  Qed.

  Lemma assign_retry_safe (E : assertion) fuel : forall E' b rev c rem x tag, Eternal E' -> (forall s, E' s -> E s) ->
    (forall s, E' s -> Known (KBlock c) rev (VBlock b) s) ->
    safe (assign_retry cf fuel (b, rev) c rem x tag h) (P0 E') (fun _ => P0 E).
  Proof.
    induction fuel as [|f IH]; intros E' b rev c rem x tag EE IMP KN; cbn [assign_retry].
    - sret2. eapply P0_imp; [exact IMP | exact X].
    - eapply safeP_bind; [eapply assign_from_block_safe; eauto|]. cbv beta. intros r.
      assert (FIN : forall l : list N, safe (Ret l) (P0 E') (fun _ => P0 E)).
      { intros l. sret2. eapply P0_imp; [exact IMP | exact X]. }
      destruct r as [ips|e]; [apply FIN|]. destruct e; try apply FIN.
      eapply safeP_bind; [apply get_block0_safe; auto|]. cbv beta. intros g.
      destruct g as [[b2 rev2]|e]; unfold QB0; [|apply FIN].
      apply IH; [apply Eternal_EK; auto | intros s0 [Y _]; auto | intros s0 [_ K]; exact K].
  Qed.

  Lemma na_try_safe fuel : forall E c rem x tag, Eternal E -> safe (na_try cf fuel c rem x tag h) (P0 E) (fun _ => P0 E).
  Proof.
    induction fuel as [|f IH]; intros E c rem x tag EE; cbn [na_try]; [sret2; exact X|].
    eapply safeP_bind; [apply get_block0_safe; auto|]. cbv beta. intros g.
    destruct g as [[b rev]|e]; unfold QB0; [|sret2; exact X].
    eapply safeP_bind.
    { eapply assign_from_block_safe with (E := EK E c rev b); [apply Eternal_EK; auto | intros s0 [_ K]; exact K]. }
    cbv beta. intros r.
    assert (FIN : forall l : list N, safe (Ret l) (P0 (EK E c rev b)) (fun _ => P0 E)) by (intros l; sret2; p0).
    destruct r as [ips|e]; [apply FIN|]. destruct e; try apply FIN.
    eapply safeP_pre; [|apply IH; auto]. intros s W I X. p0.
  Qed.

  Lemma na_loop_safe order : forall E ips num x tag, Eternal E -> safe (na_loop cf order ips num x tag h) (P0 E) (fun _ => P0 E).
  Proof.
    induction order as [|c rest IH]; intros E ips num x tag EE; cbn [na_loop]; [sret2; exact X|].
    destruct (Nat.leb num (length ips)); [sret2; exact X|].
    eapply safeP_bind; [apply na_try_safe; auto|]. cbv beta. intros new. apply IH; auto.
  Qed.

  Lemma aa_loop_safe fuel : forall E ips rem_aff owned num x tag, Eternal E ->
    safe (aa_loop cf true fuel ips rem_aff owned num x tag h) (P0 E) (fun _ => P0 E).
  Proof.
    induction fuel as [|f IH]; intros E ips rem_aff owned num x tag EE; cbn [aa_loop].
    - destruct (Nat.leb num (length ips)); sret2; exact X.
    - destruct (Nat.leb num (length ips)); [sret2; exact X|].
      eapply safeP_bind; [apply find_or_claim_safe; auto|]. cbv beta. intros fc.
      destruct fc as [[[[[b rev] c] newly]|e] rem']; unfold Qfc; cbn [fst].
      + eapply safeP_bind.
        { eapply assign_retry_safe with (E := E) (E' := EK E c rev b);
            [apply Eternal_EK; auto | intros s0 [Y _]; auto | intros s0 [_ K]; exact K]. }
        cbv beta. intros new. apply IH; auto.
      + destruct e; try (sret2; exact X).
        destruct (negb (cf_strict cf)); [|sret2; exact X].
        eapply safeP_bind; [apply na_loop_safe; auto|]. cbv beta. intros ips'. sret2. exact X.
  Qed.

  Lemma auto_assign_safe E x tag num : Eternal E -> safe (auto_assign cf true h x tag num) (P0 E) (fun _ => P0 E).
  Proof.
    intros EE. unfold auto_assign. apply safe2_neutral; auto; [exact Logic.I|].
    intros rs. destruct rs; try (sret2; exact X). apply aa_loop_safe; auto.
  Qed.


  (* ---------------------------------------------------------------- every operation *)
  Theorem compile22_safe2 o : safe (compile22 cf true h o) Ptop Qtop.
  Proof.
    assert (PRE : forall s, wf s -> Inv s -> Ptop s -> P0 (fun _ => True) s).
    { intros s _ _ _. split; [exact Logic.I|]. split; exact Logic.I. }
    eapply safeP_pre; [exact PRE|].
    eapply safeP_post with (Q := fun _ => P0 (fun _ => True)); [intros; exact Logic.I|].
    destruct o; cbn [compile22].
    - eapply safeP_post; [|eapply safeP_pre; [|eapply claim_aff_loop_safe2 with (E := fun _ => True) (mr := None) (ph := None); apply Eternal_true]].
      + intros r s W I X. sw.
      + intros s W I X. sw.
    - eapply safeP_post; [|eapply safeP_pre; [|eapply release_aff_loop_safe2 with (E := fun _ => True) (mr := None) (ph := None); apply Eternal_true]].
      + intros r s W I X. sw.
      + intros s W I X. sw.
    - apply release_host_affs_safe2. apply Eternal_true.
    - apply auto_assign_safe. apply Eternal_true.
    - apply assign_ip_loop_safe. apply Eternal_true.
    - apply release_ips_safe. apply Eternal_true.
    - apply release_by_handle_safe. apply Eternal_true.
  Qed.

End HostOps2.
