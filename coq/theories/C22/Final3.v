(* C22 — the converse direction of the invariant, for clients on pairwise distinct hosts (pinned and repaired code):
   a block whose Affinity field names host h has an affinity object (h, c), in some state.  Proved with a copy of the
   rely/guarantee development (RG3, StepLemmas3, Prims3, Sys3, Proofs3) whose invariant is the conjunction of both
   directions; the extra local knowledge is "block c does not name h" (NotMine) at every deletion of an affinity row
   and "my affinity row exists" at every block creation.  False under same-host concurrency (Final2.v). *)
From Coq Require Import List NArith Bool Arith Lia.
From Verif.Common Require Import Cas.
From Verif.C19 Require Import Model.
From Verif.C22 Require Import Model RG3 Sys3 Proofs3.
Import ListNotations.
Open Scope N_scope.

Definition any_op3 (o : op22) : Prop := True.
Lemma all_supported3 (clients : list (N * list op22)) : Forall (fun hc => Forall any_op3 (snd hc)) clients.
Proof. apply Forall_forall. intros hc _. apply Forall_forall. intros o _. exact I. Qed.

Lemma both_directions cf fx clients evs :
  NoDup (map fst clients) -> Inv (sy_store (sys_run cf fx (sys0 cf fx clients) evs)).
Proof.
  intros ND.
  exact (system_invariant cf fx any_op3 (fun host o _ => compile22_safe cf fx host o) clients evs ND (all_supported3 clients)).
Qed.

Lemma named_block_has_affinity cf fx clients evs c b h :
  NoDup (map fst clients) ->
  blk_at (sy_store (sys_run cf fx (sys0 cf fx clients) evs)) c = Some b -> bk_aff b = Some h ->
  aff_at (sy_store (sys_run cf fx (sys0 cf fx clients) evs)) h c <> None.
Proof. intros ND. destruct (both_directions cf fx clients evs ND) as [_ I3]. apply I3. Qed.
