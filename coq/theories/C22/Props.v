(* C22 — theorems (statements only; proofs: RG.v program logic, Sys.v system theorem, Prims.v/Proofs.v every
   operation of Model.v is safe, Final.v assembly, Witness.v the same-host race).

   System: any number of clients; client i acts for host (fst (nth i clients)) and runs its list of operations
   (ClaimAffinity, ReleaseAffinity, ReleaseHostAffinities, AutoAssign, AssignIP, ReleaseIPs, ReleaseByHandle) one
   after the other; [evs] is ANY schedule: each event lets one client perform its next datastore access, possibly
   with an injected write conflict, or crashes it before/after the access (it then abandons the operation and
   restarts with its next one).  [fx] selects the pinned (false) or repaired (true) claimAffineBlock: the theorems
   hold for both.  Hypothesis NoDup (map fst clients): no two clients act for the same host CONCURRENTLY
   (successive processes of one host = successive operations of one client, with crashes in between). *)
From Coq Require Import List NArith Bool Arith.
From Verif.Common Require Import Cas.
From Verif.C19 Require Import Model.
From Verif.C22 Require Import Model RG Sys Witness Final Must Final2 Spec Meets Meets3.
From Verif.C22 Require Final3.
Import ListNotations.
Open Scope N_scope.

(* At every point of every history a block is confirmed as affine to at most one host. *)
Theorem c22_one_confirmed_owner : forall cf fx clients evs h1 h2 c,
  NoDup (map fst clients) ->
  aff_at (sy_store (sys_run cf fx (sys0 cf fx clients) evs)) h1 c = Some AConfirmed ->
  aff_at (sy_store (sys_run cf fx (sys0 cf fx clients) evs)) h2 c = Some AConfirmed -> h1 = h2.
Proof. exact one_confirmed_owner. Qed.
Print Assumptions c22_one_confirmed_owner.

(* A confirmed affinity (h, c) implies that block c exists and its recorded Affinity field is h. *)
Theorem c22_block_affinity_matches_claim : forall cf fx clients evs h c,
  NoDup (map fst clients) ->
  aff_at (sy_store (sys_run cf fx (sys0 cf fx clients) evs)) h c = Some AConfirmed ->
  exists b, blk_at (sy_store (sys_run cf fx (sys0 cf fx clients) evs)) c = Some b /\ bk_aff b = Some h.
Proof. exact confirmed_matches_block. Qed.
Print Assumptions c22_block_affinity_matches_claim.

(* Every step of every schedule (step_spec, Final.v): a block whose Affinity field names a host is deleted only by
   that host and only when it holds no allocation (a block naming nobody may be deleted by an address release);
   the Affinity field only changes from "this host" to "none", by that host, keeping every allocation; a block is
   created empty with the creating host in its Affinity field; nobody writes another host's affinity objects. *)
Theorem c22_release_only_if_empty : forall cf fx clients evs ev,
  NoDup (map fst clients) ->
  let y := sys_run cf fx (sys0 cf fx clients) evs in
  sy_store (sys_step cf fx y ev) = sy_store y \/
  exists cl, nth_error (sy_clients y) (ev_client ev) = Some cl /\
             step_spec (cl_host cl) (sy_store y) (sy_store (sys_step cf fx y ev)).
Proof. exact every_step. Qed.
Print Assumptions c22_release_only_if_empty.

(* Pending is not ownership, part 1: in every environment made of other hosts' operations (rely = their
   guarantee), with any conflicts, ClaimAffinity reports "claimed" only in a store where the host's affinity is
   CONFIRMED and the block's Affinity field names the host.  (Part 2 is the third clause of step_spec: the block
   create is the claim.) *)
Theorem c22_pending_not_ownership : forall cf fx h c,
  safeS h (G h) (compile22 cf fx h (OClaim c)) Ptop
        (fun r s => match r with
                    | ResClaim true _ _ => aff_at s h c = Some AConfirmed /\
                                           exists b, blk_at s c = Some b /\ bk_aff b = Some h
                    | _ => True end).
Proof. exact claim_reports_confirmed. Qed.
Print Assumptions c22_pending_not_ownership.

(* Pending is not ownership, part 3: with StrictAffinity (affinity check on) the block functions used by AutoAssign's
   affine phase and by AssignIP allocate only from a block whose Affinity field is the host, whatever affinity
   objects exist. *)
Theorem c22_strict_allocation_needs_block_affinity : forall b num x tag host b' ips a b'',
  (blk_auto_assign b num x tag true host = Some (b', ips) -> bk_aff b = Some host /\ bk_aff b' = Some host) /\
  (blk_assign b a x tag true host = inl b'' -> bk_aff b = Some host /\ bk_aff b'' = Some host).
Proof. exact strict_allocation_needs_block_affinity. Qed.
Print Assumptions c22_strict_allocation_needs_block_affinity.

(* FINDING.  Without the hypothesis: when two processes act for the same host concurrently (the node itself and
   e.g. kube-controllers' releaseUnusedBlocks, which calls ReleaseBlockAffinity with the node's affinity), the
   pinned code reaches a state where two different hosts hold a CONFIRMED affinity for one block. *)
Theorem c22_one_confirmed_owner_same_host_refuted :
  exists (cf : config) (clients : list (N * list op22)) (evs : list event) (h1 h2 c : N),
    let s := sy_store (sys_run cf false (sys0 cf false clients) evs) in
    h1 <> h2 /\ aff_at s h1 c = Some AConfirmed /\ aff_at s h2 c = Some AConfirmed.
Proof. exact same_host_refuted. Qed.
Print Assumptions c22_one_confirmed_owner_same_host_refuted.

(* ------------------------------------------------------------------------------------------------------------
   SAME-HOST CONCURRENCY, repaired code (fx = true): NO hypothesis on the hosts.  Any number of processes may act
   for one host at the same time (the CNI plugin's IPAM client, kube-controllers releasing unused blocks, ...),
   interleaved with other hosts, with conflicts and crash/restart.  Proof: RG2.v (guarantee GP = G + two facts that
   order affinity and block revisions: the claim path re-writes the block AFTER it obtained the affinity revision
   and BEFORE it confirms, the release path marks the affinity AFTER it read the block), Prims2.v, Proofs2.v, Sys2.v. *)
Theorem c22_block_affinity_matches_claim_same_host : forall cf clients evs h c,
  aff_at (sy_store (sys_run cf true (sys0 cf true clients) evs)) h c = Some AConfirmed ->
  exists b, blk_at (sy_store (sys_run cf true (sys0 cf true clients) evs)) c = Some b /\ bk_aff b = Some h.
Proof. exact confirmed_matches_block_same_host. Qed.
Print Assumptions c22_block_affinity_matches_claim_same_host.

Theorem c22_one_confirmed_owner_same_host : forall cf clients evs h1 h2 c,
  aff_at (sy_store (sys_run cf true (sys0 cf true clients) evs)) h1 c = Some AConfirmed ->
  aff_at (sy_store (sys_run cf true (sys0 cf true clients) evs)) h2 c = Some AConfirmed -> h1 = h2.
Proof. exact one_confirmed_owner_same_host. Qed.
Print Assumptions c22_one_confirmed_owner_same_host.

(* A mustBeEmpty release never rewrites a block: whatever the datastore answers (hence under every interleaving,
   conflict and same-host process), ReleaseAffinity(c, mustBeEmpty) and ReleaseHostAffinities(mustBeEmpty) never issue
   a Create or an Update of a block key; their only block write is the compare-and-delete of the block they read. *)
Theorem c22_must_be_empty_release_never_rewrites_block : forall cf fx h o,
  (exists c, o = ORelease c true) \/ o = OReleaseHost true ->
  never_rewrites_block (compile22 cf fx h o).
Proof. exact must_release_never_rewrites. Qed.
Print Assumptions c22_must_be_empty_release_never_rewrites_block.

(* The converse direction (closed in the deepening round; Final3.v): for clients on pairwise distinct hosts, pinned and
   repaired code, every interleaving with conflicts and crash/restart: a block whose Affinity field names host h has an
   affinity object (h, c) in some state (pending, confirmed or pendingDeletion).  It is false under same-host
   concurrency: *)
Theorem c22_named_block_has_affinity : forall cf fx clients evs c b h,
  NoDup (map fst clients) ->
  blk_at (sy_store (sys_run cf fx (sys0 cf fx clients) evs)) c = Some b -> bk_aff b = Some h ->
  aff_at (sy_store (sys_run cf fx (sys0 cf fx clients) evs)) h c <> None.
Proof. exact Final3.named_block_has_affinity. Qed.
Print Assumptions c22_named_block_has_affinity.

Theorem c22_named_block_has_affinity_same_host_refuted :
  exists (cf : config) (fx : bool) (clients : list (N * list op22)) (evs : list event) (h c : N) (b : block),
    let s := sy_store (sys_run cf fx (sys0 cf fx clients) evs) in
    blk_at s c = Some b /\ bk_aff b = Some h /\ aff_at s h c = None.
Proof. exact named_block_without_affinity_same_host. Qed.
Print Assumptions c22_named_block_has_affinity_same_host_refuted.

(* ------------------------------------------------------------------------------------------------------------
   Both directions: whenever block c exists and SOME host holds a confirmed row for c, host h holds the confirmed row
   if and only if the block's Affinity field is h (distinct hosts: pinned and repaired code; any hosts: repaired code). *)
Theorem c22_confirmed_row_iff_block_affinity : forall cf fx clients evs c b h,
  NoDup (map fst clients) ->
  let s := sy_store (sys_run cf fx (sys0 cf fx clients) evs) in
  blk_at s c = Some b -> (exists h', aff_at s h' c = Some AConfirmed) ->
  (aff_at s h c = Some AConfirmed <-> bk_aff b = Some h).
Proof. exact confirmed_row_iff_block_affinity. Qed.
Print Assumptions c22_confirmed_row_iff_block_affinity.

Theorem c22_confirmed_row_iff_block_affinity_same_host : forall cf clients evs c b h,
  let s := sy_store (sys_run cf true (sys0 cf true clients) evs) in
  blk_at s c = Some b -> (exists h', aff_at s h' c = Some AConfirmed) ->
  (aff_at s h c = Some AConfirmed <-> bk_aff b = Some h).
Proof. exact confirmed_row_iff_block_affinity_same_host. Qed.
Print Assumptions c22_confirmed_row_iff_block_affinity_same_host.

(* The oracle of Spec.v accepts every model run, state part: on the dump of EVERY reachable store the boolean checks
   one_confirmed and confirmed_match that ok_trace applies to the implementation's datastore answer true.
   (The change part, block_change_ok, is the boolean form of step_spec, proved as c22_release_only_if_empty; its
   boolean transcription is not proved - see the report.) *)
Theorem c22_model_meets_spec : forall cf fx clients evs,
  NoDup (map fst clients) ->
  state_ok false (store_dump (sy_store (sys_run cf fx (sys0 cf fx clients) evs))) = true.
Proof. exact model_meets_spec. Qed.
Print Assumptions c22_model_meets_spec.

Theorem c22_model_meets_spec_same_host : forall cf clients evs,
  state_ok false (store_dump (sy_store (sys_run cf true (sys0 cf true clients) evs))) = true.
Proof. exact model_meets_spec_same_host. Qed.
Print Assumptions c22_model_meets_spec_same_host.

(* ... and with the clause named_has_affinity (the flag the oracle uses for cases whose clients act for distinct hosts) *)
Theorem c22_model_meets_spec_full : forall cf fx clients evs,
  NoDup (map fst clients) ->
  state_ok true (store_dump (sy_store (sys_run cf fx (sys0 cf fx clients) evs))) = true.
Proof. exact model_meets_spec_full. Qed.
Print Assumptions c22_model_meets_spec_full.
