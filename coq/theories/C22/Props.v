(* C22 — theorems (statements only; proofs are in Witness.v, RG.v, Proofs.v). *)
From Coq Require Import List NArith Bool Arith.
From Verif.Common Require Import Cas.
From Verif.C19 Require Import Model.
From Verif.C22 Require Import Model Witness.
Import ListNotations.
Open Scope N_scope.

(* FINDING.  When two processes act for the same host concurrently (the node itself and e.g. kube-controllers'
   releaseUnusedBlocks, which calls ReleaseBlockAffinity with the node's affinity), the pinned code reaches a state
   where two different hosts hold a CONFIRMED affinity for one block. *)
Theorem c22_one_confirmed_owner_same_host_refuted :
  exists (cf : config) (clients : list (N * list op22)) (evs : list event) (h1 h2 c : N),
    let s := sy_store (sys_run cf false (sys0 cf false clients) evs) in
    h1 <> h2 /\ aff_at s h1 c = Some AConfirmed /\ aff_at s h2 c = Some AConfirmed.
Proof. exact same_host_refuted. Qed.
Print Assumptions c22_one_confirmed_owner_same_host_refuted.
