(* C22 — a rely/guarantee program logic for clients of the CAS store (Common/Cas.v), used to prove invariants
   that relate DIFFERENT keys (a confirmed affinity object and the Affinity field of its block), which the
   per-key rule Cas.safeQ cannot express.

   * every client acts for one host h; [G h s s'] is what one datastore access of such a client may do to the
     store (its guarantee); the rely of a client of host h is the guarantee of every OTHER host;
   * an assertion is a predicate on stores that is [Stable h]: kept by every access of another host;
   * [safeS h p P Q]: from any store satisfying the invariant and P, whatever the datastore answers and whether or
     not a conflict is injected, the next access of p satisfies G h, re-establishes the invariant, and leaves a
     stable assertion from which the rest of p is safe; p returns r only in stores satisfying Q r;
   * [system_invariant]: if the hosts of the clients are pairwise distinct and every operation is safe from the
     trivial assertion, the invariant holds after EVERY schedule (any interleaving, injected conflicts, crashes
     before or after any access followed by a restart with the next operation), and every step satisfies G. *)
From Coq Require Import List NArith Bool Arith Lia.
From Verif.Common Require Import Cas.
From Verif.C19 Require Import Model BlockLemmas.
From Verif.C22 Require Import Model.
Import ListNotations.
Open Scope N_scope.

(* ------------------------------------------------------------------ lookups after a write *)
Notation lookup := (Cas.lookup key_eqb).
Notation entry := (Cas.entry key value).

Lemma key_eqb_refl k : key_eqb k k = true.
Proof. apply key_eqb_eq; reflexivity. Qed.
Lemma key_eqb_neq a b : a <> b -> key_eqb a b = false.
Proof. intros N. destruct (key_eqb a b) eqn:E; auto. apply key_eqb_eq in E. contradiction. Qed.

Lemma lookup_key (es : list entry) k e : lookup es k = Some e -> e_key e = k.
Proof.
  induction es as [|a es IH]; simpl; [discriminate|].
  destruct (key_eqb (e_key a) k) eqn:E.
  - intros X; inversion X; subst. apply key_eqb_eq; auto.
  - auto.
Qed.

Lemma lookup_replace (es : list entry) (n : entry) k' : lookup es (e_key n) <> None ->
  lookup (Cas.replace key_eqb es n) k' = if key_eqb (e_key n) k' then Some n else lookup es k'.
Proof.
  induction es as [|a es IH]; simpl; [congruence|].
  destruct (key_eqb (e_key a) (e_key n)) eqn:E; simpl.
  - intros _. apply key_eqb_eq in E. rewrite E. destruct (key_eqb (e_key n) k'); auto.
  - intros X. rewrite IH by auto.
    destruct (key_eqb (e_key a) k') eqn:E2; auto.
    apply key_eqb_eq in E2. subst k'.
    destruct (key_eqb (e_key n) (e_key a)) eqn:E3; auto.
    apply key_eqb_eq in E3. rewrite E3, key_eqb_refl in E. discriminate.
Qed.

Lemma lookup_sinsert (es : list entry) (n : entry) k' : lookup es (e_key n) = None ->
  lookup (Cas.sinsert key_ltb es n) k' = if key_eqb (e_key n) k' then Some n else lookup es k'.
Proof.
  induction es as [|a es IH]; simpl.
  - intros _. reflexivity.
  - destruct (key_eqb (e_key a) (e_key n)) eqn:E; [discriminate|]. intros X.
    destruct (key_ltb (e_key n) (e_key a)); simpl.
    + reflexivity.
    + rewrite IH by auto.
      destruct (key_eqb (e_key a) k') eqn:E2; auto.
      apply key_eqb_eq in E2. subst k'.
      destruct (key_eqb (e_key n) (e_key a)) eqn:E3; auto.
      apply key_eqb_eq in E3. rewrite E3, key_eqb_refl in E. discriminate.
Qed.

Lemma lookup_insert (es : list entry) (n : entry) k' :
  lookup (Cas.insert key_eqb key_ltb es n) k' = if key_eqb (e_key n) k' then Some n else lookup es k'.
Proof.
  unfold Cas.insert. destruct (lookup es (e_key n)) eqn:E.
  - apply lookup_replace. congruence.
  - apply lookup_sinsert. auto.
Qed.

Lemma lookup_notin (es : list entry) k : ~ In k (map (@e_key key value) es) -> lookup es k = None.
Proof.
  induction es as [|a es IH]; simpl; auto. intros X.
  destruct (key_eqb (e_key a) k) eqn:E.
  - apply key_eqb_eq in E. exfalso; apply X; auto.
  - apply IH. intros Y; apply X; auto.
Qed.

Lemma key_eqb_sym a b : key_eqb a b = key_eqb b a.
Proof.
  destruct (key_eqb a b) eqn:E.
  - apply key_eqb_eq in E. subst. symmetry. apply key_eqb_refl.
  - destruct (key_eqb b a) eqn:E2; auto. apply key_eqb_eq in E2. subst. rewrite key_eqb_refl in E. discriminate.
Qed.

Lemma lookup_remove (es : list entry) k k' : NoDup (map (@e_key key value) es) ->
  lookup (Cas.remove key_eqb es k) k' = if key_eqb k k' then None else lookup es k'.
Proof.
  induction es as [|a es IH]; simpl; intros ND.
  - destruct (key_eqb k k'); reflexivity.
  - inversion ND as [|? ? NI ND']; subst.
    destruct (key_eqb (e_key a) k) eqn:E.
    + apply key_eqb_eq in E. subst k.
      destruct (key_eqb (e_key a) k') eqn:E2; auto.
      apply key_eqb_eq in E2. subst k'. apply lookup_notin; auto.
    + simpl. rewrite IH by auto.
      destruct (key_eqb (e_key a) k') eqn:E2; auto.
      apply key_eqb_eq in E2. subst k'. rewrite key_eqb_sym, E. reflexivity.
Qed.

(* ------------------------------------------------------------------ well-formed stores, effect of one request *)
Definition wf (s : store) : Prop :=
  NoDup (map (@e_key key value) (st_ents s)) /\
  (forall k e, s_lookup s k = Some e -> e_rev e < st_next s).

Definition set_spec (s s' : store) (k : key) (e : entry) : Prop :=
  st_next s' = st_next s + 1 /\
  forall k', s_lookup s' k' = if key_eqb k k' then Some e else s_lookup s k'.
Definition del_spec (s s' : store) (k : key) : Prop :=
  st_next s' = st_next s + 1 /\
  forall k', s_lookup s' k' = if key_eqb k k' then None else s_lookup s k'.

Definition mk (k : key) (v : value) (r : N) : entry := {| e_key := k; e_val := v; e_rev := r |}.

Lemma exec_get s k :
  exec s (RGet k) = (s, match s_lookup s k with Some e => ROk e | None => RNotFound end).
Proof. reflexivity. Qed.

Lemma exec_list s l : fst (exec s (RList l)) = s.
Proof. reflexivity. Qed.

Lemma exec_create s k v :
  (s_lookup s k <> None /\ exec s (RCreate k v) = (s, RExists)) \/
  (s_lookup s k = None /\ exists s', exec s (RCreate k v) = (s', ROk (mk k v (st_next s))) /\
                                     set_spec s s' k (mk k v (st_next s))).
Proof.
  unfold exec, Cas.exec, s_lookup. destruct (lookup (st_ents s) k) eqn:E.
  - left. split; [congruence | reflexivity].
  - right. split; auto. eexists. split; [reflexivity|]. split; [reflexivity|].
    intros k'. unfold s_lookup. cbn [st_ents]. rewrite lookup_insert. reflexivity.
Qed.

Lemma exec_update s k v rev :
  (s_lookup s k = None /\ exec s (RUpdate k v rev) = (s, RNotFound)) \/
  (exists e0, s_lookup s k = Some e0 /\ e_rev e0 <> rev /\ exec s (RUpdate k v rev) = (s, RConflict)) \/
  (exists e0 s', s_lookup s k = Some e0 /\ e_rev e0 = rev /\
                 exec s (RUpdate k v rev) = (s', ROk (mk k v (st_next s))) /\ set_spec s s' k (mk k v (st_next s))).
Proof.
  unfold exec, Cas.exec, s_lookup. destruct (lookup (st_ents s) k) as [e0|] eqn:E.
  - right. destruct (N.eqb (e_rev e0) rev) eqn:Q.
    + right. apply N.eqb_eq in Q. exists e0. eexists. split; auto. split; auto. split; [reflexivity|].
      split; [reflexivity|]. intros k'. unfold s_lookup. cbn [st_ents]. rewrite lookup_insert. reflexivity.
    + left. apply N.eqb_neq in Q. exists e0. auto.
  - left. auto.
Qed.

Lemma exec_delete s k rev : wf s ->
  (s_lookup s k = None /\ exec s (RDelete k rev) = (s, RNotFound)) \/
  (exists e0, s_lookup s k = Some e0 /\ e_rev e0 <> rev /\ exec s (RDelete k rev) = (s, RConflict)) \/
  (exists e0 s', s_lookup s k = Some e0 /\ e_rev e0 = rev /\
                 exec s (RDelete k rev) = (s', ROk e0) /\ del_spec s s' k).
Proof.
  intros [ND _]. unfold exec, Cas.exec, s_lookup. destruct (lookup (st_ents s) k) as [e0|] eqn:E.
  - right. destruct (N.eqb (e_rev e0) rev) eqn:Q.
    + right. apply N.eqb_eq in Q. exists e0. eexists. split; auto. split; auto. split; [reflexivity|].
      split; [reflexivity|]. intros k'. unfold s_lookup. cbn [st_ents]. apply lookup_remove. exact ND.
    + left. apply N.eqb_neq in Q. exists e0. auto.
  - left. auto.
Qed.

Lemma wf_exec s rq : wf s -> wf (fst (exec s rq)).
Proof.
  intros W. pose proof W as [ND RB]. split.
  - apply (@Cas.exec_keys_nodup key value lopt key_eqb key_ltb lmatch key_eqb_eq s rq ND).
  - destruct rq as [k | l | k v | k v rev | k rev].
    + rewrite exec_get. exact RB.
    + exact RB.
    + destruct (exec_create s k v) as [[_ X]|[_ (s' & X & NX & LK)]]; rewrite X; simpl; auto.
      intros k' e. rewrite LK, NX. destruct (key_eqb k k').
      * intros Y; inversion Y; subst; simpl. lia.
      * intros Y. apply RB in Y. lia.
    + destruct (exec_update s k v rev) as [[_ X]|[(e0 & _ & _ & X)|(e0 & s' & _ & _ & X & NX & LK)]]; rewrite X; simpl; auto.
      intros k' e. rewrite LK, NX. destruct (key_eqb k k').
      * intros Y; inversion Y; subst; simpl. lia.
      * intros Y. apply RB in Y. lia.
    + destruct (exec_delete s k rev W) as [[_ X]|[(e0 & _ & _ & X)|(e0 & s' & _ & _ & X & NX & LK)]]; rewrite X; simpl; auto.
      intros k' e. rewrite LK, NX. destruct (key_eqb k k'); [discriminate|].
      intros Y. apply RB in Y. lia.
Qed.

(* what a client knows about a revision it has seen: if the key still carries that revision, its value is v *)
Definition Known (k : key) (r : N) (v : value) (s : store) : Prop :=
  r < st_next s /\ forall e, s_lookup s k = Some e -> e_rev e = r -> e_val e = v.

Lemma Known_exec k r v s rq : wf s -> Known k r v s -> Known k r v (fst (exec s rq)).
Proof.
  intros W [RL KN]. pose proof W as [_ RB].
  assert (SET : forall s' k0 e, set_spec s s' k0 e -> e_rev e = st_next s -> Known k r v s').
  { intros s' k0 e [NX LK] ER. split; [lia|]. intros e'. rewrite LK. destruct (key_eqb k0 k).
    - intros Y; inversion Y; subst. lia.
    - apply KN. }
  destruct rq as [k0 | l | k0 v0 | k0 v0 rev | k0 rev].
  - rewrite exec_get. split; auto.
  - split; auto.
  - destruct (exec_create s k0 v0) as [[_ X]|[_ (s' & X & SP)]]; rewrite X; simpl; [split; auto|].
    eapply SET; eauto.
  - destruct (exec_update s k0 v0 rev) as [[_ X]|[(e0 & _ & _ & X)|(e0 & s' & _ & _ & X & SP)]]; rewrite X; simpl;
      [split; auto | split; auto |]. eapply SET; eauto.
  - destruct (exec_delete s k0 rev W) as [[_ X]|[(e0 & _ & _ & X)|(e0 & s' & _ & _ & X & NX & LK)]]; rewrite X; simpl;
      [split; auto | split; auto |]. split; [lia|]. intros e'. rewrite LK. destruct (key_eqb k0 k); [discriminate|]. apply KN.
Qed.

Lemma Known_of_lookup s k e : wf s -> s_lookup s k = Some e -> Known k (e_rev e) (e_val e) s.
Proof.
  intros [_ RB] L. split; [eapply RB; eauto|]. intros e'. rewrite L. intros X; inversion X; subst; auto.
Qed.

(* ------------------------------------------------------------------ the invariant and the guarantee *)
(* a confirmed affinity (h, c) implies that block c exists and its Affinity field is h *)
(* (copy of RG.v with the invariant strengthened by its converse direction:
    a block whose Affinity field names host h has an affinity object (h, c), in some state) *)
Definition Inv (s : store) : Prop :=
  (forall h c, aff_at s h c = Some AConfirmed -> exists b, blk_at s c = Some b /\ bk_aff b = Some h) /\
  (forall c b h, blk_at s c = Some b -> bk_aff b = Some h -> aff_at s h c <> None).

Definition blk_same_allocs (b0 b1 : block) : Prop := forall o, owner_of b1 o = owner_of b0 o.

Record G (h : N) (s s' : store) : Prop := {
  (* affinity objects of other hosts are never touched *)
  g_aff : forall h' c, h' <> h -> s_lookup s' (KAff h' c) = s_lookup s (KAff h' c);
  (* a block whose Affinity field names another host is never deleted and keeps that field *)
  g_keep : forall c b h', h' <> h -> blk_at s c = Some b -> bk_aff b = Some h' ->
           exists b', blk_at s' c = Some b' /\ bk_aff b' = Some h';
  (* a block is created empty, with the creating host in its Affinity field *)
  g_create : forall c b, blk_at s c = None -> blk_at s' c = Some b -> bk_aff b = Some h /\ blk_empty b = true;
  (* the Affinity field of an existing block only changes from "this host" to "none", allocations untouched *)
  g_field : forall c b0 b1, blk_at s c = Some b0 -> blk_at s' c = Some b1 ->
            bk_aff b1 = bk_aff b0 \/ (bk_aff b0 = Some h /\ bk_aff b1 = None /\ blk_same_allocs b0 b1);
  (* a block that names a host is deleted only by that host and only when it holds no allocation *)
  g_delete : forall c b0, blk_at s c = Some b0 -> blk_at s' c = None ->
             (bk_aff b0 = Some h /\ blk_empty b0 = true) \/ bk_aff b0 = None
}.

Arguments g_aff {h s s'}.
Arguments g_keep {h s s'}.
Arguments g_create {h s s'}.
Arguments g_field {h s s'}.
Arguments g_delete {h s s'}.

Definition assertion := store -> Prop.

Definition Stable (h : N) (P : assertion) : Prop :=
  forall s rq h', h' <> h -> wf s -> P s -> G h' s (fst (exec s rq)) -> P (fst (exec s rq)).

Lemma Stable_true h : Stable h (fun _ => True).
Proof. red; auto. Qed.
Lemma Stable_and h P1 P2 : Stable h P1 -> Stable h P2 -> Stable h (fun s => P1 s /\ P2 s).
Proof. intros A B s rq h' N W [X Y] GG. split; [eapply A | eapply B]; eauto. Qed.
Lemma Stable_known h k r v : Stable h (Known k r v).
Proof. intros s rq h' _ W KN _. apply Known_exec; auto. Qed.
Lemma Stable_pure h (X : Prop) : Stable h (fun _ => X).
Proof. red; auto. Qed.

(* facts about this host's own objects *)
Definition AffIs (h c : N) (o : option affst) : assertion := fun s => aff_at s h c = o.
Definition BlockMine (h c : N) : assertion := fun s => exists b, blk_at s c = Some b /\ bk_aff b = Some h.

Lemma Stable_AffIs h c o : Stable h (AffIs h c o).
Proof.
  intros s rq h' N W A GG. unfold AffIs, aff_at in *. rewrite (g_aff GG); auto.
Qed.
Definition NotMine (h c : N) : assertion := fun s => forall b, blk_at s c = Some b -> bk_aff b <> Some h.
Lemma Stable_NotMine h c : Stable h (NotMine h c).
Proof.
  intros s rq h' NE W NM GG b' B' AF'.
  destruct (blk_at s c) as [b0|] eqn:B0.
  - destruct (g_field GG c b0 b' B0 B') as [E|(E1 & E2 & _)].
    + unfold NotMine in NM. rewrite B0 in NM. apply (NM b0 eq_refl). congruence.
    + congruence.
  - destruct (g_create GG c b' B0 B') as [E _]. congruence.
Qed.

Lemma Stable_BlockMine h c : Stable h (BlockMine h c).
Proof.
  intros s rq h' N W (b & B & A) GG. destruct (g_keep GG c b h) as (b' & B' & A'); auto.
  exists b'; auto.
Qed.

(* ------------------------------------------------------------------ the program logic *)
Section Logic.
  Variable h : N.
  (* the guarantee used for a particular program may be stronger than G h *)
  Variable GX : store -> store -> Prop.

  Fixpoint safeS {R} (p : prog R) (P : assertion) (Q : R -> assertion) : Prop :=
    match p with
    | Ret r => forall s, wf s -> Inv s -> P s -> Q r s
    | Act rq k =>
        forall s, wf s -> Inv s -> P s ->
          GX s (fst (exec s rq)) /\ Inv (fst (exec s rq)) /\
          (exists P', Stable h P' /\ P' (fst (exec s rq)) /\ safeS (k (snd (exec s rq))) P' Q) /\
          (Cas.is_cond_write rq = true -> exists P', Stable h P' /\ P' s /\ safeS (k RConflict) P' Q)
    end.

  Lemma safeS_pre {R} (p : prog R) (P P' : assertion) Q :
    (forall s, wf s -> Inv s -> P s -> P' s) -> safeS p P' Q -> safeS p P Q.
  Proof.
    destruct p as [r | rq k]; simpl; intros IMP S s W I Ps.
    - apply S; auto.
    - apply S; auto.
  Qed.

  Lemma safeS_post {R} (p : prog R) : forall (P : assertion) (Q Q' : R -> assertion),
    (forall r s, wf s -> Inv s -> Q r s -> Q' r s) -> safeS p P Q -> safeS p P Q'.
  Proof.
    induction p as [r | rq k IH]; simpl; intros P Q Q' IMP S s W I Ps.
    - apply IMP; auto.
    - destruct (S s W I Ps) as (GG & I' & (P1 & S1 & H1 & K1) & CW).
      split; auto. split; auto. split.
      + exists P1. split; auto. split; auto. eapply IH; eauto.
      + intros C. destruct (CW C) as (P2 & S2 & H2 & K2). exists P2. split; auto. split; auto. eapply IH; eauto.
  Qed.

  Lemma safeS_bind {A B} (p : prog A) : forall (f : A -> prog B) (P : assertion) (Q1 : A -> assertion) (Q : B -> assertion),
    safeS p P Q1 -> (forall a, safeS (f a) (Q1 a) Q) -> safeS (Cas.bind p f) P Q.
  Proof.
    induction p as [a | rq k IH]; simpl; intros f P Q1 Q S F.
    - eapply safeS_pre; [|apply F]. exact S.
    - intros s W I Ps. destruct (S s W I Ps) as (GG & I' & (P1 & S1 & H1 & K1) & CW).
      split; auto. split; auto. split.
      + exists P1. split; auto. split; auto. eapply IH; eauto.
      + intros C. destruct (CW C) as (P2 & S2 & H2 & K2). exists P2. split; auto. split; auto. eapply IH; eauto.
  Qed.

  Lemma safeS_ret {R} (r : R) (P : assertion) (Q : R -> assertion) :
    (forall s, wf s -> Inv s -> P s -> Q r s) -> safeS (Ret r) P Q.
  Proof. simpl. auto. Qed.
End Logic.

Lemma safeS_weakenG h (GX GY : store -> store -> Prop) {R} (p : prog R) :
  (forall s s', GX s s' -> GY s s') -> forall P Q, safeS h GX p P Q -> safeS h GY p P Q.
Proof.
  intros IMP. induction p as [r | rq k IH]; simpl; intros P Q S; auto.
  intros s W I Ps. destruct (S s W I Ps) as (GG & I' & (P1 & S1 & H1 & K1) & CW).
  split; auto. split; auto. split.
  - exists P1. split; auto.
  - intros C. destruct (CW C) as (P2 & S2 & H2 & K2). exists P2. split; auto.
Qed.
