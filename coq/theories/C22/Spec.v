(* C22 — specification level.
   Property text: "At every point of any concurrent history, an address block is confirmed as affine to at most
   one host, a block's recorded affinity matches its confirmed claim, pending claims are never used as ownership,
   and a block is released by its owner only when it holds no allocations (if required)."

   The oracle ok_trace reads ONLY what the implementation did: the datastore contents (IPAM keys) after every
   access that changed them, which client made the access while running which operation, and the results
   returned to callers.  It never runs the model.  On every datastore state of the history:
     (1) one_confirmed    : for each block CIDR at most one BlockAffinity object is in state confirmed;
     (2) confirmed_match  : a confirmed BlockAffinity (h, c) implies that block c exists and its Affinity field is h;
     (2') named_has_affinity : a block whose Affinity field is h has a BlockAffinity object (h, c) in some state
                            (only when no two clients of the case act for the same host);
   on every change of the datastore:
     (3) pending is not ownership:
         - a block is created empty, with Affinity = the creating host (the pending affinity alone gives nothing:
           the create is the claim);
         - with StrictAffinity, a write that allocates an address is a write to a block whose Affinity field is
           the writer's host before and after;
         - ClaimAffinity reports a block as claimed only when, at that moment, the host's BlockAffinity is
           confirmed and the block's Affinity field names the host;
     (4) release by the owner, only if empty:
         - the Affinity field of an existing block changes only from "host h" to "none", by a client of host h
           running ReleaseAffinity / ReleaseHostAffinities WITHOUT mustBeEmpty, and no allocation changes;
         - a block is deleted either by an affinity release of its owner (Affinity = that host, or none), and then
           it holds no allocation, or by an address release when its Affinity field is none;
         - an affinity release with mustBeEmpty never writes a block otherwise (no update at all). *)
From Coq Require Import List NArith Bool Arith.
From Verif.Common Require Import Cas.
From Verif.C19 Require Import Model.
From Verif.C22 Require Import Model.
Import ListNotations.
Open Scope N_scope.

(* ------------------------------------------------------------------ observations *)
Inductive okind := OGet | OList | OCreate | OUpdate | ODelete.
Inductive ores := XOk | XNotFound | XExists | XConflict | XNone.

Definition ores_eqb (a b : ores) : bool :=
  match a, b with XOk, XOk | XNotFound, XNotFound | XExists, XExists | XConflict, XConflict | XNone, XNone => true | _, _ => false end.
Definition lopt_eqb (a b : lopt) : bool :=
  match a, b with LBlocks, LBlocks | LHandles, LHandles => true | LAffs x, LAffs y => N.eqb x y | _, _ => false end.
Definition res_class (rs : Cas.resp key value) : ores :=
  match rs with
  | ROk _ | RListed _ => XOk
  | RNotFound => XNotFound
  | RExists => XExists
  | RConflict => XConflict
  end.
(* error classes the driver can tell apart *)
Definition err_class (e : err) : N :=
  match e with
  | ENone => 0 | ENotFound => 1 | EExists => 2 | EConflict => 3 | EBlockLimit => 4
  | EOutOfModel => 99
  | _ => 5
  end.
Definition result_eqb (a b : result) : bool :=
  match a, b with
  | ResIPs x e, ResIPs y f => list_eqb N.eqb x y && N.eqb (err_class e) (err_class f)
  | ResErr e, ResErr f => N.eqb (err_class e) (err_class f)
  | ResClaim a b e, ResClaim a' b' f => Bool.eqb a a' && Bool.eqb b b' && N.eqb (err_class e) (err_class f)
  | _, _ => false
  end.
Definition attr_opt_eqb (a b : option attr) : bool :=
  match a, b with Some x, Some y => attr_eqb x y | None, None => true | _, _ => false end.
Fixpoint dlookup (d : list (key * value)) (k : key) : option value :=
  match d with [] => None | (k', v) :: t => if key_eqb k' k then Some v else dlookup t k end.

Definition dump := list (key * value).

Record obs := {
  o_client : nat;
  o_fault : fault;
  o_kind : okind;
  o_key : option key;
  o_list : option lopt;
  o_val : option value;          (* value carried by a create/update request *)
  o_res : ores;                  (* how the datastore answered (XNone: crashed before the access) *)
  o_done : list result;          (* results of the operations this client completed during this step *)
  o_snap : option (list (key * option value))
                                 (* when the access changed the datastore: the difference between the IPAM contents of
                                    the REAL datastore before and after the access (key, new value or None = removed),
                                    computed by the driver from two dumps of the store, not from the request *)
}.

(* the datastore contents after a change; same canonical order as Cas.insert / Cas.remove *)
Fixpoint dput (d : dump) (k : key) (v : value) : dump :=
  match d with
  | [] => [(k, v)]
  | (k', v') :: t => if key_eqb k' k then (k, v) :: t
                     else if key_ltb k k' then (k, v) :: (k', v') :: t
                     else (k', v') :: dput t k v
  end.
Definition ddel (d : dump) (k : key) : dump := filter (fun p => negb (key_eqb (fst p) k)) d.
Definition dapply (d : dump) (ch : list (key * option value)) : dump :=
  fold_left (fun d kv => match snd kv with Some v => dput d (fst kv) v | None => ddel d (fst kv) end) ch d.

(* short, fully typed constructors for the generated case terms (cheap to elaborate) *)
Definition nR : list result := [].
Definition noV : option value := None.
Definition noC : option (list (key * option value)) := None.
Definition oG (c : nat) (f : fault) (k : key) (r : ores) (d : list result) : obs :=
  Build_obs c f OGet (Some k) None None r d None.
Definition oL (c : nat) (f : fault) (l : lopt) (r : ores) (d : list result) : obs :=
  Build_obs c f OList None (Some l) None r d None.
Definition oW (c : nat) (f : fault) (kd : okind) (k : key) (v : option value) (r : ores) (d : list result)
              (ch : option (list (key * option value))) : obs :=
  Build_obs c f kd (Some k) None v r d ch.
Definition sV (v : value) : option value := Some v.
Definition ch1 (k : key) (v : option value) : option (list (key * option value)) := Some [(k, v)].

Record case := {
  c_cfg : config;
  c_fx : bool;                              (* which claimAffineBlock the tree has (probed by the driver) *)
  c_clients : list (N * list op22);         (* host, operations *)
  c_obs : list obs
}.

(* ------------------------------------------------------------------ model side of the comparison *)
Definition store_dump (s : store) : dump := map (fun e => (e_key e, e_val e)) (st_ents s).
Definition dump_eqb (a b : dump) : bool :=
  list_eqb (fun x y => key_eqb (fst x) (fst y) && value_eqb (snd x) (snd y)) a b.

Definition req_matches (rq : Cas.req key value lopt) (o : obs) : bool :=
  match rq, o_kind o, o_key o, o_list o, o_val o with
  | RGet k, OGet, Some k', _, _ => key_eqb k k'
  | RList l, OList, _, Some l', _ => lopt_eqb l l'
  | RCreate k v, OCreate, Some k', _, Some v' => key_eqb k k' && value_eqb v v'
  | RUpdate k v _, OUpdate, Some k', _, Some v' => key_eqb k k' && value_eqb v v'
  | RDelete k _, ODelete, Some k', _, _ => key_eqb k k'
  | _, _, _, _, _ => false
  end.

Definition model_step (cf : config) (fx : bool) (s : store) (cls : list client) (o : obs)
  : option (store * list client) :=
  match nth_error cls (o_client o) with
  | Some cl =>
    match cl_cur cl with
    | Some (Act rq _) =>
      if negb (req_matches rq o) then None else
      let '(s', cl', ob, done) := client_event cf fx s cl (o_fault o) in
      let res_ok := match ob with
                    | None => ores_eqb (o_res o) XNone
                    | Some (_, rs) => ores_eqb (o_res o) (res_class rs)
                    end in
      let snap_ok := match o_snap o with
                     | Some ch => dump_eqb (store_dump s') (dapply (store_dump s) ch)
                     | None => dump_eqb (store_dump s') (store_dump s)
                     end in
      if res_ok && snap_ok && list_eqb result_eqb done (o_done o)
      then Some (s', set_nth_opt cls (o_client o) cl')
      else None
    | _ => None
    end
  | None => None
  end.

Fixpoint model_run (cf : config) (fx : bool) (s : store) (cls : list client) (os : list obs) : option (store * list client) :=
  match os with
  | [] => Some (s, cls)
  | o :: t => match model_step cf fx s cls o with
              | Some (s', cls') => model_run cf fx s' cls' t
              | None => None
              end
  end.

Definition model_agrees (c : case) : bool :=
  match model_run (c_cfg c) (c_fx c) init_store
          (map (fun hc => start_client (c_cfg c) (c_fx c) (fst hc) (snd hc)) (c_clients c)) (c_obs c) with
  | Some _ => true
  | None => false
  end.

(* ------------------------------------------------------------------ the oracle *)

Definition d_block (d : dump) (c : N) : option block :=
  match dlookup d (KBlock c) with Some (VBlock b) => Some b | _ => None end.
Definition d_aff (d : dump) (h c : N) : option affst :=
  match dlookup d (KAff h c) with Some (VAff st) => Some st | _ => None end.

(* (1) *)
Definition confirmed_hosts (d : dump) (c : N) : list N :=
  flat_map (fun kv => match kv with
                      | (KAff h c', VAff AConfirmed) => if N.eqb c' c then [h] else []
                      | _ => [] end) d.
Definition one_confirmed (d : dump) : bool :=
  forallb (fun kv => match kv with
                     | (KAff _ c, VAff AConfirmed) => Nat.leb (length (confirmed_hosts d c)) 1
                     | _ => true end) d.

(* (2) *)
Definition confirmed_match (d : dump) : bool :=
  forallb (fun kv => match kv with
                     | (KAff h c, VAff AConfirmed) =>
                         match d_block d c with Some b => optN_eqb (bk_aff b) (Some h) | None => false end
                     | _ => true end) d.

(* (2') a block whose Affinity field names host h has an affinity object (h, c) (in any state).  Checked when the
   clients of the case act for pairwise distinct hosts: it is a theorem there (c22_named_block_has_affinity) and is
   refuted for two concurrent processes of one host (c22_named_block_has_affinity_same_host_refuted). *)
Definition named_has_affinity (d : dump) : bool :=
  forallb (fun kv => match kv with
                     | (KBlock c, VBlock b) =>
                         match bk_aff b with
                         | Some h => match d_aff d h c with Some _ => true | None => false end
                         | None => true
                         end
                     | _ => true end) d.

Fixpoint nodupN (l : list N) : bool :=
  match l with [] => true | a :: t => negb (existsb (N.eqb a) t) && nodupN t end.

Definition state_ok (distinct : bool) (d : dump) : bool :=
  one_confirmed d && confirmed_match d && (negb distinct || named_has_affinity d).

Definition same_allocs (b0 b1 : block) (size : nat) : bool :=
  forallb (fun o => attr_opt_eqb (owner_of b0 o) (owner_of b1 o)) (seq 0 size).
Definition takes_address (b0 b1 : block) (size : nat) : bool :=
  existsb (fun o => match owner_of b0 o, owner_of b1 o with None, Some _ => true | _, _ => false end) (seq 0 size).

Inductive opclass := KAffRelease (must : bool) | KAddrRelease | KOther.
Definition op_class (o : op22) : opclass :=
  match o with
  | ORelease _ must => KAffRelease must
  | OReleaseHost must => KAffRelease must
  | OReleaseIPs _ _ | OReleaseByHandle _ _ => KAddrRelease
  | _ => KOther
  end.

(* (3) and (4) for the change of one block between two consecutive datastore states, made by a client of
   [host] running operation [o] *)
Definition block_change_ok (cf : config) (host : N) (o : op22) (old new : option block) : bool :=
  let size := cf_bsize cf in
  match old, new with
  | None, None => true
  | None, Some b => optN_eqb (bk_aff b) (Some host) && blk_empty b
  | Some b0, Some b1 =>
      (* Affinity field *)
      (optN_eqb (bk_aff b0) (bk_aff b1)
       || (optN_eqb (bk_aff b0) (Some host) && optN_eqb (bk_aff b1) None && same_allocs b0 b1 size
           && match op_class o with KAffRelease false => true | _ => false end))
      (* an affinity release with mustBeEmpty never rewrites a block *)
      && match op_class o with
         | KAffRelease true => block_eqb b0 b1
         | _ => true
         end
      (* strict affinity: allocations only from a block whose Affinity field is the writer's host *)
      && (negb (cf_strict cf) || negb (takes_address b0 b1 size)
          || (optN_eqb (bk_aff b0) (Some host) && optN_eqb (bk_aff b1) (Some host)))
  | Some b0, None =>
      match op_class o with
      | KAffRelease _ => blk_empty b0 && (optN_eqb (bk_aff b0) (Some host) || optN_eqb (bk_aff b0) None)
      | KAddrRelease => optN_eqb (bk_aff b0) None
      | KOther => false
      end
  end.

Definition block_cidrs (d : dump) : list N :=
  flat_map (fun kv => match fst kv with KBlock c => [c] | _ => [] end) d.

Definition change_ok (cf : config) (host : N) (o : op22) (d d' : dump) : bool :=
  forallb (fun c => block_change_ok cf host o (d_block d c) (d_block d' c)) (block_cidrs d ++ block_cidrs d').

(* ClaimAffinity says "claimed" only with a confirmed affinity and a block that names the host *)
Definition claim_result_ok (host : N) (o : op22) (r : result) (d : dump) : bool :=
  match o, r with
  | OClaim c, ResClaim true _ _ =>
      match d_aff d host c, d_block d c with
      | Some AConfirmed, Some b => optN_eqb (bk_aff b) (Some host)
      | _, _ => false
      end
  | _, _ => true
  end.

Record ostate := {
  os_store : dump;
  os_opidx : list nat             (* per client: index of the operation in progress *)
}.

Definition is_crash (f : fault) : bool := match f with FCrashBefore | FCrashAfter => true | _ => false end.

Definition oracle_step (c : case) (st : ostate) (o : obs) : option ostate :=
  let cf := c_cfg c in
  let i := o_client o in
  match nth_error (c_clients c) i with
  | None => None
  | Some (host, ops) =>
    let idx := nth i (os_opidx st) O in
    match nth_error ops idx with
    | None => None
    | Some opn =>
      let d' := match o_snap o with Some ch => dapply (os_store st) ch | None => os_store st end in
      let w_ok := match o_snap o with
                  | Some _ => state_ok (nodupN (map fst (c_clients c))) d' && change_ok cf host opn (os_store st) d'
                  | None => true
                  end in
      let r_ok := match o_done o with
                  | r :: _ => if is_crash (o_fault o) then true else claim_result_ok host opn r d'
                  | [] => true
                  end in
      if w_ok && r_ok
      then Some {| os_store := d';
                   os_opidx := set_nth_opt (os_opidx st) i
                                 (idx + length (o_done o) + (if is_crash (o_fault o) then 1 else 0))%nat |}
      else None
    end
  end.

Fixpoint oracle_run (c : case) (st : ostate) (os : list obs) : bool :=
  match os with
  | [] => true
  | o :: t => match oracle_step c st o with Some st' => oracle_run c st' t | None => false end
  end.

Definition ok_trace (c : case) : bool :=
  oracle_run c {| os_store := []; os_opidx := repeat O (length (c_clients c)) |} (c_obs c).

Definition check_case (c : case) : bool * bool := (model_agrees c, ok_trace c).

(* debugging aid: index of the first observation the model cannot follow, with the request the model wanted *)
Fixpoint model_first_bad (cf : config) (fx : bool) (s : store) (cls : list client) (os : list obs) (i : nat)
  : option (nat * option (Cas.req key value lopt) * dump) :=
  match os with
  | [] => None
  | o :: t => match model_step cf fx s cls o with
              | Some (s', cls') => model_first_bad cf fx s' cls' t (S i)
              | None => Some (i, match nth_error cls (o_client o) with
                                 | Some cl => match cl_cur cl with Some (Act rq _) => Some rq | _ => None end
                                 | None => None end, store_dump s)
              end
  end.
Definition first_bad (c : case) :=
  model_first_bad (c_cfg c) (c_fx c) init_store
    (map (fun hc => start_client (c_cfg c) (c_fx c) (fst hc) (snd hc)) (c_clients c)) (c_obs c) 0.

Fixpoint oracle_first_bad (c : case) (st : ostate) (os : list obs) (i : nat) : option nat :=
  match os with
  | [] => None
  | o :: t => match oracle_step c st o with Some st' => oracle_first_bad c st' t (S i) | None => Some i end
  end.
Definition first_rejected (c : case) :=
  oracle_first_bad c {| os_store := []; os_opidx := repeat O (length (c_clients c)) |} (c_obs c) 0.
