(* C22 — executable model of the block-affinity protocol of Calico IPAM
   (libcalico-go/lib/ipam/ipam_block_reader_writer.go, ipam.go).  Definitions only.

   Values, primitives and every program that C22 does not change are those of C19/Model.v (block / affinity /
   handle values, get_pending_aff, confirm_aff, release_block_affinity, release_aff_loop, assign_from_block,
   release_loop, ...).  This file adds

   * the programs that contain claimAffineBlock, re-stated with a flag [fx]:
       fx = false : the code as pinned: on "block already exists and is affine to this host" claimAffineBlock
                    confirms the affinity at once;
       fx = true  : the repaired code (fixes/C22-*.patch): it first writes the block back (SequenceNumber++,
                    compare-and-swap) so that a release of the same block that another process started on behalf of
                    the same host can no longer delete the block, exactly as getBlockFromAffinity already does;
     the driver probes the tree and tells the model which one it ran;
   * ReleaseHostAffinities (list the host's affinities, releaseBlockAffinity for each);
   * clients that RESTART after a crash: a crash (before or after an access) abandons the operation in progress
     and the client goes on with its next operation (a new process of the same host).  A client that crashes in
     its last operation is dead.

   Domain: that of C19 (one IPv4 pool, no reservations, no cooldown, blocks younger than one minute are never
   reclaimed by other hosts: the EmptyBlockMinReclaimAge branch of findUsableBlock is outside the model). *)
From Coq Require Import List NArith Bool Arith.
From Verif.Common Require Import Cas.
From Verif.C19 Require Import Model.
Import ListNotations.
Open Scope N_scope.

Section Ops22.
  Variable cf : config.
  Variable fx : bool.
  Let R := cf_retries cf.

  (* blockReaderWriter.claimAffineBlock *)
  Definition claim_affine_block (host c : N) (affrev : N) : prog (res (block * N)) :=
    w <- create_block c (new_block cf c host) ;;
    match w with
    | inl bk =>
        r <- confirm_aff host c affrev ;;
        match r with inr e => Ret (inr e) | inl _ => Ret (inl bk) end
    | inr EExists =>
        g <- get_block c ;;
        match g with
        | inr e => Ret (inr e)
        | inl (b, brev) =>
            if optN_eqb (bk_aff b) (Some host) then
              if fx then
                u <- update_block c b brev ;;
                match u with
                | inr e => Ret (inr e)
                | inl bk' =>
                    r <- confirm_aff host c affrev ;;
                    match r with inr e => Ret (inr e) | inl _ => Ret (inl bk') end
                end
              else
                r <- confirm_aff host c affrev ;;
                match r with inr e => Ret (inr e) | inl _ => Ret (inl (b, brev)) end
            else
              u_ <- delete_aff host c affrev ;; Ret (inr EClaimConflict)
        end
    | inr e => Ret (inr e)
    end.

  (* ipamClient.getBlockFromAffinity *)
  Definition get_block_from_aff (host c : N) (aff : affst * N) : prog (res (block * N)) :=
    let '(st, affrev) := aff in
    g <- get_block c ;;
    match g with
    | inr ENotFound =>
        u <- update_aff host c APending affrev ;;
        match u with
        | inr e => Ret (inr e)
        | inl rev' => claim_affine_block host c rev'
        end
    | inr e => Ret (inr e)
    | inl (b, brev) =>
        if negb (optN_eqb (bk_aff b) (Some host)) then
          d <- delete_aff host c affrev ;;
          match d with inr e => Ret (inr e) | inl _ => Ret (inr EStale) end
        else if affst_eqb st AConfirmed then Ret (inl (b, brev))
        else
          u <- update_aff host c APending affrev ;;
          match u with
          | inr e => Ret (inr e)
          | inl rev1 =>
              w <- update_block c b brev ;;
              match w with
              | inr e => Ret (inr e)
              | inl bk' =>
                  u2 <- update_aff host c AConfirmed rev1 ;;
                  match u2 with inr e => Ret (inr e) | inl _ => Ret (inl bk') end
              end
          end
    end.

  (* findOrClaimBlock, first half *)
  Fixpoint try_affine (fuel : nat) (host c : N) : prog (option (block * N)) :=
    match fuel with
    | O => Ret None
    | S f =>
      r <- get_aff host c ;;
      match r with
      | inr _ => Ret None
      | inl aff =>
          g <- get_block_from_aff host c aff ;;
          match g with
          | inr EConflict => try_affine f host c
          | inr _ => Ret None
          | inl (b, brev) => if Nat.leb 1 (num_free b) then Ret (Some (b, brev)) else Ret None
          end
      end
    end.

  Fixpoint scan_affine (rem : list N) (host : N) : prog (option (block * N * N) * list N) :=
    match rem with
    | [] => Ret (None, [])
    | c :: rest =>
        r <- try_affine R host c ;;
        match r with
        | Some bk => Ret (Some (bk, c), rest)
        | None => scan_affine rest host
        end
    end.

  Fixpoint claim_inner (fuel : nat) (host c : N) : prog claim_res :=
    match fuel with
    | O => Ret CRAgain
    | S f =>
      pa <- get_pending_aff host c ;;
      match pa with
      | inr EConflict => claim_inner f host c
      | inr e => Ret (CRErr e)
      | inl aff =>
          g <- get_block_from_aff host c aff ;;
          match g with
          | inr EConflict => claim_inner f host c
          | inr EClaimConflict => Ret CRAgain
          | inr EStale => Ret CRAgain
          | inr e => Ret (CRErr e)
          | inl (b, brev) => if Nat.leb 1 (num_free b) then Ret (CRBlock (b, brev)) else Ret (CRErr EOther)
          end
      end
    end.

  Fixpoint claim_outer (fuel : nat) (host : N) : prog (res (block * N * N)) :=
    match fuel with
    | O => Ret (inr EMaxRetries)
    | S f =>
      u <- find_usable cf host ;;
      match u with
      | inr e => Ret (inr e)
      | inl c =>
          r <- claim_inner R host c ;;
          match r with
          | CRBlock bk => Ret (inl (bk, c))
          | CRAgain => claim_outer f host
          | CRErr e => Ret (inr e)
          end
      end
    end.

  Definition find_or_claim (rem : list N) (host : N) (allow_new : bool)
    : prog (res (block * N * N * bool) * list N) :=
    s <- scan_affine rem host ;;
    match s with
    | (Some (bk, c), rest) => Ret (inl (bk, c, false), rest)
    | (None, _) =>
        if negb allow_new then Ret (inr EBlockLimit, [])
        else if cf_autoalloc cf then
          r <- claim_outer R host ;;
          match r with
          | inl (bk, c) => Ret (inl (bk, c, true), [])
          | inr e => Ret (inr e, [])
          end
        else Ret (inr EOther, [])
    end.

  (* ipamClient.autoAssign: outer loop over blocks *)
  Fixpoint aa_loop (fuel : nat) (ips : list N) (rem_aff : list N) (owned : nat) (num : nat) (h tag host : N)
    : prog result :=
    if Nat.leb num (length ips) then Ret (ResIPs ips ENone) else
    match fuel with
    | O => Ret (ResIPs ips EOutOfModel)
    | S f =>
      fc <- find_or_claim rem_aff host (Nat.ltb owned (cf_maxblocks cf)) ;;
      match fc with
      | (inr ENoFree, _) =>
          if negb (cf_strict cf) then
            ips' <- na_loop cf (gen_order cf host) ips num h tag host ;; Ret (ResIPs ips' ENone)
          else Ret (ResIPs ips ENone)
      | (inr e, _) => Ret (ResIPs ips e)
      | (inl (bk, c, newly), rem') =>
          new <- assign_retry cf R bk c (num - length ips) h tag host ;;
          aa_loop f (ips ++ new) rem' (if newly then S owned else owned) num h tag host
      end
    end.

  Definition auto_assign (host h tag : N) (num : nat) : prog result :=
    Act (RList (LAffs host)) (fun rs =>
      match rs with
      | RListed es =>
          let affs := filter (in_pool cf) (aff_cidrs es) in
          aa_loop (S (S (cf_nblocks cf + cf_nblocks cf))) [] affs (length affs) num h tag host
      | _ => Ret (ResIPs [] EOther)
      end).

  (* ipamClient.AssignIP *)
  Fixpoint assign_ip_loop (fuel : nat) (host h tag : N) (a : N) : prog result :=
    let c := block_of cf a in
    match fuel with
    | O => Ret (ResErr EMaxRetries)
    | S f =>
      let continue (bk : block * N) : prog result :=
        let '(b, brev) := bk in
        match blk_assign b a h tag (cf_strict cf) host with
        | inr e => Ret (ResErr (nz e))
        | inl b' =>
            i <- inc_handle R h c 1 ;;
            match i with
            | inr _ => Ret (ResErr EOther)
            | inl _ =>
                w <- update_block c b' brev ;;
                match w with
                | inl _ => Ret (ResErr ENone)
                | inr EConflict =>
                    u_ <- dec_handle false R h c 1 None ;; assign_ip_loop f host h tag a
                | inr e => u_ <- dec_handle false R h c 1 None ;; Ret (ResErr (nz e))
                end
            end
        end in
      g <- get_block c ;;
      match g with
      | inr ENotFound =>
          pa <- get_pending_aff host c ;;
          match pa with
          | inr EConflict => assign_ip_loop f host h tag a
          | inr e => Ret (ResErr (nz e))
          | inl (_, affrev) =>
              cb <- claim_affine_block host c affrev ;;
              match cb with
              | inr EConflict => assign_ip_loop f host h tag a
              | inr e => Ret (ResErr (nz e))
              | inl bk => continue bk
              end
          end
      | inr e => Ret (ResErr (nz e))
      | inl bk => continue bk
      end
    end.

  (* ipamClient.ClaimAffinity for a CIDR that is exactly one block *)
  Fixpoint claim_aff_loop (fuel : nat) (host c : N) : prog result :=
    match fuel with
    | O => Ret (ResClaim false false ENone)
    | S f =>
      pa <- get_pending_aff host c ;;
      match pa with
      | inr EConflict => claim_aff_loop f host c
      | inr e => Ret (ResClaim false false (nz e))
      | inl (_, affrev) =>
          cb <- claim_affine_block host c affrev ;;
          match cb with
          | inr EConflict => claim_aff_loop f host c
          | inr EClaimConflict => Ret (ResClaim false true ENone)
          | inr e => Ret (ResClaim false false (nz e))
          | inl _ => Ret (ResClaim true false ENone)
          end
      end
    end.

  (* ipamClient.ReleaseHostAffinities: one block, with its CAS retry loop; the error that is remembered *)
  Fixpoint rha_one (fuel : nat) (host c : N) (must : bool) : prog err :=
    match fuel with
    | O => Ret ENone
    | S f =>
      r <- release_block_affinity host c must ;;
      match r with
      | inl _ => Ret ENone
      | inr EClaimConflict => Ret ENone
      | inr ENotFound => Ret ENone
      | inr EConflict => rha_one f host c must
      | inr e => Ret (nz e)
      end
    end.

  Fixpoint rha_blocks (cs : list N) (host : N) (must : bool) (stored : err) : prog err :=
    match cs with
    | [] => Ret stored
    | c :: t =>
        e <- rha_one R host c must ;;
        rha_blocks t host must (match e with ENone => stored | _ => e end)
    end.

  (* two listings: IP version 4, then IP version 6 (which has no blocks in the model's domain) *)
  Definition release_host_affs (host : N) (must : bool) : prog result :=
    Act (RList (LAffs host)) (fun rs =>
      match rs with
      | RListed es =>
          e <- rha_blocks (aff_cidrs es) host must ENone ;;
          Act (RList (LAffs host)) (fun _ => Ret (ResErr e))
      | _ => Ret (ResErr EOther)
      end).

  (* ---------------------------------------------------------------- operations *)
  Inductive op22 :=
  | OClaim (c : N)                               (* ClaimAffinity(block c) *)
  | ORelease (c : N) (must : bool)               (* ReleaseAffinity(block c, mustBeEmpty) *)
  | OReleaseHost (must : bool)                   (* ReleaseHostAffinities(host, mustBeEmpty) *)
  | OAutoAssign (h tag : N) (num : nat)
  | OAssignIP (h tag : N) (a : N)
  | OReleaseIPs (opts : list (N * option N)) (hint : list N)
  | OReleaseByHandle (h : N) (hint : list N).

  Definition compile22 (host : N) (o : op22) : prog result :=
    match o with
    | OClaim c => claim_aff_loop R host c
    | ORelease c must => release_aff_loop R host c must
    | OReleaseHost must => release_host_affs host must
    | OAutoAssign h tag num => auto_assign host h tag num
    | OAssignIP h tag a => assign_ip_loop R host h tag a
    | OReleaseIPs opts hint => release_ips cf opts hint
    | OReleaseByHandle h hint => release_by_handle cf h hint
    end.

  (* ---------------------------------------------------------------- clients and the system *)
  Record client := {
    cl_host : N;
    cl_cur : option (prog result);     (* None: no operation left *)
    cl_todo : list op22
  }.

  (* collect finished operations and load the next one *)
  Fixpoint settle (fuel : nat) (host : N) (p : prog result) (todo : list op22) (done : list result)
    : option (prog result) * list op22 * list result :=
    match p with
    | Act _ _ => (Some p, todo, done)
    | Ret r =>
        match todo, fuel with
        | o :: t, S f => settle f host (compile22 host o) t (done ++ [r])
        | _, _ => (None, todo, done ++ [r])
        end
    end.

  (* start the next operation of the list (used at the beginning and after a crash) *)
  Definition load (host : N) (todo : list op22) : option (prog result) * list op22 * list result :=
    match todo with
    | [] => (None, [], [])
    | o :: t => settle (length todo) host (compile22 host o) t []
    end.

  Definition start_client (host : N) (ops : list op22) : client :=
    let '(cur, todo, _) := load host ops in
    {| cl_host := host; cl_cur := cur; cl_todo := todo |}.

  Definition cstep := @Cas.client_step key value lopt key_eqb key_ltb lmatch result.

  (* one scheduler event: client i performs its next access under fault f.
     Result: new store, new client, the access as the datastore saw it, results returned during the step. *)
  Definition client_event (s : store) (cl : client) (f : fault)
    : store * client * option (Cas.req key value lopt * Cas.resp key value) * list result :=
    match cl_cur cl with
    | None => (s, cl, None, [])
    | Some p =>
        let '(s', cst, ob) := cstep s p f in
        match cst with
        | CRun p' =>
            let '(cur, todo, done) := settle (S (length (cl_todo cl))) (cl_host cl) p' (cl_todo cl) [] in
            (s', {| cl_host := cl_host cl; cl_cur := cur; cl_todo := todo |}, ob, done)
        | CCrashed =>
            let '(cur, todo, done) := load (cl_host cl) (cl_todo cl) in
            (s', {| cl_host := cl_host cl; cl_cur := cur; cl_todo := todo |}, ob, done)
        end
    end.

  Record event := { ev_client : nat; ev_fault : fault }.

  Record sys := { sy_store : store; sy_clients : list client }.

  Definition sys_step (y : sys) (ev : event) : sys :=
    match nth_error (sy_clients y) (ev_client ev) with
    | Some cl =>
        let '(s', cl', _, _) := client_event (sy_store y) cl (ev_fault ev) in
        {| sy_store := s'; sy_clients := set_nth_opt (sy_clients y) (ev_client ev) cl' |}
    | None => y
    end.

  Definition sys_run (y : sys) (evs : list event) : sys := fold_left sys_step evs y.

  Definition sys0 (clients : list (N * list op22)) : sys :=
    {| sy_store := init_store; sy_clients := map (fun hc => start_client (fst hc) (snd hc)) clients |}.
End Ops22.

(* ------------------------------------------------------------------ views of a store *)
Definition s_lookup (s : store) (k : key) : option entry := Cas.lookup key_eqb (st_ents s) k.

Definition blk_at (s : store) (c : N) : option block :=
  match s_lookup s (KBlock c) with
  | Some e => match e_val e with VBlock b => Some b | _ => None end
  | None => None
  end.
Definition aff_at (s : store) (h c : N) : option affst :=
  match s_lookup s (KAff h c) with
  | Some e => match e_val e with VAff st => Some st | _ => None end
  | None => None
  end.
