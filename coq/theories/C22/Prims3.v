(* C22 — Hoare triples (RG.safeS) of the single-access primitives, for a client acting for host h on block c.
   The assertion carried through a program is  A c E m ao :
     E   an "eternal" fact (kept by every access of anybody: what the client knows about revisions it has seen),
     m   = true: block c exists and its Affinity field names h,
     ao  = Some o: the state of the affinity object (h, c) is exactly o. *)
From Coq Require Import List NArith Bool Arith Lia.
From Verif.Common Require Import Cas.
From Verif.C19 Require Import Model BlockLemmas.
From Verif.C22 Require Import Model RG3 StepLemmas3.
Import ListNotations.
Open Scope N_scope.

Definition Eternal (E : assertion) : Prop := forall s rq, wf s -> E s -> E (fst (exec s rq)).
Lemma Eternal_true : Eternal (fun _ => True).
Proof. red; auto. Qed.
Definition EK (E : assertion) (c rev : N) (b : block) : assertion :=
  fun s => E s /\ Known (KBlock c) rev (VBlock b) s.
Lemma Eternal_EK E c rev b : Eternal E -> Eternal (EK E c rev b).
Proof. intros EE s rq W [X Y]. split; [apply EE; auto | apply Known_exec; auto]. Qed.

Section Host.
  Variable h : N.
  Notation safe := (safeS h (G h)).

  Definition A (c : N) (E : assertion) (m : bool) (ao : option (option affst)) : assertion :=
    fun s => E s /\ (m = true -> BlockMine h c s) /\
             match ao with Some o => AffIs h c o s | None => True end.

  Lemma A_stable c E m ao : Eternal E -> Stable h (A c E m ao).
  Proof.
    intros EE s rq h' NE W (X & Y & Z) GG. split; [apply EE; auto|]. split.
    - intros M. eapply Stable_BlockMine; eauto.
    - destruct ao; auto. eapply Stable_AffIs; eauto.
  Qed.

  Lemma A_weaken c (E E' : assertion) m ao s : (forall s, E s -> E' s) -> A c E m ao s -> A c E' false None s.
  Proof. intros IMP (X & _ & _). split; auto. split; [discriminate | exact I]. Qed.
  Lemma A_forget c E m ao m' ao' s :
    (m' = true -> m = true) -> (ao' = None \/ ao' = ao) -> A c E m ao s -> A c E m' ao' s.
  Proof.
    intros M O (X & Y & Z). split; auto. split; auto. destruct O as [->| ->]; auto.
  Qed.

  Lemma ret_self {R} (r : R) (Q : R -> assertion) : safe (Ret r) (Q r) Q.
  Proof. simpl; auto. Qed.

  (* views *)
  Lemma BlockMine_same c s s' : (forall c', blk_at s' c' = blk_at s c') -> BlockMine h c s -> BlockMine h c s'.
  Proof. intros B (b & X & Y). exists b. rewrite B; auto. Qed.
  Lemma AffIs_same c o s s' : (forall h' c', aff_at s' h' c' = aff_at s h' c') -> AffIs h c o s -> AffIs h c o s'.
  Proof. unfold AffIs. intros B X. rewrite B; auto. Qed.

  (* A after a write that leaves blocks and affinities alone / changes only the affinity (h, c) *)
  Lemma A_same c E m ao s rq : wf s -> Eternal E ->
    (forall c', blk_at (fst (exec s rq)) c' = blk_at s c') ->
    (forall h' c', aff_at (fst (exec s rq)) h' c' = aff_at s h' c') ->
    A c E m ao s -> A c E m ao (fst (exec s rq)).
  Proof.
    intros W EE B AF (X & Y & Z). split; [apply EE; auto|]. split.
    - intros M. eapply BlockMine_same; eauto.
    - destruct ao; auto. eapply AffIs_same; eauto.
  Qed.

  Lemma A_aff_write c E m ao o s rq : wf s -> Eternal E ->
    (forall c', blk_at (fst (exec s rq)) c' = blk_at s c') ->
    aff_at (fst (exec s rq)) h c = o ->
    A c E m ao s -> A c E m (Some o) (fst (exec s rq)).
  Proof.
    intros W EE B AF (X & Y & Z). split; [apply EE; auto|]. split.
    - intros M. eapply BlockMine_same; eauto.
    - exact AF.
  Qed.

  Ltac fin Q := exists Q; split; [apply A_stable; auto | split; [| apply ret_self]].

  (* ---------------------------------------------------------------- affinity object (h, c) *)
  Definition Qget_aff c E m ao (r : res (affst * N)) : assertion :=
    match r with
    | inl (st, _) => A c E m (Some (Some st))
    | inr ENotFound => A c E m (Some None)
    | inr _ => A c E m ao
    end.

  Lemma safe_get_aff c E m ao : Eternal E -> safe (get_aff h c) (A c E m ao) (Qget_aff c E m ao).
  Proof.
    intros EE. unfold get_aff. cbn [safeS]. intros s W I Ps. rewrite exec_get. cbn [fst snd].
    split; [apply G_refl|]. split; [exact I|]. split; [|discriminate].
    destruct (s_lookup s (KAff h c)) as [e|] eqn:L.
    - destruct (e_val e) as [b|st|mm] eqn:EV.
      + exists (A c E m ao). split; [apply A_stable; auto|]. split; [exact Ps|]. simpl; auto.
      + exists (A c E m (Some (Some st))). split; [apply A_stable; auto|]. split; [|simpl; auto].
        destruct Ps as (X & Y & Z). split; auto. split; auto. unfold AffIs, aff_at. rewrite L, EV. reflexivity.
      + exists (A c E m ao). split; [apply A_stable; auto|]. split; [exact Ps|]. simpl; auto.
    - exists (A c E m (Some None)). split; [apply A_stable; auto|]. split; [|simpl; auto].
      destruct Ps as (X & Y & Z). split; auto. split; auto. unfold AffIs, aff_at. rewrite L. reflexivity.
  Qed.

  Definition Qwrite_aff c E m ao (o : option affst) (r : res N) : assertion :=
    match r with inl _ => A c E m (Some o) | inr _ => A c E m ao end.

  Lemma safe_create_aff c E m ao st : Eternal E -> st <> AConfirmed ->
    safe (create_aff h c st) (A c E m ao) (Qwrite_aff c E m ao (Some st)).
  Proof.
    intros EE NC. unfold create_aff. cbn [safeS]. intros s W I Ps.
    destruct (exec_create s (KAff h c) (VAff st)) as [[_ X]|[_ (s' & X & SP)]]; rewrite X; cbn [fst snd].
    - split; [apply G_refl|]. split; [exact I|]. split; [|discriminate].
      exists (A c E m ao). split; [apply A_stable; auto|]. split; [exact Ps|]. simpl; auto.
    - split; [eapply G_aff_set; eauto|]. split; [eapply Inv_aff_set; eauto; congruence|]. split; [|discriminate].
      exists (A c E m (Some (Some st))). split; [apply A_stable; auto|]. split; [|simpl; auto].
      replace s' with (fst (exec s (RCreate (KAff h c) (VAff st)))) by (rewrite X; reflexivity).
      apply A_aff_write with (ao := ao); auto; rewrite X; cbn [fst].
      + apply (blk_at_other SP (@not_blk_aff h c)).
      + rewrite (aff_at_set SP). rewrite !N.eqb_refl. reflexivity.
  Qed.

  Definition Qupd_aff c E m ao (st : affst) (r : res N) : assertion :=
    match r with inl _ => A c E m (Some (Some st)) | inr _ => A c E m ao end.

  Lemma safe_update_aff c E m ao st rev : Eternal E -> (st = AConfirmed -> m = true) ->
    safe (update_aff h c st rev) (A c E m ao) (Qupd_aff c E m ao st).
  Proof.
    intros EE MC. unfold update_aff. cbn [safeS]. intros s W I Ps.
    assert (NOP : forall r, (exists e, r = inr e) ->
              exists P', Stable h P' /\ P' s /\ safe (Ret r) P' (Qupd_aff c E m ao st)).
    { intros r [e ->]. exists (A c E m ao). split; [apply A_stable; auto|]. split; [exact Ps|]. simpl; auto. }
    destruct (exec_update s (KAff h c) (VAff st) rev) as [[_ X]|[(e0 & _ & _ & X)|(e0 & s' & _ & _ & X & SP)]];
      rewrite X; cbn [fst snd].
    - split; [apply G_refl|]. split; [exact I|]. split; [apply NOP; eauto | intros _; apply NOP; eauto].
    - split; [apply G_refl|]. split; [exact I|]. split; [apply NOP; eauto | intros _; apply NOP; eauto].
    - split; [eapply G_aff_set; eauto|]. split.
      { eapply Inv_aff_set; eauto. intros ->. destruct Ps as (_ & Y & _). apply Y. auto. }
      split; [|intros _; apply NOP; eauto].
      exists (A c E m (Some (Some st))). split; [apply A_stable; auto|]. split; [|simpl; auto].
      replace s' with (fst (exec s (RUpdate (KAff h c) (VAff st) rev))) by (rewrite X; reflexivity).
      apply A_aff_write with (ao := ao); auto; rewrite X; cbn [fst].
      + apply (blk_at_other SP (@not_blk_aff h c)).
      + rewrite (aff_at_set SP). rewrite !N.eqb_refl. reflexivity.
  Qed.

  Definition Qdel_aff c E m ao (r : res unit) : assertion :=
    match r with inl _ => A c E m (Some None) | inr _ => A c E m ao end.

  Lemma safe_delete_aff c E m ao rev : Eternal E ->
    safe (delete_aff h c rev) (fun s => A c E m ao s /\ NotMine h c s) (Qdel_aff c E m ao).
  Proof.
    intros EE. unfold delete_aff. cbn [safeS]. intros s W I [Ps NM].
    assert (NOP : forall r, (exists e, r = inr e) ->
              exists P', Stable h P' /\ P' s /\ safe (Ret r) P' (Qdel_aff c E m ao)).
    { intros r [e ->]. exists (A c E m ao). split; [apply A_stable; auto|]. split; [exact Ps|]. simpl; auto. }
    destruct (exec_delete s (KAff h c) rev W) as [[_ X]|[(e0 & _ & _ & X)|(e0 & s' & _ & _ & X & SP)]];
      rewrite X; cbn [fst snd].
    - split; [apply G_refl|]. split; [exact I|]. split; [apply NOP; eauto | intros _; apply NOP; eauto].
    - split; [apply G_refl|]. split; [exact I|]. split; [apply NOP; eauto | intros _; apply NOP; eauto].
    - split; [eapply G_aff_del; eauto|]. split; [eapply Inv_aff_del; eauto|].
      split; [|intros _; apply NOP; eauto].
      exists (A c E m (Some None)). split; [apply A_stable; auto|]. split; [|simpl; auto].
      replace s' with (fst (exec s (RDelete (KAff h c) rev))) by (rewrite X; reflexivity).
      apply A_aff_write with (ao := ao); auto; rewrite X; cbn [fst].
      + apply (blk_at_other_del SP (@not_blk_aff h c)).
      + rewrite (aff_at_del SP). rewrite !N.eqb_refl. reflexivity.
  Qed.
  (* ---------------------------------------------------------------- blocks *)
  Lemma cas_block s c rev b0 e0 : Known (KBlock c) rev (VBlock b0) s ->
    s_lookup s (KBlock c) = Some e0 -> e_rev e0 = rev -> blk_at s c = Some b0.
  Proof. intros [_ K] L R. unfold blk_at. rewrite L. rewrite (K e0 L R). reflexivity. Qed.

  Definition Qget_block c E m ao (r : res (block * N)) : assertion :=
    match r with
    | inl (b, rev) => fun s => A c (EK E c rev b) (m || optN_eqb (bk_aff b) (Some h)) ao s /\
                               (bk_aff b <> Some h -> NotMine h c s)
    | inr _ => A c E m ao
    end.

  Lemma safe_get_block c E m ao : Eternal E -> safe (get_block c) (A c E m ao) (Qget_block c E m ao).
  Proof.
    intros EE. unfold get_block. cbn [safeS]. intros s W I Ps. rewrite exec_get. cbn [fst snd].
    split; [apply G_refl|]. split; [exact I|]. split; [|discriminate].
    destruct (s_lookup s (KBlock c)) as [e|] eqn:L.
    - destruct (e_val e) as [b|st|mm] eqn:EV.
      + exists (fun s => A c (EK E c (e_rev e) b) (m || optN_eqb (bk_aff b) (Some h)) ao s /\
                          (bk_aff b <> Some h -> NotMine h c s)).
        split.
        { apply Stable_and; [apply A_stable; apply Eternal_EK; auto|].
          intros s0 rq0 h0 NE0 W0 X0 GG0 NA. eapply Stable_NotMine; eauto. }
        split; [|simpl; auto].
        split; [|intros NA b1 B1 AF1; unfold blk_at in B1; rewrite L, EV in B1; inversion B1; subst; contradiction].
        destruct Ps as (X & Y & Z). split; [split; auto|].
        * rewrite <- EV. apply Known_of_lookup; auto.
        * split; auto. intros M. apply orb_true_iff in M. destruct M as [M|M]; auto.
          apply optN_eqb_eq in M. exists b. split; auto. unfold blk_at. rewrite L, EV. reflexivity.
      + exists (A c E m ao). split; [apply A_stable; auto|]. split; [exact Ps|]. simpl; auto.
      + exists (A c E m ao). split; [apply A_stable; auto|]. split; [exact Ps|]. simpl; auto.
    - exists (A c E m ao). split; [apply A_stable; auto|]. split; [exact Ps|]. simpl; auto.
  Qed.

  Definition Qget_block_any c c' E m ao (r : res (block * N)) : assertion :=
    match r with
    | inl (b, rev) => A c (EK E c' rev b) m ao
    | inr _ => A c E m ao
    end.

  Lemma safe_get_block_any c c' E m ao : Eternal E -> safe (get_block c') (A c E m ao) (Qget_block_any c c' E m ao).
  Proof.
    intros EE. unfold get_block. cbn [safeS]. intros s W I Ps. rewrite exec_get. cbn [fst snd].
    split; [apply G_refl|]. split; [exact I|]. split; [|discriminate].
    destruct (s_lookup s (KBlock c')) as [e|] eqn:L.
    - destruct (e_val e) as [b|st|mm] eqn:EV.
      + exists (A c (EK E c' (e_rev e) b) m ao).
        split; [apply A_stable; apply Eternal_EK; auto|]. split; [|simpl; auto].
        destruct Ps as (X & Y & Z). split; [split; auto|auto].
        rewrite <- EV. apply Known_of_lookup; auto.
      + exists (A c E m ao). split; [apply A_stable; auto|]. split; [exact Ps|]. simpl; auto.
      + exists (A c E m ao). split; [apply A_stable; auto|]. split; [exact Ps|]. simpl; auto.
    - exists (A c E m ao). split; [apply A_stable; auto|]. split; [exact Ps|]. simpl; auto.
  Qed.

  Definition Qcreate_block c E m ao (r : res (block * N)) : assertion :=
    match r with
    | inl (b, rev) => A c (EK E c rev b) true ao
    | inr _ => A c E m ao
    end.

  Lemma safe_create_block c E m ao b0 : Eternal E -> bk_aff b0 = Some h -> blk_empty b0 = true ->
    (exists st, ao = Some (Some st)) ->
    safe (create_block c b0) (A c E m ao) (Qcreate_block c E m ao).
  Proof.
    intros EE AF EM [st0 AO]. unfold create_block. cbn [safeS]. intros s W I Ps.
    assert (AEX : forall h0, bk_aff b0 = Some h0 -> aff_at s h0 c <> None).
    { intros h0 X0. assert (h0 = h) by congruence. subst h0. destruct Ps as (_ & _ & Z). subst ao.
      unfold AffIs in Z. rewrite Z. discriminate. }
    destruct (exec_create s (KBlock c) (VBlock b0)) as [[_ X]|[NL (s' & X & SP)]]; rewrite X; cbn [fst snd].
    - split; [apply G_refl|]. split; [exact I|]. split; [|discriminate].
      exists (A c E m ao). split; [apply A_stable; auto|]. split; [exact Ps|]. simpl; auto.
    - assert (NB : blk_at s c = None) by (unfold blk_at; rewrite NL; reflexivity).
      split; [eapply G_blk_create; eauto|]. split; [eapply Inv_blk_create; eauto|]. split; [|discriminate].
      exists (A c (EK E c (st_next s) b0) true ao).
      split; [apply A_stable; apply Eternal_EK; auto|]. split; [|simpl; auto].
      assert (W' : wf s') by (replace s' with (fst (exec s (RCreate (KBlock c) (VBlock b0)))) by (rewrite X; auto); apply wf_exec; auto).
      destruct Ps as (X1 & Y & Z). split; [split|split].
      + replace s' with (fst (exec s (RCreate (KBlock c) (VBlock b0)))) by (rewrite X; auto). apply EE; auto.
      + change (st_next s) with (e_rev (mk (KBlock c) (VBlock b0) (st_next s))).
        change (VBlock b0) with (e_val (mk (KBlock c) (VBlock b0) (st_next s))).
        apply Known_of_lookup; auto. destruct SP as [_ LK]. rewrite LK, key_eqb_refl. reflexivity.
      + intros _. exists b0. split; auto. rewrite (blk_at_set SP), N.eqb_refl. reflexivity.
      + destruct ao; auto. unfold AffIs in *. rewrite (aff_at_blk_set SP). exact Z.
  Qed.

  Definition Qupdate_block c c' E m ao (r : res (block * N)) : assertion :=
    match r with
    | inl (b, rev) => A c (EK E c' rev b) m ao
    | inr _ => A c E m ao
    end.

  Lemma safe_update_block c c' E m ao b0 b' rev : Eternal E ->
    (forall s, E s -> Known (KBlock c') rev (VBlock b0) s) -> bk_aff b' = bk_aff b0 ->
    safe (update_block c' b' rev) (A c E m ao) (Qupdate_block c c' E m ao).
  Proof.
    intros EE KN AF. unfold update_block. cbn [safeS]. intros s W I Ps.
    assert (NOP : forall r, (exists e, r = inr e) ->
              exists P', Stable h P' /\ P' s /\ safe (Ret r) P' (Qupdate_block c c' E m ao)).
    { intros r [e ->]. exists (A c E m ao). split; [apply A_stable; auto|]. split; [exact Ps|]. simpl; auto. }
    destruct (exec_update s (KBlock c') (VBlock (bump b')) rev) as [[_ X]|[(e0 & _ & _ & X)|(e0 & s' & L0 & R0 & X & SP)]];
      rewrite X; cbn [fst snd].
    - split; [apply G_refl|]. split; [exact I|]. split; [apply NOP; eauto | intros _; apply NOP; eauto].
    - split; [apply G_refl|]. split; [exact I|]. split; [apply NOP; eauto | intros _; apply NOP; eauto].
    - destruct Ps as (X1 & Y & Z).
      assert (B0 : blk_at s c' = Some b0) by (eapply cas_block; eauto).
      split; [eapply G_blk_keep; eauto|]. split; [eapply Inv_blk_keep; eauto|].
      split; [|intros _; apply NOP; eauto].
      exists (A c (EK E c' (st_next s) (bump b')) m ao).
      split; [apply A_stable; apply Eternal_EK; auto|]. split; [|simpl; auto].
      assert (W' : wf s') by (replace s' with (fst (exec s (RUpdate (KBlock c') (VBlock (bump b')) rev))) by (rewrite X; auto); apply wf_exec; auto).
      split; [split|split].
      + replace s' with (fst (exec s (RUpdate (KBlock c') (VBlock (bump b')) rev))) by (rewrite X; auto). apply EE; auto.
      + change (st_next s) with (e_rev (mk (KBlock c') (VBlock (bump b')) (st_next s))).
        change (VBlock (bump b')) with (e_val (mk (KBlock c') (VBlock (bump b')) (st_next s))).
        apply Known_of_lookup; auto. destruct SP as [_ LK]. rewrite LK, key_eqb_refl. reflexivity.
      + intros M. destruct (Y M) as (b & Bb & Ab). unfold BlockMine. rewrite (blk_at_set SP).
        destruct (N.eqb c' c) eqn:EC.
        * apply N.eqb_eq in EC. subst c'. exists (bump b'). split; auto. simpl. congruence.
        * exists b. auto.
      + destruct ao; auto. unfold AffIs in *. rewrite (aff_at_blk_set SP). exact Z.
  Qed.

  Lemma Stable_A_NotMine c E m ao : Eternal E -> Stable h (fun s => A c E m ao s /\ NotMine h c s).
  Proof. intros EE. apply Stable_and; [apply A_stable; auto | apply Stable_NotMine]. Qed.

  (* the owner gives the block up: clear the Affinity field / delete the block; the host's affinity object is
     known not to be confirmed *)
  Definition Qgiveup c E m ao (r : res (block * N)) : assertion :=
    match r with inl _ => fun s => A c E false ao s /\ NotMine h c s | inr _ => A c E m ao end.

  Lemma safe_clear_block c E m st b0 rev : Eternal E -> st <> AConfirmed ->
    (forall s, E s -> Known (KBlock c) rev (VBlock b0) s) -> (bk_aff b0 = None \/ bk_aff b0 = Some h) ->
    safe (update_block c (clear_aff b0) rev) (A c E m (Some (Some st))) (Qgiveup c E m (Some (Some st))).
  Proof.
    intros EE NC KN OW. unfold update_block. cbn [safeS]. intros s W I Ps.
    assert (NOP : forall r, (exists e, r = inr e) ->
              exists P', Stable h P' /\ P' s /\ safe (Ret r) P' (Qgiveup c E m (Some (Some st)))).
    { intros r [e ->]. exists (A c E m (Some (Some st))). split; [apply A_stable; auto|]. split; [exact Ps|]. simpl; auto. }
    destruct (exec_update s (KBlock c) (VBlock (bump (clear_aff b0))) rev) as [[_ X]|[(e0 & _ & _ & X)|(e0 & s' & L0 & R0 & X & SP)]];
      rewrite X; cbn [fst snd].
    - split; [apply G_refl|]. split; [exact I|]. split; [apply NOP; eauto | intros _; apply NOP; eauto].
    - split; [apply G_refl|]. split; [exact I|]. split; [apply NOP; eauto | intros _; apply NOP; eauto].
    - destruct Ps as (X1 & Y & Z).
      assert (B0 : blk_at s c = Some b0) by (eapply cas_block; eauto).
      split; [eapply G_blk_clear; eauto; try reflexivity; try (intros o; reflexivity)|]. split.
      { eapply Inv_blk_clear with (h := h); eauto; try reflexivity. destruct OW as [O|O]; [left; exact O | right; split; [exact O|]].
        unfold AffIs in Z. intros EQ. rewrite Z in EQ. congruence. }
      split; [|intros _; apply NOP; eauto].
      exists (fun s => A c E false (Some (Some st)) s /\ NotMine h c s). split; [apply Stable_A_NotMine; auto|]. split; [|simpl; auto].
      split; [|intros b1 B1; rewrite (blk_at_set SP), N.eqb_refl in B1; inversion B1; subst; simpl; discriminate].
      split; [|split; [discriminate|]].
      + replace s' with (fst (exec s (RUpdate (KBlock c) (VBlock (bump (clear_aff b0))) rev))) by (rewrite X; auto). apply EE; auto.
      + unfold AffIs in *. rewrite (aff_at_blk_set SP). exact Z.
  Qed.

  Definition Qgiveup_u c E m ao (r : res unit) : assertion :=
    match r with
    | inl _ => fun s => A c E false ao s /\ NotMine h c s
    | inr ENotFound => fun s => A c E m ao s /\ NotMine h c s
    | inr _ => A c E m ao
    end.

  Lemma safe_delete_block_owner c E m st b0 rev : Eternal E -> st <> AConfirmed ->
    (forall s, E s -> Known (KBlock c) rev (VBlock b0) s) -> (bk_aff b0 = None \/ bk_aff b0 = Some h) ->
    blk_empty b0 = true ->
    safe (delete_block c rev) (A c E m (Some (Some st))) (Qgiveup_u c E m (Some (Some st))).
  Proof.
    intros EE NC KN OW EM. unfold delete_block. cbn [safeS]. intros s W I Ps.
    assert (NOP : forall r, (exists e, r = inr e /\ e <> ENotFound) ->
              exists P', Stable h P' /\ P' s /\ safe (Ret r) P' (Qgiveup_u c E m (Some (Some st)))).
    { intros r [e [-> NE]]. exists (A c E m (Some (Some st))). split; [apply A_stable; auto|]. split; [exact Ps|].
      destruct e; try contradiction; simpl; auto. }
    destruct (exec_delete s (KBlock c) rev W) as [[NL X]|[(e0 & _ & _ & X)|(e0 & s' & L0 & R0 & X & SP)]];
      rewrite X; cbn [fst snd].
    - split; [apply G_refl|]. split; [exact I|]. split; [|intros _; apply NOP; exists EConflict; split; [reflexivity | discriminate]].
      exists (fun s => A c E m (Some (Some st)) s /\ NotMine h c s). split; [apply Stable_A_NotMine; auto|]. split; [|simpl; auto].
      split; [exact Ps|]. intros b1 B1. unfold blk_at in B1. rewrite NL in B1. discriminate.
    - split; [apply G_refl|]. split; [exact I|].
      split; [apply NOP; exists EConflict; split; [reflexivity | discriminate] | intros _; apply NOP; exists EConflict; split; [reflexivity | discriminate]].
    - destruct Ps as (X1 & Y & Z).
      assert (B0 : blk_at s c = Some b0) by (eapply cas_block; eauto).
      split; [eapply G_blk_del; eauto; destruct OW; auto|]. split.
      { eapply Inv_blk_del with (h := h); eauto. destruct OW as [O|O]; [left; exact O | right; split; [exact O|]].
        unfold AffIs in Z. intros EQ. rewrite Z in EQ. congruence. }
      split; [|intros _; apply NOP; exists EConflict; split; [reflexivity | discriminate]].
      exists (fun s => A c E false (Some (Some st)) s /\ NotMine h c s). split; [apply Stable_A_NotMine; auto|]. split; [|simpl; auto].
      split; [|intros b1 B1; rewrite (blk_at_del SP), N.eqb_refl in B1; discriminate].
      split; [|split; [discriminate|]].
      + replace s' with (fst (exec s (RDelete (KBlock c) rev))) by (rewrite X; auto). apply EE; auto.
      + unfold AffIs in *. rewrite (aff_at_blk_del SP). exact Z.
  Qed.

  (* an address release deletes a block that names no host *)
  Lemma safe_delete_block_unowned c c' E ao b0 rev : Eternal E ->
    (forall s, E s -> Known (KBlock c') rev (VBlock b0) s) -> bk_aff b0 = None ->
    safe (delete_block c' rev) (A c E false ao) (fun _ => A c E false ao).
  Proof.
    intros EE KN OW. unfold delete_block. cbn [safeS]. intros s W I Ps.
    assert (NOP : forall r : res unit,
              exists P', Stable h P' /\ P' s /\ safe (Ret r) P' (fun _ => A c E false ao)).
    { intros r. exists (A c E false ao). split; [apply A_stable; auto|]. split; [exact Ps|]. simpl; auto. }
    destruct (exec_delete s (KBlock c') rev W) as [[_ X]|[(e0 & _ & _ & X)|(e0 & s' & L0 & R0 & X & SP)]];
      rewrite X; cbn [fst snd].
    - split; [apply G_refl|]. split; [exact I|]. split; [exact (NOP (inl tt)) | intros _; exact (NOP (inl tt))].
    - split; [apply G_refl|]. split; [exact I|]. split; [exact (NOP (inl tt)) | intros _; exact (NOP (inl tt))].
    - destruct Ps as (X1 & Y & Z).
      assert (B0 : blk_at s c' = Some b0) by (eapply cas_block; eauto).
      split; [eapply G_blk_del; eauto|]. split; [eapply Inv_blk_del with (h := h); eauto; left; auto|].
      split; [|intros _; exact (NOP (inl tt))].
      exists (A c E false ao). split; [apply A_stable; auto|]. split; [|simpl; auto].
      split; [|split; [discriminate|]].
      + replace s' with (fst (exec s (RDelete (KBlock c') rev))) by (rewrite X; auto). apply EE; auto.
      + destruct ao; auto. unfold AffIs in *. rewrite (aff_at_blk_del SP). exact Z.
  Qed.

  (* ---------------------------------------------------------------- accesses that touch neither blocks nor affinities *)
  Definition neutral (rq : Cas.req key value lopt) : Prop :=
    match rq with
    | RGet _ | RList _ => True
    | RCreate k _ | RUpdate k _ _ | RDelete k _ => exists x, k = KHandle x
    end.

  Lemma safe_neutral {R} rq (k : Cas.resp key value -> prog R) c E m ao Q : Eternal E -> neutral rq ->
    (forall rs, safe (k rs) (A c E m ao) Q) -> safe (Act rq k) (A c E m ao) Q.
  Proof.
    intros EE NT K. cbn [safeS]. intros s W I Ps.
    assert (ST : Stable h (A c E m ao)) by (apply A_stable; auto).
    assert (SAME : forall rs, exists P', Stable h P' /\ P' s /\ safe (k rs) P' Q).
    { intros rs. exists (A c E m ao). auto. }
    assert (MOVE : forall s', s' = fst (exec s rq) ->
              (forall c', blk_at s' c' = blk_at s c') -> (forall h' c', s_lookup s' (KAff h' c') = s_lookup s (KAff h' c')) ->
              G h s s' /\ Inv s' /\ A c E m ao s').
    { intros s' -> B AF.
      assert (AF' : forall h' c', aff_at (fst (exec s rq)) h' c' = aff_at s h' c') by (intros; unfold aff_at; rewrite AF; auto).
      split; [apply G_blocks_same; auto|]. split; [eapply Inv_views_same; eauto|]. apply A_same; auto. }
    destruct rq as [k0 | l | k0 v0 | k0 v0 rev | k0 rev].
    - rewrite exec_get. cbn [fst snd]. split; [apply G_refl|]. split; [exact I|]. split; [apply SAME | discriminate].
    - split; [apply G_refl|]. split; [exact I|]. split; [apply SAME | discriminate].
    - destruct NT as [x ->].
      destruct (exec_create s (KHandle x) v0) as [[_ X]|[_ (s' & X & SP)]]; rewrite X; cbn [fst snd].
      + split; [apply G_refl|]. split; [exact I|]. split; [apply SAME | discriminate].
      + destruct (MOVE s') as (GG & I' & A').
        * rewrite X; auto.
        * apply (blk_at_other SP (@not_blk_handle x)).
        * apply (aff_lookup_other SP (@not_aff_handle x)).
        * split; auto. split; auto. split; [|discriminate]. exists (A c E m ao). auto.
    - destruct NT as [x ->].
      destruct (exec_update s (KHandle x) v0 rev) as [[_ X]|[(e0 & _ & _ & X)|(e0 & s' & _ & _ & X & SP)]]; rewrite X; cbn [fst snd].
      + split; [apply G_refl|]. split; [exact I|]. split; [apply SAME | intros _; apply SAME].
      + split; [apply G_refl|]. split; [exact I|]. split; [apply SAME | intros _; apply SAME].
      + destruct (MOVE s') as (GG & I' & A').
        * rewrite X; auto.
        * apply (blk_at_other SP (@not_blk_handle x)).
        * apply (aff_lookup_other SP (@not_aff_handle x)).
        * split; auto. split; auto. split; [|intros _; apply SAME]. exists (A c E m ao). auto.
    - destruct NT as [x ->].
      destruct (exec_delete s (KHandle x) rev W) as [[_ X]|[(e0 & _ & _ & X)|(e0 & s' & _ & _ & X & SP)]]; rewrite X; cbn [fst snd].
      + split; [apply G_refl|]. split; [exact I|]. split; [apply SAME | intros _; apply SAME].
      + split; [apply G_refl|]. split; [exact I|]. split; [apply SAME | intros _; apply SAME].
      + destruct (MOVE s') as (GG & I' & A').
        * rewrite X; auto.
        * apply (blk_at_other_del SP (@not_blk_handle x)).
        * apply (aff_lookup_other_del SP (@not_aff_handle x)).
        * split; auto. split; auto. split; [|intros _; apply SAME]. exists (A c E m ao). auto.
  Qed.
End Host.
