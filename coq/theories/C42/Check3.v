(* C42 — correspondence with the three-map model: the implementation's complete recorded schedule (writes to the NAT
   frontend, NAT backend and Maglev LUT maps) must be one that ModelMg.exec_apply3 accepts, with the same error flag
   and the same three maps afterwards.  The consistent-hash tables are handed over by the driver (computed with
   felix/bpf/consistenthash, as the syncer does): per apply, (ready endpoint addresses, table) pairs. *)
From Coq Require Import List NArith Bool Arith.
From Verif.C42 Require Import Model Spec ModelMg.
Import ListNotations.
Open Scope N_scope.

Fixpoint addrs_eqb (a b : list bval) : bool :=
  match a, b with
  | [], [] => true
  | x :: a', y :: b' => pair_eqb x y && addrs_eqb a' b'
  | _, _ => false
  end.
Definition mk_lutf (tabs : list (list bval * list bval)) (eps : list ep) (j : N) : bval :=
  match find (fun t => addrs_eqb (fst t) (map ep_addr eps)) tabs with
  | Some t => nth (N.to_nat j) (snd t) (0, 0)
  | None => (0, 0)
  end.

Fixpoint model3_agrees (cfg : config) (mgfix : bool) (lut : N) (sy : syncer) (d : dp3) (ops : list op) : bool :=
  match ops with
  | [] => true
  | ORestart :: t => model3_agrees cfg mgfix lut new_syncer d t
  | OApply st v fF fB tr err fe be _ tabs mga :: t =>
      match exec_apply3 cfg mgfix lut (mk_lutf tabs) sy d st v fF fB tr with
      | None => false
      | Some (sy', d', err') =>
          Bool.eqb err err' && femap_eqb (fst (fst d')) fe && bemap_eqb (snd (fst d')) be && bemap_eqb (snd d') mga
          && model3_agrees cfg mgfix lut sy' d' t
      end
  end.

Definition check_case3 (c : case) : bool * bool :=
  let r := check_case c in
  (fst r && model3_agrees (Config (k_npips c) (k_reset c)) (k_mgfix c) (k_lut c) new_syncer (([], []), []) (k_ops c),
   snd r).
