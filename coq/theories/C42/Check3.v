(* C42 — correspondence with the three-map model: the implementation's complete recorded schedule (writes to the NAT
   frontend, NAT backend and Maglev LUT maps) must be one that ModelMg.exec_apply3 accepts, with the same error flag
   and the same three maps afterwards.  The consistent-hash tables are handed over by the driver (computed with
   felix/bpf/consistenthash, as the syncer does): per apply, (ready endpoint addresses, table) pairs. *)
From Coq Require Import List NArith Bool Arith.
From Verif.C42 Require Import Model Spec ModelMg ModelWrap.
Import ListNotations.
Open Scope N_scope.

Fixpoint addrs_eqb (a b : list bval) : bool :=
  match a, b with
  | [], [] => true
  | x :: a', y :: b' => pair_eqb x y && addrs_eqb a' b'
  | _, _ => false
  end.
Definition mk_lutf (tabs : list (list bval * list bval)) (eps : list ep) (j : N) : bval :=
  match find (fun t => addrs_eqb (fst t) (map ep_addr eps)) tabs with
  | Some t => nth (N.to_nat j) (snd t) (0, 0)
  | None => (0, 0)
  end.

Fixpoint model3_agrees (cfg : config) (mgfix : bool) (lut : N) (sy : syncer) (d : dp3) (ops : list op) : bool :=
  match ops with
  | [] => true
  | ORestart :: t => model3_agrees cfg mgfix lut new_syncer d t
  | OSetNext n :: t => model3_agrees cfg mgfix lut (SY n (sy_prev sy) (sy_synced sy)) d t
  | OApply st v fF fB tr err fe be _ tabs mga :: t =>
      match exec_apply3 cfg mgfix lut (mk_lutf tabs) sy d st v fF fB tr with
      | None => false
      | Some (sy', d', err') =>
          Bool.eqb err err' && femap_eqb (fst (fst d')) fe && bemap_eqb (snd (fst d')) be && bemap_eqb (snd d') mga
          && model3_agrees cfg mgfix lut sy' d' t
      end
  end.

(* the two-map model with uint32 id arithmetic (ModelWrap) on the NAT-map writes *)
Fixpoint model32_agrees (cfg : config) (sy : syncer) (d : dp) (ops : list op) : bool :=
  match ops with
  | [] => true
  | ORestart :: t => model32_agrees cfg new_syncer d t
  | OSetNext n :: t => model32_agrees cfg (SY n (sy_prev sy) (sy_synced sy)) d t
  | OApply st v fF fB tr err fe be _ _ _ :: t =>
      match exec_apply32 cfg sy d st v fF fB (core_writes tr) with
      | None => false
      | Some (sy', d', err') =>
          Bool.eqb err err' && femap_eqb (fst d') fe && bemap_eqb (snd d') be && model32_agrees cfg sy' d' t
      end
  end.
Definition has_setnext (ops : list op) : bool :=
  existsb (fun o => match o with OSetNext _ => true | _ => false end) ops.

(* agreement: always with the uint32 model; with the N-counting models (Model, ModelMg) too unless the history puts
   the id counter near the wrap (they coincide below 2^32: c42_uint32_model_coincides) *)
Definition check_case3 (c : case) : bool * bool :=
  let r := check_case c in
  let cfg := Config (k_npips c) (k_reset c) in
  (model32_agrees cfg new_syncer ([], []) (k_ops c)
   && (has_setnext (k_ops c)
       || (fst r && model3_agrees cfg (k_mgfix c) (k_lut c) new_syncer (([], []), []) (k_ops c))),
   snd r).
