(* C42 — property theorems only.  Each is closed by `exact <lemma>` and followed by Print Assumptions. *)
From Coq Require Import List NArith Bool Arith.
From Verif.C42 Require Import Model Spec Proofs ProofsApply ProofsFinal ProofsIds ProofsSpec ProofsPin ProofsMaglev ProofsSched ProofsOracle ModelMg ProofsMg ProofsProj ProofsThree ProofsSched3 ProofsWrap ModelWrap ProofsWrap32 ProofsOracle3 Witness.
Import ListNotations.
Open Scope N_scope.

(* INVARIANT AFTER EACH SINGLE MAP WRITE, the two NAT maps (holds for either LUT phase order; the statement with the
   Maglev LUT map included is c42_every_write_consistent below).  For every history of applies (any services/endpoints, any Go map
   iteration order `v`, any set of failing writes, any schedule `tr` of the single writes inside the phases) and
   restarts, from any Syncer state and any consistent dataplane (e.g. empty maps): every dataplane state passed
   through - one per single write - and the final one is consistent: every frontend's backend count refers only
   to backend entries that exist. *)
Theorem c42_every_write_consistent_nat_maps : forall cfg ops sy d states sy' d',
  consistent (fst d) (snd d) -> run_history cfg sy d ops = Some (states, sy', d') ->
  Forall (fun s => consistent (fst s) (snd s)) states /\ consistent (fst d') (snd d').
Proof. exact history_consistent. Qed.
Print Assumptions c42_every_write_consistent_nat_maps.

(* the same for one Apply, with what the states are: the schedule executed write by write *)
Theorem c42_apply_every_write_consistent : forall cfg sy d st v fF fB tr sy' d' err,
  consistent (fst d) (snd d) -> exec_apply cfg sy d st v fF fB tr = Some (sy', d', err) ->
  Forall (fun s => consistent (fst s) (snd s)) (states_after d tr) /\ d' = do_writes d tr
  /\ consistent (fst d') (snd d').
Proof. exact exec_apply_consistent. Qed.
Print Assumptions c42_apply_every_write_consistent.

(* what the syncer wants to write is itself consistent, whatever ids it chose *)
Theorem c42_desired_consistent : forall npips us, consistent (desired_fe npips us) (desired_be us).
Proof. exact desired_consistent. Qed.
Print Assumptions c42_desired_consistent.

(* A COMPLETED SYNC LEAVES EXACTLY THE DESIRED MAPS (stale frontends and backends removed, nothing missing),
   for every schedule: both maps agree key by key with the maps computed from the services. *)
Theorem c42_completed_sync_is_desired : forall cfg sy d st v fF fB tr sy' d',
  consistent (fst d) (snd d) -> exec_apply cfg sy d st v fF fB tr = Some (sy', d', false) ->
  exists next us,
    visit_all (sy_prev (if sy_synced sy then sy else startup (c_reset cfg) (c_npips cfg) sy (fst d) st))
              (sy_next (if sy_synced sy then sy else startup (c_reset cfg) (c_npips cfg) sy (fst d) st)) st v = Some (next, us) /\
    (forall k, lookup fkey_eqb (fst d') k = lookup fkey_eqb (desired_fe (c_npips cfg) us) k) /\
    (forall k, lookup pair_eqb (snd d') k = lookup pair_eqb (desired_be us) k).
Proof. exact completed_apply_is_desired. Qed.
Print Assumptions c42_completed_sync_is_desired.

(* COMPLETED SYNC, UNIT LEVEL: what holds for every Syncer state, also one with duplicated ids (a lemma towards
   c42_final_exact, which is the full statement).  After a completed sync,
   for every schedule: every frontend in the map is a frontend of one of the applySvc units (a service's own
   frontends: cluster IP, LB IPs, external IPs, node ports; or a per-remote-node node port) with that unit's id,
   ready-endpoint count, local count and affinity; every such frontend is present; every backend entry lies inside
   some unit's block (nothing stale); and, when distinct units have distinct ids, the i-th backend of a unit is its
   i-th ready endpoint in the order "ready local ones, then ready remote ones".
   Missing for the full statement: (a) NoDup (map u_id us) is NOT derivable for the pinned code
   (c42_final_exact_refuted); it is proved for c_reset = true in c42_final_exact_units below; (b) the units' frontends are identified with Spec.spec_frontends in
   c42_frontends_exactly_requested / c42_requested_frontend_served below, and everything is put together in
   c42_final_exact. *)
Theorem c42_completed_sync_units : forall cfg sy d st v fF fB tr sy' d',
  consistent (fst d) (snd d) -> exec_apply cfg sy d st v fF fB tr = Some (sy', d', false) ->
  exists next us,
    visit_all (sy_prev (if sy_synced sy then sy else startup (c_reset cfg) (c_npips cfg) sy (fst d) st))
              (sy_next (if sy_synced sy then sy else startup (c_reset cfg) (c_npips cfg) sy (fst d) st)) st v = Some (next, us) /\
    (forall k fv, lookup fkey_eqb (fst d') k = Some fv ->
        exists u, In u us /\ In (k, fv) (unit_frontends (c_npips cfg) u)
                  /\ fv_id fv = u_id u /\ fv_count fv = u_count u /\ fv_local fv = u_local u /\ fv_aff fv = s_sticky (u_svc u)) /\
    (forall u k fv, In u us -> In (k, fv) (unit_frontends (c_npips cfg) u) -> lookup fkey_eqb (fst d') k <> None) /\
    (forall id i a, lookup pair_eqb (snd d') (id, i) = Some a -> exists u, In u us /\ id = u_id u /\ i < u_count u) /\
    (NoDup (map u_id us) ->
       forall u i, In u us -> i < u_count u ->
         exists e, nth_error (ready_local (u_eps u) ++ ready_remote (u_eps u)) (N.to_nat i) = Some e
                   /\ lookup pair_eqb (snd d') (u_id u, i) = Some (ep_addr e)).
Proof. exact final_exact_partial. Qed.
Print Assumptions c42_completed_sync_units.

(* FINAL EXACT FOR EVERY HISTORY, for a Syncer that empties prevSvcMap at every startup sync (c_reset = true, the
   repaired tree): in every Syncer state reachable from a fresh Syncer by any history, distinct applySvc units get
   distinct NAT ids (ids in prevSvcMap stay below nextSvcID and injective), hence after every completed sync every
   unit's backend block is exactly its ready endpoints, local ones first, and nothing else is in the maps.
   (Unit-level form; c42_final_exact states it per requested frontend.) *)
Theorem c42_final_exact_units : forall cfg ops d0 states sy d st v fF fB tr sy' d',
  c_reset cfg = true -> consistent (fst d0) (snd d0) ->
  run_history cfg new_syncer d0 ops = Some (states, sy, d) ->
  exec_apply cfg sy d st v fF fB tr = Some (sy', d', false) ->
  exists next us,
    visit_all (sy_prev (if sy_synced sy then sy else startup (c_reset cfg) (c_npips cfg) sy (fst d) st))
              (sy_next (if sy_synced sy then sy else startup (c_reset cfg) (c_npips cfg) sy (fst d) st)) st v = Some (next, us) /\
    NoDup (map u_id us) /\
    (forall k fv, lookup fkey_eqb (fst d') k = Some fv ->
        exists u, In u us /\ In (k, fv) (unit_frontends (c_npips cfg) u)
                  /\ fv_id fv = u_id u /\ fv_count fv = u_count u /\ fv_local fv = u_local u /\ fv_aff fv = s_sticky (u_svc u)) /\
    (forall u k fv, In u us -> In (k, fv) (unit_frontends (c_npips cfg) u) -> lookup fkey_eqb (fst d') k <> None) /\
    (forall id i a, lookup pair_eqb (snd d') (id, i) = Some a -> exists u, In u us /\ id = u_id u /\ i < u_count u) /\
    (forall u i, In u us -> i < u_count u ->
         exists e, nth_error (ready_local (u_eps u) ++ ready_remote (u_eps u)) (N.to_nat i) = Some e
                   /\ lookup pair_eqb (snd d') (u_id u, i) = Some (ep_addr e)).
Proof. exact final_exact_reset. Qed.
Print Assumptions c42_final_exact_units.

(* the Syncer-state invariant behind it: one Apply keeps it *)
Theorem c42_ids_stay_distinct : forall cfg sy d st v fF fB tr sy' d' err,
  c_reset cfg = true -> sy_ok sy -> exec_apply cfg sy d st v fF fB tr = Some (sy', d', err) ->
  sy_ok sy' /\
  exists next us,
    visit_all (sy_prev (if sy_synced sy then sy else startup (c_reset cfg) (c_npips cfg) sy (fst d) st))
              (sy_next (if sy_synced sy then sy else startup (c_reset cfg) (c_npips cfg) sy (fst d) st)) st v = Some (next, us)
    /\ NoDup (map u_id us).
Proof. exact exec_apply_ids. Qed.
Print Assumptions c42_ids_stay_distinct.

(* STALE FRONTENDS REMOVED, NONE MISSING: after a completed sync, for every schedule, the frontend map has exactly the
   keys the services ask for (Spec.spec_frontends: cluster IP, LB IPs, external IPs, node port on every node-port
   address, per-remote-node node ports under internalTrafficPolicy=Local). *)
Theorem c42_frontends_exactly_requested : forall cfg sy d st v fF fB tr sy' d',
  consistent (fst d) (snd d) -> exec_apply cfg sy d st v fF fB tr = Some (sy', d', false) ->
  forall k, lookup fkey_eqb (fst d') k <> None <->
            exists s eps kd, In (s, eps) st /\ In (k, kd) (spec_frontends (c_npips cfg) s eps).
Proof. exact frontend_keys_exact. Qed.
Print Assumptions c42_frontends_exactly_requested.

(* every requested frontend is a frontend of an applySvc unit whose ready endpoints are exactly the ones the frontend
   must list (all of the service's, or those on the remote node), with the service's affinity and with the
   local-only flags the traffic policy requires (external-local on node ports and LB IPs iff
   externalTrafficPolicy=Local, never on the cluster IP; internal-local on the cluster IP iff
   internalTrafficPolicy=Local); the maglev flag only on maglev services; the nat-exclude flag iff the service carries
   the natExcludeService annotation *)
Theorem c42_requested_frontend_served : forall npips prev st v next next' us s eps k kd,
  visit_valid st v = true -> visit_all prev next st v = Some (next', us) ->
  In (s, eps) st -> In (k, kd) (spec_frontends npips s eps) ->
  exists u fv, In u us /\ In (k, fv) (unit_frontends npips u) /\ value_meets_spec kd s eps u fv.
Proof. exact units_cover_spec. Qed.
Print Assumptions c42_requested_frontend_served.

(* FINAL EXACT, full statement, for EVERY history of a Syncer that empties prevSvcMap at every startup sync
   (c_reset = true: the repaired tree; for the pinned code see c42_final_exact_refuted).  After every completed sync
   of a state in which no two services claim the same frontend key (spec_wf), for every schedule:
   - every frontend the services ask for (cluster IP, LB IPs, external IPs, node ports, per-remote-node node ports)
     is in the map and is exact (frontend_exact): its count/local count are those of a list `served` whose ready
     members are exactly the endpoints it must list, the backend entries (id,0..count-1) are those ready endpoints in
     the order "ready local, then ready remote", affinity is the service's, and the local-only flags are the ones the
     traffic policy requires;
   - there is no other frontend;
   - every backend entry is referred to by a frontend (id and ordinal below its count).
   The boolean oracle final_exactb used on the implementation's maps is tied to this statement by
   c42_final_exactb_sound / c42_final_exactb_complete / c42_model_meets_spec below. *)
Theorem c42_final_exact : forall cfg ops d0 states sy d st v fF fB tr sy' d',
  c_reset cfg = true -> consistent (fst d0) (snd d0) ->
  run_history cfg new_syncer d0 ops = Some (states, sy, d) ->
  exec_apply cfg sy d st v fF fB tr = Some (sy', d', false) ->
  spec_wf (c_npips cfg) st ->
  (forall s eps k kd, In (s, eps) st -> In (k, kd) (spec_frontends (c_npips cfg) s eps) ->
     exists fv, lookup fkey_eqb (fst d') k = Some fv /\ frontend_exact (snd d') s eps kd fv)
  /\ (forall k, lookup fkey_eqb (fst d') k <> None ->
        exists s eps kd, In (s, eps) st /\ In (k, kd) (spec_frontends (c_npips cfg) s eps))
  /\ (forall id i a, lookup pair_eqb (snd d') (id, i) = Some a ->
        exists k fv, lookup fkey_eqb (fst d') k = Some fv /\ fv_id fv = id /\ i < fv_count fv).
Proof. exact final_exact_full. Qed.
Print Assumptions c42_final_exact.

(* the order used for a unit's backends lists exactly the ready endpoints (as a multiset), local ones first *)
Theorem c42_ready_local_first : forall eps,
  Permutation.Permutation (ordered eps) (filter e_ready eps)
  /\ ordered eps = ready_local eps ++ ready_remote eps
  /\ Forall (fun e => e_local e = true /\ e_ready e = true) (ready_local eps)
  /\ Forall (fun e => e_local e = false /\ e_ready e = true) (ready_remote eps).
Proof. exact ordered_spec. Qed.
Print Assumptions c42_ready_local_first.

(* Non-vacuity: a concrete history (service with node port, external and LB IP; endpoints change; an apply in which
   a frontend write fails; restart; shrink) runs in the model, passes through 11 states, and its last apply
   completes with final_exactb = true. *)
Theorem c42_example_history :
  exists states sy d,
    run_history (Config ex_npips false) new_syncer ([], []) ex_prefix = Some (states, sy, d) /\ length states = 11%nat
    /\ exists sy' d', exec_apply (Config ex_npips false) sy d [(ex_s0, [ex_e2])] [(0, [])] [] []
                        [WSetF (FK 587202561 80 6) (FV 0 1 1 0 0); WDelB (0,1)] = Some (sy', d', false)
         /\ state_wf ex_npips [(ex_s0, [ex_e2])] && final_exactb ex_npips [(ex_s0, [ex_e2])] (fst d') (snd d') = true.
Proof. exact example_history. Qed.
Print Assumptions c42_example_history.

(* FINDING (stale prevSvcMap).  The full "final exact" statement is false of the faithful model of the pinned code
   (c_reset = false): w_prefix (Witness.v; the driver replays it on the real Syncer as scripted history 2) is a
   previous Felix's sync, a restart, and two FAILED first syncs with service churn in between; the following
   COMPLETED sync of the well-formed state w_final leaves services 0 and 1 sharing NAT id 0, and service 0's
   frontend lists service 1's endpoint. *)
Theorem c42_final_exact_refuted :
  exists states sy d,
    run_history (Config w_npips false) new_syncer ([], []) w_prefix = Some (states, sy, d) /\ length states = 5%nat
    /\ exists sy' d', exec_apply (Config w_npips false) sy d w_final w_visit [] [] w_tr_pinned = Some (sy', d', false)
         /\ state_wf w_npips w_final && final_exactb w_npips w_final (fst d') (snd d') = false.
Proof. exact final_exact_refuted. Qed.
Print Assumptions c42_final_exact_refuted.

(* With prevSvcMap emptied at each startup sync (c_reset = true; fixes/C42-reset-prev-maps-on-startup-sync.patch)
   the same history ends exact. *)
Theorem c42_final_exact_witness_repaired :
  exists states sy d,
    run_history (Config w_npips true) new_syncer ([], []) w_prefix = Some (states, sy, d) /\ length states = 5%nat
    /\ exists sy' d', exec_apply (Config w_npips true) sy d w_final w_visit [] [] w_tr_repaired = Some (sy', d', false)
         /\ state_wf w_npips w_final && final_exactb w_npips w_final (fst d') (snd d') = true.
Proof. exact final_exact_witness_repaired. Qed.
Print Assumptions c42_final_exact_witness_repaired.

(* MAGLEV LUT MAP, MID-UPDATE.  A frontend flagged maglev drops every packet whose LUT entry is missing, so the
   analogue of `consistent` is mg_consistent: every flagged frontend with backends finds all lut entries of its id.
   (a) what the syncer wants to write is maglev-consistent, for any consistent-hash table lutf (explicit parameter); *)
Theorem c42_maglev_desired_consistent : forall npips lut lutf us,
  mg_consistent lut (desired_fe npips us) (desired_mg lut lutf us).
Proof. exact desired_mg_consistent. Qed.
Print Assumptions c42_maglev_desired_consistent.

(* (b) THE MAIN THEOREM: NEVER INCONSISTENT MID-UPDATE, ALL THREE MAPS.  THE THREE-MAP MODEL (ModelMg.exec_apply3: six phases of single writes over frontend, backend and LUT map).
   With the repaired order (frontend deletions; backend updates; LUT updates; frontend updates; LUT deletions; backend
   deletions - fixes/C42-maglev-lut-before-frontend-updates-deletions-after.patch) EVERY state passed through by EVERY
   history - one per single write to any of the three maps, any order inside the phases, any failing NAT-map writes,
   restarts, any consistent-hash table lutf - is consistent and maglev-consistent. *)
Theorem c42_every_write_consistent : forall cfg lut lutf ops sy d states sy' d',
  inv3 lut d -> run_history3 cfg true lut lutf sy d ops = Some (states, sy', d') ->
  Forall (inv3 lut) states /\ inv3 lut d'.
Proof. exact history3_repaired. Qed.
Print Assumptions c42_every_write_consistent.

(* the pinned order is refuted in the same model: an accepted history (annotation removed from a maglev service)
   passes through two states that are not maglev-consistent *)
Theorem c42_maglev_pinned_order_model_refuted :
  exists states sy d,
    run_history3 (Config [3232235521] true) false 2 pw_lutf new_syncer (([], []), []) pw_ops = Some (states, sy, d)
    /\ map (fun s => mg_consistentb 2 (fst (fst s)) (snd s)) states = [true; true; true; true; false; false; true].
Proof. exact pinned_order_refuted. Qed.
Print Assumptions c42_maglev_pinned_order_model_refuted.

(* (c) the pinned order (bpfMaglevEps.ApplyAllChanges, i.e. LUT deletions AND updates, before the frontend updates)
   cannot guarantee it: when the annotation is removed (or the last ready endpoint goes, or the id changes) the first
   LUT deletion leaves a still-flagged frontend without its table.  FINDING, shown on the real Syncer by scripted
   history 3 and by random histories (tag maglev-midupdate). *)
Theorem c42_maglev_pinned_order_refuted :
  let fe0 := [(FK 174063617 80 6, FV 0 2 1 0 8)] in
  let mg0 := [((0, 0), (167837953, 8000)); ((0, 1), (167837697, 8000))] in
  mg_consistentb 2 fe0 mg0 = true /\ mg_consistentb 2 fe0 (del pair_eqb (0, 0) mg0) = false.
Proof. exact maglev_pinned_order_witness. Qed.
Print Assumptions c42_maglev_pinned_order_refuted.

(* A VALID SCHEDULE ALWAYS EXISTS.  For every history of inputs - states handed to Apply with a visit order the model's
   own validity check accepts (a permutation of the services, for each the remote nodes in some order), arbitrary
   failing keys, restarts - from any Syncer state and any dataplane whose maps have no duplicate keys (e.g. empty),
   there are schedules of the single writes such that run_history accepts the history.  So the hypothesis
   `run_history ... = Some ...` of c42_every_write_consistent / c42_final_exact is satisfiable for every history. *)
Theorem c42_schedule_exists : forall cfg ins sy d,
  ukeys (fst d) -> ukeys (snd d) -> Forall hin_ok ins ->
  exists ops states sy' d', map erase ops = ins /\ run_history cfg sy d ops = Some (states, sy', d').
Proof. exact schedule_exists. Qed.
Print Assumptions c42_schedule_exists.

(* the side condition on the visit order is necessary as well: it is exactly what visit_all checks *)
Theorem c42_visit_ok_necessary : forall st v prev next r, visit_all prev next st v = Some r -> visit_ok st v = true.
Proof. exact visit_ok_necessary. Qed.
Print Assumptions c42_visit_ok_necessary.

(* THE BOOLEAN ORACLES (evaluated on the implementation's recorded writes and maps) AND THE PROP-LEVEL SPECIFICATION.
   (a) replay_ok / replay3_ok true  =>  consistent (and mg_consistent) after EACH recorded single write. *)
Theorem c42_replay_ok_sound : forall ws d, replay_ok d ws = true ->
  Forall (fun s => consistent (fst s) (snd s)) (states_after d ws).
Proof. exact replay_ok_sound. Qed.
Print Assumptions c42_replay_ok_sound.

Theorem c42_replay3_ok_sound : forall mgcheck lut xs d, replay3_ok mgcheck lut d xs = true ->
  Forall (fun s => consistent (fst (fst s)) (snd (fst s))
                   /\ (mgcheck = true -> mg_consistent lut (fst (fst s)) (snd s))) (states3_after d xs).
Proof. exact replay3_ok_sound. Qed.
Print Assumptions c42_replay3_ok_sound.

(* (b) final_exactb true  =>  final_exactP: every requested frontend present and exact (its backends in ordinal order
   are a list `addrs` that is a permutation of the ready endpoints it must list, whose first `local` members are a
   permutation of the local ones; affinity; local-only flags), no other frontend, no unreferenced backend; and both
   maps free of duplicate keys.  (c) Conversely final_exactP implies final_exactb on maps without duplicate keys when
   no service has more than COUNT_LIMIT endpoints. *)
Theorem c42_final_exactb_sound : forall npips st fe be,
  final_exactb npips st fe be = true -> final_exactP npips st fe be /\ ukeys fe /\ ukeys be.
Proof. exact final_exactb_sound. Qed.
Print Assumptions c42_final_exactb_sound.

Theorem c42_final_exactb_complete : forall npips st fe be,
  st_bounded st -> ukeys fe -> ukeys be -> final_exactP npips st fe be -> final_exactb npips st fe be = true.
Proof. exact final_exactb_complete. Qed.
Print Assumptions c42_final_exactb_complete.

(* (d) THE MODEL MEETS THE SPEC: the oracles accept every run of the model.  For every history (c_reset = true) from a
   good dataplane (e.g. empty: dp_good_empty) with at most COUNT_LIMIT endpoints per service, every Apply's schedule is
   accepted by replay_ok, and a completed Apply of a well-formed state is accepted by final_exactb. *)
Theorem c42_model_meets_spec : forall cfg ops d0 states sy d st v fF fB tr sy' d' err,
  c_reset cfg = true -> dp_good d0 -> ops_bounded ops -> st_bounded st ->
  run_history cfg new_syncer d0 ops = Some (states, sy, d) ->
  exec_apply cfg sy d st v fF fB tr = Some (sy', d', err) ->
  replay_ok d tr = true
  /\ (err = false -> state_wf (c_npips cfg) st = true -> final_exactb (c_npips cfg) st (fst d') (snd d') = true).
Proof. exact model_meets_spec. Qed.
Print Assumptions c42_model_meets_spec.

(* the every-write half holds for any Syncer state and also for the pinned code (c_reset = false) *)
Theorem c42_model_meets_replay : forall cfg sy d st v fF fB tr sy' d' err,
  dp_good d -> st_bounded st -> exec_apply cfg sy d st v fF fB tr = Some (sy', d', err) ->
  replay_ok d tr = true /\ dp_good d'.
Proof. exact model_meets_replay. Qed.
Print Assumptions c42_model_meets_replay.

(* THE THREE-MAP MODEL PROJECTS ONTO THE TWO-MAP MODEL: dropping the LUT writes from a schedule accepted by exec_apply3
   (either phase order) gives a schedule accepted by exec_apply, with the same Syncer state, error flag and NAT maps.
   So everything proved about exec_apply / run_history holds for the NAT maps of exec_apply3 runs. *)
Theorem c42_three_map_model_projects : forall cfg b lut lutf sy d st v fF fB tr sy' d' err,
  exec_apply3 cfg b lut lutf sy d st v fF fB tr = Some (sy', d', err) ->
  exec_apply cfg sy (fst d) st v fF fB (core_writes tr) = Some (sy', fst d', err).
Proof. exact exec_apply3_proj. Qed.
Print Assumptions c42_three_map_model_projects.

(* in particular c42_final_exact for the three-map model (both phase orders) *)
Theorem c42_final_exact_three_maps : forall cfg b lut lutf ops d0 states sy d st v fF fB tr sy' d',
  c_reset cfg = true -> consistent (fst (fst d0)) (snd (fst d0)) ->
  run_history3 cfg b lut lutf new_syncer d0 ops = Some (states, sy, d) ->
  exec_apply3 cfg b lut lutf sy d st v fF fB tr = Some (sy', d', false) ->
  spec_wf (c_npips cfg) st ->
  (forall s eps k kd, In (s, eps) st -> In (k, kd) (spec_frontends (c_npips cfg) s eps) ->
     exists fv, lookup fkey_eqb (fst (fst d')) k = Some fv /\ frontend_exact (snd (fst d')) s eps kd fv)
  /\ (forall k, lookup fkey_eqb (fst (fst d')) k <> None ->
        exists s eps kd, In (s, eps) st /\ In (k, kd) (spec_frontends (c_npips cfg) s eps))
  /\ (forall id i a, lookup pair_eqb (snd (fst d')) (id, i) = Some a ->
        exists k fv, lookup fkey_eqb (fst (fst d')) k = Some fv /\ fv_id fv = id /\ i < fv_count fv).
Proof. exact final_exact_three. Qed.
Print Assumptions c42_final_exact_three_maps.

(* and a valid schedule always exists in the three-map model as well (either phase order), so
   c42_maglev_every_write_consistent / c42_final_exact_three_maps are not vacuous for any history of inputs *)
Theorem c42_schedule_exists_three_maps : forall cfg b lut lutf ins sy d,
  uk3 d -> Forall hin_ok ins ->
  exists ops states sy' d', map erase3 ops = ins /\ run_history3 cfg b lut lutf sy d ops = Some (states, sy', d').
Proof. exact schedule_exists3. Qed.
Print Assumptions c42_schedule_exists_three_maps.

(* uint32 nextSvcID.  The code's id counter is a uint32, Model.v counts in N; ModelWrap.exec_apply32 repeats the id
   assignment with the wrap-around (the checker uses it too: Check3.model32_agrees).
   (a) The two models coincide as long as the counter after the Apply is below 2^32: *)
Theorem c42_uint32_model_coincides : forall cfg sy d st v fF fB tr sy' d' err,
  exec_apply cfg sy d st v fF fB tr = Some (sy', d', err) -> sy_next sy' < ID_MOD ->
  exec_apply32 cfg sy d st v fF fB tr = Some (sy', d', err).
Proof. exact exec_apply32_eq. Qed.
Print Assumptions c42_uint32_model_coincides.

(* (b) how fast the counter grows: by at most the number of applySvc units per Apply; a startup sync sets it at most
   one above the largest id in the frontend map.  So every theorem above holds of the uint32 model for histories with
   next0 + (units of all applies) < 2^32. *)
Theorem c42_id_counter_growth : forall cfg sy d st v fF fB tr sy' d' err,
  exec_apply cfg sy d st v fF fB tr = Some (sy', d', err) ->
  exists next us,
    visit_all (sy_prev (if sy_synced sy then sy else startup (c_reset cfg) (c_npips cfg) sy (fst d) st))
              (sy_next (if sy_synced sy then sy else startup (c_reset cfg) (c_npips cfg) sy (fst d) st)) st v = Some (next, us)
    /\ sy_next sy' = next
    /\ next <= sy_next (if sy_synced sy then sy else startup (c_reset cfg) (c_npips cfg) sy (fst d) st) + N.of_nat (length us).
Proof. exact apply_next_bound. Qed.
Print Assumptions c42_id_counter_growth.

Theorem c42_startup_counter_bound : forall reset npips sy fe st B,
  sy_next sy <= B -> (forall k v, In (k, v) fe -> fv_id v + 1 <= B) ->
  sy_next (startup reset npips sy fe st) <= B.
Proof. exact startup_next_bound. Qed.
Print Assumptions c42_startup_counter_bound.

(* (c) FINDING (uint32 wrap): beyond that bound the full final-exact statement is false of the uint32 model and of the
   code ("TODO we may run out of IDs unless we restart to recycle"): with the counter at 2^32-1 the next two new
   services get 2^32-1 and 0 - the id a live service holds - and the completed sync lists a wrong endpoint.  The driver
   replays it on the real Syncer (scripted history 4, counter set through a shim; model32 agrees, oracle rejects). *)
Theorem c42_final_exact_uint32_wrap_refuted :
  exists sy d sy' d',
    exec_apply32 (Config [3232235521] true) new_syncer ([], []) wr_st0 [(0, [])] [] []
      [WSetB (0,0) (167837953,8000); WSetF (FK 174063617 80 6) (FV 0 1 0 0 0)] = Some (sy, d, false)
    /\ exec_apply32 (Config [3232235521] true) (SY 4294967295 (sy_prev sy) true) d wr_st1 [(0, []); (1, []); (2, [])] [] []
         [WSetB (4294967295,0) (167837954,8000); WSetB (0,0) (167837955,8000); WSetB (0,1) (167837956,8000);
          WSetF (FK 174063618 80 6) (FV 4294967295 1 0 0 0); WSetF (FK 174063619 80 6) (FV 0 2 0 0 0)] = Some (sy', d', false)
    /\ sy_next sy' = 1
    /\ state_wf [3232235521] wr_st1 && final_exactb [3232235521] wr_st1 (fst d') (snd d') = false.
Proof. exact wrap_refuted. Qed.
Print Assumptions c42_final_exact_uint32_wrap_refuted.

(* THE THREE-MAP ORACLE ACCEPTS EVERY RUN OF THE THREE-MAP MODEL (repaired order): replay3_ok with the maglev part on -
   consistent and mg_consistent after each single write to any of the three maps - is true of every schedule
   exec_apply3 accepts, from any good state (consistent, maglev-consistent, no duplicate keys, counts below
   COUNT_LIMIT; e.g. empty maps), and the Apply leads to a good state again. *)
Theorem c42_model_meets_replay_three_maps : forall cfg lut lutf sy d st v fF fB tr sy' d' err,
  lut <= COUNT_LIMIT -> dp3_good lut d -> st_bounded st ->
  exec_apply3 cfg true lut lutf sy d st v fF fB tr = Some (sy', d', err) ->
  replay3_ok true lut d tr = true /\ dp3_good lut d'.
Proof. exact model3_meets_replay. Qed.
Print Assumptions c42_model_meets_replay_three_maps.
