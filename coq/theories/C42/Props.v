(* C42 — property theorems only.  Each is closed by `exact <lemma>` and followed by Print Assumptions. *)
From Coq Require Import List NArith Bool Arith.
From Verif.C42 Require Import Model Spec Proofs ProofsApply.
Import ListNotations.
Open Scope N_scope.

(* INVARIANT AFTER EACH SINGLE MAP WRITE.  For every history of applies (any services/endpoints, any Go map
   iteration order `v`, any set of failing writes, any schedule `tr` of the single writes inside the phases) and
   restarts, from any Syncer state and any consistent dataplane (e.g. empty maps): every dataplane state passed
   through - one per single write - and the final one is consistent: every frontend's backend count refers only
   to backend entries that exist. *)
Theorem c42_every_write_consistent : forall cfg ops sy d states sy' d',
  consistent (fst d) (snd d) -> run_history cfg sy d ops = Some (states, sy', d') ->
  Forall (fun s => consistent (fst s) (snd s)) states /\ consistent (fst d') (snd d').
Proof. exact history_consistent. Qed.
Print Assumptions c42_every_write_consistent.

(* the same for one Apply, with what the states are: the schedule executed write by write *)
Theorem c42_apply_every_write_consistent : forall cfg sy d st v fF fB tr sy' d' err,
  consistent (fst d) (snd d) -> exec_apply cfg sy d st v fF fB tr = Some (sy', d', err) ->
  Forall (fun s => consistent (fst s) (snd s)) (states_after d tr) /\ d' = do_writes d tr
  /\ consistent (fst d') (snd d').
Proof. exact exec_apply_consistent. Qed.
Print Assumptions c42_apply_every_write_consistent.

(* what the syncer wants to write is itself consistent, whatever ids it chose *)
Theorem c42_desired_consistent : forall npips us, consistent (desired_fe npips us) (desired_be us).
Proof. exact desired_consistent. Qed.
Print Assumptions c42_desired_consistent.

(* A COMPLETED SYNC LEAVES EXACTLY THE DESIRED MAPS (stale frontends and backends removed, nothing missing),
   for every schedule: both maps agree key by key with the maps computed from the services. *)
Theorem c42_completed_sync_is_desired : forall cfg sy d st v fF fB tr sy' d',
  consistent (fst d) (snd d) -> exec_apply cfg sy d st v fF fB tr = Some (sy', d', false) ->
  exists next us,
    visit_all (sy_prev (if sy_synced sy then sy else startup (c_reset cfg) (c_npips cfg) sy (fst d) st))
              (sy_next (if sy_synced sy then sy else startup (c_reset cfg) (c_npips cfg) sy (fst d) st)) st v = Some (next, us) /\
    (forall k, lookup fkey_eqb (fst d') k = lookup fkey_eqb (desired_fe (c_npips cfg) us) k) /\
    (forall k, lookup pair_eqb (snd d') k = lookup pair_eqb (desired_be us) k).
Proof. exact completed_apply_is_desired. Qed.
Print Assumptions c42_completed_sync_is_desired.

(* Non-vacuity: a concrete history (service with node port, external and LB IP; endpoints change; an apply whose
   writes fail from the 4th on; restart; shrink) runs in the model and passes through 13 states. *)
Definition ex_s0 := Svc 0 174063617 80 6 30001 [587202561] [603979777] true false 0 false.
Definition ex_e1 := Ep 167837953 8000 true false 3232235522.
Definition ex_e2 := Ep 167837697 8000 true true 0.
Example c42_example_history :
  exists states sy' d',
    run_history (Config [3232235521; 4294967295] false) new_syncer ([], [])
      [ MApply [(ex_s0, [ex_e1; ex_e2])] [(0, [])] [] []
          [WSetB (0,1) (167837953,8000); WSetB (0,0) (167837697,8000);
           WSetF (FK 4294967295 30001 6) (FV 0 2 1 0 1); WSetF (FK 174063617 80 6) (FV 0 2 1 0 0);
           WSetF (FK 603979777 80 6) (FV 0 2 1 0 1); WSetF (FK 587202561 80 6) (FV 0 2 1 0 0);
           WSetF (FK 3232235521 30001 6) (FV 0 2 1 0 1)];
        MApply [(ex_s0, [ex_e2])] [(0, [])] [FK 587202561 80 6] []
          [WSetF (FK 174063617 80 6) (FV 0 1 1 0 0); WSetF (FK 3232235521 30001 6) (FV 0 1 1 0 1);
           WSetF (FK 603979777 80 6) (FV 0 1 1 0 1); WSetF (FK 4294967295 30001 6) (FV 0 1 1 0 1)];
        MRestart;
        MApply [(ex_s0, [ex_e2])] [(0, [])] [] []
          [WSetF (FK 587202561 80 6) (FV 0 1 1 0 0); WDelB (0,1)] ]
    = Some (states, sy', d') /\ length states = 13%nat
    /\ final_exactb [3232235521; 4294967295] [(ex_s0, [ex_e2])] (fst d') (snd d') = true.
Proof. vm_compute. eexists _, _, _. split; [reflexivity|split; reflexivity]. Qed.
