(* C42 — property theorems only. *)
From Coq Require Import List NArith Bool Arith.
From Verif.C42 Require Import Model Spec Proofs.
Import ListNotations.
Open Scope N_scope.

Theorem c42_empty_consistent : consistent [] [].
Proof. exact consistent_empty. Qed.
Print Assumptions c42_empty_consistent.
