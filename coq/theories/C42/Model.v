(* C42 — executable model of felix/bpf/proxy/syncer.go (Syncer.Apply / apply) over the two NAT maps.

   What is modelled (IPv4, no LB source ranges, no topology hints, no excluded CIDRs):
     - the NAT frontend map  (ip,port,proto) -> (id,count,local,affinity,flags)   and
       the NAT backend map   (id,ordinal)    -> (ip,port)         as association lists;
     - Syncer state: nextSvcID, prevSvcMap (only the entries applySvc ever looks at: the primary key of a
       service and its per-remote-node "NodePortRemote" keys), synced;
     - startupSync/startupBuildPrev: ids adopted from the frontends found in the dataplane (matchBpfSvc), ids
       shared by two services dropped, nextSvcID raised;  prevSvcMap is NOT emptied between two startup syncs
       (pinned code); `c_reset` = true models a tree that does empty it;
     - apply(): for each service, in Go map order (explicit parameter `visit`): applySvc (id reuse iff
       ServicePortEqual), updateService (ready local endpoints first, then ready remote ones), derived
       LoadBalancer / ExternalIP / NodePort frontends, per-remote-node NodePort frontends when
       internalTrafficPolicy=Local; the desired maps are filled with "last Set wins";
     - the dataplane phases of apply(): frontend deletions, backend updates, (Maglev LUT: not modelled),
       frontend updates, backend deletions.  Every phase is a set of single writes executed in an arbitrary
       order (explicit parameter: the schedule `tr`); every single write may fail (explicit parameter: the
       failing keys); a phase with a failed write finishes its other writes and then aborts the apply
       (cachingmap.ApplyUpdatesOnly / ApplyDeletionsOnly collect errors and go on);
     - restart: a new Syncer over the same maps.
   No proofs in this file. *)
From Coq Require Import List NArith Bool Arith.
Import ListNotations.
Open Scope N_scope.

(* ------------------------------------------------------------------ association lists *)
Section AL.
  Variables K V : Type.
  Variable eqb : K -> K -> bool.
  Fixpoint lookup (m : list (K * V)) (k : K) : option V :=
    match m with
    | [] => None
    | (k', v) :: m' => if eqb k k' then Some v else lookup m' k
    end.
  Fixpoint del (k : K) (m : list (K * V)) : list (K * V) :=
    match m with
    | [] => []
    | (k', v) :: m' => if eqb k k' then del k m' else (k', v) :: del k m'
    end.
  Definition upd (k : K) (v : V) (m : list (K * V)) : list (K * V) := (k, v) :: del k m.
  (* "last Set wins" *)
  Definition of_list (l : list (K * V)) : list (K * V) :=
    fold_left (fun m kv => upd (fst kv) (snd kv) m) l [].
End AL.
Arguments lookup {K V}.
Arguments del {K V}.
Arguments upd {K V}.
Arguments of_list {K V}.

Definition is_some {A} (o : option A) : bool := match o with Some _ => true | None => false end.
Fixpoint memb {A} (eqb : A -> A -> bool) (x : A) (l : list A) : bool :=
  match l with [] => false | y :: t => eqb x y || memb eqb x t end.
Fixpoint nodupb {A} (eqb : A -> A -> bool) (l : list A) : bool :=
  match l with [] => true | y :: t => negb (memb eqb y t) && nodupb eqb t end.
(* l1 is a permutation of l2, when l2 has no duplicates *)
Definition perm_of {A} (eqb : A -> A -> bool) (l1 l2 : list A) : bool :=
  Nat.eqb (length l1) (length l2) && nodupb eqb l1 && forallb (fun x => memb eqb x l2) l1.
Fixpoint dedup {A} (eqb : A -> A -> bool) (l : list A) : list A :=
  match l with [] => [] | y :: t => if memb eqb y t then dedup eqb t else y :: dedup eqb t end.

(* ------------------------------------------------------------------ the two maps *)
Record fkey := FK { fk_ip : N; fk_port : N; fk_proto : N }.
Record fval := FV { fv_id : N; fv_count : N; fv_local : N; fv_aff : N; fv_flags : N }.
Definition bkey := (N * N)%type.   (* service id, ordinal *)
Definition bval := (N * N)%type.   (* ip, port *)

Definition fkey_eqb (a b : fkey) : bool :=
  (fk_ip a =? fk_ip b) && (fk_port a =? fk_port b) && (fk_proto a =? fk_proto b).
Definition fval_eqb (a b : fval) : bool :=
  (fv_id a =? fv_id b) && (fv_count a =? fv_count b) && (fv_local a =? fv_local b)
  && (fv_aff a =? fv_aff b) && (fv_flags a =? fv_flags b).
Definition pair_eqb (a b : N * N) : bool := (fst a =? fst b) && (snd a =? snd b).

Definition femap := list (fkey * fval).
Definition bemap := list (bkey * bval).
Definition dp := (femap * bemap)%type.

Inductive write :=
| WSetF (k : fkey) (v : fval)
| WDelF (k : fkey)
| WSetB (k : bkey) (v : bval)
| WDelB (k : bkey).

Definition write_eqb (a b : write) : bool :=
  match a, b with
  | WSetF k v, WSetF k' v' => fkey_eqb k k' && fval_eqb v v'
  | WDelF k, WDelF k' => fkey_eqb k k'
  | WSetB k v, WSetB k' v' => pair_eqb k k' && pair_eqb v v'
  | WDelB k, WDelB k' => pair_eqb k k'
  | _, _ => false
  end.

Definition do_write (d : dp) (w : write) : dp :=
  match w with
  | WSetF k v => (upd fkey_eqb k v (fst d), snd d)
  | WDelF k => (del fkey_eqb k (fst d), snd d)
  | WSetB k v => (fst d, upd pair_eqb k v (snd d))
  | WDelB k => (fst d, del pair_eqb k (snd d))
  end.
Definition do_writes (d : dp) (ws : list write) : dp := fold_left do_write ws d.

(* ------------------------------------------------------------------ inputs *)
Record svc := Svc {
  s_name : N; s_cip : N; s_port : N; s_proto : N; s_np : N;
  s_ext : list N; s_lb : list N;
  s_extlocal : bool; s_intlocal : bool; s_sticky : N; s_maglev : bool;
  s_exclude : bool (* annotation projectcalico.org/natExcludeService *) }.
(* e_node: next hop of the route to the endpoint when it is a workload on another node, 0 otherwise *)
Record ep := Ep { e_ip : N; e_port : N; e_ready : bool; e_local : bool; e_node : N }.
Definition state := list (svc * list ep).

Definition podNP : N := 4294967295.
Definition FLG_EXT_LOCAL : N := 1.
Definition FLG_INT_LOCAL : N := 2.
Definition FLG_MAGLEV : N := 8.
Definition FLG_EXCLUDE : N := 4.
Definition flag (b : bool) (f : N) : N := if b then f else 0.

(* cidrEqual of syncer.go *)
Definition ips_equal (a b : list N) : bool :=
  Nat.eqb (length a) (length b) &&
  match a, b with
  | [x], [y] => x =? y
  | _, _ => forallb (fun y => memb N.eqb y a) b
  end.
(* ServicePortEqual of syncer.go (annotations, e.g. maglev, are not compared) *)
Definition svc_equal (a b : svc) : bool :=
  (s_cip a =? s_cip b) && (s_port a =? s_port b) && (s_sticky a =? s_sticky b)
  && ips_equal (s_ext a) (s_ext b) && ips_equal (s_lb a) (s_lb b)
  && (s_proto a =? s_proto b) && (s_np a =? s_np b)
  && Bool.eqb (s_extlocal a) (s_extlocal b) && Bool.eqb (s_intlocal a) (s_intlocal b).

(* ------------------------------------------------------------------ desired state *)
(* one applySvc call: the primary key of a service (u_node = 0) or a per-remote-node NodePort key *)
Record unit_ := U { u_name : N; u_node : N; u_id : N; u_svc : svc; u_eps : list ep }.

Definition ready_local (eps : list ep) := filter (fun e => e_local e && e_ready e) eps.
Definition ready_remote (eps : list ep) := filter (fun e => negb (e_local e) && e_ready e) eps.
Definition ordered (eps : list ep) := ready_local eps ++ ready_remote eps.
Fixpoint number {A} (i : N) (l : list A) : list (N * A) :=
  match l with [] => [] | x :: t => (i, x) :: number (i + 1) t end.
Definition ep_addr (e : ep) : bval := (e_ip e, e_port e).
Definition u_count (u : unit_) : N := N.of_nat (length (ordered (u_eps u))).
Definition u_local (u : unit_) : N := N.of_nat (length (ready_local (u_eps u))).

Definition unit_backends (u : unit_) : list (bkey * bval) :=
  map (fun p => ((u_id u, fst p), ep_addr (snd p))) (number 0 (ordered (u_eps u))).

Definition mkfv (u : unit_) (flags : N) : fval :=
  FV (u_id u) (u_count u) (u_local u) (s_sticky (u_svc u)) flags.

Definition unit_frontends (npips : list N) (u : unit_) : list (fkey * fval) :=
  let s := u_svc u in
  let xf := flag (s_exclude s) FLG_EXCLUDE in   (* writeSvc: every frontend of an excluded service *)
  let main := (FK (s_cip s) (s_port s) (s_proto s),
               mkfv u (flag (s_intlocal s) FLG_INT_LOCAL
                       + flag (s_maglev s && negb (u_count u =? 0)) FLG_MAGLEV + xf)) in
  if negb (u_node u =? 0) then [main]
  else
    main
    :: map (fun a => (FK a (s_port s) (s_proto s),
                      mkfv u (flag (s_maglev s) FLG_MAGLEV + flag (s_extlocal s) FLG_EXT_LOCAL
                              + flag (s_intlocal s) FLG_INT_LOCAL + xf))) (s_lb s)
    ++ map (fun a => (FK a (s_port s) (s_proto s), mkfv u (flag (s_maglev s) FLG_MAGLEV + xf))) (s_ext s)
    ++ (if s_np s =? 0 then []
        else map (fun a => (FK a (s_np s) (s_proto s),
                            mkfv u (flag (s_extlocal s) FLG_EXT_LOCAL + flag (s_intlocal s) FLG_INT_LOCAL + xf)))
                 (filter (fun a => negb (s_intlocal s && (a =? podNP))) npips)).

(* Maglev lookup table of a service: written for the service itself when it carries the maglev
   annotation (per-remote-node units never do: remote_svc clears it) and has a ready endpoint; `lutf` is the consistent-hash table (felix/bpf/consistenthash,
   property C33) as an explicit parameter: ready endpoints -> ordinal -> backend *)
Definition nrange (n : N) : list N := map N.of_nat (seq 0 (N.to_nat n)).
Definition unit_maglev (lut : N) (lutf : list ep -> N -> bval) (u : unit_) : list (bkey * bval) :=
  if s_maglev (u_svc u) && negb (u_count u =? 0)
  then map (fun j => ((u_id u, j), lutf (filter e_ready (u_eps u)) j)) (nrange lut)
  else [].
Definition desired_mg (lut : N) (lutf : list ep -> N -> bval) (us : list unit_) : bemap :=
  of_list pair_eqb (flat_map (unit_maglev lut lutf) us).

(* ------------------------------------------------------------------ Syncer state, id assignment *)
Definition pkey := (N * N)%type.   (* service name, node (0 = the service itself) *)
Definition prevmap := list (pkey * (N * svc)).
Record syncer := SY { sy_next : N; sy_prev : prevmap; sy_synced : bool }.
Definition new_syncer : syncer := SY 0 [] false.

(* applySvc: reuse the previous id iff the service is unchanged, else newSvcID() *)
Definition pick_id (prev : prevmap) (next : N) (pk : pkey) (s : svc) : N * N :=
  match lookup pair_eqb prev pk with
  | Some (id, old) => if svc_equal old s then (id, next) else (next, next + 1)
  | None => (next, next + 1)
  end.

(* remote nodes that host endpoints of the service (expandNodePorts; ready or not) *)
Definition remote_nodes (eps : list ep) : list N :=
  dedup N.eqb (map e_node (filter (fun e => negb (e_node e =? 0)) eps)).
(* the ServicePort handed to applySvc for a remote node: cluster IP := node, port := node port *)
Definition remote_svc (s : svc) (node : N) : svc :=
  Svc (s_name s) node (s_np s) (s_proto s) (s_np s) (s_ext s) (s_lb s) (s_extlocal s) (s_intlocal s) (s_sticky s) false (s_exclude s).

Fixpoint visit_nodes (prev : prevmap) (next : N) (s : svc) (eps : list ep) (nodes : list N)
  : N * list unit_ :=
  match nodes with
  | [] => (next, [])
  | n :: t =>
      let si := remote_svc s n in
      let '(id, next1) := pick_id prev next (s_name s, n) si in
      let '(next2, us) := visit_nodes prev next1 s eps t in
      (next2, U (s_name s) n id si (filter (fun e => e_node e =? n) eps) :: us)
  end.

Definition wants_remote (s : svc) : bool := s_intlocal s && negb (s_np s =? 0).

Definition visit_svc (prev : prevmap) (next : N) (s : svc) (eps : list ep) (nodes : list N)
  : N * list unit_ :=
  let '(id, next1) := pick_id prev next (s_name s, 0) s in
  let '(next2, us) := visit_nodes prev next1 s eps (if wants_remote s then nodes else []) in
  (next2, U (s_name s) 0 id s eps :: us).

Definition find_svc (st : state) (name : N) : option (svc * list ep) :=
  find (fun se => s_name (fst se) =? name) st.

Definition visit := list (N * list N).

Fixpoint visit_all (prev : prevmap) (next : N) (st : state) (v : visit) : option (N * list unit_) :=
  match v with
  | [] => Some (next, [])
  | (name, nodes) :: t =>
      match find_svc st name with
      | None => None
      | Some (s, eps) =>
          if negb (perm_of N.eqb nodes (if wants_remote s then remote_nodes eps else [])) then None else
          let '(next1, us) := visit_svc prev next s eps nodes in
          match visit_all prev next1 st t with
          | None => None
          | Some (next2, us') => Some (next2, us ++ us')
          end
      end
  end.

Definition visit_valid (st : state) (v : visit) : bool :=
  perm_of N.eqb (map fst v) (map (fun se => s_name (fst se)) st)
  && nodupb N.eqb (map (fun se => s_name (fst se)) st).

Definition desired_fe (npips : list N) (us : list unit_) : femap :=
  of_list fkey_eqb (flat_map (unit_frontends npips) us).
Definition desired_be (us : list unit_) : bemap :=
  of_list pair_eqb (flat_map unit_backends us).
Definition new_prev (us : list unit_) : prevmap :=
  of_list pair_eqb (map (fun u => ((u_name u, u_node u), (u_id u, u_svc u))) us).

(* ------------------------------------------------------------------ startupBuildPrev *)
(* the frontend keys of a service that svcMapToIPPortProtoMap + matchBpfSvc resolve *)
Definition startup_keys (npips : list N) (s : svc) : list (fkey * bool) :=
  (FK (s_cip s) (s_port s) (s_proto s), true)
  :: (if s_np s =? 0 then [] else map (fun a => (FK a (s_np s) (s_proto s), false)) npips)
  ++ map (fun a => (FK a (s_port s) (s_proto s), false)) (s_ext s).

(* (service, id found in the dataplane, is the primary key) *)
Definition matched (npips : list N) (fe : femap) (st : state) : list (svc * N * bool) :=
  flat_map (fun se =>
    flat_map (fun kb => match lookup fkey_eqb fe (fst kb) with
                        | Some v => [(fst se, fv_id v, snd kb)]
                        | None => [] end)
             (startup_keys npips (fst se))) st.

Definition dup_id (m : list (svc * N * bool)) (id : N) (name : N) : bool :=
  existsb (fun x => (snd (fst x) =? id) && negb (s_name (fst (fst x)) =? name)) m.

Definition startup (reset : bool) (npips : list N) (sy : syncer) (fe : femap) (st : state) : syncer :=
  let m := matched npips fe st in
  let next := fold_left (fun n x => N.max n (snd (fst x) + 1)) m (sy_next sy) in
  let prev0 := if reset then [] else sy_prev sy in
  let prev := fold_left (fun p x =>
                let '(s, id, primary) := x in
                if primary && negb (dup_id m id (s_name s)) then upd pair_eqb (s_name s, 0) (id, s) p else p)
              m prev0 in
  SY next prev false.

(* ------------------------------------------------------------------ the dataplane phases *)
Definition phase_del_fe (dfe fe : femap) : list write :=
  flat_map (fun kv => if is_some (lookup fkey_eqb dfe (fst kv)) then [] else [WDelF (fst kv)]) fe.
Definition phase_set_be (dbe be : bemap) : list write :=
  flat_map (fun kv => match lookup pair_eqb be (fst kv) with
                      | Some v => if pair_eqb v (snd kv) then [] else [WSetB (fst kv) (snd kv)]
                      | None => [WSetB (fst kv) (snd kv)] end) dbe.
Definition phase_set_fe (dfe fe : femap) : list write :=
  flat_map (fun kv => match lookup fkey_eqb fe (fst kv) with
                      | Some v => if fval_eqb v (snd kv) then [] else [WSetF (fst kv) (snd kv)]
                      | None => [WSetF (fst kv) (snd kv)] end) dfe.
Definition phase_del_be (dbe be : bemap) : list write :=
  flat_map (fun kv => if is_some (lookup pair_eqb dbe (fst kv)) then [] else [WDelB (fst kv)]) be.

Definition write_fails (failF : list fkey) (failB : list bkey) (w : write) : bool :=
  match w with
  | WSetF k _ | WDelF k => memb fkey_eqb k failF
  | WSetB k _ | WDelB k => memb pair_eqb k failB
  end.

(* one phase: `pending` are the writes the phase attempts; those that do not fail are executed in the order
   given by the schedule `tr` (which must be a permutation of them).  Result: dataplane after the phase, whether
   a write failed, and the rest of the schedule. *)
Definition run_phase (failF : list fkey) (failB : list bkey) (pending : list write) (d : dp) (tr : list write)
  : option (dp * bool * list write) :=
  let good := filter (fun w => negb (write_fails failF failB w)) pending in
  let failed := existsb (write_fails failF failB) pending in
  let n := length good in
  let seg := firstn n tr in
  if perm_of write_eqb seg good then Some (do_writes d seg, failed, skipn n tr) else None.

Record config := Config { c_npips : list N; c_reset : bool }.

(* the four dataplane phases of apply(); result: dataplane afterwards and "some write failed" *)
Definition run_phases (failF : list fkey) (failB : list bkey) (dfe : femap) (dbe : bemap) (d : dp) (tr : list write)
  : option (dp * bool) :=
  let fin (r : dp * bool) (rest : list write) := match rest with [] => Some r | _ => None end in
  match run_phase failF failB (phase_del_fe dfe (fst d)) d tr with
  | None => None
  | Some (d2, true, rest) => fin (d2, true) rest
  | Some (d2, false, rest) =>
  match run_phase failF failB (phase_set_be dbe (snd d2)) d2 rest with
  | None => None
  | Some (d3, true, rest) => fin (d3, true) rest
  | Some (d3, false, rest) =>
  match run_phase failF failB (phase_set_fe dfe (fst d3)) d3 rest with
  | None => None
  | Some (d5, true, rest) => fin (d5, true) rest
  | Some (d5, false, rest) =>
  match run_phase failF failB (phase_del_be dbe (snd d5)) d5 rest with
  | None => None
  | Some (d6, failed, rest) => fin (d6, failed) rest
  end end end end.

(* Syncer.Apply.  Result: new Syncer state, new dataplane, "Apply returned an error". *)
Definition exec_apply (cfg : config) (sy : syncer) (d : dp) (st : state) (v : visit)
           (failF : list fkey) (failB : list bkey) (tr : list write)
  : option (syncer * dp * bool) :=
  if negb (visit_valid st v) then None else
  let sy0 := if sy_synced sy then sy else startup (c_reset cfg) (c_npips cfg) sy (fst d) st in
  match visit_all (sy_prev sy0) (sy_next sy0) st v with
  | None => None
  | Some (next, us) =>
      let sy_fail := SY next (if sy_synced sy then new_prev us else sy_prev sy0) (sy_synced sy) in
      let sy_ok := SY next (new_prev us) true in
      match run_phases failF failB (desired_fe (c_npips cfg) us) (desired_be us) d tr with
      | None => None
      | Some (d', err) => Some (if err then sy_fail else sy_ok, d', err)
      end
  end.

(* ------------------------------------------------------------------ histories *)
(* all dataplane states passed through while executing a write sequence (one per single write) *)
Fixpoint states_after (d : dp) (ws : list write) : list dp :=
  match ws with
  | [] => []
  | w :: t => let d' := do_write d w in d' :: states_after d' t
  end.

(* a history: applies (state handed to Apply, Go map iteration order, failing keys, schedule of the single
   writes) and restarts of Felix (a new Syncer over the same maps) *)
Inductive mop :=
| MApply (st : state) (v : visit) (failF : list fkey) (failB : list bkey) (tr : list write)
| MRestart.

(* result: every dataplane state passed through, the final Syncer state and dataplane; None when a visit order or
   schedule is not one the code can produce *)
Fixpoint run_history (cfg : config) (sy : syncer) (d : dp) (ops : list mop) : option (list dp * syncer * dp) :=
  match ops with
  | [] => Some ([], sy, d)
  | MRestart :: t => run_history cfg new_syncer d t
  | MApply st v fF fB tr :: t =>
      match exec_apply cfg sy d st v fF fB tr with
      | None => None
      | Some (sy', d', _) =>
          match run_history cfg sy' d' t with
          | None => None
          | Some (l, sy'', d'') => Some (states_after d tr ++ l, sy'', d'')
          end
      end
  end.
