(* C42 — what the property says, independent of how the syncer computes it.

   (1) consistent fe be: every frontend's backend count refers only to backend entries that exist:
         for every frontend (id,count,..) and every ordinal i < count the backend map has (id,i).
       The oracle replays the recorded single writes and evaluates this after EACH of them.
   (2) final_exact: after a completed sync the frontend map has exactly the frontends the services ask for
       (cluster IP, load-balancer IPs, external IPs, node ports on every node-port address, per-remote-node
       node ports when internalTrafficPolicy=Local), each lists exactly the service's ready endpoints, the
       local ones first and counted by `local`, carries the flags that restrict it to the local ones where the
       traffic policy requires it, and the backend map holds nothing that no frontend refers to. *)
From Coq Require Import List NArith Bool Arith.
From Verif.C42 Require Import Model.
Import ListNotations.
Open Scope N_scope.

(* ------------------------------------------------------------------ (1) *)
Definition consistent (fe : femap) (be : bemap) : Prop :=
  forall k v, lookup fkey_eqb fe k = Some v ->
  forall i, i < fv_count v -> lookup pair_eqb be (fv_id v, i) <> None.

Definition COUNT_LIMIT : N := 100000.

(* boolean form, over the entries of the association list (shadowed entries cannot occur in maps built by
   upd/del; the oracle checks every entry anyway) *)
Definition consistentb (fe : femap) (be : bemap) : bool :=
  forallb (fun kv => let v := snd kv in
             (fv_count v <=? COUNT_LIMIT)
             && forallb (fun i => is_some (lookup pair_eqb be (fv_id v, i))) (nrange (fv_count v))) fe.

(* replay of a recorded write sequence; true iff consistent after each single write *)
Fixpoint replay_ok (d : dp) (ws : list write) : bool :=
  match ws with
  | [] => true
  | w :: t => let d' := do_write d w in consistentb (fst d') (snd d') && replay_ok d' t
  end.

(* ------------------------------------------------------------------ (2) *)
Inductive kind := KCluster | KLB | KExt | KNodePort | KRemote (node : N).

(* the frontends a service asks for *)
Definition spec_frontends (npips : list N) (s : svc) (eps : list ep) : list (fkey * kind) :=
  (FK (s_cip s) (s_port s) (s_proto s), KCluster)
  :: map (fun a => (FK a (s_port s) (s_proto s), KLB)) (s_lb s)
  ++ map (fun a => (FK a (s_port s) (s_proto s), KExt)) (s_ext s)
  ++ (if s_np s =? 0 then [] else
        map (fun a => (FK a (s_np s) (s_proto s), KNodePort))
            (filter (fun a => negb (s_intlocal s && (a =? podNP))) npips)
        ++ (if s_intlocal s
            then map (fun n => (FK n (s_np s) (s_proto s), KRemote n))
                     (dedup N.eqb (map e_node (filter (fun e => negb (e_node e =? 0)) eps)))
            else [])).

(* the endpoints a frontend must list *)
Definition wanted (k : kind) (eps : list ep) : list ep :=
  filter e_ready (match k with KRemote n => filter (fun e => e_node e =? n) eps | _ => eps end).

(* multiset equality of address lists *)
Fixpoint remove1 (x : bval) (l : list bval) : option (list bval) :=
  match l with
  | [] => None
  | y :: t => if pair_eqb x y then Some t else option_map (cons y) (remove1 x t)
  end.
Fixpoint same_addrs (a b : list bval) : bool :=
  match a with
  | [] => match b with [] => true | _ => false end
  | x :: t => match remove1 x b with Some b' => same_addrs t b' | None => false end
  end.

Definition has_flag (flags f : N) : bool := negb (N.land flags f =? 0).

(* does the traffic policy require this frontend to be restricted to local endpoints for traffic from outside
   the cluster / from inside?  None = the property does not say *)
Definition ext_local_required (k : kind) (s : svc) : option bool :=
  match k with
  | KCluster => Some false
  | KLB | KNodePort => Some (s_extlocal s)
  | KExt => None
  | KRemote _ => None
  end.
Definition int_local_required (k : kind) (s : svc) : option bool :=
  match k with
  | KCluster => Some (s_intlocal s)
  | _ => None
  end.
Definition flag_ok (req : option bool) (flags f : N) : bool :=
  match req with Some b => Bool.eqb (has_flag flags f) b | None => true end.

Definition frontend_ok (be : bemap) (s : svc) (eps : list ep) (k : kind) (v : fval) : bool :=
  let w := wanted k eps in
  (fv_count v <=? COUNT_LIMIT)
  && (fv_count v =? N.of_nat (length w))
  && (fv_local v =? N.of_nat (length (filter e_local w)))
  && (let listed := map (fun i => lookup pair_eqb be (fv_id v, i)) (nrange (fv_count v)) in
      forallb is_some listed
      && (let addrs := flat_map (fun o => match o with Some a => [a] | None => [] end) listed in
          same_addrs addrs (map ep_addr w)
          && same_addrs (firstn (N.to_nat (fv_local v)) addrs) (map ep_addr (filter e_local w))))
  && (fv_aff v =? s_sticky s)
  && flag_ok (ext_local_required k s) (fv_flags v) FLG_EXT_LOCAL
  && flag_ok (int_local_required k s) (fv_flags v) FLG_INT_LOCAL
  && (negb (has_flag (fv_flags v) FLG_MAGLEV) || s_maglev s)
  && Bool.eqb (has_flag (fv_flags v) FLG_EXCLUDE) (s_exclude s).

Definition all_spec_frontends (npips : list N) (st : state) : list (fkey * (kind * (svc * list ep))) :=
  flat_map (fun se => map (fun kk => (fst kk, (snd kk, se))) (spec_frontends npips (fst se) (snd se))) st.

(* the property speaks about states in which no two services claim the same frontend *)
Definition state_wf (npips : list N) (st : state) : bool :=
  nodupb fkey_eqb (map fst (all_spec_frontends npips st))
  && forallb (fun se => nodupb pair_eqb (map ep_addr (snd se))) st.

Definition final_exactb (npips : list N) (st : state) (fe : femap) (be : bemap) : bool :=
  let want := all_spec_frontends npips st in
  (* every wanted frontend is there and lists the right endpoints *)
  forallb (fun x => match lookup fkey_eqb fe (fst x) with
                    | Some v => frontend_ok be (fst (snd (snd x))) (snd (snd (snd x))) (fst (snd x)) v
                    | None => false end) want
  (* no stale frontend *)
  && forallb (fun kv => memb fkey_eqb (fst kv) (map fst want)) fe
  && nodupb fkey_eqb (map fst fe)
  (* no stale backend *)
  && forallb (fun kv => existsb (fun fv => (fv_id (snd fv) =? fst (fst kv)) && (snd (fst kv) <? fv_count (snd fv))) fe) be
  && nodupb pair_eqb (map fst be).

(* Maglev LUT map, observed at sync end only: rows (service id, number of entries, addresses used) *)
Definition mgobs := list (N * N * list bval).
Definition maglev_okb (lut : N) (npips : list N) (st : state) (fe : femap) (mg : mgobs) : bool :=
  let want := all_spec_frontends npips st in
  (* a frontend flagged maglev with endpoints has a complete table over the service's ready endpoints *)
  forallb (fun x => match lookup fkey_eqb fe (fst x) with
                    | Some v =>
                        if has_flag (fv_flags v) FLG_MAGLEV && negb (fv_count v =? 0) then
                          existsb (fun row => (fst (fst row) =? fv_id v) && (snd (fst row) =? lut)
                                              && forallb (fun a => memb pair_eqb a (map ep_addr (wanted (fst (snd x)) (snd (snd (snd x)))))) (snd row)) mg
                        else true
                    | None => true end) want
  (* no table for an id no maglev frontend uses *)
  && forallb (fun row => existsb (fun kv => (fv_id (snd kv) =? fst (fst row)) && has_flag (fv_flags (snd kv)) FLG_MAGLEV) fe) mg.

(* ------------------------------------------------------------------ (3) Maglev LUT map, mid-update *)
(* A frontend flagged maglev sends every packet through the LUT map (id, hash mod lut) and the packet is DROPPED when
   the entry is missing (tc.c calico_tc_maglev, CALI_REASON_MAGLEV_NO_BACKEND).  So the analogue of `consistent`:
   every frontend flagged maglev that has backends finds all `lut` entries of its id.  It is `consistent` for the
   view of the frontend map in which a flagged frontend "counts" lut entries and any other frontend none. *)
Definition mg_count (lut : N) (v : fval) : N :=
  if has_flag (fv_flags v) FLG_MAGLEV && negb (fv_count v =? 0) then lut else 0.
Definition mgview (lut : N) (fe : femap) : femap :=
  map (fun kv => (fst kv, FV (fv_id (snd kv)) (mg_count lut (snd kv)) 0 0 0)) fe.
Definition mg_consistent (lut : N) (fe : femap) (mg : bemap) : Prop := consistent (mgview lut fe) mg.
Definition mg_consistentb (lut : N) (fe : femap) (mg : bemap) : bool := consistentb (mgview lut fe) mg.

(* recorded writes: to the two NAT maps, or to the Maglev LUT map *)
Inductive xwrite := XW (w : write) | XSetM (k : bkey) (v : bval) | XDelM (k : bkey).
Definition dp3 := (dp * bemap)%type.
Definition do_xwrite (d : dp3) (x : xwrite) : dp3 :=
  match x with
  | XW w => (do_write (fst d) w, snd d)
  | XSetM k v => (fst d, upd pair_eqb k v (snd d))
  | XDelM k => (fst d, del pair_eqb k (snd d))
  end.
Definition do_xwrites (d : dp3) (xs : list xwrite) : dp3 := fold_left do_xwrite xs d.
Definition core_writes (xs : list xwrite) : list write :=
  flat_map (fun x => match x with XW w => [w] | _ => [] end) xs.

(* replay of everything recorded; after EACH single write: consistent, and (mgcheck) mg_consistent *)
Fixpoint replay3_ok (mgcheck : bool) (lut : N) (d : dp3) (xs : list xwrite) : bool :=
  match xs with
  | [] => true
  | x :: t => let d' := do_xwrite d x in
              consistentb (fst (fst d')) (snd (fst d'))
              && (negb mgcheck || mg_consistentb lut (fst (fst d')) (snd d'))
              && replay3_ok mgcheck lut d' t
  end.

(* ------------------------------------------------------------------ correspondence cases *)
Inductive op :=
| OApply (st : state) (v : visit) (failF : list fkey) (failB : list bkey)
         (trace : list xwrite) (err : bool) (fe_after : femap) (be_after : bemap) (mg : mgobs)
         (tabs : list (list bval * list bval)) (mg_after : bemap)
| ORestart
| OSetNext (n : N).   (* the id counter is put at n (where a long-running Felix would have it) *)

(* k_mgcheck = false: the maglev mid-update part of the oracle is off (the driver emits such a copy of a history in
   which it saw that part fail, so that the rest of the oracle is still applied to it) *)
Record case := Case { k_npips : list N; k_reset : bool; k_mgfix : bool; k_lut : N; k_mgcheck : bool; k_ops : list op }.

Definition femap_eqb (a b : femap) : bool :=
  forallb (fun kv => match lookup fkey_eqb b (fst kv) with Some v => fval_eqb v (snd kv) | None => false end) a
  && forallb (fun kv => is_some (lookup fkey_eqb a (fst kv))) b.
Definition bemap_eqb (a b : bemap) : bool :=
  forallb (fun kv => match lookup pair_eqb b (fst kv) with Some v => pair_eqb v (snd kv) | None => false end) a
  && forallb (fun kv => is_some (lookup pair_eqb a (fst kv))) b.

(* model side: run the model over the history with the implementation's schedule (its writes to the two NAT maps);
   compare error flag and maps *)
Fixpoint model_agrees (cfg : config) (sy : syncer) (d : dp) (ops : list op) : bool :=
  match ops with
  | [] => true
  | ORestart :: t => model_agrees cfg new_syncer d t
  | OSetNext n :: t => model_agrees cfg (SY n (sy_prev sy) (sy_synced sy)) d t
  | OApply st v fF fB tr err fe be _ _ _ :: t =>
      match exec_apply cfg sy d st v fF fB (core_writes tr) with
      | None => false
      | Some (sy', d', err') =>
          Bool.eqb err err' && femap_eqb (fst d') fe && bemap_eqb (snd d') be
          && model_agrees cfg sy' d' t
      end
  end.

(* spec side: only the implementation's observables (the recorded single writes, the maps read back after the
   apply, the error flag) and the inputs *)
Fixpoint oracle (mgcheck : bool) (npips : list N) (lut : N) (d : dp3) (ops : list op) : bool :=
  match ops with
  | [] => true
  | ORestart :: t => oracle mgcheck npips lut d t
  | OSetNext _ :: t => oracle mgcheck npips lut d t
  | OApply st _ _ _ tr err fe be mg _ mga :: t =>
      let d' := do_xwrites d tr in
      replay3_ok mgcheck lut d tr
      && femap_eqb (fst (fst d')) fe && bemap_eqb (snd (fst d')) be && bemap_eqb (snd d') mga   (* the recorder saw every write *)
      && (err || negb (state_wf npips st)
          || (final_exactb npips st fe be && maglev_okb lut npips st fe mg))
      && oracle mgcheck npips lut ((fe, be), mga) t
  end.

Definition check_case (c : case) : bool * bool :=
  (model_agrees (Config (k_npips c) (k_reset c)) new_syncer ([], []) (k_ops c),
   oracle (k_mgcheck c) (k_npips c) (k_lut c) (([], []), []) (k_ops c)).
