(* C42 — proofs, part 9: the boolean oracles run on the implementation's observables are sound (and, on maps without
   duplicate keys and counts below COUNT_LIMIT, complete) for the Prop-level specification; the model meets them. *)
From Coq Require Import List NArith Bool Arith Lia Permutation.
From Verif.C42 Require Import Model Spec Proofs ProofsApply ProofsFinal ProofsIds ProofsSpec ProofsPin ProofsMaglev ProofsSched ModelMg.
Import ListNotations.
Open Scope N_scope.

(* ------------------------------------------------------------------ consistentb / replay *)
Lemma consistentb_sound : forall fe be, consistentb fe be = true -> consistent fe be.
Proof.
  intros fe be H k v Hl i Hi. unfold consistentb in H. rewrite forallb_forall in H.
  apply (lookup_In _ _ fkey_eqb fkey_eqb_spec) in Hl. apply H in Hl. simpl in Hl.
  apply andb_true_iff in Hl. destruct Hl as [_ Hl]. rewrite forallb_forall in Hl.
  specialize (Hl i (nrange_in _ _ Hi)). destruct (lookup pair_eqb be (fv_id v, i)); [discriminate|discriminate].
Qed.

Lemma in_nrange : forall n i, In i (nrange n) -> i < n.
Proof.
  intros n i H. unfold nrange in H. apply in_map_iff in H. destruct H as [j [<- Hj]]. apply in_seq in Hj. lia.
Qed.

Lemma consistentb_complete : forall fe be,
  consistent fe be -> ukeys fe -> (forall k v, In (k, v) fe -> fv_count v <= COUNT_LIMIT) -> consistentb fe be = true.
Proof.
  intros fe be C U B. unfold consistentb. apply forallb_forall. intros [k v] Hin. simpl.
  apply andb_true_iff. split; [apply N.leb_le; eauto|].
  apply forallb_forall. intros i Hi. apply in_nrange in Hi.
  pose proof (ukeys_In_lookup _ _ fkey_eqb fkey_eqb_spec _ _ _ U Hin) as L.
  specialize (C k v L i Hi). destruct (lookup pair_eqb be (fv_id v, i)); [reflexivity|congruence].
Qed.

Lemma replay_ok_sound : forall ws d, replay_ok d ws = true ->
  Forall (fun s => consistent (fst s) (snd s)) (states_after d ws).
Proof.
  induction ws as [|w ws IH]; intros d H; simpl in *; [constructor|].
  apply andb_true_iff in H. destruct H as [H1 H2]. constructor; [apply consistentb_sound; auto|auto].
Qed.

(* all three maps (states3_after: ModelMg) *)

Lemma replay3_ok_sound : forall mgcheck lut xs d, replay3_ok mgcheck lut d xs = true ->
  Forall (fun s => consistent (fst (fst s)) (snd (fst s))
                   /\ (mgcheck = true -> mg_consistent lut (fst (fst s)) (snd s))) (states3_after d xs).
Proof.
  induction xs as [|x xs IH]; intros d H; simpl in *; [constructor|].
  apply andb_true_iff in H. destruct H as [H H3]. apply andb_true_iff in H. destruct H as [H1 H2].
  constructor; [|auto]. split; [apply consistentb_sound; auto|].
  intros ->. simpl in H2. apply consistentb_sound. exact H2.
Qed.

(* ------------------------------------------------------------------ the model's runs are accepted by replay_ok *)
Definition fe_bounded (fe : femap) : Prop := forall k v, In (k, v) fe -> fv_count v <= COUNT_LIMIT.
Definition st_bounded (st : state) : Prop := forall s eps, In (s, eps) st -> N.of_nat (length eps) <= COUNT_LIMIT.

Lemma filter_length_le : forall A (p : A -> bool) l, (length (filter p l) <= length l)%nat.
Proof. induction l as [|x l IH]; simpl; auto. destruct (p x); simpl; lia. Qed.

Lemma ordered_length_le : forall eps, (length (ordered eps) <= length eps)%nat.
Proof.
  intros eps. destruct (ordered_spec eps) as [P _]. rewrite (Permutation_length P). apply filter_length_le.
Qed.

Lemma run_phases_setf : forall fF fB dfe dbe d tr d' err,
  run_phases fF fB dfe dbe d tr = Some (d', err) -> forall k v, In (WSetF k v) tr -> In (k, v) dfe.
Proof.
  intros fF fB dfe dbe d tr d' err H k v Hin. unfold run_phases in H.
  assert (X2 : forall fe seg, incl seg (phase_del_fe dfe fe) -> ~ In (WSetF k v) seg).
  { intros fe seg I Hs. apply I in Hs. apply in_phase_del_fe in Hs. destruct Hs as [? [? [E _]]]. discriminate. }
  assert (X3 : forall be seg, incl seg (phase_set_be dbe be) -> ~ In (WSetF k v) seg).
  { intros be seg I Hs. apply I in Hs. apply in_phase_set_be in Hs. destruct Hs as [? [? [E _]]]. discriminate. }
  assert (X6 : forall be seg, incl seg (phase_del_be dbe be) -> ~ In (WSetF k v) seg).
  { intros be seg I Hs. apply I in Hs. apply in_phase_del_be in Hs. destruct Hs as [? [? [E _]]]. discriminate. }
  assert (X5 : forall fe seg, incl seg (phase_set_fe dfe fe) -> In (WSetF k v) seg -> In (k, v) dfe).
  { intros fe seg I Hs. apply I in Hs. apply in_phase_set_fe in Hs. destruct Hs as [k0 [v0 [E [Hd _]]]]. inversion E; subst. auto. }
  destruct (run_phase fF fB (phase_del_fe dfe (fst d)) d tr) as [[[d2 f2] r2]|] eqn:R2; [|discriminate].
  apply run_phase_spec in R2. destruct R2 as [s2 [-> [-> [I2 _]]]].
  apply in_app_or in Hin. destruct Hin as [Hin|Hin]; [exfalso; eapply X2; eauto|].
  destruct f2; [destruct r2; [destruct Hin|discriminate]|].
  destruct (run_phase fF fB (phase_set_be dbe (snd (do_writes d s2))) (do_writes d s2) r2) as [[[d3 f3] r3]|] eqn:R3; [|discriminate].
  apply run_phase_spec in R3. destruct R3 as [s3 [-> [-> [I3 _]]]].
  apply in_app_or in Hin. destruct Hin as [Hin|Hin]; [exfalso; eapply X3; eauto|].
  destruct f3; [destruct r3; [destruct Hin|discriminate]|].
  match type of H with context [run_phase fF fB ?p ?dd r3] => destruct (run_phase fF fB p dd r3) as [[[d5 f5] r5]|] eqn:R5; [|discriminate] end.
  apply run_phase_spec in R5. destruct R5 as [s5 [-> [-> [I5 _]]]].
  apply in_app_or in Hin. destruct Hin as [Hin|Hin]; [eapply X5; eauto|].
  destruct f5; [destruct r5; [destruct Hin|discriminate]|].
  match type of H with context [run_phase fF fB ?p ?dd r5] => destruct (run_phase fF fB p dd r5) as [[[d6 f6] r6]|] eqn:R6; [|discriminate] end.
  apply run_phase_spec in R6. destruct R6 as [s6 [-> [-> [I6 _]]]].
  apply in_app_or in Hin. destruct Hin as [Hin|Hin]; [exfalso; eapply X6; eauto|].
  destruct r6; [destruct Hin|discriminate].
Qed.

Lemma in_upd : forall K V (eqb : K -> K -> bool) (m : list (K * V)) k v x,
  In x (upd eqb k v m) -> x = (k, v) \/ In x m.
Proof. intros K V eqb m k v x [H|H]; [left; auto|]. right. clear -H. induction m as [|[k0 v0] m IH]; simpl in *; auto.
  destruct (eqb k k0); [right; auto|]. destruct H as [H|H]; auto. Qed.
Lemma in_del' : forall K V (eqb : K -> K -> bool) (m : list (K * V)) k x, In x (del eqb k m) -> In x m.
Proof. intros K V eqb m k x H. induction m as [|[k0 v0] m IH]; simpl in *; auto.
  destruct (eqb k k0); [right; auto|]. destruct H as [H|H]; auto. Qed.

Definition dp_good (d : dp) : Prop :=
  consistent (fst d) (snd d) /\ ukeys (fst d) /\ ukeys (snd d) /\ fe_bounded (fst d).

Lemma replay_ok_complete : forall ws d,
  ukeys (fst d) -> ukeys (snd d) -> fe_bounded (fst d) ->
  (forall k v, In (WSetF k v) ws -> fv_count v <= COUNT_LIMIT) ->
  Forall (fun s => consistent (fst s) (snd s)) (states_after d ws) ->
  replay_ok d ws = true /\ ukeys (fst (do_writes d ws)) /\ ukeys (snd (do_writes d ws)) /\ fe_bounded (fst (do_writes d ws)).
Proof.
  induction ws as [|w ws IH]; intros d U1 U2 B Hw HC; simpl in *; auto.
  inversion HC; subst.
  assert (U1' : ukeys (fst (do_write d w)) /\ ukeys (snd (do_write d w))).
  { apply (ukeys_do_writes [w] d); auto. }
  destruct U1' as [U1' U2'].
  assert (B' : fe_bounded (fst (do_write d w))).
  { intros k v Hin. destruct w as [k0 v0|k0|k0 v0|k0]; simpl in Hin.
    - apply in_upd in Hin. destruct Hin as [E|Hin]; [inversion E; subst; eapply Hw; left; reflexivity|eauto].
    - apply in_del' in Hin. eauto.
    - eauto.
    - eauto. }
  destruct (IH (do_write d w) U1' U2' B' (fun k v H => Hw k v (or_intror H)) H2) as [R X].
  split; auto. rewrite R. rewrite consistentb_complete; auto.
Qed.

Lemma desired_fe_bounded : forall cfg prev st v next next' us,
  st_bounded st -> visit_all prev next st v = Some (next', us) ->
  forall k fv, In (k, fv) (desired_fe (c_npips cfg) us) -> fv_count fv <= COUNT_LIMIT.
Proof.
  intros cfg prev st v next next' us SB VA k fv Hin.
  assert (L : lookup fkey_eqb (desired_fe (c_npips cfg) us) k = Some fv).
  { apply (ukeys_In_lookup _ _ fkey_eqb fkey_eqb_spec); auto. apply ukeys_of_list. apply fkey_eqb_spec. }
  apply desired_fe_of_unit in L. destruct L as [u [Hu [_ [_ [Ec _]]]]]. rewrite Ec.
  destruct (visit_all_units _ _ _ _ _ _ VA) as [U1 _]. destruct (U1 u Hu) as [nm [nd [s [eps [_ [F PR]]]]]].
  assert (Hs : In (s, eps) st) by (unfold find_svc in F; apply find_some in F; tauto).
  pose proof (SB _ _ Hs) as Bd. unfold u_count.
  pose proof (ordered_length_le (u_eps u)) as O.
  assert (length (u_eps u) <= length eps)%nat.
  { destruct PR as [[_ [_ ->]]|[_ [_ [_ ->]]]]; [lia|apply filter_length_le]. }
  lia.
Qed.

(* every run of the model is accepted by the every-write oracle, and the invariants it needs are kept *)
Lemma model_meets_replay : forall cfg sy d st v fF fB tr sy' d' err,
  dp_good d -> st_bounded st -> exec_apply cfg sy d st v fF fB tr = Some (sy', d', err) ->
  replay_ok d tr = true /\ dp_good d'.
Proof.
  intros cfg sy d st v fF fB tr sy' d' err [C [U1 [U2 B]]] SB EA.
  destruct (exec_apply_consistent _ _ _ _ _ _ _ _ _ _ _ C EA) as [SC [-> C']].
  pose proof EA as EA0. apply exec_apply_inv in EA0. destruct EA0 as [next [us [_ [VA R]]]].
  assert (Hw : forall k fv, In (WSetF k fv) tr -> fv_count fv <= COUNT_LIMIT).
  { intros k fv Hin. eapply desired_fe_bounded; eauto. eapply run_phases_setf; eauto. }
  destruct (replay_ok_complete tr d U1 U2 B Hw SC) as [R' [A1 [A2 A3]]].
  split; auto. repeat split; auto.
Qed.

(* ------------------------------------------------------------------ final_exactb <-> its Prop reading *)
Definition listed (be : bemap) (v : fval) : list (option bval) :=
  map (fun i => lookup pair_eqb be (fv_id v, i)) (nrange (fv_count v)).

(* a frontend value is exact for a requested frontend: its backends, in ordinal order, are `addrs` *)
Definition frontend_okP (be : bemap) (s : svc) (eps : list ep) (kd : kind) (v : fval) : Prop :=
  let w := wanted kd eps in
  fv_count v = N.of_nat (length w)
  /\ fv_local v = N.of_nat (length (filter e_local w))
  /\ (exists addrs, listed be v = map Some addrs
        /\ Permutation addrs (map ep_addr w)
        /\ Permutation (firstn (N.to_nat (fv_local v)) addrs) (map ep_addr (filter e_local w)))
  /\ fv_aff v = s_sticky s
  /\ flag_ok (ext_local_required kd s) (fv_flags v) FLG_EXT_LOCAL = true
  /\ flag_ok (int_local_required kd s) (fv_flags v) FLG_INT_LOCAL = true
  /\ (has_flag (fv_flags v) FLG_MAGLEV = true -> s_maglev s = true)
  /\ has_flag (fv_flags v) FLG_EXCLUDE = s_exclude s.

Definition final_exactP (npips : list N) (st : state) (fe : femap) (be : bemap) : Prop :=
  (forall s eps k kd, In (s, eps) st -> In (k, kd) (spec_frontends npips s eps) ->
     exists v, lookup fkey_eqb fe k = Some v /\ frontend_okP be s eps kd v)
  /\ (forall k, lookup fkey_eqb fe k <> None ->
        exists s eps kd, In (s, eps) st /\ In (k, kd) (spec_frontends npips s eps))
  /\ (forall id i a, lookup pair_eqb be (id, i) = Some a ->
        exists k v, lookup fkey_eqb fe k = Some v /\ fv_id v = id /\ i < fv_count v).

Lemma remove1_perm : forall x l l', remove1 x l = Some l' -> Permutation l (x :: l').
Proof.
  induction l as [|y l IH]; intros l' H; simpl in H; [discriminate|].
  destruct (pair_eqb x y) eqn:E.
  - apply pair_eqb_spec in E. inversion H; subst. apply Permutation_refl.
  - destruct (remove1 x l) as [t|] eqn:R; [|discriminate]. inversion H; subst.
    specialize (IH t eq_refl). eapply perm_trans; [apply perm_skip; exact IH|apply perm_swap].
Qed.
Lemma remove1_in : forall x l, In x l -> exists l', remove1 x l = Some l'.
Proof.
  induction l as [|y l IH]; intros H; simpl in *; [contradiction|].
  destruct (pair_eqb x y) eqn:E; [eauto|]. destruct H as [H|H].
  - subst. assert (pair_eqb x x = true) by (apply pair_eqb_spec; auto). congruence.
  - destruct (IH H) as [l' ->]. simpl. eauto.
Qed.
Lemma same_addrs_sound : forall a b, same_addrs a b = true -> Permutation a b.
Proof.
  induction a as [|x a IH]; intros b H; simpl in H.
  - destruct b; [constructor|discriminate].
  - destruct (remove1 x b) as [b'|] eqn:R; [|discriminate].
    apply remove1_perm in R. apply Permutation_sym in R. eapply perm_trans; [apply perm_skip; apply IH; exact H|exact R].
Qed.
Lemma same_addrs_complete : forall a b, Permutation a b -> same_addrs a b = true.
Proof.
  induction a as [|x a IH]; intros b P; simpl.
  - apply Permutation_nil in P. subst. reflexivity.
  - assert (Hin : In x b) by (eapply Permutation_in; [exact P|left; auto]).
    destruct (remove1_in x b Hin) as [b' R]. rewrite R. apply IH.
    apply remove1_perm in R. apply Permutation_cons_inv with (a := x). eapply perm_trans; eauto.
Qed.

Lemma all_some : forall (l : list (option bval)), forallb is_some l = true ->
  l = map Some (flat_map (fun o => match o with Some a => [a] | None => [] end) l).
Proof.
  induction l as [|[a|] l IH]; intros H; simpl in *; auto; [|discriminate]. f_equal. auto.
Qed.
Lemma flat_map_some : forall (l : list bval),
  flat_map (fun o : option bval => match o with Some a => [a] | None => [] end) (map Some l) = l.
Proof. induction l as [|a l IH]; simpl; auto. f_equal. auto. Qed.
Lemma forallb_map_some : forall (l : list bval), forallb is_some (map Some l) = true.
Proof. induction l; simpl; auto. Qed.

Lemma frontend_ok_sound : forall be s eps kd v, frontend_ok be s eps kd v = true -> frontend_okP be s eps kd v.
Proof.
  intros be s eps kd v H. unfold frontend_ok in H. cbv zeta in H.
  repeat (apply andb_true_iff in H; let X := fresh "X" in destruct H as [H X]).
  unfold frontend_okP. cbv zeta.
  apply N.eqb_eq in X6. apply N.eqb_eq in X5. apply N.eqb_eq in X3. apply Bool.eqb_prop in X.
  apply andb_true_iff in X4. destruct X4 as [S1 S2]. apply andb_true_iff in S2. destruct S2 as [S2 S3].
  split; auto. split; auto. split.
  - exists (flat_map (fun o => match o with Some a => [a] | None => [] end) (listed be v)).
    split; [apply all_some; exact S1|]. split; apply same_addrs_sound; auto.
  - split; auto. split; auto. split; auto. split; auto.
    intros F. rewrite F in X0. simpl in X0. exact X0.
Qed.

Lemma all_spec_inv : forall npips st k kd s eps,
  In (k, (kd, (s, eps))) (all_spec_frontends npips st) -> In (s, eps) st /\ In (k, kd) (spec_frontends npips s eps).
Proof.
  intros npips st k kd s eps H. unfold all_spec_frontends in H. apply in_flat_map in H.
  destruct H as [[s0 e0] [Hs Hin]]. apply in_map_iff in Hin. destruct Hin as [[k0 kd0] [E Hk]]. simpl in E.
  inversion E; subst. auto.
Qed.

Lemma final_exactb_sound : forall npips st fe be,
  final_exactb npips st fe be = true -> final_exactP npips st fe be /\ ukeys fe /\ ukeys be.
Proof.
  intros npips st fe be H. unfold final_exactb in H. cbv zeta in H.
  repeat (apply andb_true_iff in H; let X := fresh "X" in destruct H as [H X]).
  assert (Ube : ukeys be) by (apply (nodupb_NoDup _ _ pair_eqb_spec); exact X).
  assert (Ufe : ukeys fe) by (apply (nodupb_NoDup _ _ fkey_eqb_spec); exact X1).
  rewrite forallb_forall in H, X0, X2.
  split; [|auto]. split; [|split].
  - intros s eps k kd Hs Hk. specialize (H _ (in_all_spec _ _ _ _ _ _ Hs Hk)). simpl in H.
    destruct (lookup fkey_eqb fe k) as [v|]; [|discriminate]. exists v. split; auto. apply frontend_ok_sound; auto.
  - intros k Hk. destruct (lookup fkey_eqb fe k) as [v|] eqn:E; [|congruence].
    apply (lookup_In _ _ fkey_eqb fkey_eqb_spec) in E. specialize (X2 _ E). simpl in X2.
    apply (memb_In _ _ fkey_eqb_spec) in X2. apply in_map_iff in X2. destruct X2 as [[k0 [kd [s eps]]] [E0 Hin]].
    simpl in E0. subst k0. apply all_spec_inv in Hin. exists s, eps, kd. auto.
  - intros id i a Hl. apply (lookup_In _ _ pair_eqb pair_eqb_spec) in Hl. specialize (X0 _ Hl). simpl in X0.
    apply existsb_exists in X0. destruct X0 as [[k v] [Hin C]]. simpl in C. apply andb_true_iff in C. destruct C as [C1 C2].
    apply N.eqb_eq in C1. apply N.ltb_lt in C2. exists k, v. split; auto.
    apply (ukeys_In_lookup _ _ fkey_eqb fkey_eqb_spec); auto.
Qed.

Lemma wanted_length_le : forall kd eps, (length (wanted kd eps) <= length eps)%nat.
Proof.
  intros kd eps. unfold wanted. destruct kd; try apply filter_length_le.
  eapply Nat.le_trans; [apply filter_length_le|apply filter_length_le].
Qed.

Lemma frontend_ok_complete : forall be s eps kd v,
  N.of_nat (length eps) <= COUNT_LIMIT -> frontend_okP be s eps kd v -> frontend_ok be s eps kd v = true.
Proof.
  intros be s eps kd v B [E1 [E2 [[addrs [L [P1 P2]]] [E3 [F1 [F2 [M EX]]]]]]]. unfold frontend_ok. cbv zeta. rewrite EX, eqb_reflx.
  fold (listed be v). rewrite L, forallb_map_some, flat_map_some.
  rewrite (same_addrs_complete _ _ P1), (same_addrs_complete _ _ P2).
  rewrite E1 at 2. rewrite N.eqb_refl. rewrite E2 at 1. rewrite N.eqb_refl. rewrite E3, N.eqb_refl, F1, F2.
  assert (C : fv_count v <=? COUNT_LIMIT = true).
  { apply N.leb_le. rewrite E1. pose proof (wanted_length_le kd eps). lia. }
  rewrite C. simpl. rewrite ?andb_true_r. destruct (has_flag (fv_flags v) FLG_MAGLEV) eqn:F; simpl; auto.
Qed.

Lemma final_exactb_complete : forall npips st fe be,
  st_bounded st -> ukeys fe -> ukeys be -> final_exactP npips st fe be -> final_exactb npips st fe be = true.
Proof.
  intros npips st fe be SB Ufe Ube [A [B D]]. unfold final_exactb. cbv zeta.
  repeat (apply andb_true_iff; split).
  - apply forallb_forall. intros [k [kd [s eps]]] Hin. simpl. apply all_spec_inv in Hin. destruct Hin as [Hs Hk].
    destruct (A _ _ _ _ Hs Hk) as [v [-> OK]]. apply frontend_ok_complete; [apply (SB _ _ Hs)|auto].
  - apply forallb_forall. intros [k v] Hin. simpl. apply (memb_In _ _ fkey_eqb_spec).
    pose proof (ukeys_In_lookup _ _ fkey_eqb fkey_eqb_spec _ _ _ Ufe Hin) as L.
    destruct (B k) as [s [eps [kd [Hs Hk]]]]; [congruence|].
    apply in_map_iff. exists (k, (kd, (s, eps))). split; auto. apply in_all_spec; auto.
  - apply (nodupb_NoDup _ _ fkey_eqb_spec). exact Ufe.
  - apply forallb_forall. intros [[id i] a] Hin. simpl.
    pose proof (ukeys_In_lookup _ _ pair_eqb pair_eqb_spec _ _ _ Ube Hin) as L.
    destruct (D _ _ _ L) as [k [v [Lv [Ei Hi]]]]. apply existsb_exists. exists (k, v). split.
    + apply (lookup_In _ _ fkey_eqb fkey_eqb_spec); auto.
    + simpl. rewrite Ei, N.eqb_refl. simpl. apply N.ltb_lt. auto.
  - apply (nodupb_NoDup _ _ pair_eqb_spec). exact Ube.
Qed.

(* ------------------------------------------------------------------ the model's completed syncs satisfy final_exactP *)
Lemma filter_local_ready : forall l, filter e_local (filter e_ready l) = ready_local l.
Proof.
  induction l as [|e l IH]; simpl; auto. unfold ready_local in *. simpl.
  destruct (e_ready e) eqn:R, (e_local e) eqn:Lc; simpl; rewrite ?Lc; simpl; first [exact IH | f_equal; exact IH].
Qed.

Lemma map_seq_nth : forall A B (g : A -> B) (f : N -> option B) (l : list A) k,
  (forall j e, nth_error l j = Some e -> f (N.of_nat (k + j)) = Some (g e)) ->
  map f (map N.of_nat (seq k (length l))) = map Some (map g l).
Proof.
  induction l as [|x l IH]; intros k H; simpl; auto. f_equal.
  - specialize (H 0%nat x eq_refl). rewrite Nat.add_0_r in H. exact H.
  - apply IH. intros j e Hj. specialize (H (S j) e Hj). rewrite Nat.add_succ_r in H. exact H.
Qed.

Lemma frontend_exact_okP : forall be s eps kd v, frontend_exact be s eps kd v -> frontend_okP be s eps kd v.
Proof.
  intros be s eps kd v [served [W [C [Lc [Bk [Af [F1 [F2 [M EX]]]]]]]]]. unfold frontend_okP. cbv zeta. rewrite <- W.
  destruct (ordered_spec served) as [P _]. change (ordered served) with (ready_local served ++ ready_remote served) in P.
  set (o := ready_local served ++ ready_remote served) in *.
  split; [rewrite C, (Permutation_length P); reflexivity|].
  split; [rewrite Lc, filter_local_ready; reflexivity|].
  split; [|auto].
  exists (map ep_addr o). split; [|split].
  - unfold listed, nrange. rewrite C, Nat2N.id. apply map_seq_nth. intros j e Hj. simpl.
    assert (Hlt : N.of_nat j < fv_count v).
    { rewrite C. assert (j < length o)%nat by (apply nth_error_Some; congruence). lia. }
    destruct (Bk _ Hlt) as [e' [N1 N2]]. rewrite Nat2N.id in N1. rewrite N1 in Hj. inversion Hj; subst. exact N2.
  - apply Permutation_map. exact P.
  - rewrite Lc, Nat2N.id, filter_local_ready. unfold o. rewrite map_app.
    rewrite firstn_app, map_length, Nat.sub_diag. simpl. rewrite app_nil_r.
    rewrite <- (map_length ep_addr (ready_local served)) at 1. rewrite firstn_all. apply Permutation_refl.
Qed.

(* ------------------------------------------------------------------ c42_model_meets_spec *)
Definition ops_bounded (ops : list mop) : Prop :=
  Forall (fun o => match o with MApply st _ _ _ _ => st_bounded st | MRestart => True end) ops.

Lemma history_good : forall cfg ops sy d states sy' d',
  dp_good d -> ops_bounded ops -> run_history cfg sy d ops = Some (states, sy', d') -> dp_good d'.
Proof.
  intros cfg. induction ops as [|o ops IH]; intros sy d states sy' d' G B H; simpl in H.
  - inversion H; subst. auto.
  - inversion B; subst. destruct o as [st v fF fB tr|].
    + destruct (exec_apply cfg sy d st v fF fB tr) as [[[sy1 d1] e1]|] eqn:E; [|discriminate].
      destruct (run_history cfg sy1 d1 ops) as [[[l sy2] d2]|] eqn:R; [|discriminate].
      inversion H; subst. destruct (model_meets_replay _ _ _ _ _ _ _ _ _ _ _ G H2 E) as [_ G1]. eauto.
    + eauto.
Qed.

Lemma model_meets_spec : forall cfg ops d0 states sy d st v fF fB tr sy' d' err,
  c_reset cfg = true -> dp_good d0 -> ops_bounded ops -> st_bounded st ->
  run_history cfg new_syncer d0 ops = Some (states, sy, d) ->
  exec_apply cfg sy d st v fF fB tr = Some (sy', d', err) ->
  replay_ok d tr = true
  /\ (err = false -> state_wf (c_npips cfg) st = true -> final_exactb (c_npips cfg) st (fst d') (snd d') = true).
Proof.
  intros cfg ops d0 states sy d st v fF fB tr sy' d' err Hr G0 OB SB RH EA.
  pose proof (history_good _ _ _ _ _ _ _ G0 OB RH) as G.
  destruct (model_meets_replay _ _ _ _ _ _ _ _ _ _ _ G SB EA) as [R [C' [U1 [U2 _]]]].
  split; auto. intros -> WF.
  unfold state_wf in WF. apply andb_true_iff in WF. destruct WF as [WF _].
  apply (nodupb_NoDup _ _ fkey_eqb_spec) in WF.
  destruct G0 as [C0 _].
  destruct (final_exact_full _ _ _ _ _ _ _ _ _ _ _ _ _ Hr C0 RH EA WF) as [A [B D]].
  apply final_exactb_complete; auto. split; [|split; auto].
  intros s eps k kd Hs Hk. destruct (A _ _ _ _ Hs Hk) as [fv [L FE]]. exists fv. split; auto.
  apply frontend_exact_okP; auto.
Qed.

Lemma dp_good_empty : dp_good ([], []).
Proof.
  split; [intros k v H; discriminate|]. split; [constructor|]. split; [constructor|]. intros k v [].
Qed.
