(* C42 — proofs, part 4: with prevSvcMap emptied at every startup sync (c_reset = true) distinct applySvc units
   always get distinct NAT service ids. *)
From Coq Require Import List NArith Bool Arith Lia.
From Verif.C42 Require Import Model Spec Proofs ProofsApply ProofsFinal.
Import ListNotations.
Open Scope N_scope.

Definition upk (u : unit_) : pkey := (u_name u, u_node u).

(* ids in prevSvcMap are below nextSvcID and no two keys share one *)
Definition prev_ok (prev : prevmap) (next : N) : Prop :=
  (forall pk id s, lookup pair_eqb prev pk = Some (id, s) -> id < next) /\
  (forall pk1 pk2 id s1 s2, lookup pair_eqb prev pk1 = Some (id, s1) -> lookup pair_eqb prev pk2 = Some (id, s2) -> pk1 = pk2).

(* the ids of a unit list were handed out by consecutive applySvc calls *)
Fixpoint alloc_ok (prev : prevmap) (next : N) (us : list unit_) (next' : N) : Prop :=
  match us with
  | [] => next' = next
  | u :: t => u_id u = fst (pick_id prev next (upk u) (u_svc u))
              /\ alloc_ok prev (snd (pick_id prev next (upk u) (u_svc u))) t next'
  end.

Lemma alloc_ok_app : forall prev us1 us2 n n1 n2,
  alloc_ok prev n us1 n1 -> alloc_ok prev n1 us2 n2 -> alloc_ok prev n (us1 ++ us2) n2.
Proof.
  induction us1 as [|u us1 IH]; intros us2 n n1 n2 H1 H2; simpl in *.
  - subst. auto.
  - destruct H1 as [E H1]. split; auto. eapply IH; eauto.
Qed.

Lemma visit_nodes_alloc : forall prev s eps nodes next next' us,
  visit_nodes prev next s eps nodes = (next', us) ->
  alloc_ok prev next us next' /\ map upk us = map (fun n => (s_name s, n)) nodes.
Proof.
  induction nodes as [|n t IH]; intros next next' us H; simpl in H.
  - inversion H; subst. simpl. auto.
  - destruct (pick_id prev next (s_name s, n) (remote_svc s n)) as [id next1] eqn:P.
    destruct (visit_nodes prev next1 s eps t) as [next2 us'] eqn:V. inversion H; subst.
    apply IH in V. destruct V as [V1 V2]. simpl. unfold upk at 1 2. simpl. rewrite P. simpl.
    split; auto. unfold upk at 1. simpl. f_equal. auto.
Qed.

Lemma visit_svc_alloc : forall prev s eps nodes next next' us,
  visit_svc prev next s eps nodes = (next', us) ->
  alloc_ok prev next us next'
  /\ map upk us = (s_name s, 0) :: map (fun n => (s_name s, n)) (if wants_remote s then nodes else []).
Proof.
  intros prev s eps nodes next next' us H. unfold visit_svc in H.
  destruct (pick_id prev next (s_name s, 0) s) as [id next1] eqn:P.
  destruct (visit_nodes prev next1 s eps (if wants_remote s then nodes else [])) as [next2 us'] eqn:V.
  inversion H; subst. apply visit_nodes_alloc in V. destruct V as [V1 V2].
  simpl. unfold upk at 1 2. simpl. rewrite P. simpl. split; auto. unfold upk at 1. simpl. f_equal. auto.
Qed.

Definition visit_keys (st : state) (v : visit) : list pkey :=
  flat_map (fun x => match find_svc st (fst x) with
                     | Some (s, _) => (s_name s, 0) :: map (fun n => (s_name s, n)) (if wants_remote s then snd x else [])
                     | None => [] end) v.

Lemma visit_all_alloc : forall prev st v next next' us,
  visit_all prev next st v = Some (next', us) ->
  alloc_ok prev next us next' /\ map upk us = visit_keys st v.
Proof.
  induction v as [|[name nodes] t IH]; intros next next' us H; simpl in H.
  - inversion H; subst. simpl. auto.
  - simpl. destruct (find_svc st name) as [[s eps]|] eqn:F; [|discriminate].
    destruct (negb (perm_of N.eqb nodes (if wants_remote s then remote_nodes eps else []))); [discriminate|].
    destruct (visit_svc prev next s eps nodes) as [next1 us1] eqn:V.
    destruct (visit_all prev next1 st t) as [[next2 us2]|] eqn:R; [|discriminate].
    inversion H; subst. apply visit_svc_alloc in V. destruct V as [V1 V2]. apply IH in R. destruct R as [R1 R2].
    split; [eapply alloc_ok_app; eauto|]. rewrite map_app, V2, R2. reflexivity.
Qed.

Lemma pick_id_cases : forall prev next pk s,
  (exists old, lookup pair_eqb prev pk = Some (fst (pick_id prev next pk s), old) /\ snd (pick_id prev next pk s) = next)
  \/ (fst (pick_id prev next pk s) = next /\ snd (pick_id prev next pk s) = next + 1).
Proof.
  intros. unfold pick_id. destruct (lookup pair_eqb prev pk) as [[id old]|] eqn:E; [|right; auto].
  destruct (svc_equal old s); [left; exists old; auto | right; auto].
Qed.

Lemma alloc_distinct : forall prev us next next',
  alloc_ok prev next us next' -> prev_ok prev next -> NoDup (map upk us) ->
  next <= next'
  /\ (forall u, In u us -> (exists s, lookup pair_eqb prev (upk u) = Some (u_id u, s)) \/ (next <= u_id u /\ u_id u < next'))
  /\ NoDup (map u_id us).
Proof.
  intros prev. induction us as [|u t IH]; intros next next' A [P1 P2] ND; simpl in *.
  - subst. split; [lia|]. split; [intros u []|constructor].
  - destruct A as [E A]. inversion ND; subst.
    assert (PK : prev_ok prev (snd (pick_id prev next (upk u) (u_svc u)))).
    { split; auto. intros pk id s H. apply P1 in H.
      destruct (pick_id_cases prev next (upk u) (u_svc u)) as [[old [_ ->]]|[_ ->]]; lia. }
    destruct (IH _ _ A PK H2) as [L [C D]].
    destruct (pick_id_cases prev next (upk u) (u_svc u)) as [[old [E1 E2]]|[E1 E2]]; rewrite E2 in *; rewrite <- E in *.
    + (* reused *)
      split; [lia|]. split.
      * intros u' [<-|Hu']; [left; eauto|]. destruct (C u' Hu') as [X|X]; auto.
      * constructor; auto. intros Hin. apply in_map_iff in Hin. destruct Hin as [u' [Eid Hu']].
        destruct (C u' Hu') as [[s X]|X].
        -- rewrite Eid in X. assert (upk u' = upk u) by (eapply P2; eauto). apply H1. rewrite <- H. apply in_map. auto.
        -- apply P1 in E1. lia.
    + (* fresh *)
      split; [lia|]. split.
      * intros u' [<-|Hu']; [right; lia|]. destruct (C u' Hu') as [X|X]; auto. right. lia.
      * constructor; auto. intros Hin. apply in_map_iff in Hin. destruct Hin as [u' [Eid Hu']].
        destruct (C u' Hu') as [[s X]|X].
        -- apply P1 in X. lia.
        -- lia.
Qed.

Lemma NoDup_map_inj' : forall A B (f : A -> B) l x y, NoDup (map f l) -> In x l -> In y l -> f x = f y -> x = y.
Proof.
  induction l as [|a l IH]; intros x y H Hx Hy E; simpl in *; [contradiction|].
  inversion H; subst. destruct Hx as [->|Hx], Hy as [->|Hy]; auto.
  - exfalso. apply H2. rewrite E. apply in_map. auto.
  - exfalso. apply H2. rewrite <- E. apply in_map. auto.
Qed.

Lemma new_prev_ok : forall us next',
  NoDup (map u_id us) -> (forall u, In u us -> u_id u < next') -> prev_ok (new_prev us) next'.
Proof.
  intros us next' ND B. unfold new_prev.
  assert (G : forall pk id s, lookup pair_eqb (of_list pair_eqb (map (fun u => (upk u, (u_id u, u_svc u))) us)) pk = Some (id, s) ->
                 exists u, In u us /\ upk u = pk /\ u_id u = id).
  { intros pk id s H. apply (of_list_lookup_in _ _ pair_eqb pair_eqb_spec) in H. apply in_map_iff in H.
    destruct H as [u [E Hu]]. inversion E; subst. eauto. }
  split.
  - intros pk id s H. apply G in H. destruct H as [u [Hu [_ <-]]]. auto.
  - intros pk1 pk2 id s1 s2 H1 H2. apply G in H1. apply G in H2.
    destruct H1 as [u1 [Hu1 [<- E1]]]. destruct H2 as [u2 [Hu2 [<- E2]]].
    assert (u1 = u2) by (apply (NoDup_map_inj' _ _ u_id us); auto; congruence). congruence.
Qed.

(* ------------------------------------------------------------------ the keys visited are pairwise distinct *)
Lemma dedup_In : forall A (eqb : A -> A -> bool) l x, In x (dedup eqb l) -> In x l.
Proof.
  induction l as [|y l IH]; intros x H; simpl in *; auto.
  destruct (memb eqb y l); [right; auto|]. destruct H as [H|H]; auto.
Qed.
Lemma remote_nodes_nonzero : forall eps n, In n (remote_nodes eps) -> n <> 0.
Proof.
  intros eps n H. unfold remote_nodes in H. apply dedup_In in H. apply in_map_iff in H.
  destruct H as [e [<- H]]. apply filter_In in H. destruct H as [_ H]. apply negb_true_iff in H.
  apply N.eqb_neq in H. auto.
Qed.
Lemma find_svc_name : forall st name s eps, find_svc st name = Some (s, eps) -> s_name s = name.
Proof.
  intros st name s eps H. unfold find_svc in H. apply find_some in H. destruct H as [_ H]. simpl in H.
  apply N.eqb_eq in H. auto.
Qed.

Lemma NoDup_app_intro : forall A (l1 l2 : list A),
  NoDup l1 -> NoDup l2 -> (forall x, In x l1 -> In x l2 -> False) -> NoDup (l1 ++ l2).
Proof.
  induction l1 as [|a l1 IH]; intros l2 H1 H2 H; simpl; auto.
  inversion H1; subst. constructor.
  - intros Hin. apply in_app_or in Hin. destruct Hin as [Hin|Hin]; auto. apply (H a); simpl; auto.
  - apply IH; auto. intros x Hx1 Hx2. apply (H x); simpl; auto.
Qed.

Lemma visit_keys_nodup : forall prev st v next next' us,
  NoDup (map fst v) -> visit_all prev next st v = Some (next', us) ->
  NoDup (visit_keys st v) /\ (forall pk, In pk (visit_keys st v) -> In (fst pk) (map fst v)).
Proof.
  induction v as [|[name nodes] t IH]; intros next next' us ND H; simpl in *.
  - split; [constructor|intros pk []].
  - destruct (find_svc st name) as [[s eps]|] eqn:F; [|discriminate].
    destruct (perm_of N.eqb nodes (if wants_remote s then remote_nodes eps else [])) eqn:P; simpl in H; [|discriminate].
    destruct (visit_svc prev next s eps nodes) as [next1 us1] eqn:V.
    destruct (visit_all prev next1 st t) as [[next2 us2]|] eqn:R; [|discriminate].
    inversion ND; subst. destruct (IH _ _ _ H3 R) as [N1 N2].
    pose proof (find_svc_name _ _ _ _ F) as En.
    apply (perm_of_spec _ _ (fun a b => N.eqb_eq a b)) in P. destruct P as [I1 [_ NDn]].
    set (nodes' := if wants_remote s then nodes else []).
    assert (NDn' : NoDup nodes') by (unfold nodes'; destruct (wants_remote s); [auto|constructor]).
    assert (NZ : forall n, In n nodes' -> n <> 0).
    { unfold nodes'. intros n Hn. destruct (wants_remote s); [|contradiction]. apply I1 in Hn. eapply remote_nodes_nonzero; eauto. }
    split.
    + change (NoDup (((s_name s, 0) :: map (fun n => (s_name s, n)) nodes') ++ visit_keys st t)).
      apply NoDup_app_intro.
      * constructor.
        -- intros Hin. apply in_map_iff in Hin. destruct Hin as [n [E Hn]]. inversion E. apply (NZ n); auto.
        -- apply FinFun.Injective_map_NoDup; auto. intros a b E. inversion E. auto.
      * auto.
      * intros pk Hin1 Hin2. apply N2 in Hin2. apply H2.
        assert (fst pk = name); [|congruence].
        destruct Hin1 as [<-|Hin1]; [auto|]. apply in_map_iff in Hin1. destruct Hin1 as [n [<- _]]. auto.
    + intros pk Hin. change (In pk (((s_name s, 0) :: map (fun n => (s_name s, n)) nodes') ++ visit_keys st t)) in Hin.
      apply in_app_or in Hin. destruct Hin as [Hin|Hin]; [|right; auto].
      left. destruct Hin as [<-|Hin]; [auto|]. apply in_map_iff in Hin. destruct Hin as [n [<- _]]. auto.
Qed.

(* ------------------------------------------------------------------ startup with an emptied prevSvcMap *)
Lemma fold_max_ge : forall (m : list (svc * N * bool)) n0,
  n0 <= fold_left (fun n x => N.max n (snd (fst x) + 1)) m n0
  /\ forall x, In x m -> snd (fst x) < fold_left (fun n x => N.max n (snd (fst x) + 1)) m n0.
Proof.
  induction m as [|y m IH]; intros n0; simpl.
  - split; [lia|intros x []].
  - destruct (IH (N.max n0 (snd (fst y) + 1))) as [A B]. split; [lia|].
    intros x [<-|Hx]; [lia|auto].
Qed.

Lemma startup_prev_ok : forall npips sy fe st,
  prev_ok (sy_prev (startup true npips sy fe st)) (sy_next (startup true npips sy fe st)).
Proof.
  intros npips sy fe st. unfold startup. simpl.
  set (m := matched npips fe st).
  set (step := fun (p : prevmap) (x : svc * N * bool) =>
                 let '(s, id, primary) := x in
                 if primary && negb (dup_id m id (s_name s)) then upd pair_eqb (s_name s, 0) (id, s) p else p).
  assert (G : forall l p,
             (forall x, In x l -> In x m) ->
             (forall pk id s, lookup pair_eqb p pk = Some (id, s) ->
                exists s0 b, In (s0, id, b) m /\ pk = (s_name s0, 0) /\ dup_id m id (s_name s0) = false) ->
             forall pk id s, lookup pair_eqb (fold_left step l p) pk = Some (id, s) ->
                exists s0 b, In (s0, id, b) m /\ pk = (s_name s0, 0) /\ dup_id m id (s_name s0) = false).
  { induction l as [|[[s0 id0] b0] l IH]; intros p Hl Hp pk id s H; simpl in H; [eauto|].
    eapply IH; [| |exact H]; [intros; apply Hl; right; auto|].
    intros pk' id' s' H'. unfold step in H'.
    destruct (b0 && negb (dup_id m id0 (s_name s0))) eqn:C; [|eauto].
    destruct (eqb_dec _ pair_eqb pair_eqb_spec (s_name s0, 0) pk') as [<-|Hne].
    - rewrite (lookup_upd_same _ _ pair_eqb pair_eqb_spec) in H'. inversion H'; subst.
      apply andb_true_iff in C. destruct C as [_ C]. apply negb_true_iff in C.
      exists s', b0. split; [apply Hl; left; auto|]. auto.
    - rewrite (lookup_upd_other _ _ pair_eqb pair_eqb_spec) in H' by auto. eauto. }
  assert (G' : forall pk id s, lookup pair_eqb (fold_left step m []) pk = Some (id, s) ->
                 exists s0 b, In (s0, id, b) m /\ pk = (s_name s0, 0) /\ dup_id m id (s_name s0) = false).
  { apply G; auto. intros pk id s H. discriminate. }
  split.
  - intros pk id s H. apply G' in H. destruct H as [s0 [b [Hin _]]].
    destruct (fold_max_ge m (sy_next sy)) as [_ B]. apply (B (s0, id, b)). auto.
  - intros pk1 pk2 id s1 s2 H1 H2. apply G' in H1. apply G' in H2.
    destruct H1 as [a1 [b1 [I1 [-> D1]]]]. destruct H2 as [a2 [b2 [I2 [-> D2]]]].
    unfold dup_id in D1.
    destruct (N.eq_dec (s_name a2) (s_name a1)) as [E|E]; [rewrite E; auto|].
    exfalso. assert (X : existsb (fun x => (snd (fst x) =? id) && negb (s_name (fst (fst x)) =? s_name a1)) m = true).
    { apply existsb_exists. exists (a2, id, b2). split; auto. simpl. rewrite N.eqb_refl. simpl.
      apply negb_true_iff. apply N.eqb_neq. auto. }
    congruence.
Qed.

(* ------------------------------------------------------------------ every reachable Syncer state *)
Definition sy_ok (sy : syncer) : Prop := sy_synced sy = true -> prev_ok (sy_prev sy) (sy_next sy).

Lemma visit_valid_nodup : forall st v, visit_valid st v = true -> NoDup (map fst v).
Proof.
  intros st v H. unfold visit_valid in H. apply andb_true_iff in H. destruct H as [H _].
  apply (perm_of_spec _ _ (fun a b => N.eqb_eq a b)) in H. tauto.
Qed.

Lemma exec_apply_ids : forall cfg sy d st v fF fB tr sy' d' err,
  c_reset cfg = true -> sy_ok sy -> exec_apply cfg sy d st v fF fB tr = Some (sy', d', err) ->
  sy_ok sy' /\
  exists next us,
    visit_all (sy_prev (if sy_synced sy then sy else startup (c_reset cfg) (c_npips cfg) sy (fst d) st))
              (sy_next (if sy_synced sy then sy else startup (c_reset cfg) (c_npips cfg) sy (fst d) st)) st v = Some (next, us)
    /\ NoDup (map u_id us).
Proof.
  intros cfg sy d st v fF fB tr sy' d' err Hr Hok H.
  pose proof H as H0. apply exec_apply_inv in H0. destruct H0 as [next [us [VV [VA R]]]].
  set (sy0 := if sy_synced sy then sy else startup (c_reset cfg) (c_npips cfg) sy (fst d) st) in *.
  assert (P0 : prev_ok (sy_prev sy0) (sy_next sy0)).
  { unfold sy0. destruct (sy_synced sy) eqn:S; [apply Hok; auto|]. rewrite Hr. apply startup_prev_ok. }
  destruct (visit_all_alloc _ _ _ _ _ _ VA) as [AL KS].
  destruct (visit_keys_nodup _ _ _ _ _ _ (visit_valid_nodup _ _ VV) VA) as [NK _].
  rewrite <- KS in NK.
  destruct (alloc_distinct _ _ _ _ AL P0 NK) as [L [C ND]].
  assert (B : forall u, In u us -> u_id u < next).
  { intros u Hu. destruct (C u Hu) as [[s X]|X]; [|lia]. destruct P0 as [P1 _]. apply P1 in X. lia. }
  pose proof (new_prev_ok us next ND B) as NP.
  split; [|exists next, us; auto].
  unfold exec_apply in H. rewrite VV in H. simpl in H. fold sy0 in H. rewrite VA in H. rewrite R in H.
  inversion H; subst. unfold sy_ok. destruct err; simpl; intros S.
  - rewrite S. auto.
  - auto.
Qed.

Lemma history_sy_ok : forall cfg ops sy d states sy' d',
  c_reset cfg = true -> sy_ok sy -> run_history cfg sy d ops = Some (states, sy', d') -> sy_ok sy'.
Proof.
  intros cfg. induction ops as [|o ops IH]; intros sy d states sy' d' Hr Hok H; simpl in H.
  - inversion H; subst. auto.
  - destruct o as [st v fF fB tr|].
    + destruct (exec_apply cfg sy d st v fF fB tr) as [[[sy1 d1] e1]|] eqn:E; [|discriminate].
      destruct (run_history cfg sy1 d1 ops) as [[[l sy2] d2]|] eqn:R; [|discriminate].
      inversion H; subst. destruct (exec_apply_ids _ _ _ _ _ _ _ _ _ _ _ Hr Hok E) as [Hok1 _].
      eapply IH; eauto.
    + apply (IH new_syncer d states sy' d' Hr); [intros S; discriminate | exact H].
Qed.

(* ------------------------------------------------------------------ final exact, for every history, when prevSvcMap is
   emptied at every startup sync *)
Lemma final_exact_reset : forall cfg ops d0 states sy d st v fF fB tr sy' d',
  c_reset cfg = true -> consistent (fst d0) (snd d0) ->
  run_history cfg new_syncer d0 ops = Some (states, sy, d) ->
  exec_apply cfg sy d st v fF fB tr = Some (sy', d', false) ->
  exists next us,
    visit_all (sy_prev (if sy_synced sy then sy else startup (c_reset cfg) (c_npips cfg) sy (fst d) st))
              (sy_next (if sy_synced sy then sy else startup (c_reset cfg) (c_npips cfg) sy (fst d) st)) st v = Some (next, us) /\
    NoDup (map u_id us) /\
    (forall k fv, lookup fkey_eqb (fst d') k = Some fv ->
        exists u, In u us /\ In (k, fv) (unit_frontends (c_npips cfg) u)
                  /\ fv_id fv = u_id u /\ fv_count fv = u_count u /\ fv_local fv = u_local u /\ fv_aff fv = s_sticky (u_svc u)) /\
    (forall u k fv, In u us -> In (k, fv) (unit_frontends (c_npips cfg) u) -> lookup fkey_eqb (fst d') k <> None) /\
    (forall id i a, lookup pair_eqb (snd d') (id, i) = Some a -> exists u, In u us /\ id = u_id u /\ i < u_count u) /\
    (forall u i, In u us -> i < u_count u ->
         exists e, nth_error (ready_local (u_eps u) ++ ready_remote (u_eps u)) (N.to_nat i) = Some e
                   /\ lookup pair_eqb (snd d') (u_id u, i) = Some (ep_addr e)).
Proof.
  intros cfg ops d0 states sy d st v fF fB tr sy' d' Hr Hd0 RH EA.
  destruct (history_consistent _ _ _ _ _ _ _ Hd0 RH) as [_ Hd].
  assert (Hok : sy_ok sy).
  { eapply history_sy_ok; eauto. intros S. discriminate. }
  destruct (exec_apply_ids _ _ _ _ _ _ _ _ _ _ _ Hr Hok EA) as [_ [next [us [VA ND]]]].
  destruct (final_exact_partial _ _ _ _ _ _ _ _ _ _ Hd EA) as [next' [us' [VA' [A [B [C D]]]]]].
  rewrite VA in VA'. inversion VA'; subst.
  exists next', us'. repeat (split; auto).
Qed.
