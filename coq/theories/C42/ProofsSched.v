(* C42 — proofs, part 8: a valid schedule always exists: for every history of inputs (states with a possible Go map
   order, failing keys, restarts) there are schedules of the single writes that the model accepts, so
   c42_every_write_consistent is not vacuous for any history. *)
From Coq Require Import List NArith Bool Arith Lia.
From Verif.C42 Require Import Model Spec Proofs ProofsApply ProofsFinal ProofsIds.
Import ListNotations.
Open Scope N_scope.

Definition wkeyF (w : write) : option fkey := match w with WSetF k _ | WDelF k => Some k | _ => None end.
Definition wkeyB (w : write) : option bkey := match w with WSetB k _ | WDelB k => Some k | _ => None end.

Lemma flat_map_nodup : forall K V K' (key : write -> option K') (proj : K -> K') (h : K * V -> list write) (l : list (K * V)),
  (forall a b, proj a = proj b -> a = b) ->
  NoDup (map fst l) -> (forall kv w, In w (h kv) -> key w = Some (proj (fst kv))) -> (forall kv, NoDup (h kv)) ->
  NoDup (flat_map h l).
Proof.
  intros K V K' key proj h l Hinj ND Hk Hn. induction l as [|a l IH]; simpl; [constructor|].
  inversion ND as [|x y Hnotin Hnd]; subst. apply NoDup_app_intro; auto.
  intros w Hw1 Hw2. apply in_flat_map in Hw2. destruct Hw2 as [kv [Hkv Hw]].
  apply Hk in Hw1. apply Hk in Hw. rewrite Hw1 in Hw. inversion Hw as [Heq]. apply Hinj in Heq.
  apply Hnotin. rewrite Heq. apply in_map. auto.
Qed.

Lemma phase_del_fe_nodup : forall dfe fe, ukeys fe -> NoDup (phase_del_fe dfe fe).
Proof.
  intros d0 m U. unfold phase_del_fe.
  apply (flat_map_nodup _ _ _ wkeyF (fun k => k)); auto.
  - intros kv w H. cbv beta in H.
    repeat match type of H with context [match ?c with _ => _ end] => destruct c end;
      simpl in H; first [exact (False_ind _ H) | destruct H as [<-|[]]; reflexivity].
  - intros kv. cbv beta.
    repeat match goal with |- context [match ?c with _ => _ end] => destruct c end;
      first [apply NoDup_nil | apply NoDup_cons; [intros []|apply NoDup_nil]].
Qed.
Lemma phase_del_be_nodup : forall dbe be, ukeys be -> NoDup (phase_del_be dbe be).
Proof.
  intros d0 m U. unfold phase_del_be.
  apply (flat_map_nodup _ _ _ wkeyB (fun k => k)); auto.
  - intros kv w H. cbv beta in H.
    repeat match type of H with context [match ?c with _ => _ end] => destruct c end;
      simpl in H; first [exact (False_ind _ H) | destruct H as [<-|[]]; reflexivity].
  - intros kv. cbv beta.
    repeat match goal with |- context [match ?c with _ => _ end] => destruct c end;
      first [apply NoDup_nil | apply NoDup_cons; [intros []|apply NoDup_nil]].
Qed.
Lemma phase_set_be_nodup : forall dbe be, ukeys dbe -> NoDup (phase_set_be dbe be).
Proof.
  intros d0 m U. unfold phase_set_be.
  apply (flat_map_nodup _ _ _ wkeyB (fun k => k)); auto.
  - intros kv w H. cbv beta in H.
    repeat match type of H with context [match ?c with _ => _ end] => destruct c end;
      simpl in H; first [exact (False_ind _ H) | destruct H as [<-|[]]; reflexivity].
  - intros kv. cbv beta.
    repeat match goal with |- context [match ?c with _ => _ end] => destruct c end;
      first [apply NoDup_nil | apply NoDup_cons; [intros []|apply NoDup_nil]].
Qed.
Lemma phase_set_fe_nodup : forall dfe fe, ukeys dfe -> NoDup (phase_set_fe dfe fe).
Proof.
  intros d0 m U. unfold phase_set_fe.
  apply (flat_map_nodup _ _ _ wkeyF (fun k => k)); auto.
  - intros kv w H. cbv beta in H.
    repeat match type of H with context [match ?c with _ => _ end] => destruct c end;
      simpl in H; first [exact (False_ind _ H) | destruct H as [<-|[]]; reflexivity].
  - intros kv. cbv beta.
    repeat match goal with |- context [match ?c with _ => _ end] => destruct c end;
      first [apply NoDup_nil | apply NoDup_cons; [intros []|apply NoDup_nil]].
Qed.

Lemma ukeys_do_writes : forall ws d, ukeys (fst d) -> ukeys (snd d) ->
  ukeys (fst (do_writes d ws)) /\ ukeys (snd (do_writes d ws)).
Proof.
  induction ws as [|w ws IH]; intros d U1 U2; simpl; auto.
  change (ukeys (fst (do_writes (do_write d w) ws)) /\ ukeys (snd (do_writes (do_write d w) ws))).
  apply IH; destruct w; simpl; auto.
  - apply (ukeys_upd _ _ fkey_eqb fkey_eqb_spec); auto.
  - apply (ukeys_del _ _ fkey_eqb fkey_eqb_spec); auto.
  - apply (ukeys_upd _ _ pair_eqb pair_eqb_spec); auto.
  - apply (ukeys_del _ _ pair_eqb pair_eqb_spec); auto.
Qed.

Definition good_of (fF : list fkey) (fB : list bkey) (pending : list write) : list write :=
  filter (fun w => negb (write_fails fF fB w)) pending.

Lemma perm_of_refl : forall l : list write, NoDup l -> perm_of write_eqb l l = true.
Proof.
  intros l H. unfold perm_of. rewrite Nat.eqb_refl. simpl.
  apply andb_true_iff. split.
  - apply (nodupb_NoDup _ _ write_eqb_spec). auto.
  - apply forallb_forall. intros x Hx. apply (memb_In _ _ write_eqb_spec). auto.
Qed.

Lemma run_phase_canon : forall fF fB pending d rest,
  NoDup pending ->
  run_phase fF fB pending d (good_of fF fB pending ++ rest)
  = Some (do_writes d (good_of fF fB pending), existsb (write_fails fF fB) pending, rest).
Proof.
  intros fF fB pending d rest ND. unfold run_phase. fold (good_of fF fB pending).
  set (g := good_of fF fB pending).
  assert (E1 : firstn (length g) (g ++ rest) = g).
  { rewrite firstn_app, Nat.sub_diag, firstn_all. simpl. apply app_nil_r. }
  assert (E2 : skipn (length g) (g ++ rest) = rest).
  { rewrite skipn_app, Nat.sub_diag, skipn_all. reflexivity. }
  rewrite E1, E2. rewrite perm_of_refl; auto. unfold g, good_of. apply NoDup_filter. auto.
Qed.

(* the schedule that executes the non-failing writes of each phase in list order *)
Definition canon_schedule (fF : list fkey) (fB : list bkey) (dfe : femap) (dbe : bemap) (d : dp) : list write :=
  let p2 := phase_del_fe dfe (fst d) in
  let g2 := good_of fF fB p2 in
  let d2 := do_writes d g2 in
  if existsb (write_fails fF fB) p2 then g2 else
  let p3 := phase_set_be dbe (snd d2) in
  let g3 := good_of fF fB p3 in
  let d3 := do_writes d2 g3 in
  if existsb (write_fails fF fB) p3 then g2 ++ g3 else
  let p5 := phase_set_fe dfe (fst d3) in
  let g5 := good_of fF fB p5 in
  let d5 := do_writes d3 g5 in
  if existsb (write_fails fF fB) p5 then g2 ++ g3 ++ g5 else
  g2 ++ g3 ++ g5 ++ good_of fF fB (phase_del_be dbe (snd d5)).

Lemma run_phase_canon' : forall fF fB pending d rest g,
  NoDup pending -> g = good_of fF fB pending ->
  run_phase fF fB pending d (g ++ rest) = Some (do_writes d g, existsb (write_fails fF fB) pending, rest).
Proof. intros; subst; apply run_phase_canon; auto. Qed.

Lemma run_phases_canon : forall fF fB dfe dbe d,
  ukeys (fst d) -> ukeys (snd d) -> ukeys dfe -> ukeys dbe ->
  exists d' err, run_phases fF fB dfe dbe d (canon_schedule fF fB dfe dbe d) = Some (d', err)
                 /\ ukeys (fst d') /\ ukeys (snd d').
Proof.
  intros fF fB dfe dbe d U1 U2 Ufe Ube. unfold run_phases, canon_schedule. cbv zeta.
  match goal with |- context [phase_del_fe dfe ?x] => remember (phase_del_fe dfe x) as p2 eqn:Ep2 end. remember (good_of fF fB p2) as g2 eqn:Eg2.
  remember (do_writes d g2) as d2 eqn:Ed2.
  assert (U2' : ukeys (fst d2) /\ ukeys (snd d2)) by (subst d2; apply ukeys_do_writes; auto). destruct U2' as [U21 U22].
  assert (N2 : NoDup p2) by (subst p2; apply phase_del_fe_nodup; auto).
  destruct (existsb (write_fails fF fB) p2) eqn:F2.
  { rewrite <- (app_nil_r g2). rewrite (run_phase_canon' _ _ _ _ _ _ N2 Eg2). rewrite F2, <- Ed2.
    exists d2, true. auto. }
  match goal with |- context [phase_set_be dbe ?x] => remember (phase_set_be dbe x) as p3 eqn:Ep3 end. remember (good_of fF fB p3) as g3 eqn:Eg3.
  remember (do_writes d2 g3) as d3 eqn:Ed3.
  assert (U3' : ukeys (fst d3) /\ ukeys (snd d3)) by (subst d3; apply ukeys_do_writes; auto). destruct U3' as [U31 U32].
  assert (N3 : NoDup p3) by (subst p3; apply phase_set_be_nodup; auto).
  destruct (existsb (write_fails fF fB) p3) eqn:F3.
  { rewrite (run_phase_canon' _ _ _ _ _ _ N2 Eg2). rewrite F2, <- Ed2, <- Ep3.
    rewrite <- (app_nil_r g3). rewrite (run_phase_canon' _ _ _ _ _ _ N3 Eg3). rewrite F3, <- Ed3.
    exists d3, true. auto. }
  match goal with |- context [phase_set_fe dfe ?x] => remember (phase_set_fe dfe x) as p5 eqn:Ep5 end. remember (good_of fF fB p5) as g5 eqn:Eg5.
  remember (do_writes d3 g5) as d5 eqn:Ed5.
  assert (U5' : ukeys (fst d5) /\ ukeys (snd d5)) by (subst d5; apply ukeys_do_writes; auto). destruct U5' as [U51 U52].
  assert (N5 : NoDup p5) by (subst p5; apply phase_set_fe_nodup; auto).
  destruct (existsb (write_fails fF fB) p5) eqn:F5.
  { rewrite (run_phase_canon' _ _ _ _ _ _ N2 Eg2). rewrite F2, <- Ed2, <- Ep3.
    rewrite (run_phase_canon' _ _ _ _ _ _ N3 Eg3). rewrite F3, <- Ed3, <- Ep5.
    rewrite <- (app_nil_r g5). rewrite (run_phase_canon' _ _ _ _ _ _ N5 Eg5). rewrite F5, <- Ed5.
    exists d5, true. auto. }
  match goal with |- context [phase_del_be dbe ?x] => remember (phase_del_be dbe x) as p6 eqn:Ep6 end. remember (good_of fF fB p6) as g6 eqn:Eg6.
  remember (do_writes d5 g6) as d6 eqn:Ed6.
  assert (U6' : ukeys (fst d6) /\ ukeys (snd d6)) by (subst d6; apply ukeys_do_writes; auto). destruct U6' as [U61 U62].
  assert (N6 : NoDup p6) by (subst p6; apply phase_del_be_nodup; auto).
  rewrite (run_phase_canon' _ _ _ _ _ _ N2 Eg2). rewrite F2, <- Ed2, <- Ep3.
  rewrite (run_phase_canon' _ _ _ _ _ _ N3 Eg3). rewrite F3, <- Ed3, <- Ep5.
  rewrite (run_phase_canon' _ _ _ _ _ _ N5 Eg5). rewrite F5, <- Ed5, <- Ep6.
  rewrite <- (app_nil_r g6). rewrite (run_phase_canon' _ _ _ _ _ _ N6 Eg6). rewrite <- Ed6.
  exists d6, (existsb (write_fails fF fB) p6). auto.
Qed.

(* whether visit_all succeeds depends only on the state and the visit order, not on the Syncer state *)
Definition visit_ok (st : state) (v : visit) : bool :=
  forallb (fun x => match find_svc st (fst x) with
                    | Some (s, eps) => perm_of N.eqb (snd x) (if wants_remote s then remote_nodes eps else [])
                    | None => false end) v.

Lemma visit_all_some : forall st v prev next, visit_ok st v = true -> exists r, visit_all prev next st v = Some r.
Proof.
  induction v as [|[name nodes] t IH]; intros prev next H; simpl in *.
  - eauto.
  - apply andb_true_iff in H. destruct H as [H1 H2].
    destruct (find_svc st name) as [[s eps]|]; [|discriminate]. rewrite H1. simpl.
    destruct (visit_svc prev next s eps nodes) as [next1 us1].
    destruct (IH prev next1 H2) as [[next2 us2] E]. rewrite E. eauto.
Qed.

(* one Apply: for every Syncer state, dataplane (maps without duplicate keys), state, possible visit order and set of
   failing writes there is a schedule the model accepts *)
Lemma exec_apply_schedule_exists : forall cfg sy d st v fF fB,
  ukeys (fst d) -> ukeys (snd d) -> visit_valid st v = true -> visit_ok st v = true ->
  exists tr sy' d' err, exec_apply cfg sy d st v fF fB tr = Some (sy', d', err) /\ ukeys (fst d') /\ ukeys (snd d').
Proof.
  intros cfg sy d st v fF fB U1 U2 VV VO. unfold exec_apply. rewrite VV. cbv zeta. cbn [negb].
  match goal with |- context [visit_all ?p ?n st v] => destruct (visit_all_some st v p n VO) as [[next us] E]; rewrite E end.
  destruct (run_phases_canon fF fB (desired_fe (c_npips cfg) us) (desired_be us) d U1 U2
              (ukeys_of_list _ _ fkey_eqb fkey_eqb_spec _) (ukeys_of_list _ _ pair_eqb pair_eqb_spec _)) as [d' [err [R [A B]]]].
  exists (canon_schedule fF fB (desired_fe (c_npips cfg) us) (desired_be us) d). rewrite R.
  eexists _, _, _. split; [reflexivity|auto].
Qed.

(* histories of inputs *)
Inductive hin := HApply (st : state) (v : visit) (failF : list fkey) (failB : list bkey) | HRestart.
Definition erase (o : mop) : hin :=
  match o with MApply st v fF fB _ => HApply st v fF fB | MRestart => HRestart end.
Definition hin_ok (i : hin) : Prop :=
  match i with HApply st v _ _ => visit_valid st v = true /\ visit_ok st v = true | HRestart => True end.

Lemma schedule_exists : forall cfg ins sy d,
  ukeys (fst d) -> ukeys (snd d) -> Forall hin_ok ins ->
  exists ops states sy' d', map erase ops = ins /\ run_history cfg sy d ops = Some (states, sy', d').
Proof.
  intros cfg. induction ins as [|i ins IH]; intros sy d U1 U2 H.
  - exists [], [], sy, d. auto.
  - inversion H; subst. destruct i as [st v fF fB|].
    + destruct H2 as [VV VO].
      destruct (exec_apply_schedule_exists cfg sy d st v fF fB U1 U2 VV VO) as [tr [sy1 [d1 [err [E [A B]]]]]].
      destruct (IH sy1 d1 A B H3) as [ops [states [sy' [d' [M R]]]]].
      exists (MApply st v fF fB tr :: ops). simpl. rewrite E, R, M. eauto.
    + destruct (IH new_syncer d U1 U2 H3) as [ops [states [sy' [d' [M R]]]]].
      exists (MRestart :: ops). simpl. rewrite M. eauto.
Qed.

(* the condition is exactly the model's own validity check of a visit order (so nothing is assumed about it) *)
Lemma visit_ok_necessary : forall st v prev next r, visit_all prev next st v = Some r -> visit_ok st v = true.
Proof.
  induction v as [|[name nodes] t IH]; intros prev next r H; simpl in *; auto.
  destruct (find_svc st name) as [[s eps]|]; [|discriminate].
  destruct (perm_of N.eqb nodes (if wants_remote s then remote_nodes eps else [])); simpl in *; [|discriminate].
  destruct (visit_svc prev next s eps nodes) as [next1 us1].
  destruct (visit_all prev next1 st t) as [[next2 us2]|] eqn:E; [|discriminate]. eauto.
Qed.
