(* C42 — proofs, part 11: the three-map model projects onto the two-map model: dropping the LUT writes from a schedule
   accepted by exec_apply3 (either phase order) gives a schedule accepted by exec_apply with the same result on the NAT
   maps.  So every theorem about exec_apply / run_history (final exact, ids, ...) speaks about exec_apply3 runs too. *)
From Coq Require Import List NArith Bool Arith Lia.
From Verif.C42 Require Import Model Spec Proofs ProofsApply ProofsMaglev ModelMg ProofsMg.
Import ListNotations.
Open Scope N_scope.

Lemma perm_of_complete : forall A (eqb : A -> A -> bool), (forall a b, eqb a b = true <-> a = b) ->
  forall l1 l2, length l1 = length l2 -> NoDup l1 -> incl l1 l2 -> perm_of eqb l1 l2 = true.
Proof.
  intros A eqb Hs l1 l2 HL ND I. unfold perm_of. rewrite HL, Nat.eqb_refl. simpl.
  apply andb_true_iff. split.
  - apply (nodupb_NoDup _ _ Hs). auto.
  - apply forallb_forall. intros x Hx. apply (memb_In _ _ Hs). auto.
Qed.

Lemma filter_map_XW : forall fF fB L,
  filter (fun x => negb (xfails fF fB x)) (map XW L) = map XW (filter (fun w => negb (write_fails fF fB w)) L).
Proof. induction L as [|w L IH]; simpl; auto. destruct (write_fails fF fB w); simpl; rewrite IH; reflexivity. Qed.
Lemma existsb_map_XW : forall fF fB L, existsb (xfails fF fB) (map XW L) = existsb (write_fails fF fB) L.
Proof. induction L as [|w L IH]; simpl; auto. rewrite IH. reflexivity. Qed.

Lemma core_writes_app : forall a b, core_writes (a ++ b) = core_writes a ++ core_writes b.
Proof. intros. unfold core_writes. apply flat_map_app. Qed.
Lemma core_writes_XW : forall ws, core_writes (map XW ws) = ws.
Proof. induction ws as [|w ws IH]; simpl; auto. f_equal. auto. Qed.
Lemma core_writes_toM : forall ws, (forall w, In w ws -> isDelB w \/ isSetB w) -> core_writes (map toM ws) = [].
Proof.
  induction ws as [|w ws IH]; intros H; simpl; auto.
  destruct (H w (or_introl eq_refl)) as [[k ->]|[k [v ->]]]; simpl; apply IH; intros; apply H; right; auto.
Qed.

Lemma NoDup_map_inv' : forall A B (f : A -> B) l, NoDup (map f l) -> NoDup l.
Proof.
  induction l as [|a l IH]; intros H; simpl in *; [constructor|]. inversion H; subst. constructor; auto.
  intros Hin. apply H2. apply in_map. auto.
Qed.

Lemma perm_of_len : forall A (eqb : A -> A -> bool) l1 l2, perm_of eqb l1 l2 = true -> length l1 = length l2.
Proof.
  intros A eqb l1 l2 H. unfold perm_of in H. rewrite !andb_true_iff in H. destruct H as [[H _] _].
  apply Nat.eqb_eq. auto.
Qed.

(* a phase of NAT-map writes *)
Lemma core_phase_proj : forall fF fB L d tr d2 f rest,
  run_xphase fF fB (map XW L) d tr = Some (d2, f, rest) ->
  run_phase fF fB L (fst d) (core_writes tr) = Some (fst d2, f, core_writes rest) /\ snd d2 = snd d.
Proof.
  intros fF fB L d tr d2 f rest H. unfold run_xphase in H. rewrite filter_map_XW, existsb_map_XW, map_length in H.
  set (good := filter (fun w => negb (write_fails fF fB w)) L) in *.
  destruct (perm_of xwrite_eqb (firstn (length good) tr) (map XW good)) eqn:E; [|discriminate].
  inversion H; subst. clear H.
  pose proof (firstn_skipn (length good) tr) as TR.
  pose proof (perm_of_len _ _ _ _ E) as LenE.
  apply (perm_of_spec _ _ xwrite_eqb_spec) in E. destruct E as [I1 [I2 ND]].
  destruct (incl_map_inv _ _ XW _ _ I1) as [ws [Es Iw]].
  assert (Len : length ws = length good) by (rewrite Es, !map_length in LenE; exact LenE).
  rewrite Es in ND. apply NoDup_map_inv' in ND.
  rewrite <- TR at 1. rewrite Es, core_writes_app, core_writes_XW.
  unfold run_phase. fold good. rewrite <- Len.
  rewrite firstn_app, Nat.sub_diag, firstn_all. simpl. rewrite app_nil_r.
  rewrite skipn_app, Nat.sub_diag, skipn_all. simpl.
  rewrite (perm_of_complete _ _ write_eqb_spec) by auto.
  rewrite do_xwrites_core. simpl. rewrite Len. split; reflexivity.
Qed.

(* a phase of LUT writes *)
Lemma mg_phase_proj : forall fF fB L d tr d2 f rest,
  (forall w, In w L -> isDelB w \/ isSetB w) ->
  run_xphase fF fB (map toM L) d tr = Some (d2, f, rest) ->
  f = false /\ fst d2 = fst d /\ core_writes tr = core_writes rest.
Proof.
  intros fF fB L d tr d2 f rest HB H. unfold run_xphase in H.
  assert (NF : forall x, In x (map toM L) -> xfails fF fB x = false).
  { intros x Hx. apply in_map_iff in Hx. destruct Hx as [w [<- Hw]].
    destruct (HB w Hw) as [[k ->]|[k [v ->]]]; reflexivity. }
  set (good := filter (fun x => negb (xfails fF fB x)) (map toM L)) in *.
  destruct (perm_of xwrite_eqb (firstn (length good) tr) good) eqn:E; [|discriminate].
  inversion H; subst. clear H.
  pose proof (firstn_skipn (length good) tr) as TR.
  apply (perm_of_spec _ _ xwrite_eqb_spec) in E. destruct E as [I1 _].
  assert (I1' : incl (firstn (length good) tr) (map toM L)).
  { intros x Hx. apply I1 in Hx. unfold good in Hx. apply filter_In in Hx. tauto. }
  destruct (incl_map_inv _ _ toM _ _ I1') as [ws [Es Iw]].
  split; [|split].
  - destruct (existsb (xfails fF fB) (map toM L)) eqn:X; auto. apply existsb_exists in X. destruct X as [x [Hx Fx]].
    rewrite (NF x Hx) in Fx. discriminate.
  - rewrite Es. rewrite (do_xwrites_mg ws d (fst (fst d))); [reflexivity|]. intros w Hw. apply HB. auto.
  - rewrite <- TR at 1. rewrite Es, core_writes_app, core_writes_toM; [reflexivity|]. intros w Hw. apply HB. auto.
Qed.

Lemma setbe_B : forall dbe be w, In w (phase_set_be dbe be) -> isDelB w \/ isSetB w.
Proof. intros dbe be w H. apply in_phase_set_be in H. destruct H as [k [v [-> _]]]. right. exists k, v. auto. Qed.
Lemma delbe_B : forall dbe be w, In w (phase_del_be dbe be) -> isDelB w \/ isSetB w.
Proof. intros dbe be w H. apply in_phase_del_be in H. destruct H as [k [v [-> _]]]. left. exists k. auto. Qed.

Ltac core_step H R d1 f1 r1 P S :=
  match type of H with context [run_xphase ?fF ?fB (?g ?d0) ?d0 ?t] =>
    destruct (run_xphase fF fB (g d0) d0 t) as [[[d1 f1] r1]|] eqn:R; [|discriminate];
    apply core_phase_proj in R; destruct R as [P S] end.
Ltac mg_step H R d1 f1 r1 Ef Ec Et lem :=
  match type of H with context [run_xphase ?fF ?fB (?g ?d0) ?d0 ?t] =>
    destruct (run_xphase fF fB (g d0) d0 t) as [[[d1 f1] r1]|] eqn:R; [|discriminate];
    apply mg_phase_proj in R; [|intros w Hw; eapply lem; exact Hw]; destruct R as [Ef [Ec Et]]; subst f1 end.

Lemma run_gen_proj : forall b fF fB dfe dbe dmg d tr d' err,
  run_gen fF fB (gens b dfe dbe dmg) d tr = Some (d', err) ->
  run_phases fF fB dfe dbe (fst d) (core_writes tr) = Some (fst d', err).
Proof.
  intros b fF fB dfe dbe dmg d tr d' err H. unfold run_phases. cbv zeta.
  destruct b; unfold gens in H; cbn [run_gen] in H.
  - (* repaired order *)
    core_step H R1 d1 f1 r1 P1 S1. unfold g_delfe in *. rewrite P1.
    destruct f1; [destruct r1; inversion H; subst; reflexivity|].
    core_step H R2 d2 f2 r2 P2 S2. unfold g_setbe in *. rewrite P2.
    destruct f2; [destruct r2; inversion H; subst; reflexivity|].
    mg_step H R3 d3 f3 r3 E3 C3 T3 setbe_B.
    core_step H R4 d4 f4 r4 P4 S4. unfold g_setfe in *. rewrite C3 in P4. rewrite T3, P4.
    destruct f4; [destruct r4; inversion H; subst; reflexivity|].
    mg_step H R5 d5 f5 r5 E5 C5 T5 delbe_B.
    core_step H R6 d6 f6 r6 P6 S6. unfold g_delbe in *. rewrite C5 in P6. rewrite T5, P6.
    destruct f6; destruct r6; inversion H; subst; reflexivity.
  - (* pinned order *)
    core_step H R1 d1 f1 r1 P1 S1. unfold g_delfe in *. rewrite P1.
    destruct f1; [destruct r1; inversion H; subst; reflexivity|].
    core_step H R2 d2 f2 r2 P2 S2. unfold g_setbe in *. rewrite P2.
    destruct f2; [destruct r2; inversion H; subst; reflexivity|].
    mg_step H R3 d3 f3 r3 E3 C3 T3 delbe_B.
    mg_step H R3' d3' f3' r3' E3' C3' T3' setbe_B.
    core_step H R4 d4 f4 r4 P4 S4. unfold g_setfe in *. rewrite C3', C3 in P4. rewrite T3, T3', P4.
    destruct f4; [destruct r4; inversion H; subst; reflexivity|].
    core_step H R6 d6 f6 r6 P6 S6. unfold g_delbe in *. rewrite P6.
    destruct f6; destruct r6; inversion H; subst; reflexivity.
Qed.

Lemma exec_apply3_proj : forall cfg b lut lutf sy d st v fF fB tr sy' d' err,
  exec_apply3 cfg b lut lutf sy d st v fF fB tr = Some (sy', d', err) ->
  exec_apply cfg sy (fst d) st v fF fB (core_writes tr) = Some (sy', fst d', err).
Proof.
  intros cfg b lut lutf sy d st v fF fB tr sy' d' err H. unfold exec_apply3 in H. unfold exec_apply.
  destruct (negb (visit_valid st v)); [discriminate|]. cbv zeta in *.
  match type of H with context [visit_all ?p ?n st v] => destruct (visit_all p n st v) as [[next us]|]; [|discriminate] end.
  match type of H with context [run_gen fF fB ?g d tr] => destruct (run_gen fF fB g d tr) as [[d1 e1]|] eqn:R; [|discriminate] end.
  apply run_gen_proj in R. rewrite R. inversion H; subst. reflexivity.
Qed.

Definition proj_op (o : mop3) : mop :=
  match o with MApply3 st v fF fB tr => MApply st v fF fB (core_writes tr) | MRestart3 => MRestart end.

Lemma history3_proj : forall cfg b lut lutf ops sy d states sy' d',
  run_history3 cfg b lut lutf sy d ops = Some (states, sy', d') ->
  exists states', run_history cfg sy (fst d) (map proj_op ops) = Some (states', sy', fst d').
Proof.
  intros cfg b lut lutf. induction ops as [|o ops IH]; intros sy d states sy' d' H; simpl in H.
  - inversion H; subst. simpl. eauto.
  - destruct o as [st v fF fB tr|]; simpl.
    + destruct (exec_apply3 cfg b lut lutf sy d st v fF fB tr) as [[[sy1 d1] e1]|] eqn:E; [|discriminate].
      destruct (run_history3 cfg b lut lutf sy1 d1 ops) as [[[l sy2] d2]|] eqn:R; [|discriminate].
      inversion H; subst. apply exec_apply3_proj in E. rewrite E.
      destruct (IH _ _ _ _ _ R) as [st' R']. rewrite R'. eauto.
    + eapply IH; eauto.
Qed.
