(* C42 — the model of apply() over all three maps (NAT frontends, NAT backends, Maglev LUT), definitions only.
   Six phases of single writes; `mgfix` chooses the order:
     pinned   (mgfix = false): frontend deletions; backend updates; LUT deletions; LUT updates; frontend updates; backend deletions
     repaired (mgfix = true) : frontend deletions; backend updates; LUT updates; frontend updates; LUT deletions; backend deletions
   Writes to the LUT map are never made to fail (as in the driver).  The LUT contents `lutf` (consistent hash, C33) are
   an explicit parameter. *)
From Coq Require Import List NArith Bool Arith.
From Verif.C42 Require Import Model Spec.
Import ListNotations.
Open Scope N_scope.

Definition xfails (fF : list fkey) (fB : list bkey) (x : xwrite) : bool :=
  match x with XW w => write_fails fF fB w | _ => false end.
Definition xwrite_eqb (a b : xwrite) : bool :=
  match a, b with
  | XW w, XW w' => write_eqb w w'
  | XSetM k v, XSetM k' v' => pair_eqb k k' && pair_eqb v v'
  | XDelM k, XDelM k' => pair_eqb k k'
  | _, _ => false
  end.
(* a LUT phase is a backend-map phase computed on the LUT map, with its writes retargeted *)
Definition toM (w : write) : xwrite :=
  match w with WSetB k v => XSetM k v | WDelB k => XDelM k | _ => XW w end.

Definition run_xphase (fF : list fkey) (fB : list bkey) (pending : list xwrite) (d : dp3) (tr : list xwrite)
  : option (dp3 * bool * list xwrite) :=
  let good := filter (fun x => negb (xfails fF fB x)) pending in
  let failed := existsb (xfails fF fB) pending in
  let n := length good in
  let seg := firstn n tr in
  if perm_of xwrite_eqb seg good then Some (do_xwrites d seg, failed, skipn n tr) else None.

(* phases one after the other; a phase with a failed write ends the apply *)
Fixpoint run_gen (fF : list fkey) (fB : list bkey) (gens : list (dp3 -> list xwrite)) (d : dp3) (tr : list xwrite)
  : option (dp3 * bool) :=
  match gens with
  | [] => match tr with [] => Some (d, false) | _ => None end
  | g :: t =>
      match run_xphase fF fB (g d) d tr with
      | None => None
      | Some (d', true, rest) => match rest with [] => Some (d', true) | _ => None end
      | Some (d', false, rest) => run_gen fF fB t d' rest
      end
  end.

Definition g_delfe (dfe : femap) (d : dp3) := map XW (phase_del_fe dfe (fst (fst d))).
Definition g_setbe (dbe : bemap) (d : dp3) := map XW (phase_set_be dbe (snd (fst d))).
Definition g_setfe (dfe : femap) (d : dp3) := map XW (phase_set_fe dfe (fst (fst d))).
Definition g_delbe (dbe : bemap) (d : dp3) := map XW (phase_del_be dbe (snd (fst d))).
Definition g_setmg (dmg : bemap) (d : dp3) := map toM (phase_set_be dmg (snd d)).
Definition g_delmg (dmg : bemap) (d : dp3) := map toM (phase_del_be dmg (snd d)).

Definition gens (mgfix : bool) (dfe : femap) (dbe dmg : bemap) : list (dp3 -> list xwrite) :=
  if mgfix
  then [g_delfe dfe; g_setbe dbe; g_setmg dmg; g_setfe dfe; g_delmg dmg; g_delbe dbe]
  else [g_delfe dfe; g_setbe dbe; g_delmg dmg; g_setmg dmg; g_setfe dfe; g_delbe dbe].

Definition exec_apply3 (cfg : config) (mgfix : bool) (lut : N) (lutf : list ep -> N -> bval)
           (sy : syncer) (d : dp3) (st : state) (v : visit) (fF : list fkey) (fB : list bkey) (tr : list xwrite)
  : option (syncer * dp3 * bool) :=
  if negb (visit_valid st v) then None else
  let sy0 := if sy_synced sy then sy else startup (c_reset cfg) (c_npips cfg) sy (fst (fst d)) st in
  match visit_all (sy_prev sy0) (sy_next sy0) st v with
  | None => None
  | Some (next, us) =>
      let sy_fail := SY next (if sy_synced sy then new_prev us else sy_prev sy0) (sy_synced sy) in
      let sy_ok := SY next (new_prev us) true in
      match run_gen fF fB (gens mgfix (desired_fe (c_npips cfg) us) (desired_be us) (desired_mg lut lutf us)) d tr with
      | None => None
      | Some (d', err) => Some (if err then sy_fail else sy_ok, d', err)
      end
  end.

Inductive mop3 :=
| MApply3 (st : state) (v : visit) (failF : list fkey) (failB : list bkey) (tr : list xwrite)
| MRestart3.

Fixpoint states3_after (d : dp3) (xs : list xwrite) : list dp3 :=
  match xs with [] => [] | x :: t => let d' := do_xwrite d x in d' :: states3_after d' t end.

Fixpoint run_history3 (cfg : config) (mgfix : bool) (lut : N) (lutf : list ep -> N -> bval)
         (sy : syncer) (d : dp3) (ops : list mop3) : option (list dp3 * syncer * dp3) :=
  match ops with
  | [] => Some ([], sy, d)
  | MRestart3 :: t => run_history3 cfg mgfix lut lutf new_syncer d t
  | MApply3 st v fF fB tr :: t =>
      match exec_apply3 cfg mgfix lut lutf sy d st v fF fB tr with
      | None => None
      | Some (sy', d', _) =>
          match run_history3 cfg mgfix lut lutf sy' d' t with
          | None => None
          | Some (l, sy'', d'') => Some (states3_after d tr ++ l, sy'', d'')
          end
      end
  end.
