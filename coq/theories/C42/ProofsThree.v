(* C42 — the final-exact statement for runs of the three-map model, by projection onto the two-map model. *)
From Coq Require Import List NArith Bool Arith.
From Verif.C42 Require Import Model Spec Proofs ProofsApply ProofsFinal ProofsIds ProofsSpec ProofsPin ModelMg ProofsMg ProofsProj.
Import ListNotations.
Open Scope N_scope.

Lemma final_exact_three : forall cfg b lut lutf ops d0 states sy d st v fF fB tr sy' d',
  c_reset cfg = true -> consistent (fst (fst d0)) (snd (fst d0)) ->
  run_history3 cfg b lut lutf new_syncer d0 ops = Some (states, sy, d) ->
  exec_apply3 cfg b lut lutf sy d st v fF fB tr = Some (sy', d', false) ->
  spec_wf (c_npips cfg) st ->
  (forall s eps k kd, In (s, eps) st -> In (k, kd) (spec_frontends (c_npips cfg) s eps) ->
     exists fv, lookup fkey_eqb (fst (fst d')) k = Some fv /\ frontend_exact (snd (fst d')) s eps kd fv)
  /\ (forall k, lookup fkey_eqb (fst (fst d')) k <> None ->
        exists s eps kd, In (s, eps) st /\ In (k, kd) (spec_frontends (c_npips cfg) s eps))
  /\ (forall id i a, lookup pair_eqb (snd (fst d')) (id, i) = Some a ->
        exists k fv, lookup fkey_eqb (fst (fst d')) k = Some fv /\ fv_id fv = id /\ i < fv_count fv).
Proof.
  intros cfg b lut lutf ops d0 states sy d st v fF fB tr sy' d' Hr C0 RH EA W.
  destruct (history3_proj _ _ _ _ _ _ _ _ _ _ RH) as [states' RH'].
  apply exec_apply3_proj in EA.
  exact (final_exact_full _ _ _ _ _ _ _ _ _ _ _ _ _ Hr C0 RH' EA W).
Qed.
