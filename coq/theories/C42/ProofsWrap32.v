(* C42 — uint32 ids: the N model and the uint32 model coincide while the counter stays below 2^32; when it wraps a
   live id is handed out again (refuted). *)
From Coq Require Import List NArith Bool Arith Lia.
From Verif.C42 Require Import Model Spec Proofs ProofsApply ProofsFinal ProofsIds ModelWrap.
Import ListNotations.
Open Scope N_scope.

Lemma next_id_small : forall n, n + 1 < ID_MOD -> next_id n = n + 1.
Proof. intros n H. unfold next_id. apply N.mod_small. auto. Qed.

Lemma pick_id_mono : forall prev next pk s, next <= snd (pick_id prev next pk s).
Proof.
  intros. unfold pick_id. destruct (lookup pair_eqb prev pk) as [[id old]|]; [destruct (svc_equal old s)|]; simpl; lia.
Qed.
Lemma visit_nodes_mono : forall prev s eps nodes next, next <= fst (visit_nodes prev next s eps nodes).
Proof.
  induction nodes as [|n t IH]; intros next; simpl; [lia|].
  destruct (pick_id prev next (s_name s, n) (remote_svc s n)) as [id next1] eqn:P.
  pose proof (pick_id_mono prev next (s_name s, n) (remote_svc s n)) as M. rewrite P in M. simpl in M.
  specialize (IH next1). destruct (visit_nodes prev next1 s eps t) as [next2 us]. simpl in *. lia.
Qed.

Lemma pick_id32_eq : forall prev next pk s, snd (pick_id prev next pk s) < ID_MOD ->
  pick_id32 prev next pk s = pick_id prev next pk s.
Proof.
  intros prev next pk s H. unfold pick_id32, pick_id in *.
  destruct (lookup pair_eqb prev pk) as [[id old]|]; [destruct (svc_equal old s)|]; simpl in *; auto;
    rewrite next_id_small by lia; reflexivity.
Qed.

Lemma visit_nodes32_eq : forall prev s eps nodes next,
  fst (visit_nodes prev next s eps nodes) < ID_MOD -> visit_nodes32 prev next s eps nodes = visit_nodes prev next s eps nodes.
Proof.
  induction nodes as [|n t IH]; intros next H; simpl in *; auto.
  destruct (pick_id prev next (s_name s, n) (remote_svc s n)) as [id next1] eqn:P.
  pose proof (visit_nodes_mono prev s eps t next1) as M.
  destruct (visit_nodes prev next1 s eps t) as [next2 us] eqn:V. simpl in *.
  rewrite pick_id32_eq by (rewrite P; simpl; lia). rewrite P.
  rewrite IH by (rewrite V; simpl; lia). rewrite V. reflexivity.
Qed.

Lemma visit_svc_mono : forall prev s eps nodes next, next <= fst (visit_svc prev next s eps nodes).
Proof.
  intros. unfold visit_svc. destruct (pick_id prev next (s_name s, 0) s) as [id next1] eqn:P.
  pose proof (pick_id_mono prev next (s_name s, 0) s) as M. rewrite P in M. simpl in M.
  pose proof (visit_nodes_mono prev s eps (if wants_remote s then nodes else []) next1) as M2.
  destruct (visit_nodes prev next1 s eps (if wants_remote s then nodes else [])) as [next2 us]. simpl in *. lia.
Qed.
Lemma visit_svc32_eq : forall prev s eps nodes next,
  fst (visit_svc prev next s eps nodes) < ID_MOD -> visit_svc32 prev next s eps nodes = visit_svc prev next s eps nodes.
Proof.
  intros prev s eps nodes next H. unfold visit_svc32, visit_svc in *.
  destruct (pick_id prev next (s_name s, 0) s) as [id next1] eqn:P.
  pose proof (visit_nodes_mono prev s eps (if wants_remote s then nodes else []) next1) as M.
  destruct (visit_nodes prev next1 s eps (if wants_remote s then nodes else [])) as [next2 us] eqn:V. simpl in *.
  rewrite pick_id32_eq by (rewrite P; simpl; lia). rewrite P.
  rewrite visit_nodes32_eq by (rewrite V; simpl; lia). rewrite V. reflexivity.
Qed.

Lemma visit_all_mono : forall prev st v next next' us, visit_all prev next st v = Some (next', us) -> next <= next'.
Proof.
  induction v as [|[name nodes] t IH]; intros next next' us H; simpl in H.
  - inversion H; subst. lia.
  - destruct (find_svc st name) as [[s eps]|]; [|discriminate].
    destruct (negb (perm_of N.eqb nodes (if wants_remote s then remote_nodes eps else []))); [discriminate|].
    pose proof (visit_svc_mono prev s eps nodes next) as M.
    destruct (visit_svc prev next s eps nodes) as [next1 us1].
    destruct (visit_all prev next1 st t) as [[next2 us2]|] eqn:R; [|discriminate].
    inversion H; subst. apply IH in R. simpl in M. lia.
Qed.

(* THE TWO MODELS COINCIDE while the (ideal) counter stays below 2^32 *)
Lemma visit_all32_eq : forall prev st v next next' us,
  visit_all prev next st v = Some (next', us) -> next' < ID_MOD -> visit_all32 prev next st v = Some (next', us).
Proof.
  induction v as [|[name nodes] t IH]; intros next next' us H B; simpl in *; auto.
  destruct (find_svc st name) as [[s eps]|]; [|discriminate].
  destruct (negb (perm_of N.eqb nodes (if wants_remote s then remote_nodes eps else []))); [discriminate|].
  destruct (visit_svc prev next s eps nodes) as [next1 us1] eqn:V.
  destruct (visit_all prev next1 st t) as [[next2 us2]|] eqn:R; [|discriminate].
  inversion H; subst. pose proof (visit_all_mono _ _ _ _ _ _ R) as M.
  rewrite visit_svc32_eq by (rewrite V; simpl; lia). rewrite V. rewrite (IH _ _ _ R B). reflexivity.
Qed.

Lemma exec_apply32_eq : forall cfg sy d st v fF fB tr sy' d' err,
  exec_apply cfg sy d st v fF fB tr = Some (sy', d', err) -> sy_next sy' < ID_MOD ->
  exec_apply32 cfg sy d st v fF fB tr = Some (sy', d', err).
Proof.
  intros cfg sy d st v fF fB tr sy' d' err H B. unfold exec_apply in H. unfold exec_apply32.
  destruct (negb (visit_valid st v)); [discriminate|]. cbv zeta in *.
  match type of H with context [visit_all ?p ?n st v] => destruct (visit_all p n st v) as [[next us]|] eqn:VA; [|discriminate] end.
  match type of H with context [run_phases fF fB ?a ?b d tr] => destruct (run_phases fF fB a b d tr) as [[d1 e1]|] eqn:R; [|discriminate] end.
  inversion H; subst. assert (next < ID_MOD) by (destruct err; simpl in B; exact B).
  rewrite (visit_all32_eq _ _ _ _ _ _ VA H0). rewrite R. reflexivity.
Qed.

(* WHEN THE COUNTER WRAPS a live id is handed out again.  Syncer state: service 0 holds id 0, the counter stands at
   2^32-1 (after 2^32-1 allocations).  One sync adds services 1 and 2: service 1 gets id 2^32-1, the counter wraps,
   service 2 gets id 0 - the id of service 0.  The completed sync is not exact. *)
Definition wr_ep (a : N) := Ep a 8000 true false 3232235522.
Definition wr_s (n : N) := Svc n (174063617 + n) 80 6 0 [] [] false false 0 false false.
Definition wr_st0 : state := [(wr_s 0, [wr_ep 167837953])].
Definition wr_st1 : state := [(wr_s 0, [wr_ep 167837953]); (wr_s 1, [wr_ep 167837954]); (wr_s 2, [wr_ep 167837955; wr_ep 167837956])].
Definition wr_check : option (N * bool) :=
  match exec_apply32 (Config [3232235521] true) new_syncer ([], []) wr_st0 [(0, [])] [] []
          [WSetB (0,0) (167837953,8000); WSetF (FK 174063617 80 6) (FV 0 1 0 0 0)] with
  | Some (sy, d, false) =>
      match exec_apply32 (Config [3232235521] true) (SY 4294967295 (sy_prev sy) true) d wr_st1 [(0, []); (1, []); (2, [])] [] []
              [WSetB (4294967295,0) (167837954,8000); WSetB (0,0) (167837955,8000); WSetB (0,1) (167837956,8000);
               WSetF (FK 174063618 80 6) (FV 4294967295 1 0 0 0); WSetF (FK 174063619 80 6) (FV 0 2 0 0 0)] with
      | Some (sy', d', false) => Some (sy_next sy', state_wf [3232235521] wr_st1 && final_exactb [3232235521] wr_st1 (fst d') (snd d'))
      | _ => None
      end
  | _ => None
  end.
Lemma wr_check_eq : wr_check = Some (1, false).
Proof. vm_compute. reflexivity. Qed.

Lemma wrap_refuted :
  exists sy d sy' d',
    exec_apply32 (Config [3232235521] true) new_syncer ([], []) wr_st0 [(0, [])] [] []
      [WSetB (0,0) (167837953,8000); WSetF (FK 174063617 80 6) (FV 0 1 0 0 0)] = Some (sy, d, false)
    /\ exec_apply32 (Config [3232235521] true) (SY 4294967295 (sy_prev sy) true) d wr_st1 [(0, []); (1, []); (2, [])] [] []
         [WSetB (4294967295,0) (167837954,8000); WSetB (0,0) (167837955,8000); WSetB (0,1) (167837956,8000);
          WSetF (FK 174063618 80 6) (FV 4294967295 1 0 0 0); WSetF (FK 174063619 80 6) (FV 0 2 0 0 0)] = Some (sy', d', false)
    /\ sy_next sy' = 1
    /\ state_wf [3232235521] wr_st1 && final_exactb [3232235521] wr_st1 (fst d') (snd d') = false.
Proof.
  pose proof wr_check_eq as H. unfold wr_check in H.
  destruct (exec_apply32 (Config [3232235521] true) new_syncer ([], []) wr_st0 [(0, [])] [] []
              [WSetB (0,0) (167837953,8000); WSetF (FK 174063617 80 6) (FV 0 1 0 0 0)]) as [[[sy d] [|]]|]; try discriminate.
  match type of H with context [exec_apply32 ?c ?s ?dd ?st ?v ?a ?b ?t] =>
    destruct (exec_apply32 c s dd st v a b t) as [[[sy' d'] [|]]|] eqn:E; try discriminate end.
  injection H; intros H2 H1. exists sy, d, sy', d'. repeat split; auto.
Qed.
