(* C42 — concrete histories: non-vacuity example and the stale-prevSvcMap witness (closed boolean computations,
   then turned into the existential statements used in Props.v). *)
From Coq Require Import List NArith Bool Arith.
From Verif.C42 Require Import Model Spec.
Import ListNotations.
Open Scope N_scope.

(* run a prefix history, then one more apply that must complete; report final_exactb of the result *)
Definition last_apply_exact (cfg : config) (prefix : list mop) (st : state) (v : visit) (tr : list write) : option (nat * bool) :=
  match run_history cfg new_syncer ([], []) prefix with
  | Some (states, sy, d) =>
      match exec_apply cfg sy d st v [] [] tr with
      | Some (_, d', false) => Some (length states, state_wf (c_npips cfg) st && final_exactb (c_npips cfg) st (fst d') (snd d'))
      | _ => None
      end
  | None => None
  end.

Lemma last_apply_exact_elim : forall cfg prefix st v tr n b,
  last_apply_exact cfg prefix st v tr = Some (n, b) ->
  exists states sy d,
    run_history cfg new_syncer ([], []) prefix = Some (states, sy, d) /\ length states = n
    /\ exists sy' d', exec_apply cfg sy d st v [] [] tr = Some (sy', d', false)
         /\ state_wf (c_npips cfg) st && final_exactb (c_npips cfg) st (fst d') (snd d') = b.
Proof.
  intros cfg prefix st v tr n b H. unfold last_apply_exact in H.
  destruct (run_history cfg new_syncer ([], []) prefix) as [[[states sy] d]|]; [|discriminate].
  destruct (exec_apply cfg sy d st v [] [] tr) as [[[sy' d'] [|]]|] eqn:E; try discriminate.
  inversion H; subst. exists states, sy, d. split; auto. split; auto. exists sy', d'. auto.
Qed.

(* ---- non-vacuity: service with node port, external and LB IP; an apply with a failing write; restart; shrink *)
Definition ex_npips : list N := [3232235521; 4294967295].
Definition ex_s0 := Svc 0 174063617 80 6 30001 [587202561] [603979777] true false 0 false false.
Definition ex_e1 := Ep 167837953 8000 true false 3232235522.
Definition ex_e2 := Ep 167837697 8000 true true 0.
Definition ex_prefix : list mop :=
  [ MApply [(ex_s0, [ex_e1; ex_e2])] [(0, [])] [] []
      [WSetB (0,1) (167837953,8000); WSetB (0,0) (167837697,8000);
       WSetF (FK 4294967295 30001 6) (FV 0 2 1 0 1); WSetF (FK 174063617 80 6) (FV 0 2 1 0 0);
       WSetF (FK 603979777 80 6) (FV 0 2 1 0 1); WSetF (FK 587202561 80 6) (FV 0 2 1 0 0);
       WSetF (FK 3232235521 30001 6) (FV 0 2 1 0 1)];
    MApply [(ex_s0, [ex_e2])] [(0, [])] [FK 587202561 80 6] []
      [WSetF (FK 174063617 80 6) (FV 0 1 1 0 0); WSetF (FK 3232235521 30001 6) (FV 0 1 1 0 1);
       WSetF (FK 603979777 80 6) (FV 0 1 1 0 1); WSetF (FK 4294967295 30001 6) (FV 0 1 1 0 1)];
    MRestart ].
Lemma ex_check :
  last_apply_exact (Config ex_npips false) ex_prefix [(ex_s0, [ex_e2])] [(0, [])]
    [WSetF (FK 587202561 80 6) (FV 0 1 1 0 0); WDelB (0,1)] = Some (11%nat, true).
Proof. vm_compute. reflexivity. Qed.

(* ---- the stale-prevSvcMap witness (driver: scripted history 2) *)
Definition w_npips : list N := [3232235521].
Definition w_epsS := [Ep 167837697 8000 true true 0; Ep 167837953 8000 true false 3232235522; Ep 167837954 8000 true false 3232235522].
Definition w_epsT := [Ep 167838215 8001 true false 3232235523].
Definition w_Sold := Svc 0 174063617 80 6 0 [587202569] [] false false 0 false false.
Definition w_S := Svc 0 174063617 80 6 0 [] [] false false 0 false false.
Definition w_T := Svc 1 587202569 80 6 0 [] [] false false 0 false false.
Definition w_final : state := [(w_S, w_epsS); (w_T, w_epsT)].
Definition w_visit : visit := [(0, []); (1, [])].
Definition w_prefix : list mop :=
  [ MApply [(w_Sold, w_epsS)] [(0, [])] [] []
      [WSetB (0,2) (167837954,8000); WSetB (0,0) (167837697,8000); WSetB (0,1) (167837953,8000);
       WSetF (FK 174063617 80 6) (FV 0 3 1 0 0); WSetF (FK 587202569 80 6) (FV 0 3 1 0 0)];
    MRestart;
    MApply [(w_S, w_epsS)] [(0, [])] [FK 587202569 80 6] [] [];
    MApply [(w_T, w_epsT)] [(1, [])] [FK 174063617 80 6] [] [] ].
Definition w_tr_pinned : list write := [WSetB (0,0) (167838215,8001); WSetF (FK 587202569 80 6) (FV 0 1 0 0 0)].
Definition w_tr_repaired : list write :=
  [WSetB (1,0) (167837697,8000); WSetB (1,1) (167837953,8000); WSetB (1,2) (167837954,8000);
   WSetB (2,0) (167838215,8001);
   WSetF (FK 174063617 80 6) (FV 1 3 1 0 0); WSetF (FK 587202569 80 6) (FV 2 1 0 0 0);
   WDelB (0,0); WDelB (0,1); WDelB (0,2)].
Lemma w_check_pinned : last_apply_exact (Config w_npips false) w_prefix w_final w_visit w_tr_pinned = Some (5%nat, false).
Proof. vm_compute. reflexivity. Qed.
Lemma w_check_repaired : last_apply_exact (Config w_npips true) w_prefix w_final w_visit w_tr_repaired = Some (5%nat, true).
Proof. vm_compute. reflexivity. Qed.
Lemma w_state_wf : state_wf w_npips w_final = true.
Proof. vm_compute. reflexivity. Qed.

Lemma example_history :
  exists states sy d,
    run_history (Config ex_npips false) new_syncer ([], []) ex_prefix = Some (states, sy, d) /\ length states = 11%nat
    /\ exists sy' d', exec_apply (Config ex_npips false) sy d [(ex_s0, [ex_e2])] [(0, [])] [] []
                        [WSetF (FK 587202561 80 6) (FV 0 1 1 0 0); WDelB (0,1)] = Some (sy', d', false)
         /\ state_wf ex_npips [(ex_s0, [ex_e2])] && final_exactb ex_npips [(ex_s0, [ex_e2])] (fst d') (snd d') = true.
Proof. exact (last_apply_exact_elim _ _ _ _ _ _ _ ex_check). Qed.

Lemma final_exact_refuted :
  exists states sy d,
    run_history (Config w_npips false) new_syncer ([], []) w_prefix = Some (states, sy, d) /\ length states = 5%nat
    /\ exists sy' d', exec_apply (Config w_npips false) sy d w_final w_visit [] [] w_tr_pinned = Some (sy', d', false)
         /\ state_wf w_npips w_final && final_exactb w_npips w_final (fst d') (snd d') = false.
Proof. exact (last_apply_exact_elim _ _ _ _ _ _ _ w_check_pinned). Qed.

Lemma final_exact_witness_repaired :
  exists states sy d,
    run_history (Config w_npips true) new_syncer ([], []) w_prefix = Some (states, sy, d) /\ length states = 5%nat
    /\ exists sy' d', exec_apply (Config w_npips true) sy d w_final w_visit [] [] w_tr_repaired = Some (sy', d', false)
         /\ state_wf w_npips w_final && final_exactb w_npips w_final (fst d') (snd d') = true.
Proof. exact (last_apply_exact_elim _ _ _ _ _ _ _ w_check_repaired). Qed.
