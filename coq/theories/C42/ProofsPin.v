(* C42 — proofs, part 6: in a state where no two services claim the same frontend key, the value stored under a
   requested key is the one of the unit serving it; the full final-exact statement in Prop form. *)
From Coq Require Import List NArith Bool Arith Lia.
From Verif.C42 Require Import Model Spec Proofs ProofsApply ProofsFinal ProofsIds ProofsSpec.
Import ListNotations.
Open Scope N_scope.

Lemma NoDup_keys_functional : forall A B (l : list (A * B)) k x y,
  NoDup (map fst l) -> In (k, x) l -> In (k, y) l -> x = y.
Proof.
  induction l as [|[k0 v0] l IH]; intros k x y ND Hx Hy; simpl in *; [contradiction|].
  inversion ND; subst. destruct Hx as [Hx|Hx], Hy as [Hy|Hy].
  - congruence.
  - inversion Hx; subst. exfalso. apply H1. apply in_map_iff. exists (k, y). auto.
  - inversion Hy; subst. exfalso. apply H1. apply in_map_iff. exists (k, x). auto.
  - eauto.
Qed.

Lemma NoDup_app_l : forall A (l1 l2 : list A), NoDup (l1 ++ l2) -> NoDup l1.
Proof.
  induction l1 as [|a l1 IH]; intros l2 H; simpl in *; [constructor|].
  inversion H; subst. constructor; eauto. intros Hin. apply H2. apply in_or_app. auto.
Qed.
Lemma NoDup_app_r : forall A (l1 l2 : list A), NoDup (l1 ++ l2) -> NoDup l2.
Proof. induction l1 as [|a l1 IH]; intros l2 H; simpl in *; auto. inversion H; subst. eauto. Qed.

Lemma NoDup_flat_map_in : forall A B (f : A -> list B) l x, NoDup (flat_map f l) -> In x l -> NoDup (f x).
Proof.
  induction l as [|a l IH]; intros x H Hx; simpl in *; [contradiction|].
  destruct Hx as [->|Hx]; [eapply NoDup_app_l; eauto | apply IH; auto; eapply NoDup_app_r; eauto].
Qed.

Definition spec_wf (npips : list N) (st : state) : Prop := NoDup (map fst (all_spec_frontends npips st)).

Lemma in_all_spec : forall npips st s eps k kd,
  In (s, eps) st -> In (k, kd) (spec_frontends npips s eps) -> In (k, (kd, (s, eps))) (all_spec_frontends npips st).
Proof.
  intros. unfold all_spec_frontends. apply in_flat_map. exists (s, eps). split; auto.
  apply in_map_iff. exists (k, kd). auto.
Qed.

Lemma spec_wf_service : forall npips st s eps, spec_wf npips st -> In (s, eps) st -> NoDup (map fst (spec_frontends npips s eps)).
Proof.
  intros npips st s eps W Hs. unfold spec_wf, all_spec_frontends in W.
  induction st as [|a t IH]; [contradiction|].
  cbn [flat_map] in W. rewrite map_app in W. destruct Hs as [->|Hs].
  - apply NoDup_app_l in W. rewrite map_map in W. cbn [fst snd] in W.
    erewrite map_ext in W; [exact W|]. intros [k0 kd0]. reflexivity.
  - apply IH; auto. eapply NoDup_app_r; eauto.
Qed.

Lemma visit_nodes_names : forall prev s eps nodes next next' us,
  visit_nodes prev next s eps nodes = (next', us) -> forall u, In u us -> u_name u = s_name s.
Proof.
  induction nodes as [|n t IH]; intros next next' us H u Hu; simpl in H.
  - inversion H; subst. contradiction.
  - destruct (pick_id prev next (s_name s, n) (remote_svc s n)) as [id next1] eqn:P.
    destruct (visit_nodes prev next1 s eps t) as [next2 us'] eqn:V. inversion H; subst.
    destruct Hu as [<-|Hu]; [reflexivity|eauto].
Qed.

Lemma visit_all_units_named : forall prev st v next next' us,
  visit_all prev next st v = Some (next', us) ->
  forall u, In u us -> exists s eps, In (s, eps) st /\ u_name u = s_name s /\ (primary_of s eps u \/ remote_of s eps u).
Proof.
  induction v as [|[name nodes] t IH]; intros next next' us H; simpl in H.
  - inversion H; subst. intros u [].
  - destruct (find_svc st name) as [[s eps]|] eqn:F; [|discriminate].
    destruct (perm_of N.eqb nodes (if wants_remote s then remote_nodes eps else [])) eqn:P; simpl in H; [|discriminate].
    destruct (visit_svc prev next s eps nodes) as [next1 us1] eqn:V.
    destruct (visit_all prev next1 st t) as [[next2 us2]|] eqn:R; [|discriminate].
    inversion H; subst. pose proof (IH _ _ _ R) as R1.
    apply (perm_of_spec _ _ (fun a b => N.eqb_eq a b)) in P. destruct P as [I1 [I2 _]].
    assert (Hs : In (s, eps) st) by (unfold find_svc in F; apply find_some in F; tauto).
    unfold visit_svc in V.
    destruct (pick_id prev next (s_name s, 0) s) as [id nx] eqn:PI.
    destruct (visit_nodes prev nx s eps (if wants_remote s then nodes else [])) as [nx2 usr] eqn:VN.
    inversion V; subst. pose proof (visit_nodes_names _ _ _ _ _ _ _ VN) as NM.
    apply visit_nodes_units in VN. destruct VN as [N1 N2].
    intros u Hu. apply in_app_or in Hu. destruct Hu as [[<-|Hu]|Hu].
    + exists s, eps. split; auto. split; [reflexivity|]. left. repeat split; reflexivity.
    + exists s, eps. split; auto. split; [auto|]. right.
      destruct (N1 u Hu) as [A [B C]]. destruct (wants_remote s) eqn:W; [|contradiction].
      repeat split; auto.
    + auto.
Qed.

(* which requested frontend a unit's frontend is *)
Lemma unit_frontend_kind : forall npips s eps u k fv,
  In (k, fv) (unit_frontends npips u) ->
  (primary_of s eps u -> exists kd, In (k, kd) (spec_frontends npips s eps) /\ forall n, kd <> KRemote n) /\
  (remote_of s eps u -> In (k, KRemote (u_node u)) (spec_frontends npips s eps) /\ k = FK (u_node u) (s_np s) (s_proto s)).
Proof.
  intros npips s eps u k fv Hk. split.
  - intros [Hn [Hsv He]]. destruct u as [un unode uid usvc ueps]. simpl in Hn, Hsv, He. subst unode usvc ueps.
    unfold unit_frontends in Hk. cbn [u_node u_svc] in Hk. change (negb (0 =? 0)) with false in Hk. cbv iota in Hk.
    unfold spec_frontends. destruct Hk as [Hk|Hk].
    + inversion Hk; subst. exists KCluster. split; [apply in_eq|discriminate].
    + apply in_app_or in Hk. destruct Hk as [Hk|Hk].
      { apply in_map_iff in Hk. destruct Hk as [a [E Ha]]. inversion E; subst. exists KLB. split; [|discriminate].
        apply in_cons. apply in_or_app. left. apply in_map_iff. exists a. auto. }
      apply in_app_or in Hk. destruct Hk as [Hk|Hk].
      { apply in_map_iff in Hk. destruct Hk as [a [E Ha]]. inversion E; subst. exists KExt. split; [|discriminate].
        apply in_cons. apply in_or_app. right. apply in_or_app. left. apply in_map_iff. exists a. auto. }
      destruct (s_np s =? 0) eqn:NP; [contradiction|].
      apply in_map_iff in Hk. destruct Hk as [a [E Ha]]. inversion E; subst. exists KNodePort. split; [|discriminate].
      apply in_cons. apply in_or_app. right. apply in_or_app. right. apply in_or_app. left.
      apply in_map_iff. exists a. auto.
  - intros [W [Hn [Hsv He]]].
    assert (NZ : u_node u <> 0) by (eapply remote_nodes_nonzero; eauto).
    unfold unit_frontends in Hk. apply N.eqb_neq in NZ. rewrite NZ in Hk. simpl in Hk. destruct Hk as [Hk|[]].
    inversion Hk; subst. rewrite Hsv. simpl.
    unfold wants_remote in W. apply andb_true_iff in W. destruct W as [W1 W2]. apply negb_true_iff in W2.
    split; [|reflexivity].
    unfold spec_frontends. apply in_cons. apply in_or_app. right. apply in_or_app. right. rewrite W2.
    apply in_or_app. right. rewrite W1. apply in_map_iff. exists (u_node u). split; auto.
Qed.

Lemma primary_keys_prefix : forall npips s eps u,
  primary_of s eps u -> exists rest, map fst (spec_frontends npips s eps) = map fst (unit_frontends npips u) ++ rest.
Proof.
  intros npips s eps u [Hn [Hsv He]]. destruct u as [un unode uid usvc ueps]. simpl in Hn, Hsv, He. subst unode usvc ueps.
  unfold unit_frontends, spec_frontends. cbn [u_node u_svc]. change (negb (0 =? 0)) with false. cbv iota.
  destruct (s_np s =? 0).
  - exists []. cbn [map fst]. repeat rewrite map_app. repeat rewrite map_map. cbn [map fst]. repeat rewrite app_nil_r. reflexivity.
  - eexists. cbn [map fst]. rewrite <- app_comm_cons. repeat rewrite map_app. repeat rewrite map_map. cbn [fst].
    repeat rewrite <- app_assoc. reflexivity.
Qed.

Lemma unit_frontend_unique : forall npips prev st v next next' us u1 u2 k fv1 fv2,
  spec_wf npips st -> visit_valid st v = true -> visit_all prev next st v = Some (next', us) ->
  In u1 us -> In u2 us -> In (k, fv1) (unit_frontends npips u1) -> In (k, fv2) (unit_frontends npips u2) ->
  u1 = u2 /\ fv1 = fv2.
Proof.
  intros npips prev st v next next' us u1 u2 k fv1 fv2 W VV VA H1 H2 K1 K2.
  destruct (visit_all_units_named _ _ _ _ _ _ VA u1 H1) as [s1 [e1 [S1 [N1 P1]]]].
  destruct (visit_all_units_named _ _ _ _ _ _ VA u2 H2) as [s2 [e2 [S2 [N2 P2]]]].
  destruct (visit_all_alloc _ _ _ _ _ _ VA) as [_ KS].
  destruct (visit_keys_nodup _ _ _ _ _ _ (visit_valid_nodup _ _ VV) VA) as [NK _]. rewrite <- KS in NK.
  destruct (unit_frontend_kind npips s1 e1 u1 k fv1 K1) as [A1 B1].
  destruct (unit_frontend_kind npips s2 e2 u2 k fv2 K2) as [A2 B2].
  assert (SAME : forall kd1 kd2, In (k, kd1) (spec_frontends npips s1 e1) -> In (k, kd2) (spec_frontends npips s2 e2) ->
                  kd1 = kd2 /\ s1 = s2 /\ e1 = e2).
  { intros kd1 kd2 X1 X2.
    pose proof (NoDup_keys_functional _ _ _ _ _ _ W (in_all_spec _ _ _ _ _ _ S1 X1) (in_all_spec _ _ _ _ _ _ S2 X2)) as E.
    inversion E; subst. auto. }
  assert (U : u1 = u2).
  { apply (NoDup_map_inj' _ _ upk us); auto. unfold upk.
    destruct P1 as [P1|P1], P2 as [P2|P2].
    - destruct (A1 P1) as [kd1 [X1 _]]. destruct (A2 P2) as [kd2 [X2 _]]. destruct (SAME _ _ X1 X2) as [_ [<- _]].
      destruct P1 as [-> _]. destruct P2 as [-> _]. congruence.
    - destruct (A1 P1) as [kd1 [X1 NR]]. destruct (B2 P2) as [X2 _]. destruct (SAME _ _ X1 X2) as [E _]. exfalso. eapply NR; eauto.
    - destruct (B1 P1) as [X1 _]. destruct (A2 P2) as [kd2 [X2 NR]]. destruct (SAME _ _ X1 X2) as [E _]. exfalso. eapply NR; eauto.
    - destruct (B1 P1) as [X1 _]. destruct (B2 P2) as [X2 _]. destruct (SAME _ _ X1 X2) as [E [<- _]]. inversion E. congruence. }
  split; auto. subst u2.
  destruct P1 as [P1|P1].
  - destruct (primary_keys_prefix npips s1 e1 u1 P1) as [rest E].
    pose proof (spec_wf_service _ _ _ _ W S1) as ND. rewrite E in ND. apply NoDup_app_l in ND.
    eapply NoDup_keys_functional; eauto.
  - destruct P1 as [_ [Hn _]]. assert (NZ : u_node u1 <> 0) by (eapply remote_nodes_nonzero; eauto).
    unfold unit_frontends in K1, K2. apply N.eqb_neq in NZ. rewrite NZ in K1, K2. simpl in K1, K2.
    destruct K1 as [K1|[]], K2 as [K2|[]]. congruence.
Qed.

(* ------------------------------------------------------------------ the full final-exact statement *)
Definition frontend_exact (be : bemap) (s : svc) (eps : list ep) (kd : kind) (fv : fval) : Prop :=
  exists served : list ep,
    (* the frontend lists `served` = the ready endpoints it must list, local ones first *)
    filter e_ready served = wanted kd eps
    /\ fv_count fv = N.of_nat (length (ready_local served ++ ready_remote served))
    /\ fv_local fv = N.of_nat (length (ready_local served))
    /\ (forall i, i < fv_count fv ->
          exists e, nth_error (ready_local served ++ ready_remote served) (N.to_nat i) = Some e
                    /\ lookup pair_eqb be (fv_id fv, i) = Some (ep_addr e))
    /\ fv_aff fv = s_sticky s
    /\ flag_ok (ext_local_required kd s) (fv_flags fv) FLG_EXT_LOCAL = true
    /\ flag_ok (int_local_required kd s) (fv_flags fv) FLG_INT_LOCAL = true
    /\ (has_flag (fv_flags fv) FLG_MAGLEV = true -> s_maglev s = true)
    /\ has_flag (fv_flags fv) FLG_EXCLUDE = s_exclude s.

Lemma final_exact_full : forall cfg ops d0 states sy d st v fF fB tr sy' d',
  c_reset cfg = true -> consistent (fst d0) (snd d0) ->
  run_history cfg new_syncer d0 ops = Some (states, sy, d) ->
  exec_apply cfg sy d st v fF fB tr = Some (sy', d', false) ->
  spec_wf (c_npips cfg) st ->
  (* every requested frontend is there and exact *)
  (forall s eps k kd, In (s, eps) st -> In (k, kd) (spec_frontends (c_npips cfg) s eps) ->
     exists fv, lookup fkey_eqb (fst d') k = Some fv /\ frontend_exact (snd d') s eps kd fv)
  (* no other frontend *)
  /\ (forall k, lookup fkey_eqb (fst d') k <> None ->
        exists s eps kd, In (s, eps) st /\ In (k, kd) (spec_frontends (c_npips cfg) s eps))
  (* no backend that no frontend refers to *)
  /\ (forall id i a, lookup pair_eqb (snd d') (id, i) = Some a ->
        exists k fv, lookup fkey_eqb (fst d') k = Some fv /\ fv_id fv = id /\ i < fv_count fv).
Proof.
  intros cfg ops d0 states sy d st v fF fB tr sy' d' Hr Hd0 RH EA W.
  destruct (history_consistent _ _ _ _ _ _ _ Hd0 RH) as [_ Hd].
  pose proof EA as EA0. apply exec_apply_inv in EA0. destruct EA0 as [next0 [us0 [VV [VA0 _]]]].
  destruct (final_exact_reset _ _ _ _ _ _ _ _ _ _ _ _ _ Hr Hd0 RH EA) as [next [us [VA [ND [A [B [C D]]]]]]].
  split; [|split].
  - intros s eps k kd Hs Hk.
    destruct (units_cover_spec (c_npips cfg) _ _ _ _ _ _ _ _ _ _ VV VA Hs Hk) as [u [fv0 [Hu [Hin M]]]].
    pose proof (B u k fv0 Hu Hin) as NE.
    destruct (lookup fkey_eqb (fst d') k) as [fv|] eqn:E; [|congruence].
    destruct (A k fv E) as [u' [Hu' [Hin' [I1 [I2 [I3 I4]]]]]].
    destruct (unit_frontend_unique _ _ _ _ _ _ _ _ _ _ _ _ W VV VA Hu' Hu Hin' Hin) as [-> ->].
    exists fv0. split; auto. destruct M as [M1 [M2 [M3 [M4 [M5 M6]]]]].
    exists (u_eps u). split; auto. split; [rewrite I2; reflexivity|]. split; [rewrite I3; reflexivity|].
    split; [|auto]. intros i Hi. rewrite I1. apply D; auto. rewrite <- I2. auto.
  - intros k H. eapply frontend_keys_exact; eauto.
  - intros id i a H. destruct (C id i a H) as [u [Hu [-> Hi]]].
    assert (X : exists k fv, In (k, fv) (unit_frontends (c_npips cfg) u)).
    { unfold unit_frontends. destruct (negb (u_node u =? 0)); eexists _, _; left; reflexivity. }
    destruct X as [k [fv0 Hin]]. pose proof (B u k fv0 Hu Hin) as NE.
    destruct (lookup fkey_eqb (fst d') k) as [fv|] eqn:E; [|congruence].
    destruct (A k fv E) as [u' [Hu' [Hin' [I1 [I2 _]]]]].
    exists k, fv. split; auto.
    (* the stored value is some unit's; its id and count need that unit to be u: use the unit's own value when keys are unique *)
    destruct (unit_frontend_unique _ _ _ _ _ _ _ _ _ _ _ _ W VV VA Hu' Hu Hin' Hin) as [-> _].
    split; [auto|]. rewrite I2. auto.
Qed.
