(* C42 — the three-map oracle replay3_ok (consistent and mg_consistent after each single write to any map) accepts
   every run of the three-map model with the repaired phase order. *)
From Coq Require Import List NArith Bool Arith Lia.
From Verif.C42 Require Import Model Spec Proofs ProofsApply ProofsFinal ProofsIds ProofsSpec ProofsPin ProofsMaglev
     ProofsSched ModelMg ProofsOracle ProofsMg ProofsProj ProofsSched3.
Import ListNotations.
Open Scope N_scope.

Lemma mgview_bounded : forall lut fe, lut <= COUNT_LIMIT -> fe_bounded (mgview lut fe).
Proof.
  intros lut fe L k v Hin. unfold mgview in Hin. apply in_map_iff in Hin. destruct Hin as [[k0 v0] [E _]].
  inversion E; subst. simpl. unfold mg_count. destruct (has_flag (fv_flags v0) FLG_MAGLEV && negb (fv_count v0 =? 0)); [auto|].
  unfold COUNT_LIMIT. lia.
Qed.

Lemma replay3_ok_complete : forall lut xs d,
  lut <= COUNT_LIMIT -> uk3 d -> fe_bounded (fst (fst d)) ->
  (forall k v, In (XW (WSetF k v)) xs -> fv_count v <= COUNT_LIMIT) ->
  Forall (inv3 lut) (states3_after d xs) ->
  replay3_ok true lut d xs = true /\ uk3 (do_xwrites d xs) /\ fe_bounded (fst (fst (do_xwrites d xs))).
Proof.
  intros lut. induction xs as [|x xs IH]; intros d L U B Hw HI; simpl in *; auto.
  inversion HI as [|s l [I1 I2] HI']; subst.
  pose proof (uk3_do_xwrites [x] d U) as U'. simpl in U'.
  assert (B' : fe_bounded (fst (fst (do_xwrite d x)))).
  { intros k v Hin. destruct x as [[k0 v0|k0|k0 v0|k0]|k0 v0|k0]; simpl in Hin; eauto.
    - apply in_upd in Hin. destruct Hin as [E|Hin]; [inversion E; subst; eapply Hw; left; reflexivity|eauto].
    - apply in_del' in Hin. eauto. }
  destruct (IH (do_xwrite d x) L U' B' (fun k v H => Hw k v (or_intror H)) HI') as [R X].
  split; auto. rewrite R. destruct U' as [U1 [U2 U3]].
  rewrite consistentb_complete; auto. simpl. unfold mg_consistentb.
  rewrite consistentb_complete; auto.
  - apply ukeys_mgview. auto.
  - apply mgview_bounded. auto.
Qed.

Lemma in_core_writes : forall xs w, In (XW w) xs -> In w (core_writes xs).
Proof.
  intros xs w H. unfold core_writes. apply in_flat_map. exists (XW w). split; auto. left. reflexivity.
Qed.

Definition dp3_good (lut : N) (d : dp3) : Prop := inv3 lut d /\ uk3 d /\ fe_bounded (fst (fst d)).

Lemma model3_meets_replay : forall cfg lut lutf sy d st v fF fB tr sy' d' err,
  lut <= COUNT_LIMIT -> dp3_good lut d -> st_bounded st ->
  exec_apply3 cfg true lut lutf sy d st v fF fB tr = Some (sy', d', err) ->
  replay3_ok true lut d tr = true /\ dp3_good lut d'.
Proof.
  intros cfg lut lutf sy d st v fF fB tr sy' d' err L [I [U B]] SB EA.
  destruct (exec_apply3_repaired _ _ _ _ _ _ _ _ _ _ _ _ _ I EA) as [SI I'].
  pose proof (exec_apply3_proj _ _ _ _ _ _ _ _ _ _ _ _ _ _ EA) as EA2.
  pose proof EA2 as EA0. apply exec_apply_inv in EA0. destruct EA0 as [next [us [_ [VA R]]]].
  assert (Hw : forall k fv, In (XW (WSetF k fv)) tr -> fv_count fv <= COUNT_LIMIT).
  { intros k fv Hin. apply (desired_fe_bounded cfg _ _ _ _ _ _ SB VA k fv). apply (run_phases_setf _ _ _ _ _ _ _ _ R k fv).
    apply in_core_writes. exact Hin. }
  assert (Ed : d' = do_xwrites d tr).
  { unfold exec_apply3 in EA. destruct (negb (visit_valid st v)); [discriminate|]. cbv zeta in EA.
    match type of EA with context [visit_all ?p ?n st v] => destruct (visit_all p n st v) as [[nx us0]|]; [|discriminate] end.
    match type of EA with context [run_gen fF fB ?g d tr] => destruct (run_gen fF fB g d tr) as [[d1 e1]|] eqn:RG; [|discriminate] end.
    inversion EA; subst. clear -RG.
    assert (G : forall gs d0 t d1 e, run_gen fF fB gs d0 t = Some (d1, e) -> d1 = do_xwrites d0 t).
    { induction gs as [|g gs IHg]; intros d0 t d1 e H; simpl in H.
      - destruct t; inversion H; subst. reflexivity.
      - destruct (run_xphase fF fB (g d0) d0 t) as [[[d2 f] r]|] eqn:RX; [|discriminate].
        apply run_xphase_spec in RX. destruct RX as [seg [-> [-> _]]]. rewrite do_xwrites_app.
        destruct f; [destruct r; inversion H; subst; reflexivity|]. eapply IHg; eauto. }
    eapply G; eauto. }
  destruct (replay3_ok_complete lut tr d L U B Hw SI) as [R3 [U' B']].
  split; [exact R3|]. subst d'. split; [exact I'|split; [exact U'|exact B']].
Qed.
