(* C42 — proofs, part 1: association lists, the invariant `consistent` is kept by every single write of every
   phase of exec_apply, for every schedule and every set of failing writes. *)
From Coq Require Import List NArith Bool Arith Lia Permutation.
From Verif.C42 Require Import Model Spec.
Import ListNotations.
Open Scope N_scope.

(* ------------------------------------------------------------------ decidable equalities *)
Lemma pair_eqb_spec : forall a b : N * N, pair_eqb a b = true <-> a = b.
Proof.
  intros [a1 a2] [b1 b2]. unfold pair_eqb. simpl. rewrite andb_true_iff, !N.eqb_eq.
  split; [intros [-> ->]; reflexivity | intros H; inversion H; auto].
Qed.
Lemma fkey_eqb_spec : forall a b, fkey_eqb a b = true <-> a = b.
Proof.
  intros [a1 a2 a3] [b1 b2 b3]. unfold fkey_eqb. simpl. rewrite !andb_true_iff, !N.eqb_eq.
  split; [intros [[-> ->] ->]; reflexivity | intros H; inversion H; auto].
Qed.
Lemma fval_eqb_spec : forall a b, fval_eqb a b = true <-> a = b.
Proof.
  intros [a1 a2 a3 a4 a5] [b1 b2 b3 b4 b5]. unfold fval_eqb. simpl. rewrite !andb_true_iff, !N.eqb_eq.
  split; [intros [[[[-> ->] ->] ->] ->]; reflexivity | intros H; inversion H; auto 10].
Qed.
Lemma write_eqb_spec : forall a b, write_eqb a b = true <-> a = b.
Proof.
  intros [k v|k|k v|k] [k' v'|k'|k' v'|k']; simpl; try (split; [discriminate | intros H; inversion H]).
  - rewrite andb_true_iff, fkey_eqb_spec, fval_eqb_spec. split; [intros [-> ->]; auto | intros H; inversion H; auto].
  - rewrite fkey_eqb_spec. split; [intros ->; auto | intros H; inversion H; auto].
  - rewrite andb_true_iff, !pair_eqb_spec. split; [intros [-> ->]; auto | intros H; inversion H; auto].
  - rewrite pair_eqb_spec. split; [intros ->; auto | intros H; inversion H; auto].
Qed.

(* ------------------------------------------------------------------ generic association-list facts *)
Section ALFacts.
  Variables K V : Type.
  Variable eqb : K -> K -> bool.
  Hypothesis eqb_spec : forall a b, eqb a b = true <-> a = b.

  Lemma eqb_refl : forall a, eqb a a = true.
  Proof. intros. apply eqb_spec. reflexivity. Qed.
  Lemma eqb_neq : forall a b, a <> b -> eqb a b = false.
  Proof. intros a b H. destruct (eqb a b) eqn:E; auto. apply eqb_spec in E. contradiction. Qed.
  Lemma eqb_dec : forall a b : K, {a = b} + {a <> b}.
  Proof.
    intros a b. destruct (eqb a b) eqn:E.
    - left. apply eqb_spec; auto.
    - right. intros ->. rewrite eqb_refl in E. discriminate.
  Qed.

  Lemma lookup_del_same : forall (m : list (K * V)) k, lookup eqb (del eqb k m) k = None.
  Proof.
    induction m as [|[k' v] m IH]; intros k; simpl; auto.
    destruct (eqb k k') eqn:E; auto. simpl. rewrite E. auto.
  Qed.
  Lemma lookup_del_other : forall (m : list (K * V)) k k', k <> k' -> lookup eqb (del eqb k m) k' = lookup eqb m k'.
  Proof.
    induction m as [|[k0 v] m IH]; intros k k' H; simpl; auto.
    destruct (eqb k k0) eqn:E.
    - apply eqb_spec in E. subst k0. rewrite (eqb_neq k' k) by congruence. auto.
    - simpl. destruct (eqb k' k0); auto.
  Qed.
  Lemma lookup_upd_same : forall (m : list (K * V)) k v, lookup eqb (upd eqb k v m) k = Some v.
  Proof. intros. unfold upd. simpl. rewrite eqb_refl. auto. Qed.
  Lemma lookup_upd_other : forall (m : list (K * V)) k v k', k <> k' -> lookup eqb (upd eqb k v m) k' = lookup eqb m k'.
  Proof.
    intros. unfold upd. simpl. rewrite (eqb_neq k' k) by congruence. apply lookup_del_other; auto.
  Qed.
  Lemma lookup_In : forall (m : list (K * V)) k v, lookup eqb m k = Some v -> In (k, v) m.
  Proof.
    induction m as [|[k0 v0] m IH]; intros k v H; simpl in *; try discriminate.
    destruct (eqb k k0) eqn:E.
    - apply eqb_spec in E. inversion H. subst. auto.
    - right. auto.
  Qed.
  Lemma In_lookup_some : forall (m : list (K * V)) k v, In (k, v) m -> lookup eqb m k <> None.
  Proof.
    induction m as [|[k0 v0] m IH]; intros k v H; simpl in *; try contradiction.
    destruct (eqb k k0) eqn:E; try discriminate.
    destruct H as [H|H]; [inversion H; subst; rewrite eqb_refl in E; discriminate | eauto].
  Qed.
  Lemma lookup_none_not_in : forall (m : list (K * V)) k, lookup eqb m k = None -> forall v, ~ In (k, v) m.
  Proof. intros m k H v Hin. apply In_lookup_some in Hin. contradiction. Qed.

  (* keys unique *)
  Definition ukeys (m : list (K * V)) : Prop := NoDup (map fst m).
  Lemma in_del : forall (m : list (K * V)) k x, In x (del eqb k m) -> In x m /\ fst x <> k.
  Proof.
    induction m as [|[k0 v0] m IH]; intros k x H; simpl in *; try contradiction.
    destruct (eqb k k0) eqn:E.
    - apply IH in H. tauto.
    - destruct H as [H|H].
      + subst x. split; auto. simpl. intros ->. rewrite eqb_refl in E. discriminate.
      + apply IH in H. tauto.
  Qed.
  Lemma ukeys_del : forall (m : list (K * V)) k, ukeys m -> ukeys (del eqb k m).
  Proof.
    unfold ukeys. induction m as [|[k0 v0] m IH]; intros k H; simpl in *; auto.
    inversion H; subst. destruct (eqb k k0); auto. simpl. constructor; auto.
    intros Hin. apply in_map_iff in Hin. destruct Hin as [x [Hx Hin]]. apply in_del in Hin.
    apply H2. apply in_map_iff. exists x. tauto.
  Qed.
  Lemma ukeys_upd : forall (m : list (K * V)) k v, ukeys m -> ukeys (upd eqb k v m).
  Proof.
    unfold ukeys, upd. intros m k v H. simpl. constructor.
    - intros Hin. apply in_map_iff in Hin. destruct Hin as [x [Hx Hin]]. apply in_del in Hin. tauto.
    - apply ukeys_del; auto.
  Qed.
  Lemma ukeys_In_lookup : forall (m : list (K * V)) k v, ukeys m -> In (k, v) m -> lookup eqb m k = Some v.
  Proof.
    unfold ukeys. induction m as [|[k0 v0] m IH]; intros k v U H; simpl in *; try contradiction.
    inversion U; subst. destruct H as [H|H].
    - inversion H; subst. rewrite eqb_refl. auto.
    - destruct (eqb k k0) eqn:E; auto. apply eqb_spec in E. subst k0.
      exfalso. apply H2. apply in_map_iff. exists (k, v). auto.
  Qed.
  Lemma ukeys_of_list : forall l : list (K * V), ukeys (of_list eqb l).
  Proof.
    intros l. unfold of_list.
    assert (G : forall (l m : list (K * V)), ukeys m -> ukeys (fold_left (fun m kv => upd eqb (fst kv) (snd kv) m) l m)).
    { induction l0 as [|x l0 IH]; intros m H; simpl; auto. apply IH. apply ukeys_upd; auto. }
    apply G. constructor.
  Qed.
  (* a key of of_list comes from the list *)
  Lemma of_list_lookup_in : forall (l : list (K * V)) k v, lookup eqb (of_list eqb l) k = Some v -> In (k, v) l.
  Proof.
    intros l. unfold of_list.
    assert (G : forall (l m : list (K * V)) k v, lookup eqb (fold_left (fun m kv => upd eqb (fst kv) (snd kv) m) l m) k = Some v ->
                                In (k, v) l \/ lookup eqb m k = Some v).
    { induction l0 as [|[k0 v0] l0 IH]; intros m k v H; cbn [fold_left fst snd In] in *; auto.
      apply IH in H. destruct H as [H|H]; auto.
      destruct (eqb_dec k0 k) as [->|Hne].
      - rewrite lookup_upd_same in H. inversion H; subst. auto.
      - rewrite lookup_upd_other in H by auto. auto. }
    intros k v H. apply G in H. destruct H as [H|H]; auto. discriminate.
  Qed.
  Lemma of_list_in_lookup : forall (l : list (K * V)) k v, In (k, v) l -> lookup eqb (of_list eqb l) k <> None.
  Proof.
    intros l. unfold of_list.
    assert (G : forall (l m : list (K * V)) k, (exists v, In (k, v) l) \/ lookup eqb m k <> None ->
                 lookup eqb (fold_left (fun m kv => upd eqb (fst kv) (snd kv) m) l m) k <> None).
    { induction l0 as [|[k0 v0] l0 IH]; intros m k H; cbn [fold_left fst snd In] in *.
      - destruct H as [[v []]|H]; auto.
      - apply IH. destruct H as [[v [H|H]]|H].
        + inversion H; subst. right. rewrite lookup_upd_same. discriminate.
        + left. eauto.
        + right. destruct (eqb_dec k0 k) as [->|Hne].
          * rewrite lookup_upd_same. discriminate.
          * rewrite lookup_upd_other; auto. }
    intros k v H. apply G. left. eauto.
  Qed.
End ALFacts.

Arguments ukeys {K V}.

(* ------------------------------------------------------------------ single writes keep `consistent` *)
Definition cons_dp (d : dp) : Prop := consistent (fst d) (snd d).

Lemma del_fe_consistent : forall fe be k, consistent fe be -> consistent (del fkey_eqb k fe) be.
Proof.
  intros fe be k H k' v Hl i Hi.
  destruct (eqb_dec _ fkey_eqb fkey_eqb_spec k k') as [->|Hne].
  - rewrite (lookup_del_same _ _ fkey_eqb) in Hl. discriminate.
  - rewrite (lookup_del_other _ _ fkey_eqb fkey_eqb_spec) in Hl by auto. eapply H; eauto.
Qed.
Lemma set_be_consistent : forall fe be k v, consistent fe be -> consistent fe (upd pair_eqb k v be).
Proof.
  intros fe be k v H k' v' Hl i Hi.
  destruct (eqb_dec _ pair_eqb pair_eqb_spec k (fv_id v', i)) as [->|Hne].
  - rewrite (lookup_upd_same _ _ pair_eqb pair_eqb_spec). discriminate.
  - rewrite (lookup_upd_other _ _ pair_eqb pair_eqb_spec) by auto. eapply H; eauto.
Qed.
Lemma set_fe_consistent : forall fe be k v,
  consistent fe be -> (forall i, i < fv_count v -> lookup pair_eqb be (fv_id v, i) <> None) ->
  consistent (upd fkey_eqb k v fe) be.
Proof.
  intros fe be k v H Hv k' v' Hl i Hi.
  destruct (eqb_dec _ fkey_eqb fkey_eqb_spec k k') as [->|Hne].
  - rewrite (lookup_upd_same _ _ fkey_eqb fkey_eqb_spec) in Hl. inversion Hl; subst. auto.
  - rewrite (lookup_upd_other _ _ fkey_eqb fkey_eqb_spec) in Hl by auto. eapply H; eauto.
Qed.
Lemma del_be_consistent : forall fe be k,
  consistent fe be ->
  (forall k' v', lookup fkey_eqb fe k' = Some v' -> forall i, i < fv_count v' -> k <> (fv_id v', i)) ->
  consistent fe (del pair_eqb k be).
Proof.
  intros fe be k H Hk k' v' Hl i Hi.
  rewrite (lookup_del_other _ _ pair_eqb pair_eqb_spec) by (eapply Hk; eauto). eapply H; eauto.
Qed.

Lemma states_after_app : forall ws1 ws2 d,
  states_after d (ws1 ++ ws2) = states_after d ws1 ++ states_after (do_writes d ws1) ws2.
Proof.
  induction ws1 as [|w ws1 IH]; intros ws2 d; simpl; auto. rewrite IH. reflexivity.
Qed.
Lemma do_writes_app : forall ws1 ws2 d, do_writes d (ws1 ++ ws2) = do_writes (do_writes d ws1) ws2.
Proof. intros. unfold do_writes. apply fold_left_app. Qed.

(* a sequence of writes each of which keeps an invariant that itself is kept *)
Lemma writes_keep : forall (P : dp -> Prop) (ok : write -> Prop),
  (forall d w, P d -> cons_dp d -> ok w -> P (do_write d w) /\ cons_dp (do_write d w)) ->
  forall ws d, P d -> cons_dp d -> Forall ok ws ->
  Forall cons_dp (states_after d ws) /\ P (do_writes d ws) /\ cons_dp (do_writes d ws).
Proof.
  intros P ok Hstep. induction ws as [|w ws IH]; intros d HP HC Hok; simpl.
  - auto.
  - inversion Hok; subst. destruct (Hstep d w HP HC H1) as [HP' HC'].
    destruct (IH _ HP' HC' H2) as [A [B C]]. auto.
Qed.

(* ------------------------------------------------------------------ perm_of *)
Lemma memb_In : forall A (eqb : A -> A -> bool), (forall a b, eqb a b = true <-> a = b) ->
  forall x l, memb eqb x l = true <-> In x l.
Proof.
  intros A eqb Hs x l. induction l as [|y l IH]; simpl.
  - split; [discriminate | contradiction].
  - rewrite orb_true_iff, IH, Hs. split; intros [H|H]; auto.
Qed.
Lemma nodupb_NoDup : forall A (eqb : A -> A -> bool), (forall a b, eqb a b = true <-> a = b) ->
  forall l, nodupb eqb l = true <-> NoDup l.
Proof.
  intros A eqb Hs l. induction l as [|y l IH]; simpl.
  - split; [constructor | auto].
  - rewrite andb_true_iff, negb_true_iff, IH. split.
    + intros [H1 H2]. constructor; auto. intros Hin. apply (memb_In _ _ Hs) in Hin. congruence.
    + intros H. inversion H; subst. split; auto. destruct (memb eqb y l) eqn:E; auto.
      apply (memb_In _ _ Hs) in E. contradiction.
Qed.
Lemma perm_of_spec : forall A (eqb : A -> A -> bool), (forall a b, eqb a b = true <-> a = b) ->
  forall l1 l2, perm_of eqb l1 l2 = true -> incl l1 l2 /\ incl l2 l1 /\ NoDup l1.
Proof.
  intros A eqb Hs l1 l2 H. unfold perm_of in H. rewrite !andb_true_iff in H. destruct H as [[HL HN] HI].
  apply Nat.eqb_eq in HL. apply (nodupb_NoDup _ _ Hs) in HN.
  assert (I12 : incl l1 l2).
  { intros x Hx. rewrite forallb_forall in HI. apply (memb_In _ _ Hs). auto. }
  split; auto. split; auto. apply NoDup_length_incl; auto. lia.
Qed.
