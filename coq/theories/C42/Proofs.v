(* C42 — proofs. *)
From Coq Require Import List NArith Bool Arith Lia.
From Verif.C42 Require Import Model Spec.
Import ListNotations.
Open Scope N_scope.

Lemma consistent_empty : consistent [] [].
Proof. intros k v H. discriminate. Qed.
