(* C42 — proofs, part 10: the three-map model (ModelMg).  With the repaired order every state passed through - one per
   single write to any of the three maps - is consistent AND maglev-consistent. *)
From Coq Require Import List NArith Bool Arith Lia.
From Verif.C42 Require Import Model Spec Proofs ProofsApply ProofsMaglev ModelMg.
Import ListNotations.
Open Scope N_scope.

Local Notation lkF := (lookup fkey_eqb).
Local Notation lkB := (lookup pair_eqb).
Local Notation FS := fkey_eqb_spec.
Local Notation BS := pair_eqb_spec.

Lemma xwrite_eqb_spec : forall a b, xwrite_eqb a b = true <-> a = b.
Proof.
  intros [w|k v|k] [w'|k' v'|k']; simpl; try (split; [discriminate|intros H; inversion H]).
  - rewrite write_eqb_spec. split; [intros ->; auto|intros H; inversion H; auto].
  - rewrite andb_true_iff, !pair_eqb_spec. split; [intros [-> ->]; auto|intros H; inversion H; auto].
  - rewrite pair_eqb_spec. split; [intros ->; auto|intros H; inversion H; auto].
Qed.

Lemma run_xphase_spec : forall fF fB pending d tr d2 failed rest,
  run_xphase fF fB pending d tr = Some (d2, failed, rest) ->
  exists seg, tr = seg ++ rest /\ d2 = do_xwrites d seg /\ incl seg pending /\ (failed = false -> incl pending seg).
Proof.
  intros fF fB pending d tr d2 failed rest H. unfold run_xphase in H.
  set (good := filter (fun x => negb (xfails fF fB x)) pending) in *.
  destruct (perm_of xwrite_eqb (firstn (length good) tr) good) eqn:E; [|discriminate].
  inversion H; subst. clear H. exists (firstn (length good) tr).
  apply (perm_of_spec _ _ xwrite_eqb_spec) in E. destruct E as [I1 [I2 _]].
  split; [symmetry; apply firstn_skipn|]. split; auto. split.
  - intros w Hw. apply I1 in Hw. unfold good in Hw. apply filter_In in Hw. tauto.
  - intros Hf w Hw. apply I2. unfold good. apply filter_In. split; auto.
    destruct (xfails fF fB w) eqn:Ew; auto.
    assert (existsb (xfails fF fB) pending = true) by (apply existsb_exists; eauto). congruence.
Qed.

Lemma incl_map_inv : forall A B (f : A -> B) (seg : list B) (L : list A),
  incl seg (map f L) -> exists ws, seg = map f ws /\ incl ws L.
Proof.
  induction seg as [|x seg IH]; intros L H.
  - exists []. split; auto. intros a [].
  - destruct (IH L) as [ws [E I]]; [intros a Ha; apply H; right; auto|].
    assert (Hx : In x (map f L)) by (apply H; left; auto). apply in_map_iff in Hx. destruct Hx as [w [<- Hw]].
    exists (w :: ws). split; [simpl; f_equal; auto|]. intros a [<-|Ha]; auto.
Qed.
Lemma incl_map_inj : forall A B (f : A -> B) (L ws : list A),
  (forall a b, f a = f b -> a = b) -> incl (map f L) (map f ws) -> incl L ws.
Proof.
  intros A B f L ws Hinj H a Ha. assert (X : In (f a) (map f ws)) by (apply H; apply in_map; auto).
  apply in_map_iff in X. destruct X as [b [E Hb]]. apply Hinj in E. subst. auto.
Qed.
Lemma XW_inj : forall a b, XW a = XW b -> a = b. Proof. intros a b H. inversion H. auto. Qed.
Lemma toM_inj : forall a b, toM a = toM b -> a = b.
Proof. intros [k v|k|k v|k] [k' v'|k'|k' v'|k'] H; simpl in H; inversion H; auto. Qed.

Lemma do_xwrites_app : forall xs1 xs2 d, do_xwrites d (xs1 ++ xs2) = do_xwrites (do_xwrites d xs1) xs2.
Proof. intros. unfold do_xwrites. apply fold_left_app. Qed.
Lemma states3_after_app : forall xs1 xs2 d,
  states3_after d (xs1 ++ xs2) = states3_after d xs1 ++ states3_after (do_xwrites d xs1) xs2.
Proof. induction xs1 as [|x xs1 IH]; intros xs2 d; simpl; auto. rewrite IH. reflexivity. Qed.

Lemma do_xwrites_core : forall ws d, do_xwrites d (map XW ws) = (do_writes (fst d) ws, snd d).
Proof.
  induction ws as [|w ws IH]; intros d; simpl.
  - destruct d; reflexivity.
  - change (do_xwrites (do_xwrite d (XW w)) (map XW ws) = (do_writes (do_write (fst d) w) ws, snd d)).
    rewrite IH. reflexivity.
Qed.

(* LUT phases: writes are backend-style writes on the pair (anything, LUT map) *)
Lemma do_xwrites_mg : forall ws d X, (forall w, In w ws -> isDelB w \/ isSetB w) ->
  do_xwrites d (map toM ws) = (fst d, snd (do_writes (X, snd d) ws)).
Proof.
  induction ws as [|w ws IH]; intros d X H; simpl.
  - destruct d; reflexivity.
  - change (do_xwrites (do_xwrite d (toM w)) (map toM ws) = (fst d, snd (do_writes (do_write (X, snd d) w) ws))).
    destruct (H w (or_introl eq_refl)) as [[k ->]|[k [v ->]]]; simpl;
      rewrite (IH _ X) by (intros; apply H; right; auto); reflexivity.
Qed.

Lemma mgview_del : forall lut k fe, mgview lut (del fkey_eqb k fe) = del fkey_eqb k (mgview lut fe).
Proof.
  induction fe as [|[k0 v0] fe IH]; simpl; auto. destruct (fkey_eqb k k0); simpl; rewrite IH; reflexivity.
Qed.
Lemma mgview_upd : forall lut k v fe,
  mgview lut (upd fkey_eqb k v fe) = upd fkey_eqb k (FV (fv_id v) (mg_count lut v) 0 0 0) (mgview lut fe).
Proof. intros. unfold upd. simpl. rewrite mgview_del. reflexivity. Qed.

Section Three.
  Variables (lut : N) (dfe : femap) (dbe dmg : bemap).
  Hypothesis Hc1 : consistent dfe dbe.
  Hypothesis Hc2 : consistent (mgview lut dfe) dmg.
  Hypothesis Ufe : ukeys dfe.
  Hypothesis Ube : ukeys dbe.
  Hypothesis Umg : ukeys dmg.

  Definition viewd (d : dp3) : dp := (mgview lut (fst (fst d)), snd d).
  Definition Inv3 (d : dp3) : Prop := cons_dp (fst d) /\ cons_dp (viewd d).

  Lemma xwrites_keep : forall (P : dp3 -> Prop) (ok : xwrite -> Prop),
    (forall d x, P d -> Inv3 d -> ok x -> P (do_xwrite d x) /\ Inv3 (do_xwrite d x)) ->
    forall xs d, P d -> Inv3 d -> Forall ok xs ->
    Forall Inv3 (states3_after d xs) /\ P (do_xwrites d xs) /\ Inv3 (do_xwrites d xs).
  Proof.
    intros P ok Hstep. induction xs as [|x xs IH]; intros d HP HI Hok; simpl; auto.
    inversion Hok; subst. destruct (Hstep d x HP HI H1) as [HP' HI'].
    destruct (IH _ HP' HI' H2) as [A [B C]]. auto.
  Qed.

  Lemma step_delF : forall d k, Inv3 d -> Inv3 (do_xwrite d (XW (WDelF k))).
  Proof.
    intros [[fe be] mg] k [I1 I2]. unfold Inv3, viewd, cons_dp in *. cbn [fst snd do_xwrite do_write] in *. split.
    - apply del_fe_consistent; auto.
    - rewrite mgview_del. apply del_fe_consistent; auto.
  Qed.
  Lemma step_setB : forall d k v, Inv3 d -> Inv3 (do_xwrite d (XW (WSetB k v))).
  Proof.
    intros [[fe be] mg] k v [I1 I2]. unfold Inv3, viewd, cons_dp in *. cbn [fst snd do_xwrite do_write] in *. split; auto.
    apply set_be_consistent; auto.
  Qed.
  Lemma step_setM : forall d k v, Inv3 d -> Inv3 (do_xwrite d (XSetM k v)).
  Proof.
    intros [[fe be] mg] k v [I1 I2]. unfold Inv3, viewd, cons_dp in *. cbn [fst snd do_xwrite do_write] in *. split; auto.
    apply set_be_consistent; auto.
  Qed.
  Lemma step_setF : forall d k v, Inv3 d -> lkF dfe k = Some v ->
    (forall key a, lkB dbe key = Some a -> lkB (snd (fst d)) key = Some a) ->
    (forall key a, lkB dmg key = Some a -> lkB (snd d) key = Some a) ->
    Inv3 (do_xwrite d (XW (WSetF k v))).
  Proof.
    intros [[fe be] mg] k v [I1 I2] L PB PM. unfold Inv3, viewd, cons_dp in *. cbn [fst snd do_xwrite do_write] in *. split.
    - apply set_fe_consistent; auto. intros i Hi.
      destruct (lkB dbe (fv_id v, i)) as [a|] eqn:E; [rewrite (PB _ _ E); discriminate|].
      exfalso. eapply Hc1; eauto.
    - rewrite mgview_upd. apply set_fe_consistent; auto. cbn [fv_id fv_count]. intros i Hi.
      destruct (lkB dmg (fv_id v, i)) as [a|] eqn:E; [rewrite (PM _ _ E); discriminate|].
      exfalso. eapply (Hc2 k (FV (fv_id v) (mg_count lut v) 0 0 0)); eauto. rewrite lookup_mgview, L. reflexivity.
  Qed.
  Lemma step_delM : forall d k, Inv3 d -> lkB dmg k = None ->
    (forall key, lkF (fst (fst d)) key = lkF dfe key) -> Inv3 (do_xwrite d (XDelM k)).
  Proof.
    intros [[fe be] mg] k [I1 I2] L PF. unfold Inv3, viewd, cons_dp in *. cbn [fst snd do_xwrite do_write] in *. split; auto.
    apply del_be_consistent; auto. intros k' v' Hl i Hi ->.
    rewrite lookup_mgview, PF, <- lookup_mgview in Hl. eapply Hc2; eauto.
  Qed.
  Lemma step_delB : forall d k, Inv3 d -> lkB dbe k = None ->
    (forall key, lkF (fst (fst d)) key = lkF dfe key) -> Inv3 (do_xwrite d (XW (WDelB k))).
  Proof.
    intros [[fe be] mg] k [I1 I2] L PF. unfold Inv3, viewd, cons_dp in *. cbn [fst snd do_xwrite do_write] in *. split; auto.
    apply del_be_consistent; auto. intros k' v' Hl i Hi ->. rewrite PF in Hl. eapply Hc1; eauto.
  Qed.

  (* a segment of core writes *)
  Lemma seg_core : forall (L : list write) seg d (ok : xwrite -> Prop) (P : dp3 -> Prop),
    incl seg (map XW L) ->
    (forall w, In w L -> ok (XW w)) ->
    (forall d x, P d -> Inv3 d -> ok x -> P (do_xwrite d x) /\ Inv3 (do_xwrite d x)) ->
    P d -> Inv3 d ->
    exists ws, seg = map XW ws /\ incl ws L /\ (incl (map XW L) seg -> incl L ws)
               /\ do_xwrites d seg = (do_writes (fst d) ws, snd d)
               /\ Forall Inv3 (states3_after d seg) /\ P (do_xwrites d seg) /\ Inv3 (do_xwrites d seg).
  Proof.
    intros L seg d ok P I Hok Hstep HP HI.
    destruct (incl_map_inv _ _ XW seg L I) as [ws [-> Iw]].
    exists ws. split; auto. split; auto. split; [intros H; eapply incl_map_inj; [apply XW_inj|exact H]|].
    split; [apply do_xwrites_core|].
    apply (xwrites_keep P ok Hstep); auto.
    apply Forall_forall. intros x Hx. apply in_map_iff in Hx. destruct Hx as [w [<- Hw]]. auto.
  Qed.

  (* a segment of LUT writes *)
  Lemma seg_mg : forall (L : list write) seg d (ok : xwrite -> Prop) (P : dp3 -> Prop) X,
    incl seg (map toM L) ->
    (forall w, In w L -> (isDelB w \/ isSetB w) /\ ok (toM w)) ->
    (forall d x, P d -> Inv3 d -> ok x -> P (do_xwrite d x) /\ Inv3 (do_xwrite d x)) ->
    P d -> Inv3 d ->
    exists ws, seg = map toM ws /\ incl ws L /\ (incl (map toM L) seg -> incl L ws)
               /\ do_xwrites d seg = (fst d, snd (do_writes (X, snd d) ws))
               /\ Forall Inv3 (states3_after d seg) /\ P (do_xwrites d seg) /\ Inv3 (do_xwrites d seg).
  Proof.
    intros L seg d ok P X I Hok Hstep HP HI.
    destruct (incl_map_inv _ _ toM seg L I) as [ws [-> Iw]].
    exists ws. split; auto. split; auto. split; [intros H; eapply incl_map_inj; [apply toM_inj|exact H]|].
    split; [apply do_xwrites_mg; intros w Hw; apply Hok; auto|].
    apply (xwrites_keep P ok Hstep); auto.
    apply Forall_forall. intros x Hx. apply in_map_iff in Hx. destruct Hx as [w [<- Hw]]. apply Hok; auto.
  Qed.

  Lemma Forall_app2 : forall A (P : A -> Prop) l1 l2, Forall P l1 -> Forall P l2 -> Forall P (l1 ++ l2).
  Proof. intros. apply Forall_app. auto. Qed.

  Definition PBM (d : dp3) : Prop :=
    (forall key a, lkB dbe key = Some a -> lkB (snd (fst d)) key = Some a)
    /\ (forall key a, lkB dmg key = Some a -> lkB (snd d) key = Some a).
  Definition PFE (d : dp3) : Prop := forall key, lkF (fst (fst d)) key = lkF dfe key.

  Lemma run_gen_repaired : forall fF fB d tr d' err,
    Inv3 d -> run_gen fF fB (gens true dfe dbe dmg) d tr = Some (d', err) ->
    Forall Inv3 (states3_after d tr) /\ Inv3 d'.
  Proof.
    intros fF fB d tr d' err HI H. unfold gens in H. cbn [run_gen] in H.
    (* phase 1: frontend deletions *)
    destruct (run_xphase fF fB (g_delfe dfe d) d tr) as [[[d1 f1] r1]|] eqn:R1; [|discriminate].
    apply run_xphase_spec in R1. destruct R1 as [s1 [-> [-> [I1 C1]]]].
    destruct (seg_core (phase_del_fe dfe (fst (fst d))) s1 d (fun x => exists k, x = XW (WDelF k)) (fun _ => True))
      as [w1 [_ [Iw1 [Cw1 [D1 [A1 [_ B1]]]]]]]; auto.
    { intros w Hw. apply in_phase_del_fe in Hw. destruct Hw as [k [v [-> _]]]. eauto. }
    { intros d0 x _ HI0 [k ->]. split; auto. apply step_delF; auto. }
    rewrite states3_after_app.
    destruct f1.
    { destruct r1; inversion H; subst. simpl. rewrite app_nil_r. auto. }
    specialize (Cw1 (C1 eq_refl)).
    destruct (phase2 dfe (fst d) w1 (proj1 HI) Iw1) as [_ [_ [_ [_ D2]]]]. specialize (D2 Cw1).
    remember (do_xwrites d s1) as d1 eqn:Ed1.
    assert (Ec1 : fst d1 = do_writes (fst d) w1) by (rewrite D1; reflexivity).
    (* phase 2: backend updates *)
    destruct (run_xphase fF fB (g_setbe dbe d1) d1 r1) as [[[d2' f2] r2]|] eqn:R2; [|discriminate].
    apply run_xphase_spec in R2. destruct R2 as [s2 [-> [-> [I2 C2]]]].
    destruct (seg_core (phase_set_be dbe (snd (fst d1))) s2 d1 (fun x => exists k v, x = XW (WSetB k v)) (fun _ => True))
      as [w2 [_ [Iw2 [Cw2 [D2' [A2 [_ B2]]]]]]]; auto.
    { intros w Hw. apply in_phase_set_be in Hw. destruct Hw as [k [v [-> _]]]. eauto. }
    { intros d0 x _ HI0 [k [v ->]]. split; auto. apply step_setB; auto. }
    rewrite states3_after_app.
    destruct f2.
    { destruct r2; inversion H; subst. simpl. rewrite app_nil_r. split; [apply Forall_app2; auto|auto]. }
    specialize (Cw2 (C2 eq_refl)).
    destruct (phase3 dbe Ube (fst d1) w2 (proj1 B1) Iw2) as [_ [_ [S3 D3]]]. specialize (D3 Cw2).
    remember (do_xwrites d1 s2) as d2 eqn:Ed2.
    assert (Ec2 : fst d2 = do_writes (fst d1) w2) by (rewrite D2'; reflexivity).
    (* phase 3: LUT updates *)
    destruct (run_xphase fF fB (g_setmg dmg d2) d2 r2) as [[[d3' f3] r3]|] eqn:R3; [|discriminate].
    apply run_xphase_spec in R3. destruct R3 as [s3 [-> [-> [I3 C3]]]].
    destruct (seg_mg (phase_set_be dmg (snd d2)) s3 d2 (fun x => exists k v, x = XSetM k v) (fun _ => True) (mgview lut (fst (fst d2))))
      as [w3 [_ [Iw3 [Cw3 [D3' [A3 [_ B3]]]]]]]; auto.
    { intros w Hw. apply in_phase_set_be in Hw. destruct Hw as [k [v [-> _]]]. split; [right; exists k, v; auto|simpl; eauto]. }
    { intros d0 x _ HI0 [k [v ->]]. split; auto. apply step_setM; auto. }
    rewrite states3_after_app.
    destruct f3.
    { destruct r3; inversion H; subst. simpl. rewrite app_nil_r. split; [apply Forall_app2; auto; apply Forall_app2; auto|auto]. }
    specialize (Cw3 (C3 eq_refl)).
    destruct (phase3 dmg Umg (mgview lut (fst (fst d2)), snd d2) w3 (proj2 B2) Iw3) as [_ [_ [_ D4]]]. specialize (D4 Cw3).
    remember (do_xwrites d2 s3) as d3 eqn:Ed3.
    assert (Ec3 : fst d3 = fst d2) by (rewrite D3'; reflexivity).
    assert (Em3 : snd d3 = snd (do_writes (mgview lut (fst (fst d2)), snd d2) w3)) by (rewrite D3'; reflexivity).
    assert (P3 : PBM d3).
    { split.
      - intros key a Hk. rewrite Ec3, Ec2. apply D3; auto.
      - intros key a Hk. rewrite Em3. apply D4; auto. }
    (* phase 4: frontend updates *)
    destruct (run_xphase fF fB (g_setfe dfe d3) d3 r3) as [[[d4' f4] r4]|] eqn:R4; [|discriminate].
    apply run_xphase_spec in R4. destruct R4 as [s4 [-> [-> [I4 C4]]]].
    destruct (seg_core (phase_set_fe dfe (fst (fst d3))) s4 d3
                (fun x => exists k v, x = XW (WSetF k v) /\ lkF dfe k = Some v) PBM)
      as [w4 [_ [Iw4 [Cw4 [D4' [A4 [P4 B4]]]]]]]; auto.
    { intros w Hw. apply in_phase_set_fe in Hw. destruct Hw as [k [v [-> [Hin _]]]]. exists k, v. split; auto.
      apply (ukeys_In_lookup _ _ fkey_eqb FS); auto. }
    { intros d0 x [PB PM] HI0 [k [v [-> L]]]. split; [split; auto|]. apply step_setF; auto. }
    rewrite states3_after_app.
    destruct f4.
    { destruct r4; inversion H; subst. simpl. rewrite app_nil_r.
      split; [apply Forall_app2; auto; apply Forall_app2; auto; apply Forall_app2; auto|auto]. }
    specialize (Cw4 (C4 eq_refl)).
    destruct (phase5 dfe dbe Hc1 Ufe (fst d3) w4 (proj1 B3) (proj1 P3) Iw4) as [_ [_ [_ [K5 D5]]]]. specialize (D5 Cw4).
    remember (do_xwrites d3 s4) as d4 eqn:Ed4.
    assert (Ec4 : fst d4 = do_writes (fst d3) w4) by (rewrite D4'; reflexivity).
    assert (F5 : PFE d4).
    { intros key. unfold PFE. rewrite Ec4. destruct (lkF dfe key) as [v|] eqn:E.
      - apply D5; auto.
      - rewrite K5 by auto. rewrite Ec3, Ec2, S3, Ec1. apply D2; auto. }
    (* phase 5: LUT deletions *)
    destruct (run_xphase fF fB (g_delmg dmg d4) d4 r4) as [[[d5' f5] r5]|] eqn:R5; [|discriminate].
    apply run_xphase_spec in R5. destruct R5 as [s5 [-> [-> [I5 C5]]]].
    destruct (seg_mg (phase_del_be dmg (snd d4)) s5 d4 (fun x => exists k, x = XDelM k /\ lkB dmg k = None) PFE (mgview lut (fst (fst d4))))
      as [w5 [_ [_ [_ [_ [A5 [P5 B5]]]]]]]; auto.
    { intros w Hw. apply in_phase_del_be in Hw. destruct Hw as [k [v [-> [_ L]]]]. split; [left; exists k; auto|simpl; eauto]. }
    { intros d0 x PF HI0 [k [-> L]]. split; [exact PF|]. apply step_delM; auto. }
    rewrite states3_after_app.
    destruct f5.
    { destruct r5; inversion H; subst. simpl. rewrite app_nil_r.
      split; [apply Forall_app2; auto; apply Forall_app2; auto; apply Forall_app2; auto; apply Forall_app2; auto|auto]. }
    remember (do_xwrites d4 s5) as d5 eqn:Ed5.
    (* phase 6: backend deletions *)
    destruct (run_xphase fF fB (g_delbe dbe d5) d5 r5) as [[[d6' f6] r6]|] eqn:R6; [|discriminate].
    apply run_xphase_spec in R6. destruct R6 as [s6 [-> [-> [I6 C6]]]].
    destruct (seg_core (phase_del_be dbe (snd (fst d5))) s6 d5 (fun x => exists k, x = XW (WDelB k) /\ lkB dbe k = None) PFE)
      as [w6 [_ [_ [_ [_ [A6 [P6 B6]]]]]]]; auto.
    { intros w Hw. apply in_phase_del_be in Hw. destruct Hw as [k [v [-> [_ L]]]]. eauto. }
    { intros d0 x PF HI0 [k [-> L]]. split; [exact PF|]. apply step_delB; auto. }
    rewrite states3_after_app.
    assert (X : r6 = [] /\ d' = do_xwrites d5 s6).
    { destruct f6; destruct r6; inversion H; subst; auto. }
    destruct X as [-> ->]. simpl. rewrite app_nil_r.
    split; [|auto].
    apply Forall_app2; auto; apply Forall_app2; auto; apply Forall_app2; auto; apply Forall_app2; auto; apply Forall_app2; auto.
  Qed.
End Three.

(* ------------------------------------------------------------------ exec_apply3 and histories *)
Definition inv3 (lut : N) (d : dp3) : Prop :=
  consistent (fst (fst d)) (snd (fst d)) /\ mg_consistent lut (fst (fst d)) (snd d).

Lemma exec_apply3_repaired : forall cfg lut lutf sy d st v fF fB tr sy' d' err,
  inv3 lut d -> exec_apply3 cfg true lut lutf sy d st v fF fB tr = Some (sy', d', err) ->
  Forall (inv3 lut) (states3_after d tr) /\ inv3 lut d'.
Proof.
  intros cfg lut lutf sy d st v fF fB tr sy' d' err HI H. unfold exec_apply3 in H.
  destruct (negb (visit_valid st v)); [discriminate|]. cbv zeta in H.
  match type of H with context [visit_all ?p ?n st v] => destruct (visit_all p n st v) as [[next us]|]; [|discriminate] end.
  match type of H with context [run_gen fF fB ?g d tr] => destruct (run_gen fF fB g d tr) as [[d1 e1]|] eqn:R; [|discriminate] end.
  inversion H; subst.
  apply (run_gen_repaired lut _ _ _ (desired_consistent _ _) (desired_mg_consistent _ lut lutf _)
           (ukeys_of_list _ _ fkey_eqb FS _) (ukeys_of_list _ _ pair_eqb BS _) (ukeys_of_list _ _ pair_eqb BS _)) in R; auto.
Qed.

Lemma history3_repaired : forall cfg lut lutf ops sy d states sy' d',
  inv3 lut d -> run_history3 cfg true lut lutf sy d ops = Some (states, sy', d') ->
  Forall (inv3 lut) states /\ inv3 lut d'.
Proof.
  intros cfg lut lutf. induction ops as [|o ops IH]; intros sy d states sy' d' HI H; simpl in H.
  - inversion H; subst. auto.
  - destruct o as [st v fF fB tr|].
    + destruct (exec_apply3 cfg true lut lutf sy d st v fF fB tr) as [[[sy1 d1] e1]|] eqn:E; [|discriminate].
      destruct (run_history3 cfg true lut lutf sy1 d1 ops) as [[[l sy2] d2]|] eqn:R; [|discriminate].
      inversion H; subst. destruct (exec_apply3_repaired _ _ _ _ _ _ _ _ _ _ _ _ _ HI E) as [A C].
      destruct (IH _ _ _ _ _ C R) as [A' C']. split; auto. apply Forall_app. auto.
    + eapply IH; eauto.
Qed.

(* the pinned order: a history accepted by the model (mgfix = false) passes through a state that is not maglev-consistent *)
Definition pw_eps := [Ep 167837953 8000 true false 3232235522].
Definition pw_m := Svc 0 174063617 80 6 0 [] [] false false 0 true false.
Definition pw_plain := Svc 0 174063617 80 6 0 [] [] false false 0 false false.
Definition pw_lutf (eps : list ep) (j : N) : bval := (167837953, 8000).
Definition pw_ops : list mop3 :=
  [ MApply3 [(pw_m, pw_eps)] [(0, [])] [] []
      [XW (WSetB (0,0) (167837953,8000)); XSetM (0,0) (167837953,8000); XSetM (0,1) (167837953,8000);
       XW (WSetF (FK 174063617 80 6) (FV 0 1 0 0 8))];
    MApply3 [(pw_plain, pw_eps)] [(0, [])] [] []
      [XDelM (0,1); XDelM (0,0); XW (WSetF (FK 174063617 80 6) (FV 0 1 0 0 0))] ].
Definition pinned_check : option (list bool) :=
  match run_history3 (Config [3232235521] true) false 2 pw_lutf new_syncer (([], []), []) pw_ops with
  | Some (states, _, _) => Some (map (fun s => mg_consistentb 2 (fst (fst s)) (snd s)) states)
  | None => None
  end.
Lemma pinned_check_eq : pinned_check = Some [true; true; true; true; false; false; true].
Proof. vm_compute. reflexivity. Qed.
Lemma pinned_order_refuted :
  exists states sy d,
    run_history3 (Config [3232235521] true) false 2 pw_lutf new_syncer (([], []), []) pw_ops = Some (states, sy, d)
    /\ map (fun s => mg_consistentb 2 (fst (fst s)) (snd s)) states = [true; true; true; true; false; false; true].
Proof.
  pose proof pinned_check_eq as H. unfold pinned_check in H.
  destruct (run_history3 (Config [3232235521] true) false 2 pw_lutf new_syncer (([], []), []) pw_ops) as [[[states sy] d]|]; [|discriminate].
  inversion H. exists states, sy, d. auto.
Qed.
