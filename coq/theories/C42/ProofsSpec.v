(* C42 — proofs, part 5: the frontends of the applySvc units are exactly the frontends the services ask for
   (Spec.spec_frontends), each with the endpoint set and the local-only flags the specification requires. *)
From Coq Require Import List NArith Bool Arith Lia.
From Verif.C42 Require Import Model Spec Proofs ProofsApply ProofsFinal ProofsIds.
Import ListNotations.
Open Scope N_scope.

Definition remote_eps (eps : list ep) (n : N) : list ep := filter (fun e => e_node e =? n) eps.

Lemma visit_nodes_units : forall prev s eps nodes next next' us,
  visit_nodes prev next s eps nodes = (next', us) ->
  (forall u, In u us -> In (u_node u) nodes /\ u_svc u = remote_svc s (u_node u) /\ u_eps u = remote_eps eps (u_node u))
  /\ (forall n, In n nodes -> exists u, In u us /\ u_node u = n /\ u_svc u = remote_svc s n /\ u_eps u = remote_eps eps n).
Proof.
  induction nodes as [|n t IH]; intros next next' us H; simpl in H.
  - inversion H; subst. split; [intros u []|intros n []].
  - destruct (pick_id prev next (s_name s, n) (remote_svc s n)) as [id next1] eqn:P.
    destruct (visit_nodes prev next1 s eps t) as [next2 us'] eqn:V. inversion H; subst.
    apply IH in V. destruct V as [V1 V2]. split.
    + intros u [<-|Hu]; simpl; [auto|]. destruct (V1 u Hu) as [A B]. auto.
    + intros m [<-|Hm].
      * eexists. split; [left; reflexivity|]. simpl. auto.
      * destruct (V2 m Hm) as [u [Hu X]]. exists u. split; [right; auto|auto].
Qed.

Definition primary_of (s : svc) (eps : list ep) (u : unit_) : Prop := u_node u = 0 /\ u_svc u = s /\ u_eps u = eps.
Definition remote_of (s : svc) (eps : list ep) (u : unit_) : Prop :=
  wants_remote s = true /\ In (u_node u) (remote_nodes eps) /\ u_svc u = remote_svc s (u_node u) /\ u_eps u = remote_eps eps (u_node u).

Lemma visit_all_units : forall prev st v next next' us,
  visit_all prev next st v = Some (next', us) ->
  (forall u, In u us -> exists name nodes s eps, In (name, nodes) v /\ find_svc st name = Some (s, eps)
                                        /\ (primary_of s eps u \/ remote_of s eps u))
  /\ (forall name nodes s eps, In (name, nodes) v -> find_svc st name = Some (s, eps) ->
        (exists u, In u us /\ primary_of s eps u)
        /\ (wants_remote s = true -> forall n, In n (remote_nodes eps) ->
              exists u, In u us /\ u_node u = n /\ u_svc u = remote_svc s n /\ u_eps u = remote_eps eps n)).
Proof.
  induction v as [|[name nodes] t IH]; intros next next' us H; simpl in H.
  - inversion H; subst. split; [intros u []|intros ? ? ? ? []].
  - destruct (find_svc st name) as [[s eps]|] eqn:F; [|discriminate].
    destruct (perm_of N.eqb nodes (if wants_remote s then remote_nodes eps else [])) eqn:P; simpl in H; [|discriminate].
    destruct (visit_svc prev next s eps nodes) as [next1 us1] eqn:V.
    destruct (visit_all prev next1 st t) as [[next2 us2]|] eqn:R; [|discriminate].
    inversion H; subst. apply IH in R. destruct R as [R1 R2].
    apply (perm_of_spec _ _ (fun a b => N.eqb_eq a b)) in P. destruct P as [I1 [I2 _]].
    unfold visit_svc in V.
    destruct (pick_id prev next (s_name s, 0) s) as [id nx] eqn:PI.
    destruct (visit_nodes prev nx s eps (if wants_remote s then nodes else [])) as [nx2 usr] eqn:VN.
    inversion V; subst. apply visit_nodes_units in VN. destruct VN as [N1 N2].
    split.
    + intros u Hu. apply in_app_or in Hu. destruct Hu as [[<-|Hu]|Hu].
      * exists name, nodes, s, eps. split; [left; auto|]. split; auto. left. repeat split; reflexivity.
      * exists name, nodes, s, eps. split; [left; auto|]. split; auto. right.
        destruct (N1 u Hu) as [A [B C]]. destruct (wants_remote s) eqn:W; [|contradiction].
        repeat split; auto.
      * destruct (R1 u Hu) as [nm [nd [s' [eps' [A B]]]]]. exists nm, nd, s', eps'. split; [right; auto|auto].
    + intros nm nd s' eps' [E|Hin] F'.
      * inversion E; subst. rewrite F in F'. inversion F'; subst. split.
        -- eexists. split; [apply in_or_app; left; left; reflexivity|]. repeat split; reflexivity.
        -- intros W n Hn. rewrite W in *. destruct (N2 n (I2 n Hn)) as [u [Hu X]].
           exists u. split; [apply in_or_app; left; right; auto|auto].
      * destruct (R2 _ _ _ _ Hin F') as [[u [Hu X]] Y]. split.
        -- exists u. split; [apply in_or_app; right; auto|auto].
        -- intros W n Hn. destruct (Y W n Hn) as [u' [Hu' X']]. exists u'. split; [apply in_or_app; right; auto|auto].
Qed.

(* flags *)
Lemma flags_main : forall a b x, has_flag (flag a FLG_INT_LOCAL + flag b FLG_MAGLEV + flag x FLG_EXCLUDE) FLG_INT_LOCAL = a
  /\ has_flag (flag a FLG_INT_LOCAL + flag b FLG_MAGLEV + flag x FLG_EXCLUDE) FLG_EXT_LOCAL = false
  /\ has_flag (flag a FLG_INT_LOCAL + flag b FLG_MAGLEV + flag x FLG_EXCLUDE) FLG_MAGLEV = b
  /\ has_flag (flag a FLG_INT_LOCAL + flag b FLG_MAGLEV + flag x FLG_EXCLUDE) FLG_EXCLUDE = x.
Proof. intros [|] [|] [|]; repeat split; reflexivity. Qed.
Lemma flags_lb : forall m a b x, has_flag (flag m FLG_MAGLEV + flag a FLG_EXT_LOCAL + flag b FLG_INT_LOCAL + flag x FLG_EXCLUDE) FLG_EXT_LOCAL = a
  /\ has_flag (flag m FLG_MAGLEV + flag a FLG_EXT_LOCAL + flag b FLG_INT_LOCAL + flag x FLG_EXCLUDE) FLG_MAGLEV = m
  /\ has_flag (flag m FLG_MAGLEV + flag a FLG_EXT_LOCAL + flag b FLG_INT_LOCAL + flag x FLG_EXCLUDE) FLG_EXCLUDE = x.
Proof. intros [|] [|] [|] [|]; repeat split; reflexivity. Qed.
Lemma flags_np : forall a b x, has_flag (flag a FLG_EXT_LOCAL + flag b FLG_INT_LOCAL + flag x FLG_EXCLUDE) FLG_EXT_LOCAL = a
  /\ has_flag (flag a FLG_EXT_LOCAL + flag b FLG_INT_LOCAL + flag x FLG_EXCLUDE) FLG_MAGLEV = false
  /\ has_flag (flag a FLG_EXT_LOCAL + flag b FLG_INT_LOCAL + flag x FLG_EXCLUDE) FLG_EXCLUDE = x.
Proof. intros [|] [|] [|]; repeat split; reflexivity. Qed.
Lemma flags_ext : forall m x, has_flag (flag m FLG_MAGLEV + flag x FLG_EXCLUDE) FLG_MAGLEV = m
  /\ has_flag (flag m FLG_MAGLEV + flag x FLG_EXCLUDE) FLG_EXCLUDE = x.
Proof. intros [|] [|]; split; reflexivity. Qed.

Definition value_meets_spec (k : kind) (s : svc) (eps : list ep) (u : unit_) (fv : fval) : Prop :=
  filter e_ready (u_eps u) = wanted k eps
  /\ fv_aff fv = s_sticky s
  /\ flag_ok (ext_local_required k s) (fv_flags fv) FLG_EXT_LOCAL = true
  /\ flag_ok (int_local_required k s) (fv_flags fv) FLG_INT_LOCAL = true
  /\ (has_flag (fv_flags fv) FLG_MAGLEV = true -> s_maglev s = true)
  /\ has_flag (fv_flags fv) FLG_EXCLUDE = s_exclude s.

(* every frontend a service asks for is a frontend of one of its units, with the required endpoints and flags *)
Lemma primary_covers : forall npips s eps u k kd,
  primary_of s eps u -> In (k, kd) (spec_frontends npips s eps) -> (forall n, kd <> KRemote n) ->
  exists fv, In (k, fv) (unit_frontends npips u) /\ value_meets_spec kd s eps u fv.
Proof.
  intros npips s eps u k kd [Hn [Hs He]] Hin NR. destruct u as [un unode uid usvc ueps]. simpl in Hn, Hs, He. subst unode usvc ueps.
  unfold unit_frontends. cbn [u_node u_svc]. change (negb (0 =? 0)) with false. cbv iota.
  unfold spec_frontends in Hin. unfold value_meets_spec. cbn [u_eps].
  destruct Hin as [Hin|Hin].
  - inversion Hin; subst. eexists. split; [left; reflexivity|].
    destruct (flags_main (s_intlocal s) (s_maglev s && negb (u_count (U un 0 uid s eps) =? 0)) (s_exclude s)) as [F1 [F2 [F3 F4]]].
    split; [reflexivity|]. split; [reflexivity|]. unfold mkfv. cbn [fv_flags ext_local_required int_local_required flag_ok].
    rewrite F1, F2, F3, F4. split; [reflexivity|]. split; [apply eqb_reflx|]. split; [|reflexivity].
    intros H. apply andb_true_iff in H. tauto.
  - apply in_app_or in Hin. destruct Hin as [Hin|Hin].
    { apply in_map_iff in Hin. destruct Hin as [a [E Ha]]. inversion E; subst.
      eexists. split; [right; apply in_or_app; left; apply in_map_iff; exists a; split; [reflexivity|auto]|].
      destruct (flags_lb (s_maglev s) (s_extlocal s) (s_intlocal s) (s_exclude s)) as [F1 [F2 F4]].
      split; [reflexivity|]. split; [reflexivity|]. unfold mkfv. cbn [fv_flags ext_local_required int_local_required flag_ok].
      rewrite F1, F2, F4. split; [apply eqb_reflx|]. split; auto. }
    apply in_app_or in Hin. destruct Hin as [Hin|Hin].
    { apply in_map_iff in Hin. destruct Hin as [a [E Ha]]. inversion E; subst.
      eexists. split; [right; apply in_or_app; right; apply in_or_app; left; apply in_map_iff; exists a; split; [reflexivity|auto]|].
      split; [reflexivity|]. split; [reflexivity|]. unfold mkfv. cbn [fv_flags ext_local_required int_local_required flag_ok].
      destruct (flags_ext (s_maglev s) (s_exclude s)) as [F2 F4]. rewrite F2, F4. split; auto. }
    destruct (s_np s =? 0) eqn:NP; [contradiction|].
    apply in_app_or in Hin. destruct Hin as [Hin|Hin].
    { apply in_map_iff in Hin. destruct Hin as [a [E Ha]]. inversion E; subst.
      eexists. split; [right; apply in_or_app; right; apply in_or_app; right; apply in_map_iff; exists a; split; [reflexivity|auto]|].
      destruct (flags_np (s_extlocal s) (s_intlocal s) (s_exclude s)) as [F1 [F2 F4]].
      split; [reflexivity|]. split; [reflexivity|]. unfold mkfv. cbn [fv_flags ext_local_required int_local_required flag_ok].
      rewrite F1, F2, F4. split; [apply eqb_reflx|]. split; auto. split; [discriminate|reflexivity]. }
    destruct (s_intlocal s); [|contradiction].
    apply in_map_iff in Hin. destruct Hin as [n [E _]]. inversion E; subst. exfalso. eapply NR; eauto.
Qed.

Lemma spec_remote_inv : forall npips s eps k n,
  In (k, KRemote n) (spec_frontends npips s eps) ->
  wants_remote s = true /\ In n (remote_nodes eps) /\ k = FK n (s_np s) (s_proto s).
Proof.
  intros npips s eps k n Hin. unfold spec_frontends in Hin.
  destruct Hin as [Hin|Hin]; [inversion Hin|].
  apply in_app_or in Hin. destruct Hin as [Hin|Hin]; [apply in_map_iff in Hin; destruct Hin as [a [E _]]; inversion E|].
  apply in_app_or in Hin. destruct Hin as [Hin|Hin]; [apply in_map_iff in Hin; destruct Hin as [a [E _]]; inversion E|].
  destruct (s_np s =? 0) eqn:NP; [contradiction|].
  apply in_app_or in Hin. destruct Hin as [Hin|Hin]; [apply in_map_iff in Hin; destruct Hin as [a [E _]]; inversion E|].
  destruct (s_intlocal s) eqn:IL; [|contradiction].
  apply in_map_iff in Hin. destruct Hin as [m [E Hm]]. inversion E; subst.
  unfold wants_remote. rewrite IL, NP. auto.
Qed.

Lemma units_cover_spec : forall npips prev st v next next' us s eps k kd,
  visit_valid st v = true -> visit_all prev next st v = Some (next', us) ->
  In (s, eps) st -> In (k, kd) (spec_frontends npips s eps) ->
  exists u fv, In u us /\ In (k, fv) (unit_frontends npips u) /\ value_meets_spec kd s eps u fv.
Proof.
  intros npips prev st v next next' us s eps k kd VV VA Hs Hk.
  unfold visit_valid in VV. apply andb_true_iff in VV. destruct VV as [PV NDst].
  apply (perm_of_spec _ _ (fun a b => N.eqb_eq a b)) in PV. destruct PV as [_ [I2 _]].
  apply (nodupb_NoDup _ _ (fun a b => N.eqb_eq a b)) in NDst.
  assert (F : find_svc st (s_name s) = Some (s, eps)).
  { clear -Hs NDst. unfold find_svc. induction st as [|[s0 e0] st IH]; simpl in *; [contradiction|].
    inversion NDst; subst. destruct Hs as [E|Hs].
    - inversion E; subst. rewrite N.eqb_refl. reflexivity.
    - destruct (s_name s0 =? s_name s) eqn:En.
      + apply N.eqb_eq in En. exfalso. apply H1. rewrite En. apply (in_map (fun se => s_name (fst se)) _ _ Hs).
      + auto. }
  assert (Hv : In (s_name s) (map fst v)).
  { apply I2. apply (in_map (fun se => s_name (fst se)) _ _ Hs). }
  apply in_map_iff in Hv. destruct Hv as [[nm nodes] [E Hv]]. simpl in E. subst nm.
  destruct (visit_all_units _ _ _ _ _ _ VA) as [_ U2].
  destruct (U2 _ _ _ _ Hv F) as [[u [Hu Pu]] Rm].
  destruct kd as [| | | |n].
  1-4: destruct (primary_covers npips s eps u k _ Pu Hk) as [fv [A B]]; [intros n; discriminate|]; exists u, fv; auto.
  apply spec_remote_inv in Hk. destruct Hk as [W [Hn ->]].
  destruct (Rm W n Hn) as [u' [Hu' [N1 [N2 N3]]]].
  assert (NZ : n <> 0) by (eapply remote_nodes_nonzero; eauto).
  exists u'. eexists. split; auto. split.
  - unfold unit_frontends. rewrite N1. apply N.eqb_neq in NZ. rewrite NZ. simpl. left. rewrite N2. simpl. reflexivity.
  - unfold value_meets_spec. simpl. rewrite N2, N3. simpl. repeat split; auto;
      destruct (s_intlocal s), (s_exclude s); vm_compute; intros; try discriminate; reflexivity.
Qed.

(* conversely every frontend of a unit is one a service asks for *)
Lemma units_within_spec : forall npips prev st v next next' us u k fv,
  visit_all prev next st v = Some (next', us) -> In u us -> In (k, fv) (unit_frontends npips u) ->
  exists s eps kd, In (s, eps) st /\ In (k, kd) (spec_frontends npips s eps).
Proof.
  intros npips prev st v next next' us u k fv VA Hu Hk.
  destruct (visit_all_units _ _ _ _ _ _ VA) as [U1 _].
  destruct (U1 u Hu) as [name [nodes [s [eps [_ [F PR]]]]]].
  assert (Hs : In (s, eps) st) by (unfold find_svc in F; apply find_some in F; tauto).
  exists s, eps. destruct PR as [[Hn [Hsv He]]|[W [Hn [Hsv He]]]].
  - destruct u as [un unode uid usvc ueps]. simpl in Hn, Hsv, He. subst unode usvc ueps.
    unfold unit_frontends in Hk. cbn [u_node u_svc] in Hk. change (negb (0 =? 0)) with false in Hk. cbv iota in Hk.
    unfold spec_frontends. destruct Hk as [Hk|Hk].
    + inversion Hk; subst. exists KCluster. split; [exact Hs|]. apply in_eq.
    + apply in_app_or in Hk. destruct Hk as [Hk|Hk].
      { apply in_map_iff in Hk. destruct Hk as [a [E Ha]]. inversion E; subst. exists KLB. split; [exact Hs|].
        apply in_cons. apply in_or_app. left. apply in_map_iff. exists a. auto. }
      apply in_app_or in Hk. destruct Hk as [Hk|Hk].
      { apply in_map_iff in Hk. destruct Hk as [a [E Ha]]. inversion E; subst. exists KExt. split; [exact Hs|].
        apply in_cons. apply in_or_app. right. apply in_or_app. left. apply in_map_iff. exists a. auto. }
      destruct (s_np s =? 0) eqn:NP; [contradiction|].
      apply in_map_iff in Hk. destruct Hk as [a [E Ha]]. inversion E; subst. exists KNodePort. split; [exact Hs|].
      apply in_cons. apply in_or_app. right. apply in_or_app. right. apply in_or_app. left.
      apply in_map_iff. exists a. auto.
  - assert (NZ : u_node u <> 0) by (eapply remote_nodes_nonzero; eauto).
    unfold unit_frontends in Hk. apply N.eqb_neq in NZ. rewrite NZ in Hk. simpl in Hk. destruct Hk as [Hk|[]].
    inversion Hk; subst. rewrite Hsv. simpl. exists (KRemote (u_node u)). split; [exact Hs|].
    unfold wants_remote in W. apply andb_true_iff in W. destruct W as [W1 W2]. apply negb_true_iff in W2.
    unfold spec_frontends. apply in_cons. apply in_or_app. right. apply in_or_app. right. rewrite W2.
    apply in_or_app. right. rewrite W1. apply in_map_iff. exists (u_node u). split; auto.
Qed.

(* after a completed sync the frontend map has exactly the keys the services ask for: nothing stale, nothing missing *)
Lemma frontend_keys_exact : forall cfg sy d st v fF fB tr sy' d',
  consistent (fst d) (snd d) -> exec_apply cfg sy d st v fF fB tr = Some (sy', d', false) ->
  forall k, lookup fkey_eqb (fst d') k <> None <->
            exists s eps kd, In (s, eps) st /\ In (k, kd) (spec_frontends (c_npips cfg) s eps).
Proof.
  intros cfg sy d st v fF fB tr sy' d' Hd EA k.
  pose proof EA as EA0. apply exec_apply_inv in EA0. destruct EA0 as [next0 [us0 [VV [VA0 _]]]].
  destruct (final_exact_partial _ _ _ _ _ _ _ _ _ _ Hd EA) as [next [us [VA [A [B _]]]]].
  split.
  - intros H. destruct (lookup fkey_eqb (fst d') k) as [fv|] eqn:E; [|congruence].
    destruct (A k fv E) as [u [Hu [Hin _]]]. eapply units_within_spec; eauto.
  - intros [s [eps [kd [Hs Hk]]]].
    destruct (units_cover_spec (c_npips cfg) _ _ _ _ _ _ _ _ _ _ VV VA Hs Hk) as [u [fv [Hu [Hin _]]]].
    eapply B; eauto.
Qed.
