(* C42 — proofs, part 7: the Maglev LUT map mid-update.  mg_consistent is `consistent` on a view of the frontend map,
   so the four-phase argument of ProofsApply applies verbatim to the order
     frontend deletions ; LUT updates ; frontend updates ; LUT deletions. *)
From Coq Require Import List NArith Bool Arith Lia.
From Verif.C42 Require Import Model Spec Proofs ProofsApply.
Import ListNotations.
Open Scope N_scope.

Lemma lookup_mgview : forall lut fe k,
  lookup fkey_eqb (mgview lut fe) k =
  match lookup fkey_eqb fe k with Some v => Some (FV (fv_id v) (mg_count lut v) 0 0 0) | None => None end.
Proof.
  induction fe as [|[k0 v0] fe IH]; intros k; simpl; auto. destruct (fkey_eqb k k0); auto.
Qed.
Lemma ukeys_mgview : forall lut fe, ukeys fe -> ukeys (mgview lut fe).
Proof. intros lut fe H. unfold ukeys, mgview in *. rewrite map_map. simpl. exact H. Qed.

Lemma nrange_in : forall n i, i < n -> In i (nrange n).
Proof.
  intros n i H. unfold nrange. apply in_map_iff. exists (N.to_nat i). split; [lia|]. apply in_seq. lia.
Qed.

(* a frontend flagged maglev belongs to a unit whose service carries the annotation *)
Lemma unit_frontend_flagged : forall npips u k v,
  In (k, v) (unit_frontends npips u) -> has_flag (fv_flags v) FLG_MAGLEV = true ->
  s_maglev (u_svc u) = true /\ fv_count v = u_count u /\ fv_id v = u_id u.
Proof.
  intros npips u k v H F. unfold unit_frontends in H.
  assert (G : forall f, v = mkfv u f -> (has_flag f FLG_MAGLEV = true -> s_maglev (u_svc u) = true) ->
              s_maglev (u_svc u) = true /\ fv_count v = u_count u /\ fv_id v = u_id u).
  { intros f -> X. simpl in F. auto. }
  assert (M : forall a b x, has_flag (flag a FLG_INT_LOCAL + flag (s_maglev (u_svc u) && b) FLG_MAGLEV + flag x FLG_EXCLUDE) FLG_MAGLEV = true -> s_maglev (u_svc u) = true).
  { intros a b x. destruct a, (s_maglev (u_svc u)), b, x; vm_compute; auto. }
  destruct (negb (u_node u =? 0)).
  - destruct H as [H|[]]. inversion H; subst. eapply G; [reflexivity|apply M].
  - destruct H as [H|H].
    + inversion H; subst. eapply G; [reflexivity|apply M].
    + apply in_app_or in H. destruct H as [H|H].
      { apply in_map_iff in H. destruct H as [a [E _]]. inversion E; subst. eapply G; [reflexivity|].
        destruct (s_maglev (u_svc u)), (s_extlocal (u_svc u)), (s_intlocal (u_svc u)), (s_exclude (u_svc u)); vm_compute; auto. }
      apply in_app_or in H. destruct H as [H|H].
      { apply in_map_iff in H. destruct H as [a [E _]]. inversion E; subst. eapply G; [reflexivity|].
        destruct (s_maglev (u_svc u)), (s_exclude (u_svc u)); vm_compute; auto. }
      destruct (s_np (u_svc u) =? 0); [contradiction|].
      apply in_map_iff in H. destruct H as [a [E _]]. inversion E; subst. eapply G; [reflexivity|].
      destruct (s_extlocal (u_svc u)), (s_intlocal (u_svc u)), (s_exclude (u_svc u)); vm_compute; intros; discriminate.
Qed.

(* the desired frontend map and the desired LUT map are maglev-consistent *)
Lemma desired_mg_consistent : forall npips lut lutf us,
  mg_consistent lut (desired_fe npips us) (desired_mg lut lutf us).
Proof.
  intros npips lut lutf us k v' Hl i Hi. unfold mg_consistent in *. rewrite lookup_mgview in Hl.
  destruct (lookup fkey_eqb (desired_fe npips us) k) as [v|] eqn:E; [|discriminate].
  inversion Hl; subst. simpl in *. unfold mg_count in Hi.
  destruct (has_flag (fv_flags v) FLG_MAGLEV) eqn:F; simpl in Hi; [|lia].
  destruct (fv_count v =? 0) eqn:C; simpl in Hi; [lia|].
  unfold desired_fe in E. apply (of_list_lookup_in _ _ fkey_eqb fkey_eqb_spec) in E.
  apply in_flat_map in E. destruct E as [u [Hu Hin]].
  destruct (unit_frontend_flagged _ _ _ _ Hin F) as [M [Ec Ei]].
  unfold desired_mg. apply (of_list_in_lookup _ _ pair_eqb pair_eqb_spec) with (v := lutf (filter e_ready (u_eps u)) i).
  apply in_flat_map. exists u. split; auto. unfold unit_maglev. rewrite M, <- Ec, C. simpl.
  apply in_map_iff. exists i. rewrite Ei. split; auto. apply nrange_in; auto.
Qed.

(* REPAIRED ORDER: frontend deletions ; LUT updates ; frontend updates ; LUT deletions, executed (in the maglev view of
   the frontend map) in any order inside each phase and with any failing writes, keeps every maglev-flagged frontend's
   LUT complete after EACH single write *)
Lemma maglev_repaired_order : forall npips lut lutf us fF fB fe mg tr d' err,
  ukeys fe -> mg_consistent lut fe mg ->
  run_phases fF fB (mgview lut (desired_fe npips us)) (desired_mg lut lutf us) (mgview lut fe, mg) tr = Some (d', err) ->
  Forall (fun s => consistent (fst s) (snd s)) (states_after (mgview lut fe, mg) tr)
  /\ consistent (fst d') (snd d')
  /\ (err = false -> (forall k, lookup fkey_eqb (fst d') k = lookup fkey_eqb (mgview lut (desired_fe npips us)) k)
                      /\ (forall k, lookup pair_eqb (snd d') k = lookup pair_eqb (desired_mg lut lutf us) k)).
Proof.
  intros npips lut lutf us fF fB fe mg tr d' err U C R.
  change (cons_dp (mgview lut fe, mg)) in C.
  pose proof (run_phases_spec _ _ _ _ _ _ _ _ (desired_mg_consistent npips lut lutf us)
               (ukeys_mgview lut _ (ukeys_of_list _ _ fkey_eqb fkey_eqb_spec _))
               (ukeys_of_list _ _ pair_eqb pair_eqb_spec _) C R) as X.
  tauto.
Qed.

(* PINNED ORDER (LUT deletions and updates both BEFORE the frontend updates): when the annotation is removed from a
   service, the first LUT deletion already leaves a flagged frontend without its table (scripted history 3 of the
   driver shows it on the real Syncer) *)
Lemma maglev_pinned_order_witness :
  let fe0 := [(FK 174063617 80 6, FV 0 2 1 0 8)] in
  let mg0 := [((0, 0), (167837953, 8000)); ((0, 1), (167837697, 8000))] in
  mg_consistentb 2 fe0 mg0 = true /\ mg_consistentb 2 fe0 (del pair_eqb (0, 0) mg0) = false.
Proof. vm_compute. split; reflexivity. Qed.
