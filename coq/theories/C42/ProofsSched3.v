(* C42 — a valid schedule always exists in the three-map model too (either phase order). *)
From Coq Require Import List NArith Bool Arith Lia.
From Verif.C42 Require Import Model Spec Proofs ProofsApply ProofsFinal ProofsIds ProofsSched ModelMg ProofsMg.
Import ListNotations.
Open Scope N_scope.

Definition uk3 (d : dp3) : Prop := ukeys (fst (fst d)) /\ ukeys (snd (fst d)) /\ ukeys (snd d).

Lemma uk3_do_xwrites : forall xs d, uk3 d -> uk3 (do_xwrites d xs).
Proof.
  induction xs as [|x xs IH]; intros d U; simpl; auto.
  change (uk3 (do_xwrites (do_xwrite d x) xs)). apply IH. destruct U as [U1 [U2 U3]].
  destruct x as [w|k v|k]; unfold uk3; simpl.
  - destruct (ukeys_do_writes [w] (fst d) U1 U2) as [A B]. auto.
  - repeat split; auto. apply (ukeys_upd _ _ pair_eqb pair_eqb_spec); auto.
  - repeat split; auto. apply (ukeys_del _ _ pair_eqb pair_eqb_spec); auto.
Qed.

Definition goodx (fF : list fkey) (fB : list bkey) (pending : list xwrite) : list xwrite :=
  filter (fun x => negb (xfails fF fB x)) pending.

Lemma run_xphase_canon : forall fF fB pending d rest,
  NoDup pending ->
  run_xphase fF fB pending d (goodx fF fB pending ++ rest)
  = Some (do_xwrites d (goodx fF fB pending), existsb (xfails fF fB) pending, rest).
Proof.
  intros fF fB pending d rest ND. unfold run_xphase. fold (goodx fF fB pending).
  set (g := goodx fF fB pending).
  assert (E1 : firstn (length g) (g ++ rest) = g).
  { rewrite firstn_app, Nat.sub_diag, firstn_all. simpl. apply app_nil_r. }
  assert (E2 : skipn (length g) (g ++ rest) = rest).
  { rewrite skipn_app, Nat.sub_diag, skipn_all. reflexivity. }
  rewrite E1, E2.
  assert (P : perm_of xwrite_eqb g g = true).
  { unfold perm_of. rewrite Nat.eqb_refl. simpl. apply andb_true_iff. split.
    - apply (nodupb_NoDup _ _ xwrite_eqb_spec). unfold g, goodx. apply NoDup_filter. auto.
    - apply forallb_forall. intros x Hx. apply (memb_In _ _ xwrite_eqb_spec). auto. }
  rewrite P. reflexivity.
Qed.

Lemma run_gen_canon : forall fF fB gens,
  (forall g d, In g gens -> uk3 d -> NoDup (g d)) ->
  forall d, uk3 d -> exists tr d' err, run_gen fF fB gens d tr = Some (d', err) /\ uk3 d'.
Proof.
  intros fF fB. induction gens as [|g t IH]; intros HN d U.
  - exists [], d, false. simpl. auto.
  - assert (ND : NoDup (g d)) by (apply HN; simpl; auto).
    set (gd := goodx fF fB (g d)). set (d1 := do_xwrites d gd).
    assert (U1 : uk3 d1) by (apply uk3_do_xwrites; auto).
    destruct (existsb (xfails fF fB) (g d)) eqn:F.
    + exists gd, d1, true. simpl. rewrite <- (app_nil_r gd). unfold gd. rewrite run_xphase_canon by auto.
      rewrite F. auto.
    + destruct (IH (fun g0 d0 Hg => HN g0 d0 (or_intror Hg)) d1 U1) as [tr' [d' [err [R U']]]].
      exists (gd ++ tr'), d', err. simpl. unfold gd. rewrite run_xphase_canon by auto. rewrite F. auto.
Qed.

Lemma gens_nodup : forall b dfe dbe dmg g d,
  ukeys dfe -> ukeys dbe -> ukeys dmg -> In g (gens b dfe dbe dmg) -> uk3 d -> NoDup (g d).
Proof.
  intros b dfe dbe dmg g d Ufe Ube Umg Hg [U1 [U2 U3]].
  assert (XWn : forall l, NoDup l -> NoDup (map XW l)).
  { intros l H. apply FinFun.Injective_map_NoDup; auto. intros x y. apply XW_inj. }
  assert (TMn : forall l, NoDup l -> NoDup (map toM l)).
  { intros l H. apply FinFun.Injective_map_NoDup; auto. intros x y. apply toM_inj. }
  unfold gens in Hg. destruct b; simpl in Hg;
    repeat (destruct Hg as [<-|Hg]; [unfold g_delfe, g_setbe, g_setfe, g_delbe, g_setmg, g_delmg;
      first [apply XWn | apply TMn];
      first [apply phase_del_fe_nodup; assumption | apply phase_set_be_nodup; assumption
            | apply phase_set_fe_nodup; assumption | apply phase_del_be_nodup; assumption]|]);
    contradiction.
Qed.

Lemma exec_apply3_schedule_exists : forall cfg b lut lutf sy d st v fF fB,
  uk3 d -> visit_valid st v = true -> visit_ok st v = true ->
  exists tr sy' d' err, exec_apply3 cfg b lut lutf sy d st v fF fB tr = Some (sy', d', err) /\ uk3 d'.
Proof.
  intros cfg b lut lutf sy d st v fF fB U VV VO. unfold exec_apply3. rewrite VV. cbv zeta. cbn [negb].
  match goal with |- context [visit_all ?p ?n st v] => destruct (visit_all_some st v p n VO) as [[next us] E]; rewrite E end.
  destruct (run_gen_canon fF fB (gens b (desired_fe (c_npips cfg) us) (desired_be us) (desired_mg lut lutf us))
              (fun g d0 Hg Ud => gens_nodup b _ _ _ g d0 (ukeys_of_list _ _ fkey_eqb fkey_eqb_spec _)
                                   (ukeys_of_list _ _ pair_eqb pair_eqb_spec _) (ukeys_of_list _ _ pair_eqb pair_eqb_spec _) Hg Ud)
              d U) as [tr [d' [err [R U']]]].
  exists tr. rewrite R. eexists _, _, _. split; [reflexivity|auto].
Qed.

Definition erase3 (o : mop3) : hin :=
  match o with MApply3 st v fF fB _ => HApply st v fF fB | MRestart3 => HRestart end.

Lemma schedule_exists3 : forall cfg b lut lutf ins sy d,
  uk3 d -> Forall hin_ok ins ->
  exists ops states sy' d', map erase3 ops = ins /\ run_history3 cfg b lut lutf sy d ops = Some (states, sy', d').
Proof.
  intros cfg b lut lutf. induction ins as [|i ins IH]; intros sy d U H.
  - exists [], [], sy, d. auto.
  - inversion H; subst. destruct i as [st v fF fB|].
    + destruct H2 as [VV VO].
      destruct (exec_apply3_schedule_exists cfg b lut lutf sy d st v fF fB U VV VO) as [tr [sy1 [d1 [err [E U1]]]]].
      destruct (IH sy1 d1 U1 H3) as [ops [states [sy' [d' [M R]]]]].
      exists (MApply3 st v fF fB tr :: ops). simpl. rewrite E, R, M. eauto.
    + destruct (IH new_syncer d U H3) as [ops [states [sy' [d' [M R]]]]].
      exists (MRestart3 :: ops). simpl. rewrite M. eauto.
Qed.
