(* C42 — proofs, part 3: what the desired maps contain when distinct applySvc units have distinct ids. *)
From Coq Require Import List NArith Bool Arith Lia Permutation.
From Verif.C42 Require Import Model Spec Proofs ProofsApply.
Import ListNotations.
Open Scope N_scope.

Lemma number_nth : forall A (l : list A) i0 i x,
  In (i, x) (number i0 l) -> i0 <= i /\ nth_error l (N.to_nat (i - i0)) = Some x.
Proof.
  induction l as [|y l IH]; intros i0 i x H; simpl in H; [contradiction|].
  destruct H as [H|H].
  - inversion H; subst. split; [lia|]. replace (i - i) with 0 by lia. reflexivity.
  - apply IH in H. destruct H as [H1 H2]. split; [lia|].
    replace (N.to_nat (i - i0)) with (S (N.to_nat (i - (i0 + 1)))) by lia. exact H2.
Qed.

Lemma NoDup_map_inj : forall A B (f : A -> B) l x y, NoDup (map f l) -> In x l -> In y l -> f x = f y -> x = y.
Proof.
  induction l as [|a l IH]; intros x y H Hx Hy E; simpl in *; [contradiction|].
  inversion H; subst. destruct Hx as [->|Hx], Hy as [->|Hy]; auto.
  - exfalso. apply H2. rewrite E. apply in_map. auto.
  - exfalso. apply H2. rewrite <- E. apply in_map. auto.
Qed.

(* the backend block of a unit is exactly its ready endpoints, local ones first *)
Lemma desired_be_block : forall us u i,
  NoDup (map u_id us) -> In u us -> i < u_count u ->
  exists e, nth_error (ordered (u_eps u)) (N.to_nat i) = Some e
            /\ lookup pair_eqb (desired_be us) (u_id u, i) = Some (ep_addr e).
Proof.
  intros us u i ND Hu Hi.
  destruct (unit_backends_has u i Hi) as [a Ha].
  assert (Hne : lookup pair_eqb (desired_be us) (u_id u, i) <> None).
  { unfold desired_be. apply (of_list_in_lookup _ _ pair_eqb pair_eqb_spec) with (v := a). apply in_flat_map. eauto. }
  destruct (lookup pair_eqb (desired_be us) (u_id u, i)) as [a'|] eqn:E; [|congruence].
  unfold desired_be in E. apply (of_list_lookup_in _ _ pair_eqb pair_eqb_spec) in E.
  apply in_flat_map in E. destruct E as [u' [Hu' Hin]].
  unfold unit_backends in Hin. apply in_map_iff in Hin. destruct Hin as [[j e] [Hj Hin]]. simpl in Hj.
  inversion Hj; subst. assert (u' = u) by (eapply NoDup_map_inj; eauto). subst u'.
  apply number_nth in Hin. destruct Hin as [_ Hn]. rewrite N.sub_0_r in Hn. exists e. auto.
Qed.

(* nothing else is in the desired backend map *)
Lemma desired_be_no_stale : forall us id i a,
  lookup pair_eqb (desired_be us) (id, i) = Some a -> exists u, In u us /\ id = u_id u /\ i < u_count u.
Proof.
  intros us id i a E. unfold desired_be in E. apply (of_list_lookup_in _ _ pair_eqb pair_eqb_spec) in E.
  apply in_flat_map in E. destruct E as [u [Hu Hin]].
  unfold unit_backends in Hin. apply in_map_iff in Hin. destruct Hin as [[j e] [Hj Hin]]. simpl in Hj.
  inversion Hj; subst. exists u. split; auto. split; auto.
  apply number_nth in Hin. destruct Hin as [_ Hn]. rewrite N.sub_0_r in Hn.
  assert (N.to_nat i < length (ordered (u_eps u)))%nat by (apply nth_error_Some; congruence).
  unfold u_count. lia.
Qed.

(* every desired frontend belongs to a unit and carries its id, count, local count and affinity *)
Lemma unit_frontends_val2 : forall npips u k v,
  In (k, v) (unit_frontends npips u) ->
  fv_id v = u_id u /\ fv_count v = u_count u /\ fv_local v = u_local u /\ fv_aff v = s_sticky (u_svc u).
Proof.
  intros npips u k v H. unfold unit_frontends in H.
  assert (M : forall f, fv_id (mkfv u f) = u_id u /\ fv_count (mkfv u f) = u_count u /\ fv_local (mkfv u f) = u_local u
                        /\ fv_aff (mkfv u f) = s_sticky (u_svc u)) by (intros; repeat split; reflexivity).
  destruct (negb (u_node u =? 0)).
  - destruct H as [H|[]]. inversion H; subst. apply M.
  - destruct H as [H|H]; [inversion H; subst; apply M|].
    repeat (apply in_app_or in H; destruct H as [H|H]);
      try (apply in_map_iff in H; destruct H as [a [H _]]; inversion H; subst; apply M).
    destruct (s_np (u_svc u) =? 0); [contradiction|].
    apply in_map_iff in H; destruct H as [a [H _]]; inversion H; subst; apply M.
Qed.

Lemma desired_fe_of_unit : forall npips us k v,
  lookup fkey_eqb (desired_fe npips us) k = Some v ->
  exists u, In u us /\ In (k, v) (unit_frontends npips u)
            /\ fv_id v = u_id u /\ fv_count v = u_count u /\ fv_local v = u_local u /\ fv_aff v = s_sticky (u_svc u).
Proof.
  intros npips us k v E. unfold desired_fe in E. apply (of_list_lookup_in _ _ fkey_eqb fkey_eqb_spec) in E.
  apply in_flat_map in E. destruct E as [u [Hu Hin]]. exists u. split; auto. split; auto.
  eapply unit_frontends_val2; eauto.
Qed.

(* `ordered`: exactly the ready endpoints, the local ones first *)
Lemma filter_split_perm : forall A (p q : A -> bool) l,
  Permutation (filter (fun x => q x && p x) l ++ filter (fun x => negb (q x) && p x) l) (filter p l).
Proof.
  induction l as [|x l IH]; simpl; auto.
  destruct (p x), (q x); simpl; rewrite ?andb_true_r, ?andb_false_r; simpl; auto.
  apply Permutation_sym. apply Permutation_cons_app. apply Permutation_sym. auto.
Qed.

Lemma ordered_spec : forall eps,
  Permutation (ordered eps) (filter e_ready eps)
  /\ ordered eps = ready_local eps ++ ready_remote eps
  /\ Forall (fun e => e_local e = true /\ e_ready e = true) (ready_local eps)
  /\ Forall (fun e => e_local e = false /\ e_ready e = true) (ready_remote eps).
Proof.
  intros eps. split; [|split; [reflexivity|split]].
  - unfold ordered, ready_local, ready_remote. apply (filter_split_perm _ e_ready e_local).
  - apply Forall_forall. intros e H. apply filter_In in H. destruct H as [_ H]. apply andb_true_iff in H. auto.
  - apply Forall_forall. intros e H. apply filter_In in H. destruct H as [_ H]. apply andb_true_iff in H.
    destruct H as [H1 H2]. apply negb_true_iff in H1. auto.
Qed.

(* combined: after a completed sync, when distinct units got distinct ids *)
Lemma final_exact_partial : forall cfg sy d st v fF fB tr sy' d',
  consistent (fst d) (snd d) -> exec_apply cfg sy d st v fF fB tr = Some (sy', d', false) ->
  exists next us,
    visit_all (sy_prev (if sy_synced sy then sy else startup (c_reset cfg) (c_npips cfg) sy (fst d) st))
              (sy_next (if sy_synced sy then sy else startup (c_reset cfg) (c_npips cfg) sy (fst d) st)) st v = Some (next, us) /\
    (* every frontend in the map is a frontend of some applySvc unit and carries its id / count / local / affinity *)
    (forall k fv, lookup fkey_eqb (fst d') k = Some fv ->
        exists u, In u us /\ In (k, fv) (unit_frontends (c_npips cfg) u)
                  /\ fv_id fv = u_id u /\ fv_count fv = u_count u /\ fv_local fv = u_local u /\ fv_aff fv = s_sticky (u_svc u)) /\
    (* every frontend of every unit is in the map *)
    (forall u k fv, In u us -> In (k, fv) (unit_frontends (c_npips cfg) u) -> lookup fkey_eqb (fst d') k <> None) /\
    (* no stale backend *)
    (forall id i a, lookup pair_eqb (snd d') (id, i) = Some a -> exists u, In u us /\ id = u_id u /\ i < u_count u) /\
    (* with distinct ids: the i-th backend of a unit is its i-th ready endpoint, local ones first *)
    (NoDup (map u_id us) ->
       forall u i, In u us -> i < u_count u ->
         exists e, nth_error (ready_local (u_eps u) ++ ready_remote (u_eps u)) (N.to_nat i) = Some e
                   /\ lookup pair_eqb (snd d') (u_id u, i) = Some (ep_addr e)).
Proof.
  intros cfg sy d st v fF fB tr sy' d' Hd H.
  destruct (completed_apply_is_desired _ _ _ _ _ _ _ _ _ _ Hd H) as [next [us [V [EF EB]]]].
  exists next, us. split; auto. split; [|split; [|split]].
  - intros k fv E. rewrite EF in E. apply desired_fe_of_unit; auto.
  - intros u k fv Hu Hin. rewrite EF. unfold desired_fe.
    apply (of_list_in_lookup _ _ fkey_eqb fkey_eqb_spec) with (v := fv). apply in_flat_map. eauto.
  - intros id i a E. rewrite EB in E. eapply desired_be_no_stale; eauto.
  - intros ND u i Hu Hi. destruct (desired_be_block us u i ND Hu Hi) as [e [E1 E2]].
    exists e. rewrite EB. auto.
Qed.
