(* C42 — nextSvcID is a uint32 in the code and an unbounded N in the model.  The two coincide as long as no
   allocation wraps; this file bounds the model's counter: one Apply raises it by at most the number of applySvc
   units (services + per-remote-node keys), and a startup sync sets it at most one above the largest id found in the
   frontend map. *)
From Coq Require Import List NArith Bool Arith Lia.
From Verif.C42 Require Import Model Spec Proofs ProofsApply ProofsFinal ProofsIds.
Import ListNotations.
Open Scope N_scope.

Lemma alloc_bound : forall prev us next next',
  alloc_ok prev next us next' -> next <= next' /\ next' <= next + N.of_nat (length us).
Proof.
  intros prev. induction us as [|u t IH]; intros next next' H; simpl in H.
  - subst. simpl. lia.
  - destruct H as [_ H]. apply IH in H.
    destruct (pick_id_cases prev next (upk u) (u_svc u)) as [[old [_ E]]|[_ E]]; rewrite E in H; simpl length; lia.
Qed.

Lemma startup_next_bound : forall reset npips sy fe st B,
  sy_next sy <= B -> (forall k v, In (k, v) fe -> fv_id v + 1 <= B) ->
  sy_next (startup reset npips sy fe st) <= B.
Proof.
  intros reset npips sy fe st B H0 HB. unfold startup. simpl.
  assert (M : forall x, In x (matched npips fe st) -> snd (fst x) + 1 <= B).
  { intros [[s id] p] Hx. unfold matched in Hx. apply in_flat_map in Hx. destruct Hx as [se [_ Hx]].
    apply in_flat_map in Hx. destruct Hx as [kb [_ Hx]].
    destruct (lookup fkey_eqb fe (fst kb)) as [v|] eqn:E; [|contradiction]. destruct Hx as [Hx|[]]. inversion Hx; subst.
    simpl. eapply HB. apply (lookup_In _ _ fkey_eqb fkey_eqb_spec). exact E. }
  revert H0. generalize (sy_next sy). induction (matched npips fe st) as [|x m IH]; intros n Hn; simpl; auto.
  apply IH; [intros y Hy; apply M; right; auto|]. specialize (M x (or_introl eq_refl)). lia.
Qed.

(* one Apply: the counter after it is at most (what startup found, or the old counter) + the number of units *)
Lemma apply_next_bound : forall cfg sy d st v fF fB tr sy' d' err,
  exec_apply cfg sy d st v fF fB tr = Some (sy', d', err) ->
  exists next us,
    visit_all (sy_prev (if sy_synced sy then sy else startup (c_reset cfg) (c_npips cfg) sy (fst d) st))
              (sy_next (if sy_synced sy then sy else startup (c_reset cfg) (c_npips cfg) sy (fst d) st)) st v = Some (next, us)
    /\ sy_next sy' = next
    /\ next <= sy_next (if sy_synced sy then sy else startup (c_reset cfg) (c_npips cfg) sy (fst d) st) + N.of_nat (length us).
Proof.
  intros cfg sy d st v fF fB tr sy' d' err H.
  pose proof H as H0. apply exec_apply_inv in H0. destruct H0 as [next [us [VV [VA R]]]].
  exists next, us. split; auto. split.
  - unfold exec_apply in H. rewrite VV in H. simpl in H. rewrite VA, R in H. inversion H; subst. destruct err; reflexivity.
  - destruct (visit_all_alloc _ _ _ _ _ _ VA) as [AL _]. apply alloc_bound in AL. lia.
Qed.
