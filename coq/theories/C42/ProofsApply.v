(* C42 — proofs, part 2: exec_apply.  Every state passed through is consistent; a completed apply leaves exactly
   the desired maps. *)
From Coq Require Import List NArith Bool Arith Lia.
From Verif.C42 Require Import Model Spec Proofs.
Import ListNotations.
Open Scope N_scope.

Local Notation lkF := (lookup fkey_eqb).
Local Notation lkB := (lookup pair_eqb).
Local Notation FS := fkey_eqb_spec.
Local Notation BS := pair_eqb_spec.

(* ------------------------------------------------------------------ the desired maps are consistent *)
Lemma number_in : forall A (l : list A) i0 i,
  i0 <= i -> i < i0 + N.of_nat (length l) -> exists x, In (i, x) (number i0 l).
Proof.
  induction l as [|x l IH]; intros i0 i H1 H2; simpl in *.
  - lia.
  - destruct (N.eq_dec i i0) as [->|Hne].
    + exists x. auto.
    + destruct (IH (i0 + 1) i) as [y Hy]; try lia. exists y. auto.
Qed.

Lemma unit_frontends_val : forall npips u k v,
  In (k, v) (unit_frontends npips u) -> fv_id v = u_id u /\ fv_count v = u_count u.
Proof.
  intros npips u k v H. unfold unit_frontends in H.
  assert (M : forall f, fv_id (mkfv u f) = u_id u /\ fv_count (mkfv u f) = u_count u) by (intros; split; reflexivity).
  destruct (negb (u_node u =? 0)).
  - destruct H as [H|[]]. inversion H; subst. apply M.
  - destruct H as [H|H]; [inversion H; subst; apply M|].
    repeat (apply in_app_or in H; destruct H as [H|H]);
      try (apply in_map_iff in H; destruct H as [a [H _]]; inversion H; subst; apply M).
    destruct (s_np (u_svc u) =? 0); [contradiction|].
    apply in_map_iff in H; destruct H as [a [H _]]; inversion H; subst; apply M.
Qed.

Lemma unit_backends_has : forall u i, i < u_count u -> exists a, In ((u_id u, i), a) (unit_backends u).
Proof.
  intros u i H. unfold unit_backends, u_count in *.
  destruct (number_in _ (ordered (u_eps u)) 0 i) as [x Hx]; try lia.
  exists (ep_addr x). apply in_map_iff. exists (i, x). auto.
Qed.

Lemma desired_consistent : forall npips us, consistent (desired_fe npips us) (desired_be us).
Proof.
  intros npips us k v Hl i Hi. unfold desired_fe, desired_be in *.
  apply (of_list_lookup_in _ _ fkey_eqb FS) in Hl. apply in_flat_map in Hl. destruct Hl as [u [Hu Hin]].
  apply unit_frontends_val in Hin. destruct Hin as [E1 E2]. rewrite E1. rewrite E2 in Hi.
  destruct (unit_backends_has u i Hi) as [a Ha].
  apply (of_list_in_lookup _ _ pair_eqb BS) with (v := a). apply in_flat_map. eauto.
Qed.

(* ------------------------------------------------------------------ what a sequence of writes does to one key *)
Definition touchesF (k : fkey) (w : write) : Prop := w = WDelF k \/ exists v, w = WSetF k v.
Definition touchesB (k : bkey) (w : write) : Prop := w = WDelB k \/ exists v, w = WSetB k v.

Lemma fe_untouched : forall seg d k, (forall w, In w seg -> ~ touchesF k w) -> lkF (fst (do_writes d seg)) k = lkF (fst d) k.
Proof.
  induction seg as [|w seg IH]; intros d k H; simpl; auto.
  change (lkF (fst (do_writes (do_write d w) seg)) k = lkF (fst d) k).
  rewrite IH by (intros; apply H; right; auto).
  assert (Hw : ~ touchesF k w) by (apply H; left; auto).
  destruct w as [k' v'|k'|k' v'|k']; simpl; auto.
  - apply (lookup_upd_other _ _ fkey_eqb FS). intros ->. apply Hw. right. eauto.
  - apply (lookup_del_other _ _ fkey_eqb FS). intros ->. apply Hw. left. auto.
Qed.
Lemma be_untouched : forall seg d k, (forall w, In w seg -> ~ touchesB k w) -> lkB (snd (do_writes d seg)) k = lkB (snd d) k.
Proof.
  induction seg as [|w seg IH]; intros d k H; simpl; auto.
  change (lkB (snd (do_writes (do_write d w) seg)) k = lkB (snd d) k).
  rewrite IH by (intros; apply H; right; auto).
  assert (Hw : ~ touchesB k w) by (apply H; left; auto).
  destruct w as [k' v'|k'|k' v'|k']; simpl; auto.
  - apply (lookup_upd_other _ _ pair_eqb BS). intros ->. apply Hw. right. eauto.
  - apply (lookup_del_other _ _ pair_eqb BS). intros ->. apply Hw. left. auto.
Qed.

Definition isDelF (w : write) := exists k, w = WDelF k.
Definition isSetF (w : write) := exists k v, w = WSetF k v.
Definition isDelB (w : write) := exists k, w = WDelB k.
Definition isSetB (w : write) := exists k v, w = WSetB k v.

Lemma only_F_keeps_be : forall seg d, (forall w, In w seg -> isDelF w \/ isSetF w) -> snd (do_writes d seg) = snd d.
Proof.
  induction seg as [|w seg IH]; intros d H; simpl; auto.
  change (snd (do_writes (do_write d w) seg) = snd d). rewrite IH by (intros; apply H; right; auto).
  destruct (H w (or_introl eq_refl)) as [[k ->]|[k [v ->]]]; reflexivity.
Qed.
Lemma only_B_keeps_fe : forall seg d, (forall w, In w seg -> isDelB w \/ isSetB w) -> fst (do_writes d seg) = fst d.
Proof.
  induction seg as [|w seg IH]; intros d H; simpl; auto.
  change (fst (do_writes (do_write d w) seg) = fst d). rewrite IH by (intros; apply H; right; auto).
  destruct (H w (or_introl eq_refl)) as [[k ->]|[k [v ->]]]; reflexivity.
Qed.

Lemma fe_deleted : forall seg d k, (forall w, In w seg -> isDelF w) ->
  In (WDelF k) seg \/ lkF (fst d) k = None -> lkF (fst (do_writes d seg)) k = None.
Proof.
  induction seg as [|w seg IH]; intros d k H Hin; simpl in *.
  - destruct Hin as [[]|Hin]; auto.
  - change (lkF (fst (do_writes (do_write d w) seg)) k = None).
    apply IH; [intros; apply H; auto|].
    destruct (H w (or_introl eq_refl)) as [k' ->]. simpl.
    destruct (eqb_dec _ fkey_eqb FS k' k) as [->|Hne].
    + right. apply (lookup_del_same _ _ fkey_eqb).
    + rewrite (lookup_del_other _ _ fkey_eqb FS) by auto.
      destruct Hin as [[Hin|Hin]|Hin]; auto. inversion Hin. congruence.
Qed.

Lemma fe_set : forall seg d k, (forall w, In w seg -> isSetF w) -> forall v0,
  (exists v, In (WSetF k v) seg) \/ lkF (fst d) k = Some v0 ->
  exists v', lkF (fst (do_writes d seg)) k = Some v' /\
             (In (WSetF k v') seg \/ (lkF (fst d) k = Some v' /\ forall v, ~ In (WSetF k v) seg)).
Proof.
  induction seg as [|w seg IH]; intros d k H v0 Hin.
  - destruct Hin as [[v []]|Hin]. exists v0. split; auto.
  - change (exists v', lkF (fst (do_writes (do_write d w) seg)) k = Some v' /\
              (In (WSetF k v') (w :: seg) \/ (lkF (fst d) k = Some v' /\ forall v, ~ In (WSetF k v) (w :: seg)))).
    destruct (H w (or_introl eq_refl)) as [k' [v1 ->]].
    destruct (eqb_dec _ fkey_eqb FS k' k) as [->|Hne].
    + destruct (IH (do_write d (WSetF k v1)) k (fun w Hw => H w (or_intror Hw)) v1) as [v' [E1 E2]].
      { right. cbn [do_write fst snd]. apply (lookup_upd_same _ _ fkey_eqb FS). }
      exists v'. split; auto. left. destruct E2 as [E2|[E2 _]]; [right; auto|].
      cbn [do_write fst snd] in E2. rewrite (lookup_upd_same _ _ fkey_eqb FS) in E2. inversion E2; subst. left; auto.
    + destruct (IH (do_write d (WSetF k' v1)) k (fun w Hw => H w (or_intror Hw)) v0) as [v' [E1 E2]].
      { cbn [do_write fst snd]. rewrite (lookup_upd_other _ _ fkey_eqb FS) by auto.
        destruct Hin as [[v [Hin|Hin]]|Hin]; eauto. inversion Hin. congruence. }
      exists v'. split; auto. destruct E2 as [E2|[E2 E3]]; [left; right; auto|].
      cbn [do_write fst snd] in E2. rewrite (lookup_upd_other _ _ fkey_eqb FS) in E2 by auto.
      right. split; auto. intros v [Hv|Hv]; [inversion Hv; congruence | eapply E3; eauto].
Qed.

Lemma be_deleted : forall seg d k, (forall w, In w seg -> isDelB w) ->
  In (WDelB k) seg \/ lkB (snd d) k = None -> lkB (snd (do_writes d seg)) k = None.
Proof.
  induction seg as [|w seg IH]; intros d k H Hin; simpl in *.
  - destruct Hin as [[]|Hin]; auto.
  - change (lkB (snd (do_writes (do_write d w) seg)) k = None).
    apply IH; [intros; apply H; auto|].
    destruct (H w (or_introl eq_refl)) as [k' ->]. simpl.
    destruct (eqb_dec _ pair_eqb BS k' k) as [->|Hne].
    + right. apply (lookup_del_same _ _ pair_eqb).
    + rewrite (lookup_del_other _ _ pair_eqb BS) by auto.
      destruct Hin as [[Hin|Hin]|Hin]; auto. inversion Hin. congruence.
Qed.

Lemma be_set : forall seg d k, (forall w, In w seg -> isSetB w) -> forall v0,
  (exists v, In (WSetB k v) seg) \/ lkB (snd d) k = Some v0 ->
  exists v', lkB (snd (do_writes d seg)) k = Some v' /\
             (In (WSetB k v') seg \/ (lkB (snd d) k = Some v' /\ forall v, ~ In (WSetB k v) seg)).
Proof.
  induction seg as [|w seg IH]; intros d k H v0 Hin.
  - destruct Hin as [[v []]|Hin]. exists v0. split; auto.
  - change (exists v', lkB (snd (do_writes (do_write d w) seg)) k = Some v' /\
              (In (WSetB k v') (w :: seg) \/ (lkB (snd d) k = Some v' /\ forall v, ~ In (WSetB k v) (w :: seg)))).
    destruct (H w (or_introl eq_refl)) as [k' [v1 ->]].
    destruct (eqb_dec _ pair_eqb BS k' k) as [->|Hne].
    + destruct (IH (do_write d (WSetB k v1)) k (fun w Hw => H w (or_intror Hw)) v1) as [v' [E1 E2]].
      { right. cbn [do_write fst snd]. apply (lookup_upd_same _ _ pair_eqb BS). }
      exists v'. split; auto. left. destruct E2 as [E2|[E2 _]]; [right; auto|].
      cbn [do_write fst snd] in E2. rewrite (lookup_upd_same _ _ pair_eqb BS) in E2. inversion E2; subst. left; auto.
    + destruct (IH (do_write d (WSetB k' v1)) k (fun w Hw => H w (or_intror Hw)) v0) as [v' [E1 E2]].
      { cbn [do_write fst snd]. rewrite (lookup_upd_other _ _ pair_eqb BS) by auto.
        destruct Hin as [[v [Hin|Hin]]|Hin]; eauto. inversion Hin. congruence. }
      exists v'. split; auto. destruct E2 as [E2|[E2 E3]]; [left; right; auto|].
      cbn [do_write fst snd] in E2. rewrite (lookup_upd_other _ _ pair_eqb BS) in E2 by auto.
      right. split; auto. intros v [Hv|Hv]; [inversion Hv; congruence | eapply E3; eauto].
Qed.

(* ------------------------------------------------------------------ what the phases attempt *)
Lemma in_phase_del_fe : forall dfe fe w,
  In w (phase_del_fe dfe fe) <-> exists k v, w = WDelF k /\ In (k, v) fe /\ lkF dfe k = None.
Proof.
  intros. unfold phase_del_fe. rewrite in_flat_map. split.
  - intros [[k v] [Hin Hw]]. simpl in Hw. destruct (lkF dfe k) eqn:E; simpl in Hw; [contradiction|].
    destruct Hw as [<-|[]]. eauto.
  - intros [k [v [-> [Hin E]]]]. exists (k, v). split; auto. simpl. rewrite E. simpl. auto.
Qed.
Lemma in_phase_del_be : forall dbe be w,
  In w (phase_del_be dbe be) <-> exists k v, w = WDelB k /\ In (k, v) be /\ lkB dbe k = None.
Proof.
  intros. unfold phase_del_be. rewrite in_flat_map. split.
  - intros [[k v] [Hin Hw]]. simpl in Hw. destruct (lkB dbe k) eqn:E; simpl in Hw; [contradiction|].
    destruct Hw as [<-|[]]. eauto.
  - intros [k [v [-> [Hin E]]]]. exists (k, v). split; auto. simpl. rewrite E. simpl. auto.
Qed.
Lemma in_phase_set_be : forall dbe be w,
  In w (phase_set_be dbe be) <-> exists k v, w = WSetB k v /\ In (k, v) dbe /\ lkB be k <> Some v.
Proof.
  intros. unfold phase_set_be. rewrite in_flat_map. split.
  - intros [[k v] [Hin Hw]]. simpl in Hw. destruct (lkB be k) as [v'|] eqn:E.
    + destruct (pair_eqb v' v) eqn:E2; [contradiction|]. destruct Hw as [<-|[]].
      exists k, v. split; [auto|split; [auto|]]. rewrite E. intros H. inversion H; subst. assert (pair_eqb v v = true) by (apply BS; auto). congruence.
    + destruct Hw as [<-|[]]. exists k, v. split; [auto|split; [auto|]]. rewrite E. discriminate.
  - intros [k [v [-> [Hin E]]]]. exists (k, v). split; auto. simpl. destruct (lkB be k) as [v'|]; [|simpl; auto].
    destruct (pair_eqb v' v) eqn:E2; [|simpl; auto]. apply BS in E2. subst. congruence.
Qed.
Lemma in_phase_set_fe : forall dfe fe w,
  In w (phase_set_fe dfe fe) <-> exists k v, w = WSetF k v /\ In (k, v) dfe /\ lkF fe k <> Some v.
Proof.
  intros. unfold phase_set_fe. rewrite in_flat_map. split.
  - intros [[k v] [Hin Hw]]. simpl in Hw. destruct (lkF fe k) as [v'|] eqn:E.
    + destruct (fval_eqb v' v) eqn:E2; [contradiction|]. destruct Hw as [<-|[]].
      exists k, v. split; [auto|split; [auto|]]. rewrite E. intros H. inversion H; subst. assert (fval_eqb v v = true) by (apply fval_eqb_spec; auto). congruence.
    + destruct Hw as [<-|[]]. exists k, v. split; [auto|split; [auto|]]. rewrite E. discriminate.
  - intros [k [v [-> [Hin E]]]]. exists (k, v). split; auto. simpl. destruct (lkF fe k) as [v'|]; [|simpl; auto].
    destruct (fval_eqb v' v) eqn:E2; [|simpl; auto]. apply fval_eqb_spec in E2. subst. congruence.
Qed.

Lemma run_phase_spec : forall fF fB pending d tr d2 failed rest,
  run_phase fF fB pending d tr = Some (d2, failed, rest) ->
  exists seg, tr = seg ++ rest /\ d2 = do_writes d seg /\ incl seg pending /\ (failed = false -> incl pending seg).
Proof.
  intros fF fB pending d tr d2 failed rest H. unfold run_phase in H.
  set (good := filter (fun w => negb (write_fails fF fB w)) pending) in *.
  destruct (perm_of write_eqb (firstn (length good) tr) good) eqn:E; [|discriminate].
  inversion H; subst. clear H. exists (firstn (length good) tr).
  apply (perm_of_spec _ _ write_eqb_spec) in E. destruct E as [I1 [I2 _]].
  split; [symmetry; apply firstn_skipn|]. split; auto. split.
  - intros w Hw. apply I1 in Hw. unfold good in Hw. apply filter_In in Hw. tauto.
  - intros Hf w Hw. apply I2. unfold good. apply filter_In. split; auto.
    destruct (write_fails fF fB w) eqn:Ew; auto.
    assert (existsb (write_fails fF fB) pending = true) by (apply existsb_exists; eauto). congruence.
Qed.

(* ------------------------------------------------------------------ the four phases *)
Section Phases.
  Variables (dfe : femap) (dbe : bemap).
  Hypothesis Hcons : consistent dfe dbe.
  Hypothesis Ufe : ukeys dfe.
  Hypothesis Ube : ukeys dbe.

  Lemma phase2 : forall d seg, cons_dp d -> incl seg (phase_del_fe dfe (fst d)) ->
    Forall cons_dp (states_after d seg) /\ cons_dp (do_writes d seg) /\ snd (do_writes d seg) = snd d
    /\ (forall k, lkF dfe k <> None -> lkF (fst (do_writes d seg)) k = lkF (fst d) k)
    /\ (incl (phase_del_fe dfe (fst d)) seg -> forall k, lkF dfe k = None -> lkF (fst (do_writes d seg)) k = None).
  Proof.
    intros d seg Hc Hi.
    assert (A : forall w, In w seg -> exists k, w = WDelF k /\ lkF dfe k = None).
    { intros w Hw. apply Hi in Hw. apply in_phase_del_fe in Hw. destruct Hw as [k [v [-> [_ E]]]]. eauto. }
    assert (D : forall w, In w seg -> isDelF w) by (intros w Hw; destruct (A w Hw) as [k [-> _]]; exists k; auto).
    destruct (writes_keep (fun _ => True) isDelF) with (ws := seg) (d := d) as [S1 [_ S2]]; auto.
    { intros d0 w _ C [k ->]. split; auto. unfold cons_dp. simpl. apply del_fe_consistent; auto. }
    { apply Forall_forall; auto. }
    split; auto. split; auto. split; [apply only_F_keeps_be; auto|]. split.
    - intros k Hk. apply fe_untouched. intros w Hw T. destruct (A w Hw) as [k' [-> E]].
      destruct T as [T|[v T]]; inversion T; subst; contradiction.
    - intros Hall k Hk. apply fe_deleted; auto.
      destruct (lkF (fst d) k) as [v|] eqn:E; auto. left. apply Hall. apply in_phase_del_fe.
      exists k, v. split; auto. split; auto. apply (lookup_In _ _ fkey_eqb FS); auto.
  Qed.

  Lemma phase3 : forall d seg, cons_dp d -> incl seg (phase_set_be dbe (snd d)) ->
    Forall cons_dp (states_after d seg) /\ cons_dp (do_writes d seg) /\ fst (do_writes d seg) = fst d
    /\ (incl (phase_set_be dbe (snd d)) seg -> forall k v, lkB dbe k = Some v -> lkB (snd (do_writes d seg)) k = Some v).
  Proof.
    intros d seg Hc Hi.
    assert (A : forall w, In w seg -> exists k v, w = WSetB k v /\ lkB dbe k = Some v).
    { intros w Hw. apply Hi in Hw. apply in_phase_set_be in Hw. destruct Hw as [k [v [-> [E _]]]].
      exists k, v. split; auto. apply (ukeys_In_lookup _ _ pair_eqb BS); auto. }
    assert (D : forall w, In w seg -> isSetB w) by (intros w Hw; destruct (A w Hw) as [k [v [-> _]]]; exists k, v; auto).
    destruct (writes_keep (fun _ => True) isSetB) with (ws := seg) (d := d) as [S1 [_ S2]]; auto.
    { intros d0 w _ C [k [v ->]]. split; auto. unfold cons_dp. simpl. apply set_be_consistent; auto. }
    { apply Forall_forall; auto. }
    split; auto. split; auto. split; [apply only_B_keeps_fe; auto|].
    intros Hall k v Hk.
    assert (V : forall v', In (WSetB k v') seg -> v' = v).
    { intros v' Hv. destruct (A _ Hv) as [k0 [v0 [E1 E2]]]. inversion E1; subst. congruence. }
    destruct (be_set seg d k D v) as [v' [E1 E2]].
    - destruct (lkB (snd d) k) as [v1|] eqn:E.
      + destruct (eqb_dec _ pair_eqb BS v1 v) as [->|Hne]; auto.
        left. exists v. apply Hall. apply in_phase_set_be. exists k, v. split; auto. split.
        * apply (lookup_In _ _ pair_eqb BS); auto.
        * congruence.
      + left. exists v. apply Hall. apply in_phase_set_be. exists k, v. split; auto. split.
        * apply (lookup_In _ _ pair_eqb BS); auto.
        * congruence.
    - rewrite E1. f_equal. destruct E2 as [E2|[E2 E3]]; auto.
      destruct (eqb_dec _ pair_eqb BS v' v) as [->|Hne]; auto.
      exfalso. apply (E3 v). apply Hall. apply in_phase_set_be. exists k, v. split; auto. split.
      + apply (lookup_In _ _ pair_eqb BS); auto.
      + intros H. assert (X : Some v' = Some v) by (etransitivity; [symmetry; exact E2 | exact H]). inversion X. subst. apply Hne. reflexivity.
  Qed.

  Lemma phase5 : forall d seg, cons_dp d -> (forall k v, lkB dbe k = Some v -> lkB (snd d) k = Some v) ->
    incl seg (phase_set_fe dfe (fst d)) ->
    Forall cons_dp (states_after d seg) /\ cons_dp (do_writes d seg) /\ snd (do_writes d seg) = snd d
    /\ (forall k, lkF dfe k = None -> lkF (fst (do_writes d seg)) k = lkF (fst d) k)
    /\ (incl (phase_set_fe dfe (fst d)) seg -> forall k v, lkF dfe k = Some v -> lkF (fst (do_writes d seg)) k = Some v).
  Proof.
    intros d seg Hc HB Hi.
    assert (A : forall w, In w seg -> exists k v, w = WSetF k v /\ lkF dfe k = Some v).
    { intros w Hw. apply Hi in Hw. apply in_phase_set_fe in Hw. destruct Hw as [k [v [-> [E _]]]].
      exists k, v. split; auto. apply (ukeys_In_lookup _ _ fkey_eqb FS); auto. }
    assert (D : forall w, In w seg -> isSetF w) by (intros w Hw; destruct (A w Hw) as [k [v [-> _]]]; exists k, v; auto).
    destruct (writes_keep (fun d' => forall k v, lkB dbe k = Some v -> lkB (snd d') k = Some v)
                          (fun w => exists k v, w = WSetF k v /\ lkF dfe k = Some v)) with (ws := seg) (d := d) as [S1 [_ S2]]; auto.
    { intros d0 w P C [k [v [-> E]]]. split; auto. unfold cons_dp. simpl. apply set_fe_consistent; auto.
      intros i Hi0. destruct (lkB dbe (fv_id v, i)) as [a|] eqn:Ea.
      - rewrite (P _ _ Ea). discriminate.
      - exfalso. eapply Hcons; eauto. }
    { apply Forall_forall; auto. }
    split; auto. split; auto. split; [apply only_F_keeps_be; auto|]. split.
    - intros k Hk. apply fe_untouched. intros w Hw T. destruct (A w Hw) as [k' [v' [-> E]]].
      destruct T as [T|[v T]]; inversion T; subst. congruence.
    - intros Hall k v Hk.
      assert (V : forall v', In (WSetF k v') seg -> v' = v).
      { intros v' Hv. destruct (A _ Hv) as [k0 [v0 [E1 E2]]]. inversion E1; subst. congruence. }
      destruct (fe_set seg d k D v) as [v' [E1 E2]].
      + destruct (lkF (fst d) k) as [v1|] eqn:E.
        * destruct (eqb_dec _ fval_eqb fval_eqb_spec v1 v) as [->|Hne]; auto.
          left. exists v. apply Hall. apply in_phase_set_fe. exists k, v. split; auto. split.
          -- apply (lookup_In _ _ fkey_eqb FS); auto.
          -- congruence.
        * left. exists v. apply Hall. apply in_phase_set_fe. exists k, v. split; auto. split.
          -- apply (lookup_In _ _ fkey_eqb FS); auto.
          -- congruence.
      + rewrite E1. f_equal. destruct E2 as [E2|[E2 E3]]; auto.
        destruct (eqb_dec _ fval_eqb fval_eqb_spec v' v) as [->|Hne]; auto.
        exfalso. apply (E3 v). apply Hall. apply in_phase_set_fe. exists k, v. split; auto. split.
        * apply (lookup_In _ _ fkey_eqb FS); auto.
        * intros H. assert (X : Some v' = Some v) by (etransitivity; [symmetry; exact E2 | exact H]). inversion X. subst. apply Hne. reflexivity.
  Qed.

  Lemma phase6 : forall d seg, cons_dp d -> (forall k, lkF (fst d) k = lkF dfe k) ->
    incl seg (phase_del_be dbe (snd d)) ->
    Forall cons_dp (states_after d seg) /\ cons_dp (do_writes d seg) /\ fst (do_writes d seg) = fst d
    /\ (forall k, lkB dbe k <> None -> lkB (snd (do_writes d seg)) k = lkB (snd d) k)
    /\ (incl (phase_del_be dbe (snd d)) seg -> forall k, lkB dbe k = None -> lkB (snd (do_writes d seg)) k = None).
  Proof.
    intros d seg Hc HF Hi.
    assert (A : forall w, In w seg -> exists k, w = WDelB k /\ lkB dbe k = None).
    { intros w Hw. apply Hi in Hw. apply in_phase_del_be in Hw. destruct Hw as [k [v [-> [_ E]]]]. eauto. }
    assert (D : forall w, In w seg -> isDelB w) by (intros w Hw; destruct (A w Hw) as [k [-> _]]; exists k; auto).
    destruct (writes_keep (fun d' => forall k, lkF (fst d') k = lkF dfe k)
                          (fun w => exists k, w = WDelB k /\ lkB dbe k = None)) with (ws := seg) (d := d) as [S1 [_ S2]]; auto.
    { intros d0 w P C [k [-> E]]. split; auto. unfold cons_dp. simpl. apply del_be_consistent; auto.
      intros k' v' Hl i Hi0 ->. rewrite P in Hl. eapply Hcons; eauto. }
    { apply Forall_forall; auto. }
    split; auto. split; auto. split; [apply only_B_keeps_fe; auto|]. split.
    - intros k Hk. apply be_untouched. intros w Hw T. destruct (A w Hw) as [k' [-> E]].
      destruct T as [T|[v T]]; inversion T; subst; contradiction.
    - intros Hall k Hk. apply be_deleted; auto.
      destruct (lkB (snd d) k) as [v|] eqn:E; auto. left. apply Hall. apply in_phase_del_be.
      exists k, v. split; auto. split; auto. apply (lookup_In _ _ pair_eqb BS); auto.
  Qed.
End Phases.

Lemma Forall_app_intro : forall A (P : A -> Prop) l1 l2, Forall P l1 -> Forall P l2 -> Forall P (l1 ++ l2).
Proof. intros. apply Forall_app. auto. Qed.

Lemma run_phases_spec : forall fF fB dfe dbe d tr d' err,
  consistent dfe dbe -> ukeys dfe -> ukeys dbe -> cons_dp d ->
  run_phases fF fB dfe dbe d tr = Some (d', err) ->
  Forall cons_dp (states_after d tr) /\ d' = do_writes d tr /\ cons_dp d' /\
  (err = false -> (forall k, lkF (fst d') k = lkF dfe k) /\ (forall k, lkB (snd d') k = lkB dbe k)).
Proof.
  intros fF fB dfe dbe d tr d' err Hc Ufe Ube Hd H. unfold run_phases in H.
  (* phase 2 *)
  destruct (run_phase fF fB (phase_del_fe dfe (fst d)) d tr) as [[[d2 f2] r2]|] eqn:R2; [|discriminate].
  apply run_phase_spec in R2. destruct R2 as [s2 [-> [-> [I2 C2]]]].
  destruct (phase2 dfe d s2 Hd I2) as [A2 [B2 [S2 [K2 D2]]]].
  destruct f2.
  { destruct r2; inversion H; subst. rewrite app_nil_r. split; auto. split; auto. split; auto. discriminate. }
  specialize (C2 eq_refl). specialize (D2 C2).
  (* phase 3 *)
  destruct (run_phase fF fB (phase_set_be dbe (snd (do_writes d s2))) (do_writes d s2) r2) as [[[d3 f3] r3]|] eqn:R3; [|discriminate].
  apply run_phase_spec in R3. destruct R3 as [s3 [-> [-> [I3 C3]]]].
  destruct (phase3 dbe Ube (do_writes d s2) s3 B2 I3) as [A3 [B3 [S3 D3]]].
  rewrite states_after_app, do_writes_app.
  destruct f3.
  { destruct r3; inversion H; subst. rewrite app_nil_r. split; [apply Forall_app_intro; auto|]. split; auto. split; auto. discriminate. }
  specialize (C3 eq_refl). specialize (D3 C3).
  (* phase 5 *)
  set (d3 := do_writes (do_writes d s2) s3) in *.
  destruct (run_phase fF fB (phase_set_fe dfe (fst d3)) d3 r3) as [[[d5 f5] r5]|] eqn:R5; [|discriminate].
  apply run_phase_spec in R5. destruct R5 as [s5 [-> [-> [I5 C5]]]].
  destruct (phase5 dfe dbe Hc Ufe d3 s5 B3 D3 I5) as [A5 [B5 [S5 [K5 D5]]]].
  rewrite states_after_app, do_writes_app. fold d3.
  destruct f5.
  { destruct r5; inversion H; subst. rewrite app_nil_r.
    split; [apply Forall_app_intro; auto; apply Forall_app_intro; auto|]. split; auto. split; auto. discriminate. }
  specialize (C5 eq_refl). specialize (D5 C5).
  set (d5 := do_writes d3 s5) in *.
  assert (F5 : forall k, lkF (fst d5) k = lkF dfe k).
  { intros k. destruct (lkF dfe k) as [v|] eqn:E.
    - apply D5; auto.
    - rewrite K5 by auto. rewrite S3. apply D2; auto. }
  (* phase 6 *)
  destruct (run_phase fF fB (phase_del_be dbe (snd d5)) d5 r5) as [[[d6 f6] r6]|] eqn:R6; [|discriminate].
  apply run_phase_spec in R6. destruct R6 as [s6 [-> [-> [I6 C6]]]].
  destruct (phase6 dfe dbe Hc d5 s6 B5 F5 I6) as [A6 [B6 [S6 [K6 D6]]]].
  rewrite states_after_app, do_writes_app. fold d5.
  destruct r6; inversion H; subst. rewrite app_nil_r.
  split; [apply Forall_app_intro; auto; apply Forall_app_intro; auto; apply Forall_app_intro; auto|].
  split; auto. split; auto.
  intros ->. specialize (D6 (C6 eq_refl)). split.
  - intros k. rewrite S6. apply F5.
  - intros k. destruct (lkB dbe k) as [v|] eqn:E.
    + rewrite K6 by congruence. rewrite S5. apply D3; auto.
    + apply D6; auto.
Qed.

(* ------------------------------------------------------------------ exec_apply and histories *)
Lemma exec_apply_inv : forall cfg sy d st v fF fB tr sy' d' err,
  exec_apply cfg sy d st v fF fB tr = Some (sy', d', err) ->
  exists next us,
    visit_valid st v = true /\
    visit_all (sy_prev (if sy_synced sy then sy else startup (c_reset cfg) (c_npips cfg) sy (fst d) st))
              (sy_next (if sy_synced sy then sy else startup (c_reset cfg) (c_npips cfg) sy (fst d) st)) st v = Some (next, us) /\
    run_phases fF fB (desired_fe (c_npips cfg) us) (desired_be us) d tr = Some (d', err).
Proof.
  intros cfg sy d st v fF fB tr sy' d' err H. unfold exec_apply in H.
  destruct (visit_valid st v) eqn:V; [|discriminate]. simpl in H.
  destruct (visit_all _ _ st v) as [[next us]|] eqn:E; [|discriminate].
  destruct (run_phases fF fB (desired_fe (c_npips cfg) us) (desired_be us) d tr) as [[d1 e1]|] eqn:R; [|discriminate].
  inversion H; subst. exists next, us. auto.
Qed.

Lemma exec_apply_consistent : forall cfg sy d st v fF fB tr sy' d' err,
  cons_dp d -> exec_apply cfg sy d st v fF fB tr = Some (sy', d', err) ->
  Forall cons_dp (states_after d tr) /\ d' = do_writes d tr /\ cons_dp d'.
Proof.
  intros cfg sy d st v fF fB tr sy' d' err Hd H.
  apply exec_apply_inv in H. destruct H as [next [us [_ [_ R]]]].
  pose proof (run_phases_spec _ _ _ _ _ _ _ _ (desired_consistent _ _) (ukeys_of_list _ _ fkey_eqb FS _) (ukeys_of_list _ _ pair_eqb BS _) Hd R) as X.
  tauto.
Qed.

(* after every single write of every apply of every history *)
Lemma history_consistent : forall cfg ops sy d states sy' d',
  consistent (fst d) (snd d) -> run_history cfg sy d ops = Some (states, sy', d') ->
  Forall (fun s => consistent (fst s) (snd s)) states /\ consistent (fst d') (snd d').
Proof.
  intros cfg. induction ops as [|o ops IH]; intros sy d states sy' d' Hd H; simpl in H.
  - inversion H; subst. auto.
  - destruct o as [st v fF fB tr|].
    + destruct (exec_apply cfg sy d st v fF fB tr) as [[[sy1 d1] e1]|] eqn:E; [|discriminate].
      destruct (run_history cfg sy1 d1 ops) as [[[l sy2] d2]|] eqn:R; [|discriminate].
      inversion H; subst.
      destruct (exec_apply_consistent _ _ _ _ _ _ _ _ _ _ _ Hd E) as [A [_ C]].
      destruct (IH _ _ _ _ _ C R) as [A' C']. split; auto. apply Forall_app. auto.
    + eapply IH; eauto.
Qed.

(* a completed apply leaves exactly the desired maps *)
Lemma completed_apply_is_desired : forall cfg sy d st v fF fB tr sy' d',
  consistent (fst d) (snd d) -> exec_apply cfg sy d st v fF fB tr = Some (sy', d', false) ->
  exists next us,
    visit_all (sy_prev (if sy_synced sy then sy else startup (c_reset cfg) (c_npips cfg) sy (fst d) st))
              (sy_next (if sy_synced sy then sy else startup (c_reset cfg) (c_npips cfg) sy (fst d) st)) st v = Some (next, us) /\
    (forall k, lookup fkey_eqb (fst d') k = lookup fkey_eqb (desired_fe (c_npips cfg) us) k) /\
    (forall k, lookup pair_eqb (snd d') k = lookup pair_eqb (desired_be us) k).
Proof.
  intros cfg sy d st v fF fB tr sy' d' Hd H.
  apply exec_apply_inv in H. destruct H as [next [us [_ [V R]]]].
  pose proof (run_phases_spec _ _ _ _ _ _ _ _ (desired_consistent _ _) (ukeys_of_list _ _ fkey_eqb FS _) (ukeys_of_list _ _ pair_eqb BS _) Hd R) as X.
  exists next, us. split; auto. apply X. reflexivity.
Qed.
