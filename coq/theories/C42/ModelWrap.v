(* C42 — the exact uint32 arithmetic of Syncer.newSvcID (id := nextSvcID; nextSvcID++ wraps at 2^32), definitions
   only.  Model.v counts in N; this file repeats the id-assignment part of the model with the wrap and ProofsWrap32.v
   shows when the two coincide and what happens when they do not. *)
From Coq Require Import List NArith Bool Arith.
From Verif.C42 Require Import Model.
Import ListNotations.
Open Scope N_scope.

Definition ID_MOD : N := 4294967296.
Definition next_id (n : N) : N := (n + 1) mod ID_MOD.

Definition pick_id32 (prev : prevmap) (next : N) (pk : pkey) (s : svc) : N * N :=
  match lookup pair_eqb prev pk with
  | Some (id, old) => if svc_equal old s then (id, next) else (next, next_id next)
  | None => (next, next_id next)
  end.

Fixpoint visit_nodes32 (prev : prevmap) (next : N) (s : svc) (eps : list ep) (nodes : list N) : N * list unit_ :=
  match nodes with
  | [] => (next, [])
  | n :: t =>
      let si := remote_svc s n in
      let '(id, next1) := pick_id32 prev next (s_name s, n) si in
      let '(next2, us) := visit_nodes32 prev next1 s eps t in
      (next2, U (s_name s) n id si (filter (fun e => e_node e =? n) eps) :: us)
  end.

Definition visit_svc32 (prev : prevmap) (next : N) (s : svc) (eps : list ep) (nodes : list N) : N * list unit_ :=
  let '(id, next1) := pick_id32 prev next (s_name s, 0) s in
  let '(next2, us) := visit_nodes32 prev next1 s eps (if wants_remote s then nodes else []) in
  (next2, U (s_name s) 0 id s eps :: us).

Fixpoint visit_all32 (prev : prevmap) (next : N) (st : state) (v : visit) : option (N * list unit_) :=
  match v with
  | [] => Some (next, [])
  | (name, nodes) :: t =>
      match find_svc st name with
      | None => None
      | Some (s, eps) =>
          if negb (perm_of N.eqb nodes (if wants_remote s then remote_nodes eps else [])) then None else
          let '(next1, us) := visit_svc32 prev next s eps nodes in
          match visit_all32 prev next1 st t with
          | None => None
          | Some (next2, us') => Some (next2, us ++ us')
          end
      end
  end.

(* Syncer.Apply with uint32 ids (startup as in Model.v: it only raises the counter to max id + 1, which needs no wrap
   as long as no frontend carries id 2^32-1) *)
Definition exec_apply32 (cfg : config) (sy : syncer) (d : dp) (st : state) (v : visit)
           (failF : list fkey) (failB : list bkey) (tr : list write) : option (syncer * dp * bool) :=
  if negb (visit_valid st v) then None else
  let sy0 := if sy_synced sy then sy else startup (c_reset cfg) (c_npips cfg) sy (fst d) st in
  match visit_all32 (sy_prev sy0) (sy_next sy0) st v with
  | None => None
  | Some (next, us) =>
      let sy_fail := SY next (if sy_synced sy then new_prev us else sy_prev sy0) (sy_synced sy) in
      let sy_ok := SY next (new_prev us) true in
      match run_phases failF failB (desired_fe (c_npips cfg) us) (desired_be us) d tr with
      | None => None
      | Some (d', err) => Some (if err then sy_fail else sy_ok, d', err)
      end
  end.
