(* C09 — staged policies leave no trace in what is rendered. *)
From Coq Require Import List NArith Bool Arith String.
From Verif.Common Require Import Packet PolicyRef Ipt.
From Verif.C08 Require Import Model.
From Verif.C09 Require Import Model.
Import ListNotations.
Open Scope N_scope.

Lemma nonstaged_idem : forall ps, nonstaged (nonstaged ps) = nonstaged ps.
Proof.
  induction ps as [|q ps IH]; [reflexivity|]. unfold nonstaged in *. cbn [filter].
  destruct (negb (mp_staged q)) eqn:E; [|exact IH]. cbn [filter]. rewrite E, IH. reflexivity.
Qed.

Lemma group_rules_nonstaged : forall ret first c pols k,
  group_rules_gen ret first c k pols = group_rules_gen ret first c k (nonstaged pols).
Proof.
  intros ret first c pols. induction pols as [|q ps IH]; intro k; [reflexivity|].
  unfold nonstaged. cbn [group_rules_gen filter]. fold (nonstaged ps).
  destruct (mp_staged q) eqn:E; cbn [negb]; [apply IH|].
  cbn [group_rules_gen]. rewrite E, <- IH. reflexivity.
Qed.
