(* C09 — the raw-table (untracked) and mangle-table (pre-DNAT) chains of host endpoints: same tier loop, but no
   end-of-tier default action and no profiles; an untracked allow is "NOTRACK and return". *)
From Coq Require Import List NArith Bool Arith Lia String.
From Verif.Common Require Import Packet PolicyRef Ipt.
From Verif.C08 Require Import Model Spec ProofsMark ProofsExact ProofsFilter Proofs ProofsChain.
From Verif.C09 Require Import Model Spec ProofsMarks ProofsPolicy ProofsGroup ProofsEndpoint.
Import ListNotations.
Open Scope N_scope.

Lemma tier_verdict_nodefault_eq : forall s t p,
  tier_verdict s (to_tier_nodefault t) p =
  if existsb has_nonstaged (mt_groups t)
  then match pv s (flat_map g_pols (mt_groups t)) p with VNoMatch => VPass | x => x end
  else VPass.
Proof.
  intros s t p. unfold tier_verdict, to_tier_nodefault, pv. cbn [t_policies t_default].
  rewrite enforced_map, existsb_has_nonstaged.
  destruct (nonstaged (flat_map g_pols (mt_groups t))); reflexivity.
Qed.

Lemma tiers_verdict_nodefault_unmark : forall s ts p p', unmark p' = unmark p ->
  tiers_verdict_nodefault s ts p' = tiers_verdict_nodefault s ts p.
Proof.
  intros s ts p p' H. induction ts as [|t ts IH]; [reflexivity|]. cbn [tiers_verdict_nodefault].
  rewrite (tier_verdict_unmark s (to_tier_nodefault t) p p' H), IH. reflexivity.
Qed.

Section Raw.
  Variable c : cfg.
  Variable e : env.
  Variable cs : chains.
  Variable v : ipver.
  Hypothesis Hmarks : marks_ok c = true.
  Let F := marks_facts c Hmarks.
  Variable ec : ecfg.
  Hypothesis Hnd : is_normal ec || is_forward ec = false.

  Lemma tier_run_nd : forall f t rs p ps,
    groups_in_cs c e cs v (mt_groups t) -> wfp v p -> st c false ps (pk_mark p) ->
    cont_result c (tier_verdict (e_sets e) (to_tier_nodefault t) p) p
      (go cs e (run (S (S f)) cs e) (tier_rules ec c t ++ rs) p) (go cs e (run (S (S f)) cs e) rs).
  Proof.
    intros f t rs p ps Hin Hw Hst. rewrite tier_verdict_nodefault_eq. unfold tier_rules.
    destruct (mt_groups t) as [|g gs] eqn:Eg.
    - cbn. exists p, ps. auto.
    - rewrite <- Eg in *. cbn [app]. unfold AClearMark, ASetMaskedMark.
      rewrite go_mark by reflexivity.
      set (p1 := set_mark p (apply_mark (lnot32 (c_pass c)) 0 (pk_mark p))).
      assert (U1 : unmark p1 = unmark p) by reflexivity.
      assert (S1 : st c false false (pk_mark p1)) by (apply (st_clear_pass c F _ _ _ Hst)).
      assert (W1 : wfp v p1) by (eapply wfp_unmark; eassumption).
      rewrite tier_jumps_units, <- app_assoc.
      assert (E0 : end_of_tier ec c t = []) by (unfold end_of_tier; rewrite Hnd; reflexivity).
      rewrite E0. cbn [app].
      pose proof (units_run c e cs v Hmarks ec (S (S f)) (flat_map (group_units) (mt_groups t))
                    rs p1 (groups_units_ok c e cs v Hmarks f _ Hin) W1 S1) as X.
      rewrite pv_units, (pv_unmark _ _ _ _ U1) in X.
      destruct (existsb has_nonstaged (mt_groups t)) eqn:En.
      + destruct (pv (e_sets e) (flat_map g_pols (mt_groups t)) p); cbn [seq_result cont_result] in *.
        * destruct X as (q & X1 & X2 & X3). exists q. split; [assumption|split; [congruence|assumption]].
        * destruct X as (q & X1 & X2). exists q. split; [assumption|congruence].
        * destruct X as (q & X1 & X2 & X3). exists q, true. split; [assumption|split; [congruence|assumption]].
        * destruct X as (q & X1 & X2 & X3). exists q, false. split; [assumption|split; [congruence|assumption]].
      + assert (Ev : pv (e_sets e) (flat_map g_pols (mt_groups t)) p = VNoMatch).
        { rewrite existsb_has_nonstaged in En. unfold pv. destruct (nonstaged (flat_map g_pols (mt_groups t))); [reflexivity|discriminate]. }
        rewrite Ev in X. cbn [seq_result cont_result] in *.
        destruct X as (q & X1 & X2 & X3). exists q, false. split; [assumption|split; [congruence|assumption]].
  Qed.

  Lemma tiers_run_nd : forall f tiers rs p ps,
    tiers_in_cs c e cs v tiers -> wfp v p -> st c false ps (pk_mark p) ->
    cont_result c (tiers_verdict_nodefault (e_sets e) tiers p) p
      (go cs e (run (S (S f)) cs e) (flat_map (tier_rules ec c) tiers ++ rs) p) (go cs e (run (S (S f)) cs e) rs).
  Proof.
    intros f tiers rs. induction tiers as [|t ts IH]; intros p ps Hin Hw Hst.
    - cbn. exists p, ps. auto.
    - cbn [flat_map tiers_verdict_nodefault]. rewrite <- app_assoc.
      pose proof (tier_run_nd f t (flat_map (tier_rules ec c) ts ++ rs) p ps (Hin t (or_introl eq_refl)) Hw Hst) as X.
      assert (Hin' : tiers_in_cs c e cs v ts) by (intros t' Ht'; apply Hin; right; exact Ht').
      assert (C : forall q ps', go cs e (run (S (S f)) cs e) (tier_rules ec c t ++ flat_map (tier_rules ec c) ts ++ rs) p
                                = go cs e (run (S (S f)) cs e) (flat_map (tier_rules ec c) ts ++ rs) q ->
                      unmark q = unmark p -> st c false ps' (pk_mark q) ->
                      cont_result c (tiers_verdict_nodefault (e_sets e) ts p) p
                        (go cs e (run (S (S f)) cs e) (tier_rules ec c t ++ flat_map (tier_rules ec c) ts ++ rs) p)
                        (go cs e (run (S (S f)) cs e) rs)).
      { intros q ps' E U S'. rewrite E.
        pose proof (IH q ps' Hin' (wfp_unmark v _ _ U Hw) S') as Y.
        rewrite (tiers_verdict_nodefault_unmark _ _ _ _ U) in Y.
        destruct (tiers_verdict_nodefault (e_sets e) ts p); cbn [cont_result] in *.
        - destruct Y as (r & Y1 & Y2 & Y3). exists r. split; [assumption|split; [congruence|assumption]].
        - destruct Y as (r & Y1 & Y2). exists r. split; [assumption|congruence].
        - destruct Y as (r & ps2 & Y1 & Y2 & Y3). exists r, ps2. split; [assumption|split; [congruence|assumption]].
        - destruct Y as (r & ps2 & Y1 & Y2 & Y3). exists r, ps2. split; [assumption|split; [congruence|assumption]]. }
      destruct (tier_verdict (e_sets e) (to_tier_nodefault t) p); cbn [cont_result] in X.
      + exact X.
      + exact X.
      + destruct X as (q & ps' & X1 & X2 & X3). eapply C; eassumption.
      + destruct X as (q & ps' & X1 & X2 & X3). eapply C; eassumption.
  Qed.

  Theorem raw_tail_exact : forall f tiers profiles p,
    tiers_in_cs c e cs v tiers -> failsafe_ok e cs ec (S (S f)) ->
    wfp v p -> entry_mark_ok c p = true ->
    ok_result ec c (expected_tail ec c e tiers profiles p) p
      (go cs e (run (S (S f)) cs e) (endpoint_tail ec c tiers profiles) p) = true.
  Proof.
    intros f tiers profiles p Hti Hfs Hw Hd.
    assert (Hn : is_normal ec = false) by (destruct (is_normal ec); [discriminate Hnd|reflexivity]).
    assert (Hfw : is_forward ec = false) by (rewrite Hn in Hnd; exact Hnd).
    assert (Ht : ec_type ec = TUntracked \/ ec_type ec = TPreDNAT).
    { unfold is_normal in Hn. unfold is_forward in Hfw. destruct (ec_type ec); try discriminate; auto. }
    unfold endpoint_tail, expected_tail, expected_verdict.
    (* conntrack rules: only in the mangle chain *)
    assert (CT : forall rs,
      (if negb (is_untracked ec) && ct_in p [CtRelated; CtEstablished] then False
       else if negb (is_untracked ec) && ec_ct_invalid ec && ct_in p [CtInvalid] then False else True) ->
      go cs e (run (S (S f)) cs e) (conntrack_rules ec c ++ rs) p = go cs e (run (S (S f)) cs e) rs p).
    { intros rs H. destruct (is_untracked ec) eqn:Eu.
      - unfold conntrack_rules. rewrite Eu. reflexivity.
      - rewrite conntrack_run by exact Eu. cbn [negb andb] in H.
        destruct (ct_in p [CtRelated; CtEstablished]); [contradiction|].
        destruct (ec_ct_invalid ec && ct_in p [CtInvalid]); [contradiction|reflexivity]. }
    destruct (negb (is_untracked ec) && ct_in p [CtRelated; CtEstablished]) eqn:E1.
    { apply andb_prop in E1. destruct E1 as [Eu E1]. apply negb_true_iff in Eu.
      rewrite conntrack_run by exact Eu. rewrite E1.
      destruct (ec_allow ec) eqn:Ea; cbn [ok_result]; rewrite Ea.
      - apply packet_eqb_unmarked_of_unmark. reflexivity.
      - cbn [pk_mark set_mark]. rewrite (set_accept_has c F). cbn [andb]. apply packet_eqb_unmarked_of_unmark. reflexivity. }
    destruct (negb (is_untracked ec) && ec_ct_invalid ec && ct_in p [CtInvalid]) eqn:E2.
    { apply andb_prop in E2. destruct E2 as [E2 E3]. apply andb_prop in E2. destruct E2 as [Eu E2]. apply negb_true_iff in Eu.
      rewrite Eu in E1. cbn [negb andb] in E1.
      rewrite conntrack_run by exact Eu. rewrite E1, E2, E3. cbn [andb ok_result].
      rewrite deny_final_fin, packet_eqb_unmarked_of_unmark; reflexivity. }
    rewrite CT by exact I.
    rewrite qos_conn_run, Hn. cbn [andb].
    rewrite (failsafe_run e cs ec f _ p Hfs).
    rewrite ?Hn, ?Hfw, ?andb_false_r. cbn [app].
    unfold AClearMark, ASetMaskedMark. rewrite go_mark by reflexivity.
    set (p1 := set_mark p (apply_mark (lnot32 (N.lor (c_accept c) (c_pass c))) 0 (pk_mark p))).
    assert (U1 : unmark p1 = unmark p) by reflexivity.
    assert (S1 : st c false false (pk_mark p1)).
    { apply (st_clear_both c F). unfold entry_mark_ok, mark_clear in Hd. apply N.eqb_eq in Hd. exact Hd. }
    assert (W1 : wfp v p1) by (eapply wfp_unmark; eassumption).
    rewrite encap_run. change (encap_blocked ec p1) with (encap_blocked ec p).
    destruct (encap_blocked ec p).
    { cbn [ok_result]. rewrite deny_final_fin, packet_eqb_unmarked_of_unmark; reflexivity. }
    rewrite app_nil_r.
    pose proof (tiers_run_nd f tiers [] p1 false Hti W1 S1) as X. rewrite app_nil_r in X.
    rewrite (tiers_verdict_nodefault_unmark _ _ _ _ U1) in X.
    assert (G : ok_result ec c
                  match tiers_verdict_nodefault (e_sets e) tiers p with VAllow => ExpAllow | VDeny => ExpDeny | _ => ExpNoVerdict end p
                  (go cs e (run (S (S f)) cs e) (flat_map (tier_rules ec c) tiers) p1) = true).
    { destruct (tiers_verdict_nodefault (e_sets e) tiers p); cbn [cont_result] in X.
      + destruct X as (q & X1 & X2 & X3). rewrite X1. cbn [ok_result]. rewrite (st_mark_has c _ _ X3). cbn [andb].
        apply packet_eqb_unmarked_of_unmark. congruence.
      + destruct X as (q & X1 & X2). rewrite X1. cbn [ok_result]. rewrite deny_final_fin. cbn [andb].
        apply packet_eqb_unmarked_of_unmark. congruence.
      + destruct X as (q & ps' & X1 & X2 & (X3 & _)). rewrite X1. cbn [go ok_result]. unfold mark_clear. rewrite X3. cbn [N.eqb andb].
        apply packet_eqb_unmarked_of_unmark. congruence.
      + destruct X as (q & ps' & X1 & X2 & (X3 & _)). rewrite X1. cbn [go ok_result]. unfold mark_clear. rewrite X3. cbn [N.eqb andb].
        apply packet_eqb_unmarked_of_unmark. congruence. }
    destruct Ht as [Ht|Ht]; rewrite Ht; exact G.
  Qed.
End Raw.
