(* C09 — the verdict state carried by the accept / pass / drop mark bits, and how the matches and mark
   updates of the endpoint and group chains read and change it. *)
From Coq Require Import List NArith Bool Arith Lia.
From Verif.Common Require Import Packet PolicyRef Ipt.
From Verif.C08 Require Import Model Spec ProofsMark ProofsExact.
From Verif.C09 Require Import Model.
Import ListNotations.
Open Scope N_scope.

(* accept bits all set / all clear, pass bits all set / all clear, drop bits clear *)
Definition st (c : cfg) (a ps : bool) (m : N) : Prop :=
  N.land m (c_accept c) = (if a then c_accept c else 0)
  /\ N.land m (c_pass c) = (if ps then c_pass c else 0)
  /\ N.land m (c_drop c) = 0.

Record mfacts (c : cfg) : Prop := {
  mf_a0 : c_accept c <> 0; mf_p0 : c_pass c <> 0; mf_d0 : c_drop c <> 0;
  mf_a32 : N.land (c_accept c) M32 = c_accept c;
  mf_p32 : N.land (c_pass c) M32 = c_pass c;
  mf_d32 : N.land (c_drop c) M32 = c_drop c;
  mf_ap : N.land (c_accept c) (c_pass c) = 0;
  mf_ad : N.land (c_accept c) (c_drop c) = 0;
  mf_pd : N.land (c_pass c) (c_drop c) = 0;
  mf_as : N.land (c_accept c) (scratch c) = 0;
  mf_ps : N.land (c_pass c) (scratch c) = 0;
  mf_ds : N.land (c_drop c) (scratch c) = 0
}.

Lemma marks_facts : forall c, marks_ok c = true -> mfacts c.
Proof.
  intros c H.
  destruct (marks_ok_facts c H) as ([a0 a32] & [p0 p32] & [d0 d32] & _ & _ & as0 & as1 & ps0 & ps1 & ds0 & ds1 & _).
  unfold marks_ok in H. repeat (apply andb_prop in H; destruct H as [H ?]).
  unfold disjoint in *.
  repeat match goal with Hx : N.eqb _ 0 = true |- _ => apply N.eqb_eq in Hx end.
  constructor; try assumption; unfold scratch; apply land_lor_0; assumption.
Qed.

Section Marks.
  Variable c : cfg.
  Hypothesis F : mfacts c.
  Variable e : env.

  Lemma land_comm_0 : forall a b, N.land a b = 0 -> N.land b a = 0.
  Proof. intros a b H. rewrite N.land_comm. exact H. Qed.

  (* ------------------------------------------------------------ reading the state *)
  Lemma m_pass_clear : forall p a ps, st c a ps (pk_mark p) -> matches e p [pass_clear c] = negb ps.
  Proof.
    intros p a ps (_ & Hp & _). unfold pass_clear. cbn [matches forallb match_one]. rewrite xorb_false_l, andb_true_r, Hp.
    destruct ps; cbn [negb]; [|reflexivity]. apply N.eqb_neq. apply (mf_p0 c F).
  Qed.

  Lemma m_accept_set : forall p a ps, st c a ps (pk_mark p) -> matches e p [accept_set c] = a.
  Proof.
    intros p a ps (Ha & _ & _). unfold accept_set. cbn [matches forallb match_one]. rewrite xorb_false_l, andb_true_r, Ha.
    destruct a; [apply N.eqb_refl|]. apply N.eqb_neq. intro E. apply (mf_a0 c F). symmetry. exact E.
  Qed.

  Lemma land_verdict_bits : forall m a ps, st c a ps m ->
    N.eqb (N.land m (verdict_bits c)) 0 = negb (a || ps).
  Proof.
    intros m a ps (Ha & Hp & _). unfold verdict_bits. rewrite N.land_lor_distr_r, Ha, Hp.
    destruct a, ps; cbn [orb negb]; try reflexivity; apply N.eqb_neq; intro E; apply N.lor_eq_0_iff in E; destruct E as [E1 E2];
      first [apply (mf_a0 c F); assumption | apply (mf_p0 c F); assumption].
  Qed.

  Lemma m_verdict_clear : forall p a ps, st c a ps (pk_mark p) ->
    matches e p [MMark false 0 (verdict_bits c)] = negb (a || ps).
  Proof.
    intros p a ps H. cbn [matches forallb match_one]. rewrite xorb_false_l, andb_true_r. apply land_verdict_bits. exact H.
  Qed.
  Lemma m_verdict_set : forall p a ps, st c a ps (pk_mark p) ->
    matches e p [MMark true 0 (verdict_bits c)] = a || ps.
  Proof.
    intros p a ps H. cbn [matches forallb match_one]. rewrite andb_true_r, (land_verdict_bits _ _ _ H).
    destruct (a || ps); reflexivity.
  Qed.

  Lemma st_mark_has : forall m ps, st c true ps m -> mark_has m (c_accept c) = true.
  Proof. intros m ps (Ha & _). unfold mark_has. rewrite Ha. apply N.eqb_refl. Qed.

  (* entry conditions of C08's per-rule statement *)
  Lemma st_entry_ok : forall p ps a, st c false ps (pk_mark p) -> (ps = true -> a <> Pass) -> entry_ok c a p = true.
  Proof.
    intros p ps a (Ha & Hp & Hd) Hps. unfold entry_ok, mark_clear. destruct a; cbn [verdict_mark].
    - rewrite Ha. reflexivity.
    - rewrite Hd. reflexivity.
    - destruct ps; [exfalso; apply Hps; reflexivity|]. rewrite Hp. reflexivity.
    - rewrite N.land_0_r. reflexivity.
  Qed.

  (* ------------------------------------------------------------ mark updates *)
  Lemma st_clear_pass : forall m a ps, st c a ps m -> st c a false (apply_mark (lnot32 (c_pass c)) 0 m).
  Proof.
    intros m a ps (Ha & Hp & Hd). repeat split.
    - rewrite masked_set_frame; [exact Ha|apply N.land_0_l|apply (mf_ap c F)|apply (mf_a32 c F)].
    - apply masked_set_reads; [apply N.land_0_l|apply (mf_p32 c F)].
    - rewrite masked_set_frame; [exact Hd|apply N.land_0_l|apply land_comm_0, (mf_pd c F)|apply (mf_d32 c F)].
  Qed.

  Lemma st_clear_both : forall m, N.land m (c_drop c) = 0 ->
    st c false false (apply_mark (lnot32 (N.lor (c_accept c) (c_pass c))) 0 m).
  Proof.
    intros m Hd.
    assert (R : N.land (apply_mark (lnot32 (N.lor (c_accept c) (c_pass c))) 0 m) (N.lor (c_accept c) (c_pass c)) = 0).
    { apply masked_set_reads; [apply N.land_0_l|]. apply lor_le32; [apply (mf_a32 c F)|apply (mf_p32 c F)]. }
    repeat split.
    - rewrite (land_sub _ _ (c_accept c) _ R); [apply N.land_0_l|apply land_lor_l].
    - rewrite (land_sub _ _ (c_pass c) _ R); [apply N.land_0_l|apply land_lor_r].
    - rewrite masked_set_frame; [exact Hd|apply N.land_0_l| |apply (mf_d32 c F)].
      apply land_lor_0; apply land_comm_0; [apply (mf_ad c F)|apply (mf_pd c F)].
  Qed.

  Lemma set_accept_has : forall m, mark_has (apply_mark (lnot32 (c_accept c)) (c_accept c) m) (c_accept c) = true.
  Proof.
    intros m. unfold mark_has. rewrite masked_set_reads; [apply N.eqb_refl|apply N.land_diag|apply (mf_a32 c F)].
  Qed.

  (* ------------------------------------------------------------ frames coming out of policy chains *)
  Lemma same_outside_read : forall b x m m',
    same_outside b m m' = true -> N.land x b = 0 -> N.land x M32 = x -> N.land m' x = N.land m x.
  Proof.
    intros b x m m' H Hx H32. unfold same_outside in H. apply N.eqb_eq in H. symmetry in H.
    eapply outside_read; eassumption.
  Qed.

  Lemma st_after_nomatch : forall m m' a ps, st c a ps m -> same_outside (scratch c) m m' = true -> st c a ps m'.
  Proof.
    intros m m' a ps (Ha & Hp & Hd) H. repeat split.
    - rewrite (same_outside_read _ _ _ _ H (mf_as c F) (mf_a32 c F)). exact Ha.
    - rewrite (same_outside_read _ _ _ _ H (mf_ps c F) (mf_p32 c F)). exact Hp.
    - rewrite (same_outside_read _ _ _ _ H (mf_ds c F) (mf_d32 c F)). exact Hd.
  Qed.

  Lemma st_after_allow : forall m m' a ps, st c a ps m ->
    mark_has m' (c_accept c) = true -> same_outside (N.lor (scratch c) (c_accept c)) m m' = true -> st c true ps m'.
  Proof.
    intros m m' a ps (Ha & Hp & Hd) Hh H. unfold mark_has in Hh. apply N.eqb_eq in Hh. repeat split.
    - exact Hh.
    - rewrite (same_outside_read _ (c_pass c) _ _ H); [exact Hp| |apply (mf_p32 c F)].
      apply land_lor_0; [apply (mf_ps c F)|apply land_comm_0, (mf_ap c F)].
    - rewrite (same_outside_read _ (c_drop c) _ _ H); [exact Hd| |apply (mf_d32 c F)].
      apply land_lor_0; [apply (mf_ds c F)|apply land_comm_0, (mf_ad c F)].
  Qed.

  Lemma st_after_pass : forall m m' a ps, st c a ps m ->
    mark_has m' (c_pass c) = true -> same_outside (N.lor (scratch c) (c_pass c)) m m' = true -> st c a true m'.
  Proof.
    intros m m' a ps (Ha & Hp & Hd) Hh H. unfold mark_has in Hh. apply N.eqb_eq in Hh. repeat split.
    - rewrite (same_outside_read _ (c_accept c) _ _ H); [exact Ha| |apply (mf_a32 c F)].
      apply land_lor_0; [apply (mf_as c F)|apply (mf_ap c F)].
    - exact Hh.
    - rewrite (same_outside_read _ (c_drop c) _ _ H); [exact Hd| |apply (mf_d32 c F)].
      apply land_lor_0; [apply (mf_ds c F)|apply land_comm_0, (mf_pd c F)].
  Qed.
End Marks.
