(* C09 — executable model of felix/rules/endpoints.go: endpointIptablesChain (the chain of one endpoint in one
   direction), PolicyGroupToIptablesChains (group chains with their RETURN stride), PolicyGroup.ShouldBeInlined /
   HasNonStagedPolicies, and of the chain-level half of felix/rules/policy.go: PolicyToIptablesChains /
   ProfileToIptablesChains / ProtoRulesToIptablesRules (staged policies give no chain, trailing RETURNs are
   stripped, an empty chain gets one rule that only carries the comment).  Per-rule rendering is C08's
   `render_rule`.  The result is a chain map of the abstract machine Common/Ipt.v.   Definitions only.

   Chain names are inputs: the driver passes the names the real code computes (PolicyChainName,
   PolicyGroup.ChainName, ProfileChainName, EndpointChainName), interned injectively to short strings.

   QoS controls: the packet-rate and connection-limit rules are modelled with oracle matches (MOther): 0 = xt_limit
   "within rate", 1 = nft "limit rate over", 2 = TCP SYN, 3 = connection count over the limit; the numbers of the
   limits are not part of the abstract syntax. *)
From Coq Require Import List NArith Bool Arith String.
From Verif.Common Require Import Packet PolicyRef Ipt.
From Verif.C08 Require Import Model.
Import ListNotations.
Open Scope N_scope.

(* ------------------------------------------------------------------ inputs *)
Record mpolicy := {
  mp_name : string;          (* chain name of the policy for the direction rendered *)
  mp_staged : bool;          (* model.KindIsStaged(kind) *)
  mp_rules : list rule       (* InboundRules / OutboundRules, whichever the direction selects *)
}.
Record mgroup := {
  g_name : string;           (* PolicyGroup.ChainName() *)
  g_pols : list mpolicy
}.
Record mtier := {
  mt_groups : list mgroup;   (* IngressPolicies / EgressPolicies of the TierPolicyGroups *)
  mt_default : tier_default  (* DefaultPass iff DefaultAction == "Pass" *)
}.
Record mprofile := { pf_name : string; pf_rules : list rule }.

Inductive chain_type := TNormal | TUntracked | TPreDNAT | TForward.
Inductive allow_act := AllowAccept | AllowReturn.         (* allowAction: ACCEPT, or RETURN (mangle / filterAllowAction) *)

Record ecfg := {
  ec_type : chain_type;
  ec_admin_up : bool;
  ec_failsafe : option string;     (* failsafeChain, "" = None *)
  ec_allow : allow_act;
  ec_ct_invalid : bool;            (* !DisableConntrackInvalid *)
  ec_block_vxlan : option N;       (* Some VXLANPort when !allowVXLANEncap *)
  ec_block_ipip : bool;            (* !allowIPIPEncap *)
  ec_qos_rate : bool;              (* qosControls gives a packet rate for this direction (normal chains only) *)
  ec_qos_conn : bool;              (* qosControls gives a connection limit for this direction *)
  ec_profile_fix : bool            (* tree has fixes/C09-profile-pass-mark.patch: profile chains that contain a Pass
                                      rule start by clearing the pass mark (probed from the tree by the driver) *)
}.

(* ------------------------------------------------------------------ policy / profile chains *)
Definition render_rules (c : cfg) (v : ipver) (rules : list rule) : list irule := flat_map (render_rule c v) rules.

(* ProtoRulesToIptablesRules with a chain comment: strip trailing RETURNs; an empty list becomes one empty Rule{} *)
Definition policy_body (c : cfg) (v : ipver) (rules : list rule) : list irule :=
  match strip_trailing_returns (render_rules c v rules) with
  | [] => [mk [] ANone]
  | l => l
  end.

(* ProfileToIptablesChains.  With the fix, a profile chain holding a Pass rule first clears the pass mark. *)
Definition is_pass_action (a : action) : bool := match a with Pass => true | _ => false end.
Definition has_pass_rule (rules : list rule) : bool := existsb (fun r => is_pass_action (r_action r)) rules.
Definition profile_body (fx : bool) (c : cfg) (v : ipver) (rules : list rule) : list irule :=
  (if fx && has_pass_rule rules then [mk [] (AClearMark (c_pass c))] else []) ++ policy_body c v rules.

(* ------------------------------------------------------------------ groups *)
Definition nonstaged (ps : list mpolicy) : list mpolicy := filter (fun q => negb (mp_staged q)) ps.
Definition should_inline (g : mgroup) : bool := (List.length (nonstaged (g_pols g)) <=? 1)%nat.
Definition has_nonstaged (g : mgroup) : bool := existsb (fun q => negb (mp_staged q)) (g_pols g).

Definition verdict_bits (c : cfg) : N := N.lor (c_pass c) (c_accept c).     (* r.MarkPass | r.MarkAccept *)

(* PolicyGroupToIptablesChains, parametric in where the RETURN rules go:
     ret k   : a "Return on verdict" rule is emitted before the jump of the k-th non-staged policy
     first k : that jump is unconditional (first rule of a block) instead of guarded by "verdict bits clear" *)
Fixpoint group_rules_gen (ret first : nat -> bool) (c : cfg) (k : nat) (pols : list mpolicy) : list irule :=
  match pols with
  | [] => []
  | q :: rest =>
      if mp_staged q then group_rules_gen ret first c k rest
      else (if ret k then [mk [MMark true 0 (verdict_bits c)] AReturn] else [])
           ++ mk (if first k then [] else [MMark false 0 (verdict_bits c)]) (AJump (mp_name q))
           :: group_rules_gen ret first c (S k) rest
  end.

Definition return_stride : nat := 5.
Definition stride_ret (k : nat) : bool := negb (k =? 0)%nat && (k mod return_stride =? 0)%nat.
Definition stride_first (k : nat) : bool := (k mod return_stride =? 0)%nat.
Definition group_body (c : cfg) (pols : list mpolicy) : list irule := group_rules_gen stride_ret stride_first c 0 pols.

(* ------------------------------------------------------------------ how the endpoint manager forms the groups *)
(* felix/dataplane/linux/endpoint_mgr.go groupPolicies: walk a tier's policies (one direction) in order; a new
   group starts whenever the policy's selector differs from the selector of the group being filled.  The input
   pairs each policy with (an interned id of) its selector; groups are maximal runs of equal selectors. *)
Fixpoint group_runs {A : Type} (l : list (N * A)) : list (N * list A) :=
  match l with
  | [] => []
  | (s, x) :: rest =>
      match group_runs rest with
      | (s', g) :: gs => if N.eqb s s' then (s, x :: g) :: gs else (s, [x]) :: (s', g) :: gs
      | [] => [(s, [x])]
      end
  end.
Definition group_policies {A : Type} (l : list (N * A)) : list (list A) := map snd (group_runs l).

(* ------------------------------------------------------------------ the endpoint chain *)
Definition deny (c : cfg) : target := deny_target c.                        (* IptablesFilterDenyAction *)
Definition allow_target (ec : ecfg) : target := match ec_allow ec with AllowAccept => AAccept | AllowReturn => AReturn end.
Definition is_untracked (ec : ecfg) : bool := match ec_type ec with TUntracked => true | _ => false end.
Definition is_normal (ec : ecfg) : bool := match ec_type ec with TNormal => true | _ => false end.
Definition is_forward (ec : ecfg) : bool := match ec_type ec with TForward => true | _ => false end.

Definition ct_rel_est : pmatch := MCtState false [CtRelated; CtEstablished].

Definition conntrack_rules (ec : ecfg) (c : cfg) : list irule :=
  if is_untracked ec then [] else
  (match ec_allow ec with AllowAccept => [] | AllowReturn => [mk [ct_rel_est] (ASetMark (c_accept c))] end)
  ++ [mk [ct_rel_est] (allow_target ec)]
  ++ (if ec_ct_invalid ec then [mk [MCtState false [CtInvalid]] (deny c)] else []).

(* QoS controls (chainTypeNormal, qosControls != nil).  iptables: clear scratch0; mark packets within the rate;
   DROP unmarked ones; clear scratch0.  nftables: one rule dropping packets over the rate.  Always DROP (r.Drop()),
   never the configured deny action. *)
Definition O_WITHIN_RATE : N := 0.   Definition O_OVER_RATE : N := 1.
Definition O_TCP_SYN : N := 2.       Definition O_CONN_OVER : N := 3.
Definition qos_rate_rules (ec : ecfg) (c : cfg) : list irule :=
  if is_normal ec && ec_qos_rate ec then
    match c_flavor c with
    | Nft => [mk [MOther O_OVER_RATE] ADrop]
    | Iptables => [mk [] (AClearMark (c_scratch0 c));
                   mk [MOther O_WITHIN_RATE] (ASetMark (c_scratch0 c));
                   mk [MMark true (c_scratch0 c) (c_scratch0 c)] ADrop;
                   mk [] (AClearMark (c_scratch0 c))]
    end
  else [].
(* connection limit: REJECT with tcp-reset; iptables restricts the rule to TCP SYN packets *)
Definition qos_conn_rules (ec : ecfg) (c : cfg) : list irule :=
  if is_normal ec && ec_qos_conn ec then
    match c_flavor c with
    | Nft => [mk [MOther O_CONN_OVER] AReject]
    | Iptables => [mk [MProto false 6; MOther O_TCP_SYN; MOther O_CONN_OVER] AReject]
    end
  else [].

Definition accept_set (c : cfg) : pmatch := MMark false (c_accept c) (c_accept c).   (* MarkSingleBitSet(MarkAccept) *)
Definition pass_clear (c : cfg) : pmatch := MMark false 0 (c_pass c).                (* MarkClear(MarkPass) *)

(* rules after a jump to a policy / group chain *)
Definition ret_rules (ec : ecfg) (c : cfg) : list irule :=
  (if is_untracked ec then [mk [accept_set c] ANoTrack] else []) ++ [mk [accept_set c] AReturn].

Definition group_targets (g : mgroup) : list string :=
  if should_inline g then map mp_name (nonstaged (g_pols g)) else [g_name g].

Definition group_jumps (ec : ecfg) (c : cfg) (g : mgroup) : list irule :=
  flat_map (fun t => mk [pass_clear c] (AJump t) :: (if has_nonstaged g then ret_rules ec c else []))
           (group_targets g).

Definition is_default_pass (d : tier_default) : bool := match d with DefaultPass => true | DefaultDeny => false end.

Definition end_of_tier (ec : ecfg) (c : cfg) (t : mtier) : list irule :=
  if is_normal ec || is_forward ec then
    if existsb has_nonstaged (mt_groups t) && negb (is_default_pass (mt_default t))
    then (if c_flowlogs c then [mk [pass_clear c] ANflog] else []) ++ [mk [pass_clear c] (deny c)]
    else (if c_flowlogs c then [mk [pass_clear c] ANflog] else [])
  else [].

Definition tier_rules (ec : ecfg) (c : cfg) (t : mtier) : list irule :=
  match mt_groups t with
  | [] => []
  | gs => mk [] (AClearMark (c_pass c)) :: flat_map (group_jumps ec c) gs ++ end_of_tier ec c t
  end.

Definition profile_jumps (c : cfg) (profiles : list mprofile) : list irule :=
  flat_map (fun pf => [mk [] (AJump (pf_name pf)); mk [accept_set c] AReturn]) profiles.

Definition encap_rules (ec : ecfg) (c : cfg) : list irule :=
  (match ec_block_vxlan ec with
   | Some port => [mk [MProto false 17; MDstPorts false [(port, port)]] (deny c)]
   | None => [] end)
  ++ (if ec_block_ipip ec then [mk [MProto false 4] (deny c)] else []).

(* everything behind the QoS packet-rate rules *)
Definition endpoint_tail (ec : ecfg) (c : cfg) (tiers : list mtier) (profiles : list mprofile) : list irule :=
  conntrack_rules ec c
  ++ qos_conn_rules ec c
  ++ (match ec_failsafe ec with Some f => [mk [] (AJump f)] | None => [] end)
  ++ [mk [] (AClearMark (N.lor (c_accept c) (c_pass c)))]
  ++ encap_rules ec c
  ++ flat_map (tier_rules ec c) tiers
  ++ (if is_nil tiers && is_forward ec then [mk [] (ASetMark (c_accept c)); mk [] AReturn] else [])
  ++ (if is_normal ec
      then profile_jumps c profiles ++ (if c_flowlogs c then [mk [] ANflog] else []) ++ [mk [] (deny c)]
      else []).

Definition endpoint_rules (ec : ecfg) (c : cfg) (tiers : list mtier) (profiles : list mprofile) : list irule :=
  if negb (ec_admin_up ec) then [mk [] (deny c)] else
  qos_rate_rules ec c ++ endpoint_tail ec c tiers profiles.

(* ------------------------------------------------------------------ the chain map *)
Definition all_policies (tiers : list mtier) : list mpolicy := flat_map (fun t => flat_map g_pols (mt_groups t)) tiers.
Definition all_groups (tiers : list mtier) : list mgroup := flat_map mt_groups tiers.

Definition policy_chains (c : cfg) (v : ipver) (tiers : list mtier) : chains :=
  map (fun q => (mp_name q, policy_body c v (mp_rules q))) (nonstaged (all_policies tiers)).
Definition group_chains (c : cfg) (tiers : list mtier) : chains :=
  map (fun g => (g_name g, group_body c (g_pols g))) (filter (fun g => negb (should_inline g)) (all_groups tiers)).
Definition profile_chains (fx : bool) (c : cfg) (v : ipver) (profiles : list mprofile) : chains :=
  map (fun pf => (pf_name pf, profile_body fx c v (pf_rules pf))) profiles.

(* endpoint chain first, then what it (transitively) jumps to *)
Definition render_endpoint (ec : ecfg) (c : cfg) (v : ipver) (name : string)
           (tiers : list mtier) (profiles : list mprofile) : chains :=
  (name, endpoint_rules ec c tiers profiles)
  :: policy_chains c v tiers ++ group_chains c tiers ++ profile_chains (ec_profile_fix ec) c v profiles
  ++ (match ec_failsafe ec with Some f => [(f, [])] | None => [] end).   (* failsafe chain: no failsafe ports configured *)
