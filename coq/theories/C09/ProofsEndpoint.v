(* C09 — the endpoint chain: tiers in order, end-of-tier action, profiles, final drop; and what comes before
   policy (admin-down, conntrack, failsafe jump, clearing the verdict bits, encapsulation from workloads). *)
From Coq Require Import List NArith Bool Arith Lia String.
From Verif.Common Require Import Packet PolicyRef Ipt.
From Verif.C08 Require Import Model Spec ProofsMark ProofsExact ProofsFilter Proofs ProofsChain.
From Verif.C09 Require Import Model Spec ProofsMarks ProofsPolicy ProofsGroup.
Import ListNotations.
Open Scope N_scope.

(* ------------------------------------------------------------------ reference-side facts *)
Lemma existsb_has_nonstaged : forall gs, existsb has_nonstaged gs = negb (is_nil (nonstaged (flat_map g_pols gs))).
Proof.
  induction gs as [|g gs IH]; [reflexivity|]. cbn [existsb flat_map]. rewrite nonstaged_app, IH, has_nonstaged_nil.
  destruct (nonstaged (g_pols g)); reflexivity.
Qed.

Lemma tier_verdict_eq : forall s t p,
  tier_verdict s (to_tier t) p =
  if existsb has_nonstaged (mt_groups t)
  then match pv s (flat_map g_pols (mt_groups t)) p with
       | VNoMatch => match mt_default t with DefaultDeny => VDeny | DefaultPass => VPass end
       | x => x
       end
  else VPass.
Proof.
  intros s t p. unfold tier_verdict, to_tier, pv. cbn [t_policies t_default].
  rewrite enforced_map, existsb_has_nonstaged.
  destruct (nonstaged (flat_map g_pols (mt_groups t))); reflexivity.
Qed.

Lemma tier_verdict_unmark : forall s t p p', unmark p' = unmark p -> tier_verdict s t p' = tier_verdict s t p.
Proof. intros s t p p' H. unfold tier_verdict. destruct (enforced (t_policies t)); [reflexivity|]. rewrite (policies_verdict_unmark s _ p p' H). reflexivity. Qed.
Lemma profiles_verdict_unmark : forall s pr p p', unmark p' = unmark p -> profiles_verdict s pr p' = profiles_verdict s pr p.
Proof.
  intros s pr p p' H. induction pr as [|r pr IH]; [reflexivity|]. cbn [profiles_verdict].
  rewrite (policy_verdict_unmark s r p p' H), IH. reflexivity.
Qed.
Lemma endpoint_verdict_unmark : forall s ts pr p p', unmark p' = unmark p -> endpoint_verdict s ts pr p' = endpoint_verdict s ts pr p.
Proof.
  intros s ts pr p p' H. induction ts as [|t ts IH]; cbn [endpoint_verdict].
  - apply profiles_verdict_unmark. exact H.
  - rewrite (tier_verdict_unmark s t p p' H), IH. reflexivity.
Qed.

Lemma tiers_verdict_unmark : forall s ts p p', unmark p' = unmark p -> tiers_verdict s ts p' = tiers_verdict s ts p.
Proof.
  intros s ts p p' H. induction ts as [|t ts IH]; [reflexivity|]. cbn [tiers_verdict].
  rewrite (tier_verdict_unmark s (to_tier t) p p' H), IH. reflexivity.
Qed.

Lemma bytes_eqb_refl : forall l, bytes_eqb l l = true.
Proof. induction l as [|x l IH]; [reflexivity|]. cbn. rewrite N.eqb_refl. exact IH. Qed.
Lemma packet_eqb_unmarked_of_unmark : forall p p', unmark p' = unmark p -> packet_eqb_unmarked p p' = true.
Proof.
  intros p p' H. destruct p as [v1 a1 a2 a3 a4 a5 a6 a7 i1 o1 ct1 m1], p' as [v2 b1 b2 b3 b4 b5 b6 b7 i2 o2 ct2 m2].
  unfold unmark, set_mark in H. cbn in H. inversion H. subst.
  unfold packet_eqb_unmarked. cbn. rewrite !N.eqb_refl, !bytes_eqb_refl.
  destruct v1, ct1; reflexivity.
Qed.
Lemma deny_final_fin : forall c, deny_final c (deny_fin c) = true.
Proof. intros c. unfold deny_final, deny_fin. destruct (c_deny c); reflexivity. Qed.

Lemma leb_leb_eqb : forall a x, N.leb a x && N.leb x a = N.eqb x a.
Proof.
  intros a x. destruct (N.eqb_spec x a) as [->|Hn].
  - rewrite N.leb_refl. reflexivity.
  - destruct (N.leb_spec a x), (N.leb_spec x a); try reflexivity. lia.
Qed.

Section Endpoint.
  Variable c : cfg.
  Variable e : env.
  Variable cs : chains.
  Variable v : ipver.
  Hypothesis Hmarks : marks_ok c = true.
  Let F := marks_facts c Hmarks.
  Variable ec : ecfg.

  Notation wfp := (wfp v).

  (* final outcome of the endpoint chain, by reference verdict *)
  Definition final_result (vd : verdict) (p : packet) (res : result) : Prop :=
    match vd with
    | VAllow => exists p', res = RReturn p' /\ unmark p' = unmark p /\ mark_has (pk_mark p') (c_accept c) = true
    | VDeny => exists p', res = RDone (deny_fin c) p' /\ unmark p' = unmark p
    | _ => False
    end.

  (* outcome of one tier / of the tiers so far: decided, or continue with `k` in a state with accept clear *)
  Definition cont_result (vd : verdict) (p : packet) (res : result) (k : packet -> result) : Prop :=
    match vd with
    | VAllow => exists p', res = RReturn p' /\ unmark p' = unmark p /\ st c true false (pk_mark p')
    | VDeny => exists p', res = RDone (deny_fin c) p' /\ unmark p' = unmark p
    | VPass | VNoMatch => exists p' ps', res = k p' /\ unmark p' = unmark p /\ st c false ps' (pk_mark p')
    end.

  (* ---------------------------------------------------------------- one tier *)
  Hypothesis Hnf : is_normal ec || is_forward ec = true.

  Lemma end_of_tier_passed : forall call t rs p, st c false true (pk_mark p) ->
    go cs e call (end_of_tier ec c t ++ rs) p = go cs e call rs p.
  Proof.
    intros call t rs p Hst. unfold end_of_tier. rewrite Hnf.
    assert (M : matches e p [pass_clear c] = false) by apply (m_pass_clear c F e p false true Hst).
    destruct (existsb has_nonstaged (mt_groups t) && negb (is_default_pass (mt_default t))); destruct (c_flowlogs c);
      cbn [app]; repeat (rewrite go_skip by exact M); reflexivity.
  Qed.

  Lemma end_of_tier_undecided : forall call t rs p, st c false false (pk_mark p) ->
    go cs e call (end_of_tier ec c t ++ rs) p =
    if existsb has_nonstaged (mt_groups t) && negb (is_default_pass (mt_default t))
    then RDone (deny_fin c) p else go cs e call rs p.
  Proof.
    intros call t rs p Hst. unfold end_of_tier. rewrite Hnf.
    assert (M : matches e p [pass_clear c] = true) by apply (m_pass_clear c F e p false false Hst).
    destruct (existsb has_nonstaged (mt_groups t) && negb (is_default_pass (mt_default t))); destruct (c_flowlogs c);
      cbn [app]; rewrite ?go_noop by reflexivity; try reflexivity; apply go_deny; exact M.
  Qed.

  Lemma tier_run : forall f t rs p ps,
    groups_in_cs c e cs v (mt_groups t) -> wfp p -> st c false ps (pk_mark p) ->
    cont_result (tier_verdict (e_sets e) (to_tier t) p) p
      (go cs e (run (S (S f)) cs e) (tier_rules ec c t ++ rs) p) (go cs e (run (S (S f)) cs e) rs).
  Proof.
    intros f t rs p ps Hin Hw Hst. rewrite tier_verdict_eq. unfold tier_rules.
    destruct (mt_groups t) as [|g gs] eqn:Eg.
    - cbn. exists p, ps. auto.
    - rewrite <- Eg in *. cbn [app]. unfold AClearMark, ASetMaskedMark.
      rewrite go_mark by reflexivity.
      set (p1 := set_mark p (apply_mark (lnot32 (c_pass c)) 0 (pk_mark p))).
      assert (U1 : unmark p1 = unmark p) by reflexivity.
      assert (S1 : st c false false (pk_mark p1)) by (apply (st_clear_pass c F _ _ _ Hst)).
      assert (W1 : wfp p1) by (eapply wfp_unmark; eassumption).
      rewrite tier_jumps_units, <- app_assoc.
      pose proof (units_run c e cs v Hmarks ec (S (S f)) (flat_map (group_units) (mt_groups t))
                    (end_of_tier ec c t ++ rs) p1 (groups_units_ok c e cs v Hmarks f _ Hin) W1 S1) as X.
      rewrite pv_units, (pv_unmark _ _ _ _ U1) in X.
      destruct (existsb has_nonstaged (mt_groups t)) eqn:En.
      + destruct (pv (e_sets e) (flat_map g_pols (mt_groups t)) p); cbn [seq_result cont_result] in *.
        * destruct X as (q & X1 & X2 & X3). exists q. split; [assumption|split; [congruence|assumption]].
        * destruct X as (q & X1 & X2). exists q. split; [assumption|congruence].
        * destruct X as (q & X1 & X2 & X3). exists q, true. split; [|split; [congruence|assumption]].
          rewrite X1. apply end_of_tier_passed. exact X3.
        * destruct X as (q & X1 & X2 & X3). rewrite X1, (end_of_tier_undecided _ _ _ _ X3), En. cbn [andb].
          destruct (mt_default t); cbn [is_default_pass negb cont_result].
          -- exists q. split; [reflexivity|congruence].
          -- exists q, false. split; [reflexivity|split; [congruence|assumption]].
      + assert (Ev : pv (e_sets e) (flat_map g_pols (mt_groups t)) p = VNoMatch).
        { rewrite existsb_has_nonstaged in En. unfold pv. destruct (nonstaged (flat_map g_pols (mt_groups t))); [reflexivity|discriminate]. }
        rewrite Ev in X. cbn [seq_result cont_result] in *.
        destruct X as (q & X1 & X2 & X3). exists q, false. split; [|split; [congruence|assumption]].
        rewrite X1, (end_of_tier_undecided _ _ _ _ X3), En. reflexivity.
  Qed.

  (* ---------------------------------------------------------------- all tiers, then a continuation *)
  Definition tiers_in_cs (tiers : list mtier) : Prop := forall t, In t tiers -> groups_in_cs c e cs v (mt_groups t).

  Lemma tiers_run : forall f tiers profs rs p ps,
    tiers_in_cs tiers -> wfp p -> st c false ps (pk_mark p) ->
    (forall p' ps', wfp p' -> st c false ps' (pk_mark p') ->
        final_result (profiles_verdict (e_sets e) profs p') p' (go cs e (run (S (S f)) cs e) rs p')) ->
    final_result (endpoint_verdict (e_sets e) (map to_tier tiers) profs p) p
      (go cs e (run (S (S f)) cs e) (flat_map (tier_rules ec c) tiers ++ rs) p).
  Proof.
    intros f tiers profs rs. induction tiers as [|t ts IH]; intros p ps Hin Hw Hst K.
    - cbn [flat_map map endpoint_verdict app]. eapply K; eassumption.
    - cbn [flat_map map endpoint_verdict]. rewrite <- app_assoc.
      pose proof (tier_run f t (flat_map (tier_rules ec c) ts ++ rs) p ps (Hin t (or_introl eq_refl)) Hw Hst) as X.
      assert (Hin' : tiers_in_cs ts) by (intros t' Ht'; apply Hin; right; exact Ht').
      assert (C : forall q ps', go cs e (run (S (S f)) cs e) (tier_rules ec c t ++ flat_map (tier_rules ec c) ts ++ rs) p
                                = go cs e (run (S (S f)) cs e) (flat_map (tier_rules ec c) ts ++ rs) q ->
                      unmark q = unmark p -> st c false ps' (pk_mark q) ->
                      final_result (endpoint_verdict (e_sets e) (map to_tier ts) profs p) p
                        (go cs e (run (S (S f)) cs e) (tier_rules ec c t ++ flat_map (tier_rules ec c) ts ++ rs) p)).
      { intros q ps' E U S'. rewrite E.
        pose proof (IH q ps' Hin' (wfp_unmark v _ _ U Hw) S' K) as Y.
        rewrite (endpoint_verdict_unmark _ _ _ _ _ U) in Y.
        destruct (endpoint_verdict (e_sets e) (map to_tier ts) profs p); cbn [final_result] in *; try contradiction.
        - destruct Y as (r & Y1 & Y2 & Y3). exists r. split; [assumption|split; [congruence|assumption]].
        - destruct Y as (r & Y1 & Y2). exists r. split; [assumption|congruence]. }
      destruct (tier_verdict (e_sets e) (to_tier t) p); cbn [cont_result final_result] in *.
      + destruct X as (q & X1 & X2 & X3). exists q. split; [assumption|split; [assumption|]]. eapply st_mark_has; eassumption.
      + exact X.
      + destruct X as (q & ps' & X1 & X2 & X3). eapply C; eassumption.
      + destruct X as (q & ps' & X1 & X2 & X3). eapply C; eassumption.
  Qed.

  (* the tiers alone, with any continuation (forward chains) *)
  Lemma tiers_run_gen : forall f tiers rs p ps,
    tiers_in_cs tiers -> wfp p -> st c false ps (pk_mark p) ->
    cont_result (tiers_verdict (e_sets e) tiers p) p
      (go cs e (run (S (S f)) cs e) (flat_map (tier_rules ec c) tiers ++ rs) p) (go cs e (run (S (S f)) cs e) rs).
  Proof.
    intros f tiers rs. induction tiers as [|t ts IH]; intros p ps Hin Hw Hst.
    - cbn. exists p, ps. auto.
    - cbn [flat_map tiers_verdict]. rewrite <- app_assoc.
      pose proof (tier_run f t (flat_map (tier_rules ec c) ts ++ rs) p ps (Hin t (or_introl eq_refl)) Hw Hst) as X.
      assert (Hin' : tiers_in_cs ts) by (intros t' Ht'; apply Hin; right; exact Ht').
      assert (C : forall q ps', go cs e (run (S (S f)) cs e) (tier_rules ec c t ++ flat_map (tier_rules ec c) ts ++ rs) p
                                = go cs e (run (S (S f)) cs e) (flat_map (tier_rules ec c) ts ++ rs) q ->
                      unmark q = unmark p -> st c false ps' (pk_mark q) ->
                      cont_result (tiers_verdict (e_sets e) ts p) p
                        (go cs e (run (S (S f)) cs e) (tier_rules ec c t ++ flat_map (tier_rules ec c) ts ++ rs) p)
                        (go cs e (run (S (S f)) cs e) rs)).
      { intros q ps' E U S'. rewrite E.
        pose proof (IH q ps' Hin' (wfp_unmark v _ _ U Hw) S') as Y.
        rewrite (tiers_verdict_unmark _ _ _ _ U) in Y.
        destruct (tiers_verdict (e_sets e) ts p); cbn [cont_result] in *.
        - destruct Y as (r & Y1 & Y2 & Y3). exists r. split; [assumption|split; [congruence|assumption]].
        - destruct Y as (r & Y1 & Y2). exists r. split; [assumption|congruence].
        - destruct Y as (r & ps2 & Y1 & Y2 & Y3). exists r, ps2. split; [assumption|split; [congruence|assumption]].
        - destruct Y as (r & ps2 & Y1 & Y2 & Y3). exists r, ps2. split; [assumption|split; [congruence|assumption]]. }
      destruct (tier_verdict (e_sets e) (to_tier t) p); cbn [cont_result] in X.
      + exact X.
      + exact X.
      + destruct X as (q & ps' & X1 & X2 & X3). eapply C; eassumption.
      + destruct X as (q & ps' & X1 & X2 & X3). eapply C; eassumption.
  Qed.

  (* ---------------------------------------------------------------- profiles and the final drop *)
  Definition profiles_in_cs (profiles : list mprofile) : Prop :=
    forall pf, In pf profiles ->
      lookup cs (pf_name pf) = Some (profile_body (ec_profile_fix ec) c v (pf_rules pf))
      /\ (forall r, In r (pf_rules pf) -> rule_ok c e r)
      /\ (ec_profile_fix ec = true \/ pass_free (pf_rules pf) = true).

  Definition final_rules : list irule := (if c_flowlogs c then [mk [] ANflog] else []) ++ [mk [] (deny c)].

  Lemma final_rules_run : forall call p, go cs e call final_rules p = RDone (deny_fin c) p.
  Proof.
    intros call p. unfold final_rules. destruct (c_flowlogs c); cbn [app].
    - rewrite go_noop by reflexivity. apply go_deny. reflexivity.
    - apply go_deny. reflexivity.
  Qed.

  (* a profile chain, entered with the accept mark clear and the pass mark in either state *)
  Lemma profile_chain_exact : forall f rules p ps,
    (forall r, In r rules -> rule_ok c e r) -> wfp p -> st c false ps (pk_mark p) ->
    (ec_profile_fix ec = true \/ pass_free rules = true) ->
    exists ps', body_result c (policy_verdict (e_sets e) rules p) p ps'
                  (run (S f) cs e (profile_body (ec_profile_fix ec) c v rules) p).
  Proof.
    intros f rules p ps Hok [Hw Hv] Hst Hfix. unfold profile_body.
    destruct (ec_profile_fix ec && has_pass_rule rules) eqn:Eb; cbn [app].
    - (* the chain starts by clearing the pass mark *)
      cbn [run]. unfold AClearMark, ASetMaskedMark. rewrite go_mark by reflexivity.
      set (p1 := set_mark p (apply_mark (lnot32 (c_pass c)) 0 (pk_mark p))).
      assert (U1 : unmark p1 = unmark p) by reflexivity.
      assert (S1 : st c false false (pk_mark p1)) by (apply (st_clear_pass c F _ _ _ Hst)).
      pose proof (policy_chain_exact c e Hmarks f cs rules p1 false Hok (wf_packet_unmark _ _ U1 Hw) S1
                    (fun H => False_ind _ (Bool.diff_false_true H))) as X.
      change (pk_ver p1) with (pk_ver p) in X. rewrite Hv in X. cbn [run] in X.
      rewrite (policy_verdict_unmark _ _ _ _ U1) in X. exists false.
      destruct (policy_verdict (e_sets e) rules p); cbn [body_result] in *.
      + destruct X as (q & X1 & X2 & X3). exists q. split; [assumption|split; [congruence|assumption]].
      + destruct X as (q & X1 & X2). exists q. split; [assumption|congruence].
      + destruct X as (q & X1 & X2 & X3). exists q. split; [assumption|split; [congruence|assumption]].
      + destruct X as (q & X1 & X2 & X3). exists q. split; [assumption|split; [congruence|assumption]].
    - assert (Hpf : pass_free rules = true).
      { destruct Hfix as [Hf|Hp]; [|exact Hp]. rewrite Hf in Eb. cbn [andb] in Eb. rewrite pass_free_has_pass, Eb. reflexivity. }
      exists ps. pose proof (policy_chain_exact c e Hmarks f cs rules p ps Hok Hw Hst (fun _ => Hpf)) as X.
      rewrite Hv in X. exact X.
  Qed.

  Lemma profiles_run : forall f profiles p ps,
    profiles_in_cs profiles -> wfp p -> st c false ps (pk_mark p) ->
    final_result (profiles_verdict (e_sets e) (map pf_rules profiles) p) p
      (go cs e (run (S (S f)) cs e) (profile_jumps c profiles ++ final_rules) p).
  Proof.
    intros f profiles. induction profiles as [|pf rest IH]; intros p ps Hin Hw Hst.
    - cbn [profile_jumps flat_map app map profiles_verdict final_result]. exists p. split; [apply final_rules_run|reflexivity].
    - unfold profile_jumps. cbn [flat_map map profiles_verdict]. fold (profile_jumps c rest). cbn [app].
      destruct (Hin pf (or_introl eq_refl)) as (L & Hok & Hpf).
      rewrite (go_jump e cs _ _ _ _ _ _ (matches_nil e p) L).
      destruct (profile_chain_exact (S f) (pf_rules pf) p ps Hok Hw Hst Hpf) as (ps1 & X).
      assert (Hin' : profiles_in_cs rest) by (intros pf' H'; apply Hin; right; exact H').
      set (body := profile_body (ec_profile_fix ec) c v (pf_rules pf)) in *.
      (* continuing with the next profile: accept clear, pass in either state *)
      assert (Cont : forall q ps2, collapse (run (S (S f)) cs e body p) = RFall q -> unmark q = unmark p -> st c false ps2 (pk_mark q) ->
                final_result (profiles_verdict (e_sets e) (map pf_rules rest) p) p
                  match run (S (S f)) cs e body p with
                  | RFall p' | RReturn p' => go cs e (run (S (S f)) cs e) (mk [accept_set c] AReturn :: profile_jumps c rest ++ final_rules) p'
                  | o => o end).
      { intros q ps2 X1 X2 X3.
        assert (E : go cs e (run (S (S f)) cs e) (mk [accept_set c] AReturn :: profile_jumps c rest ++ final_rules) q
                    = go cs e (run (S (S f)) cs e) (profile_jumps c rest ++ final_rules) q).
        { apply go_skip. apply (m_accept_set c F e q false ps2 X3). }
        pose proof (IH q ps2 Hin' (wfp_unmark v _ _ X2 Hw) X3) as Y.
        rewrite (profiles_verdict_unmark _ _ _ _ X2) in Y.
        assert (G : go cs e (run (S (S f)) cs e) (profile_jumps c rest ++ final_rules) q =
                    match run (S (S f)) cs e body p with
                    | RFall p' | RReturn p' => go cs e (run (S (S f)) cs e) (mk [accept_set c] AReturn :: profile_jumps c rest ++ final_rules) p'
                    | o => o end).
        { destruct (run (S (S f)) cs e body p); cbn in X1; try discriminate; inversion X1; subst; symmetry; exact E. }
        rewrite <- G.
        destruct (profiles_verdict (e_sets e) (map pf_rules rest) p); cbn [final_result] in *; try contradiction.
        * destruct Y as (r & Y1 & Y2 & Y3). exists r. split; [assumption|split; [congruence|assumption]].
        * destruct Y as (r & Y1 & Y2). exists r. split; [assumption|congruence]. }
      destruct (policy_verdict (e_sets e) (pf_rules pf) p); cbn [body_result final_result] in *.
      + destruct X as (q & X1 & X2 & X3). exists q.
        assert (E : go cs e (run (S (S f)) cs e) (mk [accept_set c] AReturn :: profile_jumps c rest ++ final_rules) q = RReturn q).
        { apply go_return. apply (m_accept_set c F e q true ps1 X3). }
        split; [|split; [assumption|eapply st_mark_has; eassumption]].
        destruct (run (S (S f)) cs e body p); cbn in X1; try discriminate; inversion X1; subst; exact E.
      + destruct X as (q & X1 & X2). exists q. rewrite X1. split; [reflexivity|assumption].
      + destruct X as (q & X1 & X2 & X3). eapply Cont; eassumption.
      + destruct X as (q & X1 & X2 & X3). eapply Cont; eassumption.
  Qed.

  (* ---------------------------------------------------------------- before policy *)
  Lemma m_ct : forall p l, matches e p [MCtState false l] = ct_in p l.
  Proof. intros. cbn [matches forallb match_one]. rewrite xorb_false_l, andb_true_r. reflexivity. Qed.

  Lemma conntrack_run : forall call rs p, is_untracked ec = false ->
    go cs e call (conntrack_rules ec c ++ rs) p =
    if ct_in p [CtRelated; CtEstablished]
    then match ec_allow ec with
         | AllowAccept => RDone FAccept p
         | AllowReturn => RReturn (set_mark p (apply_mark (lnot32 (c_accept c)) (c_accept c) (pk_mark p)))
         end
    else if ec_ct_invalid ec && ct_in p [CtInvalid] then RDone (deny_fin c) p else go cs e call rs p.
  Proof.
    intros call rs p Hu. unfold conntrack_rules. rewrite Hu. unfold ct_rel_est, allow_target.
    destruct (ct_in p [CtRelated; CtEstablished]) eqn:E1.
    - destruct (ec_allow ec); cbn [app].
      + cbn [go ir_match ir_action mk]. rewrite m_ct, E1. reflexivity.
      + unfold ASetMark, ASetMaskedMark. rewrite go_mark by (rewrite m_ct; exact E1).
        apply go_return. rewrite m_ct. exact E1.
    - assert (S1 : forall a rs', go cs e call (mk [MCtState false [CtRelated; CtEstablished]] a :: rs') p = go cs e call rs' p).
      { intros. apply go_skip. cbn [ir_match mk]. rewrite m_ct. exact E1. }
      destruct (ec_allow ec); cbn [app]; rewrite !S1; destruct (ec_ct_invalid ec); cbn [app andb]; try reflexivity.
      all: destruct (ct_in p [CtInvalid]) eqn:E2;
        [apply go_deny; rewrite m_ct; exact E2|apply go_skip; cbn [ir_match mk]; rewrite m_ct; exact E2].
  Qed.

  Lemma encap_run : forall call rs p,
    go cs e call (encap_rules ec c ++ rs) p = if encap_blocked ec p then RDone (deny_fin c) p else go cs e call rs p.
  Proof.
    intros call rs p. unfold encap_rules, encap_blocked.
    assert (M4 : matches e p [MProto false 4] = N.eqb (pk_proto p) 4).
    { cbn [matches forallb match_one]. rewrite xorb_false_l, andb_true_r. reflexivity. }
    assert (T : forall rs', go cs e call ((if ec_block_ipip ec then [mk [MProto false 4] (deny c)] else []) ++ rs') p
                = if ec_block_ipip ec && N.eqb (pk_proto p) 4 then RDone (deny_fin c) p else go cs e call rs' p).
    { intro rs'. destruct (ec_block_ipip ec); [|reflexivity]. cbn [app andb].
      destruct (N.eqb (pk_proto p) 4) eqn:E4; [apply go_deny; exact M4|apply go_skip; exact M4]. }
    destruct (ec_block_vxlan ec) as [port|]; cbn [app orb]; [|apply T].
    assert (Mv : matches e p [MProto false 17; MDstPorts false [(port, port)]] = N.eqb (pk_proto p) 17 && N.eqb (pk_dport p) port).
    { cbn [matches forallb match_one in_ranges existsb in_range fst snd].
      rewrite !xorb_false_l, andb_true_r, orb_false_r. unfold in_range. cbn [fst snd]. rewrite leb_leb_eqb. reflexivity. }
    destruct (N.eqb (pk_proto p) 17 && N.eqb (pk_dport p) port) eqn:Ev; cbn [orb].
    - apply go_deny. exact Mv.
    - rewrite go_skip by exact Mv. apply T.
  Qed.

  (* ---------------------------------------------------------------- the whole chain *)
  Definition failsafe_ok (fuel : nat) : Prop :=
    match ec_failsafe ec with
    | None => True
    | Some fs => exists body, lookup cs fs = Some body
                 /\ forall q, run fuel cs e body q = RFall q \/ run fuel cs e body q = RReturn q
    end.

  Lemma m_other : forall p k, matches e p [MOther k] = e_other e k p.
  Proof. intros. cbn [matches forallb match_one]. apply andb_true_r. Qed.

  Lemma qos_conn_run : forall call rs p,
    go cs e call (qos_conn_rules ec c ++ rs) p =
    if is_normal ec && ec_qos_conn ec && over_conn c e p then RDone FReject p else go cs e call rs p.
  Proof.
    intros call rs p. unfold qos_conn_rules, over_conn.
    destruct (is_normal ec && ec_qos_conn ec); [|reflexivity]. cbn [andb].
    destruct (c_flavor c); cbn [app go ir_match ir_action mk].
    - cbn [matches forallb match_one]. rewrite xorb_false_l, andb_true_r.
      destruct (N.eqb (pk_proto p) 6 && e_other e O_TCP_SYN p && e_other e O_CONN_OVER p) eqn:E.
      + rewrite <- andb_assoc in E. rewrite E. reflexivity.
      + rewrite <- andb_assoc in E. rewrite E. reflexivity.
    - rewrite m_other. destruct (e_other e O_CONN_OVER p); reflexivity.
  Qed.

  Lemma failsafe_run : forall f rs p, failsafe_ok (S (S f)) ->
    go cs e (run (S (S f)) cs e) ((match ec_failsafe ec with Some fs => [mk [] (AJump fs)] | None => [] end) ++ rs) p
    = go cs e (run (S (S f)) cs e) rs p.
  Proof.
    intros f rs p Hfs. unfold failsafe_ok in Hfs. destruct (ec_failsafe ec) as [fs|]; [|reflexivity].
    destruct Hfs as (body & L & Hb). cbn [app]. rewrite (go_jump e cs _ _ _ _ _ _ (matches_nil e p) L).
    destruct (Hb p) as [E|E]; rewrite E; reflexivity.
  Qed.

  Theorem endpoint_tail_exact : forall f tiers profiles p,
    ec_type ec = TNormal ->
    tiers_in_cs tiers -> profiles_in_cs profiles -> failsafe_ok (S (S f)) ->
    wfp p -> entry_mark_ok c p = true ->
    ok_result ec c (expected_tail ec c e tiers profiles p) p
      (go cs e (run (S (S f)) cs e) (endpoint_tail ec c tiers profiles) p) = true.
  Proof.
    intros f tiers profiles p Ht Hti Hpi Hfs Hw Hd.
    assert (Hu : is_untracked ec = false) by (unfold is_untracked; rewrite Ht; reflexivity).
    assert (Hn : is_normal ec = true) by (unfold is_normal; rewrite Ht; reflexivity).
    assert (Hfw : is_forward ec = false) by (unfold is_forward; rewrite Ht; reflexivity).
    unfold endpoint_tail, expected_tail, expected_verdict. rewrite Ht, Hu. cbn [negb andb].
    rewrite conntrack_run by exact Hu.
    destruct (ct_in p [CtRelated; CtEstablished]).
    { destruct (ec_allow ec) eqn:Ea; cbn [ok_result]; rewrite Ea.
      - apply packet_eqb_unmarked_of_unmark. reflexivity.
      - cbn [pk_mark set_mark]. rewrite (set_accept_has c F). cbn [andb]. apply packet_eqb_unmarked_of_unmark. reflexivity. }
    destruct (ec_ct_invalid ec && ct_in p [CtInvalid]).
    { cbn [ok_result]. rewrite deny_final_fin, packet_eqb_unmarked_of_unmark; reflexivity. }
    rewrite qos_conn_run.
    destruct (is_normal ec && ec_qos_conn ec && over_conn c e p).
    { cbn [ok_result]. apply packet_eqb_unmarked_of_unmark. reflexivity. }
    rewrite (failsafe_run f _ p Hfs).
    rewrite Hn, Hfw, andb_false_r. cbn [app]. fold final_rules.
    unfold AClearMark, ASetMaskedMark. rewrite go_mark by reflexivity.
    set (p1 := set_mark p (apply_mark (lnot32 (N.lor (c_accept c) (c_pass c))) 0 (pk_mark p))).
    assert (U1 : unmark p1 = unmark p) by reflexivity.
    assert (S1 : st c false false (pk_mark p1)).
    { apply (st_clear_both c F). unfold entry_mark_ok, mark_clear in Hd. apply N.eqb_eq in Hd. exact Hd. }
    assert (W1 : wfp p1) by (eapply wfp_unmark; eassumption).
    rewrite encap_run. change (encap_blocked ec p1) with (encap_blocked ec p).
    destruct (encap_blocked ec p).
    { cbn [ok_result]. rewrite deny_final_fin, packet_eqb_unmarked_of_unmark; reflexivity. }
    pose proof (tiers_run f tiers (map pf_rules profiles) (profile_jumps c profiles ++ final_rules) p1 false Hti W1 S1
                  (fun p' ps' Hw' Hs' => profiles_run f profiles p' ps' Hpi Hw' Hs')) as X.
    unfold ref_verdict. rewrite (endpoint_verdict_unmark _ _ _ _ _ U1) in X.
    destruct (endpoint_verdict (e_sets e) (map to_tier tiers) (map pf_rules profiles) p); cbn [final_result] in X; try contradiction.
    - destruct X as (q & X1 & X2 & X3). rewrite X1. cbn [ok_result]. rewrite X3. cbn [andb].
      apply packet_eqb_unmarked_of_unmark. congruence.
    - destruct X as (q & X1 & X2). rewrite X1. cbn [ok_result]. rewrite deny_final_fin. cbn [andb].
      apply packet_eqb_unmarked_of_unmark. congruence.
  Qed.
  (* the forward chain of a host endpoint: no profiles; allowed outright when no tier applies *)
  Theorem forward_tail_exact : forall f tiers profiles p,
    ec_type ec = TForward ->
    tiers_in_cs tiers -> failsafe_ok (S (S f)) ->
    wfp p -> entry_mark_ok c p = true ->
    ok_result ec c (expected_tail ec c e tiers profiles p) p
      (go cs e (run (S (S f)) cs e) (endpoint_tail ec c tiers profiles) p) = true.
  Proof.
    intros f tiers profiles p Ht Hti Hfs Hw Hd.
    assert (Hu : is_untracked ec = false) by (unfold is_untracked; rewrite Ht; reflexivity).
    assert (Hn : is_normal ec = false) by (unfold is_normal; rewrite Ht; reflexivity).
    assert (Hfw : is_forward ec = true) by (unfold is_forward; rewrite Ht; reflexivity).
    unfold endpoint_tail, expected_tail, expected_verdict. rewrite Ht, Hu. cbn [negb andb].
    rewrite conntrack_run by exact Hu.
    destruct (ct_in p [CtRelated; CtEstablished]).
    { destruct (ec_allow ec) eqn:Ea; cbn [ok_result]; rewrite Ea.
      - apply packet_eqb_unmarked_of_unmark. reflexivity.
      - cbn [pk_mark set_mark]. rewrite (set_accept_has c F). cbn [andb]. apply packet_eqb_unmarked_of_unmark. reflexivity. }
    destruct (ec_ct_invalid ec && ct_in p [CtInvalid]).
    { cbn [ok_result]. rewrite deny_final_fin, packet_eqb_unmarked_of_unmark; reflexivity. }
    rewrite qos_conn_run.
    destruct (is_normal ec && ec_qos_conn ec && over_conn c e p).
    { cbn [ok_result]. apply packet_eqb_unmarked_of_unmark. reflexivity. }
    rewrite (failsafe_run f _ p Hfs).
    rewrite Hn, Hfw, andb_true_r. cbn [app].
    unfold AClearMark, ASetMaskedMark. rewrite go_mark by reflexivity.
    set (p1 := set_mark p (apply_mark (lnot32 (N.lor (c_accept c) (c_pass c))) 0 (pk_mark p))).
    assert (U1 : unmark p1 = unmark p) by reflexivity.
    assert (S1 : st c false false (pk_mark p1)).
    { apply (st_clear_both c F). unfold entry_mark_ok, mark_clear in Hd. apply N.eqb_eq in Hd. exact Hd. }
    assert (W1 : wfp p1) by (eapply wfp_unmark; eassumption).
    rewrite encap_run. change (encap_blocked ec p1) with (encap_blocked ec p).
    destruct (encap_blocked ec p).
    { cbn [ok_result]. rewrite deny_final_fin, packet_eqb_unmarked_of_unmark; reflexivity. }
    destruct tiers as [|t ts].
    - cbn [flat_map is_nil app]. unfold ASetMark, ASetMaskedMark. rewrite go_mark by reflexivity.
      rewrite go_return by reflexivity. cbn [ok_result pk_mark set_mark]. rewrite (set_accept_has c F). cbn [andb].
      apply packet_eqb_unmarked_of_unmark. reflexivity.
    - cbn [is_nil]. rewrite app_nil_r.
      pose proof (tiers_run_gen f (t :: ts) [] p1 false Hti W1 S1) as X. rewrite app_nil_r in X.
      rewrite (tiers_verdict_unmark _ _ _ _ U1) in X.
      destruct (tiers_verdict (e_sets e) (t :: ts) p); cbn [cont_result] in X.
      + destruct X as (q & X1 & X2 & X3). rewrite X1. cbn [ok_result]. rewrite (st_mark_has c _ _ X3). cbn [andb].
        apply packet_eqb_unmarked_of_unmark. congruence.
      + destruct X as (q & X1 & X2). rewrite X1. cbn [ok_result]. rewrite deny_final_fin. cbn [andb].
        apply packet_eqb_unmarked_of_unmark. congruence.
      + destruct X as (q & ps' & X1 & X2 & (X3 & _)). rewrite X1. cbn [go ok_result]. unfold mark_clear. rewrite X3. cbn [N.eqb andb].
        apply packet_eqb_unmarked_of_unmark. congruence.
      + destruct X as (q & ps' & X1 & X2 & (X3 & _)). rewrite X1. cbn [go ok_result]. unfold mark_clear. rewrite X3. cbn [N.eqb andb].
        apply packet_eqb_unmarked_of_unmark. congruence.
  Qed.
End Endpoint.
