(* C09 — the QoS packet-rate rules in front of the endpoint chain, and the step from the tail of the chain
   (conntrack, connection limit, failsafe, policy) to the whole chain. *)
From Coq Require Import List NArith Bool Arith Lia String.
From Verif.Common Require Import Packet PolicyRef Ipt.
From Verif.C08 Require Import Model Spec ProofsMark ProofsExact ProofsFilter Proofs ProofsChain.
From Verif.C09 Require Import Model Spec ProofsMarks ProofsPolicy ProofsGroup ProofsEndpoint ProofsRaw.
Import ListNotations.
Open Scope N_scope.

Lemma unmark_more_fields : forall p p', unmark p' = unmark p ->
  pk_ct p' = pk_ct p /\ pk_proto p' = pk_proto p /\ pk_dport p' = pk_dport p.
Proof. intros p p' H. destruct p, p'. unfold unmark, set_mark in H. cbn in H. inversion H. subst. auto. Qed.

Lemma packet_eqb_unmarked_l : forall p p1 q, unmark p1 = unmark p -> packet_eqb_unmarked p1 q = packet_eqb_unmarked p q.
Proof. intros p p1 q H. destruct p, p1. unfold unmark, set_mark in H. cbn in H. inversion H. subst. reflexivity. Qed.

(* the oracle for matches outside the packet does not read the mark *)
Definition other_unmarked (e : env) : Prop := forall k p p', unmark p' = unmark p -> e_other e k p' = e_other e k p.

Section Qos.
  Variable c : cfg.
  Variable e : env.
  Variable cs : chains.
  Variable v : ipver.
  Hypothesis Hmarks : marks_ok c = true.
  Variable ec : ecfg.
  Hypothesis Hoth : other_unmarked e.

  Lemma over_rate_unmark : forall p p', unmark p' = unmark p -> over_rate c e p' = over_rate c e p.
  Proof. intros p p' H. unfold over_rate. rewrite !(Hoth _ _ _ H). reflexivity. Qed.

  Lemma expected_tail_unmark : forall tiers profiles p p', unmark p' = unmark p ->
    expected_tail ec c e tiers profiles p' = expected_tail ec c e tiers profiles p.
  Proof.
    intros tiers profiles p p' H. destruct (unmark_more_fields _ _ H) as (Ect & Epr & Edp).
    unfold expected_tail, ct_in, encap_blocked, over_conn, expected_verdict, ref_verdict.
    rewrite Ect, Epr, Edp, !(Hoth _ _ _ H), (endpoint_verdict_unmark _ _ _ _ _ H), (tiers_verdict_unmark _ _ _ _ H),
      (tiers_verdict_nodefault_unmark _ _ _ _ H). reflexivity.
  Qed.

  Lemma ok_result_unmark_l : forall x p p1 res, unmark p1 = unmark p -> ok_result ec c x p1 res = ok_result ec c x p res.
  Proof.
    intros x p p1 res H. unfold ok_result.
    destruct x, res as [fn q|q|q| |]; try reflexivity; try (destruct fn); rewrite ?(packet_eqb_unmarked_l _ _ _ H); reflexivity.
  Qed.

  (* the packet-rate rules: drop when over the rate, otherwise only the scratch bit they use is touched *)
  Lemma qos_rate_run : forall call rs p, N.land (pk_mark p) (c_drop c) = 0 ->
    exists p1, unmark p1 = unmark p /\ N.land (pk_mark p1) (c_drop c) = 0 /\
      go cs e call (qos_rate_rules ec c ++ rs) p
      = if is_normal ec && ec_qos_rate ec && over_rate c e p then RDone FDrop p1 else go cs e call rs p1.
  Proof.
    intros call rs p Hd. unfold qos_rate_rules, over_rate.
    destruct (is_normal ec && ec_qos_rate ec); [|exists p; auto]. cbn [andb].
    destruct (marks_ok_facts c Hmarks) as (_ & _ & [_ d32] & [s0nz s032] & _ & _ & _ & _ & _ & ds0 & _).
    destruct (c_flavor c); cbn [app].
    - (* iptables: clear scratch0, mark if within rate, drop if unmarked, clear scratch0 *)
      unfold AClearMark, ASetMark, ASetMaskedMark. rewrite go_mark by reflexivity.
      set (p0 := set_mark p (apply_mark (lnot32 (c_scratch0 c)) 0 (pk_mark p))).
      assert (U0 : unmark p0 = unmark p) by reflexivity.
      assert (D0 : N.land (pk_mark p0) (c_drop c) = 0).
      { cbn [p0 pk_mark set_mark]. rewrite masked_set_frame; [exact Hd|apply N.land_0_l|exact ds0|exact d32]. }
      assert (Z0 : N.land (pk_mark p0) (c_scratch0 c) = 0).
      { cbn [p0 pk_mark set_mark]. apply masked_set_reads; [apply N.land_0_l|exact s032]. }
      cbn [go ir_match ir_action mk]. rewrite m_other, (Hoth _ _ _ U0).
      destruct (e_other e O_WITHIN_RATE p); cbn [negb].
      + set (p2 := set_mark p0 (apply_mark (lnot32 (c_scratch0 c)) (c_scratch0 c) (pk_mark p0))).
        assert (M2 : matches e p2 [MMark true (c_scratch0 c) (c_scratch0 c)] = false).
        { cbn [matches forallb match_one]. rewrite andb_true_r. cbn [p2 pk_mark set_mark].
          rewrite masked_set_reads; [rewrite N.eqb_refl; reflexivity|apply N.land_diag|exact s032]. }
        rewrite M2. rewrite (matches_nil e).
        exists (set_mark p2 (apply_mark (lnot32 (c_scratch0 c)) 0 (pk_mark p2))). split; [reflexivity|]. split; [|reflexivity].
        cbn [pk_mark set_mark]. rewrite masked_set_frame; [|apply N.land_0_l|exact ds0|exact d32].
        cbn [p2 pk_mark set_mark]. rewrite masked_set_frame; [exact D0|apply N.land_diag|exact ds0|exact d32].
      + assert (M0 : matches e p0 [MMark true (c_scratch0 c) (c_scratch0 c)] = true).
        { cbn [matches forallb match_one]. rewrite andb_true_r, Z0.
          destruct (N.eqb_spec 0 (c_scratch0 c)) as [E|E]; [exfalso; apply s0nz; symmetry; exact E|reflexivity]. }
        rewrite M0. exists p0. auto.
    - (* nftables: one rule *)
      cbn [go ir_match ir_action mk]. rewrite m_other. exists p. destruct (e_other e O_OVER_RATE p); auto.
  Qed.

  (* from the tail of the chain to the whole chain *)
  Theorem whole_chain_exact : forall f tiers profiles p,
    (forall q, wfp v q -> entry_mark_ok c q = true ->
       ok_result ec c (expected_tail ec c e tiers profiles q) q
         (go cs e (run (S (S f)) cs e) (endpoint_tail ec c tiers profiles) q) = true) ->
    wfp v p -> entry_mark_ok c p = true ->
    ok_result ec c (expected ec c e tiers profiles p) p
      (run (S (S (S f))) cs e (endpoint_rules ec c tiers profiles) p) = true.
  Proof.
    intros f tiers profiles p Htail Hw Hd. unfold endpoint_rules, expected.
    change (run (S (S (S f))) cs e) with (go cs e (run (S (S f)) cs e)).
    destruct (ec_admin_up ec); cbn [negb].
    2:{ rewrite go_deny by reflexivity. cbn [ok_result]. rewrite deny_final_fin, packet_eqb_unmarked_of_unmark; reflexivity. }
    assert (Hd' : N.land (pk_mark p) (c_drop c) = 0).
    { unfold entry_mark_ok, mark_clear in Hd. apply N.eqb_eq in Hd. exact Hd. }
    destruct (qos_rate_run (run (S (S f)) cs e) (endpoint_tail ec c tiers profiles) p Hd') as (p1 & U1 & D1 & E).
    rewrite E. destruct (is_normal ec && ec_qos_rate ec && over_rate c e p).
    - cbn [ok_result]. apply packet_eqb_unmarked_of_unmark. exact U1.
    - rewrite <- (expected_tail_unmark tiers profiles p p1 U1), <- (ok_result_unmark_l _ p p1 _ U1).
      apply Htail; [eapply wfp_unmark; eassumption|].
      unfold entry_mark_ok, mark_clear. rewrite D1. reflexivity.
  Qed.
End Qos.
