(* C09 — what the property says, independent of how chains are rendered.

   "For every endpoint with any combination of tiers, tier default actions, enforced and staged policies (inline or
    grouped) and profiles, and every packet, the rendered endpoint chains reach the reference verdict."

   The reference verdict is Common/PolicyRef.endpoint_verdict on the endpoint's tiers (groups flattened - grouping
   is a rendering device) and profiles.  `expected` adds what the endpoint chain does before policy is consulted
   (admin-down, conntrack state, encapsulation from workloads); `ok_result` judges ONE evaluation result of any
   chain map (the model's or the parsed output of the real renderer). *)
From Coq Require Import List NArith Bool Arith String.
From Verif.Common Require Import Packet PolicyRef Ipt.
From Verif.C08 Require Import Model Spec.
From Verif.C09 Require Import Model.
Import ListNotations.
Open Scope N_scope.

(* ------------------------------------------------------------------ reference view of the endpoint *)
Definition to_policy (q : mpolicy) : policy := {| pol_staged := mp_staged q; pol_rules := mp_rules q |}.
Definition to_tier (t : mtier) : tier :=
  {| t_policies := map to_policy (flat_map g_pols (mt_groups t)); t_default := mt_default t |}.
Definition ref_verdict (s : ipsets) (tiers : list mtier) (profiles : list mprofile) (p : packet) : verdict :=
  endpoint_verdict s (map to_tier tiers) (map pf_rules profiles) p.

(* ------------------------------------------------------------------ what the chain must do *)
Inductive expectation :=
| ExpAllow          (* policy allowed: RETURN to the dispatch chain with the accept mark set *)
| ExpDeny           (* DROP / REJECT *)
| ExpCtAllow        (* established connection: the chain's allow action (ACCEPT, or accept mark + RETURN) *)
| ExpRateDrop       (* QoS: over the packet rate: DROP (always DROP, whatever the deny action) *)
| ExpConnReject     (* QoS: over the connection limit: REJECT *)
| ExpNoVerdict.     (* forward chains only: no tier decided; the chain ends with the accept mark clear and the
                       packet goes on through the rest of the FORWARD path *)

Definition ct_in (p : packet) (l : list ctstate) : bool := existsb (ctstate_eqb (pk_ct p)) l.

Definition encap_blocked (ec : ecfg) (p : packet) : bool :=
  (match ec_block_vxlan ec with Some port => N.eqb (pk_proto p) 17 && N.eqb (pk_dport p) port | None => false end)
  || (ec_block_ipip ec && N.eqb (pk_proto p) 4).

(* the tiers alone (forward chains of host endpoints render no profiles): first tier that allows or denies *)
Fixpoint tiers_verdict (s : ipsets) (tiers : list mtier) (p : packet) : verdict :=
  match tiers with
  | [] => VNoMatch
  | t :: ts => match tier_verdict s (to_tier t) p with
               | VAllow => VAllow | VDeny => VDeny
               | VPass | VNoMatch => tiers_verdict s ts p
               end
  end.

(* raw (untracked) and mangle (pre-DNAT) chains of host endpoints: no end-of-tier default (policy of the filter
   table may still apply), no profiles *)
Definition to_tier_nodefault (t : mtier) : tier :=
  {| t_policies := map to_policy (flat_map g_pols (mt_groups t)); t_default := DefaultPass |}.
Fixpoint tiers_verdict_nodefault (s : ipsets) (tiers : list mtier) (p : packet) : verdict :=
  match tiers with
  | [] => VNoMatch
  | t :: ts => match tier_verdict s (to_tier_nodefault t) p with
               | VAllow => VAllow | VDeny => VDeny
               | VPass | VNoMatch => tiers_verdict_nodefault s ts p
               end
  end.

(* QoS oracles: whether this packet is over the configured packet rate / connection limit is outside the packet;
   it enters through the environment's oracle for MOther matches (iptables asks "within rate", nft "over rate") *)
Definition over_rate (c : cfg) (e : env) (p : packet) : bool :=
  match c_flavor c with Iptables => negb (e_other e O_WITHIN_RATE p) | Nft => e_other e O_OVER_RATE p end.
Definition over_conn (c : cfg) (e : env) (p : packet) : bool :=
  match c_flavor c with
  | Iptables => N.eqb (pk_proto p) 6 && e_other e O_TCP_SYN p && e_other e O_CONN_OVER p
  | Nft => e_other e O_CONN_OVER p
  end.

(* normal (filter-table) endpoint chains, the forward chains of host endpoints, raw and pre-DNAT chains *)
Definition expected_verdict (ec : ecfg) (s : ipsets) (tiers : list mtier) (profiles : list mprofile) (p : packet) : expectation :=
  match ec_type ec with
  | TForward =>
      (* forwarded traffic is allowed when no applyOnForward policy applies; otherwise the tiers decide *)
      if is_nil tiers then ExpAllow
      else match tiers_verdict s tiers p with VAllow => ExpAllow | VDeny => ExpDeny | _ => ExpNoVerdict end
  | TUntracked | TPreDNAT =>
      (* allow: (NOTRACK and) RETURN with the accept mark; deny: drop; nothing decided: on to the filter table *)
      match tiers_verdict_nodefault s tiers p with VAllow => ExpAllow | VDeny => ExpDeny | _ => ExpNoVerdict end
  | TNormal =>
      match ref_verdict s tiers profiles p with
      | VAllow => ExpAllow
      | _ => ExpDeny
      end
  end.

(* in chain order: admin-down; QoS packet rate; then (expected_tail) conntrack; QoS connection limit;
   encapsulation; policy *)
Definition expected_tail (ec : ecfg) (c : cfg) (e : env) (tiers : list mtier) (profiles : list mprofile) (p : packet) : expectation :=
  if negb (is_untracked ec) && ct_in p [CtRelated; CtEstablished] then ExpCtAllow
  else if negb (is_untracked ec) && ec_ct_invalid ec && ct_in p [CtInvalid] then ExpDeny
  else if is_normal ec && ec_qos_conn ec && over_conn c e p then ExpConnReject
  else if encap_blocked ec p then ExpDeny
  else expected_verdict ec (e_sets e) tiers profiles p.
Definition expected (ec : ecfg) (c : cfg) (e : env) (tiers : list mtier) (profiles : list mprofile) (p : packet) : expectation :=
  if negb (ec_admin_up ec) then ExpDeny
  else if is_normal ec && ec_qos_rate ec && over_rate c e p then ExpRateDrop
  else expected_tail ec c e tiers profiles p.

(* everything but the mark is untouched *)
Definition packet_eqb_unmarked (a b : packet) : bool :=
  ipver_eqb (pk_ver a) (pk_ver b) && N.eqb (pk_proto a) (pk_proto b) && N.eqb (pk_src a) (pk_src b)
  && N.eqb (pk_dst a) (pk_dst b) && N.eqb (pk_sport a) (pk_sport b) && N.eqb (pk_dport a) (pk_dport b)
  && N.eqb (pk_icmp_type a) (pk_icmp_type b) && N.eqb (pk_icmp_code a) (pk_icmp_code b)
  && bytes_eqb (pk_in a) (pk_in b) && bytes_eqb (pk_out a) (pk_out b) && ctstate_eqb (pk_ct a) (pk_ct b).

Definition deny_final (c : cfg) (f : final) : bool :=
  match c_deny c, f with DenyDrop, FDrop | DenyReject, FReject => true | _, _ => false end.

Definition ok_result (ec : ecfg) (c : cfg) (x : expectation) (p : packet) (res : result) : bool :=
  match x, res with
  | ExpAllow, RReturn p' => mark_has (pk_mark p') (c_accept c) && packet_eqb_unmarked p p'
  | ExpDeny, RDone f p' => deny_final c f && packet_eqb_unmarked p p'
  | ExpCtAllow, RDone FAccept p' =>
      (match ec_allow ec with AllowAccept => true | AllowReturn => false end) && packet_eqb_unmarked p p'
  | ExpCtAllow, RReturn p' =>
      (match ec_allow ec with AllowReturn => true | AllowAccept => false end)
      && mark_has (pk_mark p') (c_accept c) && packet_eqb_unmarked p p'
  | ExpRateDrop, RDone FDrop p' => packet_eqb_unmarked p p'
  | ExpConnReject, RDone FReject p' => packet_eqb_unmarked p p'
  | ExpNoVerdict, RFall p' => mark_clear (pk_mark p') (c_accept c) && packet_eqb_unmarked p p'
  | _, _ => false
  end.

(* ------------------------------------------------------------------ domain *)
(* The drop mark is never cleared by the endpoint chain; a packet arriving with it set would be dropped by the
   first Deny rule reached.  Felix's static chains clear all Calico marks when a packet enters. *)
Definition entry_mark_ok (c : cfg) (p : packet) : bool := mark_clear (pk_mark p) (c_drop c).

(* On the pinned tree a Pass rule inside a PROFILE is outside the proved domain: the profile chains are entered
   without the pass mark being cleared, so the "return if pass mark set" half of a profile's Pass rule fires on the
   mark left by the last tier or by an earlier profile (c09_profile_pass_refuted_unfixed).
   With fixes/C09-profile-pass-mark.patch (ec_profile_fix) there is no restriction. *)
Definition is_pass_rule (r : rule) : bool := is_pass_action (r_action r).
Definition profiles_pass_free (profiles : list mprofile) : bool :=
  forallb (fun pf => negb (has_pass_rule (pf_rules pf))) profiles.
Definition profiles_in_domain (ec : ecfg) (profiles : list mprofile) : bool :=
  ec_profile_fix ec || profiles_pass_free profiles.

(* ------------------------------------------------------------------ correspondence case *)
Record case := {
  k_cfg : cfg;
  k_ecfg : ecfg;
  k_ver : ipver;
  k_name : string;                         (* endpoint chain name *)
  k_tiers : list mtier;
  k_profiles : list mprofile;
  k_sets : list (N * list member);         (* contents of the IP sets the rules name *)
  k_impl : chains;                         (* the REAL renderer's chains, parsed from their rendered text; endpoint chain first *)
  k_packets : list packet;                 (* probe packets, all of version k_ver *)
  k_groupings : list (list (N * N) * list (list N))
    (* for cases whose groups come from the REAL endpointManager.groupTieredPolicy: per tier and direction the
       input (selector id, policy index) list and the groups it returned, as lists of policy indices *)
}.

(* the oracle for matches outside the packet, fixed for the evaluation of cases (any function of the packet that
   does not look at the mark would do): packets from source port 5000 are over the packet rate, packets from source
   port 40000 over the connection limit, every TCP packet except to port 53 is a SYN; log rate limits never bite *)
Definition case_other (k : N) (p : packet) : bool :=
  if N.eqb k O_WITHIN_RATE then negb (N.eqb (pk_sport p) 5000)
  else if N.eqb k O_OVER_RATE then N.eqb (pk_sport p) 5000
  else if N.eqb k O_TCP_SYN then negb (N.eqb (pk_dport p) 53)
  else if N.eqb k O_CONN_OVER then N.eqb (pk_sport p) 40000
  else true.
Definition case_env (k : case) : env := {| e_sets := ipsets_of_list (k_sets k); e_other := case_other |}.

Definition chain_eqb (a b : string * list irule) : bool := String.eqb (fst a) (fst b) && rules_eqb (snd a) (snd b).
Definition chains_eqb : chains -> chains -> bool := list_eqb chain_eqb.

(* what C09 needs of the grouping: it is an order-preserving partition of the tier's policy list (the reference
   semantics is stated on the flat list) into non-empty groups *)
Definition grouping_ok (input : list (N * N)) (groups : list (list N)) : bool :=
  list_eqb N.eqb (List.concat groups) (map snd input) && forallb (fun g => negb (is_nil g)) groups.

Definition case_fuel : nat := 6.

Definition check_case (k : case) : bool * bool :=
  let e := case_env k in
  ( (* model = implementation, chain by chain *)
    chains_eqb (render_endpoint (k_ecfg k) (k_cfg k) (k_ver k) (k_name k) (k_tiers k) (k_profiles k)) (k_impl k)
    && forallb (fun ig => list_eqb (list_eqb N.eqb) (group_policies (fst ig)) (snd ig)) (k_groupings k),
    (* specification oracle on the implementation's own chains *)
    forallb (fun p =>
      negb (entry_mark_ok (k_cfg k) p && ipver_eqb (pk_ver p) (k_ver k))
      || ok_result (k_ecfg k) (k_cfg k) (expected (k_ecfg k) (k_cfg k) e (k_tiers k) (k_profiles k) p) p
           (run_chain case_fuel (k_impl k) e (k_name k) p)) (k_packets k)
    && forallb (fun ig => grouping_ok (fst ig) (snd ig)) (k_groupings k) ).

(* ------------------------------------------------------------------ known-finding classification *)
(* A failing case counts as the known defect "profile-pass-rule-stale-pass-mark" only if ALL of:
   - the tree was probed as the unfixed variant (ec_profile_fix = false in the case);
   - the unfixed MODEL equals the implementation's chains (so it predicts the implementation exactly);
   - some profile of the endpoint holds a Pass rule;
   - every packet on which the oracle fails is one that, by the reference, no tier decides (it reaches the
     profiles), and on which the chains of the FIXED model give the result the oracle demands.
   Anything else stays a violation. *)
Definition set_profile_fix (ec : ecfg) (b : bool) : ecfg :=
  {| ec_type := ec_type ec; ec_admin_up := ec_admin_up ec; ec_failsafe := ec_failsafe ec; ec_allow := ec_allow ec;
     ec_ct_invalid := ec_ct_invalid ec; ec_block_vxlan := ec_block_vxlan ec; ec_block_ipip := ec_block_ipip ec;
     ec_qos_rate := ec_qos_rate ec; ec_qos_conn := ec_qos_conn ec; ec_profile_fix := b |}.

Definition reaches_profiles (s : ipsets) (tiers : list mtier) (p : packet) : bool :=
  forallb (fun t => match tier_verdict s (to_tier t) p with VAllow | VDeny => false | _ => true end) tiers.

(* second component is always false so that the evaluation lists every case it is run on *)
Definition classify_case (k : case) : bool * bool :=
  let e := case_env k in
  let ec := k_ecfg k in
  let fixed := render_endpoint (set_profile_fix ec true) (k_cfg k) (k_ver k) (k_name k) (k_tiers k) (k_profiles k) in
  ( negb (ec_profile_fix ec)
    && chains_eqb (render_endpoint ec (k_cfg k) (k_ver k) (k_name k) (k_tiers k) (k_profiles k)) (k_impl k)
    && negb (profiles_pass_free (k_profiles k))
    && forallb (fun p =>
         negb (entry_mark_ok (k_cfg k) p && ipver_eqb (pk_ver p) (k_ver k))
         || ok_result ec (k_cfg k) (expected ec (k_cfg k) e (k_tiers k) (k_profiles k) p) p
              (run_chain case_fuel (k_impl k) e (k_name k) p)
         || (reaches_profiles (e_sets e) (k_tiers k) p
             && ok_result ec (k_cfg k) (expected ec (k_cfg k) e (k_tiers k) (k_profiles k) p) p
                  (run_chain case_fuel fixed e (k_name k) p))) (k_packets k),
    false ).

(* ------------------------------------------------------------------ short constructors for the driver *)
Definition R := Build_rule.
Definition K (v : ipver) (pr s d sp dp it ic : N) (ct : ctstate) (m : N) : packet :=
  Build_packet v pr s d sp dp it ic [] [] ct m.
Definition C4 (a l : N) : cidr := Build_cidr V4 a l.
Definition C6 (a l : N) : cidr := Build_cidr V6 a l.
Definition MP := Build_mpolicy.
Definition MG := Build_mgroup.
Definition MT := Build_mtier.
Definition MF := Build_mprofile.
