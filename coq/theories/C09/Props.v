(* C09 — property theorems only.  Each is closed by `exact <lemma>` and followed by Print Assumptions.

   Reading guide.  `render_endpoint ec c v name tiers profiles` (Model.v) is the chain map Felix renders for one
   endpoint in one direction: the endpoint chain (endpointIptablesChain), one chain per enforced policy and per
   profile (ProtoRulesToIptablesRules over C08's `render_rule`), one chain per policy group that is not inlined
   (PolicyGroupToIptablesChains).  `run_chain` evaluates it as netfilter would (Common/Ipt.v).
   `expected` (Spec.v) is PolicyRef.endpoint_verdict - tiers in order, first allow/deny decides, pass moves on,
   end-of-tier default, staged policies ignored, then profiles, else deny - preceded by what the chain does before
   policy (admin-down drop, QoS packet rate, conntrack ESTABLISHED/RELATED/INVALID, QoS connection limit, VXLAN/IPIP
   from workloads; the QoS limits are oracles `e_other` that must not read the mark: `other_unmarked`).  `ok_result` says the
   run ended as expected: RETURN with the accept mark set / DROP or REJECT / the allow action.
   `rule_ok c e r` is C08's per-rule statement (rendered rules of r take r's action iff r matches). *)
From Coq Require Import List NArith Bool Arith String.
From Verif.Common Require Import Packet PolicyRef Ipt.
From Verif.C08 Require Import Model Spec ProofsFilter.
From Verif.C09 Require Import Model Spec ProofsMarks ProofsPolicy ProofsGroup ProofsEndpoint ProofsRaw ProofsQos ProofsEquiv ProofsStaged ProofsGrouping ProofsModel.
Import ListNotations.
Open Scope N_scope.

(* MAIN THEOREM.  For every configuration with disjoint mark bits, either renderer flavour, flow logs on or off,
   every layout of tiers (any default actions), groups (inlined or with their own chain, any size, any mix of
   staged and enforced policies), policies and profiles OF ANY SIZE, both IP versions (v), every IP set contents,
   every fuel >= 3 and every packet of version v whose drop mark is clear on entry (all other mark bits
   arbitrary): evaluating the rendered chains from the endpoint chain ends as the reference semantics demands.
   Hypotheses: per-rule correctness `rule_ok` for the rules of enforced policies and profiles (C08), distinct chain
   names, and - on the pinned tree only - no Pass rule inside a profile. *)
Theorem c09_endpoint_verdict : forall c e ec v name tiers profiles f p,
  marks_ok c = true -> ec_type ec = TNormal ->
  NoDup (map fst (render_endpoint ec c v name tiers profiles)) ->
  (forall r, In r (all_rules tiers profiles) -> rule_ok c e r) ->
  profiles_in_domain ec profiles = true ->
  other_unmarked e ->
  wf_packet p -> pk_ver p = v -> entry_mark_ok c p = true ->
  ok_result ec c (expected ec c e tiers profiles p) p
    (run_chain (3 + f) (render_endpoint ec c v name tiers profiles) e name p) = true.
Proof. exact endpoint_verdict_model. Qed.
Print Assumptions c09_endpoint_verdict.

(* The same for ANY chain map that holds the rendered chains under their names (e.g. a whole filter table), and
   any failsafe chain that hands the packet back unchanged. *)
Theorem c09_endpoint_verdict_in_table : forall c e cs v (Hm : marks_ok c = true) ec f tiers profiles p,
  ec_type ec = TNormal ->
  tiers_in_cs c e cs v tiers -> profiles_in_cs c e cs v ec profiles -> failsafe_ok e cs ec (S (S f)) ->
  other_unmarked e ->
  wfp v p -> entry_mark_ok c p = true ->
  ok_result ec c (expected ec c e tiers profiles p) p
    (run (S (S (S f))) cs e (endpoint_rules ec c tiers profiles) p) = true.
Proof. exact endpoint_verdict_in_table. Qed.
Print Assumptions c09_endpoint_verdict_in_table.

(* FORWARD CHAINS of host endpoints (chainTypeForward: no profiles): allowed outright when no tier applies to
   forwarded traffic, otherwise the first tier that allows or denies decides; when every tier passes the chain
   ends without a verdict, accept mark clear (`expected` for TForward). *)
Theorem c09_forward_verdict : forall c e ec v name tiers profiles f p,
  marks_ok c = true -> ec_type ec = TForward ->
  NoDup (map fst (render_endpoint ec c v name tiers profiles)) ->
  (forall r, In r (all_rules tiers profiles) -> rule_ok c e r) ->
  other_unmarked e ->
  wf_packet p -> pk_ver p = v -> entry_mark_ok c p = true ->
  ok_result ec c (expected ec c e tiers profiles p) p
    (run_chain (3 + f) (render_endpoint ec c v name tiers profiles) e name p) = true.
Proof. exact forward_verdict_model. Qed.
Print Assumptions c09_forward_verdict.

(* RAW (untracked) AND MANGLE (pre-DNAT) CHAINS of host endpoints (chainTypeUntracked / chainTypePreDNAT): the same
   tier loop without end-of-tier default and without profiles: the first tier whose enforced policies allow or
   deny decides (an untracked allow is NOTRACK + RETURN with the accept mark); otherwise the chain ends without a
   verdict and the filter table decides (`expected` for TUntracked / TPreDNAT). *)
Theorem c09_raw_verdict : forall c e ec v name tiers profiles f p,
  marks_ok c = true -> (ec_type ec = TUntracked \/ ec_type ec = TPreDNAT) ->
  NoDup (map fst (render_endpoint ec c v name tiers profiles)) ->
  (forall r, In r (all_rules tiers profiles) -> rule_ok c e r) ->
  other_unmarked e ->
  wf_packet p -> pk_ver p = v -> entry_mark_ok c p = true ->
  ok_result ec c (expected ec c e tiers profiles p) p
    (run_chain (3 + f) (render_endpoint ec c v name tiers profiles) e name p) = true.
Proof. exact raw_verdict_model. Qed.
Print Assumptions c09_raw_verdict.

(* MODEL MEETS SPEC, all four chain types in one statement: the correspondence oracle `ok_result (expected ...)`
   accepts every run of the model's chain map (QoS controls on or off, any failsafe name, any allow action). *)
Theorem c09_model_meets_spec : forall c e ec v name tiers profiles f p,
  marks_ok c = true ->
  NoDup (map fst (render_endpoint ec c v name tiers profiles)) ->
  (forall r, In r (all_rules tiers profiles) -> rule_ok c e r) ->
  (ec_type ec = TNormal -> profiles_in_domain ec profiles = true) ->
  other_unmarked e ->
  wf_packet p -> pk_ver p = v -> entry_mark_ok c p = true ->
  ok_result ec c (expected ec c e tiers profiles p) p
    (run_chain (3 + f) (render_endpoint ec c v name tiers profiles) e name p) = true.
Proof. exact model_meets_spec. Qed.
Print Assumptions c09_model_meets_spec.

(* HOW THE GROUPS ARE FORMED (endpoint_mgr.go groupPolicies, model group_policies): an order-preserving partition
   of the tier's policy list into non-empty maximal runs of equal selectors - putting the selector back on every
   member gives back the input; neighbouring groups have different selectors; the oracle of the correspondence
   run accepts it; and a tier whose groups are that partition has the reference meaning of the flat tier. *)
Theorem c09_grouping_partition : forall (l : list (N * mpolicy)),
  flat_map (fun sg => map (fun x => (fst sg, x)) (snd sg)) (group_runs l) = l
  /\ List.concat (group_policies l) = map snd l
  /\ Forall (fun sg => snd sg <> []) (group_runs l)
  /\ adjacent_differ (map fst (group_runs l))
  /\ (forall gs d, map g_pols gs = group_policies l ->
        to_tier {| mt_groups := gs; mt_default := d |} = {| t_policies := map to_policy (map snd l); t_default := d |}).
Proof. exact grouping_partition. Qed.
Print Assumptions c09_grouping_partition.

Theorem c09_grouping_model_meets_spec : forall l : list (N * N), grouping_ok l (group_policies l) = true.
Proof. exact grouping_model_ok. Qed.
Print Assumptions c09_grouping_model_meets_spec.

(* rule_ok is C08's theorem: for the repaired renderer for every rule of C08's domain ... *)
Theorem c09_rule_ok_fixed : forall c e r,
  marks_ok c = true -> c_fixed c = true -> in_domain c r = true -> rule_ok c e r.
Proof. exact rule_ok_fixed. Qed.
Print Assumptions c09_rule_ok_fixed.

(* ... and on the pinned tree (c_fixed arbitrary) for every rule with at most two positive match blocks *)
Theorem c09_rule_ok_few_blocks : forall c e r,
  marks_ok c = true -> in_domain c r = true -> few_blocks r -> rule_ok c e r.
Proof. exact rule_ok_few_blocks. Qed.
Print Assumptions c09_rule_ok_few_blocks.

(* GROUP CHAINS.  `grouped_jumps` is what the endpoint chain holds for a group with its own chain (jump if the
   pass mark is clear; return if accepted), `inlined_jumps` what it would hold if every enforced policy of the
   group were jumped to directly.  Entered with the verdict bits clear, both leave the endpoint chain in the state
   `seq_result` describes for the SAME verdict - PolicyRef.policies_verdict of the group's enforced policies:
   allow: RETURN with accept set; deny: DROP; pass: continue behind the jumps with pass set; no match: continue
   with both clear.  The group chain is `group_rules_gen ret first`, for ANY placement of "Return on verdict"
   rules (ret) and unconditional jumps (first) such that an unconditional jump sits at the head of the chain or
   directly behind a return rule: every position relative to the stride, and every stride length. *)
Theorem c09_group_equiv_inline : forall c e cs v ec (Hm : marks_ok c = true) ret first f gname pols rs p,
  (forall k, first k = true -> k = 0%nat \/ ret k = true) ->
  pols_in_cs c e cs v pols ->
  lookup cs gname = Some (group_rules_gen ret first c 0 pols) ->
  wfp v p -> st c false false (pk_mark p) ->
  let call := run (S (S f)) cs e in
  let vd := policies_verdict (e_sets e) (enforced (map to_policy pols)) p in
  seq_result c vd p (go cs e call (grouped_jumps ec c gname ++ rs) p) (go cs e call rs)
  /\ seq_result c vd p (go cs e call (inlined_jumps ec c pols ++ rs) p) (go cs e call rs).
Proof. exact group_equiv_inline. Qed.
Print Assumptions c09_group_equiv_inline.

(* ... and not only up to the verdict: jumping to the group chain and then testing the accept mark computes
   EXACTLY the result (same outcome, same final packet and marks) of the inlined sequence, in front of any
   remaining rules `rs` of the endpoint chain. *)
Theorem c09_group_equiv_inline_exact : forall c e cs v ec (Hm : marks_ok c = true) ret first,
  (forall k, first k = true -> k = 0%nat \/ ret k = true) ->
  forall f rs gname pols p,
  pols_in_cs c e cs v pols ->
  lookup cs gname = Some (group_rules_gen ret first c 0 pols) ->
  wfp v p -> st c false false (pk_mark p) ->
  go cs e (run (S (S f)) cs e) (grouped_jumps ec c gname ++ rs) p
  = go cs e (run (S (S f)) cs e) (inlined_jumps ec c pols ++ rs) p.
Proof. exact group_inline_exact. Qed.
Print Assumptions c09_group_equiv_inline_exact.

(* the renderer's stride of five, and any other positive stride, satisfy the placement condition *)
Theorem c09_stride_placement_ok :
  (forall k, stride_first k = true -> k = 0%nat \/ stride_ret k = true)
  /\ (forall n k, any_stride_first n k = true -> k = 0%nat \/ any_stride_ret n k = true)
  /\ (forall c pols, group_body c pols = group_rules_gen stride_ret stride_first c 0 pols)
  /\ (forall c pols, group_body c pols = group_rules_gen (any_stride_ret 5) (any_stride_first 5) c 0 pols).
Proof. exact stride_placement_ok. Qed.
Print Assumptions c09_stride_placement_ok.

(* THE PLACEMENT CONDITION IS NEEDED: with the return rule only before the 6th enforced policy and every fifth jump
   still unconditional (seeded change return-stride-once), a group of 11 enforced policies whose 6th allows and
   whose 11th denies drops a packet the reference allows. *)
Theorem c09_return_placement_necessary :
  ~ (forall k, stride_first k = true -> k = 0%nat \/ once_ret k = true)
  /\ pv (e_sets env_w) pols11 pkt_w = VAllow
  /\ st cfg0' false false (pk_mark pkt_w)
  /\ exists p', run_chain 3 cs11 env_w "g" pkt_w = RDone FDrop p'.
Proof. exact return_placement_necessary. Qed.
Print Assumptions c09_return_placement_necessary.

(* STAGED POLICIES ARE INERT.  Removing every staged policy from the endpoint description (drop_staged) changes
   neither the rendered chain map (not one rule) nor the reference verdict; so whatever a staged policy contains,
   wherever it sits (alone in a group, between enforced policies, across a stride boundary), the verdict is that
   of the endpoint without it. *)
Theorem c09_staged_inert : forall ec c v name tiers profiles,
  render_endpoint ec c v name (map drop_staged tiers) profiles = render_endpoint ec c v name tiers profiles
  /\ forall s p, ref_verdict s (map drop_staged tiers) profiles p = ref_verdict s tiers profiles p.
Proof. exact staged_inert. Qed.
Print Assumptions c09_staged_inert.

(* a policy group chain is rendered from the group's enforced policies only *)
Theorem c09_group_chain_ignores_staged : forall c pols,
  group_body c pols = group_body c (nonstaged pols).
Proof. exact group_chain_ignores_staged. Qed.
Print Assumptions c09_group_chain_ignores_staged.

(* THE CODE AS PINNED violates the property when a profile holds a Pass rule: the endpoint chain jumps to profile
   chains without clearing the pass mark, so after a tier passed the packet the "return if pass mark set" half of
   the profile's first Pass rule fires although that rule does not match, and the profile's later Allow rule is
   never reached.  Witness: one tier whose policy passes everything, one profile [pass udp; allow], a TCP packet:
   the reference allows, the rendered chains drop.  All rules have at most two positive blocks (rule_ok holds). *)
Theorem c09_profile_pass_refuted_unfixed :
  exists c e ec tiers profiles p,
    ec_profile_fix ec = false /\ marks_ok c = true /\ ec_type ec = TNormal
    /\ NoDup (map fst (render_endpoint ec c (pk_ver p) "ep" tiers profiles))
    /\ (forall r, In r (all_rules tiers profiles) -> few_blocks r /\ in_domain c r = true)
    /\ wf_packet p /\ entry_mark_ok c p = true
    /\ ref_verdict (e_sets e) tiers profiles p = VAllow
    /\ (exists p', run_chain 4 (render_endpoint ec c (pk_ver p) "ep" tiers profiles) e "ep" p = RDone FDrop p')
    /\ ok_result ec c (expected ec c e tiers profiles p) p
         (run_chain 4 (render_endpoint ec c (pk_ver p) "ep" tiers profiles) e "ep" p) = false.
Proof. exact profile_pass_refuted_unfixed. Qed.
Print Assumptions c09_profile_pass_refuted_unfixed.

(* THE ENTRY HYPOTHESIS IS NEEDED.  The endpoint chain clears the accept and pass marks but never the drop mark
   (nor does any static chain: allCalicoMarkBits() leaves MarkDrop out), and a Deny rule renders as "if match: set
   drop mark" + "if drop mark set: DROP".  A packet that arrives with the drop mark set is dropped by the first
   Deny rule it reaches whether or not that rule matches.  Witness: policy [deny udp; allow], TCP packet. *)
Theorem c09_entry_drop_mark_necessary :
  exists c e ec tiers p,
    marks_ok c = true /\ ec_type ec = TNormal /\ wf_packet p /\ entry_mark_ok c p = false
    /\ ref_verdict (e_sets e) tiers [] p = VAllow
    /\ (exists p', run_chain 4 (render_endpoint ec c (pk_ver p) "ep" tiers []) e "ep" p = RDone FDrop p').
Proof. exact entry_drop_mark_necessary. Qed.
Print Assumptions c09_entry_drop_mark_necessary.

(* the hypotheses of the main theorem are satisfiable by a non-trivial endpoint: the witness above with the fix *)
Example c09_endpoint_verdict_hyps_satisfiable :
  marks_ok (ProofsModel.cfg0' ) = true
  /\ NoDup (map fst (render_endpoint (ec_w true) ProofsModel.cfg0' V4 "ep" tiers_w profiles_w))
  /\ profiles_in_domain (ec_w true) profiles_w = true
  /\ (forall r, In r (all_rules tiers_w profiles_w) -> rule_ok ProofsModel.cfg0' env_w r)
  /\ wf_packet pkt_w /\ entry_mark_ok ProofsModel.cfg0' pkt_w = true
  /\ List.length (render_endpoint (ec_w true) ProofsModel.cfg0' V4 "ep" tiers_w profiles_w) = 3%nat.
Proof. exact ProofsModel.hyps_satisfiable. Qed.
