(* C09 — property theorems only. *)
From Coq Require Import List NArith Bool Arith String.
From Verif.Common Require Import Packet PolicyRef Ipt.
From Verif.C08 Require Import Model.
From Verif.C09 Require Import Model Spec ProofsStaged.
Import ListNotations.
Open Scope N_scope.

(* a policy group chain is rendered from the group's non-staged policies only *)
Theorem c09_group_chain_ignores_staged : forall c pols,
  group_body c pols = group_body c (nonstaged pols).
Proof. intros. apply group_rules_nonstaged. Qed.
Print Assumptions c09_group_chain_ignores_staged.
