(* C09 — group chains and the jump sequence of one tier.

   A "unit" is something the endpoint chain jumps to: the chain of an inlined policy, or a group chain.  Entered
   with the verdict bits clear it comes back (or drops) as `body_result` says for its verdict function.  The
   group chain is shown to be such a unit whose verdict is PolicyRef.policies_verdict of its enforced policies,
   for ANY placement of the "Return on verdict" rules that keeps an unconditional jump directly behind one
   (or at the head of the chain) - in particular for the stride of five at every position. *)
From Coq Require Import List NArith Bool Arith Lia String.
From Verif.Common Require Import Packet PolicyRef Ipt.
From Verif.C08 Require Import Model Spec ProofsMark ProofsExact ProofsFilter Proofs ProofsChain.
From Verif.C09 Require Import Model Spec ProofsMarks ProofsPolicy.
Import ListNotations.
Open Scope N_scope.

(* ------------------------------------------------------------------ reference-side list facts *)
Lemma policies_verdict_app : forall s a b p,
  policies_verdict s (a ++ b) p = match policies_verdict s a p with VNoMatch => policies_verdict s b p | x => x end.
Proof.
  intros s a b p. induction a as [|q a IH]; [reflexivity|]. cbn [app policies_verdict].
  destruct (policy_verdict s (pol_rules q) p); try reflexivity. exact IH.
Qed.
Lemma policies_verdict_unmark : forall s ps p p', unmark p' = unmark p -> policies_verdict s ps p' = policies_verdict s ps p.
Proof.
  intros s ps p p' H. induction ps as [|q ps IH]; [reflexivity|]. cbn [policies_verdict].
  rewrite (policy_verdict_unmark s (pol_rules q) p p' H), IH. reflexivity.
Qed.

Lemma nonstaged_app : forall a b, nonstaged (a ++ b) = nonstaged a ++ nonstaged b.
Proof. intros. unfold nonstaged. apply filter_app. Qed.
Lemma nonstaged_In : forall q ps, In q (nonstaged ps) -> In q ps /\ mp_staged q = false.
Proof. intros q ps H. unfold nonstaged in H. apply filter_In in H. destruct H as [H1 H2]. split; [exact H1|]. destruct (mp_staged q); [discriminate|reflexivity]. Qed.
Lemma enforced_map : forall ps, enforced (map to_policy ps) = map to_policy (nonstaged ps).
Proof.
  induction ps as [|q ps IH]; [reflexivity|]. unfold enforced, nonstaged in *. cbn [map filter to_policy pol_staged].
  destruct (negb (mp_staged q)); cbn [map]; rewrite IH; reflexivity.
Qed.

(* verdict of a list of policies of the model *)
Definition pv (s : ipsets) (pols : list mpolicy) (p : packet) : verdict :=
  policies_verdict s (map to_policy (nonstaged pols)) p.

Lemma pv_unmark : forall s pols p p', unmark p' = unmark p -> pv s pols p' = pv s pols p.
Proof. intros. apply policies_verdict_unmark. assumption. Qed.
Lemma pv_app : forall s a b p, pv s (a ++ b) p = match pv s a p with VNoMatch => pv s b p | x => x end.
Proof. intros. unfold pv. rewrite nonstaged_app, map_app. apply policies_verdict_app. Qed.
Lemma pv_cons_staged : forall s q pols p, mp_staged q = true -> pv s (q :: pols) p = pv s pols p.
Proof. intros s q pols p H. unfold pv, nonstaged. cbn [filter]. rewrite H. reflexivity. Qed.
Lemma pv_cons : forall s q pols p, mp_staged q = false ->
  pv s (q :: pols) p = match policy_verdict s (mp_rules q) p with VNoMatch => pv s pols p | x => x end.
Proof. intros s q pols p H. unfold pv, nonstaged. cbn [filter]. rewrite H. reflexivity. Qed.

Section Chains.
  Variable c : cfg.
  Variable e : env.
  Variable cs : chains.
  Variable v : ipver.
  Hypothesis Hmarks : marks_ok c = true.
  Let F := marks_facts c Hmarks.

  Definition wfp (p : packet) : Prop := wf_packet p /\ pk_ver p = v.
  Lemma wfp_unmark : forall p p', unmark p' = unmark p -> wfp p -> wfp p'.
  Proof. intros p p' H [H1 H2]. split; [eapply wf_packet_unmark; eassumption|]. rewrite (ver_unmark _ _ H). exact H2. Qed.

  (* ---------------------------------------------------------------- stepping `go` *)
  Lemma go_skip : forall call r rs p, matches e p (ir_match r) = false -> go cs e call (r :: rs) p = go cs e call rs p.
  Proof. intros call r rs p H. cbn [go]. rewrite H. reflexivity. Qed.

  Definition is_noop (a : target) : bool := match a with ANone | ALog | ANflog | ANoTrack => true | _ => false end.
  Lemma go_noop : forall call r rs p, is_noop (ir_action r) = true -> go cs e call (r :: rs) p = go cs e call rs p.
  Proof. intros call r rs p H. cbn [go]. destruct (matches e p (ir_match r)); [|reflexivity]. destruct (ir_action r); try discriminate; reflexivity. Qed.

  Lemma go_deny : forall call ms rs p, matches e p ms = true -> go cs e call (mk ms (deny c) :: rs) p = RDone (deny_fin c) p.
  Proof. intros call ms rs p H. cbn [go ir_match ir_action mk]. rewrite H. unfold deny, deny_target, deny_fin. destruct (c_deny c); reflexivity. Qed.

  Lemma go_return : forall call ms rs p, matches e p ms = true -> go cs e call (mk ms AReturn :: rs) p = RReturn p.
  Proof. intros call ms rs p H. cbn [go ir_match ir_action mk]. rewrite H. reflexivity. Qed.

  Lemma go_mark : forall call ms a x rs p, matches e p ms = true ->
    go cs e call (mk ms (AMark a x) :: rs) p = go cs e call rs (set_mark p (apply_mark a x (pk_mark p))).
  Proof. intros call ms a x rs p H. cbn [go ir_match ir_action mk]. rewrite H. reflexivity. Qed.

  Lemma go_jump : forall call ms n body rs p, matches e p ms = true -> lookup cs n = Some body ->
    go cs e call (mk ms (AJump n) :: rs) p
    = match call body p with RFall p' | RReturn p' => go cs e call rs p' | o => o end.
  Proof. intros call ms n body rs p H L. cbn [go ir_match ir_action mk]. rewrite H, L. reflexivity. Qed.

  Lemma matches_nil : forall p, matches e p [] = true.
  Proof. reflexivity. Qed.

  Lemma unmark_set_mark : forall p m, unmark (set_mark p m) = unmark p.
  Proof. reflexivity. Qed.

  (* ---------------------------------------------------------------- units *)
  Definition unit_ok (fuel : nat) (body : list irule) (uv : packet -> verdict) : Prop :=
    forall p, wfp p -> st c false false (pk_mark p) -> body_result c (uv p) p false (run fuel cs e body p).

  (* jumping to a unit with the verdict bits clear *)
  Lemma go_jump_unit : forall fuel ms n body uv rs p,
    matches e p ms = true -> lookup cs n = Some body -> unit_ok fuel body uv ->
    wfp p -> st c false false (pk_mark p) ->
    let res := go cs e (run fuel cs e) (mk ms (AJump n) :: rs) p in
    match uv p with
    | VDeny => exists p', res = RDone (deny_fin c) p' /\ unmark p' = unmark p
    | VAllow => exists p', res = go cs e (run fuel cs e) rs p' /\ unmark p' = unmark p /\ st c true false (pk_mark p')
    | VPass => exists p', res = go cs e (run fuel cs e) rs p' /\ unmark p' = unmark p /\ st c false true (pk_mark p')
    | VNoMatch => exists p', res = go cs e (run fuel cs e) rs p' /\ unmark p' = unmark p /\ st c false false (pk_mark p')
    end.
  Proof.
    intros fuel ms n body uv rs p Hm L U Hw Hst res. subst res. rewrite (go_jump _ _ _ _ _ _ Hm L).
    specialize (U p Hw Hst).
    destruct (uv p); cbn [body_result] in U.
    - destruct U as (q & U1 & U2). exists q. split; [|exact U2].
      destruct (run fuel cs e body p); cbn in U1; try discriminate; inversion U1; reflexivity.
    - destruct U as (q & U1 & U2). exists q. split; [|exact U2]. rewrite U1. reflexivity.
    - destruct U as (q & U1 & U2). exists q. split; [|exact U2].
      destruct (run fuel cs e body p); cbn in U1; try discriminate; inversion U1; reflexivity.
    - destruct U as (q & U1 & U2). exists q. split; [|exact U2].
      destruct (run fuel cs e body p); cbn in U1; try discriminate; inversion U1; reflexivity.
  Qed.

  (* the chains of the enforced policies of a list are in the chain map, and their rules satisfy rule_ok *)
  Definition pols_in_cs (pols : list mpolicy) : Prop :=
    forall q, In q pols -> mp_staged q = false ->
      lookup cs (mp_name q) = Some (policy_body c v (mp_rules q)) /\ (forall r, In r (mp_rules q) -> rule_ok c e r).

  Lemma policy_unit : forall f q, mp_staged q = false ->
    (forall r, In r (mp_rules q) -> rule_ok c e r) ->
    unit_ok (S f) (policy_body c v (mp_rules q)) (policy_verdict (e_sets e) (mp_rules q)).
  Proof.
    intros f q Hs Hok p [Hw Hv] Hst. rewrite <- Hv.
    apply policy_chain_exact; try assumption. discriminate.
  Qed.

  (* ---------------------------------------------------------------- the group chain *)
  Section Group.
    Variables ret first : nat -> bool.
    (* an unconditional jump sits at the head of the chain or directly behind a "Return on verdict" rule *)
    Hypothesis Hfirst : forall k, first k = true -> k = 0%nat \/ ret k = true.

    Lemma group_skip : forall f pols k p a ps,
      a || ps = true -> k <> 0%nat -> st c a ps (pk_mark p) ->
      collapse (go cs e (run (S f) cs e) (group_rules_gen ret first c k pols) p) = RFall p.
    Proof.
      intros f pols. induction pols as [|q pols IH]; intros k p a ps Hv Hk Hst; [reflexivity|].
      cbn [group_rules_gen]. destruct (mp_staged q); [eapply IH; eassumption|].
      destruct (ret k) eqn:Er; cbn [app].
      - rewrite go_return; [reflexivity|]. rewrite (m_verdict_set c F e p a ps Hst). exact Hv.
      - destruct (first k) eqn:Ef.
        + destruct (Hfirst k Ef) as [E|E]; [contradiction|congruence].
        + rewrite go_skip.
          * eapply IH; [eassumption|discriminate|eassumption].
          * cbn [ir_match mk]. rewrite (m_verdict_clear c F e p a ps Hst), Hv. reflexivity.
    Qed.

    Lemma group_run : forall f pols k p,
      pols_in_cs pols -> wfp p -> st c false false (pk_mark p) ->
      body_result c (pv (e_sets e) pols p) p false (go cs e (run (S f) cs e) (group_rules_gen ret first c k pols) p).
    Proof.
      intros f pols. induction pols as [|q pols IH]; intros k p Hin Hw Hst.
      - cbn. exists p. auto.
      - assert (Hin' : pols_in_cs pols) by (intros q' Hq'; apply Hin; right; exact Hq').
        cbn [group_rules_gen]. destruct (mp_staged q) eqn:Es.
        + rewrite pv_cons_staged by exact Es. apply IH; assumption.
        + rewrite pv_cons by exact Es.
          destruct (Hin q (or_introl eq_refl) Es) as [L Hok].
          assert (Step : forall rs, go cs e (run (S f) cs e)
                     ((if ret k then [mk [MMark true 0 (verdict_bits c)] AReturn] else [])
                      ++ mk (if first k then [] else [MMark false 0 (verdict_bits c)]) (AJump (mp_name q)) :: rs) p
                   = go cs e (run (S f) cs e)
                      (mk (if first k then [] else [MMark false 0 (verdict_bits c)]) (AJump (mp_name q)) :: rs) p).
          { intro rs. destruct (ret k); [|reflexivity]. cbn [app]. apply go_skip. cbn [ir_match mk].
            rewrite (m_verdict_set c F e p false false Hst). reflexivity. }
          rewrite Step.
          assert (Hm : matches e p (if first k then [] else [MMark false 0 (verdict_bits c)]) = true).
          { destruct (first k); [reflexivity|]. rewrite (m_verdict_clear c F e p false false Hst). reflexivity. }
          pose proof (go_jump_unit (S f) _ _ _ _ (group_rules_gen ret first c (S k) pols) p Hm L
                        (policy_unit f q Es Hok) Hw Hst) as J.
          cbv zeta in J.
          destruct (policy_verdict (e_sets e) (mp_rules q) p); cbn [body_result].
          * destruct J as (p' & J1 & J2 & J3). exists p'. split; [|split; assumption].
            rewrite J1. eapply (group_skip f pols (S k) p' true false); [reflexivity|discriminate|exact J3].
          * destruct J as (p' & J1 & J2). exists p'. split; assumption.
          * destruct J as (p' & J1 & J2 & J3). exists p'. split; [|split; assumption].
            rewrite J1. eapply (group_skip f pols (S k) p' false true); [reflexivity|discriminate|exact J3].
          * destruct J as (p' & J1 & J2 & J3). rewrite J1.
            pose proof (IH (S k) p' Hin' (wfp_unmark _ _ J2 Hw) J3) as Y.
            rewrite (pv_unmark _ _ _ _ J2) in Y.
            destruct (pv (e_sets e) pols p); cbn [body_result] in *.
            -- destruct Y as (r & Y1 & Y2 & Y3). exists r. split; [assumption|split; [congruence|assumption]].
            -- destruct Y as (r & Y1 & Y2). exists r. split; [assumption|congruence].
            -- destruct Y as (r & Y1 & Y2 & Y3). exists r. split; [assumption|split; [congruence|assumption]].
            -- destruct Y as (r & Y1 & Y2 & Y3). exists r. split; [assumption|split; [congruence|assumption]].
    Qed.

    Lemma group_unit_gen : forall f pols, pols_in_cs pols ->
      unit_ok (S (S f)) (group_rules_gen ret first c 0 pols) (pv (e_sets e) pols).
    Proof. intros f pols Hin p Hw Hst. cbn [run]. apply group_run; assumption. Qed.
  End Group.

  Lemma stride_first_ok : forall k, stride_first k = true -> k = 0%nat \/ stride_ret k = true.
  Proof.
    intros k H. unfold stride_ret. unfold stride_first in H. rewrite H.
    destruct (k =? 0)%nat eqn:E; [left; apply Nat.eqb_eq; exact E|right; reflexivity].
  Qed.

  Lemma group_unit : forall f pols, pols_in_cs pols -> unit_ok (S (S f)) (group_body c pols) (pv (e_sets e) pols).
  Proof. intros. apply group_unit_gen; [apply stride_first_ok|assumption]. Qed.

  Lemma inline_unit : forall f q, mp_staged q = false -> (forall r, In r (mp_rules q) -> rule_ok c e r) ->
    unit_ok (S (S f)) (policy_body c v (mp_rules q)) (pv (e_sets e) [q]).
  Proof.
    intros f q Hs Hok p Hw Hst. pose proof (policy_unit (S f) q Hs Hok p Hw Hst) as X.
    rewrite pv_cons by exact Hs. unfold pv at 1. cbn [nonstaged filter map policies_verdict].
    destruct (policy_verdict (e_sets e) (mp_rules q) p); exact X.
  Qed.

  (* ---------------------------------------------------------------- the jumps of one tier *)
  Variable ec : ecfg.
  Definition unit := (string * list mpolicy)%type.
  Definition unit_jumps (us : list unit) : list irule :=
    flat_map (fun u => mk [pass_clear c] (AJump (fst u)) :: ret_rules ec c) us.
  Definition units_pols (us : list unit) : list mpolicy := flat_map (fun u => snd u) us.
  Definition units_ok (fuel : nat) (us : list unit) : Prop :=
    forall u, In u us -> exists body, lookup cs (fst u) = Some body /\ unit_ok fuel body (pv (e_sets e) (snd u)).

  (* the state in which the jump sequence of a tier is left, by verdict *)
  Definition seq_result (vd : verdict) (p : packet) (res : result) (k : packet -> result) : Prop :=
    match vd with
    | VAllow => exists p', res = RReturn p' /\ unmark p' = unmark p /\ st c true false (pk_mark p')
    | VDeny => exists p', res = RDone (deny_fin c) p' /\ unmark p' = unmark p
    | VPass => exists p', res = k p' /\ unmark p' = unmark p /\ st c false true (pk_mark p')
    | VNoMatch => exists p', res = k p' /\ unmark p' = unmark p /\ st c false false (pk_mark p')
    end.

  Lemma ret_rules_skip : forall call rs p ps, st c false ps (pk_mark p) ->
    go cs e call (ret_rules ec c ++ rs) p = go cs e call rs p.
  Proof.
    intros call rs p ps Hst. unfold ret_rules.
    assert (M : matches e p [accept_set c] = false) by apply (m_accept_set c F e p false ps Hst).
    destruct (is_untracked ec); cbn [app]; repeat (rewrite go_skip by exact M); reflexivity.
  Qed.
  Lemma ret_rules_fire : forall call rs p ps, st c true ps (pk_mark p) ->
    go cs e call (ret_rules ec c ++ rs) p = RReturn p.
  Proof.
    intros call rs p ps Hst. unfold ret_rules.
    assert (M : matches e p [accept_set c] = true) by apply (m_accept_set c F e p true ps Hst).
    destruct (is_untracked ec); cbn [app].
    - rewrite go_noop by reflexivity. apply go_return. exact M.
    - apply go_return. exact M.
  Qed.

  Lemma units_skip : forall call us rs p, st c false true (pk_mark p) ->
    go cs e call (unit_jumps us ++ rs) p = go cs e call rs p.
  Proof.
    intros call us rs p Hst. induction us as [|u us IH]; [reflexivity|].
    unfold unit_jumps. cbn [flat_map]. fold (unit_jumps us). rewrite <- !app_assoc. cbn [app].
    rewrite go_skip.
    - rewrite (ret_rules_skip _ _ _ true Hst). exact IH.
    - cbn [ir_match mk]. rewrite (m_pass_clear c F e p false true Hst). reflexivity.
  Qed.

  Lemma units_run : forall fuel us rs p,
    units_ok fuel us -> wfp p -> st c false false (pk_mark p) ->
    seq_result (pv (e_sets e) (units_pols us) p) p
      (go cs e (run fuel cs e) (unit_jumps us ++ rs) p) (go cs e (run fuel cs e) rs).
  Proof.
    intros fuel us rs. induction us as [|u us IH]; intros p Hok Hw Hst.
    - cbn. exists p. auto.
    - unfold units_pols. cbn [flat_map]. fold (units_pols us). rewrite pv_app.
      unfold unit_jumps. cbn [flat_map]. fold (unit_jumps us). rewrite <- !app_assoc. cbn [app].
      destruct (Hok u (or_introl eq_refl)) as (body & L & U).
      assert (Hm : matches e p [pass_clear c] = true) by apply (m_pass_clear c F e p false false Hst).
      pose proof (go_jump_unit fuel _ _ _ _ (ret_rules ec c ++ unit_jumps us ++ rs) p Hm L U Hw Hst) as J.
      cbv zeta in J.
      destruct (pv (e_sets e) (snd u) p); cbn [seq_result].
      + destruct J as (p' & J1 & J2 & J3). exists p'. split; [|split; assumption].
        rewrite J1. apply (ret_rules_fire _ _ _ false J3).
      + destruct J as (p' & J1 & J2). exists p'. split; assumption.
      + destruct J as (p' & J1 & J2 & J3). exists p'. split; [|split; assumption].
        rewrite J1, (ret_rules_skip _ _ _ true J3). apply units_skip. exact J3.
      + destruct J as (p' & J1 & J2 & J3). rewrite J1, (ret_rules_skip _ _ _ false J3).
        assert (Hok' : units_ok fuel us) by (intros u' Hu'; apply Hok; right; exact Hu').
        pose proof (IH p' Hok' (wfp_unmark _ _ J2 Hw) J3) as Y. rewrite (pv_unmark _ _ _ _ J2) in Y.
        destruct (pv (e_sets e) (units_pols us) p); cbn [seq_result] in *.
        * destruct Y as (r & Y1 & Y2 & Y3). exists r. split; [assumption|split; [congruence|assumption]].
        * destruct Y as (r & Y1 & Y2). exists r. split; [assumption|congruence].
        * destruct Y as (r & Y1 & Y2 & Y3). exists r. split; [assumption|split; [congruence|assumption]].
        * destruct Y as (r & Y1 & Y2 & Y3). exists r. split; [assumption|split; [congruence|assumption]].
  Qed.

  (* ---------------------------------------------------------------- groups as units *)
  Definition group_units (g : mgroup) : list unit :=
    if should_inline g then map (fun q => (mp_name q, [q])) (nonstaged (g_pols g)) else [(g_name g, g_pols g)].

  Lemma has_nonstaged_nil : forall g, has_nonstaged g = negb (is_nil (nonstaged (g_pols g))).
  Proof.
    intros g. unfold has_nonstaged, nonstaged. induction (g_pols g) as [|q ps IH]; [reflexivity|].
    cbn [existsb filter]. destruct (negb (mp_staged q)); [reflexivity|]. exact IH.
  Qed.

  Lemma group_jumps_units : forall g, group_jumps ec c g = unit_jumps (group_units g).
  Proof.
    intros g. unfold group_jumps, group_targets, group_units, unit_jumps.
    rewrite has_nonstaged_nil. destruct (should_inline g) eqn:Ei.
    - destruct (nonstaged (g_pols g)) as [|q l]; [reflexivity|]. cbn [is_nil negb].
      generalize (q :: l). intro l'. induction l' as [|x l' IH]; [reflexivity|].
      cbn [map flat_map fst]. rewrite IH. reflexivity.
    - unfold should_inline in Ei. destruct (nonstaged (g_pols g)) as [|q l]; [discriminate|]. reflexivity.
  Qed.

  Lemma tier_jumps_units : forall gs, flat_map (group_jumps ec c) gs = unit_jumps (flat_map group_units gs).
  Proof.
    induction gs as [|g gs IH]; [reflexivity|]. cbn [flat_map]. rewrite IH, group_jumps_units.
    unfold unit_jumps. rewrite flat_map_app. reflexivity.
  Qed.

  Lemma nonstaged_singletons : forall l, (forall q, In q l -> mp_staged q = false) ->
    nonstaged (flat_map (fun u : unit => snd u) (map (fun q => (mp_name q, [q])) l)) = l.
  Proof.
    induction l as [|q l IH]; intro H; [reflexivity|]. cbn [map flat_map snd app].
    unfold nonstaged in *. cbn [filter]. rewrite (H q (or_introl eq_refl)). cbn [negb].
    f_equal. apply IH. intros q' Hq'. apply H. right. exact Hq'.
  Qed.

  Lemma units_pols_app : forall a b, units_pols (a ++ b) = units_pols a ++ units_pols b.
  Proof. intros. unfold units_pols. apply flat_map_app. Qed.

  Lemma units_pols_nonstaged : forall gs,
    nonstaged (units_pols (flat_map group_units gs)) = nonstaged (flat_map g_pols gs).
  Proof.
    induction gs as [|g gs IH]; [reflexivity|]. cbn [flat_map].
    rewrite units_pols_app, !nonstaged_app, IH. f_equal.
    unfold group_units. destruct (should_inline g).
    - unfold units_pols. rewrite nonstaged_singletons; [reflexivity|]. intros q Hq. apply (nonstaged_In q _ Hq).
    - unfold units_pols. cbn [flat_map snd]. rewrite app_nil_r. reflexivity.
  Qed.

  Lemma pv_units : forall gs p, pv (e_sets e) (units_pols (flat_map group_units gs)) p = pv (e_sets e) (flat_map g_pols gs) p.
  Proof. intros. unfold pv. rewrite units_pols_nonstaged. reflexivity. Qed.

  (* the chain map holds the chains of a list of groups *)
  Definition groups_in_cs (gs : list mgroup) : Prop :=
    pols_in_cs (flat_map g_pols gs)
    /\ forall g, In g gs -> should_inline g = false -> lookup cs (g_name g) = Some (group_body c (g_pols g)).

  Lemma groups_units_ok : forall f gs, groups_in_cs gs -> units_ok (S (S f)) (flat_map group_units gs).
  Proof.
    intros f gs [Hp Hg] u Hu. apply in_flat_map in Hu. destruct Hu as (g & Hg1 & Hu).
    assert (Hpg : pols_in_cs (g_pols g)).
    { intros q Hq Hs. apply Hp; [|exact Hs]. apply in_flat_map. exists g. split; assumption. }
    unfold group_units in Hu. destruct (should_inline g) eqn:Ei.
    - apply in_map_iff in Hu. destruct Hu as (q & <- & Hq). apply nonstaged_In in Hq. destruct Hq as [Hq Hs].
      destruct (Hpg q Hq Hs) as [L Hok]. exists (policy_body c v (mp_rules q)). split; [exact L|].
      apply inline_unit; assumption.
    - destruct Hu as [<-|[]]. exists (group_body c (g_pols g)). split; [apply Hg; assumption|].
      apply group_unit. exact Hpg.
  Qed.
End Chains.
