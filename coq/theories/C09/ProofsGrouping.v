(* C09 — endpointManager.groupPolicies (model: group_runs / group_policies): the groups are an order-preserving
   partition of the tier's policy list into non-empty maximal runs of equal selectors; so the tier the renderer is
   given means what the calculation graph's flat tier means. *)
From Coq Require Import List NArith Bool Arith Lia String.
From Verif.Common Require Import Packet PolicyRef Ipt.
From Verif.C08 Require Import Model.
From Verif.C09 Require Import Model Spec.
Import ListNotations.
Open Scope N_scope.

Section Grouping.
  Context {A : Type}.

  (* putting the selector back on every member gives back the input: nothing lost, nothing reordered, and every
     member of a group has the group's selector *)
  Lemma group_runs_expand : forall l : list (N * A),
    flat_map (fun sg => map (fun x => (fst sg, x)) (snd sg)) (group_runs l) = l.
  Proof.
    induction l as [|[s x] rest IH]; [reflexivity|]. cbn [group_runs].
    destruct (group_runs rest) as [|[s' g] gs] eqn:E.
    - cbn in IH. subst rest. reflexivity.
    - destruct (N.eqb_spec s s') as [->|Hn]; cbn [flat_map fst snd map app] in *; rewrite <- IH; reflexivity.
  Qed.

  Lemma group_policies_concat : forall l : list (N * A), List.concat (group_policies l) = map snd l.
  Proof.
    intros l. unfold group_policies. rewrite <- (group_runs_expand l) at 2.
    induction (group_runs l) as [|[s g] gs IH]; [reflexivity|].
    cbn [map List.concat flat_map fst snd]. rewrite map_app, IH, map_map. cbn [snd]. rewrite map_id. reflexivity.
  Qed.

  Lemma group_runs_nonempty : forall l : list (N * A), Forall (fun sg => snd sg <> []) (group_runs l).
  Proof.
    induction l as [|[s x] rest IH]; [constructor|]. cbn [group_runs].
    destruct (group_runs rest) as [|[s' g] gs].
    - constructor; [discriminate|constructor].
    - inversion IH; subst. destruct (N.eqb s s').
      + constructor; [discriminate|assumption].
      + constructor; [discriminate|]. constructor; assumption.
  Qed.

  (* a new group starts only where the selector changes: neighbouring groups have different selectors *)
  Fixpoint adjacent_differ (l : list N) : Prop :=
    match l with
    | a :: ((b :: _) as t) => a <> b /\ adjacent_differ t
    | _ => True
    end.
  Lemma group_runs_maximal : forall l : list (N * A), adjacent_differ (map fst (group_runs l)).
  Proof.
    induction l as [|[s x] rest IH]; [exact I|]. cbn [group_runs].
    destruct (group_runs rest) as [|[s' g] gs]; [exact I|].
    destruct (N.eqb_spec s s') as [->|Hn]; cbn [map fst adjacent_differ] in *.
    - exact IH.
    - split; assumption.
  Qed.
End Grouping.

Lemma list_eqb_N_refl : forall l : list N, list_eqb N.eqb l l = true.
Proof. induction l as [|x l IH]; [reflexivity|]. cbn. rewrite N.eqb_refl. exact IH. Qed.

(* the correspondence oracle accepts the model's grouping *)
Lemma grouping_model_ok : forall l : list (N * N), grouping_ok l (group_policies l) = true.
Proof.
  intros l. unfold grouping_ok. rewrite group_policies_concat, list_eqb_N_refl. cbn [andb].
  apply forallb_forall. intros g Hg. unfold group_policies in Hg. apply in_map_iff in Hg. destruct Hg as (sg & <- & Hsg).
  pose proof (group_runs_nonempty l) as F. rewrite Forall_forall in F. specialize (F sg Hsg).
  destruct (snd sg); [contradiction|reflexivity].
Qed.

(* the tier handed to the renderer, whatever the chain names of its groups, has the reference meaning of the flat
   tier the calculation graph sent *)
Lemma grouped_tier_meaning : forall (l : list (N * mpolicy)) (gs : list mgroup) d,
  map g_pols gs = group_policies l ->
  to_tier {| mt_groups := gs; mt_default := d |} = {| t_policies := map to_policy (map snd l); t_default := d |}.
Proof.
  intros l gs d H. unfold to_tier. cbn [mt_groups mt_default].
  assert (E : flat_map g_pols gs = map snd l).
  { rewrite <- group_policies_concat, <- H. clear H. induction gs as [|g gs IH]; [reflexivity|]. cbn. rewrite IH. reflexivity. }
  rewrite E. reflexivity.
Qed.

Lemma grouping_partition : forall (l : list (N * mpolicy)),
  flat_map (fun sg => map (fun x => (fst sg, x)) (snd sg)) (group_runs l) = l
  /\ List.concat (group_policies l) = map snd l
  /\ Forall (fun sg => snd sg <> []) (group_runs l)
  /\ adjacent_differ (map fst (group_runs l))
  /\ (forall gs d, map g_pols gs = group_policies l ->
        to_tier {| mt_groups := gs; mt_default := d |} = {| t_policies := map to_policy (map snd l); t_default := d |}).
Proof.
  intros l. split; [apply group_runs_expand|]. split; [apply group_policies_concat|]. split; [apply group_runs_nonempty|].
  split; [apply group_runs_maximal|]. intros. apply grouped_tier_meaning. assumption.
Qed.
