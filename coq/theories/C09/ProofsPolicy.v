(* C09 — a policy / profile chain, seen from the chain that jumps to it.
   Per-rule correctness of the rendering is the HYPOTHESIS `rule_ok` (C08's statement for one rule); from it the
   body of a policy chain stops exactly as PolicyRef.policy_verdict says.  This re-derives C08's
   c08_policy_rules_exact from the per-rule hypothesis (instead of c_fixed = true), for an entry state in which
   the pass mark may be set provided the rule list has no Pass rule (how profile chains are entered). *)
From Coq Require Import List NArith Bool Arith Lia String.
From Verif.Common Require Import Packet PolicyRef Ipt.
From Verif.C08 Require Import Model Spec ProofsMark ProofsExact ProofsFilter Proofs ProofsChain.
From Verif.C09 Require Import Model Spec ProofsMarks.
Import ListNotations.
Open Scope N_scope.

(* C08's per-rule statement, for one rule *)
Definition rule_ok (c : cfg) (e : env) (r : rule) : Prop :=
  forall p, wf_packet p -> entry_ok c (r_action r) p = true ->
    ok_outcome c (e_sets e) r p (run_flat e (render_rule c (pk_ver p) r) p) = true.

Definition deny_fin (c : cfg) : final := match c_deny c with DenyDrop => FDrop | DenyReject => FReject end.

(* what a callee has done when control comes back (or does not), by verdict; entered in state (false, ps) *)
Definition body_result (c : cfg) (vd : verdict) (p : packet) (ps : bool) (res : result) : Prop :=
  match vd with
  | VAllow => exists p', collapse res = RFall p' /\ unmark p' = unmark p /\ st c true ps (pk_mark p')
  | VPass => exists p', collapse res = RFall p' /\ unmark p' = unmark p /\ st c false true (pk_mark p')
  | VDeny => exists p', res = RDone (deny_fin c) p' /\ unmark p' = unmark p
  | VNoMatch => exists p', collapse res = RFall p' /\ unmark p' = unmark p /\ st c false ps (pk_mark p')
  end.

Definition pass_free (rules : list rule) : bool := forallb (fun r => negb (is_pass_rule r)) rules.

Lemma pass_free_no_pass : forall s rules p, pass_free rules = true -> policy_verdict s rules p <> VPass.
Proof.
  intros s rules p. induction rules as [|r rs IH]; intro H; [discriminate|].
  cbn in H. apply andb_prop in H. destruct H as [Hr Hrs]. cbn [policy_verdict].
  destruct (rule_matches s r p); [|apply IH; exact Hrs].
  unfold is_pass_rule, is_pass_action in Hr. destruct (r_action r); try discriminate. apply IH. exact Hrs.
Qed.

Lemma pass_free_has_pass : forall rules, pass_free rules = negb (has_pass_rule rules).
Proof.
  induction rules as [|r rs IH]; [reflexivity|]. unfold pass_free, has_pass_rule in *. cbn [forallb existsb].
  rewrite IH. unfold is_pass_rule. destruct (is_pass_action (r_action r)); reflexivity.
Qed.

Lemma wf_packet_unmark : forall p p', unmark p' = unmark p -> wf_packet p -> wf_packet p'.
Proof. intros p p' H Hw. destruct (unmark_fields p p' H) as (Ev & Es & Ed). unfold wf_packet. rewrite Ev, Es, Ed. exact Hw. Qed.
Lemma ver_unmark : forall p p', unmark p' = unmark p -> pk_ver p' = pk_ver p.
Proof. intros p p' H. destruct (unmark_fields p p' H) as (Ev & _). exact Ev. Qed.

Section Policy.
  Variable c : cfg.
  Variable e : env.
  Hypothesis Hmarks : marks_ok c = true.
  Let F := marks_facts c Hmarks.

  (* the un-stripped rule list *)
  Lemma rules_exact : forall rules p ps,
    (forall r, In r rules -> rule_ok c e r) ->
    wf_packet p -> st c false ps (pk_mark p) -> (ps = true -> pass_free rules = true) ->
    body_result c (policy_verdict (e_sets e) rules p) p ps (run_flat e (render_rules c (pk_ver p) rules) p).
  Proof.
    induction rules as [|r rules IH]; intros p ps Hok Hw Hst Hpf.
    - cbn. exists p. auto.
    - unfold render_rules. cbn [flat_map]. rewrite run_flat_app. fold (render_rules c (pk_ver p) rules).
      assert (Hr : ps = true -> r_action r <> Pass).
      { intros E X. specialize (Hpf E). cbn in Hpf. apply andb_prop in Hpf. destruct Hpf as [Hpf _].
        unfold is_pass_rule, is_pass_action in Hpf. rewrite X in Hpf. discriminate. }
      assert (Hpf' : ps = true -> pass_free rules = true).
      { intros E. specialize (Hpf E). cbn in Hpf. apply andb_prop in Hpf. apply Hpf. }
      pose proof (Hok r (or_introl eq_refl) p Hw (st_entry_ok c p ps (r_action r) Hst Hr)) as X.
      pose proof (run_flat_unmark e (render_rule c (pk_ver p) r) p) as U.
      unfold ok_outcome in X. cbn [policy_verdict].
      assert (Cont : forall p', unmark p' = unmark p -> same_outside (scratch c) (pk_mark p) (pk_mark p') = true ->
                body_result c (policy_verdict (e_sets e) rules p) p ps (run_flat e (render_rules c (pk_ver p) rules) p')).
      { intros p' Hu Ho.
        pose proof (IH p' ps (fun r0 H0 => Hok r0 (or_intror H0)) (wf_packet_unmark _ _ Hu Hw)
                      (st_after_nomatch c F _ _ _ _ Hst Ho) Hpf') as Y.
        rewrite (ver_unmark _ _ Hu), (policy_verdict_unmark _ _ p p' Hu) in Y.
        destruct (policy_verdict (e_sets e) rules p); cbn [body_result] in *.
        - destruct Y as (q & Y1 & Y2 & Y3). exists q. split; [assumption|split; [congruence|assumption]].
        - destruct Y as (q & Y1 & Y2). exists q. split; [assumption|congruence].
        - destruct Y as (q & Y1 & Y2 & Y3). exists q. split; [assumption|split; [congruence|assumption]].
        - destruct Y as (q & Y1 & Y2 & Y3). exists q. split; [assumption|split; [congruence|assumption]]. }
      destruct (rule_matches (e_sets e) r p).
      + destruct (r_action r); unfold took_action in X; cbn [verdict_mark] in X;
          destruct (run_flat e (render_rule c (pk_ver p) r) p) as [f p'|p'|p'| |]; try discriminate; cbn in U.
        * apply andb_prop in X. destruct X as [X1 X2]. cbn [body_result]. exists p'.
          split; [reflexivity|]. split; [assumption|]. eapply st_after_allow; eassumption.
        * apply andb_prop in X. destruct X as [X X2]. apply andb_prop in X. destruct X as [X0 X1].
          cbn [body_result]. exists p'. split; [|assumption].
          unfold deny_fin. destruct (c_deny c), f; try discriminate; reflexivity.
        * apply andb_prop in X. destruct X as [X1 X2]. cbn [body_result].
          assert (ps = false) by (destruct ps; [exfalso; apply Hr; reflexivity|reflexivity]). subst ps.
          exists p'. split; [reflexivity|]. split; [assumption|]. eapply st_after_pass; eassumption.
        * apply Cont; assumption.
      + unfold fell_through in X.
        destruct (run_flat e (render_rule c (pk_ver p) r) p) as [f p'|p'|p'| |]; try discriminate; cbn in U.
        apply Cont; assumption.
  Qed.

  (* ---------------------------------------------------------------- the chain body as rendered *)
  Lemma targets_strip : forall rs, targets (strip_trailing_returns rs) = targets rs.
  Proof.
    induction rs as [|r rs IH]; [reflexivity|]. cbn [strip_trailing_returns].
    change (targets (r :: rs)) with (targets_of r ++ targets rs).
    destruct (strip_trailing_returns rs) as [|x l] eqn:E.
    - rewrite <- IH. destruct (is_return r) eqn:Er.
      + unfold is_return in Er. unfold targets_of. destruct (ir_action r); try discriminate. reflexivity.
      + reflexivity.
    - change (targets (r :: x :: l)) with (targets_of r ++ targets (x :: l)). rewrite IH. reflexivity.
  Qed.

  Lemma render_rules_jump_free : forall v rules, jump_free (render_rules c v rules).
  Proof.
    intros v rules. unfold jump_free, render_rules. induction rules as [|r rs IH]; [reflexivity|].
    cbn [flat_map]. rewrite targets_app, IH, app_nil_r. apply render_rule_jump_free.
  Qed.

  Lemma policy_body_jump_free : forall v rules, jump_free (policy_body c v rules).
  Proof.
    intros v rules. unfold policy_body, jump_free.
    destruct (strip_trailing_returns (render_rules c v rules)) eqn:E; [reflexivity|].
    rewrite <- E, targets_strip. apply render_rules_jump_free.
  Qed.

  Lemma policy_body_collapse : forall v rules p,
    collapse (run_flat e (policy_body c v rules) p) = collapse (run_flat e (render_rules c v rules) p).
  Proof.
    intros v rules p. rewrite <- (run_flat_strip_trailing_returns e (render_rules c v rules) p). unfold policy_body.
    destruct (strip_trailing_returns (render_rules c v rules)); reflexivity.
  Qed.

  Lemma body_result_collapse : forall vd p ps r1 r2,
    collapse r1 = collapse r2 -> body_result c vd p ps r2 -> body_result c vd p ps r1.
  Proof.
    intros vd p ps r1 r2 H X. destruct vd; cbn [body_result] in *.
    - destruct X as (q & X1 & X2). exists q. split; [congruence|assumption].
    - destruct X as (q & X1 & X2). exists q. split; [|assumption]. subst r2. cbn in H.
      destruct r1; cbn in H; try discriminate; congruence.
    - destruct X as (q & X1 & X2). exists q. split; [congruence|assumption].
    - destruct X as (q & X1 & X2). exists q. split; [congruence|assumption].
  Qed.

  (* a policy / profile chain, called with any fuel and chain map *)
  Lemma policy_chain_exact : forall f cs rules p ps,
    (forall r, In r rules -> rule_ok c e r) ->
    wf_packet p -> st c false ps (pk_mark p) -> (ps = true -> pass_free rules = true) ->
    body_result c (policy_verdict (e_sets e) rules p) p ps (run (S f) cs e (policy_body c (pk_ver p) rules) p).
  Proof.
    intros f cs rules p ps Hok Hw Hst Hpf.
    rewrite run_jump_free by apply policy_body_jump_free.
    eapply body_result_collapse; [apply policy_body_collapse|]. apply rules_exact; assumption.
  Qed.
End Policy.
