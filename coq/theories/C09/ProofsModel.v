(* C09 — the model's own chain map satisfies the "chains are in the map" hypotheses of ProofsEndpoint when its
   chain names are distinct; discharging rule_ok from C08; staged policies do not reach the rendered chains. *)
From Coq Require Import List NArith Bool Arith Lia String.
From Verif.Common Require Import Packet PolicyRef Ipt.
From Verif.C08 Require Import Model Spec ProofsMark ProofsExact ProofsFilter Proofs ProofsChain.
From Verif.C09 Require Import Model Spec ProofsMarks ProofsPolicy ProofsGroup ProofsEndpoint ProofsRaw ProofsQos ProofsStaged.
Import ListNotations.
Open Scope N_scope.

(* ------------------------------------------------------------------ lookup in a chain map with distinct names *)
Lemma lookup_In : forall (cs : chains) n b, NoDup (map fst cs) -> In (n, b) cs -> lookup cs n = Some b.
Proof.
  induction cs as [|[n' b'] cs IH]; intros n b Hnd Hin; [contradiction|].
  cbn [map fst] in Hnd. inversion Hnd as [|x l Hx Hl]. subst. cbn [lookup].
  destruct Hin as [E|Hin].
  - inversion E. subst. rewrite String.eqb_refl. reflexivity.
  - destruct (String.eqb n' n) eqn:En.
    + apply String.eqb_eq in En. subst. exfalso. apply Hx. apply in_map_iff. exists (n, b). split; [reflexivity|exact Hin].
    + apply IH; assumption.
Qed.

Definition all_rules (tiers : list mtier) (profiles : list mprofile) : list rule :=
  flat_map mp_rules (nonstaged (all_policies tiers)) ++ flat_map pf_rules profiles.

Section Model.
  Variable c : cfg.
  Variable e : env.
  Variable v : ipver.
  Variable ec : ecfg.
  Variable name : string.
  Variable tiers : list mtier.
  Variable profiles : list mprofile.
  Let cs := render_endpoint ec c v name tiers profiles.
  Hypothesis Hnd : NoDup (map fst cs).
  Hypothesis Hok : forall r, In r (all_rules tiers profiles) -> rule_ok c e r.

  Lemma model_policy_lookup : forall t g q, In t tiers -> In g (mt_groups t) -> In q (g_pols g) -> mp_staged q = false ->
    lookup cs (mp_name q) = Some (policy_body c v (mp_rules q)) /\ (forall r, In r (mp_rules q) -> rule_ok c e r).
  Proof.
    intros t g q Ht Hg Hq Hs.
    assert (Hq' : In q (nonstaged (all_policies tiers))).
    { unfold nonstaged. apply filter_In. split; [|rewrite Hs; reflexivity].
      unfold all_policies. apply in_flat_map. exists t. split; [exact Ht|]. apply in_flat_map. exists g. split; assumption. }
    split.
    - apply lookup_In; [exact Hnd|]. unfold cs, render_endpoint. right. apply in_or_app. left.
      unfold policy_chains. apply in_map_iff. exists q. split; [reflexivity|exact Hq'].
    - intros r Hr. apply Hok. unfold all_rules. apply in_or_app. left. apply in_flat_map. exists q. split; assumption.
  Qed.

  Lemma model_tiers_in_cs : tiers_in_cs c e cs v tiers.
  Proof.
    intros t Ht. split.
    - intros q Hq Hs. apply in_flat_map in Hq. destruct Hq as (g & Hg & Hq). eapply model_policy_lookup; eassumption.
    - intros g Hg Hi. apply lookup_In; [exact Hnd|]. unfold cs, render_endpoint. right. apply in_or_app. right. apply in_or_app. left.
      unfold group_chains. apply in_map_iff. exists g. split; [reflexivity|]. apply filter_In. split; [|rewrite Hi; reflexivity].
      unfold all_groups. apply in_flat_map. exists t. split; assumption.
  Qed.

  Hypothesis Hpf : profiles_in_domain ec profiles = true.

  Lemma model_profiles_in_cs : profiles_in_cs c e cs v ec profiles.
  Proof.
    intros pf Hp. repeat split.
    - apply lookup_In; [exact Hnd|]. unfold cs, render_endpoint. right. apply in_or_app. right. apply in_or_app. right. apply in_or_app. left.
      unfold profile_chains. apply in_map_iff. exists pf. split; [reflexivity|exact Hp].
    - intros r Hr. apply Hok. unfold all_rules. apply in_or_app. right. apply in_flat_map. exists pf. split; assumption.
    - unfold profiles_in_domain in Hpf. destruct (ec_profile_fix ec); [left; reflexivity|right].
      cbn [orb] in Hpf. unfold profiles_pass_free in Hpf. rewrite forallb_forall in Hpf.
      rewrite pass_free_has_pass. apply Hpf. exact Hp.
  Qed.

  Lemma model_failsafe_ok : forall fuel, failsafe_ok e cs ec (S fuel).
  Proof.
    intros fuel. unfold failsafe_ok. destruct (ec_failsafe ec) as [fs|] eqn:Ef; [|exact I].
    exists []. split.
    - apply lookup_In; [exact Hnd|]. unfold cs, render_endpoint. right. apply in_or_app. right. apply in_or_app. right. apply in_or_app. right.
      rewrite Ef. left. reflexivity.
    - intros q. left. reflexivity.
  Qed.

  Lemma model_endpoint_lookup : lookup cs name = Some (endpoint_rules ec c tiers profiles).
  Proof. unfold cs, render_endpoint. cbn [lookup]. rewrite String.eqb_refl. reflexivity. Qed.
End Model.

(* ------------------------------------------------------------------ the model's chain map, end to end *)
Theorem endpoint_verdict_model : forall c e ec v name tiers profiles f p,
  marks_ok c = true -> ec_type ec = TNormal ->
  NoDup (map fst (render_endpoint ec c v name tiers profiles)) ->
  (forall r, In r (all_rules tiers profiles) -> rule_ok c e r) ->
  profiles_in_domain ec profiles = true ->
  other_unmarked e ->
  wf_packet p -> pk_ver p = v -> entry_mark_ok c p = true ->
  ok_result ec c (expected ec c e tiers profiles p) p
    (run_chain (3 + f) (render_endpoint ec c v name tiers profiles) e name p) = true.
Proof.
  intros c e ec v name tiers profiles f p Hm Ht Hnd Hok Hpf Ho Hw Hv Hd.
  unfold run_chain. rewrite model_endpoint_lookup.
  change (3 + f)%nat with (S (S (S f))).
  apply (whole_chain_exact c e _ v Hm ec Ho); [|split; assumption|assumption].
  intros q Hq Hdq. apply (endpoint_tail_exact c e _ v Hm ec); try assumption.
  - unfold is_normal. rewrite Ht. reflexivity.
  - apply model_tiers_in_cs; assumption.
  - apply model_profiles_in_cs; assumption.
  - apply model_failsafe_ok. assumption.
Qed.

Theorem forward_verdict_model : forall c e ec v name tiers profiles f p,
  marks_ok c = true -> ec_type ec = TForward ->
  NoDup (map fst (render_endpoint ec c v name tiers profiles)) ->
  (forall r, In r (all_rules tiers profiles) -> rule_ok c e r) ->
  other_unmarked e ->
  wf_packet p -> pk_ver p = v -> entry_mark_ok c p = true ->
  ok_result ec c (expected ec c e tiers profiles p) p
    (run_chain (3 + f) (render_endpoint ec c v name tiers profiles) e name p) = true.
Proof.
  intros c e ec v name tiers profiles f p Hm Ht Hnd Hok Ho Hw Hv Hd.
  unfold run_chain. rewrite model_endpoint_lookup.
  change (3 + f)%nat with (S (S (S f))).
  apply (whole_chain_exact c e _ v Hm ec Ho); [|split; assumption|assumption].
  intros q Hq Hdq. apply (forward_tail_exact c e _ v Hm ec); try assumption.
  - unfold is_normal, is_forward. rewrite Ht. reflexivity.
  - apply model_tiers_in_cs; assumption.
  - apply model_failsafe_ok. assumption.
Qed.

Theorem raw_verdict_model : forall c e ec v name tiers profiles f p,
  marks_ok c = true -> (ec_type ec = TUntracked \/ ec_type ec = TPreDNAT) ->
  NoDup (map fst (render_endpoint ec c v name tiers profiles)) ->
  (forall r, In r (all_rules tiers profiles) -> rule_ok c e r) ->
  other_unmarked e ->
  wf_packet p -> pk_ver p = v -> entry_mark_ok c p = true ->
  ok_result ec c (expected ec c e tiers profiles p) p
    (run_chain (3 + f) (render_endpoint ec c v name tiers profiles) e name p) = true.
Proof.
  intros c e ec v name tiers profiles f p Hm Ht Hnd Hok Ho Hw Hv Hd.
  unfold run_chain. rewrite model_endpoint_lookup.
  change (3 + f)%nat with (S (S (S f))).
  apply (whole_chain_exact c e _ v Hm ec Ho); [|split; assumption|assumption].
  intros q Hq Hdq. apply (raw_tail_exact c e _ v Hm ec); try assumption.
  - unfold is_normal, is_forward. destruct Ht as [Ht|Ht]; rewrite Ht; reflexivity.
  - apply model_tiers_in_cs; assumption.
  - apply model_failsafe_ok. assumption.
Qed.

(* ------------------------------------------------------------------ rule_ok from C08 *)
Lemma rule_ok_fixed : forall c e r, marks_ok c = true -> c_fixed c = true -> in_domain c r = true -> rule_ok c e r.
Proof. intros c e r Hm Hf Hd p Hw He. apply rule_exact_flat; assumption. Qed.

(* On the pinned tree (c_fixed = false) the rendering of a rule with at most two positive match blocks is the
   rendering of the fixed renderer: the extra "clear scratch bit" rule only appears from the third block on. *)
Lemma emit_pos_few : forall c blocks idx, (idx + List.length blocks <= 2)%nat ->
  emit_pos c idx blocks = emit_pos (set_fixed c true) idx blocks.
Proof.
  intros c blocks. induction blocks as [|b bs IH]; intros idx H; [reflexivity|].
  cbn [List.length] in H. cbn [emit_pos]. rewrite (IH (S idx)) by lia.
  assert (E : (2 <=? idx)%nat = false) by (apply Nat.leb_gt; lia). rewrite E, !andb_false_r.
  destruct c; reflexivity.
Qed.

Definition few_blocks (r : rule) : Prop :=
  forall v, match filter_rule v r with Some r' => (List.length (pos_blocks r') <= 2)%nat | None => True end.

Lemma render_rule_few : forall c v r, few_blocks r -> render_rule c v r = render_rule (set_fixed c true) v r.
Proof.
  intros c v r H. unfold render_rule. specialize (H v). destruct (filter_rule v r) as [r'|]; [|reflexivity].
  unfold render_filtered.
  assert (E : emit_blocks c (pos_blocks r') (neg_blocks r') = emit_blocks (set_fixed c true) (pos_blocks r') (neg_blocks r')).
  { unfold emit_blocks. destruct (pos_blocks r') as [|b bs] eqn:Ep.
    - destruct c; reflexivity.
    - rewrite <- Ep in *. rewrite (emit_pos_few c (pos_blocks r') 0) by exact H.
      destruct c; reflexivity. }
  rewrite E. destruct c; reflexivity.
Qed.

Lemma rule_ok_few_blocks : forall c e r,
  marks_ok c = true -> in_domain c r = true -> few_blocks r -> rule_ok c e r.
Proof.
  intros c e r Hm Hd Hf p Hw He. rewrite render_rule_few by exact Hf.
  assert (X : ok_outcome (set_fixed c true) (e_sets e) r p (run_flat e (render_rule (set_fixed c true) (pk_ver p) r) p) = true).
  { apply rule_exact_flat; try assumption; reflexivity. }
  exact X.
Qed.

(* ------------------------------------------------------------------ the pinned tree and Pass rules in profiles *)
Open Scope string_scope.
Definition ec_w (fx : bool) : ecfg := Build_ecfg TNormal true None AllowAccept true None false false false fx.
Definition rule_udp_pass : rule :=
  Build_rule Pass None (Some 17) [] [] [] [] [] [] None [] [] [] None [] [] [] [] None [] [] [] [].
(* one tier whose only policy passes everything; one profile: "pass UDP", then "allow" *)
Definition tiers_w : list mtier := [Build_mtier [Build_mgroup "g" [Build_mpolicy "pol" false [any_rule Pass]]] DefaultDeny].
Definition profiles_w : list mprofile := [Build_mprofile "prof" [rule_udp_pass; any_rule Allow]].
(* a TCP packet *)
Definition pkt_w : packet := Build_packet V4 6 1 2 1000 80 0 0 [] [] CtNew 0.
Definition env_w : env := {| e_sets := fun _ _ => false; e_other := fun _ _ => true |}.

Theorem profile_pass_refuted_unfixed :
  exists c e ec tiers profiles p,
    ec_profile_fix ec = false /\ marks_ok c = true /\ ec_type ec = TNormal
    /\ NoDup (map fst (render_endpoint ec c (pk_ver p) "ep" tiers profiles))
    /\ (forall r, In r (all_rules tiers profiles) -> few_blocks r /\ in_domain c r = true)
    /\ wf_packet p /\ entry_mark_ok c p = true
    /\ ref_verdict (e_sets e) tiers profiles p = VAllow
    /\ (exists p', run_chain 4 (render_endpoint ec c (pk_ver p) "ep" tiers profiles) e "ep" p = RDone FDrop p')
    /\ ok_result ec c (expected ec c e tiers profiles p) p
         (run_chain 4 (render_endpoint ec c (pk_ver p) "ep" tiers profiles) e "ep" p) = false.
Proof.
  exists (cfg0 false), env_w, (ec_w false), tiers_w, profiles_w, pkt_w.
  split; [reflexivity|]. split; [vm_compute; reflexivity|]. split; [reflexivity|].
  split. { cbn. repeat constructor; cbn; intuition discriminate. }
  split. { intros r Hr. cbn in Hr. destruct Hr as [<-|[<-|[<-|[]]]]; (split; [intros [|]; vm_compute; auto|reflexivity]). }
  split; [split; vm_compute; reflexivity|]. split; [vm_compute; reflexivity|]. split; [vm_compute; reflexivity|].
  split; [eexists; vm_compute; reflexivity|]. vm_compute. reflexivity.
Qed.

(* with the fix the same endpoint and packet are allowed, as the theorem says *)
Example profile_pass_witness_fixed :
  exists p', run_chain 4 (render_endpoint (ec_w true) (cfg0 false) V4 "ep" tiers_w profiles_w) env_w "ep" pkt_w = RReturn p'
             /\ mark_has (pk_mark p') (c_accept (cfg0 false)) = true.
Proof. eexists. split; vm_compute; reflexivity. Qed.
(* The entry hypothesis "drop mark clear" cannot be dropped: the endpoint chain clears accept and pass but never
   the drop mark, and a Deny rule renders as "if match: set drop mark" + "if drop mark set: DROP".  Witness: one
   tier, policy [deny udp; allow], a TCP packet arriving with the drop mark set: reference allows, chains drop. *)
Definition rule_udp_deny : rule :=
  Build_rule Deny None (Some 17) [] [] [] [] [] [] None [] [] [] None [] [] [] [] None [] [] [] [].
Definition tiers_d : list mtier := [Build_mtier [Build_mgroup "g" [Build_mpolicy "pol" false [rule_udp_deny; any_rule Allow]]] DefaultDeny].
Definition pkt_d : packet := Build_packet V4 6 1 2 1000 80 0 0 [] [] CtNew 0x800.
Theorem entry_drop_mark_necessary :
  exists c e ec tiers p,
    marks_ok c = true /\ ec_type ec = TNormal /\ wf_packet p /\ entry_mark_ok c p = false
    /\ ref_verdict (e_sets e) tiers [] p = VAllow
    /\ (exists p', run_chain 4 (render_endpoint ec c (pk_ver p) "ep" tiers []) e "ep" p = RDone FDrop p').
Proof.
  exists (cfg0 false), env_w, (ec_w true), tiers_d, pkt_d.
  split; [vm_compute; reflexivity|]. split; [reflexivity|]. split; [split; vm_compute; reflexivity|].
  split; [vm_compute; reflexivity|]. split; [vm_compute; reflexivity|]. eexists. vm_compute. reflexivity.
Qed.

Definition cfg0' : cfg := cfg0 false.
Lemma hyps_satisfiable :
  marks_ok cfg0' = true
  /\ NoDup (map fst (render_endpoint (ec_w true) cfg0' V4 "ep" tiers_w profiles_w))
  /\ profiles_in_domain (ec_w true) profiles_w = true
  /\ (forall r, In r (all_rules tiers_w profiles_w) -> rule_ok cfg0' env_w r)
  /\ wf_packet pkt_w /\ entry_mark_ok cfg0' pkt_w = true
  /\ List.length (render_endpoint (ec_w true) cfg0' V4 "ep" tiers_w profiles_w) = 3%nat.
Proof.
  split; [vm_compute; reflexivity|].
  split. { cbn. repeat constructor; cbn; intuition discriminate. }
  split; [reflexivity|].
  split. { intros r Hr. apply rule_ok_few_blocks; [vm_compute; reflexivity| |].
           - cbn in Hr. destruct Hr as [<-|[<-|[<-|[]]]]; reflexivity.
           - cbn in Hr. destruct Hr as [<-|[<-|[<-|[]]]]; intros [|]; vm_compute; auto. }
  split; [split; vm_compute; reflexivity|]. split; reflexivity.
Qed.
Close Scope string_scope.

(* ------------------------------------------------------------------ staged policies are inert *)
Definition drop_staged_group (g : mgroup) : mgroup := {| g_name := g_name g; g_pols := nonstaged (g_pols g) |}.
Definition drop_staged (t : mtier) : mtier := {| mt_groups := map drop_staged_group (mt_groups t); mt_default := mt_default t |}.

Lemma should_inline_drop : forall g, should_inline (drop_staged_group g) = should_inline g.
Proof. intros g. unfold should_inline, drop_staged_group. cbn [g_pols]. rewrite nonstaged_idem. reflexivity. Qed.
Lemma has_nonstaged_drop : forall g, has_nonstaged (drop_staged_group g) = has_nonstaged g.
Proof. intros g. rewrite !has_nonstaged_nil. unfold drop_staged_group. cbn [g_pols]. rewrite nonstaged_idem. reflexivity. Qed.
Lemma group_jumps_drop : forall ec c g, group_jumps ec c (drop_staged_group g) = group_jumps ec c g.
Proof.
  intros ec c g. unfold group_jumps, group_targets. rewrite should_inline_drop, has_nonstaged_drop.
  unfold drop_staged_group. cbn [g_pols g_name]. rewrite nonstaged_idem. reflexivity.
Qed.
Lemma flat_map_ext_map : forall {A B} (f : A -> list B) (h : A -> A) l, (forall x, f (h x) = f x) -> flat_map f (map h l) = flat_map f l.
Proof. intros A B f h l H. induction l as [|x l IH]; [reflexivity|]. cbn [map flat_map]. rewrite H, IH. reflexivity. Qed.
Lemma existsb_ext_map : forall {A} (f : A -> bool) (h : A -> A) l, (forall x, f (h x) = f x) -> existsb f (map h l) = existsb f l.
Proof. intros A f h l H. induction l as [|x l IH]; [reflexivity|]. cbn [map existsb]. rewrite H, IH. reflexivity. Qed.

Lemma tier_rules_drop : forall ec c t, tier_rules ec c (drop_staged t) = tier_rules ec c t.
Proof.
  intros ec c t. unfold tier_rules, end_of_tier, drop_staged. cbn [mt_groups mt_default].
  rewrite (existsb_ext_map has_nonstaged drop_staged_group) by apply has_nonstaged_drop.
  destruct (mt_groups t) as [|g gs]; [reflexivity|].
  change (map drop_staged_group (g :: gs)) with (drop_staged_group g :: map drop_staged_group gs).
  cbn [flat_map]. rewrite group_jumps_drop.
  rewrite (flat_map_ext_map (group_jumps ec c) drop_staged_group) by apply group_jumps_drop. reflexivity.
Qed.

Lemma endpoint_rules_drop : forall ec c tiers profiles,
  endpoint_rules ec c (map drop_staged tiers) profiles = endpoint_rules ec c tiers profiles.
Proof.
  intros ec c tiers profiles. unfold endpoint_rules, endpoint_tail.
  rewrite (flat_map_ext_map (tier_rules ec c) drop_staged) by apply tier_rules_drop.
  destruct tiers; reflexivity.
Qed.

Lemma nonstaged_flat_map : forall {A} (f : A -> list mpolicy) l, nonstaged (flat_map f l) = flat_map (fun x => nonstaged (f x)) l.
Proof. intros A f l. induction l as [|x l IH]; [reflexivity|]. cbn [flat_map]. rewrite nonstaged_app, IH. reflexivity. Qed.

Lemma all_policies_drop : forall tiers, nonstaged (all_policies (map drop_staged tiers)) = nonstaged (all_policies tiers).
Proof.
  intros tiers. unfold all_policies. rewrite !nonstaged_flat_map. induction tiers as [|t ts IH]; [reflexivity|].
  cbn [map flat_map]. rewrite IH. f_equal. unfold drop_staged. cbn [mt_groups]. rewrite !nonstaged_flat_map.
  induction (mt_groups t) as [|g gs IHg]; [reflexivity|]. cbn [map flat_map]. rewrite IHg.
  unfold drop_staged_group at 1. cbn [g_pols]. rewrite nonstaged_idem. reflexivity.
Qed.

Lemma group_chains_drop : forall c tiers, group_chains c (map drop_staged tiers) = group_chains c tiers.
Proof.
  intros c tiers. unfold group_chains, all_groups. induction tiers as [|t ts IH]; [reflexivity|].
  cbn [map flat_map]. rewrite !filter_app, !map_app, IH. f_equal.
  unfold drop_staged. cbn [mt_groups]. induction (mt_groups t) as [|g gs IHg]; [reflexivity|].
  cbn [map filter]. rewrite should_inline_drop. destruct (negb (should_inline g)); [|exact IHg].
  cbn [map]. rewrite IHg. f_equal. unfold drop_staged_group. cbn [g_name g_pols]. f_equal.
  unfold group_body. symmetry. apply group_rules_nonstaged.
Qed.

Theorem staged_inert_render : forall ec c v name tiers profiles,
  render_endpoint ec c v name (map drop_staged tiers) profiles = render_endpoint ec c v name tiers profiles.
Proof.
  intros. unfold render_endpoint, policy_chains. rewrite endpoint_rules_drop, all_policies_drop, group_chains_drop. reflexivity.
Qed.

(* and the reference agrees that they do not matter *)
Lemma to_tier_drop : forall s t p, tier_verdict s (to_tier (drop_staged t)) p = tier_verdict s (to_tier t) p.
Proof.
  intros s t p. rewrite !tier_verdict_eq. unfold drop_staged. cbn [mt_groups mt_default].
  rewrite (existsb_ext_map has_nonstaged drop_staged_group) by apply has_nonstaged_drop.
  assert (E : pv s (flat_map g_pols (map drop_staged_group (mt_groups t))) p = pv s (flat_map g_pols (mt_groups t)) p).
  { unfold pv. f_equal. f_equal. rewrite !nonstaged_flat_map. induction (mt_groups t) as [|g gs IH]; [reflexivity|].
    cbn [map flat_map]. rewrite IH. unfold drop_staged_group at 1. cbn [g_pols]. rewrite nonstaged_idem. reflexivity. }
  rewrite E. reflexivity.
Qed.

Theorem staged_inert_ref : forall s tiers profiles p,
  ref_verdict s (map drop_staged tiers) profiles p = ref_verdict s tiers profiles p.
Proof.
  intros s tiers profiles p. unfold ref_verdict. induction tiers as [|t ts IH]; [reflexivity|].
  cbn [map endpoint_verdict]. rewrite to_tier_drop, IH. reflexivity.
Qed.

(* ------------------------------------------------------------------ statements as Props.v quotes them *)
Lemma endpoint_verdict_in_table : forall c e cs v (Hm : marks_ok c = true) ec f tiers profiles p,
  ec_type ec = TNormal ->
  tiers_in_cs c e cs v tiers -> profiles_in_cs c e cs v ec profiles -> failsafe_ok e cs ec (S (S f)) ->
  other_unmarked e ->
  wfp v p -> entry_mark_ok c p = true ->
  ok_result ec c (expected ec c e tiers profiles p) p
    (run (S (S (S f))) cs e (endpoint_rules ec c tiers profiles) p) = true.
Proof.
  intros c e cs v Hm ec f tiers profiles p Ht Hti Hpi Hfs Ho Hw Hd.
  apply (whole_chain_exact c e cs v Hm ec Ho); [|assumption|assumption].
  intros q Hq Hdq. apply (endpoint_tail_exact c e cs v Hm ec); try assumption.
  unfold is_normal. rewrite Ht. reflexivity.
Qed.

(* the oracle accepts every run of the model, whatever the chain type *)
Theorem model_meets_spec : forall c e ec v name tiers profiles f p,
  marks_ok c = true ->
  NoDup (map fst (render_endpoint ec c v name tiers profiles)) ->
  (forall r, In r (all_rules tiers profiles) -> rule_ok c e r) ->
  (ec_type ec = TNormal -> profiles_in_domain ec profiles = true) ->
  other_unmarked e ->
  wf_packet p -> pk_ver p = v -> entry_mark_ok c p = true ->
  ok_result ec c (expected ec c e tiers profiles p) p
    (run_chain (3 + f) (render_endpoint ec c v name tiers profiles) e name p) = true.
Proof.
  intros c e ec v name tiers profiles f p Hm Hnd Hok Hpf Ho Hw Hv Hd.
  destruct (ec_type ec) eqn:Et.
  - apply endpoint_verdict_model; auto.
  - apply raw_verdict_model; auto.
  - apply raw_verdict_model; auto.
  - apply forward_verdict_model; auto.
Qed.

Lemma staged_inert : forall ec c v name tiers profiles,
  render_endpoint ec c v name (map drop_staged tiers) profiles = render_endpoint ec c v name tiers profiles
  /\ forall s p, ref_verdict s (map drop_staged tiers) profiles p = ref_verdict s tiers profiles p.
Proof. intros. split; [apply staged_inert_render|intros; apply staged_inert_ref]. Qed.

Lemma group_chain_ignores_staged : forall c pols, group_body c pols = group_body c (nonstaged pols).
Proof. intros. apply group_rules_nonstaged. Qed.

(* ------------------------------------------------------------------ the placement condition on RETURN rules is needed *)
(* "Return on verdict" only before the 6th enforced policy, while every 5th jump stays unconditional (the seeded
   change return-stride-once): with 11 enforced policies the 11th is evaluated after the 6th allowed. *)
Open Scope string_scope.
Definition once_ret (k : nat) : bool := (k =? 5)%nat.
Definition pols11 : list mpolicy :=
  [Build_mpolicy "p1" false []; Build_mpolicy "p2" false []; Build_mpolicy "p3" false []; Build_mpolicy "p4" false [];
   Build_mpolicy "p5" false []; Build_mpolicy "p6" false [any_rule Allow]; Build_mpolicy "p7" false [];
   Build_mpolicy "p8" false []; Build_mpolicy "p9" false []; Build_mpolicy "p10" false [];
   Build_mpolicy "p11" false [any_rule Deny]].
Definition cs11 : chains :=
  ("g", group_rules_gen once_ret stride_first cfg0' 0 pols11)
  :: map (fun q => (mp_name q, policy_body cfg0' V4 (mp_rules q))) pols11.
Theorem return_placement_necessary :
  ~ (forall k, stride_first k = true -> k = 0%nat \/ once_ret k = true)
  /\ pv (e_sets env_w) pols11 pkt_w = VAllow
  /\ st cfg0' false false (pk_mark pkt_w)
  /\ exists p', run_chain 3 cs11 env_w "g" pkt_w = RDone FDrop p'.
Proof.
  split. { intro H. destruct (H 10%nat eq_refl) as [E|E]; discriminate. }
  split; [vm_compute; reflexivity|]. split; [repeat split; vm_compute; reflexivity|].
  eexists. vm_compute. reflexivity.
Qed.
Close Scope string_scope.
