(* C09 — a policy group chain behaves as the inlined sequence of jumps. *)
From Coq Require Import List NArith Bool Arith Lia String.
From Verif.Common Require Import Packet PolicyRef Ipt.
From Verif.C08 Require Import Model Spec ProofsMark ProofsExact ProofsFilter Proofs ProofsChain.
From Verif.C09 Require Import Model Spec ProofsMarks ProofsPolicy ProofsGroup.
Import ListNotations.
Open Scope N_scope.

(* the jump the endpoint chain emits for a group that has its own chain, and what it emits when every enforced
   policy of the group is jumped to directly *)
Definition grouped_jumps (ec : ecfg) (c : cfg) (gname : string) : list irule :=
  mk [pass_clear c] (AJump gname) :: ret_rules ec c.
Definition inlined_jumps (ec : ecfg) (c : cfg) (pols : list mpolicy) : list irule :=
  flat_map (fun q => mk [pass_clear c] (AJump (mp_name q)) :: ret_rules ec c) (nonstaged pols).

(* a RETURN stride of any positive length n: RETURN rule before every n-th enforced policy but the first,
   unconditional jump for every n-th enforced policy *)
Definition any_stride_ret (n k : nat) : bool := negb (k =? 0)%nat && (k mod n =? 0)%nat.
Definition any_stride_first (n k : nat) : bool := (k mod n =? 0)%nat.

Section Equiv.
  Variable c : cfg.
  Variable e : env.
  Variable cs : chains.
  Variable v : ipver.
  Variable ec : ecfg.
  Hypothesis Hmarks : marks_ok c = true.

  Lemma unit_jumps_singletons : forall l,
    unit_jumps c ec (map (fun q => (mp_name q, [q])) l)
    = flat_map (fun q => mk [pass_clear c] (AJump (mp_name q)) :: ret_rules ec c) l.
  Proof.
    induction l as [|q l IH]; [reflexivity|]. unfold unit_jumps in *. cbn [map flat_map fst]. rewrite IH. reflexivity.
  Qed.

  Theorem group_equiv_inline : forall ret first f gname pols rs p,
    (forall k, first k = true -> k = 0%nat \/ ret k = true) ->
    pols_in_cs c e cs v pols ->
    lookup cs gname = Some (group_rules_gen ret first c 0 pols) ->
    wfp v p -> st c false false (pk_mark p) ->
    let call := run (S (S f)) cs e in
    let vd := policies_verdict (e_sets e) (enforced (map to_policy pols)) p in
    seq_result c vd p (go cs e call (grouped_jumps ec c gname ++ rs) p) (go cs e call rs)
    /\ seq_result c vd p (go cs e call (inlined_jumps ec c pols ++ rs) p) (go cs e call rs).
  Proof.
    intros ret first f gname pols rs p Hfirst Hin L Hw Hst call vd. subst call vd. rewrite enforced_map.
    fold (pv (e_sets e) pols p). split.
    - pose proof (units_run c e cs v Hmarks ec (S (S f)) [(gname, pols)] rs p) as X.
      unfold unit_jumps, units_pols in X. cbn [flat_map fst snd] in X. rewrite !app_nil_r in X.
      apply X; try assumption.
      intros u [<-|[]]. cbn [fst snd]. eexists. split; [exact L|]. apply group_unit_gen; assumption.
    - pose proof (units_run c e cs v Hmarks ec (S (S f)) (map (fun q => (mp_name q, [q])) (nonstaged pols)) rs p) as X.
      assert (E1 : unit_jumps c ec (map (fun q => (mp_name q, [q])) (nonstaged pols)) = inlined_jumps ec c pols).
      { unfold inlined_jumps. apply unit_jumps_singletons. }
      assert (E2 : pv (e_sets e) (units_pols (map (fun q => (mp_name q, [q])) (nonstaged pols))) p = pv (e_sets e) pols p).
      { unfold pv at 1. unfold units_pols. rewrite nonstaged_singletons; [reflexivity|].
        intros q Hq. apply (nonstaged_In q _ Hq). }
      rewrite E1, E2 in X. apply X; try assumption.
      intros u Hu. apply in_map_iff in Hu. destruct Hu as (q & <- & Hq). apply nonstaged_In in Hq. destruct Hq as [Hq Hs].
      destruct (Hin q Hq Hs) as [Lq Hok]. cbn [fst snd]. eexists. split; [exact Lq|]. apply inline_unit; assumption.
  Qed.

  Lemma any_stride_ok : forall n k, any_stride_first n k = true -> k = 0%nat \/ any_stride_ret n k = true.
  Proof.
    intros n k H. unfold any_stride_ret. unfold any_stride_first in H. rewrite H.
    destruct (k =? 0)%nat eqn:E; [left; apply Nat.eqb_eq; exact E|right; reflexivity].
  Qed.
End Equiv.

Lemma stride_placement_ok :
  (forall k, stride_first k = true -> k = 0%nat \/ stride_ret k = true)
  /\ (forall n k, any_stride_first n k = true -> k = 0%nat \/ any_stride_ret n k = true)
  /\ (forall c pols, group_body c pols = group_rules_gen stride_ret stride_first c 0 pols)
  /\ (forall c pols, group_body c pols = group_rules_gen (any_stride_ret 5) (any_stride_first 5) c 0 pols).
Proof.
  split; [exact stride_first_ok|]. split; [exact any_stride_ok|]. split; reflexivity.
Qed.
