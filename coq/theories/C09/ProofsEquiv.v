(* C09 — a policy group chain behaves as the inlined sequence of jumps. *)
From Coq Require Import List NArith Bool Arith Lia String.
From Verif.Common Require Import Packet PolicyRef Ipt.
From Verif.C08 Require Import Model Spec ProofsMark ProofsExact ProofsFilter Proofs ProofsChain.
From Verif.C09 Require Import Model Spec ProofsMarks ProofsPolicy ProofsGroup.
Import ListNotations.
Open Scope N_scope.

(* the jump the endpoint chain emits for a group that has its own chain, and what it emits when every enforced
   policy of the group is jumped to directly *)
Definition grouped_jumps (ec : ecfg) (c : cfg) (gname : string) : list irule :=
  mk [pass_clear c] (AJump gname) :: ret_rules ec c.
Definition inlined_jumps (ec : ecfg) (c : cfg) (pols : list mpolicy) : list irule :=
  flat_map (fun q => mk [pass_clear c] (AJump (mp_name q)) :: ret_rules ec c) (nonstaged pols).

(* a RETURN stride of any positive length n: RETURN rule before every n-th enforced policy but the first,
   unconditional jump for every n-th enforced policy *)
Definition any_stride_ret (n k : nat) : bool := negb (k =? 0)%nat && (k mod n =? 0)%nat.
Definition any_stride_first (n k : nat) : bool := (k mod n =? 0)%nat.

Section Equiv.
  Variable c : cfg.
  Variable e : env.
  Variable cs : chains.
  Variable v : ipver.
  Variable ec : ecfg.
  Hypothesis Hmarks : marks_ok c = true.

  Lemma unit_jumps_singletons : forall l,
    unit_jumps c ec (map (fun q => (mp_name q, [q])) l)
    = flat_map (fun q => mk [pass_clear c] (AJump (mp_name q)) :: ret_rules ec c) l.
  Proof.
    induction l as [|q l IH]; [reflexivity|]. unfold unit_jumps in *. cbn [map flat_map fst]. rewrite IH. reflexivity.
  Qed.

  Theorem group_equiv_inline : forall ret first f gname pols rs p,
    (forall k, first k = true -> k = 0%nat \/ ret k = true) ->
    pols_in_cs c e cs v pols ->
    lookup cs gname = Some (group_rules_gen ret first c 0 pols) ->
    wfp v p -> st c false false (pk_mark p) ->
    let call := run (S (S f)) cs e in
    let vd := policies_verdict (e_sets e) (enforced (map to_policy pols)) p in
    seq_result c vd p (go cs e call (grouped_jumps ec c gname ++ rs) p) (go cs e call rs)
    /\ seq_result c vd p (go cs e call (inlined_jumps ec c pols ++ rs) p) (go cs e call rs).
  Proof.
    intros ret first f gname pols rs p Hfirst Hin L Hw Hst call vd. subst call vd. rewrite enforced_map.
    fold (pv (e_sets e) pols p). split.
    - pose proof (units_run c e cs v Hmarks ec (S (S f)) [(gname, pols)] rs p) as X.
      unfold unit_jumps, units_pols in X. cbn [flat_map fst snd] in X. rewrite !app_nil_r in X.
      apply X; try assumption.
      intros u [<-|[]]. cbn [fst snd]. eexists. split; [exact L|]. apply group_unit_gen; assumption.
    - pose proof (units_run c e cs v Hmarks ec (S (S f)) (map (fun q => (mp_name q, [q])) (nonstaged pols)) rs p) as X.
      assert (E1 : unit_jumps c ec (map (fun q => (mp_name q, [q])) (nonstaged pols)) = inlined_jumps ec c pols).
      { unfold inlined_jumps. apply unit_jumps_singletons. }
      assert (E2 : pv (e_sets e) (units_pols (map (fun q => (mp_name q, [q])) (nonstaged pols))) p = pv (e_sets e) pols p).
      { unfold pv at 1. unfold units_pols. rewrite nonstaged_singletons; [reflexivity|].
        intros q Hq. apply (nonstaged_In q _ Hq). }
      rewrite E1, E2 in X. apply X; try assumption.
      intros u Hu. apply in_map_iff in Hu. destruct Hu as (q & <- & Hq). apply nonstaged_In in Hq. destruct Hq as [Hq Hs].
      destruct (Hin q Hq Hs) as [Lq Hok]. cbn [fst snd]. eexists. split; [exact Lq|]. apply inline_unit; assumption.
  Qed.

  Lemma any_stride_ok : forall n k, any_stride_first n k = true -> k = 0%nat \/ any_stride_ret n k = true.
  Proof.
    intros n k H. unfold any_stride_ret. unfold any_stride_first in H. rewrite H.
    destruct (k =? 0)%nat eqn:E; [left; apply Nat.eqb_eq; exact E|right; reflexivity].
  Qed.
End Equiv.

Lemma stride_placement_ok :
  (forall k, stride_first k = true -> k = 0%nat \/ stride_ret k = true)
  /\ (forall n k, any_stride_first n k = true -> k = 0%nat \/ any_stride_ret n k = true)
  /\ (forall c pols, group_body c pols = group_rules_gen stride_ret stride_first c 0 pols)
  /\ (forall c pols, group_body c pols = group_rules_gen (any_stride_ret 5) (any_stride_first 5) c 0 pols).
Proof.
  split; [exact stride_first_ok|]. split; [exact any_stride_ok|]. split; reflexivity.
Qed.

(* ------------------------------------------------------------------ ... and not only up to the verdict: the
   endpoint chain computes the very same result (same final packet, same marks) either way *)
Section Exact.
  Variable c : cfg.
  Variable e : env.
  Variable cs : chains.
  Variable v : ipver.
  Variable ec : ecfg.
  Hypothesis Hmarks : marks_ok c = true.
  Let F := marks_facts c Hmarks.
  Variables ret first : nat -> bool.
  Hypothesis Hfirst : forall k, first k = true -> k = 0%nat \/ ret k = true.
  Variable f : nat.
  Variable rs : list irule.

  (* what the endpoint chain does with the result of the group chain *)
  Definition after_group (res : result) : result :=
    match res with
    | RFall p' | RReturn p' => go cs e (run (S (S f)) cs e) (ret_rules ec c ++ rs) p'
    | o => o
    end.

  Lemma after_group_collapse : forall r1 r2, collapse r1 = collapse r2 -> after_group r1 = after_group r2.
  Proof. intros r1 r2 H. destruct r1, r2; cbn in H; try discriminate; inversion H; reflexivity. Qed.

  Lemma inlined_skip : forall l p, st c false true (pk_mark p) ->
    go cs e (run (S (S f)) cs e) (flat_map (fun q => mk [pass_clear c] (AJump (mp_name q)) :: ret_rules ec c) l ++ rs) p
    = go cs e (run (S (S f)) cs e) rs p.
  Proof.
    intros l p Hst. rewrite <- unit_jumps_singletons. apply units_skip; assumption.
  Qed.

  Lemma policy_run_fuel : forall q p, run (S f) cs e (policy_body c v (mp_rules q)) p = run (S (S f)) cs e (policy_body c v (mp_rules q)) p.
  Proof. intros. rewrite !run_jump_free by apply policy_body_jump_free. reflexivity. Qed.

  Lemma group_inline_exact_gen : forall pols k p,
    pols_in_cs c e cs v pols -> wfp v p -> st c false false (pk_mark p) ->
    after_group (go cs e (run (S f) cs e) (group_rules_gen ret first c k pols) p)
    = go cs e (run (S (S f)) cs e) (inlined_jumps ec c pols ++ rs) p.
  Proof.
    induction pols as [|q pols IH]; intros k p Hin Hw Hst.
    - cbn [group_rules_gen go after_group]. unfold inlined_jumps. cbn [nonstaged filter flat_map app].
      apply (ret_rules_skip c e cs Hmarks ec _ _ _ false Hst).
    - assert (Hin' : pols_in_cs c e cs v pols) by (intros q' Hq'; apply Hin; right; exact Hq').
      cbn [group_rules_gen]. unfold inlined_jumps, nonstaged. cbn [filter]. fold (nonstaged pols).
      destruct (mp_staged q) eqn:Es; cbn [negb]; [apply IH; assumption|].
      cbn [flat_map]. fold (inlined_jumps ec c pols).
      destruct (Hin q (or_introl eq_refl) Es) as [L Hok].
      (* left: skip a return rule, take the jump *)
      assert (Step : go cs e (run (S f) cs e)
                 ((if ret k then [mk [MMark true 0 (verdict_bits c)] AReturn] else [])
                  ++ mk (if first k then [] else [MMark false 0 (verdict_bits c)]) (AJump (mp_name q))
                     :: group_rules_gen ret first c (S k) pols) p
               = match run (S f) cs e (policy_body c v (mp_rules q)) p with
                 | RFall p' | RReturn p' => go cs e (run (S f) cs e) (group_rules_gen ret first c (S k) pols) p'
                 | o => o end).
      { assert (Hm : matches e p (if first k then [] else [MMark false 0 (verdict_bits c)]) = true).
        { destruct (first k); [reflexivity|]. rewrite (m_verdict_clear c F e p false false Hst). reflexivity. }
        destruct (ret k); cbn [app].
        - rewrite go_skip by (cbn [ir_match mk]; rewrite (m_verdict_set c F e p false false Hst); reflexivity).
          apply go_jump; assumption.
        - apply go_jump; assumption. }
      rewrite Step. clear Step.
      (* right: take the jump *)
      rewrite <- app_assoc. cbn [app].
      rewrite (go_jump e cs _ _ _ _ _ _ (m_pass_clear c F e p false false Hst) L).
      rewrite <- policy_run_fuel.
      pose proof (policy_unit c e cs v Hmarks f q Es Hok p Hw Hst) as X.
      destruct (policy_verdict (e_sets e) (mp_rules q) p); cbn [body_result] in X.
      + destruct X as (p' & X1 & X2 & X3).
        assert (E : forall K1 K2 : packet -> result, K1 p' = K2 p' ->
                  match run (S f) cs e (policy_body c v (mp_rules q)) p with RFall x | RReturn x => K1 x | o => o end
                  = match run (S f) cs e (policy_body c v (mp_rules q)) p with RFall x | RReturn x => K2 x | o => o end).
        { intros K1 K2 HK. destruct (run (S f) cs e (policy_body c v (mp_rules q)) p); cbn in X1; try discriminate; inversion X1; subst; exact HK. }
        rewrite (after_group_collapse _ (RFall p')).
        * cbn [after_group].
          transitivity (go cs e (run (S (S f)) cs e) (ret_rules ec c ++ inlined_jumps ec c pols ++ rs) p').
          -- rewrite (ret_rules_fire c e cs Hmarks ec _ _ _ false X3), (ret_rules_fire c e cs Hmarks ec _ _ _ false X3). reflexivity.
          -- destruct (run (S f) cs e (policy_body c v (mp_rules q)) p); cbn in X1; try discriminate; inversion X1; subst; reflexivity.
        * destruct (run (S f) cs e (policy_body c v (mp_rules q)) p); cbn in X1; try discriminate; inversion X1; subst;
            apply (group_skip c e cs Hmarks ret first Hfirst f pols (S k) _ true false); try reflexivity; try discriminate; exact X3.
      + destruct X as (p' & X1 & X2). rewrite X1. reflexivity.
      + destruct X as (p' & X1 & X2 & X3).
        rewrite (after_group_collapse _ (RFall p')).
        * cbn [after_group]. rewrite (ret_rules_skip c e cs Hmarks ec _ _ _ true X3).
          transitivity (go cs e (run (S (S f)) cs e) (ret_rules ec c ++ inlined_jumps ec c pols ++ rs) p').
          -- rewrite (ret_rules_skip c e cs Hmarks ec _ _ _ true X3). unfold inlined_jumps. symmetry. apply inlined_skip. exact X3.
          -- destruct (run (S f) cs e (policy_body c v (mp_rules q)) p); cbn in X1; try discriminate; inversion X1; subst; reflexivity.
        * destruct (run (S f) cs e (policy_body c v (mp_rules q)) p); cbn in X1; try discriminate; inversion X1; subst;
            apply (group_skip c e cs Hmarks ret first Hfirst f pols (S k) _ false true); try reflexivity; try discriminate; exact X3.
      + destruct X as (p' & X1 & X2 & X3).
        pose proof (IH (S k) p' Hin' (wfp_unmark v _ _ X2 Hw) X3) as Y.
        destruct (run (S f) cs e (policy_body c v (mp_rules q)) p); cbn in X1; try discriminate; inversion X1; subst;
          rewrite Y, (ret_rules_skip c e cs Hmarks ec _ _ _ false X3); reflexivity.
  Qed.

  (* the jump to the group chain, followed by "return if accepted", IS the inlined sequence *)
  Theorem group_inline_exact : forall gname pols p,
    pols_in_cs c e cs v pols ->
    lookup cs gname = Some (group_rules_gen ret first c 0 pols) ->
    wfp v p -> st c false false (pk_mark p) ->
    go cs e (run (S (S f)) cs e) (grouped_jumps ec c gname ++ rs) p
    = go cs e (run (S (S f)) cs e) (inlined_jumps ec c pols ++ rs) p.
  Proof.
    intros gname pols p Hin L Hw Hst. unfold grouped_jumps. cbn [app].
    rewrite (go_jump e cs _ _ _ _ _ _ (m_pass_clear c F e p false false Hst) L).
    rewrite <- (group_inline_exact_gen pols 0 p Hin Hw Hst). unfold after_group.
    change (run (S (S f)) cs e (group_rules_gen ret first c 0 pols) p) with (go cs e (run (S f) cs e) (group_rules_gen ret first c 0 pols) p).
    destruct (go cs e (run (S f) cs e) (group_rules_gen ret first c 0 pols) p); reflexivity.
  Qed.
End Exact.
