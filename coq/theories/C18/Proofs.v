(* C18 — lemmas and proofs about the model. *)
From Coq Require Import List NArith ZArith Bool Lia.
From Verif.C18 Require Import Model Spec.
Import ListNotations.
Open Scope N_scope.

Lemma placeholder_initial (V : Type) : des_get V (st0 V) 0 = None.
Proof. reflexivity. Qed.
