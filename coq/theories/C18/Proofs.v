(* C18 — invariant of the three internal maps, its preservation by every operation, and the
   refinement of the model to the two abstract maps of Spec.v. *)
From Coq Require Import List NArith ZArith Bool Lia Permutation.
From Verif.C18 Require Import Model Spec MapLemmas.
Import ListNotations.
Open Scope N_scope.

Section P.
  Variable V : Type.
  Variable veq : V -> V -> bool.
  Hypothesis veq_refl : forall a, veq a a = true.
  Hypothesis veq_sym : forall a b, veq a b = veq b a.
  Hypothesis veq_trans : forall a b c, veq a b = true -> veq b c = true -> veq a c = true.

  Notation st := (st V).
  Notation des_get := (des_get V).
  Notation dp_get := (dp_get V).
  Notation des_iter := (des_iter V).

  (* per-key invariant of (inDataplaneAndDesired[k], inDataplaneNotDesired[k], desiredUpdates[k]) *)
  Definition KInv (a n u : option V) : Prop :=
    (a <> None -> n = None) /\ (u <> None -> n = None) /\
    (forall x y, a = Some x -> u = Some y -> veq x y = false).

  Record Inv (s : st) : Prop := {
    inv_ad : NoDup (keys (AD s));
    inv_nd : NoDup (keys (ND s));
    inv_du : NoDup (keys (DU s));
    inv_k : forall k, KInv (get (AD s) k) (get (ND s) k) (get (DU s) k);
    inv_len : dlen s = Z.of_nat (length (des_iter s)) }.

  Lemma get_des_iter s k : get (des_iter s) k = des_get s k.
  Proof.
    unfold Model.des_iter, Model.des_get. rewrite get_app.
    destruct (get (DU s) k) eqn:E; [reflexivity|].
    rewrite (get_filter_keys (fun k => negb (mem k (DU s)))). rewrite mem_get, E. reflexivity.
  Qed.

  Lemma NoDup_des_iter s : NoDup (keys (AD s)) -> NoDup (keys (DU s)) -> NoDup (keys (des_iter s)).
  Proof.
    intros Ha Hu. unfold Model.des_iter. apply NoDup_keys_app; auto.
    - apply NoDup_keys_filter, Ha.
    - intros k Hk. rewrite (get_filter_keys (fun k => negb (mem k (DU s)))), mem_get.
      destruct (get (DU s) k); [reflexivity|congruence].
  Qed.

  (* desiredLen bookkeeping, from how the Desired view's key set changes *)
  Lemma dlen_same s s' : NoDup (keys (AD s)) -> NoDup (keys (DU s)) -> NoDup (keys (AD s')) -> NoDup (keys (DU s')) ->
    (forall k, des_get s' k <> None <-> des_get s k <> None) ->
    length (des_iter s') = length (des_iter s).
  Proof.
    intros. apply card_same; auto using NoDup_des_iter. intros k. rewrite !get_des_iter. auto.
  Qed.
  Lemma dlen_insert k s s' : NoDup (keys (AD s)) -> NoDup (keys (DU s)) -> NoDup (keys (AD s')) -> NoDup (keys (DU s')) ->
    (forall k', k' <> k -> (des_get s' k' <> None <-> des_get s k' <> None)) -> des_get s' k <> None ->
    length (des_iter s') = match des_get s k with Some _ => length (des_iter s) | None => S (length (des_iter s)) end.
  Proof.
    intros. rewrite (card_insert k (des_iter s) (des_iter s')); auto using NoDup_des_iter.
    - rewrite mem_get, get_des_iter. destruct (des_get s k); reflexivity.
    - intros k' Hn. rewrite !get_des_iter. auto.
    - rewrite get_des_iter. auto.
  Qed.
  Lemma dlen_remove k s s' : NoDup (keys (AD s)) -> NoDup (keys (DU s)) -> NoDup (keys (AD s')) -> NoDup (keys (DU s')) ->
    (forall k', k' <> k -> (des_get s' k' <> None <-> des_get s k' <> None)) -> des_get s' k = None ->
    length (des_iter s) = match des_get s k with Some _ => S (length (des_iter s')) | None => length (des_iter s') end.
  Proof.
    intros. rewrite (card_remove k (des_iter s) (des_iter s')); auto using NoDup_des_iter.
    - rewrite mem_get, get_des_iter. destruct (des_get s k); reflexivity.
    - intros k' Hn. rewrite !get_des_iter. auto.
    - rewrite get_des_iter. auto.
  Qed.

  Ltac gs := rewrite ?get_set, ?get_del in *.
  Ltac nd := cbn [AD ND DU dlen]; auto using NoDup_set, NoDup_del.

  (* the new lookups after a single-key operation *)
  Ltac keycase k k' := destruct (N.eqb_spec k k') as [<-|?].

  Lemma Inv_st0 : Inv (st0 V).
  Proof.
    constructor; cbn [st0 AD ND DU dlen keys map]; try apply NoDup_nil.
    - intros k. cbn. repeat split; congruence.
    - reflexivity.
  Qed.

  (* ---------------- Desired().Set ---------------- *)
  Lemma des_set_get k v s k' : Inv s ->
    des_get (des_set V veq k v s) k' =
      if N.eqb k k' then (match dp_get s k with
                          | Some cur => if veq cur v then Some cur else Some v
                          | None => Some v end)
      else des_get s k'.
  Proof.
    intros I. destruct (inv_k s I k) as (K1 & K2 & K3).
    unfold Model.des_set, Model.des_get, Model.dp_get.
    destruct (get (ND s) k) as [cur|] eqn:En.
    - assert (get (AD s) k = None) as Ea by (destruct (get (AD s) k); [discriminate K1; congruence|reflexivity]).
      rewrite Ea. destruct (veq cur v); cbn [AD ND DU]; gs; keycase k k'; try reflexivity; rewrite ?Ea; reflexivity.
    - destruct (get (AD s) k) as [cur|] eqn:Ea.
      + destruct (veq cur v); cbn [AD ND DU]; gs; keycase k k'; try reflexivity; rewrite ?Ea; reflexivity.
      + cbn [AD ND DU]; gs; keycase k k'; reflexivity.
  Qed.

  Lemma des_set_dp k v s k' : Inv s -> dp_get (des_set V veq k v s) k' = dp_get s k'.
  Proof.
    intros I. destruct (inv_k s I k) as (K1 & K2 & K3).
    unfold Model.des_set, Model.dp_get.
    destruct (get (ND s) k) as [cur|] eqn:En.
    - assert (get (AD s) k = None) as Ea by (destruct (get (AD s) k); [discriminate K1; congruence|reflexivity]).
      destruct (veq cur v); cbn [AD ND DU]; gs; keycase k k'; try reflexivity; rewrite Ea, En; reflexivity.
    - destruct (get (AD s) k) as [cur|] eqn:Ea; [destruct (veq cur v)|]; reflexivity.
  Qed.

  (* brute-force tactic for the per-key invariant after a single-key operation on key k *)
  Ltac kinv I k k' :=
    let K := fresh "K" in let K' := fresh "K'" in
    pose proof (inv_k _ I k) as K; pose proof (inv_k _ I k') as K';
    unfold KInv in *; cbn [AD ND DU]; gs; keycase k k';
    repeat match goal with H : get _ _ = _ |- _ => rewrite H in * end;
    repeat split; intros; try congruence; try discriminate;
    try (destruct K as (?&?&?); destruct K' as (?&?&?); eauto; fail).

  Lemma des_set_inv k v s : Inv s -> Inv (des_set V veq k v s).
  Proof.
    intros I.
    assert (NA : NoDup (keys (AD (des_set V veq k v s))) /\ NoDup (keys (ND (des_set V veq k v s))) /\ NoDup (keys (DU (des_set V veq k v s)))).
    { destruct I. unfold Model.des_set. destruct (get (ND s) k); [destruct (veq v0 v)|destruct (get (AD s) k); [destruct (veq v0 v)|]]; nd. }
    destruct NA as (N1 & N2 & N3).
    constructor; auto.
    - intros k'. destruct (inv_k s I k) as (K1 & K2 & K3). destruct (inv_k s I k') as (K1' & K2' & K3').
      unfold Model.des_set.
      destruct (get (ND s) k) as [cur|] eqn:En.
      + assert (get (AD s) k = None) as Ea by (destruct (get (AD s) k); [discriminate K1; congruence|reflexivity]).
        destruct (veq cur v) eqn:Ev; cbn [AD ND DU]; unfold KInv; gs; keycase k k'; repeat split; intros; try congruence; auto.
      + destruct (get (AD s) k) as [cur|] eqn:Ea.
        * destruct (veq cur v) eqn:Ev; cbn [AD ND DU]; unfold KInv; gs; keycase k k'; repeat split; intros; try congruence; auto.
        * cbn [AD ND DU]; unfold KInv; gs; keycase k k'; repeat split; intros; try congruence; auto.
    - assert (L := dlen_insert k s (des_set V veq k v s) (inv_ad s I) (inv_du s I) N1 N3).
      rewrite L.
      + destruct (inv_k s I k) as (K1 & K2 & K3). pose proof (inv_len s I) as IL.
        unfold Model.des_set, Model.des_get.
        destruct (get (ND s) k) as [cur|] eqn:En.
        * assert (get (AD s) k = None) as Ea by (destruct (get (AD s) k); [discriminate K1; congruence|reflexivity]).
          assert (get (DU s) k = None) as Eu by (destruct (get (DU s) k); [discriminate K2; congruence|reflexivity]).
          rewrite Ea, Eu. destruct (veq cur v); cbn [dlen]; lia.
        * destruct (get (AD s) k) as [cur|] eqn:Ea.
          -- destruct (veq cur v); cbn [dlen]; destruct (get (DU s) k); lia.
          -- cbn [dlen]. rewrite mem_get. destruct (get (DU s) k); lia.
      + intros k'' Hn. rewrite des_set_get by assumption. destruct (N.eqb_spec k k''); [congruence|tauto].
      + rewrite des_set_get by assumption. rewrite N.eqb_refl. destruct (dp_get s k); [destruct (veq v0 v)|]; congruence.
  Qed.

  Ltac none_of H := match type of H with _ -> ?x = None => destruct x eqn:?; [discriminate H; congruence|] end.
  Ltac kgoal k k' := cbn [AD ND DU]; unfold KInv; gs; keycase k k'; repeat split; intros; try congruence; auto.

  (* ---------------- Desired().Delete ---------------- *)
  Lemma des_delete_get k s k' : des_get (des_delete V k s) k' = if N.eqb k k' then None else des_get s k'.
  Proof.
    unfold Model.des_delete, Model.des_get.
    destruct (get (AD s) k) eqn:Ea; cbn [AD ND DU]; gs; keycase k k'; try reflexivity. rewrite Ea. reflexivity.
  Qed.
  Lemma des_delete_dp k s k' : Inv s -> dp_get (des_delete V k s) k' = dp_get s k'.
  Proof.
    intros I. unfold Model.des_delete, Model.dp_get.
    destruct (get (AD s) k) eqn:Ea; cbn [AD ND DU]; gs; keycase k k'; try reflexivity. rewrite Ea. reflexivity.
  Qed.
  Lemma des_delete_inv k s : Inv s -> Inv (des_delete V k s).
  Proof.
    intros I.
    assert (NA : NoDup (keys (AD (des_delete V k s))) /\ NoDup (keys (ND (des_delete V k s))) /\ NoDup (keys (DU (des_delete V k s)))).
    { destruct I. unfold Model.des_delete. destruct (get (AD s) k); nd. }
    destruct NA as (N1 & N2 & N3).
    constructor; auto.
    - intros k'. destruct (inv_k s I k) as (K1 & K2 & K3). destruct (inv_k s I k') as (K1' & K2' & K3').
      unfold Model.des_delete. destruct (get (AD s) k) as [cur|] eqn:Ea; kgoal k k'.
    - assert (L := dlen_remove k s (des_delete V k s) (inv_ad s I) (inv_du s I) N1 N3).
      pose proof (inv_len s I) as IL. rewrite L in IL.
      + revert IL. unfold Model.des_delete, Model.des_get. rewrite mem_get.
        destruct (get (AD s) k) as [cur|] eqn:Ea; cbn [dlen AD ND DU]; destruct (get (DU s) k); lia.
      + intros k'' Hn. rewrite des_delete_get. destruct (N.eqb_spec k k''); [congruence|tauto].
      + rewrite des_delete_get, N.eqb_refl. reflexivity.
  Qed.

  (* ---------------- Dataplane().Set ---------------- *)
  Lemma dp_set_get k v s k' :
    des_get (dp_set V veq k v s) k' =
      if N.eqb k k' then (match des_get s k with
                          | Some dv => if veq dv v then Some v else Some dv
                          | None => None end)
      else des_get s k'.
  Proof.
    unfold Model.dp_set. destruct (des_get s k) as [dv|] eqn:Ed.
    - unfold Model.des_get in *. destruct (veq dv v); cbn [AD ND DU]; gs; keycase k k'; reflexivity.
    - unfold Model.des_get in *. cbn [AD ND DU]. keycase k k'; [assumption|reflexivity].
  Qed.
  Lemma dp_set_dp k v s k' : Inv s -> dp_get (dp_set V veq k v s) k' = if N.eqb k k' then Some v else dp_get s k'.
  Proof.
    intros I. unfold Model.dp_set. destruct (des_get s k) as [dv|] eqn:Ed.
    - unfold Model.dp_get. destruct (veq dv v); cbn [AD ND DU]; gs; keycase k k'; reflexivity.
    - unfold Model.dp_get, Model.des_get in *. cbn [AD ND DU]. gs.
      destruct (get (DU s) k); [discriminate|]. keycase k k'; [rewrite Ed|]; reflexivity.
  Qed.
  Lemma dp_set_inv k v s : Inv s -> Inv (dp_set V veq k v s).
  Proof.
    intros I.
    assert (NA : NoDup (keys (AD (dp_set V veq k v s))) /\ NoDup (keys (ND (dp_set V veq k v s))) /\ NoDup (keys (DU (dp_set V veq k v s)))).
    { destruct I. unfold Model.dp_set. destruct (des_get s k); [destruct (veq v0 v)|]; nd. }
    destruct NA as (N1 & N2 & N3).
    constructor; auto.
    - intros k'. destruct (inv_k s I k) as (K1 & K2 & K3). destruct (inv_k s I k') as (K1' & K2' & K3').
      unfold Model.dp_set. destruct (des_get s k) as [dv|] eqn:Ed.
      + assert (get (ND s) k = None) as En.
        { unfold Model.des_get in Ed. destruct (get (DU s) k); [apply K2; congruence|apply K1; congruence]. }
        destruct (veq dv v) eqn:Ev; kgoal k k'; try (rewrite veq_sym; congruence).
      + unfold Model.des_get in Ed. destruct (get (DU s) k) eqn:Eu; [discriminate|]. kgoal k k'.
    - rewrite (dlen_same s (dp_set V veq k v s)); auto using inv_ad, inv_du.
      + rewrite <- (inv_len s I). unfold Model.dp_set. destruct (des_get s k); [destruct (veq v0 v)|]; reflexivity.
      + intros k'. rewrite dp_set_get. keycase k k'; [|tauto].
        destruct (des_get s k); [destruct (veq v0 v)|]; split; congruence.
  Qed.

  (* ---------------- Dataplane().Delete ---------------- *)
  Lemma dp_delete_get k s k' : des_get (dp_delete V k s) k' = des_get s k'.
  Proof.
    unfold Model.dp_delete. destruct (des_get s k) as [dv|] eqn:Ed; unfold Model.des_get in *; cbn [AD ND DU]; gs;
      keycase k k'; try reflexivity.
    - destruct (get (DU s) k); congruence.
    - destruct (get (DU s) k); [discriminate|]. congruence.
  Qed.
  Lemma dp_delete_dp k s k' : dp_get (dp_delete V k s) k' = if N.eqb k k' then None else dp_get s k'.
  Proof.
    unfold Model.dp_delete, Model.dp_get. destruct (des_get s k); cbn [AD ND DU]; gs; keycase k k'; reflexivity.
  Qed.
  Lemma dp_delete_inv k s : Inv s -> Inv (dp_delete V k s).
  Proof.
    intros I.
    assert (NA : NoDup (keys (AD (dp_delete V k s))) /\ NoDup (keys (ND (dp_delete V k s))) /\ NoDup (keys (DU (dp_delete V k s)))).
    { destruct I. unfold Model.dp_delete. destruct (des_get s k); nd. }
    destruct NA as (N1 & N2 & N3).
    constructor; auto.
    - intros k'. destruct (inv_k s I k) as (K1 & K2 & K3). destruct (inv_k s I k') as (K1' & K2' & K3').
      unfold Model.dp_delete. destruct (des_get s k) as [dv|] eqn:Ed; kgoal k k'.
    - rewrite (dlen_same s (dp_delete V k s)); auto using inv_ad, inv_du.
      + rewrite <- (inv_len s I). unfold Model.dp_delete. destruct (des_get s k); reflexivity.
      + intros k'. rewrite dp_delete_get. tauto.
  Qed.

  (* ---------------- one turn of PendingUpdates().Iter / PendingDeletions().Iter ---------------- *)
  Lemma pu_visit_get ka s k' : des_get (pu_visit V s ka) k' = des_get s k'.
  Proof.
    destruct ka as [k a]. unfold Model.pu_visit. destruct (get (DU s) k) as [v|] eqn:Eu; [|reflexivity].
    destruct a; try reflexivity. unfold Model.des_get. cbn [AD ND DU]. gs. keycase k k'; [|reflexivity].
    rewrite Eu. reflexivity.
  Qed.
  Lemma pu_visit_dp ka s k' : dp_get (pu_visit V s ka) k' =
    match snd ka, get (DU s) (fst ka) with
    | AUpd, Some v => if N.eqb (fst ka) k' then Some v else dp_get s k'
    | _, _ => dp_get s k'
    end.
  Proof.
    destruct ka as [k a]. cbn [fst snd]. unfold Model.pu_visit. destruct (get (DU s) k) as [v|] eqn:Eu; [|destruct a; reflexivity].
    destruct a; try reflexivity. unfold Model.dp_get. cbn [AD ND DU]. gs. keycase k k'; reflexivity.
  Qed.
  Lemma pu_visit_inv ka s : Inv s -> Inv (pu_visit V s ka).
  Proof.
    intros I. destruct ka as [k a]. unfold Model.pu_visit. destruct (get (DU s) k) as [v|] eqn:Eu; [|assumption].
    destruct a; try assumption.
    constructor; cbn [AD ND DU dlen]; auto using NoDup_set, NoDup_del, inv_ad, inv_nd, inv_du.
    - intros k'. destruct (inv_k s I k) as (K1 & K2 & K3). destruct (inv_k s I k') as (K1' & K2' & K3').
      kgoal k k'. apply K2. congruence.
    - rewrite (inv_len s I). f_equal. symmetry.
      apply (dlen_same s (mk (set k v (AD s)) (ND s) (del k (DU s)) (dlen s))); cbn [AD ND DU]; auto using NoDup_set, NoDup_del, inv_ad, inv_nd, inv_du.
      intros k'. unfold Model.des_get. cbn [AD ND DU]. gs. keycase k k'; [|tauto].
      cbn [AD]. rewrite Eu. split; congruence.
  Qed.

  Lemma pd_visit_get ka s k' : des_get (pd_visit V s ka) k' = des_get s k'.
  Proof.
    destruct ka as [k a]. unfold Model.pd_visit. destruct (get (ND s) k); [|reflexivity]. destruct a; reflexivity.
  Qed.
  Lemma pd_visit_dp ka s k' : Inv s -> dp_get (pd_visit V s ka) k' =
    match snd ka, get (ND s) (fst ka) with
    | AUpd, Some _ => if N.eqb (fst ka) k' then None else dp_get s k'
    | _, _ => dp_get s k'
    end.
  Proof.
    intros I. destruct ka as [k a]. cbn [fst snd]. unfold Model.pd_visit. destruct (get (ND s) k) as [v|] eqn:En; [|destruct a; reflexivity].
    destruct a; try reflexivity. unfold Model.dp_get. cbn [AD ND DU]. gs. keycase k k'; [|reflexivity].
    destruct (inv_k s I k) as (K1 & K2 & K3). destruct (get (AD s) k); [|reflexivity]. rewrite K1 in En; congruence.
  Qed.
  Lemma pd_visit_inv ka s : Inv s -> Inv (pd_visit V s ka).
  Proof.
    intros I. destruct ka as [k a]. unfold Model.pd_visit. destruct (get (ND s) k) as [v|] eqn:En; [|assumption].
    destruct a; try assumption.
    constructor; cbn [AD ND DU dlen]; auto using NoDup_set, NoDup_del, inv_ad, inv_nd, inv_du.
    - intros k'. destruct (inv_k s I k) as (K1 & K2 & K3). destruct (inv_k s I k') as (K1' & K2' & K3').
      kgoal k k'.
    - apply (inv_len s I).
  Qed.

  (* ---------------- opt_veq is an equivalence ---------------- *)
  Notation oveq := (opt_veq V veq).
  Lemma oveq_refl a : oveq a a = true.
  Proof. destruct a; cbn; auto. Qed.
  Lemma oveq_sym a b : oveq a b = oveq b a.
  Proof. destruct a, b; cbn; auto. Qed.
  Lemma oveq_trans a b c : oveq a b = true -> oveq b c = true -> oveq a c = true.
  Proof. destruct a, b, c; cbn; try congruence. apply veq_trans. Qed.
  Lemma oveq_dom a b : oveq a b = true -> (a <> None <-> b <> None).
  Proof. destruct a, b; cbn; intros; split; congruence. Qed.

  (* ---------------- folds of invariant-preserving steps ---------------- *)
  Lemma fold_inv {A} (f : st -> A -> st) l : (forall s a, Inv s -> Inv (f s a)) -> forall s, Inv s -> Inv (fold_left f l s).
  Proof. intros Hf. induction l; cbn [fold_left]; auto. Qed.
  Lemma fold_same {A B} (g : st -> B) (f : st -> A -> st) l :
    (forall s a, Inv s -> Inv (f s a)) -> (forall s a, Inv s -> g (f s a) = g s) ->
    forall s, Inv s -> g (fold_left f l s) = g s.
  Proof. intros Hf Hg. induction l; cbn [fold_left]; intros; [reflexivity|]. rewrite IHl; auto. Qed.

  (* ---------------- Desired().DeleteAll ---------------- *)
  Definition dall2 (s : st) (k : N) : st := if mem k (AD s) && negb (mem k (DU s)) then des_delete V k s else s.
  Lemma dall2_inv s k : Inv s -> Inv (dall2 s k).
  Proof. unfold dall2. destruct (_ && _); auto using des_delete_inv. Qed.

  Lemma des_delete_all_inv s : Inv s -> Inv (des_delete_all V s).
  Proof.
    intros I. unfold Model.des_delete_all. apply (fold_inv dall2); [apply dall2_inv|].
    apply (fold_inv (fun s k => des_delete V k s)); auto using des_delete_inv.
  Qed.
  Lemma des_delete_all_dp s k : Inv s -> dp_get (des_delete_all V s) k = dp_get s k.
  Proof.
    intros I. unfold Model.des_delete_all.
    rewrite (fold_same (fun s => dp_get s k) dall2); [| apply dall2_inv | | ].
    - apply (fold_same (fun s => dp_get s k) (fun s k => des_delete V k s)); auto using des_delete_inv.
      intros. apply des_delete_dp; assumption.
    - intros s0 a I0. unfold dall2. destruct (_ && _); [apply des_delete_dp; assumption|reflexivity].
    - apply (fold_inv (fun s k => des_delete V k s)); auto using des_delete_inv.
  Qed.

  Lemma DU_des_delete k s k' : get (DU (des_delete V k s)) k' = if N.eqb k k' then None else get (DU s) k'.
  Proof. unfold Model.des_delete. destruct (get (AD s) k); cbn [DU]; apply get_del. Qed.
  Lemma AD_des_delete k s k' : get (AD (des_delete V k s)) k' = if N.eqb k k' then None else get (AD s) k'.
  Proof.
    unfold Model.des_delete. destruct (get (AD s) k) eqn:E; cbn [AD]; [apply get_del|].
    keycase k k'; [assumption|reflexivity].
  Qed.

  Lemma fold1_DU ks : forall s k, get (DU (fold_left (fun s k => des_delete V k s) ks s)) k =
    if existsb (N.eqb k) ks then None else get (DU s) k.
  Proof.
    induction ks as [|a ks IH]; intros s k; cbn [fold_left existsb]; [reflexivity|].
    rewrite IH, DU_des_delete. rewrite (N.eqb_sym k a). destruct (N.eqb a k); cbn [orb]; [destruct (existsb _ ks)|]; reflexivity.
  Qed.
  Lemma existsb_keys (m : amap V) k : existsb (N.eqb k) (keys m) = mem k m.
  Proof.
    rewrite mem_get. induction m as [|[a v] m IH]; [reflexivity|]. cbn [keys map fst existsb get].
    rewrite (N.eqb_sym k a). destruct (N.eqb a k); [reflexivity|apply IH].
  Qed.
  Lemma fold2_props ks : forall s, (forall k, get (DU s) k = None) ->
    (forall k, get (DU (fold_left dall2 ks s)) k = None) /\
    (forall k, get (AD (fold_left dall2 ks s)) k = if existsb (N.eqb k) ks then None else get (AD s) k).
  Proof.
    induction ks as [|a ks IH]; intros s E; cbn [fold_left existsb]; [auto|].
    assert (E1 : forall k, get (DU (dall2 s a)) k = None).
    { intros k. unfold dall2. destruct (_ && _); [rewrite DU_des_delete; destruct (N.eqb a k)|]; auto. }
    destruct (IH _ E1) as (H1 & H2). split; [assumption|]. intros k. rewrite H2.
    destruct (existsb (N.eqb k) ks); [rewrite orb_true_r; reflexivity|]. rewrite orb_false_r.
    unfold dall2. rewrite !mem_get, E. cbn [negb]. rewrite andb_true_r.
    destruct (get (AD s) a) eqn:Ea.
    - rewrite AD_des_delete, (N.eqb_sym k a). reflexivity.
    - keycase k a; [|reflexivity]. exact Ea.
  Qed.
  Lemma des_delete_all_get s k : des_get (des_delete_all V s) k = None.
  Proof.
    unfold Model.des_delete_all. set (s1 := fold_left (fun s k => des_delete V k s) (keys (DU s)) s).
    assert (E : forall k, get (DU s1) k = None).
    { intros k0. unfold s1. rewrite fold1_DU, existsb_keys, mem_get. destruct (get (DU s) k0); reflexivity. }
    destruct (fold2_props (keys (AD s1)) s1 E) as (H1 & H2).
    change (fold_left _ (keys (AD s1)) s1) with (fold_left dall2 (keys (AD s1)) s1).
    unfold Model.des_get. rewrite H1, H2, existsb_keys, mem_get. destruct (get (AD s1) k); reflexivity.
  Qed.

  (* ---------------- Dataplane().ReplaceAllIter ---------------- *)
  Notation rst := (rst V).
  Definition dget (r : rst) (k : N) : option V :=
    match get (rdu r) k with Some x => Some x | None =>
      match get (oad r) k with Some x => Some x | None => get (nad r) k end end.
  Definition ndp (r : rst) (k : N) : option V := match get (nad r) k with Some x => Some x | None => get (nnd r) k end.
  Definition odp (r : rst) (k : N) : option V := match get (oad r) k with Some x => Some x | None => get (ond r) k end.

  (* per-key invariant of the five maps while the iterator runs *)
  Definition KJ (oa on na nn u : option V) : Prop :=
    (oa <> None -> on = None /\ na = None /\ nn = None) /\
    (on <> None -> na = None /\ nn = None) /\
    (na <> None -> nn = None) /\
    (u <> None -> on = None /\ nn = None) /\
    (forall x y, oa = Some x -> u = Some y -> veq x y = false) /\
    (forall x y, na = Some x -> u = Some y -> veq x y = false).
  Record J (r : rst) : Prop := {
    j_oad : NoDup (keys (oad r)); j_ond : NoDup (keys (ond r)); j_nad : NoDup (keys (nad r));
    j_nnd : NoDup (keys (nnd r)); j_rdu : NoDup (keys (rdu r));
    j_k : forall k, KJ (get (oad r) k) (get (ond r) k) (get (nad r) k) (get (nnd r) k) (get (rdu r) k) }.

  (* the last value the iterator produced for k *)
  Fixpoint lastget (kvs : list (N * V)) (k : N) : option V :=
    match kvs with
    | [] => None
    | (a, v) :: kvs' => match lastget kvs' k with Some x => Some x | None => if N.eqb a k then Some v else None end
    end.

  Lemma repl_cb_step r k v : J r ->
    let r' := repl_cb V veq true r (k, v) in
    J r' /\
    (forall k', ndp r' k' = if N.eqb k k' then Some v else ndp r k') /\
    (forall k', odp r' k' = if N.eqb k k' then None else odp r k') /\
    (forall k', oveq (dget r' k') (dget r k') = true).
  Proof.
    intros Jr. cbn zeta. unfold Model.repl_cb.
    fold (dget r k).
    destruct (j_k r Jr k) as (A1 & A2 & A3 & A4 & A5 & A6).
    destruct (dget r k) as [dv|] eqn:Ed.
    - assert (Enn : get (nnd r) k = None).
      { unfold dget in Ed. destruct (get (rdu r) k); [apply A4; congruence|].
        destruct (get (oad r) k); [apply A1; congruence|]. apply A3. congruence. }
      split; [|split; [|split]].
      + constructor; cbn [oad ond nad nnd rdu]; auto using NoDup_del, NoDup_set, j_oad, j_ond, j_nad, j_nnd, j_rdu.
        { destruct (veq dv v); auto using NoDup_del, NoDup_set, j_rdu. }
        intros k'. destruct (j_k r Jr k') as (B1 & B2 & B3 & B4 & B5 & B6).
        destruct (veq dv v) eqn:Ev; unfold KJ; gs; keycase k k'; repeat split; intros; try congruence; auto;
          try (rewrite veq_sym; congruence); try solve [intuition (eauto; congruence)].
      + intros k'. unfold ndp. cbn [nad nnd]. gs. keycase k k'; reflexivity.
      + intros k'. unfold odp. cbn [oad ond]. gs. keycase k k'; reflexivity.
      + intros k'. unfold dget in *. cbn [oad nad rdu].
        destruct (veq dv v) eqn:Ev; gs; keycase k k'; try apply oveq_refl.
        * (* value agreed: the key now lives in the new map with the dataplane's value *)
          destruct (get (rdu r) k); [inversion Ed; subst; cbn; rewrite veq_sym; exact Ev|].
          destruct (get (oad r) k); [inversion Ed; subst; cbn; rewrite veq_sym; exact Ev|].
          rewrite Ed. cbn. rewrite veq_sym. exact Ev.
        * destruct (get (rdu r) k); [inversion Ed; subst; apply oveq_refl|].
          destruct (get (oad r) k); [inversion Ed; subst; apply oveq_refl|].
          rewrite Ed. apply oveq_refl.
    - assert (get (rdu r) k = None /\ get (oad r) k = None /\ get (nad r) k = None) as (Eu & Eoa & Ena).
      { unfold dget in Ed. destruct (get (rdu r) k); [discriminate|]. destruct (get (oad r) k); [discriminate|]. auto. }
      split; [|split; [|split]].
      + constructor; cbn [oad ond nad nnd rdu]; auto using NoDup_del, NoDup_set, j_oad, j_ond, j_nad, j_nnd, j_rdu.
        intros k'. destruct (j_k r Jr k') as (B1 & B2 & B3 & B4 & B5 & B6).
        unfold KJ; gs; keycase k k'; repeat split; intros; try congruence; auto; try solve [intuition (eauto; congruence)].
      + intros k'. unfold ndp. cbn [nad nnd]. gs. keycase k k'; [rewrite Ena|]; reflexivity.
      + intros k'. unfold odp. cbn [oad ond]. gs. keycase k k'; reflexivity.
      + intros k'. unfold dget. cbn [oad nad rdu]. gs. keycase k k'; [|apply oveq_refl].
        rewrite Eu, Eoa, Ena. reflexivity.
  Qed.

  Lemma repl_fold kvs : forall r, J r ->
    let r' := fold_left (repl_cb V veq true) kvs r in
    J r' /\
    (forall k, ndp r' k = match lastget kvs k with Some v => Some v | None => ndp r k end) /\
    (forall k, odp r' k = match lastget kvs k with Some _ => None | None => odp r k end) /\
    (forall k, oveq (dget r' k) (dget r k) = true).
  Proof.
    induction kvs as [|[a v] kvs IH]; intros r Jr; cbn [fold_left lastget]; cbn zeta.
    - split; [assumption|split; [|split]]; intros; [reflexivity|reflexivity|apply oveq_refl].
    - destruct (repl_cb_step r a v Jr) as (J1 & N1 & O1 & D1).
      destruct (IH _ J1) as (J2 & N2 & O2 & D2). cbn zeta in *.
      split; [assumption|]. split; [|split].
      + intros k. rewrite N2, N1. destruct (lastget kvs k); [reflexivity|]. destruct (N.eqb a k); reflexivity.
      + intros k. rewrite O2, O1. destruct (lastget kvs k); [reflexivity|]. destruct (N.eqb a k); reflexivity.
      + intros k. eapply oveq_trans; [apply D2|apply D1].
  Qed.

  (* with no key produced twice the pinned code behaves like the repaired one *)
  Lemma repl_fold_nodup kvs : forall r, NoDup (keys kvs) -> (forall k, In k (keys kvs) -> get (nad r) k = None) ->
    fold_left (repl_cb V veq false) kvs r = fold_left (repl_cb V veq true) kvs r.
  Proof.
    induction kvs as [|[a v] kvs IH]; intros r ND Hn; cbn [fold_left]; [reflexivity|].
    cbn [keys map fst] in ND, Hn. fold (keys kvs) in *. inversion ND; subst.
    assert (E : repl_cb V veq false r (a, v) = repl_cb V veq true r (a, v)).
    { unfold Model.repl_cb. rewrite (Hn a) by (left; reflexivity). reflexivity. }
    rewrite E. apply IH; [assumption|].
    intros k Hk. unfold Model.repl_cb.
    assert (a <> k) by (intros ->; contradiction).
    destruct (match get (rdu r) a with Some x => Some x | None => _ end); cbn [nad]; gs;
      try (destruct (N.eqb_spec a k); [congruence|]); apply Hn; right; assumption.
  Qed.

  Lemma J_init s : Inv s -> J (mkr (AD s) (ND s) [] [] (DU s)).
  Proof.
    intros I. constructor; cbn [oad ond nad nnd rdu]; try apply NoDup_nil; try (apply I).
    intros k. destruct (inv_k s I k) as (K1 & K2 & K3). unfold KJ. cbn [get].
    repeat split; intros; try congruence; auto.
  Qed.

  Lemma tail_du (o : amap V) : forall du,
    let du' := fold_left (fun du p => match get du (fst p) with Some _ => du | None => set (fst p) (snd p) du end) o du in
    (NoDup (keys du) -> NoDup (keys du')) /\
    (forall k, get du' k = match get du k with Some x => Some x | None => get o k end).
  Proof.
    induction o as [|[a v] o IH]; intros du; cbn [fold_left fst snd get]; cbn zeta.
    - split; [auto|]. intros k. destruct (get du k); reflexivity.
    - destruct (get du a) eqn:Ea.
      + destruct (IH du) as (H1 & H2). cbn zeta in *. split; [assumption|]. intros k. rewrite H2.
        destruct (get du k) eqn:Ek; [reflexivity|]. destruct (N.eqb_spec a k); [congruence|reflexivity].
      + destruct (IH (set a v du)) as (H1 & H2). cbn zeta in *. split; [auto using NoDup_set|]. intros k. rewrite H2.
        gs. destruct (N.eqb_spec a k) as [->|]; [rewrite Ea; reflexivity|reflexivity].
  Qed.

  (* the outcome of ReplaceAllIter (repaired lookup) *)
  Lemma dp_replace_fixed kvs err s : Inv s ->
    let s' := dp_replace V veq true kvs err s in
    Inv s' /\
    (forall k, oveq (des_get s' k) (des_get s k) = true) /\
    (forall k, dp_get s' k = match lastget kvs k with
                             | Some v => Some v
                             | None => if err then dp_get s k else None end).
  Proof.
    intros I. cbn zeta. unfold Model.dp_replace.
    destruct (repl_fold kvs _ (J_init s I)) as (Jr & Nr & Or & Dr). cbn zeta in *.
    set (r := fold_left (repl_cb V veq true) kvs (mkr (AD s) (ND s) [] [] (DU s))) in *.
    assert (D0 : forall k, dget (mkr (AD s) (ND s) [] [] (DU s)) k = des_get s k).
    { intros k. unfold dget, Model.des_get. cbn [oad nad rdu get]. destruct (get (DU s) k); [|destruct (get (AD s) k)]; reflexivity. }
    destruct err.
    - (* the iterator failed: new maps are copied back over what is left of the old ones *)
      assert (GA : forall k, get (copy_into (oad r) (nad r)) k = match get (nad r) k with Some x => Some x | None => get (oad r) k end)
        by (intros; apply get_copy_into, (j_nad r Jr)).
      assert (GN : forall k, get (copy_into (ond r) (nnd r)) k = match get (nnd r) k with Some x => Some x | None => get (ond r) k end)
        by (intros; apply get_copy_into, (j_nnd r Jr)).
      assert (DG : forall dl k, des_get (mk (copy_into (oad r) (nad r)) (copy_into (ond r) (nnd r)) (rdu r) dl) k = dget r k).
      { intros dl k. unfold Model.des_get, dget. cbn [AD DU]. rewrite GA.
        destruct (j_k r Jr k) as (A1 & A2 & A3 & A4 & A5 & A6).
        destruct (get (rdu r) k); [reflexivity|]. destruct (get (oad r) k) eqn:Eo; [|destruct (get (nad r) k); reflexivity].
        destruct A1 as (_ & -> & _); [congruence|reflexivity]. }
      split; [|split].
      + constructor; cbn [AD ND DU dlen]; auto using NoDup_copy_into, j_oad, j_ond, j_rdu.
        * intros k. rewrite GA, GN. destruct (j_k r Jr k) as (A1 & A2 & A3 & A4 & A5 & A6). unfold KInv.
          destruct (get (oad r) k), (get (ond r) k), (get (nad r) k), (get (nnd r) k); repeat split; intros; try congruence; auto;
            try (destruct A1 as (?&?&?); congruence); try (destruct A2 as (?&?); congruence); try (destruct A4 as (?&?); congruence);
            try (rewrite A3 in *; congruence); eauto.
        * rewrite (inv_len s I). f_equal. symmetry. apply dlen_same; cbn [AD DU]; auto using NoDup_copy_into, j_oad, j_rdu, inv_ad, inv_du.
          intros k. rewrite DG. rewrite <- D0. apply oveq_dom, Dr.
      + intros k. rewrite DG, <- D0. apply Dr.
      + intros k. unfold Model.dp_get. cbn [AD ND]. rewrite GA, GN.
        specialize (Nr k). specialize (Or k). unfold ndp, odp in Nr, Or. cbn [oad ond nad nnd get] in Nr, Or.
        destruct (j_k r Jr k) as (A1 & A2 & A3 & A4 & A5 & A6).
        destruct (lastget kvs k).
        * destruct (get (nad r) k); [assumption|]. rewrite Nr.
          destruct (get (oad r) k); [discriminate|]. reflexivity.
        * destruct (get (nad r) k); [discriminate|]. rewrite Nr. exact Or.
    - (* success *)
      destruct (tail_du (oad r) (rdu r)) as (T1 & T2). cbn zeta in *.
      set (du' := fold_left _ (oad r) (rdu r)) in *.
      assert (DG : forall dl k, des_get (mk (nad r) (nnd r) du' dl) k = dget r k).
      { intros dl k. unfold Model.des_get, dget. cbn [AD DU]. rewrite T2.
        destruct (get (rdu r) k); [reflexivity|]. destruct (get (oad r) k) eqn:Eo; reflexivity. }
      split; [|split].
      + constructor; cbn [AD ND DU dlen]; auto using j_nad, j_nnd, j_rdu.
        * intros k. rewrite T2. destruct (j_k r Jr k) as (A1 & A2 & A3 & A4 & A5 & A6). unfold KInv.
          destruct (get (oad r) k), (get (rdu r) k), (get (nad r) k), (get (nnd r) k); repeat split; intros; try congruence; auto;
            try (destruct A1 as (?&?&?); congruence); try (destruct A4 as (?&?); congruence);
            try (rewrite A3 in *; congruence); eauto.
        * rewrite (inv_len s I). f_equal. symmetry. apply dlen_same; cbn [AD DU]; auto using j_nad, j_rdu, inv_ad, inv_du.
          intros k. rewrite DG. rewrite <- D0. apply oveq_dom, Dr.
      + intros k. rewrite DG, <- D0. apply Dr.
      + intros k. unfold Model.dp_get. cbn [AD ND]. specialize (Nr k). unfold ndp in Nr. cbn [nad nnd get] in Nr.
        rewrite Nr. destruct (lastget kvs k); reflexivity.
  Qed.

  (* ---------------- the views are the exact difference ---------------- *)
  Lemma inv_pu s k : Inv s -> pu_get V s k = pending_update V veq (des_get s) (dp_get s) k.
  Proof.
    intros I. destruct (inv_k s I k) as (K1 & K2 & K3).
    unfold Model.pu_get, pending_update, Model.des_get, Model.dp_get.
    destruct (get (DU s) k) as [u|] eqn:Eu.
    - rewrite K2 by congruence. destruct (get (AD s) k) as [a|] eqn:Ea; [|reflexivity].
      rewrite (K3 a u); auto.
    - destruct (get (AD s) k) as [a|]; [|reflexivity]. rewrite veq_refl. reflexivity.
  Qed.
  Lemma inv_pd s k : Inv s -> pd_get V s k = pending_del V (des_get s) (dp_get s) k.
  Proof.
    intros I. destruct (inv_k s I k) as (K1 & K2 & K3).
    unfold Model.pd_get, pending_del, Model.des_get, Model.dp_get.
    destruct (get (ND s) k) as [n|] eqn:En.
    - destruct (get (AD s) k); [discriminate K1; congruence|]. destruct (get (DU s) k); [discriminate K2; congruence|]. reflexivity.
    - destruct (get (AD s) k); [|reflexivity]. destruct (get (DU s) k); reflexivity.
  Qed.

  Lemma veq_true_l a b c : veq a b = true -> veq a c = veq b c.
  Proof.
    intros H. destruct (veq b c) eqn:E.
    - eapply veq_trans; eauto.
    - destruct (veq a c) eqn:E'; [|reflexivity]. rewrite <- E. symmetry. eapply veq_trans; [|exact E']. rewrite veq_sym. exact H.
  Qed.

  Lemma pending_update_oveq (D P D' P' : N -> option V) k :
    oveq (D k) (D' k) = true -> oveq (P k) (P' k) = true ->
    oveq (pending_update V veq D P k) (pending_update V veq D' P' k) = true.
  Proof.
    unfold pending_update. destruct (D k) as [d|], (D' k) as [d'|]; cbn; try congruence; intros Hd.
    destruct (P k) as [p|], (P' k) as [p'|]; cbn; try congruence; intros Hp.
    rewrite (veq_true_l p p' d Hp), (veq_sym p' d), (veq_true_l d d' p' Hd), (veq_sym d' p').
    destruct (veq p' d'); cbn; auto.
  Qed.
  Lemma pending_del_oveq (D P D' P' : N -> option V) k :
    oveq (D k) (D' k) = true -> oveq (P k) (P' k) = true ->
    oveq (pending_del V D P k) (pending_del V D' P' k) = true.
  Proof.
    unfold pending_del. destruct (D k), (D' k), (P k), (P' k); cbn; congruence.
  Qed.

  (* ---------------- refinement relation to the abstract pair (D, P) ---------------- *)
  Definition R (s : st) (DP : amap V * amap V) : Prop :=
    (forall k, oveq (des_get s k) (get (fst DP) k) = true) /\
    (forall k, oveq (dp_get s k) (get (snd DP) k) = true).

  Lemma get_of_list kvs : forall (m : amap V) k,
    get (of_list V kvs m) k = match lastget kvs k with Some v => Some v | None => get m k end.
  Proof.
    unfold of_list. induction kvs as [|[a v] kvs IH]; intros m k; cbn [fold_left lastget fst snd]; [reflexivity|].
    rewrite IH. destruct (lastget kvs k); [reflexivity|]. rewrite get_set. destruct (N.eqb a k); reflexivity.
  Qed.

  (* ---------------- IterBatched ---------------- *)
  Lemma NoDup_visit_order order (m : amap V) : NoDup (keys m) -> NoDup (visit_order V order m).
  Proof.
    intros ND. unfold Model.visit_order.
    assert (G : forall (l1 l2 : list N), NoDup l1 -> NoDup l2 -> (forall x, In x l1 -> ~ In x l2) -> NoDup (l1 ++ l2)).
    { induction l1 as [|x l1 IH]; cbn; intros l2 H1 H2 D; [assumption|]. inversion H1; subst. constructor.
      - rewrite in_app_iff. intros [?|?]; [tauto|]. apply (D x); auto.
      - apply IH; auto. }
    apply G.
    - apply NoDup_nodup.
    - apply NoDup_filter, ND.
    - intros x H1 H2. apply nodup_In, filter_In in H1. destruct H1 as [H1 _].
      apply filter_In in H2. destruct H2 as [_ H2]. apply negb_true_iff in H2.
      assert (existsb (N.eqb x) order = true) by (apply existsb_exists; exists x; split; [assumption|apply N.eqb_refl]). congruence.
  Qed.

  Lemma range_of_props order (m : amap V) : NoDup (keys m) ->
    NoDup (keys (range_of V order m)) /\ (forall kv, In kv (range_of V order m) -> get m (fst kv) = Some (snd kv)).
  Proof.
    intros ND. unfold Model.range_of. pose proof (NoDup_visit_order order m ND) as NV.
    induction (visit_order V order m) as [|k l IH]; cbn [flat_map]; [split; [constructor|intros ? []]|].
    inversion NV; subst. destruct (IH H2) as (I1 & I2).
    destruct (get m k) as [v|] eqn:E; cbn [app]; [|auto]. split.
    - cbn [keys map fst]. constructor; [|exact I1]. intros Hin. apply H1.
      clear - Hin. induction l as [|a l IH]; cbn [flat_map] in Hin; [destruct Hin|].
      unfold keys in Hin. rewrite map_app in Hin. apply in_app_or in Hin. destruct Hin as [Hin|Hin]; [|right; auto].
      destruct (get m a); cbn in Hin; [destruct Hin as [<-|[]]; left; reflexivity|destruct Hin].
    - intros kv [<-|Hin]; [exact E|auto].
  Qed.

  Lemma fold_pu_apply l : forall s, NoDup (keys l) -> (forall kv, In kv l -> get (DU s) (fst kv) = Some (snd kv)) ->
    fold_left (pu_apply V) l s = pu_iter V (map (fun kv => (fst kv, AUpd)) l) s.
  Proof.
    induction l as [|[k v] l IH]; intros s ND H; [reflexivity|].
    cbn [fold_left map fst]. unfold Model.pu_iter. cbn [fold_left].
    pose proof (H (k, v) (or_introl eq_refl)) as Hk. cbn [fst snd] in Hk.
    assert (E : pu_apply V s (k, v) = pu_visit V s (k, AUpd)).
    { unfold Model.pu_apply, Model.pu_visit. cbn [fst snd]. rewrite Hk. reflexivity. }
    rewrite E. cbn [keys map fst] in ND. inversion ND; subst. apply IH; [assumption|].
    intros [k' v'] Hin. cbn [fst snd]. unfold Model.pu_visit. rewrite Hk. cbn [fst snd DU].
    rewrite get_del. destruct (N.eqb_spec k k') as [->|].
    - exfalso. apply H2. change k' with (fst (k', v')). apply in_map, Hin.
    - apply (H (k', v')). right. exact Hin.
  Qed.
  Lemma fold_pd_apply l : forall s, NoDup (keys l) -> (forall kv, In kv l -> get (ND s) (fst kv) = Some (snd kv)) ->
    fold_left (pd_apply V) l s = pd_iter V (map (fun kv => (fst kv, AUpd)) l) s.
  Proof.
    induction l as [|[k v] l IH]; intros s HND H; [reflexivity|].
    cbn [fold_left map fst]. unfold Model.pd_iter. cbn [fold_left].
    pose proof (H (k, v) (or_introl eq_refl)) as Hk. cbn [fst snd] in Hk.
    assert (E : pd_apply V s (k, v) = pd_visit V s (k, AUpd)).
    { unfold Model.pd_apply, Model.pd_visit. cbn [fst snd]. rewrite Hk. reflexivity. }
    rewrite E. cbn [keys map fst] in HND. inversion HND; subst. apply IH; [assumption|].
    intros [k' v'] Hin. cbn [fst snd]. unfold Model.pd_visit. rewrite Hk. cbn [fst snd ND].
    rewrite get_del. destruct (N.eqb_spec k k') as [->|].
    - exfalso. apply H2. change k' with (fst (k', v')). apply in_map, Hin.
    - apply (H (k', v')). right. exact Hin.
  Qed.

  (* the batched iteration is an ordinary iteration answering UpdateDataplane for the applied items *)
  Lemma pu_batched_is_iter bs order resps s : Inv s ->
    fst (pu_iter_batched V bs order resps s) =
    pu_iter V (map (fun kv => (fst kv, AUpd)) (applied_of (snd (pu_iter_batched V bs order resps s)))) s.
  Proof.
    intros I. unfold Model.pu_iter_batched. cbn [fst snd].
    destruct (range_of_props order (DU s) (inv_du s I)) as (R1 & R2).
    destruct (proto_applied_keys bs (range_of V order (DU s)) resps R1) as (P1 & P2).
    apply fold_pu_apply; [exact P1|]. intros kv H. apply R2, P2, H.
  Qed.
  Lemma pd_batched_is_iter bs order resps s : Inv s ->
    fst (pd_iter_batched V bs order resps s) =
    pd_iter V (map (fun kv => (fst kv, AUpd)) (applied_of (snd (pd_iter_batched V bs order resps s)))) s.
  Proof.
    intros I. unfold Model.pd_iter_batched. cbn [fst snd].
    destruct (range_of_props order (ND s) (inv_nd s I)) as (R1 & R2).
    destruct (proto_applied_keys bs (range_of V order (ND s)) resps R1) as (P1 & P2).
    apply fold_pd_apply; [exact P1|]. intros kv H. apply R2, P2, H.
  Qed.

  Lemma des_set_R k v s DP : Inv s -> R s DP -> R (des_set V veq k v s) (set k v (fst DP), snd DP).
  Proof.
    intros I [Rd Rp]. split; cbn [fst snd]; intros k'.
    - rewrite des_set_get by assumption. gs. destruct (N.eqb k k'); [|apply Rd].
      destruct (dp_get s k) as [cur|]; [destruct (veq cur v) eqn:E|]; cbn; auto.
    - rewrite des_set_dp by assumption. apply Rp.
  Qed.
  Lemma des_set_many kvs : forall s DP, Inv s -> R s DP ->
    Inv (fold_left (fun s kv => des_set V veq (fst kv) (snd kv) s) kvs s) /\
    R (fold_left (fun s kv => des_set V veq (fst kv) (snd kv) s) kvs s) (of_list V kvs (fst DP), snd DP).
  Proof.
    unfold of_list. induction kvs as [|[k v] kvs IH]; intros s [D P] I HR; cbn [fold_left fst snd]; [auto|].
    apply (IH _ (set k v D, P)); [apply des_set_inv, I|apply (des_set_R k v s (D, P) I HR)].
  Qed.

  (* which operations the theorems cover: for the pinned code no Replace iterator yields a key twice;
     for IterBatched the recorded calls are the calls the code makes (same items applied) *)
  Definition op_ok (fixed : bool) (s : st) (o : op V) : Prop :=
    match o with
    | Replace kvs _ => fixed = true \/ NoDup (keys kvs)
    | IterBatchUpd calls | IterBatchDel calls => keys (applied_of (step_calls V s o)) = keys (applied_of calls)
    | _ => True
    end.
  Fixpoint ops_ok (fixed : bool) (s : st) (ops : list (op V)) : Prop :=
    match ops with
    | [] => True
    | o :: ops' => op_ok fixed s o /\ ops_ok fixed (step V veq fixed s o) ops'
    end.

  Lemma dp_replace_any fixed kvs err s : fixed = true \/ NoDup (keys kvs) ->
    dp_replace V veq fixed kvs err s = dp_replace V veq true kvs err s.
  Proof.
    intros [->|ND]; [reflexivity|]. destruct fixed; [reflexivity|].
    unfold Model.dp_replace. rewrite repl_fold_nodup; auto.
  Qed.

  Lemma pu_visit_R s DP ka : Inv s -> R s DP -> R (pu_visit V s ka) (a_pu_visit V veq DP ka).
  Proof.
    intros I [Rd Rp]. destruct DP as [D P]. cbn [fst snd] in *. unfold a_pu_visit.
    split; cbn [fst snd].
    - intros k'. rewrite pu_visit_get. destruct (snd ka); [| destruct (pending_update _ _ _ _ _) |]; apply Rd.
    - intros k'. rewrite pu_visit_dp.
      assert (X := pending_update_oveq (des_get s) (dp_get s) (get D) (get P) (fst ka) (Rd _) (Rp _)).
      rewrite <- (inv_pu s (fst ka) I) in X. unfold Model.pu_get in X.
      destruct (snd ka); try apply Rp.
      destruct (get (DU s) (fst ka)) as [v|], (pending_update V veq (get D) (get P) (fst ka)) as [d|]; cbn in X; try congruence; try apply Rp.
      cbn [snd]. rewrite get_set. destruct (N.eqb (fst ka) k'); [exact X|apply Rp].
  Qed.
  Lemma pd_visit_R s DP ka : Inv s -> R s DP -> R (pd_visit V s ka) (a_pd_visit V DP ka).
  Proof.
    intros I [Rd Rp]. destruct DP as [D P]. cbn [fst snd] in *. unfold a_pd_visit.
    split; cbn [fst snd].
    - intros k'. rewrite pd_visit_get. destruct (snd ka); [| destruct (pending_del _ _ _ _) |]; apply Rd.
    - intros k'. rewrite pd_visit_dp by assumption.
      assert (X := pending_del_oveq (des_get s) (dp_get s) (get D) (get P) (fst ka) (Rd _) (Rp _)).
      rewrite <- (inv_pd s (fst ka) I) in X. unfold Model.pd_get in X.
      destruct (snd ka); try apply Rp.
      destruct (get (ND s) (fst ka)) as [v|], (pending_del V (get D) (get P) (fst ka)) as [d|]; cbn in X; try congruence; try apply Rp.
      cbn [snd]. rewrite get_del. destruct (N.eqb (fst ka) k'); [reflexivity|apply Rp].
  Qed.

  Lemma fold_visit_R (f : st -> N * act -> st) (g : amap V * amap V -> N * act -> amap V * amap V) tr :
    (forall s ka, Inv s -> Inv (f s ka)) -> (forall s DP ka, Inv s -> R s DP -> R (f s ka) (g DP ka)) ->
    forall s DP, Inv s -> R s DP -> R (fold_left f tr s) (fold_left g tr DP).
  Proof. intros Hi Hr. induction tr; cbn [fold_left]; auto. Qed.

  Lemma step_inv fixed s o : op_ok fixed s o -> Inv s -> Inv (step V veq fixed s o).
  Proof.
    intros Ho I. destruct o; cbn [step].
    - apply des_set_inv, I.
    - apply des_delete_inv, I.
    - apply des_delete_all_inv, I.
    - apply dp_set_inv, I.
    - apply dp_delete_inv, I.
    - rewrite dp_replace_any by (right; constructor). apply (dp_replace_fixed [] false s I).
    - rewrite dp_replace_any by exact Ho. apply (dp_replace_fixed kvs err s I).
    - apply (fold_inv (pu_visit V)); auto using pu_visit_inv.
    - apply (fold_inv (pd_visit V)); auto using pd_visit_inv.
    - rewrite pu_batched_is_iter by assumption. apply (fold_inv (pu_visit V)); auto using pu_visit_inv.
    - rewrite pd_batched_is_iter by assumption. apply (fold_inv (pd_visit V)); auto using pd_visit_inv.
    - apply (fold_inv (fun s kv => des_set V veq (fst kv) (snd kv) s)); auto using des_set_inv.
  Qed.

  Lemma step_R fixed s DP o : op_ok fixed s o -> Inv s -> R s DP -> R (step V veq fixed s o) (a_step V veq DP o).
  Proof.
    intros Ho I [Rd Rp]. destruct DP as [D P]. cbn [fst snd] in *.
    destruct o; cbn [step a_step].
    - split; cbn [fst snd]; intros k'.
      + rewrite des_set_get by assumption. gs. destruct (N.eqb k k'); [|apply Rd].
        destruct (dp_get s k) as [cur|]; [destruct (veq cur v) eqn:E|]; cbn; auto.
      + rewrite des_set_dp by assumption. apply Rp.
    - split; cbn [fst snd]; intros k'.
      + rewrite des_delete_get. gs. destruct (N.eqb k k'); [reflexivity|apply Rd].
      + rewrite des_delete_dp by assumption. apply Rp.
    - split; cbn [fst snd]; intros k'.
      + rewrite des_delete_all_get. reflexivity.
      + rewrite des_delete_all_dp by assumption. apply Rp.
    - split; cbn [fst snd]; intros k'.
      + rewrite dp_set_get. destruct (N.eqb_spec k k') as [<-|]; [|apply Rd].
        specialize (Rd k). destruct (des_get s k) as [dv|]; [|exact Rd]. destruct (veq dv v) eqn:E; [|exact Rd].
        destruct (get D k) as [d|]; cbn in *; [|congruence]. rewrite <- (veq_true_l dv v d E). exact Rd.
      + rewrite dp_set_dp by assumption. gs. destruct (N.eqb k k'); [cbn; auto|apply Rp].
    - split; cbn [fst snd]; intros k'.
      + rewrite dp_delete_get. apply Rd.
      + rewrite dp_delete_dp. gs. destruct (N.eqb k k'); [reflexivity|apply Rp].
    - rewrite dp_replace_any by (right; constructor).
      destruct (dp_replace_fixed [] false s I) as (_ & H1 & H2). cbn zeta in *.
      split; cbn [fst snd]; intros k'.
      + eapply oveq_trans; [apply H1|apply Rd].
      + rewrite H2. reflexivity.
    - rewrite dp_replace_any by exact Ho.
      destruct (dp_replace_fixed kvs err s I) as (_ & H1 & H2). cbn zeta in *.
      destruct err; split; cbn [fst snd]; intros k'; try (eapply oveq_trans; [apply H1|apply Rd]);
        rewrite H2, get_of_list; destruct (lastget kvs k'); cbn; auto; apply Rp.
    - apply (fold_visit_R (pu_visit V) (a_pu_visit V veq)); auto using pu_visit_inv, pu_visit_R.
      split; assumption.
    - apply (fold_visit_R (pd_visit V) (a_pd_visit V)); auto using pd_visit_inv, pd_visit_R.
      split; assumption.
    - assert (M : forall (l : list (N * V)), map (fun kv => (fst kv, AUpd)) l = map (fun k => (k, AUpd)) (keys l))
        by (intros l; unfold keys; rewrite map_map; reflexivity).
      rewrite pu_batched_is_iter by assumption. rewrite !M. cbn [op_ok step_calls] in Ho. rewrite Ho.
      apply (fold_visit_R (pu_visit V) (a_pu_visit V veq)); auto using pu_visit_inv, pu_visit_R.
      split; assumption.
    - assert (M : forall (l : list (N * V)), map (fun kv => (fst kv, AUpd)) l = map (fun k => (k, AUpd)) (keys l))
        by (intros l; unfold keys; rewrite map_map; reflexivity).
      rewrite pd_batched_is_iter by assumption. rewrite !M. cbn [op_ok step_calls] in Ho. rewrite Ho.
      apply (fold_visit_R (pd_visit V) (a_pd_visit V)); auto using pd_visit_inv, pd_visit_R.
      split; assumption.
    - apply (des_set_many kvs s (D, P) I). split; assumption.
  Qed.

  Lemma run_from fixed ops : forall s DP, ops_ok fixed s ops -> Inv s -> R s DP ->
    Inv (fold_left (step V veq fixed) ops s) /\ R (fold_left (step V veq fixed) ops s) (fold_left (a_step V veq) ops DP).
  Proof.
    induction ops as [|o ops IH]; intros s DP Hok I HR; cbn [fold_left]; [auto|].
    destruct Hok as [Ho Hops]. apply IH; [assumption|apply step_inv|apply step_R]; assumption.
  Qed.

  Lemma R_init : R (st0 V) ([], []).
  Proof. split; intros k; reflexivity. Qed.

  (* ================= main results ================= *)
  Definition views_of (s : st) : views V := Views (des_get s) (dp_get s) (pu_get V s) (pd_get V s).

  Theorem views_exact_run fixed ops : ops_ok fixed (st0 V) ops ->
    let s := run V veq fixed ops in
    views_exact V veq (views_of s) (fst (a_run V veq ops)) (snd (a_run V veq ops)).
  Proof.
    intros Hok. destruct (run_from fixed ops (st0 V) ([], []) Hok Inv_st0 R_init) as (I & Rd & Rp).
    cbn zeta. unfold views_exact, views_of. cbn [v_des v_dp v_pu v_pd].
    repeat split; intros k; [apply Rd|apply Rp|apply inv_pu, I|apply inv_pd, I].
  Qed.

  Theorem inv_run fixed ops : ops_ok fixed (st0 V) ops -> Inv (run V veq fixed ops).
  Proof. intros Hok. apply (run_from fixed ops (st0 V) ([], []) Hok Inv_st0 R_init). Qed.

  (* the Len()s count the keys of the views; the iterated views list every key once and agree with Get *)
  Theorem lens_exact s : Inv s ->
    (des_len V s = Z.of_nat (length (des_iter s)) /\ NoDup (keys (des_iter s)) /\ forall k, get (des_iter s) k = des_get s k) /\
    (dp_len V s = Z.of_nat (length (dp_iter V s)) /\ NoDup (keys (dp_iter V s)) /\ forall k, get (dp_iter V s) k = dp_get s k) /\
    (pu_len V s = Z.of_nat (length (DU s)) /\ NoDup (keys (DU s))) /\
    (pd_len V s = Z.of_nat (length (ND s)) /\ NoDup (keys (ND s))) /\
    (des_len V s <= len_upper_bound V s)%Z.
  Proof.
    intros I. repeat split; try apply I.
    - apply NoDup_des_iter; apply I.
    - intros k. apply get_des_iter.
    - unfold Model.dp_len, Model.dp_iter, len. rewrite app_length. lia.
    - unfold Model.dp_iter. apply NoDup_keys_app; try apply I; try (intros k Hk; apply (inv_k s I k), Hk).
    - intros k. unfold Model.dp_iter, Model.dp_get. apply get_app.
    - unfold Model.des_len, Model.len_upper_bound, len. rewrite (inv_len s I). unfold Model.des_iter.
      rewrite app_length.
      assert (length (filter (fun p => negb (mem (fst p) (DU s))) (AD s)) <= length (AD s))%nat.
      { generalize (AD s). induction a as [|x a IH]; cbn [filter length]; [lia|]. destruct (negb _); cbn [length]; lia. }
      lia.
  Qed.

  (* the abstract maps have the same number of keys as the views (so Len() = |D|, |P|) *)
  Lemma a_nodup ops : forall DP, NoDup (keys (fst DP)) -> NoDup (keys (snd DP)) ->
    NoDup (keys (fst (fold_left (a_step V veq) ops DP))) /\ NoDup (keys (snd (fold_left (a_step V veq) ops DP))).
  Proof.
    assert (OL : forall kvs (m : amap V), NoDup (keys m) -> NoDup (keys (of_list V kvs m))).
    { unfold of_list. induction kvs; cbn [fold_left]; auto using NoDup_set. }
    assert (FV : forall (g : amap V * amap V -> N * act -> amap V * amap V) tr,
               (forall DP ka, NoDup (keys (fst DP)) -> NoDup (keys (snd DP)) -> NoDup (keys (fst (g DP ka))) /\ NoDup (keys (snd (g DP ka)))) ->
               forall DP, NoDup (keys (fst DP)) -> NoDup (keys (snd DP)) ->
               NoDup (keys (fst (fold_left g tr DP))) /\ NoDup (keys (snd (fold_left g tr DP)))).
    { intros g tr Hg. induction tr; cbn [fold_left]; intros; [auto|]. apply IHtr; apply Hg; auto. }
    induction ops as [|o ops IH]; intros [D P] HD HP; cbn [fold_left]; [auto|]. cbn [fst snd] in *.
    apply IH; destruct o; cbn [a_step fst snd]; auto using NoDup_set, NoDup_del, NoDup_nil; try (destruct err; cbn [fst snd]; auto using NoDup_nil);
      try apply NoDup_nil; try (apply OL; apply NoDup_nil);
      try (apply FV; [|assumption|assumption]; intros [D' P'] ka; cbn [fst snd]; unfold a_pu_visit, a_pd_visit; intros;
           destruct (snd ka); cbn [fst snd]; auto; destruct (_ : option V); cbn [fst snd]; auto using NoDup_set, NoDup_del).
  Qed.

  Theorem lens_abstract fixed ops : ops_ok fixed (st0 V) ops ->
    let s := run V veq fixed ops in
    des_len V s = len (fst (a_run V veq ops)) /\ dp_len V s = len (snd (a_run V veq ops)).
  Proof.
    intros Hok. destruct (run_from fixed ops (st0 V) ([], []) Hok Inv_st0 R_init) as (I & Rd & Rp).
    destruct (a_nodup ops ([], [])) as (ND & NP); try apply NoDup_nil.
    destruct (lens_exact _ I) as ((L1 & N1 & G1) & (L2 & N2 & G2) & _).
    cbn zeta. fold (run V veq fixed ops) in *. fold (a_run V veq ops) in *.
    split; [rewrite L1|rewrite L2]; unfold len; f_equal; apply card_same; auto; intros k.
    - rewrite G1. apply oveq_dom, Rd.
    - rewrite G2. apply oveq_dom, Rp.
  Qed.
End P.

(* ---------- corollaries ---------- *)
Section Exact.
  Variable V : Type.
  Variable veq : V -> V -> bool.
  Hypothesis veq_spec : forall a b, veq a b = true <-> a = b.     (* valuesEqual is identity, e.g. (==) *)

  Lemma spec_refl a : veq a a = true. Proof. apply veq_spec. reflexivity. Qed.
  Lemma spec_sym a b : veq a b = veq b a.
  Proof.
    destruct (veq a b) eqn:E, (veq b a) eqn:E'; try reflexivity.
    - apply veq_spec in E. subst. rewrite spec_refl in E'. discriminate.
    - apply veq_spec in E'. subst. rewrite spec_refl in E. discriminate.
  Qed.
  Lemma spec_trans a b c : veq a b = true -> veq b c = true -> veq a c = true.
  Proof. rewrite !veq_spec. congruence. Qed.

  Theorem views_identical_run fixed ops : ops_ok V veq fixed (st0 V) ops ->
    let s := run V veq fixed ops in
    (forall k, des_get V s k = get (fst (a_run V veq ops)) k) /\
    (forall k, dp_get V s k = get (snd (a_run V veq ops)) k) /\
    (forall k, pu_get V s k = pending_update V veq (get (fst (a_run V veq ops))) (get (snd (a_run V veq ops))) k) /\
    (forall k, pd_get V s k = pending_del V (get (fst (a_run V veq ops))) (get (snd (a_run V veq ops))) k).
  Proof.
    intros Hok. cbn zeta.
    destruct (views_exact_run V veq spec_refl spec_sym spec_trans fixed ops Hok) as (H1 & H2 & H3 & H4).
    cbn [v_des v_dp v_pu v_pd views_of] in *.
    assert (E : forall a b, opt_veq V veq a b = true -> a = b).
    { intros [a|] [b|]; cbn; try congruence. intros H. apply veq_spec in H. congruence. }
    assert (E1 : forall k, des_get V (run V veq fixed ops) k = get (fst (a_run V veq ops)) k) by (intros; apply E, H1).
    assert (E2 : forall k, dp_get V (run V veq fixed ops) k = get (snd (a_run V veq ops)) k) by (intros; apply E, H2).
    repeat split; auto; intros k.
    - rewrite H3. unfold pending_update. rewrite E1, E2. reflexivity.
    - rewrite H4. unfold pending_del. rewrite E1, E2. reflexivity.
  Qed.
End Exact.

Section More.
  Variable V : Type.
  Variable veq : V -> V -> bool.
  Hypothesis veq_refl : forall a, veq a a = true.
  Hypothesis veq_sym : forall a b, veq a b = veq b a.
  Hypothesis veq_trans : forall a b c, veq a b = true -> veq b c = true -> veq a c = true.

  (* operations other than IterBatched need no side condition once ReplaceAllIter is repaired *)
  Definition op_plain (o : op V) : Prop := match o with IterBatchUpd _ | IterBatchDel _ => False | _ => True end.
  Lemma plain_ok_fixed (ops : list (op V)) : Forall op_plain ops -> forall s, ops_ok V veq true s ops.
  Proof.
    induction 1 as [|o ops Ho _ IH]; intros s; cbn [ops_ok]; [exact I|]. split; [|apply IH].
    destruct o; cbn in *; auto; contradiction.
  Qed.

  Theorem views_exact_repaired ops : Forall op_plain ops ->
    views_exact V veq (views_of V (run V veq true ops)) (fst (a_run V veq ops)) (snd (a_run V veq ops)).
  Proof. intros H. apply (views_exact_run V veq veq_refl veq_sym veq_trans true ops (plain_ok_fixed ops H _)). Qed.

  (* internal maps after any run: pairwise disjoint as the struct comment requires *)
  Theorem internal_disjoint_run fixed ops : ops_ok V veq fixed (st0 V) ops ->
    let s := run V veq fixed ops in
    forall k,
      (get (AD s) k <> None -> get (ND s) k = None) /\
      (get (DU s) k <> None -> get (ND s) k = None) /\
      (forall a d, get (AD s) k = Some a -> get (DU s) k = Some d -> veq a d = false).
  Proof. intros Hok s k. apply (inv_k V veq _ (inv_run V veq veq_refl veq_sym veq_trans fixed ops Hok) k). Qed.

  Theorem lens_run fixed ops : ops_ok V veq fixed (st0 V) ops ->
    let s := run V veq fixed ops in
    (des_len V s = Z.of_nat (length (des_iter V s)) /\ NoDup (keys (des_iter V s)) /\ forall k, get (des_iter V s) k = des_get V s k) /\
    (dp_len V s = Z.of_nat (length (dp_iter V s)) /\ NoDup (keys (dp_iter V s)) /\ forall k, get (dp_iter V s) k = dp_get V s k) /\
    (pu_len V s = Z.of_nat (length (DU s)) /\ NoDup (keys (DU s))) /\
    (pd_len V s = Z.of_nat (length (ND s)) /\ NoDup (keys (ND s))) /\
    (des_len V s <= len_upper_bound V s)%Z /\
    des_len V s = len (fst (a_run V veq ops)) /\ dp_len V s = len (snd (a_run V veq ops)).
  Proof.
    intros Hok. cbn zeta.
    pose proof (lens_exact V veq _ (inv_run V veq veq_refl veq_sym veq_trans fixed ops Hok)) as (A & B & C & D & E).
    pose proof (lens_abstract V veq veq_refl veq_sym veq_trans fixed ops Hok) as (F & G).
    repeat split; try apply A; try apply B; try apply C; try apply D; assumption.
  Qed.

  (* an UpdateDataplane answer moves exactly the visited key *)
  Theorem iter_update_moves s k v : Inv V veq s -> pu_get V s k = Some v ->
    let s' := pu_visit V s (k, AUpd) in
    pu_get V s' k = None /\ dp_get V s' k = Some v /\ des_get V s' k = des_get V s k /\ des_get V s k = Some v /\
    (forall k', k' <> k -> pu_get V s' k' = pu_get V s k' /\ dp_get V s' k' = dp_get V s k' /\
                          des_get V s' k' = des_get V s k' /\ pd_get V s' k' = pd_get V s k') /\
    pd_get V s' k = pd_get V s k /\ des_len V s' = des_len V s /\ Inv V veq s'.
  Proof using All.
    intros I Hp. cbn zeta. unfold pu_get in Hp.
    assert (Hd : des_get V s k = Some v) by (unfold des_get; rewrite Hp; reflexivity).
    split; [|split; [|split; [|split; [|split; [|split; [|split]]]]]].
    - unfold pu_get, pu_visit. rewrite Hp. cbn [DU]. rewrite get_del, N.eqb_refl. reflexivity.
    - rewrite pu_visit_dp. cbn [fst snd]. rewrite Hp, N.eqb_refl. reflexivity.
    - apply pu_visit_get.
    - assumption.
    - intros k' Hn. split; [|split; [|split]].
      + unfold pu_get, pu_visit. rewrite Hp. cbn [DU]. rewrite get_del. destruct (N.eqb_spec k k'); [congruence|reflexivity].
      + rewrite pu_visit_dp. cbn [fst snd]. rewrite Hp. destruct (N.eqb_spec k k'); [congruence|reflexivity].
      + apply pu_visit_get.
      + unfold pd_get, pu_visit. rewrite Hp. reflexivity.
    - unfold pd_get, pu_visit. rewrite Hp. reflexivity.
    - unfold des_len, pu_visit. rewrite Hp. reflexivity.
    - apply pu_visit_inv; assumption.
  Qed.
End More.

(* ---------- the pinned ReplaceAllIter and an iterator that shows a key twice ---------- *)
Definition dup_ops : list (op N) := [DesSet 1 2; Replace [(1, 2); (1, 2)] false].

Theorem replace_duplicate_key_refuted :
  exists ops : list (op N),
    ~ views_exact N N.eqb (views_of N (run N N.eqb false ops)) (fst (a_run N N.eqb ops)) (snd (a_run N N.eqb ops)).
Proof.
  exists dup_ops. intros (_ & _ & _ & H). specialize (H 1). vm_compute in H. discriminate.
Qed.

(* what goes wrong, concretely: key 1 is desired, yet reported as a pending deletion, and Len() counts it twice *)
Example replace_duplicate_key_witness :
  let s := run N N.eqb false dup_ops in
  des_get N s 1 = Some 2 /\ pd_get N s 1 = Some 2 /\ dp_len N s = 2%Z /\ snd (a_run N N.eqb dup_ops) = [(1, 2)].
Proof. vm_compute. repeat split. Qed.

(* the hypotheses of the main theorems are satisfiable by a non-trivial run *)
Definition ex_ops : list (op N) :=
  [DesSet 1 2; DesSet 2 0; DpSet 2 1; DpSet 3 1; Replace [(3, 0); (2, 1); (4, 2)] true; IterDel [(3, AUpd); (4, ANoOp)];
   IterUpd [(1, 2, AUpd); (2, 0, AStop)]; DesDel 1].
Example ex_ops_ok : ops_ok N N.eqb false (st0 N) ex_ops /\
  (let s := run N N.eqb false ex_ops in
   kv_sort (des_iter N s) = [(2, 0)] /\ kv_sort (dp_iter N s) = [(1, 2); (2, 1); (4, 2)] /\
   kv_sort (DU s) = [(2, 0)] /\ kv_sort (ND s) = [(1, 2); (4, 2)]).
Proof.
  split; [|vm_compute; repeat split].
  unfold ex_ops. cbn [ops_ok op_ok]. repeat split.
  right. cbn [keys map fst]. repeat (apply NoDup_cons || apply NoDup_nil); cbn [In]; intuition discriminate.
Qed.
