(* C18 — the boolean oracle of Spec.v accepts every run of the model (model meets spec). *)
From Coq Require Import List NArith ZArith Bool Lia Permutation.
From Verif.C18 Require Import Model Spec MapLemmas Proofs Cache.
Import ListNotations.
Open Scope N_scope.

(* ---------- the sorted dumps ---------- *)
Lemma kv_insert_perm x l : Permutation (kv_insert x l) (x :: l).
Proof.
  induction l as [|y l IH]; cbn [kv_insert]; [reflexivity|].
  destruct (kv_leb x y); [reflexivity|]. rewrite IH. apply perm_swap.
Qed.
Lemma kv_sort_perm l : Permutation (kv_sort l) l.
Proof.
  induction l as [|x l IH]; [reflexivity|]. cbn [kv_sort fold_right]. fold (kv_sort l).
  rewrite kv_insert_perm. apply perm_skip, IH.
Qed.

Lemma perm_keys {V} (l l' : amap V) : Permutation l l' -> Permutation (keys l) (keys l').
Proof. apply Permutation_map. Qed.

Lemma perm_get {V} (l l' : amap V) : Permutation l l' -> NoDup (keys l) -> forall k, get l k = get l' k.
Proof.
  induction 1 as [|[a v] l l' P IH|[a v] [b w] l|l l' l'' P1 IH1 P2 IH2]; intros ND k.
  - reflexivity.
  - cbn [get]. inversion ND; subst. rewrite IH by assumption. reflexivity.
  - cbn [get]. cbn [keys map fst] in ND. inversion ND; subst.
    destruct (N.eqb_spec b k) as [->|], (N.eqb_spec a k) as [->|]; try reflexivity.
    exfalso. apply H1. left. reflexivity.
  - rewrite IH1 by assumption. apply IH2. eapply Permutation_NoDup; [apply perm_keys, P1|assumption].
Qed.

Lemma get_kv_sort l k : NoDup (keys l) -> get (kv_sort l) k = get l k.
Proof. intros ND. symmetry. apply perm_get; [symmetry; apply kv_sort_perm|assumption]. Qed.
Lemma NoDup_kv_sort l : NoDup (keys l) -> NoDup (keys (kv_sort l)).
Proof. intros ND. eapply Permutation_NoDup; [apply perm_keys; symmetry; apply kv_sort_perm|assumption]. Qed.
Lemma length_kv_sort l : length (kv_sort l) = length l.
Proof. apply Permutation_length, kv_sort_perm. Qed.

Lemma nodup_keysb_true l : NoDup l -> nodup_keysb l = true.
Proof.
  induction 1 as [|x l Hx Hl IH]; [reflexivity|]. cbn. fold (nodup_keysb l). rewrite IH, andb_true_r.
  apply negb_true_iff. destruct (existsb (N.eqb x) l) eqn:E; [|reflexivity].
  apply existsb_exists in E. destruct E as (y & Hy & Exy). apply N.eqb_eq in Exy. subst. contradiction.
Qed.

Lemma on_eqb_refl a : on_eqb a a = true.
Proof. destruct a; cbn; [apply N.eqb_refl|reflexivity]. Qed.

Lemma existsb_mem (l : amap N) k : existsb (N.eqb k) (keys l) = mem k l.
Proof.
  rewrite mem_get. induction l as [|[a v] l IH]; [reflexivity|]. cbn [keys map fst existsb get].
  rewrite (N.eqb_sym k a). destruct (N.eqb a k); [reflexivity|apply IH].
Qed.

Lemma in_get {V} (l : amap V) k v : NoDup (keys l) -> In (k, v) l -> get l k = Some v.
Proof.
  induction l as [|[a w] l IH]; [intros _ []|]. intros ND [H|H]; cbn [get keys map fst] in *; inversion ND; subst.
  - inversion H; subst. rewrite N.eqb_refl. reflexivity.
  - destruct (N.eqb_spec a k) as [->|]; [|auto]. exfalso. apply H2. change k with (fst (k, v)). apply in_map, H.
Qed.

Lemma map_eqb_true (a b : list (N * N)) : NoDup (keys a) -> NoDup (keys b) -> (forall k, get a k = get b k) -> map_eqb a b = true.
Proof.
  intros Na Nb E. unfold map_eqb. apply andb_true_intro. split; apply forallb_forall; intros [k v] H; cbn [fst snd].
  - rewrite <- E, (in_get a k v Na H). apply on_eqb_refl.
  - rewrite E, (in_get b k v Nb H). apply on_eqb_refl.
Qed.

(* ---------- valuesEqual of every kind is an equivalence ---------- *)
Lemma veq_of_refl kd a : veq_of kd a a = true.
Proof. destruct kd; cbn; auto using N.eqb_refl. Qed.
Lemma veq_of_sym kd a b : veq_of kd a b = veq_of kd b a.
Proof. destruct kd; cbn; auto using N.eqb_sym. Qed.
Lemma veq_of_trans kd a b c : veq_of kd a b = true -> veq_of kd b c = true -> veq_of kd a c = true.
Proof. destruct kd; cbn; auto; rewrite !N.eqb_eq; congruence. Qed.

(* ---------- the per-observation oracle accepts the model's observation ---------- *)
Lemma ok_obs_observe kd univ (c : cst N) D P calls nerr :
  Inv N (veq_of kd) (c_t c) -> R N (veq_of kd) (c_t c) (D, P) ->
  ok_obs kd univ D P (observe kd univ c calls nerr) = true.
Proof.
  intros I [Rd Rp]. cbn [fst snd] in *. set (s := c_t c) in *.
  pose proof (inv_ad _ _ s I) as NA. pose proof (inv_nd _ _ s I) as NN. pose proof (inv_du _ _ s I) as NU.
  destruct (lens_exact N (veq_of kd) s I) as ((L1 & N1 & G1) & (L2 & N2 & G2) & (L3 & _) & (L4 & _) & L5).
  assert (Gd : forall k, get (kv_sort (des_iter N s)) k = des_get N s k) by (intros; rewrite get_kv_sort; auto).
  assert (Gp : forall k, get (kv_sort (dp_iter N s)) k = dp_get N s k) by (intros; rewrite get_kv_sort; auto).
  assert (Gu : forall k, get (kv_sort (DU s)) k = pu_get N s k) by (intros; rewrite get_kv_sort; auto).
  assert (PU : forall k, pending_update N (veq_of kd) (get (kv_sort (des_iter N s))) (get (kv_sort (dp_iter N s))) k = pu_get N s k).
  { intros k. rewrite (inv_pu N (veq_of kd) (veq_of_refl kd) s k I). unfold pending_update. rewrite Gd, Gp. reflexivity. }
  assert (PD : forall k, pending_del N (get (kv_sort (des_iter N s))) (get (kv_sort (dp_iter N s))) k = pd_get N s k).
  { intros k. rewrite (inv_pd N (veq_of kd) s k I). unfold pending_del. rewrite Gd, Gp. reflexivity. }
  unfold ok_obs, observe. cbn [o_des o_deslen o_dp o_dplen o_pu o_pulen o_pd o_pdlen o_gets o_ub].
  fold s.
  repeat (apply andb_true_intro; split).
  - apply nodup_keysb_true, NoDup_kv_sort, N1.
  - apply nodup_keysb_true, NoDup_kv_sort, N2.
  - apply nodup_keysb_true, NoDup_kv_sort, NU.
  - apply nodup_keysb_true. apply (NoDup_kv_sort (ND s)), NN.
  - apply forallb_forall. intros k _. rewrite Gd, Gp, Rd, Rp. reflexivity.
  - apply forallb_forall. intros k _. rewrite PU, Gu. apply on_eqb_refl.
  - apply forallb_forall. intros k _. rewrite PD. change (map fst (kv_sort (ND s))) with (keys (kv_sort (ND s))).
    rewrite existsb_mem, mem_get, get_kv_sort by assumption. unfold pd_get. destruct (get (ND s) k); reflexivity.
  - apply Z.eqb_eq. unfold len. rewrite length_kv_sort. exact L1.
  - apply Z.eqb_eq. unfold len. rewrite length_kv_sort. exact L2.
  - apply Z.eqb_eq. unfold len. rewrite length_kv_sort. exact L3.
  - apply Z.eqb_eq. rewrite map_length, length_kv_sort. exact L4.
  - rewrite map_length. apply Nat.eqb_refl.
  - apply forallb_forall. intros [k [[[g1 g2] g3] g4]] H.
    assert (E : (g1, g2, g3, g4) = (des_get N s k, dp_get N s k, pu_get N s k, pd_get N s k)).
    { clear - H. induction univ as [|u univ IH]; cbn in H; [destruct H|]. destruct H as [H|H]; [congruence|auto]. }
    inversion E; subst. rewrite Gd, Gp, Gu, PD, !on_eqb_refl. reflexivity.
  - destruct kd; try reflexivity. apply Z.leb_le. exact L5.
Qed.

(* ---------- tracker runs ---------- *)
(* the iteration records carried by the operations are genuine: what the callbacks were shown was pending
   with that value, each key once, complete unless a stop was requested (checked by the oracle's own
   predicates against the model's previous dump) *)
Definition iter_valid (s : st N) (o : op N) : bool :=
  match o with
  | IterUpd tr => ok_iter_upd (kv_sort (DU s)) tr
  | IterDel tr => ok_iter_del (map fst (kv_sort (ND s))) tr
  | IterBatchUpd calls => ok_batch_upd (kv_sort (DU s)) calls
  | IterBatchDel calls => ok_batch_del (map fst (kv_sort (ND s))) calls
  | _ => true
  end.
Fixpoint tvalid (fixed : bool) (kd : kind) (s : st N) (ops : list (op N)) : Prop :=
  match ops with
  | [] => True
  | o :: r => op_ok N fixed s o /\ iter_valid s o = true /\ tvalid fixed kd (step N (veq_of kd) fixed s o) r
  end.

Lemma meets_tracker_from fixed kd univ ops : forall (c : cst N) (a : astate N),
  Inv N (veq_of kd) (c_t c) -> R N (veq_of kd) (c_t c) (a_D a, a_P a) ->
  c_dp c = [] -> a_R a = [] -> a_coh a = false -> tvalid fixed kd (c_t c) ops ->
  ok_trace_from kd univ a (kv_sort (DU (c_t c))) (map fst (kv_sort (ND (c_t c)))) (map COp ops)
                (run_obs fixed kd univ c (map COp ops)) = true.
Proof.
  induction ops as [|o ops IH]; intros c a I HR Hdp HaR Hcoh Hv; [reflexivity|].
  destruct Hv as (Ho & Hi & Hv).
  cbn [map run_obs ok_trace_from cstep a_cstep].
  set (s' := step N (veq_of kd) fixed (c_t c) o) in *.
  pose proof (step_inv N (veq_of kd) (veq_of_refl kd) (veq_of_sym kd) (veq_of_trans kd) fixed (c_t c) o Ho I) as I'.
  pose proof (step_R N (veq_of kd) (veq_of_refl kd) (veq_of_sym kd) (veq_of_trans kd) fixed (c_t c) (a_D a, a_P a) o Ho I HR) as R'.
  fold s' in I', R'.
  apply andb_true_intro; split; [apply andb_true_intro; split; [apply andb_true_intro; split|]|].
  - destruct o; try reflexivity; exact Hi.
  - apply ok_obs_observe; cbn [c_t]; [exact I'|]. destruct (a_step N (veq_of kd) (a_D a, a_P a) o); exact R'.
  - unfold ok_cache, observe. cbn [o_real o_nerr o_dp a_R a_coh c_dp]. rewrite Hdp, HaR, Hcoh. reflexivity.
  - cbn [o_pu o_pd observe].
    apply (IH (mkc s' (c_dp c) (c_loaded c))); cbn [c_t c_dp a_D a_P a_R a_coh]; auto; try (rewrite Hcoh; reflexivity).
Qed.

Theorem model_meets_spec fixed kd univ (ops : list (op N)) :
  tvalid fixed kd (st0 N) ops ->
  ok_trace kd univ (map COp ops) (run_obs fixed kd univ (cst0 N) (map COp ops)) = true.
Proof.
  intros Hv. unfold ok_trace.
  apply (meets_tracker_from fixed kd univ ops (cst0 N) (as0 N)); cbn; auto.
  - apply Inv_st0.
  - apply R_init.
Qed.

(* ---------- CachingMap runs: the model refines the abstract astate of Spec.v ---------- *)
Section CacheRef.
  Variable V : Type.
  Variable veq : V -> V -> bool.
  Hypothesis veq_refl : forall a, veq a a = true.
  Hypothesis veq_sym : forall a b, veq a b = veq b a.
  Hypothesis veq_trans : forall a b c, veq a b = true -> veq b c = true -> veq a c = true.
  Hypothesis kid : forall a b, veq a b = true -> a = b.      (* CachingMap: valuesEqual is == *)

  Definition CRb (c : cst V) (a : astate V) : Prop :=
    CI V veq c /\ R V veq (c_t c) (a_D a, a_P a) /\ NoDup (keys (a_R a)) /\
    (forall k, get (c_dp c) k = get (a_R a) k) /\ c_loaded c = a_loaded a /\ a_coh a = a_loaded a.

  Lemma oveq_eq x y : opt_veq V veq x y = true -> x = y.
  Proof. destruct x, y; cbn; try congruence. intros H. apply kid in H. congruence. Qed.

  Lemma pu_abs c a k : CRb c a -> get (DU (c_t c)) k = pending_update V veq (get (a_D a)) (get (a_P a)) k.
  Proof.
    intros (HC & [Rd Rp] & _). cbn [fst snd] in *.
    change (get (DU (c_t c)) k) with (pu_get V (c_t c) k). rewrite (inv_pu V veq veq_refl _ k (ci_inv _ _ _ HC)).
    unfold pending_update. rewrite (oveq_eq _ _ (Rd k)), (oveq_eq _ _ (Rp k)). reflexivity.
  Qed.
  Lemma pd_abs c a k : CRb c a -> get (ND (c_t c)) k = pending_del V (get (a_D a)) (get (a_P a)) k.
  Proof.
    intros (HC & [Rd Rp] & _). cbn [fst snd] in *.
    change (get (ND (c_t c)) k) with (pd_get V (c_t c) k). rewrite (inv_pd V veq _ k (ci_inv _ _ _ HC)).
    unfold pending_del. rewrite (oveq_eq _ _ (Rd k)), (oveq_eq _ _ (Rp k)). reflexivity.
  Qed.

  Lemma upd_visit_ref c a e x : CRb c a ->
    CRb (fst (c_upd_visit V (c, e) x)) (fst (a_upd_visit V veq (a, e) x)) /\
    snd (c_upd_visit V (c, e) x) = snd (a_upd_visit V veq (a, e) x).
  Proof.
    intros HCR. pose proof HCR as (HC & [Rd Rp] & NR & ER & EL & ECoh). cbn [fst snd] in *.
    destruct (c_upd_visit_ci V veq c e x HC) as (H1 & _ & H3 & H4 & _).
    pose proof (pu_abs c a (fst (fst x)) HCR) as F.
    unfold c_upd_visit, a_upd_visit in *. rewrite <- F.
    destruct (get (DU (c_t c)) (fst (fst x))) as [d|] eqn:E; [|cbn [fst snd]; auto].
    destruct (snd x); cbn [fst snd] in *; [|auto].
    split; [|reflexivity]. unfold CRb. cbn [c_t c_dp c_loaded a_D a_P a_R a_loaded a_coh].
    split; [exact H1|]. split.
    - split; cbn [fst snd]; intros k.
      + rewrite pu_visit_get. apply Rd.
      + rewrite pu_visit_dp. cbn [fst snd]. rewrite E, get_set. destruct (N.eqb (fst (fst x)) k); [apply oveq_refl, veq_refl|apply Rp].
    - repeat split; auto using NoDup_set. intros k. rewrite !get_set, ER. reflexivity.
  Qed.
  Lemma del_visit_ref c a e x : CRb c a ->
    CRb (fst (c_del_visit V (c, e) x)) (fst (a_del_visit V (a, e) x)) /\
    snd (c_del_visit V (c, e) x) = snd (a_del_visit V (a, e) x).
  Proof.
    intros HCR. pose proof HCR as (HC & [Rd Rp] & NR & ER & EL & ECoh). cbn [fst snd] in *.
    destruct (c_del_visit_ci V veq c e x HC) as (H1 & _ & H3 & H4 & _).
    pose proof (pd_abs c a (fst x) HCR) as F.
    unfold c_del_visit, a_del_visit in *. rewrite <- F.
    destruct (get (ND (c_t c)) (fst x)) as [d|] eqn:E; [|cbn [fst snd]; auto].
    destruct (snd x); cbn [fst snd] in *; [|auto].
    split; [|reflexivity]. unfold CRb. cbn [c_t c_dp c_loaded a_D a_P a_R a_loaded a_coh].
    split; [exact H1|]. split.
    - split; cbn [fst snd]; intros k.
      + rewrite pd_visit_get. apply Rd.
      + rewrite (pd_visit_dp V veq) by apply HC. cbn [fst snd]. rewrite E, get_del. destruct (N.eqb (fst x) k); [reflexivity|apply Rp].
    - repeat split; auto using NoDup_del. intros k. rewrite !get_del, ER. reflexivity.
  Qed.

  Lemma upd_fold_ref tr : forall c a e, CRb c a ->
    CRb (fst (fold_left (c_upd_visit V) tr (c, e))) (fst (fold_left (a_upd_visit V veq) tr (a, e))) /\
    snd (fold_left (c_upd_visit V) tr (c, e)) = snd (fold_left (a_upd_visit V veq) tr (a, e)).
  Proof.
    induction tr as [|x tr IH]; intros c a e H; cbn [fold_left]; [auto|].
    destruct (upd_visit_ref c a e x H) as (H1 & H2).
    destruct (c_upd_visit V (c, e) x) as [c1 e1], (a_upd_visit V veq (a, e) x) as [a1 e1']. cbn [fst snd] in *. subst. apply IH, H1.
  Qed.
  Lemma del_fold_ref tr : forall c a e, CRb c a ->
    CRb (fst (fold_left (c_del_visit V) tr (c, e))) (fst (fold_left (a_del_visit V) tr (a, e))) /\
    snd (fold_left (c_del_visit V) tr (c, e)) = snd (fold_left (a_del_visit V) tr (a, e)).
  Proof.
    induction tr as [|x tr IH]; intros c a e H; cbn [fold_left]; [auto|].
    destruct (del_visit_ref c a e x H) as (H1 & H2).
    destruct (c_del_visit V (c, e) x) as [c1 e1], (a_del_visit V (a, e) x) as [a1 e1']. cbn [fst snd] in *. subst. apply IH, H1.
  Qed.

  Lemma load_ref fixed fail c a : CRb c a ->
    CRb (fst (c_load V veq fixed fail c)) (fst (a_load V fail a)) /\ snd (c_load V veq fixed fail c) = snd (a_load V fail a).
  Proof.
    intros HCR. pose proof HCR as (HC & [Rd Rp] & NR & ER & EL & ECoh). cbn [fst snd] in *.
    unfold a_load. destruct fail; [unfold c_load; cbn [fst snd]; auto|].
    destruct (c_load_ok V veq veq_refl veq_sym veq_trans fixed c (ci_inv _ _ _ HC) (ci_nd _ _ _ HC)) as (H1 & H2 & H3 & H4). cbn zeta in *.
    split; [|reflexivity]. cbn [fst]. unfold CRb. cbn [a_D a_P a_R a_loaded a_coh].
    split; [exact H1|]. split.
    - split; cbn [fst snd]; intros k.
      + eapply oveq_trans; eauto.
      + rewrite (ci_coh _ _ _ H1 H2 k), H3, ER. apply oveq_refl, veq_refl.
    - repeat split; auto.
  Qed.
  Lemma maybe_load_ref fixed lf c a : CRb c a ->
    CRb (fst (c_maybe_load V veq fixed lf c)) (fst (a_maybe_load V lf a)) /\
    snd (c_maybe_load V veq fixed lf c) = snd (a_maybe_load V lf a).
  Proof.
    intros HCR. pose proof HCR as (_ & _ & _ & _ & EL & _). unfold c_maybe_load, a_maybe_load. rewrite EL.
    destruct (a_loaded a); [auto|apply load_ref, HCR].
  Qed.
  Lemma upd_ref fixed lf tr c a : CRb c a ->
    CRb (fst (c_upd V veq fixed lf tr c)) (fst (a_upd V veq lf tr a)) /\ snd (c_upd V veq fixed lf tr c) = snd (a_upd V veq lf tr a).
  Proof.
    intros HCR. unfold c_upd, a_upd. destruct (maybe_load_ref fixed lf c a HCR) as (H1 & H2).
    destruct (c_maybe_load V veq fixed lf c) as [c1 e1], (a_maybe_load V lf a) as [a1 e1']. cbn [fst snd] in *. subst.
    destruct (Z.eqb e1' 0); [apply upd_fold_ref, H1|auto].
  Qed.
  Lemma del_ref fixed lf tr c a : CRb c a ->
    CRb (fst (c_del V veq fixed lf tr c)) (fst (a_del V lf tr a)) /\ snd (c_del V veq fixed lf tr c) = snd (a_del V lf tr a).
  Proof.
    intros HCR. unfold c_del, a_del. destruct (maybe_load_ref fixed lf c a HCR) as (H1 & H2).
    destruct (c_maybe_load V veq fixed lf c) as [c1 e1], (a_maybe_load V lf a) as [a1 e1']. cbn [fst snd] in *. subst.
    destruct (Z.eqb e1' 0); [apply del_fold_ref, H1|auto].
  Qed.

  Lemma cstep_ref fixed c a o : cop_ok V o -> CRb c a ->
    CRb (fst (cstep V veq fixed c o)) (fst (a_cstep V veq a o)) /\ snd (cstep V veq fixed c o) = snd (a_cstep V veq a o).
  Proof.
    intros Ho HCR. pose proof HCR as (HC & HR & NR & ER & EL & ECoh).
    pose proof (cstep_ci V veq veq_refl veq_sym veq_trans fixed c o Ho HC) as HC'.
    destruct o as [o| | | | | | | | |]; cbn [cop_ok] in Ho; try contradiction.
    - cbn [cstep a_cstep fst snd] in *. split; [|reflexivity]. unfold CRb. cbn [c_t c_dp c_loaded a_D a_P a_R a_loaded a_coh].
      split; [exact HC'|]. split.
      + assert (Hok : op_ok V fixed (c_t c) o) by (destruct o; try contradiction; exact I).
        pose proof (step_R V veq veq_refl veq_sym veq_trans fixed (c_t c) (a_D a, a_P a) o Hok (ci_inv _ _ _ HC) HR) as R'.
        destruct (a_step V veq (a_D a, a_P a) o); exact R'.
      + repeat split; auto. rewrite ECoh. destruct o; try contradiction; cbn; apply andb_true_r.
    - cbn [cstep a_cstep]. apply load_ref, HCR.
    - cbn [cstep a_cstep]. apply upd_ref, HCR.
    - cbn [cstep a_cstep]. apply del_ref, HCR.
    - cbn [cstep a_cstep]. unfold c_all.
      destruct (del_ref fixed loadfail trd c a HCR) as (H1 & H2).
      destruct (c_del V veq fixed loadfail trd c) as [c1 e1], (a_del V loadfail trd a) as [a1 e1']. cbn [fst snd] in *. subst.
      destruct (upd_ref fixed loadfail tru c1 a1 H1) as (H3 & H4).
      destruct (c_upd V veq fixed loadfail tru c1) as [c2 e2], (a_upd V veq loadfail tru a1) as [a2 e2']. cbn [fst snd] in *. subst. auto.
  Qed.
End CacheRef.

Lemma all_none_nil {V} (m : amap V) : (forall k, get m k = None) -> m = [].
Proof. destruct m as [|[a v] m]; [reflexivity|]. intros H. specialize (H a). cbn in H. rewrite N.eqb_refl in H. discriminate. Qed.

(* validity of a CachingMap run: no writes behind the cache's back, Desired()-side tracker operations only,
   and the recorded Update/Delete calls of an ApplyAllChanges cover every pending key (the code ranges over
   the whole map) *)
Fixpoint cvalid (fixed : bool) (kd : kind) (c : cst N) (ops : list (cop N)) : Prop :=
  match ops with
  | [] => True
  | o :: r =>
      cop_ok N o /\
      (match o with
       | CAll lf trd tru =>
           let c1 := fst (c_maybe_load N (veq_of kd) fixed lf c) in
           (forall k, get (ND (c_t c1)) k <> None -> In k (map fst trd)) /\
           (forall k, get (DU (c_t c1)) k <> None -> In k (map (fun x => fst (fst x)) tru))
       | _ => True
       end) /\
      cvalid fixed kd (fst (cstep N (veq_of kd) fixed c o)) r
  end.

Lemma meets_cache_from fixed kd univ : (forall a b, veq_of kd a b = true -> a = b) ->
  forall ops (c : cst N) (a : astate N), CRb N (veq_of kd) c a -> cvalid fixed kd c ops ->
  ok_trace_from kd univ a (kv_sort (DU (c_t c))) (map fst (kv_sort (ND (c_t c)))) ops (run_obs fixed kd univ c ops) = true.
Proof.
  intros kid. induction ops as [|o ops IH]; intros c a HCR Hv; [reflexivity|].
  destruct Hv as (Ho & Hcov & Hv).
  destruct (cstep_ref N (veq_of kd) (veq_of_refl kd) (veq_of_sym kd) (veq_of_trans kd) kid fixed c a o Ho HCR) as (HCR' & He).
  cbn [run_obs ok_trace_from].
  destruct (cstep N (veq_of kd) fixed c o) as [c' e] eqn:EC. destruct (a_cstep N (veq_of kd) a o) as [a' e'] eqn:EA.
  cbn [fst snd] in *. subst e'.
  pose proof HCR' as (HC' & HR' & NR' & ER' & EL' & ECoh').
  pose proof (ci_inv _ _ _ HC') as I'. pose proof (ci_nd _ _ _ HC') as ND'.
  destruct (lens_exact N (veq_of kd) (c_t c') I') as ((_ & N1 & G1) & (_ & N2 & G2) & _).
  apply andb_true_intro; split; [apply andb_true_intro; split; [apply andb_true_intro; split|]|].
  - destruct o as [o| | | | | | | | |]; try reflexivity. destruct o; try reflexivity; contradiction.
  - apply ok_obs_observe; assumption.
  - unfold ok_cache, observe. cbn [o_real o_nerr o_dp o_des o_pu o_pd].
    apply andb_true_intro; split; [apply andb_true_intro; split; [apply andb_true_intro; split; [apply andb_true_intro; split|]|]|].
    + apply nodup_keysb_true, NoDup_kv_sort, ND'.
    + apply map_eqb_true; auto using NoDup_kv_sort. intros k. rewrite get_kv_sort by assumption. apply ER'.
    + apply Z.eqb_refl.
    + destruct (a_coh a') eqn:Ecoh; [|reflexivity].
      assert (L : c_loaded c' = true) by congruence.
      apply map_eqb_true; auto using NoDup_kv_sort. intros k. rewrite !get_kv_sort by assumption.
      rewrite G2. apply (ci_coh _ _ _ HC' L k).
    + destruct o as [o| | | | | | | | |]; try reflexivity; try (cbn in Ho; contradiction).
      destruct (a_coh a' && (e =? 0)%Z) eqn:Eg; [|reflexivity].
      apply andb_true_iff in Eg. destruct Eg as [_ Ez]. apply Z.eqb_eq in Ez.
      destruct Hcov as (CovD & CovU). cbn [cstep] in EC.
      pose proof (apply_all_converges N (veq_of kd) (veq_of_refl kd) (veq_of_sym kd) (veq_of_trans kd)
                    fixed loadfail trd tru c kid (let '(conj x _) := HCR in x) CovD CovU) as Conv.
      cbn zeta in Conv. rewrite EC in Conv. cbn [fst snd] in Conv. destruct (Conv Ez) as (_ & _ & C1 & C2 & C3 & _).
      assert (DU (c_t c') = []) as -> by (apply all_none_nil, C2).
      assert (ND (c_t c') = []) as -> by (apply all_none_nil, C3).
      apply andb_true_intro; split; [apply andb_true_intro; split|]; try reflexivity.
      apply map_eqb_true; auto using NoDup_kv_sort. intros k. rewrite !get_kv_sort by assumption. rewrite G1. apply C1.
  - cbn [o_pu o_pd observe]. apply IH; assumption.
Qed.

Theorem model_meets_spec_cache fixed kd univ (ops : list (cop N)) :
  (forall a b, veq_of kd a b = true -> a = b) ->
  cvalid fixed kd (cst0 N) ops ->
  ok_trace kd univ ops (run_obs fixed kd univ (cst0 N) ops) = true.
Proof.
  intros kid Hv. unfold ok_trace. apply (meets_cache_from fixed kd univ kid ops (cst0 N) (as0 N)); [|exact Hv].
  unfold CRb. split; [apply CI_cst0|]. split; [apply R_init|]. cbn. repeat split; auto using NoDup_nil.
Qed.

(* the validity hypotheses are satisfiable by non-trivial runs *)
Example ex_tvalid : tvalid false KExact (st0 N) ex_ops /\
  ok_trace KExact [0; 1; 2; 3; 4] (map COp ex_ops) (run_obs false KExact [0; 1; 2; 3; 4] (cst0 N) (map COp ex_ops)) = true.
Proof.
  split; [|vm_compute; reflexivity].
  unfold ex_ops. cbn [tvalid op_ok iter_valid]. repeat split; try (vm_compute; reflexivity).
  right. cbn [keys map fst]. repeat (apply NoDup_cons || apply NoDup_nil); cbn [In]; intuition discriminate.
Qed.

Definition ex_cops : list (cop N) :=
  [COp (DesSet 1 2); CLoad false; COp (DesSet 2 1); CUpd false [(2, 1, false); (1, 2, true)]; CAll false [] [(2, 1, true)]].
Example ex_cvalid : cvalid false KCache (cst0 N) ex_cops /\
  ok_trace KCache [0; 1; 2] ex_cops (run_obs false KCache [0; 1; 2] (cst0 N) ex_cops) = true.
Proof.
  split; [|vm_compute; reflexivity].
  unfold ex_cops. cbn [cvalid cop_ok]. repeat split; try exact I.
  - intros k H. vm_compute in H. congruence.
  - intros k H. cbn [map fst]. vm_compute in H.
    destruct (N.eqb_spec 2 k) as [<-|]; [left; reflexivity|]. exfalso. apply H.
    destruct k as [|p]; [reflexivity|]. destruct p as [p|p|]; try reflexivity; destruct p; try reflexivity; congruence.
Qed.
