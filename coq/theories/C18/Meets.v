(* C18 — the boolean oracle of Spec.v accepts every run of the model (model meets spec). *)
From Coq Require Import List NArith ZArith Bool Lia Permutation.
From Verif.C18 Require Import Model Spec MapLemmas Proofs Cache.
Import ListNotations.
Open Scope N_scope.

(* ---------- the sorted dumps ---------- *)
Lemma kv_insert_perm x l : Permutation (kv_insert x l) (x :: l).
Proof.
  induction l as [|y l IH]; cbn [kv_insert]; [reflexivity|].
  destruct (kv_leb x y); [reflexivity|]. rewrite IH. apply perm_swap.
Qed.
Lemma kv_sort_perm l : Permutation (kv_sort l) l.
Proof.
  induction l as [|x l IH]; [reflexivity|]. cbn [kv_sort fold_right]. fold (kv_sort l).
  rewrite kv_insert_perm. apply perm_skip, IH.
Qed.

Lemma perm_keys {V} (l l' : amap V) : Permutation l l' -> Permutation (keys l) (keys l').
Proof. apply Permutation_map. Qed.

Lemma perm_get {V} (l l' : amap V) : Permutation l l' -> NoDup (keys l) -> forall k, get l k = get l' k.
Proof.
  induction 1 as [|[a v] l l' P IH|[a v] [b w] l|l l' l'' P1 IH1 P2 IH2]; intros ND k.
  - reflexivity.
  - cbn [get]. inversion ND; subst. rewrite IH by assumption. reflexivity.
  - cbn [get]. cbn [keys map fst] in ND. inversion ND; subst.
    destruct (N.eqb_spec b k) as [->|], (N.eqb_spec a k) as [->|]; try reflexivity.
    exfalso. apply H1. left. reflexivity.
  - rewrite IH1 by assumption. apply IH2. eapply Permutation_NoDup; [apply perm_keys, P1|assumption].
Qed.

Lemma get_kv_sort l k : NoDup (keys l) -> get (kv_sort l) k = get l k.
Proof. intros ND. symmetry. apply perm_get; [symmetry; apply kv_sort_perm|assumption]. Qed.
Lemma NoDup_kv_sort l : NoDup (keys l) -> NoDup (keys (kv_sort l)).
Proof. intros ND. eapply Permutation_NoDup; [apply perm_keys; symmetry; apply kv_sort_perm|assumption]. Qed.
Lemma length_kv_sort l : length (kv_sort l) = length l.
Proof. apply Permutation_length, kv_sort_perm. Qed.

Lemma nodup_keysb_true l : NoDup l -> nodup_keysb l = true.
Proof.
  induction 1 as [|x l Hx Hl IH]; [reflexivity|]. cbn. fold (nodup_keysb l). rewrite IH, andb_true_r.
  apply negb_true_iff. destruct (existsb (N.eqb x) l) eqn:E; [|reflexivity].
  apply existsb_exists in E. destruct E as (y & Hy & Exy). apply N.eqb_eq in Exy. subst. contradiction.
Qed.

Lemma on_eqb_refl a : on_eqb a a = true.
Proof. destruct a; cbn; [apply N.eqb_refl|reflexivity]. Qed.

Lemma existsb_mem (l : amap N) k : existsb (N.eqb k) (keys l) = mem k l.
Proof.
  rewrite mem_get. induction l as [|[a v] l IH]; [reflexivity|]. cbn [keys map fst existsb get].
  rewrite (N.eqb_sym k a). destruct (N.eqb a k); [reflexivity|apply IH].
Qed.

Lemma in_get {V} (l : amap V) k v : NoDup (keys l) -> In (k, v) l -> get l k = Some v.
Proof.
  induction l as [|[a w] l IH]; [intros _ []|]. intros ND [H|H]; cbn [get keys map fst] in *; inversion ND; subst.
  - inversion H; subst. rewrite N.eqb_refl. reflexivity.
  - destruct (N.eqb_spec a k) as [->|]; [|auto]. exfalso. apply H2. change k with (fst (k, v)). apply in_map, H.
Qed.

Lemma map_eqb_true (a b : list (N * N)) : NoDup (keys a) -> NoDup (keys b) -> (forall k, get a k = get b k) -> map_eqb a b = true.
Proof.
  intros Na Nb E. unfold map_eqb. apply andb_true_intro. split; apply forallb_forall; intros [k v] H; cbn [fst snd].
  - rewrite <- E, (in_get a k v Na H). apply on_eqb_refl.
  - rewrite E, (in_get b k v Nb H). apply on_eqb_refl.
Qed.

(* ---------- valuesEqual of every kind is an equivalence ---------- *)
Lemma veq_of_refl kd a : veq_of kd a a = true.
Proof. destruct kd; cbn; auto using N.eqb_refl. Qed.
Lemma veq_of_sym kd a b : veq_of kd a b = veq_of kd b a.
Proof. destruct kd; cbn; auto using N.eqb_sym. Qed.
Lemma veq_of_trans kd a b c : veq_of kd a b = true -> veq_of kd b c = true -> veq_of kd a c = true.
Proof. destruct kd; cbn; auto; rewrite !N.eqb_eq; congruence. Qed.

(* ---------- the per-observation oracle accepts the model's observation ---------- *)
Lemma ok_obs_observe kd univ (c : cst N) D P calls nerr :
  Inv N (veq_of kd) (c_t c) -> R N (veq_of kd) (c_t c) (D, P) ->
  ok_obs kd univ D P (observe kd univ c calls nerr) = true.
Proof.
  intros I [Rd Rp]. cbn [fst snd] in *. set (s := c_t c) in *.
  pose proof (inv_ad _ _ s I) as NA. pose proof (inv_nd _ _ s I) as NN. pose proof (inv_du _ _ s I) as NU.
  destruct (lens_exact N (veq_of kd) s I) as ((L1 & N1 & G1) & (L2 & N2 & G2) & (L3 & _) & (L4 & _) & L5).
  assert (Gd : forall k, get (kv_sort (des_iter N s)) k = des_get N s k) by (intros; rewrite get_kv_sort; auto).
  assert (Gp : forall k, get (kv_sort (dp_iter N s)) k = dp_get N s k) by (intros; rewrite get_kv_sort; auto).
  assert (Gu : forall k, get (kv_sort (DU s)) k = pu_get N s k) by (intros; rewrite get_kv_sort; auto).
  assert (PU : forall k, pending_update N (veq_of kd) (get (kv_sort (des_iter N s))) (get (kv_sort (dp_iter N s))) k = pu_get N s k).
  { intros k. rewrite (inv_pu N (veq_of kd) (veq_of_refl kd) s k I). unfold pending_update. rewrite Gd, Gp. reflexivity. }
  assert (PD : forall k, pending_del N (get (kv_sort (des_iter N s))) (get (kv_sort (dp_iter N s))) k = pd_get N s k).
  { intros k. rewrite (inv_pd N (veq_of kd) s k I). unfold pending_del. rewrite Gd, Gp. reflexivity. }
  unfold ok_obs, observe. cbn [o_des o_deslen o_dp o_dplen o_pu o_pulen o_pd o_pdlen o_gets o_ub].
  fold s.
  repeat (apply andb_true_intro; split).
  - apply nodup_keysb_true, NoDup_kv_sort, N1.
  - apply nodup_keysb_true, NoDup_kv_sort, N2.
  - apply nodup_keysb_true, NoDup_kv_sort, NU.
  - apply nodup_keysb_true. apply (NoDup_kv_sort (ND s)), NN.
  - apply forallb_forall. intros k _. rewrite Gd, Gp, Rd, Rp. reflexivity.
  - apply forallb_forall. intros k _. rewrite PU, Gu. apply on_eqb_refl.
  - apply forallb_forall. intros k _. rewrite PD. change (map fst (kv_sort (ND s))) with (keys (kv_sort (ND s))).
    rewrite existsb_mem, mem_get, get_kv_sort by assumption. unfold pd_get. destruct (get (ND s) k); reflexivity.
  - apply Z.eqb_eq. unfold len. rewrite length_kv_sort. exact L1.
  - apply Z.eqb_eq. unfold len. rewrite length_kv_sort. exact L2.
  - apply Z.eqb_eq. unfold len. rewrite length_kv_sort. exact L3.
  - apply Z.eqb_eq. rewrite map_length, length_kv_sort. exact L4.
  - rewrite map_length. apply Nat.eqb_refl.
  - apply forallb_forall. intros [k [[[g1 g2] g3] g4]] H.
    assert (E : (g1, g2, g3, g4) = (des_get N s k, dp_get N s k, pu_get N s k, pd_get N s k)).
    { clear - H. induction univ as [|u univ IH]; cbn in H; [destruct H|]. destruct H as [H|H]; [congruence|auto]. }
    inversion E; subst. rewrite Gd, Gp, Gu, PD, !on_eqb_refl. reflexivity.
  - destruct kd; try reflexivity. apply Z.leb_le. exact L5.
Qed.

(* ---------- tracker runs ---------- *)
(* the iteration records carried by the operations are genuine: what the callbacks were shown was pending
   with that value, each key once, complete unless a stop was requested (checked by the oracle's own
   predicates against the model's previous dump) *)
Definition iter_valid (s : st N) (o : op N) : bool :=
  match o with
  | IterUpd tr => ok_iter_upd (kv_sort (DU s)) tr
  | IterDel tr => ok_iter_del (map fst (kv_sort (ND s))) tr
  | IterBatchUpd calls => ok_batch_upd (kv_sort (DU s)) calls
  | IterBatchDel calls => ok_batch_del (map fst (kv_sort (ND s))) calls
  | _ => true
  end.
Fixpoint tvalid (fixed : bool) (kd : kind) (s : st N) (ops : list (op N)) : Prop :=
  match ops with
  | [] => True
  | o :: r => op_ok N fixed s o /\ iter_valid s o = true /\ tvalid fixed kd (step N (veq_of kd) fixed s o) r
  end.

Lemma meets_tracker_from fixed kd univ ops : forall (c : cst N) (a : astate N),
  Inv N (veq_of kd) (c_t c) -> R N (veq_of kd) (c_t c) (a_D a, a_P a) ->
  c_dp c = [] -> a_R a = [] -> a_coh a = false -> tvalid fixed kd (c_t c) ops ->
  ok_trace_from kd univ a (kv_sort (DU (c_t c))) (map fst (kv_sort (ND (c_t c)))) (map COp ops)
                (run_obs fixed kd univ c (map COp ops)) = true.
Proof.
  induction ops as [|o ops IH]; intros c a I HR Hdp HaR Hcoh Hv; [reflexivity|].
  destruct Hv as (Ho & Hi & Hv).
  cbn [map run_obs ok_trace_from cstep a_cstep].
  set (s' := step N (veq_of kd) fixed (c_t c) o) in *.
  pose proof (step_inv N (veq_of kd) (veq_of_refl kd) (veq_of_sym kd) (veq_of_trans kd) fixed (c_t c) o Ho I) as I'.
  pose proof (step_R N (veq_of kd) (veq_of_refl kd) (veq_of_sym kd) (veq_of_trans kd) fixed (c_t c) (a_D a, a_P a) o Ho I HR) as R'.
  fold s' in I', R'.
  apply andb_true_intro; split; [apply andb_true_intro; split; [apply andb_true_intro; split|]|].
  - destruct o; try reflexivity; exact Hi.
  - apply ok_obs_observe; cbn [c_t]; [exact I'|]. destruct (a_step N (veq_of kd) (a_D a, a_P a) o); exact R'.
  - unfold ok_cache, observe. cbn [o_real o_nerr o_dp a_R a_coh c_dp]. rewrite Hdp, HaR, Hcoh. reflexivity.
  - cbn [o_pu o_pd observe].
    apply (IH (mkc s' (c_dp c) (c_loaded c))); cbn [c_t c_dp a_D a_P a_R a_coh]; auto; try (rewrite Hcoh; reflexivity).
Qed.

Theorem model_meets_spec fixed kd univ (ops : list (op N)) :
  tvalid fixed kd (st0 N) ops ->
  ok_trace kd univ (map COp ops) (run_obs fixed kd univ (cst0 N) (map COp ops)) = true.
Proof.
  intros Hv. unfold ok_trace.
  apply (meets_tracker_from fixed kd univ ops (cst0 N) (as0 N)); cbn; auto.
  - apply Inv_st0.
  - apply R_init.
Qed.

Lemma all_none_nil {V} (m : amap V) : (forall k, get m k = None) -> m = [].
Proof. destruct m as [|[a v] m]; [reflexivity|]. intros H. specialize (H a). cbn in H. rewrite N.eqb_refl in H. discriminate. Qed.

(* the validity hypotheses are satisfiable by non-trivial runs *)
Example ex_tvalid : tvalid false KExact (st0 N) ex_ops /\
  ok_trace KExact [0; 1; 2; 3; 4] (map COp ex_ops) (run_obs false KExact [0; 1; 2; 3; 4] (cst0 N) (map COp ex_ops)) = true.
Proof.
  split; [|vm_compute; reflexivity].
  unfold ex_ops. cbn [tvalid op_ok iter_valid]. repeat split; try (vm_compute; reflexivity).
  right. cbn [keys map fst]. repeat (apply NoDup_cons || apply NoDup_nil); cbn [In]; intuition discriminate.
Qed.

