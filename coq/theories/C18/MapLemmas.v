(* C18 — facts about the association-list maps of Model.v (Go map semantics: get/set/del/len). *)
From Coq Require Import List NArith ZArith Bool Lia Permutation.
From Verif.C18 Require Import Model.
Import ListNotations.
Open Scope N_scope.

Section Maps.
  Context {V : Type}.
  Implicit Types m : amap V.

  Lemma get_del k m k' : get (del k m) k' = if N.eqb k k' then None else get m k'.
  Proof.
    induction m as [|[a v] m IH]; cbn [del filter get fst].
    - destruct (N.eqb k k'); reflexivity.
    - fold (del k m). destruct (N.eqb_spec a k) as [->|Hak]; cbn [negb].
      + rewrite IH. destruct (N.eqb_spec k k'); reflexivity.
      + cbn [get]. rewrite IH. destruct (N.eqb_spec a k') as [->|]; [|reflexivity].
        destruct (N.eqb_spec k k'); [congruence|reflexivity].
  Qed.

  Lemma get_set k v m k' : get (set k v m) k' = if N.eqb k k' then Some v else get m k'.
  Proof. unfold set. cbn [get]. rewrite get_del. destruct (N.eqb k k'); reflexivity. Qed.

  Lemma in_keys_get m k : In k (keys m) <-> get m k <> None.
  Proof.
    induction m as [|[a v] m IH]; cbn [keys map get fst].
    - split; [tauto|congruence].
    - destruct (N.eqb_spec a k) as [->|Hak].
      + split; [intros _; discriminate|intros _; left; reflexivity].
      + fold (keys m). rewrite <- IH. split; [intros [?|?]; [congruence|auto]|intros; right; auto].
  Qed.

  Lemma not_in_keys_get m k : ~ In k (keys m) <-> get m k = None.
  Proof. rewrite in_keys_get. destruct (get m k); split; intros H; try congruence; try discriminate; exfalso; apply H; discriminate. Qed.

  Lemma mem_get m k : mem k m = match get m k with Some _ => true | None => false end.
  Proof. reflexivity. Qed.

  Lemma keys_del k m : keys (del k m) = filter (fun x => negb (N.eqb x k)) (keys m).
  Proof.
    induction m as [|[a v] m IH]; [reflexivity|].
    cbn [del filter keys map fst]. fold (del k m). destruct (N.eqb a k); cbn [negb map fst]; fold (keys m); fold (keys (del k m)); rewrite IH; reflexivity.
  Qed.

  Lemma NoDup_filter {A} (f : A -> bool) l : NoDup l -> NoDup (filter f l).
  Proof.
    induction 1 as [|x l Hx Hl IH]; cbn [filter]; [constructor|].
    destruct (f x); [constructor; [rewrite filter_In; tauto|assumption]|assumption].
  Qed.

  Lemma NoDup_del k m : NoDup (keys m) -> NoDup (keys (del k m)).
  Proof. rewrite keys_del. apply NoDup_filter. Qed.

  Lemma NoDup_set k v m : NoDup (keys m) -> NoDup (keys (set k v m)).
  Proof.
    intros H. unfold set. cbn [keys map fst]. fold (keys (del k m)). constructor.
    - rewrite in_keys_get, get_del, N.eqb_refl. congruence.
    - apply NoDup_del, H.
  Qed.

  (* lengths are determined by the key sets *)
  Lemma card_same m m' : NoDup (keys m) -> NoDup (keys m') ->
    (forall k, get m' k <> None <-> get m k <> None) -> length m' = length m.
  Proof.
    intros H H' E. rewrite <- (map_length fst m'), <- (map_length fst m). fold (keys m') (keys m).
    apply Permutation_length, NoDup_Permutation; auto.
    intros k. rewrite !in_keys_get. apply E.
  Qed.

  Lemma card_insert k m m' : NoDup (keys m) -> NoDup (keys m') ->
    (forall k', k' <> k -> (get m' k' <> None <-> get m k' <> None)) -> get m' k <> None ->
    length m' = if mem k m then length m else S (length m).
  Proof.
    intros H H' E Hk. rewrite mem_get. destruct (get m k) eqn:G.
    - apply card_same; auto. intros k'. destruct (N.eq_dec k' k) as [->|Hn]; [|auto].
      split; congruence.
    - rewrite <- (map_length fst m'), <- (map_length fst m). fold (keys m') (keys m).
      change (S (length (keys m))) with (length (k :: keys m)).
      apply Permutation_length, NoDup_Permutation; auto.
      + constructor; [rewrite in_keys_get; congruence|assumption].
      + intros k'. cbn [In]. rewrite !in_keys_get. destruct (N.eq_dec k' k) as [->|Hn].
        * tauto.
        * rewrite E by assumption. split; [auto|intros [?|?]; [congruence|auto]].
  Qed.

  Lemma card_remove k m m' : NoDup (keys m) -> NoDup (keys m') ->
    (forall k', k' <> k -> (get m' k' <> None <-> get m k' <> None)) -> get m' k = None ->
    length m = if mem k m then S (length m') else length m'.
  Proof.
    intros H H' E Hk.
    assert (X := card_insert k m' m H' H). rewrite mem_get in *. rewrite Hk in X.
    destruct (get m k) eqn:G.
    - apply X; [|congruence]. intros k' Hn. symmetry. apply E, Hn.
    - apply card_same; auto. intros k'. destruct (N.eq_dec k' k) as [->|Hn]; [|symmetry; auto].
      split; congruence.
  Qed.

  Lemma get_app m1 m2 k : get (m1 ++ m2) k = match get m1 k with Some v => Some v | None => get m2 k end.
  Proof.
    induction m1 as [|[a v] m1 IH]; [reflexivity|]. cbn [app get]. destruct (N.eqb a k); auto.
  Qed.

  Lemma get_filter_keys (f : N -> bool) m k :
    get (filter (fun p => f (fst p)) m) k = if f k then get m k else None.
  Proof.
    induction m as [|[a v] m IH]; cbn [filter get fst]; [destruct (f k); reflexivity|].
    destruct (f a) eqn:Fa; cbn [get]; destruct (N.eqb_spec a k) as [->|]; rewrite ?IH; try reflexivity.
    - rewrite Fa. reflexivity.
    - rewrite Fa. reflexivity.
  Qed.

  Lemma keys_app m1 m2 : keys (m1 ++ m2) = keys m1 ++ keys m2.
  Proof. apply map_app. Qed.

  Lemma NoDup_keys_app m1 m2 : NoDup (keys m1) -> NoDup (keys m2) ->
    (forall k, get m1 k <> None -> get m2 k = None) -> NoDup (keys (m1 ++ m2)).
  Proof.
    intros H1 H2 D. rewrite keys_app. induction m1 as [|[a v] m1 IH]; [assumption|].
    cbn [keys map fst app] in *. fold (keys m1) in *. inversion H1; subst. constructor.
    - rewrite in_app_iff. intros [?|Hin]; [tauto|].
      apply in_keys_get in Hin. apply Hin, (D a). cbn [get]. rewrite N.eqb_refl. congruence.
    - apply IH; auto. intros k Hk. apply D. cbn [get]. destruct (N.eqb a k); congruence.
  Qed.

  Lemma NoDup_keys_filter (f : N * V -> bool) m : NoDup (keys m) -> NoDup (keys (filter f m)).
  Proof.
    induction m as [|[a v] m IH]; cbn [filter keys map fst]; [auto|]. fold (keys m). intros H. inversion H; subst.
    destruct (f (a, v)); [|auto]. cbn [keys map fst]. fold (keys (filter f m)). constructor; [|auto].
    rewrite in_keys_get. intros Hc. apply H2. apply in_keys_get.
    clear - Hc. induction m as [|[b w] m IH]; cbn [filter get] in *; [congruence|].
    destruct (f (b, w)); cbn [get] in *; destruct (N.eqb b a); try congruence; auto.
  Qed.

  (* maps.Copy *)
  Lemma get_copy_into (dst src : amap V) k : NoDup (keys src) ->
    get (copy_into dst src) k = match get src k with Some v => Some v | None => get dst k end.
  Proof.
    unfold copy_into. revert dst. induction src as [|[a v] src IH]; intros dst H; [reflexivity|].
    cbn [fold_left fst snd get]. inversion H; subst. rewrite IH by assumption.
    fold (keys src) in *. destruct (N.eqb_spec a k) as [->|Hn].
    - apply not_in_keys_get in H2. rewrite H2, get_set, N.eqb_refl. reflexivity.
    - destruct (get src k); [reflexivity|]. rewrite get_set. destruct (N.eqb_spec a k); [congruence|reflexivity].
  Qed.

  Lemma NoDup_copy_into (dst src : amap V) : NoDup (keys dst) -> NoDup (keys (copy_into dst src)).
  Proof.
    unfold copy_into. revert dst. induction src as [|[a v] src IH]; intros dst H; [assumption|].
    cbn [fold_left]. apply IH, NoDup_set, H.
  Qed.
End Maps.

(* ---------- the batching protocol only redistributes the ranged items ---------- *)
Section Proto.
  Context {A : Type}.

  Lemma NoDup_app_l (l l' : list A) : NoDup (l ++ l') -> NoDup l.
  Proof.
    induction l as [|x l IH]; cbn; intros H; [constructor|]. inversion H; subst.
    constructor; [rewrite in_app_iff in *; tauto|auto].
  Qed.

  Lemma respond_perm (buf : list A) r :
    Permutation buf (fst (fst (respond buf r)) ++ snd (fst (respond buf r)) ++ snd (respond buf r)).
  Proof.
    unfold respond. cbn [fst snd]. rewrite <- (firstn_skipn (fst r) buf) at 1.
    apply Permutation_app_head. destruct (snd r); [|reflexivity].
    destruct (skipn (fst r) buf); reflexivity.
  Qed.

  Lemma applied_of_app (calls : list (list A * (nat * bool))) c :
    applied_of (calls ++ [c]) = applied_of calls ++ firstn (fst (snd c)) (fst c).
  Proof. unfold applied_of. rewrite map_app, concat_app. cbn. rewrite app_nil_r. reflexivity. Qed.

  Lemma ploop1_perm bs : forall (rng buf : list A) resps calls rest,
    let '(buf', _, calls', rest') := ploop1 bs rng buf resps calls rest in
    Permutation (applied_of calls ++ rest ++ buf ++ rng) (applied_of calls' ++ rest' ++ buf').
  Proof.
    induction rng as [|x rng IH]; intros buf resps calls rest; cbn [ploop1].
    - rewrite app_nil_r. reflexivity.
    - destruct (Nat.eqb (length (buf ++ [x])) bs).
      + pose proof (respond_perm (buf ++ [x]) (hd (0%nat, false) resps)) as P.
        destruct (respond (buf ++ [x]) (hd (0%nat, false) resps)) as [[ap sk] buf2] eqn:E. cbn [fst snd] in P.
        specialize (IH buf2 (tl resps) (calls ++ [(buf ++ [x], hd (0%nat, false) resps)]) (rest ++ sk)).
        destruct (ploop1 bs rng buf2 _ _ _) as [[[buf' resps'] calls'] rest'].
        rewrite <- IH. rewrite applied_of_app. cbn [fst snd].
        assert (ap = firstn (fst (hd (0%nat, false) resps)) (buf ++ [x])) as <- by (unfold respond in E; congruence).
        replace (buf ++ x :: rng) with ((buf ++ [x]) ++ rng) by (rewrite <- app_assoc; reflexivity).
        rewrite P. rewrite <- !app_assoc. apply Permutation_app_head. apply Permutation_app_swap_app.
      + specialize (IH (buf ++ [x]) resps calls rest).
        destruct (ploop1 bs rng (buf ++ [x]) resps calls rest) as [[[buf' resps'] calls'] rest'].
        rewrite <- IH. rewrite <- app_assoc. reflexivity.
  Qed.

  Lemma ptail_perm : forall resps (buf : list A) calls rest,
    let '(calls', rest') := ptail buf resps calls rest in
    Permutation (applied_of calls ++ rest ++ buf) (applied_of calls' ++ rest').
  Proof.
    induction resps as [|r resps IH]; intros buf calls rest; cbn [ptail]; [reflexivity|].
    destruct buf as [|b buf]; [rewrite app_nil_r; reflexivity|].
    pose proof (respond_perm (b :: buf) r) as P.
    destruct (respond (b :: buf) r) as [[ap sk] buf2] eqn:E. cbn [fst snd] in P.
    specialize (IH buf2 (calls ++ [(b :: buf, r)]) (rest ++ sk)).
    destruct (ptail buf2 resps _ _) as [calls' rest'].
    rewrite <- IH. rewrite applied_of_app. cbn [fst snd].
    assert (ap = firstn (fst r) (b :: buf)) as <- by (unfold respond in E; congruence).
    rewrite P. rewrite <- !app_assoc. apply Permutation_app_head. apply Permutation_app_swap_app.
  Qed.

  Lemma proto_perm bs (rng : list A) resps :
    Permutation rng (applied_of (fst (proto bs rng resps)) ++ snd (proto bs rng resps)).
  Proof.
    unfold proto. pose proof (ploop1_perm bs rng [] resps [] []) as P1.
    destruct (ploop1 bs rng [] resps [] []) as [[[buf resps'] calls] rest].
    pose proof (ptail_perm resps' buf calls rest) as P2.
    destruct (ptail buf resps' calls rest) as [calls' rest']. cbn [fst snd].
    cbn in P1. rewrite P1. exact P2.
  Qed.
End Proto.

Lemma proto_applied_keys {V} bs (rng : amap V) resps :
  NoDup (keys rng) ->
  NoDup (keys (applied_of (fst (proto bs rng resps)))) /\
  (forall kv, In kv (applied_of (fst (proto bs rng resps))) -> In kv rng).
Proof.
  intros ND. pose proof (proto_perm bs rng resps) as P. split.
  - apply (Permutation_map fst) in P. rewrite map_app in P.
    apply (NoDup_app_l _ (map fst (snd (proto bs rng resps)))). eapply Permutation_NoDup; [exact P|exact ND].
  - intros kv H. eapply Permutation_in; [symmetry; exact P|]. apply in_or_app. left. exact H.
Qed.
