(* C18 — CachingMap runs (per-key and DataplaneBatchedMap paths, out-of-band writes, raw tracker operations):
   the model refines the abstract astate of Spec.v and the boolean oracle accepts every such run. *)
From Coq Require Import List NArith ZArith Bool Lia Permutation.
From Verif.C18 Require Import Model Spec MapLemmas Proofs Cache Meets.
Import ListNotations.
Open Scope N_scope.

Section CacheRefG.
  Variable V : Type.
  Variable veq : V -> V -> bool.
  Hypothesis veq_refl : forall a, veq a a = true.
  Hypothesis veq_sym : forall a b, veq a b = veq b a.
  Hypothesis veq_trans : forall a b c, veq a b = true -> veq b c = true -> veq a c = true.
  Hypothesis kid : forall a b, veq a b = true -> a = b.      (* CachingMap: valuesEqual is == *)

  (* refinement relation; the abstract a_coh flag says when the cache is known to equal the real map *)
  Definition CRg (c : cst V) (a : astate V) : Prop :=
    Inv V veq (c_t c) /\ NoDup (keys (c_dp c)) /\ (a_coh a = true -> Coh V c) /\
    R V veq (c_t c) (a_D a, a_P a) /\ NoDup (keys (a_R a)) /\
    (forall k, get (c_dp c) k = get (a_R a) k) /\ c_loaded c = a_loaded a.

  Lemma oveq_eq x y : opt_veq V veq x y = true -> x = y.
  Proof. destruct x, y; cbn; try congruence. intros H. apply kid in H. congruence. Qed.

  Lemma pu_abs c a k : CRg c a -> get (DU (c_t c)) k = pending_update V veq (get (a_D a)) (get (a_P a)) k.
  Proof.
    intros (I & _ & _ & [Rd Rp] & _). cbn [fst snd] in *.
    change (get (DU (c_t c)) k) with (pu_get V (c_t c) k). rewrite (inv_pu V veq veq_refl _ k I).
    unfold pending_update. rewrite (oveq_eq _ _ (Rd k)), (oveq_eq _ _ (Rp k)). reflexivity.
  Qed.
  Lemma pd_abs c a k : CRg c a -> get (ND (c_t c)) k = pending_del V (get (a_D a)) (get (a_P a)) k.
  Proof.
    intros (I & _ & _ & [Rd Rp] & _). cbn [fst snd] in *.
    change (get (ND (c_t c)) k) with (pd_get V (c_t c) k). rewrite (inv_pd V veq _ k I).
    unfold pending_del. rewrite (oveq_eq _ _ (Rd k)), (oveq_eq _ _ (Rp k)). reflexivity.
  Qed.

  Lemma upd_visit_ref c a e x : CRg c a ->
    CRg (fst (c_upd_visit V (c, e) x)) (fst (a_upd_visit V veq (a, e) x)) /\
    snd (c_upd_visit V (c, e) x) = snd (a_upd_visit V veq (a, e) x).
  Proof.
    intros HCR. pose proof HCR as (I & NDp & C & [Rd Rp] & NR & ER & EL). cbn [fst snd] in *.
    pose proof (pu_abs c a (fst (fst x)) HCR) as F.
    unfold c_upd_visit, a_upd_visit. rewrite <- F.
    destruct (get (DU (c_t c)) (fst (fst x))) as [d|] eqn:E; [|cbn [fst snd]; auto].
    destruct (snd x); cbn [fst snd]; [|auto].
    split; [|reflexivity]. unfold CRg. cbn [c_t c_dp c_loaded a_D a_P a_R a_loaded a_coh].
    split; [apply pu_visit_inv; assumption|]. split; [apply NoDup_set, NDp|]. split.
    { intros Hc k. unfold Coh. cbn [c_t c_dp]. rewrite pu_visit_dp. cbn [fst snd]. rewrite E, get_set.
      destruct (N.eqb (fst (fst x)) k); [reflexivity|apply (C Hc)]. }
    split.
    { split; cbn [fst snd]; intros k.
      - rewrite pu_visit_get. apply Rd.
      - rewrite pu_visit_dp. cbn [fst snd]. rewrite E, get_set. destruct (N.eqb (fst (fst x)) k); [apply oveq_refl, veq_refl|apply Rp]. }
    split; [apply NoDup_set, NR|]. split; [|assumption]. intros k. rewrite !get_set, ER. reflexivity.
  Qed.
  Lemma del_visit_ref c a e x : CRg c a ->
    CRg (fst (c_del_visit V (c, e) x)) (fst (a_del_visit V (a, e) x)) /\
    snd (c_del_visit V (c, e) x) = snd (a_del_visit V (a, e) x).
  Proof.
    intros HCR. pose proof HCR as (I & NDp & C & [Rd Rp] & NR & ER & EL). cbn [fst snd] in *.
    pose proof (pd_abs c a (fst x) HCR) as F.
    unfold c_del_visit, a_del_visit. rewrite <- F.
    destruct (get (ND (c_t c)) (fst x)) as [d|] eqn:E; [|cbn [fst snd]; auto].
    destruct (snd x); cbn [fst snd]; [|auto].
    split; [|reflexivity]. unfold CRg. cbn [c_t c_dp c_loaded a_D a_P a_R a_loaded a_coh].
    split; [apply pd_visit_inv; assumption|]. split; [apply NoDup_del, NDp|]. split.
    { intros Hc k. unfold Coh. cbn [c_t c_dp]. rewrite (pd_visit_dp V veq) by assumption. cbn [fst snd]. rewrite E, get_del.
      destruct (N.eqb (fst x) k); [reflexivity|apply (C Hc)]. }
    split.
    { split; cbn [fst snd]; intros k.
      - rewrite pd_visit_get. apply Rd.
      - rewrite (pd_visit_dp V veq) by assumption. cbn [fst snd]. rewrite E, get_del. destruct (N.eqb (fst x) k); [reflexivity|apply Rp]. }
    split; [apply NoDup_del, NR|]. split; [|assumption]. intros k. rewrite !get_del, ER. reflexivity.
  Qed.

  Lemma upd_fold_ref tr : forall c a e, CRg c a ->
    CRg (fst (fold_left (c_upd_visit V) tr (c, e))) (fst (fold_left (a_upd_visit V veq) tr (a, e))) /\
    snd (fold_left (c_upd_visit V) tr (c, e)) = snd (fold_left (a_upd_visit V veq) tr (a, e)).
  Proof.
    induction tr as [|x tr IH]; intros c a e H; cbn [fold_left]; [auto|].
    destruct (upd_visit_ref c a e x H) as (H1 & H2).
    destruct (c_upd_visit V (c, e) x) as [c1 e1], (a_upd_visit V veq (a, e) x) as [a1 e1']. cbn [fst snd] in *. subst. apply IH, H1.
  Qed.
  Lemma del_fold_ref tr : forall c a e, CRg c a ->
    CRg (fst (fold_left (c_del_visit V) tr (c, e))) (fst (fold_left (a_del_visit V) tr (a, e))) /\
    snd (fold_left (c_del_visit V) tr (c, e)) = snd (fold_left (a_del_visit V) tr (a, e)).
  Proof.
    induction tr as [|x tr IH]; intros c a e H; cbn [fold_left]; [auto|].
    destruct (del_visit_ref c a e x H) as (H1 & H2).
    destruct (c_del_visit V (c, e) x) as [c1 e1], (a_del_visit V (a, e) x) as [a1 e1']. cbn [fst snd] in *. subst. apply IH, H1.
  Qed.

  Lemma load_ref fixed fail c a : CRg c a ->
    CRg (fst (c_load V veq fixed fail c)) (fst (a_load V fail a)) /\ snd (c_load V veq fixed fail c) = snd (a_load V fail a).
  Proof.
    intros HCR. pose proof HCR as (I & NDp & C & [Rd Rp] & NR & ER & EL). cbn [fst snd] in *.
    unfold a_load. destruct fail; [unfold c_load; cbn [fst snd]; auto|].
    destruct (c_load_ok V veq veq_refl veq_sym veq_trans fixed c I NDp) as (H1 & H2 & H3 & H4). cbn zeta in *.
    split; [|reflexivity]. cbn [fst]. unfold CRg. cbn [a_D a_P a_R a_loaded a_coh].
    split; [apply H1|]. split; [rewrite H3; exact NDp|]. split; [intros _; apply (ci_coh _ _ _ H1 H2)|]. split.
    { split; cbn [fst snd]; intros k.
      - eapply oveq_trans; eauto.
      - rewrite (ci_coh _ _ _ H1 H2 k), H3, ER. apply oveq_refl, veq_refl. }
    split; [exact NR|]. split; [intros k; rewrite H3; apply ER|exact H2].
  Qed.
  Lemma maybe_load_ref fixed lf c a : CRg c a ->
    CRg (fst (c_maybe_load V veq fixed lf c)) (fst (a_maybe_load V lf a)) /\
    snd (c_maybe_load V veq fixed lf c) = snd (a_maybe_load V lf a).
  Proof.
    intros HCR. pose proof HCR as (_ & _ & _ & _ & _ & _ & EL). unfold c_maybe_load, a_maybe_load. rewrite EL.
    destruct (a_loaded a); [auto|apply load_ref, HCR].
  Qed.
  Lemma upd_ref fixed lf tr c a : CRg c a ->
    CRg (fst (c_upd V veq fixed lf tr c)) (fst (a_upd V veq lf tr a)) /\ snd (c_upd V veq fixed lf tr c) = snd (a_upd V veq lf tr a).
  Proof.
    intros HCR. unfold c_upd, a_upd. destruct (maybe_load_ref fixed lf c a HCR) as (H1 & H2).
    destruct (c_maybe_load V veq fixed lf c) as [c1 e1], (a_maybe_load V lf a) as [a1 e1']. cbn [fst snd] in *. subst.
    destruct (Z.eqb e1' 0); [apply upd_fold_ref, H1|auto].
  Qed.
  Lemma del_ref fixed lf tr c a : CRg c a ->
    CRg (fst (c_del V veq fixed lf tr c)) (fst (a_del V lf tr a)) /\ snd (c_del V veq fixed lf tr c) = snd (a_del V lf tr a).
  Proof.
    intros HCR. unfold c_del, a_del. destruct (maybe_load_ref fixed lf c a HCR) as (H1 & H2).
    destruct (c_maybe_load V veq fixed lf c) as [c1 e1], (a_maybe_load V lf a) as [a1 e1']. cbn [fst snd] in *. subst.
    destruct (Z.eqb e1' 0); [apply del_fold_ref, H1|auto].
  Qed.

  (* ---- the DataplaneBatchedMap path is the per-key path on the items the batch calls reported done ---- *)
  Definition dp_sets (l : amap V) (m : amap V) : amap V := fold_left (fun m kv => set (fst kv) (snd kv) m) l m.
  Definition dp_dels (l : amap V) (m : amap V) : amap V := fold_left (fun m kv => del (fst kv) m) l m.

  Lemma fold_upd_all_ok l : forall c e, NoDup (keys l) -> (forall kv, In kv l -> get (DU (c_t c)) (fst kv) = Some (snd kv)) ->
    fold_left (c_upd_visit V) (map (fun kv => (fst kv, snd kv, true)) l) (c, e) =
    (mkc (fold_left (pu_apply V) l (c_t c)) (dp_sets l (c_dp c)) (c_loaded c), e).
  Proof.
    unfold dp_sets. induction l as [|[k v] l IH]; intros c e HND H; [destruct c; reflexivity|].
    cbn [map fold_left fst snd]. pose proof (H (k, v) (or_introl eq_refl)) as Hk. cbn [fst snd] in Hk.
    unfold c_upd_visit at 2. cbn [fst snd]. rewrite Hk.
    cbn [keys map fst] in HND. inversion HND; subst.
    rewrite IH; [|assumption|].
    - cbn [c_t c_dp c_loaded]. f_equal. f_equal. f_equal. unfold pu_apply, pu_visit. cbn [fst snd]. rewrite Hk. reflexivity.
    - intros [k' v'] Hin. cbn [fst snd c_t]. unfold pu_visit. rewrite Hk. cbn [DU]. rewrite get_del.
      destruct (N.eqb_spec k k') as [->|].
      + exfalso. apply H2. change k' with (fst (k', v')). apply in_map, Hin.
      + apply (H (k', v')). right. exact Hin.
  Qed.
  Lemma fold_del_all_ok l : forall c e, NoDup (keys l) -> (forall kv, In kv l -> get (ND (c_t c)) (fst kv) = Some (snd kv)) ->
    fold_left (c_del_visit V) (map (fun kv => (fst kv, true)) l) (c, e) =
    (mkc (fold_left (pd_apply V) l (c_t c)) (dp_dels l (c_dp c)) (c_loaded c), e).
  Proof.
    unfold dp_dels. induction l as [|[k v] l IH]; intros c e HND H; [destruct c; reflexivity|].
    cbn [map fold_left fst snd]. pose proof (H (k, v) (or_introl eq_refl)) as Hk. cbn [fst snd] in Hk.
    unfold c_del_visit at 2. cbn [fst snd]. rewrite Hk.
    cbn [keys map fst] in HND. inversion HND; subst.
    rewrite IH; [|assumption|].
    - cbn [c_t c_dp c_loaded]. f_equal. f_equal. f_equal. unfold pd_apply, pd_visit. cbn [fst snd]. rewrite Hk. reflexivity.
    - intros [k' v'] Hin. cbn [fst snd c_t]. unfold pd_visit. rewrite Hk. cbn [ND]. rewrite get_del.
      destruct (N.eqb_spec k k') as [->|].
      + exfalso. apply H2. change k' with (fst (k', v')). apply in_map, Hin.
      + apply (H (k', v')). right. exact Hin.
  Qed.

  (* the abstract visits only look at the key and the success flag *)
  Lemma a_upd_fold_keys (l1 : list (N * V)) : forall (l2 : list (N * V)) ae, keys l1 = keys l2 ->
    fold_left (a_upd_visit V veq) (map (fun kv => (fst kv, snd kv, true)) l1) ae =
    fold_left (a_upd_visit V veq) (map (fun kv => (fst kv, snd kv, true)) l2) ae.
  Proof.
    induction l1 as [|[k v] l1 IH]; intros [|[k' v'] l2] ae H; cbn [keys map fst] in H; try discriminate; [reflexivity|].
    inversion H; subst. cbn [map fold_left fst snd].
    replace (a_upd_visit V veq ae (k', v, true)) with (a_upd_visit V veq ae (k', v', true)) by (destruct ae; reflexivity).
    apply IH. assumption.
  Qed.
  Lemma a_del_fold_keys (l1 : list (N * V)) : forall (l2 : list (N * V)) ae, keys l1 = keys l2 ->
    fold_left (a_del_visit V) (map (fun kv => (fst kv, true)) l1) ae =
    fold_left (a_del_visit V) (map (fun kv => (fst kv, true)) l2) ae.
  Proof.
    induction l1 as [|[k v] l1 IH]; intros [|[k' v'] l2] ae H; cbn [keys map fst] in H; try discriminate; [reflexivity|].
    inversion H; subst. cbn [map fold_left fst snd]. apply IH. assumption.
  Qed.
  Definition upd_b_valid (fixed lf : bool) (calls : list (list (N * V) * (nat * N))) (c : cst V) : Prop :=
    snd (c_maybe_load V veq fixed lf c) = 0%Z ->
    keys (applied_of (snd (pu_iter_batched V batch_size (order_of_calls V (adj_calls V false calls)) (map snd (adj_calls V false calls))
                                             (c_t (fst (c_maybe_load V veq fixed lf c)))))) =
    keys (applied_of (adj_calls V false calls)).
  Definition del_b_valid (fixed lf : bool) (calls : list (list (N * V) * (nat * N))) (c : cst V) : Prop :=
    snd (c_maybe_load V veq fixed lf c) = 0%Z ->
    keys (applied_of (snd (pd_iter_batched V batch_size (order_of_calls V (adj_calls V true calls)) (map snd (adj_calls V true calls))
                                             (c_t (fst (c_maybe_load V veq fixed lf c)))))) =
    keys (applied_of (adj_calls V true calls)).

  (* the batched ApplyUpdatesOnly = the per-key one on the applied items, all succeeding *)
  Lemma c_upd_b_per_key fixed lf calls c : Inv V veq (c_t (fst (c_maybe_load V veq fixed lf c))) ->
    snd (c_maybe_load V veq fixed lf c) = 0%Z ->
    let shown := snd (c_upd_b V veq fixed lf calls c) in
    fst (fst (c_upd_b V veq fixed lf calls c)) =
    fst (fold_left (c_upd_visit V) (map (fun kv => (fst kv, snd kv, true)) (applied_of shown)) (fst (c_maybe_load V veq fixed lf c), 0%Z)).
  Proof.
    intros I1 E0. cbn zeta. unfold c_upd_b. destruct (c_maybe_load V veq fixed lf c) as [c1 e1]. cbn [fst snd] in *. subst e1.
    change (Z.eqb 0 0) with true. cbn iota. unfold pu_iter_batched. cbn [fst snd].
    set (calls_m := fst (proto batch_size _ _)).
    destruct (range_of_props V (order_of_calls V (adj_calls V false calls)) (DU (c_t c1)) (inv_du V veq _ I1)) as (R1 & R2).
    destruct (proto_applied_keys batch_size (range_of V (order_of_calls V (adj_calls V false calls)) (DU (c_t c1)))
                (map snd (adj_calls V false calls)) R1) as (P1 & P2). fold calls_m in P1, P2.
    rewrite fold_upd_all_ok; [reflexivity|exact P1|]. intros kv H. apply R2, P2, H.
  Qed.
  Lemma c_del_b_per_key fixed lf calls c : Inv V veq (c_t (fst (c_maybe_load V veq fixed lf c))) ->
    snd (c_maybe_load V veq fixed lf c) = 0%Z ->
    let shown := snd (c_del_b V veq fixed lf calls c) in
    fst (fst (c_del_b V veq fixed lf calls c)) =
    fst (fold_left (c_del_visit V) (map (fun kv => (fst kv, true)) (applied_of shown)) (fst (c_maybe_load V veq fixed lf c), 0%Z)).
  Proof.
    intros I1 E0. cbn zeta. unfold c_del_b. destruct (c_maybe_load V veq fixed lf c) as [c1 e1]. cbn [fst snd] in *. subst e1.
    change (Z.eqb 0 0) with true. cbn iota. unfold pd_iter_batched. cbn [fst snd].
    set (calls_m := fst (proto batch_size _ _)).
    destruct (range_of_props V (order_of_calls V (adj_calls V true calls)) (ND (c_t c1)) (inv_nd V veq _ I1)) as (R1 & R2).
    destruct (proto_applied_keys batch_size (range_of V (order_of_calls V (adj_calls V true calls)) (ND (c_t c1)))
                (map snd (adj_calls V true calls)) R1) as (P1 & P2). fold calls_m in P1, P2.
    rewrite fold_del_all_ok; [reflexivity|exact P1|]. intros kv H. apply R2, P2, H.
  Qed.

  Lemma upd_b_ref fixed lf calls c a : upd_b_valid fixed lf calls c -> CRg c a ->
    CRg (fst (fst (c_upd_b V veq fixed lf calls c))) (fst (a_upd_b V veq lf calls a)) /\
    snd (fst (c_upd_b V veq fixed lf calls c)) = snd (a_upd_b V veq lf calls a).
  Proof.
    intros Hv HCR. destruct (maybe_load_ref fixed lf c a HCR) as (H1 & H2).
    destruct (Z.eqb_spec (snd (c_maybe_load V veq fixed lf c)) 0) as [E0|E0].
    - pose proof (c_upd_b_per_key fixed lf calls c (let '(conj x _) := H1 in x) E0) as PK. cbn zeta in PK.
      specialize (Hv E0). rewrite PK. clear PK.
      unfold a_upd_b. unfold c_upd_b in *. destruct (c_maybe_load V veq fixed lf c) as [c1 e1], (a_maybe_load V lf a) as [a1 e1'].
      cbn [fst snd] in *. subst. change (Z.eqb 0 0) with true in *. cbn iota in *.
      destruct (pu_iter_batched V batch_size _ _ (c_t c1)) as [t' shown]. cbn [fst snd] in *.
      rewrite <- (a_upd_fold_keys (applied_of shown) _ (a1, 0%Z) Hv).
      split; [|reflexivity]. apply upd_fold_ref, H1.
    - unfold c_upd_b, a_upd_b. destruct (c_maybe_load V veq fixed lf c) as [c1 e1], (a_maybe_load V lf a) as [a1 e1'].
      cbn [fst snd] in *. subst. destruct (Z.eqb_spec e1' 0); [contradiction|]. cbn [fst snd]. auto.
  Qed.
  Lemma del_b_ref fixed lf calls c a : del_b_valid fixed lf calls c -> CRg c a ->
    CRg (fst (fst (c_del_b V veq fixed lf calls c))) (fst (a_del_b V lf calls a)) /\
    snd (fst (c_del_b V veq fixed lf calls c)) = snd (a_del_b V lf calls a).
  Proof.
    intros Hv HCR. destruct (maybe_load_ref fixed lf c a HCR) as (H1 & H2).
    destruct (Z.eqb_spec (snd (c_maybe_load V veq fixed lf c)) 0) as [E0|E0].
    - pose proof (c_del_b_per_key fixed lf calls c (let '(conj x _) := H1 in x) E0) as PK. cbn zeta in PK.
      specialize (Hv E0). rewrite PK. clear PK.
      unfold a_del_b. unfold c_del_b in *. destruct (c_maybe_load V veq fixed lf c) as [c1 e1], (a_maybe_load V lf a) as [a1 e1'].
      cbn [fst snd] in *. subst. change (Z.eqb 0 0) with true in *. cbn iota in *.
      destruct (pd_iter_batched V batch_size _ _ (c_t c1)) as [t' shown]. cbn [fst snd] in *.
      rewrite <- (a_del_fold_keys (applied_of shown) _ (a1, 0%Z) Hv).
      split; [|reflexivity]. apply del_fold_ref, H1.
    - unfold c_del_b, a_del_b. destruct (c_maybe_load V veq fixed lf c) as [c1 e1], (a_maybe_load V lf a) as [a1 e1'].
      cbn [fst snd] in *. subst. destruct (Z.eqb_spec e1' 0); [contradiction|]. cbn [fst snd]. auto.
  Qed.

  (* what a run must satisfy: raw tracker operations as in c18_views_exact; batched Apply records are the calls the code makes *)
  Definition cop_valid (fixed : bool) (c : cst V) (o : cop V) : Prop :=
    match o with
    | COp o => op_ok V fixed (c_t c) o
    | CUpdB lf calls => upd_b_valid fixed lf calls c
    | CDelB lf calls => del_b_valid fixed lf calls c
    | CAllB lf cd cu => del_b_valid fixed lf cd c /\ upd_b_valid fixed lf cu (fst (fst (c_del_b V veq fixed lf cd c)))
    | _ => True
    end.

  Lemma step_dp_same fixed s o : touches_dp V o = false -> Inv V veq s -> forall k, dp_get V (step V veq fixed s o) k = dp_get V s k.
  Proof.
    intros Ht I k. destruct o; cbn in Ht; try discriminate; cbn [step].
    - apply des_set_dp; assumption.
    - apply (des_delete_dp V veq); assumption.
    - apply (des_delete_all_dp V veq); assumption.
    - apply (fold_same V veq (fun s => dp_get V s k) (fun s kv => des_set V veq (fst kv) (snd kv) s)); auto using des_set_inv.
      intros. apply des_set_dp; assumption.
  Qed.

  Lemma cstep_ref fixed c a o : cop_valid fixed c o -> CRg c a ->
    CRg (fst (cstep V veq fixed c o)) (fst (a_cstep V veq a o)) /\ snd (cstep V veq fixed c o) = snd (a_cstep V veq a o).
  Proof.
    intros Ho HCR. pose proof HCR as (I & NDp & C & HR & NR & ER & EL).
    destruct o as [o| | | | | | | | |]; cbn [cop_valid] in Ho; cbn [cstep a_cstep].
    - cbn [fst snd]. split; [|reflexivity]. unfold CRg. cbn [c_t c_dp c_loaded a_D a_P a_R a_loaded a_coh].
      pose proof (step_R V veq veq_refl veq_sym veq_trans fixed (c_t c) (a_D a, a_P a) o Ho I HR) as R'.
      split; [apply step_inv; assumption|]. split; [assumption|]. split.
      { intros Hc. apply andb_true_iff in Hc. destruct Hc as [Hc Ht]. apply negb_true_iff in Ht.
        intros k. cbn [c_t c_dp]. rewrite (step_dp_same fixed _ o Ht I). apply (C Hc). }
      split; [destruct (a_step V veq (a_D a, a_P a) o); exact R'|]. auto.
    - cbn [fst snd]. split; [|reflexivity]. unfold CRg. cbn [c_t c_dp c_loaded a_D a_P a_R a_loaded a_coh].
      split; [exact I|]. split; [apply NoDup_set, NDp|]. split; [intros Hc; discriminate|]. split; [exact HR|].
      split; [apply NoDup_set, NR|]. split; [intros k'; rewrite !get_set, ER; reflexivity|exact EL].
    - cbn [fst snd]. split; [|reflexivity]. unfold CRg. cbn [c_t c_dp c_loaded a_D a_P a_R a_loaded a_coh].
      split; [exact I|]. split; [apply NoDup_del, NDp|]. split; [intros Hc; discriminate|]. split; [exact HR|].
      split; [apply NoDup_del, NR|]. split; [intros k'; rewrite !get_del, ER; reflexivity|exact EL].
    - apply load_ref, HCR.
    - apply upd_ref, HCR.
    - apply del_ref, HCR.
    - unfold c_all.
      destruct (del_ref fixed loadfail trd c a HCR) as (H1 & H2).
      destruct (c_del V veq fixed loadfail trd c) as [c1 e1], (a_del V loadfail trd a) as [a1 e1']. cbn [fst snd] in *. subst.
      destruct (upd_ref fixed loadfail tru c1 a1 H1) as (H3 & H4).
      destruct (c_upd V veq fixed loadfail tru c1) as [c2 e2], (a_upd V veq loadfail tru a1) as [a2 e2']. cbn [fst snd] in *. subst. auto.
    - apply upd_b_ref; assumption.
    - apply del_b_ref; assumption.
    - destruct Ho as (Hd & Hu).
      destruct (del_b_ref fixed loadfail callsd c a Hd HCR) as (H1 & H2).
      destruct (c_del_b V veq fixed loadfail callsd c) as [[c1 e1] sh1], (a_del_b V loadfail callsd a) as [a1 e1']. cbn [fst snd] in *. subst.
      destruct (upd_b_ref fixed loadfail callsu c1 a1 Hu H1) as (H3 & H4).
      destruct (c_upd_b V veq fixed loadfail callsu c1) as [[c2 e2] sh2], (a_upd_b V veq loadfail callsu a1) as [a2 e2']. cbn [fst snd] in *. subst. auto.
  Qed.
  (* ---- ApplyAllChanges over a DataplaneBatchedMap = ApplyAllChanges per key on the items reported done ---- *)
  Lemma a_visits_flags trd tru : forall a e,
    a_coh (fst (fold_left (a_del_visit V) trd (a, e))) = a_coh a /\ a_loaded (fst (fold_left (a_del_visit V) trd (a, e))) = a_loaded a /\
    a_coh (fst (fold_left (a_upd_visit V veq) tru (a, e))) = a_coh a /\ a_loaded (fst (fold_left (a_upd_visit V veq) tru (a, e))) = a_loaded a.
  Proof.
    assert (D : forall trd0 a e, a_coh (fst (fold_left (a_del_visit V) trd0 (a, e))) = a_coh a /\ a_loaded (fst (fold_left (a_del_visit V) trd0 (a, e))) = a_loaded a).
    { induction trd0 as [|x trd0 IH]; intros a e; cbn [fold_left]; [split; reflexivity|].
      assert (F : a_coh (fst (a_del_visit V (a, e) x)) = a_coh a /\ a_loaded (fst (a_del_visit V (a, e) x)) = a_loaded a)
        by (unfold a_del_visit; destruct (pending_del _ _ _ _); [destruct (snd x)|]; auto).
      destruct (a_del_visit V (a, e) x) as [a1 e1]. cbn [fst] in F. destruct F as [<- <-]. apply IH. }
    assert (U : forall tru0 a e, a_coh (fst (fold_left (a_upd_visit V veq) tru0 (a, e))) = a_coh a /\ a_loaded (fst (fold_left (a_upd_visit V veq) tru0 (a, e))) = a_loaded a).
    { induction tru0 as [|x tru0 IH]; intros a e; cbn [fold_left]; [split; reflexivity|].
      assert (F : a_coh (fst (a_upd_visit V veq (a, e) x)) = a_coh a /\ a_loaded (fst (a_upd_visit V veq (a, e) x)) = a_loaded a)
        by (unfold a_upd_visit; destruct (pending_update _ _ _ _ _); [destruct (snd x)|]; auto).
      destruct (a_upd_visit V veq (a, e) x) as [a1 e1]. cbn [fst] in F. destruct F as [<- <-]. apply IH. }
    intros a e. destruct (D trd a e), (U tru a e). auto.
  Qed.

  (* if the abstract cache is coherent after an Apply that loaded nothing new, it was coherent before *)
  Lemma coh_after_apply_loaded (o : cop V) a : a_loaded a = true ->
    match o with CAll _ _ _ | CAllB _ _ _ => a_coh (fst (a_cstep V veq a o)) = a_coh a | _ => True end.
  Proof.
    intros L. destruct o; try exact I; cbn [a_cstep].
    - unfold a_del, a_upd, a_maybe_load. rewrite L. change (Z.eqb 0 0) with true. cbn iota.
      destruct (fold_left (a_del_visit V) trd (a, 0%Z)) as [a1 e1] eqn:E1.
      pose proof (a_visits_flags trd [] a 0%Z) as (H1 & H2 & _). rewrite E1 in H1, H2. cbn [fst] in H1, H2.
      rewrite H2, L. change (Z.eqb 0 0) with true. cbn iota.
      pose proof (a_visits_flags [] tru a1 0%Z) as (_ & _ & H3 & _).
      destruct (fold_left (a_upd_visit V veq) tru (a1, 0%Z)) as [a2 e2] eqn:E2. cbn [fst] in *. congruence.
    - unfold a_del_b, a_upd_b, a_maybe_load. rewrite L. change (Z.eqb 0 0) with true. cbn iota.
      set (trd := map _ (applied_of (adj_calls V true callsd))).
      pose proof (a_visits_flags trd [] a 0%Z) as (H1 & H2 & _).
      cbn [fst snd]. rewrite H2, L. change (Z.eqb 0 0) with true. cbn iota. cbn [fst snd].
      set (tru := map _ (applied_of (adj_calls V false callsu))).
      pose proof (a_visits_flags [] tru (fst (fold_left (a_del_visit V) trd (a, 0%Z))) 0%Z) as (_ & _ & H3 & _).
      congruence.
  Qed.
  Lemma del_all_true_snd (l : list (N * V)) : forall c e,
    snd (fold_left (c_del_visit V) (map (fun kv => (fst kv, true)) l) (c, e)) = e.
  Proof.
    induction l as [|kv l IH]; intros c e; [reflexivity|]. cbn [map fold_left].
    unfold c_del_visit at 2. cbn [fst snd]. destruct (get (ND (c_t c)) (fst kv)); apply IH.
  Qed.
  Lemma upd_all_true_snd (l : list (N * V)) : forall c e,
    snd (fold_left (c_upd_visit V) (map (fun kv => (fst kv, snd kv, true)) l) (c, e)) = e.
  Proof.
    induction l as [|kv l IH]; intros c e; [reflexivity|]. cbn [map fold_left].
    unfold c_upd_visit at 2. cbn [fst snd]. destruct (get (DU (c_t c)) (fst kv)); apply IH.
  Qed.
  Lemma maybe_load_loaded fixed lf c : snd (c_maybe_load V veq fixed lf c) = 0%Z -> c_loaded (fst (c_maybe_load V veq fixed lf c)) = true.
  Proof.
    unfold c_maybe_load. destruct (c_loaded c) eqn:L; [intros _; exact L|]. unfold c_load. destruct lf; cbn; [discriminate|reflexivity].
  Qed.
  Lemma maybe_load_of_loaded fixed lf c : c_loaded c = true -> c_maybe_load V veq fixed lf c = (c, 0%Z).
  Proof. intros L. unfold c_maybe_load. rewrite L. reflexivity. Qed.

  Lemma del_fold_loaded tr : forall c e, c_loaded (fst (fold_left (c_del_visit V) tr (c, e))) = c_loaded c.
  Proof.
    induction tr as [|x tr IH]; intros c e; [reflexivity|]. cbn [fold_left].
    assert (F : c_loaded (fst (c_del_visit V (c, e) x)) = c_loaded c)
      by (unfold c_del_visit; destruct (get (ND (c_t c)) (fst x)); [destruct (snd x)|]; reflexivity).
    destruct (c_del_visit V (c, e) x) as [c1 e1]. cbn [fst] in F. rewrite <- F. apply IH.
  Qed.

  Lemma c_all_b_as_c_all fixed lf cd cu c a : CRg c a -> snd (c_maybe_load V veq fixed lf c) = 0%Z ->
    let rd := c_del_b V veq fixed lf cd c in
    let ru := c_upd_b V veq fixed lf cu (fst (fst rd)) in
    let trd := map (fun kv => (fst kv, true)) (applied_of (snd rd)) in
    let tru := map (fun kv => (fst kv, snd kv, true)) (applied_of (snd ru)) in
    c_all V veq fixed lf trd tru c = (fst (fst ru), 0%Z).
  Proof.
    intros HCR E0. cbn zeta.
    destruct (maybe_load_ref fixed lf c a HCR) as (H1 & _).
    pose proof (let '(conj x _) := H1 in x) as I1.
    pose proof (c_del_b_per_key fixed lf cd c I1 E0) as PD. cbn zeta in PD.
    pose proof (maybe_load_loaded fixed lf c E0) as L1.
    set (rd := c_del_b V veq fixed lf cd c) in *.
    set (trd := map (fun kv => (fst kv, true)) (applied_of (snd rd))) in *.
    (* the state after the deletion phase *)
    destruct (del_fold_ref trd (fst (c_maybe_load V veq fixed lf c)) (fst (a_maybe_load V lf a)) 0%Z H1) as (H2 & _).
    rewrite <- PD in H2. pose proof (let '(conj x _) := H2 in x) as I2.
    assert (L2 : c_loaded (fst (fst rd)) = true) by (rewrite PD, del_fold_loaded; exact L1).
    pose proof (maybe_load_of_loaded fixed lf (fst (fst rd)) L2) as ML2.
    assert (I2' : Inv V veq (c_t (fst (c_maybe_load V veq fixed lf (fst (fst rd)))))) by (rewrite ML2; exact I2).
    assert (E2 : snd (c_maybe_load V veq fixed lf (fst (fst rd))) = 0%Z) by (rewrite ML2; reflexivity).
    pose proof (c_upd_b_per_key fixed lf cu (fst (fst rd)) I2' E2) as PU. cbn zeta in PU. rewrite ML2 in PU. cbn [fst] in PU.
    unfold c_all, c_del, c_upd.
    destruct (c_maybe_load V veq fixed lf c) as [c1 e0] eqn:EL. cbn [fst snd] in *. subst e0.
    change (Z.eqb 0 0) with true. cbn iota.
    pose proof (del_all_true_snd (applied_of (snd rd)) c1 0%Z) as S1. fold trd in S1.
    destruct (fold_left (c_del_visit V) trd (c1, 0%Z)) as [c2 e1] eqn:ED. cbn [fst snd] in *. subst e1. subst c2.
    rewrite ML2. change (Z.eqb 0 0) with true. cbn iota.
    pose proof (upd_all_true_snd (applied_of (snd (c_upd_b V veq fixed lf cu (fst (fst rd))))) (fst (fst rd)) 0%Z) as S2.
    destruct (fold_left (c_upd_visit V) _ (fst (fst rd), 0%Z)) as [c3 e2] eqn:EU. cbn [fst snd] in *. subst. reflexivity.
  Qed.
End CacheRefG.

(* ---------- the oracle accepts every CachingMap run of the model ---------- *)
(* validity of a run: raw tracker operations as in c18_model_meets_spec; batched Apply records are the calls
   the code makes; and when an ApplyAllChanges returned nil its recorded calls cover every key that was pending
   (the code ranges over the whole map / keeps calling applyFn until nothing is left) *)
Fixpoint cvalid (fixed : bool) (kd : kind) (c : cst N) (ops : list (cop N)) : Prop :=
  match ops with
  | [] => True
  | o :: r =>
      cop_valid N (veq_of kd) fixed c o /\
      (match o with COp o' => iter_valid (c_t c) o' = true | _ => True end) /\
      (snd (cstep N (veq_of kd) fixed c o) = 0%Z ->
       match o with
       | CAll lf trd tru =>
           let c1 := fst (c_maybe_load N (veq_of kd) fixed lf c) in
           (forall k, get (ND (c_t c1)) k <> None -> In k (map fst trd)) /\
           (forall k, get (DU (c_t c1)) k <> None -> In k (map (fun x => fst (fst x)) tru))
       | CAllB lf cd cu =>
           let c1 := fst (c_maybe_load N (veq_of kd) fixed lf c) in
           let rd := c_del_b N (veq_of kd) fixed lf cd c in
           let ru := c_upd_b N (veq_of kd) fixed lf cu (fst (fst rd)) in
           (forall k, get (ND (c_t c1)) k <> None -> In k (keys (applied_of (snd rd)))) /\
           (forall k, get (DU (c_t c1)) k <> None -> In k (keys (applied_of (snd ru))))
       | _ => True
       end) /\
      cvalid fixed kd (fst (cstep N (veq_of kd) fixed c o)) r
  end.

Lemma maybe_load_err_range (V : Type) veq fixed lf (c : cst V) : snd (c_maybe_load V veq fixed lf c) = 0%Z \/ snd (c_maybe_load V veq fixed lf c) = 1%Z.
Proof. unfold c_maybe_load. destruct (c_loaded c); [left; reflexivity|]. unfold c_load. destruct lf; cbn; auto. Qed.

Lemma meets_cache_from fixed kd univ : (forall a b, veq_of kd a b = true -> a = b) ->
  forall ops (c : cst N) (a : astate N), CRg N (veq_of kd) c a -> cvalid fixed kd c ops ->
  ok_trace_from kd univ a (kv_sort (DU (c_t c))) (map fst (kv_sort (ND (c_t c)))) ops (run_obs fixed kd univ c ops) = true.
Proof.
  intros kid. induction ops as [|o ops IH]; intros c a HCR Hv; [reflexivity|].
  destruct Hv as (Ho & Hi & Hcov & Hv).
  pose proof (veq_of_refl kd) as vr. pose proof (veq_of_sym kd) as vs. pose proof (veq_of_trans kd) as vt.
  destruct (cstep_ref N (veq_of kd) vr vs vt kid fixed c a o Ho HCR) as (HCR' & He).
  cbn [run_obs ok_trace_from].
  destruct (cstep N (veq_of kd) fixed c o) as [c' e] eqn:EC. destruct (a_cstep N (veq_of kd) a o) as [a' e'] eqn:EA.
  cbn [fst snd] in *. subst e'.
  pose proof HCR as (I0 & ND0 & C0 & _ & _ & _ & EL0).
  pose proof HCR' as (I' & ND' & C' & HR' & NR' & ER' & EL').
  destruct (lens_exact N (veq_of kd) (c_t c') I') as ((_ & N1 & G1) & (_ & N2 & G2) & _).
  (* convergence after a successful ApplyAllChanges on a coherent cache, both paths *)
  assert (Conv : a_coh a' = true -> e = 0%Z ->
            match o with CAll _ _ _ | CAllB _ _ _ =>
              (forall k, get (c_dp c') k = des_get N (c_t c') k) /\ (forall k, pu_get N (c_t c') k = None) /\ (forall k, pd_get N (c_t c') k = None)
            | _ => True end).
  { intros Hc Ez. destruct o as [o| | | | | |lf trd tru| | |lf cd cu]; try exact I.
    - (* per-key path *)
      assert (HCI : CI N (veq_of kd) c).
      { constructor; auto. intros L. apply C0. pose proof (coh_after_apply_loaded N (veq_of kd) (CAll lf trd tru) a) as X.
        cbn match in X. rewrite EA in X. cbn [fst] in X. rewrite <- X; [exact Hc|congruence]. }
      destruct (Hcov Ez) as (CovD & CovU). cbn [cstep] in EC.
      pose proof (apply_all_converges N (veq_of kd) vr vs vt fixed lf trd tru c kid HCI CovD CovU) as Cv.
      cbn zeta in Cv. rewrite EC in Cv. cbn [fst snd] in Cv. destruct (Cv Ez) as (_ & _ & C1 & C2 & C3 & _). auto.
    - (* DataplaneBatchedMap path: the same ApplyAllChanges per key on the items reported done *)
      assert (HCI : CI N (veq_of kd) c).
      { constructor; auto. intros L. apply C0. pose proof (coh_after_apply_loaded N (veq_of kd) (CAllB lf cd cu) a) as X.
        cbn match in X. rewrite EA in X. cbn [fst] in X. rewrite <- X; [exact Hc|congruence]. }
      destruct (Hcov Ez) as (CovD & CovU). cbn zeta in CovD, CovU.
      assert (E0 : snd (c_maybe_load N (veq_of kd) fixed lf c) = 0%Z).
      { destruct (maybe_load_err_range N (veq_of kd) fixed lf c) as [H|H]; [exact H|]. exfalso.
        cbn [cstep] in EC. unfold c_del_b in EC at 1. destruct (c_maybe_load N (veq_of kd) fixed lf c) as [c1 e0]. cbn [snd] in H. subst e0.
        change (Z.eqb 1 0) with false in EC. cbn iota in EC. cbn [fst] in EC.
        destruct (fst (c_upd_b N (veq_of kd) fixed lf cu c1)) as [c2 e2]. inversion EC. subst. destruct (Z.eqb e2 0); discriminate. }
      pose proof (c_all_b_as_c_all N (veq_of kd) vr vs vt kid fixed lf cd cu c a HCR E0) as EQ. cbn zeta in EQ.
      set (rd := c_del_b N (veq_of kd) fixed lf cd c) in *. set (ru := c_upd_b N (veq_of kd) fixed lf cu (fst (fst rd))) in *.
      assert (Ec' : c' = fst (fst ru)).
      { cbn [cstep] in EC. fold rd in EC. destruct (fst rd) as [c1 e1] eqn:E1. cbn [fst] in ru. fold ru in EC.
        destruct (fst ru) as [c2 e2] eqn:E2. inversion EC. reflexivity. }
      pose proof (apply_all_converges N (veq_of kd) vr vs vt fixed lf (map (fun kv : N * N => (fst kv, true)) (applied_of (snd rd)))
                    (map (fun kv : N * N => (fst kv, snd kv, true)) (applied_of (snd ru))) c kid HCI) as Cv. cbn zeta in Cv.
      rewrite EQ in Cv. cbn [fst snd] in Cv. rewrite <- Ec' in Cv.
      destruct Cv as (_ & _ & C1 & C2 & C3 & _); auto.
      + intros k Hk. rewrite map_map. cbn [fst]. apply CovD, Hk.
      + intros k Hk. rewrite map_map. cbn [fst]. apply CovU, Hk. }
  apply andb_true_intro; split; [apply andb_true_intro; split; [apply andb_true_intro; split|]|].
  - destruct o as [o| | | | | | | | |]; try reflexivity. destruct o; try reflexivity; exact Hi.
  - apply ok_obs_observe; assumption.
  - unfold ok_cache, observe. cbn [o_real o_nerr o_dp o_des o_pu o_pd].
    apply andb_true_intro; split; [apply andb_true_intro; split; [apply andb_true_intro; split; [apply andb_true_intro; split|]|]|].
    + apply nodup_keysb_true, NoDup_kv_sort, ND'.
    + apply map_eqb_true; auto using NoDup_kv_sort. intros k. rewrite get_kv_sort by assumption. apply ER'.
    + apply Z.eqb_refl.
    + destruct (a_coh a') eqn:Ecoh; [|reflexivity].
      apply map_eqb_true; auto using NoDup_kv_sort. intros k. rewrite !get_kv_sort by assumption.
      rewrite G2. apply (C' eq_refl k).
    + assert (Fin : a_coh a' && (e =? 0)%Z = true ->
                (forall k, get (c_dp c') k = des_get N (c_t c') k) -> (forall k, pu_get N (c_t c') k = None) -> (forall k, pd_get N (c_t c') k = None) ->
                map_eqb (kv_sort (c_dp c')) (kv_sort (des_iter N (c_t c'))) && Nat.eqb (length (kv_sort (DU (c_t c')))) 0
                && Nat.eqb (length (map fst (kv_sort (ND (c_t c'))))) 0 = true).
      { intros _ C1 C2 C3.
        assert (DU (c_t c') = []) as -> by (apply all_none_nil, C2).
        assert (ND (c_t c') = []) as -> by (apply all_none_nil, C3).
        apply andb_true_intro; split; [apply andb_true_intro; split|]; try reflexivity.
        apply map_eqb_true; auto using NoDup_kv_sort. intros k. rewrite !get_kv_sort by assumption. rewrite G1. apply C1. }
      destruct o as [o| | | | | | | | |]; try reflexivity.
      all: destruct (a_coh a' && (e =? 0)%Z) eqn:Eg; try reflexivity.
      all: pose proof Eg as Eg'; apply andb_true_iff in Eg'; destruct Eg' as [Hc Ez]; apply Z.eqb_eq in Ez.
      all: destruct (Conv Hc Ez) as (C1 & C2 & C3); apply Fin; auto.
  - cbn [o_pu o_pd observe]. apply IH; assumption.
Qed.

Theorem model_meets_spec_cache fixed kd univ (ops : list (cop N)) :
  (forall a b, veq_of kd a b = true -> a = b) ->
  cvalid fixed kd (cst0 N) ops ->
  ok_trace kd univ ops (run_obs fixed kd univ (cst0 N) ops) = true.
Proof.
  intros kid Hv. unfold ok_trace. apply (meets_cache_from fixed kd univ kid ops (cst0 N) (as0 N)); [|exact Hv].
  unfold CRg. cbn [cst0 as0 c_t c_dp c_loaded a_D a_P a_R a_loaded a_coh].
  split; [apply Inv_st0|]. split; [apply NoDup_nil|]. split; [discriminate|]. split; [apply R_init|].
  split; [apply NoDup_nil|]. split; [reflexivity|reflexivity].
Qed.

(* the validity hypotheses are satisfiable: out-of-band write, load, raw Dataplane()-side operation, failing per-key
   Apply, then ApplyAllChanges over a DataplaneBatchedMap *)
Definition ex_cops : list (cop N) :=
  [COp (DesSet 1 2); ExtSet 3 1; CLoad false; COp (DesSet 2 1); COp (DpSet 2 2);
   CUpd false [(2, 1, false); (1, 2, true)]; CAllB false [([(3, 1)], (1%nat, 0))] [([(2, 1)], (1%nat, 0))]].
Example ex_cvalid : cvalid false KCache (cst0 N) ex_cops /\
  ok_trace KCache [0; 1; 2; 3] ex_cops (run_obs false KCache [0; 1; 2; 3] (cst0 N) ex_cops) = true.
Proof.
  split; [|vm_compute; reflexivity].
  unfold ex_cops. cbn [cvalid cop_valid op_ok iter_valid]. repeat split; try exact I; try (intros _; exact I);
    try (intros _; vm_compute; reflexivity).
  - intros k H0. clear H. vm_compute in H0 |- *. rename H0 into H.
    destruct (N.eqb_spec 3 k) as [<-|]; [left; reflexivity|]. exfalso. apply H.
    destruct k as [|p]; [reflexivity|]. do 3 (try destruct p as [p|p|]); try reflexivity; congruence.
  - intros k H0. clear H. vm_compute in H0 |- *. rename H0 into H.
    destruct (N.eqb_spec 2 k) as [<-|]; [left; reflexivity|]. exfalso. apply H.
    destruct k as [|p]; [reflexivity|]. do 3 (try destruct p as [p|p|]); try reflexivity; congruence.
Qed.
