(* C18 — callbacks that call back into the tracker while PendingUpdates().Iter is visiting a key.
   (No caller in /repo does this with a mutating call; they only read.  The main theorems assume it away;
   here is what the code does if it happens, and what the repaired Iter does.) *)
From Coq Require Import List NArith ZArith Bool Lia.
From Verif.C18 Require Import Model Spec MapLemmas Proofs.
Import ListNotations.
Open Scope N_scope.

Section Reentrant.
  Variable V : Type.
  Variable veq : V -> V -> bool.
  Hypothesis veq_refl : forall a, veq a a = true.
  Hypothesis veq_sym : forall a b, veq a b = veq b a.
  Hypothesis veq_trans : forall a b c, veq a b = true -> veq b c = true -> veq a c = true.

  (* one loop turn: k, v := range desiredUpdates; the callback runs the tracker operations `cb`, answers `a`;
     pinned code: delete(desiredUpdates, k); inDataplaneAndDesired[k] = v  with the v captured BEFORE the callback *)
  Definition pu_visit_re (fixed : bool) (s : st V) (k : N) (cb : list (op V)) (a : act) : st V :=
    match get (DU s) k with
    | None => s
    | Some v =>
        let s1 := fold_left (step V veq fixed) cb s in
        match a with
        | AUpd => mk (set k v (AD s1)) (ND s1) (del k (DU s1)) (dlen s1)
        | _ => s1
        end
    end.
  (* fixes/C18-iter-update-as-dataplane-set.patch: the UpdateDataplane answer really calls Dataplane().Set(k, v) *)
  Definition pu_visit_re_fix (fixed : bool) (s : st V) (k : N) (cb : list (op V)) (a : act) : st V :=
    match get (DU s) k with
    | None => s
    | Some v =>
        let s1 := fold_left (step V veq fixed) cb s in
        match a with
        | AUpd => dp_set V veq k v s1
        | _ => s1
        end
    end.

  (* callbacks that leave k pending with the value they were shown (reads, other keys, ...) are harmless *)
  Theorem reentrant_harmless fixed s k cb v : get (DU s) k = Some v ->
    get (DU (fold_left (step V veq fixed) cb s)) k = Some v ->
    pu_visit_re fixed s k cb AUpd = pu_visit V (fold_left (step V veq fixed) cb s) (k, AUpd) /\
    pu_visit_re_fix fixed s k cb AUpd = pu_visit V (fold_left (step V veq fixed) cb s) (k, AUpd).
  Proof using veq_refl.
    intros E E1. unfold pu_visit_re, pu_visit_re_fix, pu_visit. rewrite E, E1. split; [reflexivity|].
    unfold dp_set, des_get. rewrite E1, veq_refl. reflexivity.
  Qed.

  (* the repaired Iter with ANY re-entrant callback is just the callback's operations followed by Dataplane().Set(k, v):
     covered by c18_views_exact *)
  Theorem reentrant_fixed_exact fixed s DP k cb v : Inv V veq s -> R V veq s DP -> ops_ok V veq fixed s cb ->
    get (DU s) k = Some v ->
    let s' := pu_visit_re_fix fixed s k cb AUpd in
    Inv V veq s' /\ R V veq s' (a_step V veq (fold_left (a_step V veq) cb DP) (DpSet k v)).
  Proof using All.
    intros I HR Hok E. cbn zeta. unfold pu_visit_re_fix. rewrite E.
    destruct (run_from V veq veq_refl veq_sym veq_trans fixed cb s DP Hok I HR) as (I1 & R1).
    split.
    - apply (step_inv V veq veq_refl veq_sym veq_trans fixed _ (DpSet k v) Logic.I I1).
    - apply (step_R V veq veq_refl veq_sym veq_trans fixed _ _ (DpSet k v) Logic.I I1 R1).
  Qed.
End Reentrant.

(* the pinned Iter: a callback that changes the desired value of the key being applied has its change overwritten
   (Desired().Set(1,1); Iter: callback does Desired().Set(1,2) and answers UpdateDataplane  =>  Desired().Get(1) = 1) *)
Theorem reentrant_set_lost_refuted :
  exists (s : st N) (k : N) (cb : list (op N)),
    Inv N N.eqb s /\ pu_get N s k <> None /\
    des_get N (pu_visit_re N N.eqb false s k cb AUpd) k <> des_get N (fold_left (step N N.eqb false) cb s) k.
Proof.
  exists (des_set N N.eqb 1 1 (st0 N)), 1, [DesSet 1 2]. split; [|split].
  - apply des_set_inv; try apply Inv_st0; intros; try apply N.eqb_refl; try apply N.eqb_sym;
      try (match goal with H : _ |- _ => revert H end; rewrite !N.eqb_eq; congruence).
  - vm_compute. discriminate.
  - vm_compute. discriminate.
Qed.
