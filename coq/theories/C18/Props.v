(* C18 — property theorems only.  Each is closed by `exact <lemma>` and followed by Print Assumptions.
   V: any value type; veq: the tracker's valuesEqual, assumed a decidable equivalence; keys are N.
   `run V veq fixed ops` is the model's state after the operation list `ops` from the empty tracker
   (fixed=false: the code as pinned; fixed=true: with fixes/C18-replace-iter-duplicate-key.patch);
   `a_run V veq ops` are the two abstract maps (D, P) of Spec.v after the same operations.
   Iteration order and callback answers are part of the operations (IterUpd/IterDel carry the visit
   sequence), so they are universally quantified with `ops`.
   `op_ok false o` asks only that a Replace's iterator produces no key twice (see the refuted theorem). *)
From Coq Require Import List NArith ZArith Bool.
From Verif.C18 Require Import Model Spec Proofs.
Import ListNotations.
Open Scope N_scope.

(* After any operation sequence the four views equal the two abstract maps (up to valuesEqual) and
   their exact difference. *)
Theorem c18_views_exact : forall (V : Type) (veq : V -> V -> bool),
  (forall a, veq a a = true) -> (forall a b, veq a b = veq b a) ->
  (forall a b c, veq a b = true -> veq b c = true -> veq a c = true) ->
  forall (fixed : bool) (ops : list (op V)), Forall (op_ok V fixed) ops ->
  let s := run V veq fixed ops in
  views_exact V veq (views_of V s) (fst (a_run V veq ops)) (snd (a_run V veq ops)).
Proof. exact views_exact_run. Qed.
Print Assumptions c18_views_exact.

(* With valuesEqual = identity (the cachingmap case, ==) the equalities are literal. *)
Theorem c18_views_identical : forall (V : Type) (veq : V -> V -> bool),
  (forall a b, veq a b = true <-> a = b) ->
  forall (fixed : bool) (ops : list (op V)), Forall (op_ok V fixed) ops ->
  let s := run V veq fixed ops in
  (forall k, des_get V s k = get (fst (a_run V veq ops)) k) /\
  (forall k, dp_get V s k = get (snd (a_run V veq ops)) k) /\
  (forall k, pu_get V s k = pending_update V veq (get (fst (a_run V veq ops))) (get (snd (a_run V veq ops))) k) /\
  (forall k, pd_get V s k = pending_del V (get (fst (a_run V veq ops))) (get (snd (a_run V veq ops))) k).
Proof. exact views_identical_run. Qed.
Print Assumptions c18_views_identical.

(* The Len() functions count the keys of the views (= of D and P); iterated views list each key once
   and agree with Get; LenUpperBound is an upper bound. *)
Theorem c18_lens_exact : forall (V : Type) (veq : V -> V -> bool),
  (forall a, veq a a = true) -> (forall a b, veq a b = veq b a) ->
  (forall a b c, veq a b = true -> veq b c = true -> veq a c = true) ->
  forall (fixed : bool) (ops : list (op V)), Forall (op_ok V fixed) ops ->
  let s := run V veq fixed ops in
  (des_len V s = Z.of_nat (length (des_iter V s)) /\ NoDup (keys (des_iter V s)) /\ forall k, get (des_iter V s) k = des_get V s k) /\
  (dp_len V s = Z.of_nat (length (dp_iter V s)) /\ NoDup (keys (dp_iter V s)) /\ forall k, get (dp_iter V s) k = dp_get V s k) /\
  (pu_len V s = Z.of_nat (length (DU s)) /\ NoDup (keys (DU s))) /\
  (pd_len V s = Z.of_nat (length (ND s)) /\ NoDup (keys (ND s))) /\
  (des_len V s <= len_upper_bound V s)%Z /\
  des_len V s = len (fst (a_run V veq ops)) /\ dp_len V s = len (snd (a_run V veq ops)).
Proof. exact lens_run. Qed.
Print Assumptions c18_lens_exact.

(* The three internal maps stay disjoint the way the struct comment requires. *)
Theorem c18_internal_maps_disjoint : forall (V : Type) (veq : V -> V -> bool),
  (forall a, veq a a = true) -> (forall a b, veq a b = veq b a) ->
  (forall a b c, veq a b = true -> veq b c = true -> veq a c = true) ->
  forall (fixed : bool) (ops : list (op V)), Forall (op_ok V fixed) ops ->
  let s := run V veq fixed ops in
  forall k,
    (get (AD s) k <> None -> get (ND s) k = None) /\
    (get (DU s) k <> None -> get (ND s) k = None) /\
    (forall a d, get (AD s) k = Some a -> get (DU s) k = Some d -> veq a d = false).
Proof. exact internal_disjoint_run. Qed.
Print Assumptions c18_internal_maps_disjoint.

(* An IterActionUpdateDataplane answer moves exactly the visited key. *)
Theorem c18_iter_update_moves : forall (V : Type) (veq : V -> V -> bool),
  (forall a, veq a a = true) -> (forall a b, veq a b = veq b a) ->
  (forall a b c, veq a b = true -> veq b c = true -> veq a c = true) ->
  forall (s : st V) (k : N) (v : V), Inv V veq s -> pu_get V s k = Some v ->
  let s' := pu_visit V s (k, AUpd) in
  pu_get V s' k = None /\ dp_get V s' k = Some v /\ des_get V s' k = des_get V s k /\ des_get V s k = Some v /\
  (forall k', k' <> k -> pu_get V s' k' = pu_get V s k' /\ dp_get V s' k' = dp_get V s k' /\
                        des_get V s' k' = des_get V s k' /\ pd_get V s' k' = pd_get V s k') /\
  pd_get V s' k = pd_get V s k /\ des_len V s' = des_len V s /\ Inv V veq s'.
Proof. exact iter_update_moves. Qed.
Print Assumptions c18_iter_update_moves.

(* With the repair, no restriction on the iterators at all. *)
Theorem c18_views_exact_repaired : forall (V : Type) (veq : V -> V -> bool),
  (forall a, veq a a = true) -> (forall a b, veq a b = veq b a) ->
  (forall a b c, veq a b = true -> veq b c = true -> veq a c = true) ->
  forall ops : list (op V),
  views_exact V veq (views_of V (run V veq true ops)) (fst (a_run V veq ops)) (snd (a_run V veq ops)).
Proof. exact views_exact_repaired. Qed.
Print Assumptions c18_views_exact_repaired.

(* The pinned ReplaceAllIter does NOT satisfy the property when the iterator yields a key twice
   (witness replayed on the real code: known-findings.txt, key replace-iter-duplicate-key). *)
Theorem c18_replace_duplicate_key_refuted :
  exists ops : list (op N),
    ~ views_exact N N.eqb (views_of N (run N N.eqb false ops)) (fst (a_run N N.eqb ops)) (snd (a_run N N.eqb ops)).
Proof. exact replace_duplicate_key_refuted. Qed.
Print Assumptions c18_replace_duplicate_key_refuted.
