(* C18 — property theorems only.  Each is closed by `exact <lemma>` and followed by Print Assumptions.
   V: any value type; veq: the tracker's valuesEqual, assumed a decidable equivalence; keys are N.
   `run V veq fixed ops` is the model's state after the operation list `ops` from the empty tracker
   (fixed=false: the code as pinned; fixed=true: with fixes/C18-replace-iter-duplicate-key.patch);
   `a_run V veq ops` are the two abstract maps (D, P) of Spec.v after the same operations.
   Iteration order and callback answers are part of the operations (IterUpd/IterDel carry the visit
   sequence), so they are universally quantified with `ops`.
   `ops_ok V veq fixed st0 ops` asks only (a) for fixed=false that a Replace's iterator produces no key
   twice (see the refuted theorem) and (b) for IterBatched operations that the recorded applyFn calls are
   the calls the code makes on that state (same items applied).  IterBatchUpd/IterBatchDel are the two
   IterBatched variants (batch callbacks, error answers, partial batches); DesSetMany is a bulk Desired().Set. *)
From Coq Require Import List NArith ZArith Bool.
From Verif.C18 Require Import Model Spec Proofs Cache Meets MeetsCache Order Reentrant.
Import ListNotations.
Open Scope N_scope.

(* After any operation sequence the four views equal the two abstract maps (up to valuesEqual) and
   their exact difference. *)
Theorem c18_views_exact : forall (V : Type) (veq : V -> V -> bool),
  (forall a, veq a a = true) -> (forall a b, veq a b = veq b a) ->
  (forall a b c, veq a b = true -> veq b c = true -> veq a c = true) ->
  forall (fixed : bool) (ops : list (op V)), ops_ok V veq fixed (st0 V) ops ->
  let s := run V veq fixed ops in
  views_exact V veq (views_of V s) (fst (a_run V veq ops)) (snd (a_run V veq ops)).
Proof. exact views_exact_run. Qed.
Print Assumptions c18_views_exact.

(* With valuesEqual = identity (the cachingmap case, ==) the equalities are literal. *)
Theorem c18_views_identical : forall (V : Type) (veq : V -> V -> bool),
  (forall a b, veq a b = true <-> a = b) ->
  forall (fixed : bool) (ops : list (op V)), ops_ok V veq fixed (st0 V) ops ->
  let s := run V veq fixed ops in
  (forall k, des_get V s k = get (fst (a_run V veq ops)) k) /\
  (forall k, dp_get V s k = get (snd (a_run V veq ops)) k) /\
  (forall k, pu_get V s k = pending_update V veq (get (fst (a_run V veq ops))) (get (snd (a_run V veq ops))) k) /\
  (forall k, pd_get V s k = pending_del V (get (fst (a_run V veq ops))) (get (snd (a_run V veq ops))) k).
Proof. exact views_identical_run. Qed.
Print Assumptions c18_views_identical.

(* The Len() functions count the keys of the views (= of D and P); iterated views list each key once
   and agree with Get; LenUpperBound is an upper bound. *)
Theorem c18_lens_exact : forall (V : Type) (veq : V -> V -> bool),
  (forall a, veq a a = true) -> (forall a b, veq a b = veq b a) ->
  (forall a b c, veq a b = true -> veq b c = true -> veq a c = true) ->
  forall (fixed : bool) (ops : list (op V)), ops_ok V veq fixed (st0 V) ops ->
  let s := run V veq fixed ops in
  (des_len V s = Z.of_nat (length (des_iter V s)) /\ NoDup (keys (des_iter V s)) /\ forall k, get (des_iter V s) k = des_get V s k) /\
  (dp_len V s = Z.of_nat (length (dp_iter V s)) /\ NoDup (keys (dp_iter V s)) /\ forall k, get (dp_iter V s) k = dp_get V s k) /\
  (pu_len V s = Z.of_nat (length (DU s)) /\ NoDup (keys (DU s))) /\
  (pd_len V s = Z.of_nat (length (ND s)) /\ NoDup (keys (ND s))) /\
  (des_len V s <= len_upper_bound V s)%Z /\
  des_len V s = len (fst (a_run V veq ops)) /\ dp_len V s = len (snd (a_run V veq ops)).
Proof. exact lens_run. Qed.
Print Assumptions c18_lens_exact.

(* The three internal maps stay disjoint the way the struct comment requires. *)
Theorem c18_internal_maps_disjoint : forall (V : Type) (veq : V -> V -> bool),
  (forall a, veq a a = true) -> (forall a b, veq a b = veq b a) ->
  (forall a b c, veq a b = true -> veq b c = true -> veq a c = true) ->
  forall (fixed : bool) (ops : list (op V)), ops_ok V veq fixed (st0 V) ops ->
  let s := run V veq fixed ops in
  forall k,
    (get (AD s) k <> None -> get (ND s) k = None) /\
    (get (DU s) k <> None -> get (ND s) k = None) /\
    (forall a d, get (AD s) k = Some a -> get (DU s) k = Some d -> veq a d = false).
Proof. exact internal_disjoint_run. Qed.
Print Assumptions c18_internal_maps_disjoint.

(* An IterActionUpdateDataplane answer moves exactly the visited key. *)
Theorem c18_iter_update_moves : forall (V : Type) (veq : V -> V -> bool),
  (forall a, veq a a = true) -> (forall a b, veq a b = veq b a) ->
  (forall a b c, veq a b = true -> veq b c = true -> veq a c = true) ->
  forall (s : st V) (k : N) (v : V), Inv V veq s -> pu_get V s k = Some v ->
  let s' := pu_visit V s (k, AUpd) in
  pu_get V s' k = None /\ dp_get V s' k = Some v /\ des_get V s' k = des_get V s k /\ des_get V s k = Some v /\
  (forall k', k' <> k -> pu_get V s' k' = pu_get V s k' /\ dp_get V s' k' = dp_get V s k' /\
                        des_get V s' k' = des_get V s k' /\ pd_get V s' k' = pd_get V s k') /\
  pd_get V s' k = pd_get V s k /\ des_len V s' = des_len V s /\ Inv V veq s'.
Proof. exact iter_update_moves. Qed.
Print Assumptions c18_iter_update_moves.

(* With the repair, no restriction on the iterators at all (IterBatched is covered by c18_views_exact). *)
Theorem c18_views_exact_repaired : forall (V : Type) (veq : V -> V -> bool),
  (forall a, veq a a = true) -> (forall a b, veq a b = veq b a) ->
  (forall a b c, veq a b = true -> veq b c = true -> veq a c = true) ->
  forall ops : list (op V), Forall (op_plain V) ops ->
  views_exact V veq (views_of V (run V veq true ops)) (fst (a_run V veq ops)) (snd (a_run V veq ops)).
Proof. exact views_exact_repaired. Qed.
Print Assumptions c18_views_exact_repaired.

(* The pinned ReplaceAllIter does NOT satisfy the property when the iterator yields a key twice
   (witness replayed on the real code: known-findings.txt, key replace-iter-duplicate-key). *)
Theorem c18_replace_duplicate_key_refuted :
  exists ops : list (op N),
    ~ views_exact N N.eqb (views_of N (run N N.eqb false ops)) (fst (a_run N N.eqb ops)) (snd (a_run N N.eqb ops)).
Proof. exact replace_duplicate_key_refuted. Qed.
Print Assumptions c18_replace_duplicate_key_refuted.

(* ---------- felix/cachingmap CachingMap (cst: tracker + real dataplane map + cacheLoaded) ----------
   CI c: the tracker invariant, and, once loaded, the tracker's Dataplane view IS the real map.
   crun: any sequence of Desired() changes, LoadCacheFromDataplane, ApplyUpdatesOnly / ApplyDeletionsOnly /
   ApplyAllChanges with arbitrary injected failures (Load, Update, Delete) and iteration orders. *)
Theorem c18_cache_invariant : forall (V : Type) (veq : V -> V -> bool),
  (forall a, veq a a = true) -> (forall a b, veq a b = veq b a) ->
  (forall a b c, veq a b = true -> veq b c = true -> veq a c = true) ->
  forall (fixed : bool) (ops : list (cop V)), Forall (cop_ok V) ops -> CI V veq (crun V veq fixed ops).
Proof. exact crun_ci. Qed.
Print Assumptions c18_cache_invariant.

(* After an ApplyAllChanges that returned nil (and whose loops visited every pending key, as the code does):
   the real dataplane map equals the desired map, nothing is pending, the desired map is unchanged. *)
Theorem c18_cache_apply_all_converges : forall (V : Type) (veq : V -> V -> bool),
  (forall a, veq a a = true) -> (forall a b, veq a b = veq b a) ->
  (forall a b c, veq a b = true -> veq b c = true -> veq a c = true) ->
  forall (fixed lf : bool) (trd : list (N * bool)) (tru : list (N * V * bool)) (c : cst V),
  (forall a b, veq a b = true -> a = b) -> CI V veq c ->
  let c1 := fst (c_maybe_load V veq fixed lf c) in
  (forall k, get (ND (c_t c1)) k <> None -> In k (map fst trd)) ->
  (forall k, get (DU (c_t c1)) k <> None -> In k (map (fun x => fst (fst x)) tru)) ->
  let r := c_all V veq fixed lf trd tru c in
  snd r = 0%Z ->
  CI V veq (fst r) /\ c_loaded (fst r) = true /\
  (forall k, get (c_dp (fst r)) k = des_get V (c_t (fst r)) k) /\
  (forall k, pu_get V (c_t (fst r)) k = None) /\ (forall k, pd_get V (c_t (fst r)) k = None) /\
  (forall k, des_get V (c_t (fst r)) k = des_get V (c_t c) k).
Proof. exact apply_all_converges. Qed.
Print Assumptions c18_cache_apply_all_converges.

(* After an ApplyAllChanges in which anything failed: the invariant still holds and the tracker reports the
   exact difference between the desired map and the REAL dataplane map. *)
Theorem c18_cache_exact_after_failures : forall (V : Type) (veq : V -> V -> bool),
  (forall a, veq a a = true) -> (forall a b, veq a b = veq b a) ->
  (forall a b c, veq a b = true -> veq b c = true -> veq a c = true) ->
  forall (fixed lf : bool) (trd : list (N * bool)) (tru : list (N * V * bool)) (c : cst V), CI V veq c ->
  let c' := fst (c_all V veq fixed lf trd tru c) in
  CI V veq c' /\
  (c_loaded c' = true -> forall k,
     pu_get V (c_t c') k = pending_update V veq (des_get V (c_t c')) (get (c_dp c')) k /\
     pd_get V (c_t c') k = pending_del V (des_get V (c_t c')) (get (c_dp c')) k).
Proof. exact apply_exact_after_failures. Qed.
Print Assumptions c18_cache_exact_after_failures.

(* A failed write leaves its key pending. *)
Theorem c18_cache_failed_update_stays_pending : forall (V : Type) (veq : V -> V -> bool),
  (forall a, veq a a = true) -> (forall a b, veq a b = veq b a) ->
  (forall a b c, veq a b = true -> veq b c = true -> veq a c = true) ->
  forall (fixed lf : bool) (tr : list (N * V * bool)) (c : cst V) (k : N), CI V veq c -> c_loaded c = true ->
  (forall x, In x tr -> fst (fst x) = k -> snd x = false) ->
  pu_get V (c_t (fst (c_upd V veq fixed lf tr c))) k = pu_get V (c_t c) k.
Proof. exact failed_update_stays_pending. Qed.
Print Assumptions c18_cache_failed_update_stays_pending.

Theorem c18_cache_failed_delete_stays_pending : forall (V : Type) (veq : V -> V -> bool),
  (forall a, veq a a = true) -> (forall a b, veq a b = veq b a) ->
  (forall a b c, veq a b = true -> veq b c = true -> veq a c = true) ->
  forall (fixed lf : bool) (tr : list (N * bool)) (c : cst V) (k : N), CI V veq c -> c_loaded c = true ->
  (forall x, In x tr -> fst x = k -> snd x = false) ->
  pd_get V (c_t (fst (c_del V veq fixed lf tr c))) k = pd_get V (c_t c) k.
Proof. exact failed_delete_stays_pending. Qed.
Print Assumptions c18_cache_failed_delete_stays_pending.

(* ---------- the boolean oracle used on the implementation accepts every run of the model ----------
   tvalid: for the pinned code no Replace iterator yields a key twice; IterBatched records are the calls the code
   makes; the iteration records carried by the operations are genuine (each key shown once, pending with the value
   shown, complete unless a stop was requested).  kd ranges over all kinds (==, coarse equivalence, set). *)
Theorem c18_model_meets_spec : forall (fixed : bool) (kd : kind) (univ : list N) (ops : list (op N)),
  tvalid fixed kd (st0 N) ops ->
  ok_trace kd univ (map COp ops) (run_obs fixed kd univ (cst0 N) (map COp ops)) = true.
Proof. exact model_meets_spec. Qed.
Print Assumptions c18_model_meets_spec.

(* CachingMap runs (valuesEqual = identity, as CachingMap fixes it), ALL operations of the model: Desired()
   changes and raw tracker operations (incl. Dataplane()-side ones and iterations), writes to the real map behind the
   cache's back (ExtSet/ExtDel), LoadCacheFromDataplane, ApplyUpdatesOnly / ApplyDeletionsOnly / ApplyAllChanges with
   arbitrary injected failures, on the per-key path and on the DataplaneBatchedMap path (CUpdB/CDelB/CAllB).
   cvalid: raw tracker operations as in c18_model_meets_spec; batched records are the calls the code makes; when an
   ApplyAllChanges returned nil, its recorded calls cover every key that was pending. *)
Theorem c18_model_meets_spec_cache : forall (fixed : bool) (kd : kind) (univ : list N) (ops : list (cop N)),
  (forall a b, veq_of kd a b = true -> a = b) ->
  cvalid fixed kd (cst0 N) ops ->
  ok_trace kd univ ops (run_obs fixed kd univ (cst0 N) ops) = true.
Proof. exact model_meets_spec_cache. Qed.
Print Assumptions c18_model_meets_spec_cache.

(* The DataplaneBatchedMap path of ApplyUpdatesOnly / ApplyDeletionsOnly is the per-key path run on exactly the items
   the batch calls reported done, all succeeding (so the c18_cache_* theorems carry over to it). *)
Theorem c18_cache_batched_update_is_per_key : forall (V : Type) (veq : V -> V -> bool)
  (fixed lf : bool) (calls : list (list (N * V) * (nat * N))) (c : cst V),
  Inv V veq (c_t (fst (c_maybe_load V veq fixed lf c))) -> snd (c_maybe_load V veq fixed lf c) = 0%Z ->
  let shown := snd (c_upd_b V veq fixed lf calls c) in
  fst (fst (c_upd_b V veq fixed lf calls c)) =
  fst (fold_left (c_upd_visit V) (map (fun kv => (fst kv, snd kv, true)) (applied_of shown)) (fst (c_maybe_load V veq fixed lf c), 0%Z)).
Proof. exact c_upd_b_per_key. Qed.
Print Assumptions c18_cache_batched_update_is_per_key.

Theorem c18_cache_batched_delete_is_per_key : forall (V : Type) (veq : V -> V -> bool)
  (fixed lf : bool) (calls : list (list (N * V) * (nat * N))) (c : cst V),
  Inv V veq (c_t (fst (c_maybe_load V veq fixed lf c))) -> snd (c_maybe_load V veq fixed lf c) = 0%Z ->
  let shown := snd (c_del_b V veq fixed lf calls c) in
  fst (fst (c_del_b V veq fixed lf calls c)) =
  fst (fold_left (c_del_visit V) (map (fun kv => (fst kv, true)) (applied_of shown)) (fst (c_maybe_load V veq fixed lf c), 0%Z)).
Proof. exact c_del_b_per_key. Qed.
Print Assumptions c18_cache_batched_delete_is_per_key.

(* ---------- iteration order is universally quantified ----------
   A complete PendingUpdates().Iter / PendingDeletions().Iter (callback f does not touch the tracker; Go's range
   visits every key of the map once) in ANY order `order`: closed form of all four views, with no `order` in it. *)
Theorem c18_iter_upd_full_any_order : forall (V : Type) (veq : V -> V -> bool),
  (forall a, veq a a = true) -> (forall a b, veq a b = veq b a) ->
  (forall a b c, veq a b = true -> veq b c = true -> veq a c = true) ->
  forall (order : list N) (f : N -> V -> act) (s : st V), Inv V veq s ->
  let s' := pu_iter_full V order f s in
  Inv V veq s' /\
  (forall k, des_get V s' k = des_get V s k) /\
  (forall k, pd_get V s' k = pd_get V s k) /\
  (forall k, pu_get V s' k = match pu_get V s k with Some v => if is_upd (f k v) then None else Some v | None => None end) /\
  (forall k, dp_get V s' k = match pu_get V s k with Some v => if is_upd (f k v) then Some v else dp_get V s k | None => dp_get V s k end).
Proof. exact iter_upd_full_any_order. Qed.
Print Assumptions c18_iter_upd_full_any_order.

Theorem c18_iter_del_full_any_order : forall (V : Type) (veq : V -> V -> bool),
  (forall a, veq a a = true) -> (forall a b, veq a b = veq b a) ->
  (forall a b c, veq a b = true -> veq b c = true -> veq a c = true) ->
  forall (order : list N) (f : N -> act) (s : st V), Inv V veq s ->
  let s' := pd_iter_full V order f s in
  Inv V veq s' /\
  (forall k, des_get V s' k = des_get V s k) /\ (forall k, pu_get V s' k = pu_get V s k) /\
  (forall k, pd_get V s' k = match pd_get V s k with Some v => if is_upd (f k) then None else Some v | None => None end) /\
  (forall k, dp_get V s' k = match pd_get V s k with Some v => if is_upd (f k) then None else Some v | None => dp_get V s k end).
Proof. exact iter_del_full_any_order. Qed.
Print Assumptions c18_iter_del_full_any_order.

(* Two complete iterations in different orders leave identical views. *)
Theorem c18_iter_order_irrelevant : forall (V : Type) (veq : V -> V -> bool),
  (forall a, veq a a = true) -> (forall a b, veq a b = veq b a) ->
  (forall a b c, veq a b = true -> veq b c = true -> veq a c = true) ->
  forall (o1 o2 : list N) (f : N -> V -> act) (s : st V), Inv V veq s -> forall k,
  des_get V (pu_iter_full V o1 f s) k = des_get V (pu_iter_full V o2 f s) k /\
  dp_get V (pu_iter_full V o1 f s) k = dp_get V (pu_iter_full V o2 f s) k /\
  pu_get V (pu_iter_full V o1 f s) k = pu_get V (pu_iter_full V o2 f s) k /\
  pd_get V (pu_iter_full V o1 f s) k = pd_get V (pu_iter_full V o2 f s) k.
Proof. exact iter_upd_order_irrelevant. Qed.
Print Assumptions c18_iter_order_irrelevant.

(* Desired().DeleteAll (Iter whose callback deletes) with the two range loops in ANY orders: nothing desired is left,
   the Dataplane view is untouched, Len() = 0.  (Model.des_delete_all is the instance o1 = o2 = [].) *)
Theorem c18_delete_all_any_order : forall (V : Type) (veq : V -> V -> bool),
  (forall a, veq a a = true) -> (forall a b, veq a b = veq b a) ->
  (forall a b c, veq a b = true -> veq b c = true -> veq a c = true) ->
  forall (o1 o2 : list N) (s : st V), Inv V veq s ->
  let s' := des_delete_all_ord V o1 o2 s in
  Inv V veq s' /\ (forall k, des_get V s' k = None) /\ (forall k, dp_get V s' k = dp_get V s k) /\ des_len V s' = 0%Z.
Proof. exact delete_all_any_order. Qed.
Print Assumptions c18_delete_all_any_order.

(* ReplaceAllMap ranges over the caller's Go map: any two orders of the same KVs give the same Dataplane view
   (literally the KVs), Desired views equal up to valuesEqual and the same pending deletions. *)
Theorem c18_replace_map_order_irrelevant : forall (V : Type) (veq : V -> V -> bool),
  (forall a, veq a a = true) -> (forall a b, veq a b = veq b a) ->
  (forall a b c, veq a b = true -> veq b c = true -> veq a c = true) ->
  forall (fixed : bool) (kvs kvs' : list (N * V)) (s : st V),
  Permutation.Permutation kvs kvs' -> NoDup (keys kvs) -> Inv V veq s ->
  let s1 := dp_replace V veq fixed kvs false s in
  let s2 := dp_replace V veq fixed kvs' false s in
  Inv V veq s1 /\ Inv V veq s2 /\
  (forall k, dp_get V s1 k = dp_get V s2 k) /\ (forall k, dp_get V s1 k = get kvs k) /\
  (forall k, opt_veq V veq (des_get V s1 k) (des_get V s2 k) = true) /\
  (forall k, pd_get V s1 k = pd_get V s2 k).
Proof. exact replace_map_order_irrelevant. Qed.
Print Assumptions c18_replace_map_order_irrelevant.

(* ---------- SetDeltaTracker (delta_set.go): the instance valuesEqual = constantly true ----------
   After any operation sequence: Contains of the four set views = D, P, D \ P, P \ D. *)
Theorem c18_set_views_exact : forall (V : Type) (fixed : bool) (ops : list (op V)),
  ops_ok V (seq_true V) fixed (st0 V) ops ->
  let s := run V (seq_true V) fixed ops in
  let D := fst (a_run V (seq_true V) ops) in let P := snd (a_run V (seq_true V) ops) in
  forall k,
    (des_get V s k <> None <-> get D k <> None) /\
    (dp_get V s k <> None <-> get P k <> None) /\
    (pu_get V s k <> None <-> get D k <> None /\ get P k = None) /\
    (pd_get V s k <> None <-> get P k <> None /\ get D k = None).
Proof. exact set_views_exact. Qed.
Print Assumptions c18_set_views_exact.

(* DeltaTracker.InSync() / SetDeltaTracker.InSync(): true exactly when nothing is pending; then Desired = Dataplane. *)
Theorem c18_in_sync_iff : forall (V : Type) (veq : V -> V -> bool), (forall a, veq a a = true) ->
  forall s : st V, Inv V veq s ->
  (in_sync V s = true <-> (forall k, pu_get V s k = None) /\ (forall k, pd_get V s k = None)) /\
  (in_sync V s = true -> (forall a b, veq a b = true -> a = b) -> forall k, des_get V s k = dp_get V s k).
Proof. exact in_sync_iff. Qed.
Print Assumptions c18_in_sync_iff.

(* ---------- callbacks that call back into the tracker during PendingUpdates().Iter ----------
   (assumed away by the theorems above; no caller in /repo mutates the tracker from the callback) *)
(* Harmless as long as the callback leaves the visited key pending with the value it was shown. *)
Theorem c18_reentrant_harmless : forall (V : Type) (veq : V -> V -> bool), (forall a, veq a a = true) ->
  forall (fixed : bool) (s : st V) (k : N) (cb : list (op V)) (v : V), get (DU s) k = Some v ->
  get (DU (fold_left (step V veq fixed) cb s)) k = Some v ->
  pu_visit_re V veq fixed s k cb AUpd = pu_visit V (fold_left (step V veq fixed) cb s) (k, AUpd) /\
  pu_visit_re_fix V veq fixed s k cb AUpd = pu_visit V (fold_left (step V veq fixed) cb s) (k, AUpd).
Proof. exact reentrant_harmless. Qed.
Print Assumptions c18_reentrant_harmless.

(* REFUTED for the pinned Iter in general: a Desired().Set on the visited key made by the callback is overwritten by
   the UpdateDataplane answer (replayed on the real code; repair proposed in fixes/C18-iter-update-as-dataplane-set.patch). *)
Theorem c18_reentrant_set_lost_refuted :
  exists (s : st N) (k : N) (cb : list (op N)),
    Inv N N.eqb s /\ pu_get N s k <> None /\
    des_get N (pu_visit_re N N.eqb false s k cb AUpd) k <> des_get N (fold_left (step N N.eqb false) cb s) k.
Proof. exact reentrant_set_lost_refuted. Qed.
Print Assumptions c18_reentrant_set_lost_refuted.

(* With that repair (UpdateDataplane really calls Dataplane().Set(k, v)) ANY re-entrant callback is fine: the turn is
   the callback's operations followed by Dataplane().Set(k, v), which c18_views_exact covers. *)
Theorem c18_reentrant_fixed_exact : forall (V : Type) (veq : V -> V -> bool),
  (forall a, veq a a = true) -> (forall a b, veq a b = veq b a) ->
  (forall a b c, veq a b = true -> veq b c = true -> veq a c = true) ->
  forall (fixed : bool) (s : st V) (DP : amap V * amap V) (k : N) (cb : list (op V)) (v : V),
  Inv V veq s -> R V veq s DP -> ops_ok V veq fixed s cb -> get (DU s) k = Some v ->
  let s' := pu_visit_re_fix V veq fixed s k cb AUpd in
  Inv V veq s' /\ R V veq s' (a_step V veq (fold_left (a_step V veq) cb DP) (DpSet k v)).
Proof. exact reentrant_fixed_exact. Qed.
Print Assumptions c18_reentrant_fixed_exact.
