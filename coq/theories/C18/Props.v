(* C18 — property theorems only. *)
From Coq Require Import List NArith ZArith Bool.
From Verif.C18 Require Import Model Spec Proofs.
Import ListNotations.
Open Scope N_scope.

Theorem c18_initial : forall V : Type, des_get V (st0 V) 0 = None.
Proof. exact placeholder_initial. Qed.
Print Assumptions c18_initial.
