(* C18 — iteration order as a universally quantified parameter: complete iterations (Iter of the pending views,
   Desired().DeleteAll, ReplaceAllMap) give the same views whatever order Go's map range picks;
   and the SetDeltaTracker instance of the main theorem. *)
From Coq Require Import List NArith ZArith Bool Lia Permutation.
From Verif.C18 Require Import Model Spec MapLemmas Proofs Meets.
Import ListNotations.
Open Scope N_scope.

Section Order.
  Variable V : Type.
  Variable veq : V -> V -> bool.
  Hypothesis veq_refl : forall a, veq a a = true.
  Hypothesis veq_sym : forall a b, veq a b = veq b a.
  Hypothesis veq_trans : forall a b c, veq a b = true -> veq b c = true -> veq a c = true.

  Notation st := (st V).
  Definition is_upd (a : act) : bool := match a with AUpd => true | _ => false end.
  Definition inb (k : N) (l : list N) : bool := existsb (N.eqb k) l.

  Lemma inb_In k l : inb k l = true <-> In k l.
  Proof.
    unfold inb. rewrite existsb_exists. split.
    - intros (x & Hx & E). apply N.eqb_eq in E. subst. exact Hx.
    - intros H. exists k. split; [exact H|apply N.eqb_refl].
  Qed.

  (* the range visits exactly the keys of the map, each once, whatever `order` is *)
  Lemma visit_order_cover order (m : amap V) k : inb k (visit_order V order m) = mem k m.
  Proof.
    apply eq_true_iff_eq. rewrite inb_In. unfold visit_order. rewrite in_app_iff, nodup_In, !filter_In.
    rewrite mem_get. fold (keys m). rewrite (in_keys_get m k).
    destruct (get m k) eqn:E.
    - split; [reflexivity|intros _].
      destruct (inb k order) eqn:Ei.
      + left. split; [apply inb_In, Ei|reflexivity].
      + right. split; [discriminate|]. unfold inb in Ei. rewrite Ei. reflexivity.
    - split; [|discriminate]. intros [[_ H]|[H _]]; [discriminate|congruence].
  Qed.

  (* a pass over distinct keys with answers fixed beforehand: closed form of the result *)
  Lemma pu_pass (g : N -> act) l : NoDup l -> forall s,
    let s' := pu_iter V (map (fun k => (k, g k)) l) s in
    (forall k, get (DU s') k = if inb k l && is_upd (g k) then None else get (DU s) k) /\
    (forall k, get (AD s') k = if inb k l && is_upd (g k) then (match get (DU s) k with Some v => Some v | None => get (AD s) k end)
                               else get (AD s) k) /\
    ND s' = ND s /\ dlen s' = dlen s.
  Proof.
    unfold pu_iter, inb. induction 1 as [|k0 l Hk0 Hl IH]; intros s; cbn [map fold_left existsb]; cbn zeta.
    - repeat split; reflexivity.
    - specialize (IH (pu_visit V s (k0, g k0))). cbn zeta in IH. destruct IH as (H1 & H2 & H3 & H4).
      assert (Hin : forall k, existsb (N.eqb k) l = true -> k <> k0).
      { intros k Hk ->. apply Hk0. apply inb_In. exact Hk. }
      unfold pu_visit in *. destruct (get (DU s) k0) as [v|] eqn:E0.
      + destruct (g k0) eqn:G0; cbn [AD ND DU dlen] in *.
        * repeat split; auto; intros k; [rewrite H1|rewrite H2]; destruct (N.eqb_spec k k0) as [->|]; cbn [orb]; try reflexivity;
            rewrite G0; cbn [is_upd]; rewrite ?andb_false_r; reflexivity.
        * repeat split; auto; intros k; [rewrite H1|rewrite H2]; rewrite ?get_del, ?get_set; rewrite (N.eqb_sym k0 k);
            destruct (N.eqb_spec k k0) as [->|]; cbn [orb].
          -- rewrite G0. cbn [is_upd]. rewrite andb_true_r.
             destruct (existsb (N.eqb k0) l) eqn:Ex; [exfalso; apply (Hin k0 Ex); reflexivity|reflexivity].
          -- reflexivity.
          -- rewrite G0. cbn [is_upd]. rewrite andb_true_r, E0.
             destruct (existsb (N.eqb k0) l) eqn:Ex; [exfalso; apply (Hin k0 Ex); reflexivity|reflexivity].
          -- reflexivity.
        * repeat split; auto; intros k; [rewrite H1|rewrite H2]; destruct (N.eqb_spec k k0) as [->|]; cbn [orb]; try reflexivity;
            rewrite G0; cbn [is_upd]; rewrite ?andb_false_r; reflexivity.
      + repeat split; auto; intros k; [rewrite H1|rewrite H2]; destruct (N.eqb_spec k k0) as [->|]; cbn [orb]; try reflexivity.
        * destruct (existsb (N.eqb k0) l && is_upd (g k0)), (is_upd (g k0)); rewrite ?E0; reflexivity.
        * rewrite E0. destruct (existsb (N.eqb k0) l && is_upd (g k0)), (is_upd (g k0)); reflexivity.
  Qed.

  Lemma pd_pass (g : N -> act) l : NoDup l -> forall s,
    let s' := pd_iter V (map (fun k => (k, g k)) l) s in
    (forall k, get (ND s') k = if inb k l && is_upd (g k) then None else get (ND s) k) /\
    AD s' = AD s /\ DU s' = DU s /\ dlen s' = dlen s.
  Proof.
    unfold pd_iter, inb. induction 1 as [|k0 l Hk0 Hl IH]; intros s; cbn [map fold_left existsb]; cbn zeta.
    - repeat split; reflexivity.
    - specialize (IH (pd_visit V s (k0, g k0))). cbn zeta in IH. destruct IH as (H1 & H2 & H3 & H4).
      unfold pd_visit in *. destruct (get (ND s) k0) as [v|] eqn:E0.
      + destruct (g k0) eqn:G0; cbn [AD ND DU dlen] in *.
        * repeat split; auto; intros k; rewrite H1; destruct (N.eqb_spec k k0) as [->|]; cbn [orb]; try reflexivity;
            rewrite G0; cbn [is_upd]; rewrite ?andb_false_r; reflexivity.
        * repeat split; auto; intros k; rewrite H1, get_del, (N.eqb_sym k0 k); destruct (N.eqb_spec k k0) as [->|]; cbn [orb]; [|reflexivity].
          rewrite G0. cbn [is_upd]. rewrite andb_true_r. destruct (existsb (N.eqb k0) l); reflexivity.
        * repeat split; auto; intros k; rewrite H1; destruct (N.eqb_spec k k0) as [->|]; cbn [orb]; try reflexivity;
            rewrite G0; cbn [is_upd]; rewrite ?andb_false_r; reflexivity.
      + repeat split; auto; intros k; rewrite H1; destruct (N.eqb_spec k k0) as [->|]; cbn [orb]; try reflexivity.
        rewrite E0. destruct (existsb (N.eqb k0) l && is_upd (g k0)), (is_upd (g k0)); reflexivity.
  Qed.

  (* PendingUpdates().Iter with a callback f that does not touch the tracker, complete, in ANY order *)
  Theorem iter_upd_full_any_order order (f : N -> V -> act) s : Inv V veq s ->
    let s' := pu_iter_full V order f s in
    Inv V veq s' /\
    (forall k, des_get V s' k = des_get V s k) /\
    (forall k, pd_get V s' k = pd_get V s k) /\
    (forall k, pu_get V s' k = match pu_get V s k with Some v => if is_upd (f k v) then None else Some v | None => None end) /\
    (forall k, dp_get V s' k = match pu_get V s k with Some v => if is_upd (f k v) then Some v else dp_get V s k | None => dp_get V s k end).
  Proof using All.
    intros I. cbn zeta. unfold pu_iter_full.
    set (g := fun k => match get (DU s) k with Some v => f k v | None => ANoOp end).
    pose proof (NoDup_visit_order V order (DU s) (inv_du V veq s I)) as NV.
    destruct (pu_pass g (visit_order V order (DU s)) NV s) as (H1 & H2 & H3 & H4). cbn zeta in *.
    change (map (fun k => (k, match get (DU s) k with Some v => f k v | None => ANoOp end)) (visit_order V order (DU s)))
      with (map (fun k => (k, g k)) (visit_order V order (DU s))).
    set (s' := pu_iter V (map (fun k => (k, g k)) (visit_order V order (DU s))) s) in *.
    assert (Hu : forall k, pu_get V s' k = match pu_get V s k with Some v => if is_upd (f k v) then None else Some v | None => None end).
    { intros k. unfold pu_get. rewrite H1, visit_order_cover, mem_get. unfold g. destruct (get (DU s) k); cbn [andb]; [destruct (is_upd (f k v))|]; reflexivity. }
    assert (Ha : forall k, get (AD s') k = match get (DU s) k with Some v => if is_upd (f k v) then Some v else get (AD s) k | None => get (AD s) k end).
    { intros k. rewrite H2, visit_order_cover, mem_get. unfold g. destruct (get (DU s) k); cbn [andb]; [destruct (is_upd (f k v))|]; reflexivity. }
    split; [apply (fold_inv V veq (pu_visit V)); auto using pu_visit_inv|].
    split; [intros k; apply (fold_same V veq (fun s => des_get V s k) (pu_visit V)); auto using pu_visit_inv; intros; apply pu_visit_get|].
    split; [intros k; unfold pd_get; rewrite H3; reflexivity|]. split; [exact Hu|].
    intros k. unfold dp_get, pu_get. rewrite Ha, H3. destruct (inv_k V veq s I k) as (K1 & K2 & K3).
    destruct (get (DU s) k) as [v|] eqn:E; [|reflexivity]. destruct (is_upd (f k v)); reflexivity.
  Qed.

  Theorem iter_del_full_any_order order (f : N -> act) s : Inv V veq s ->
    let s' := pd_iter_full V order f s in
    Inv V veq s' /\
    (forall k, des_get V s' k = des_get V s k) /\ (forall k, pu_get V s' k = pu_get V s k) /\
    (forall k, pd_get V s' k = match pd_get V s k with Some v => if is_upd (f k) then None else Some v | None => None end) /\
    (forall k, dp_get V s' k = match pd_get V s k with Some v => if is_upd (f k) then None else Some v | None => dp_get V s k end).
  Proof using All.
    intros I. cbn zeta. unfold pd_iter_full.
    pose proof (NoDup_visit_order V order (ND s) (inv_nd V veq s I)) as NV.
    destruct (pd_pass f (visit_order V order (ND s)) NV s) as (H1 & H2 & H3 & H4). cbn zeta in *.
    set (s' := pd_iter V (map (fun k => (k, f k)) (visit_order V order (ND s))) s) in *.
    assert (Hd : forall k, pd_get V s' k = match pd_get V s k with Some v => if is_upd (f k) then None else Some v | None => None end).
    { intros k. unfold pd_get. rewrite H1, visit_order_cover, mem_get. destruct (get (ND s) k); cbn [andb]; [destruct (is_upd (f k))|]; reflexivity. }
    split; [apply (fold_inv V veq (pd_visit V)); auto using pd_visit_inv|].
    split; [intros k; unfold des_get; rewrite H2, H3; reflexivity|].
    split; [intros k; unfold pu_get; rewrite H3; reflexivity|]. split; [exact Hd|].
    intros k. unfold dp_get. rewrite H2. fold (pd_get V s' k). rewrite Hd. unfold pd_get.
    destruct (inv_k V veq s I k) as (K1 & K2 & K3).
    destruct (get (AD s) k) eqn:Ea.
    - rewrite K1 by congruence. reflexivity.
    - destruct (get (ND s) k); [destruct (is_upd (f k))|]; reflexivity.
  Qed.

  (* so two complete iterations in different orders leave identical views *)
  Corollary iter_upd_order_irrelevant o1 o2 f s : Inv V veq s -> forall k,
    des_get V (pu_iter_full V o1 f s) k = des_get V (pu_iter_full V o2 f s) k /\
    dp_get V (pu_iter_full V o1 f s) k = dp_get V (pu_iter_full V o2 f s) k /\
    pu_get V (pu_iter_full V o1 f s) k = pu_get V (pu_iter_full V o2 f s) k /\
    pd_get V (pu_iter_full V o1 f s) k = pd_get V (pu_iter_full V o2 f s) k.
  Proof using All.
    intros I k. destruct (iter_upd_full_any_order o1 f s I) as (_ & A1 & A2 & A3 & A4).
    destruct (iter_upd_full_any_order o2 f s I) as (_ & B1 & B2 & B3 & B4). cbn zeta in *.
    rewrite A1, A2, A3, A4, B1, B2, B3, B4. auto.
  Qed.
  Corollary iter_del_order_irrelevant o1 o2 f s : Inv V veq s -> forall k,
    des_get V (pd_iter_full V o1 f s) k = des_get V (pd_iter_full V o2 f s) k /\
    dp_get V (pd_iter_full V o1 f s) k = dp_get V (pd_iter_full V o2 f s) k /\
    pu_get V (pd_iter_full V o1 f s) k = pu_get V (pd_iter_full V o2 f s) k /\
    pd_get V (pd_iter_full V o1 f s) k = pd_get V (pd_iter_full V o2 f s) k.
  Proof using All.
    intros I k. destruct (iter_del_full_any_order o1 f s I) as (_ & A1 & A2 & A3 & A4).
    destruct (iter_del_full_any_order o2 f s I) as (_ & B1 & B2 & B3 & B4). cbn zeta in *.
    rewrite A1, A2, A3, A4, B1, B2, B3, B4. auto.
  Qed.
  (* Desired().DeleteAll: the two range loops in ANY orders o1, o2 (the model's des_delete_all is one instance) *)
  Definition des_delete_all_ord (o1 o2 : list N) (s : st) : st :=
    let s1 := fold_left (fun s k => des_delete V k s) (visit_order V o1 (DU s)) s in
    fold_left (dall2 V) (visit_order V o2 (AD s1)) s1.

  Theorem delete_all_any_order o1 o2 s : Inv V veq s ->
    let s' := des_delete_all_ord o1 o2 s in
    Inv V veq s' /\ (forall k, des_get V s' k = None) /\ (forall k, dp_get V s' k = dp_get V s k) /\ des_len V s' = 0%Z.
  Proof using All.
    intros I. cbn zeta. unfold des_delete_all_ord.
    set (s1 := fold_left (fun s k => des_delete V k s) (visit_order V o1 (DU s)) s).
    assert (I1 : Inv V veq s1) by (apply (fold_inv V veq (fun s k => des_delete V k s)); auto using des_delete_inv).
    assert (E : forall k, get (DU s1) k = None).
    { intros k. unfold s1. rewrite fold1_DU. fold (inb k (visit_order V o1 (DU s))). rewrite visit_order_cover, mem_get.
      destruct (get (DU s) k); reflexivity. }
    destruct (fold2_props V (visit_order V o2 (AD s1)) s1 E) as (H1 & H2).
    set (s' := fold_left (dall2 V) (visit_order V o2 (AD s1)) s1) in *.
    assert (I' : Inv V veq s') by (apply (fold_inv V veq (dall2 V)); auto using dall2_inv).
    assert (G : forall k, des_get V s' k = None).
    { intros k. unfold des_get. rewrite H1, H2. fold (inb k (visit_order V o2 (AD s1))). rewrite visit_order_cover, mem_get.
      destruct (get (AD s1) k); reflexivity. }
    split; [exact I'|]. split; [exact G|]. split.
    - intros k. unfold s'. rewrite (fold_same V veq (fun s => dp_get V s k) (dall2 V)); auto using dall2_inv.
      + unfold s1. apply (fold_same V veq (fun s => dp_get V s k) (fun s k => des_delete V k s)); auto using des_delete_inv.
        intros. apply (des_delete_dp V veq); assumption.
      + intros s0 a I0. unfold dall2. destruct (_ && _); [apply (des_delete_dp V veq); assumption|reflexivity].
    - unfold des_len. rewrite (inv_len V veq s' I').
      assert (des_iter V s' = []) as ->; [|reflexivity].
      apply all_none_nil. intros k. rewrite get_des_iter. apply G.
  Qed.

  Lemma visit_order_nil (m : amap V) : visit_order V [] m = keys m.
  Proof.
    unfold visit_order. cbn [filter nodup app existsb negb]. induction (keys m) as [|x l IH]; [reflexivity|]. cbn [filter]. rewrite IH. reflexivity.
  Qed.
  Lemma delete_all_is_instance s : des_delete_all V s = des_delete_all_ord [] [] s.
  Proof. unfold des_delete_all, des_delete_all_ord. rewrite !visit_order_nil. reflexivity. Qed.

  (* ReplaceAllMap: Go ranges over the caller's map in an arbitrary order; any two orders of the same KVs agree *)
  Theorem replace_map_order_irrelevant fixed kvs kvs' s : Permutation kvs kvs' -> NoDup (keys kvs) -> Inv V veq s ->
    let s1 := dp_replace V veq fixed kvs false s in
    let s2 := dp_replace V veq fixed kvs' false s in
    Inv V veq s1 /\ Inv V veq s2 /\
    (forall k, dp_get V s1 k = dp_get V s2 k) /\ (forall k, dp_get V s1 k = get kvs k) /\
    (forall k, opt_veq V veq (des_get V s1 k) (des_get V s2 k) = true) /\
    (forall k, pd_get V s1 k = pd_get V s2 k).
  Proof using All.
    intros P ND I. cbn zeta.
    assert (ND' : NoDup (keys kvs')) by (eapply Permutation_NoDup; [apply perm_keys, P|exact ND]).
    rewrite !(dp_replace_any V veq fixed) by (right; assumption).
    destruct (dp_replace_fixed V veq veq_refl veq_sym veq_trans kvs false s I) as (I1 & D1 & P1).
    destruct (dp_replace_fixed V veq veq_refl veq_sym veq_trans kvs' false s I) as (I2 & D2 & P2). cbn zeta in *.
    assert (L : forall (l : amap V) k, NoDup (keys l) -> lastget V l k = get l k).
    { induction l as [|[a v] l IH]; intros k H; [reflexivity|]. cbn [lastget get keys map fst] in *. inversion H; subst.
      rewrite IH by assumption. destruct (N.eqb_spec a k) as [->|]; [|destruct (get l k); reflexivity].
      apply not_in_keys_get in H2. rewrite H2. reflexivity. }
    assert (E1 : forall k, dp_get V (dp_replace V veq true kvs false s) k = get kvs k)
      by (intros k; rewrite P1, L by assumption; destruct (get kvs k); reflexivity).
    assert (E2 : forall k, dp_get V (dp_replace V veq true kvs' false s) k = get kvs' k)
      by (intros k; rewrite P2, L by assumption; destruct (get kvs' k); reflexivity).
    assert (Ed : forall k, opt_veq V veq (des_get V (dp_replace V veq true kvs false s) k) (des_get V (dp_replace V veq true kvs' false s) k) = true).
    { intros k. eapply oveq_trans; [exact veq_trans|apply D1|]. rewrite oveq_sym by exact veq_sym. apply D2. }
    split; [exact I1|]. split; [exact I2|]. split; [|split; [exact E1|split; [exact Ed|]]].
    - intros k. rewrite E1, E2. apply perm_get; assumption.
    - intros k. rewrite (inv_pd V veq _ k I1), (inv_pd V veq _ k I2). unfold pending_del.
      rewrite E1, E2, (perm_get kvs kvs' P ND k). specialize (Ed k).
      destruct (des_get V (dp_replace V veq true kvs false s) k), (des_get V (dp_replace V veq true kvs' false s) k); cbn in Ed; try congruence; reflexivity.
  Qed.
End Order.

(* ---------- SetDeltaTracker: values carry no information, valuesEqual is constantly true ---------- *)
Section SetTracker.
  Variable V : Type.
  Definition seq_true : V -> V -> bool := fun _ _ => true.

  Theorem set_views_exact fixed ops : ops_ok V seq_true fixed (st0 V) ops ->
    let s := run V seq_true fixed ops in
    let D := fst (a_run V seq_true ops) in let P := snd (a_run V seq_true ops) in
    forall k,
      (des_get V s k <> None <-> get D k <> None) /\                               (* Desired().Contains *)
      (dp_get V s k <> None <-> get P k <> None) /\                                (* Dataplane().Contains *)
      (pu_get V s k <> None <-> get D k <> None /\ get P k = None) /\              (* pending additions = D \ P *)
      (pd_get V s k <> None <-> get P k <> None /\ get D k = None).                (* pending deletions = P \ D *)
  Proof.
    intros Hok. cbn zeta. intros k.
    destruct (views_exact_run V seq_true (fun _ => eq_refl) (fun _ _ => eq_refl) (fun _ _ _ _ _ => eq_refl) fixed ops Hok) as (H1 & H2 & H3 & H4).
    cbn [v_des v_dp v_pu v_pd views_of] in *.
    specialize (H1 k). specialize (H2 k). specialize (H3 k). specialize (H4 k).
    rewrite H3, H4. unfold pending_update, pending_del, seq_true in *.
    destruct (des_get V (run V (fun _ _ => true) fixed ops) k), (get (fst (a_run V (fun _ _ => true) ops)) k); cbn in H1; try discriminate;
      destruct (dp_get V (run V (fun _ _ => true) fixed ops) k), (get (snd (a_run V (fun _ _ => true) ops)) k); cbn in H2; try discriminate;
      repeat split; intros; try congruence; try tauto; try (destruct H; congruence).
  Qed.
End SetTracker.

(* InSync() = nothing pending (and then, with valuesEqual = identity, Desired = Dataplane) *)
Section InSync.
  Variable V : Type.
  Variable veq : V -> V -> bool.
  Hypothesis veq_refl : forall a, veq a a = true.

  Theorem in_sync_iff s : Inv V veq s ->
    (in_sync V s = true <-> (forall k, pu_get V s k = None) /\ (forall k, pd_get V s k = None)) /\
    (in_sync V s = true -> (forall a b, veq a b = true -> a = b) -> forall k, des_get V s k = dp_get V s k).
  Proof using All.
    intros I.
    assert (Z0 : forall (m : amap V), Z.eqb (len m) 0 = true <-> (forall k, get m k = None)).
    { intros m. unfold len. rewrite Z.eqb_eq. split.
      - intros H. destruct m; [reflexivity|cbn in H; lia].
      - intros H. rewrite (all_none_nil m H). reflexivity. }
    assert (A : in_sync V s = true <-> (forall k, pu_get V s k = None) /\ (forall k, pd_get V s k = None)).
    { unfold in_sync, pd_len, pu_len, pu_get, pd_get. rewrite andb_true_iff, !Z0. tauto. }
    split; [exact A|]. intros H Heq k. apply A in H. destruct H as [Hu Hd].
    specialize (Hu k). specialize (Hd k).
    rewrite (inv_pu V veq veq_refl s k I) in Hu. rewrite (inv_pd V veq s k I) in Hd.
    unfold pending_update, pending_del in *.
    destruct (des_get V s k) as [d|], (dp_get V s k) as [p|]; try congruence.
    destruct (veq p d) eqn:E; [|congruence]. apply Heq in E. congruence.
  Qed.
End InSync.
