(* C18 — felix/cachingmap: the CachingMap model (Model.v, cst/cstep) over an abstract dataplane map with
   failing operations.  Convergence after a successful ApplyAllChanges; exactness after a failed one. *)
From Coq Require Import List NArith ZArith Bool Lia Permutation.
From Verif.C18 Require Import Model Spec MapLemmas Proofs.
Import ListNotations.
Open Scope N_scope.

Section Cache.
  Variable V : Type.
  Variable veq : V -> V -> bool.
  Hypothesis veq_refl : forall a, veq a a = true.
  Hypothesis veq_sym : forall a b, veq a b = veq b a.
  Hypothesis veq_trans : forall a b c, veq a b = true -> veq b c = true -> veq a c = true.

  Ltac splits := repeat match goal with |- _ /\ _ => split end.
  Notation cst := (cst V).
  Notation Inv := (Inv V veq).

  (* the cache of the dataplane is the real dataplane map *)
  Definition Coh (c : cst) : Prop := forall k, dp_get V (c_t c) k = get (c_dp c) k.
  (* what every CachingMap state satisfies as long as nobody writes to the dataplane behind its back *)
  Record CI (c : cst) : Prop := {
    ci_inv : Inv (c_t c);
    ci_nd : NoDup (keys (c_dp c));
    ci_coh : c_loaded c = true -> Coh c }.

  Lemma lastget_nodup (l : amap V) k : NoDup (keys l) -> lastget V l k = get l k.
  Proof.
    induction l as [|[a v] l IH]; intros ND; [reflexivity|]. cbn [lastget get keys map fst] in *.
    inversion ND; subst. rewrite IH by assumption. destruct (N.eqb_spec a k) as [->|].
    - apply not_in_keys_get in H1. rewrite H1. reflexivity.
    - destruct (get l k); reflexivity.
  Qed.

  (* LoadCacheFromDataplane *)
  Lemma c_load_ok fixed c : Inv (c_t c) -> NoDup (keys (c_dp c)) ->
    let c' := fst (c_load V veq fixed false c) in
    CI c' /\ c_loaded c' = true /\ c_dp c' = c_dp c /\
    (forall k, opt_veq V veq (des_get V (c_t c') k) (des_get V (c_t c) k) = true).
  Proof.
    intros I ND. cbn zeta. unfold c_load. cbn [fst c_t c_dp c_loaded].
    rewrite (dp_replace_any V veq fixed) by (right; exact ND).
    destruct (dp_replace_fixed V veq veq_refl veq_sym veq_trans (c_dp c) false (c_t c) I) as (I' & D & P). cbn zeta in *.
    split; [|splits; auto].
    constructor; cbn [c_t c_dp c_loaded]; auto.
    intros _ k. unfold Coh. cbn [c_t c_dp]. rewrite P, lastget_nodup by assumption. destruct (get (c_dp c) k); reflexivity.
  Qed.

  Lemma c_maybe_load_ok fixed lf c : CI c ->
    let r := c_maybe_load V veq fixed lf c in
    CI (fst r) /\ c_dp (fst r) = c_dp c /\ (0 <= snd r)%Z /\
    (snd r = 0%Z -> c_loaded (fst r) = true) /\
    (forall k, opt_veq V veq (des_get V (c_t (fst r)) k) (des_get V (c_t c) k) = true).
  Proof.
    intros HC. pose proof HC as [I ND C]. cbn zeta. unfold c_maybe_load. destruct (c_loaded c) eqn:L.
    - cbn [fst snd]. splits; auto; try lia. intros k. apply oveq_refl, veq_refl.
    - unfold c_load at 1. destruct lf.
      + cbn [fst snd]. splits; auto; try lia; try discriminate. intros k. apply oveq_refl, veq_refl.
      + destruct (c_load_ok fixed c I ND) as (H1 & H2 & H3 & H4). cbn zeta in *.
        change (if false then _ else _) with (c_load V veq fixed false c).
        splits; auto. cbn. lia.
  Qed.

  (* one Update / Delete call of the Apply loops *)
  Lemma c_upd_visit_ci c e x : CI c ->
    CI (fst (c_upd_visit V (c, e) x)) /\ (e <= snd (c_upd_visit V (c, e) x))%Z /\
    c_loaded (fst (c_upd_visit V (c, e) x)) = c_loaded c /\
    (forall k, des_get V (c_t (fst (c_upd_visit V (c, e) x))) k = des_get V (c_t c) k) /\
    (forall k, get (ND (c_t (fst (c_upd_visit V (c, e) x)))) k = get (ND (c_t c)) k).
  Proof.
    intros HC. pose proof HC as [I ND C]. unfold c_upd_visit. destruct (get (DU (c_t c)) (fst (fst x))) as [v|] eqn:E.
    - destruct (snd x); cbn [fst snd c_t c_dp c_loaded].
      + splits; auto; try lia.
        * constructor; cbn [c_t c_dp c_loaded]; auto using NoDup_set; [apply pu_visit_inv; assumption|].
          intros L k. unfold Coh. cbn [c_t c_dp]. rewrite pu_visit_dp. cbn [fst snd]. rewrite E, get_set.
          destruct (N.eqb (fst (fst x)) k); [reflexivity|apply (C L)].
        * intros k. apply pu_visit_get.
        * intros k. unfold pu_visit. rewrite E. reflexivity.
      + splits; auto; lia.
    - cbn [fst snd]. splits; auto; lia.
  Qed.
  Lemma c_del_visit_ci c e x : CI c ->
    CI (fst (c_del_visit V (c, e) x)) /\ (e <= snd (c_del_visit V (c, e) x))%Z /\
    c_loaded (fst (c_del_visit V (c, e) x)) = c_loaded c /\
    (forall k, des_get V (c_t (fst (c_del_visit V (c, e) x))) k = des_get V (c_t c) k) /\
    (forall k, get (DU (c_t (fst (c_del_visit V (c, e) x)))) k = get (DU (c_t c)) k).
  Proof.
    intros HC. pose proof HC as [I ND C]. unfold c_del_visit. destruct (get (Model.ND (c_t c)) (fst x)) as [v|] eqn:E.
    - destruct (snd x); cbn [fst snd c_t c_dp c_loaded].
      + splits; auto; try lia.
        * constructor; cbn [c_t c_dp c_loaded]; auto using NoDup_del; [apply pd_visit_inv; assumption|].
          intros L k. unfold Coh. cbn [c_t c_dp]. rewrite (pd_visit_dp V veq) by assumption. cbn [fst snd]. rewrite E, get_del.
          destruct (N.eqb (fst x) k); [reflexivity|apply (C L)].
        * intros k. apply pd_visit_get.
        * intros k. unfold pd_visit. rewrite E. reflexivity.
      + splits; auto; lia.
    - cbn [fst snd]. splits; auto; lia.
  Qed.

  (* the Apply loops: invariants, error count only grows, and which keys are still pending afterwards:
     a key is cleared exactly when one of its calls succeeded while it was pending *)
  Lemma c_upd_fold tr : forall c e, CI c ->
    let r := fold_left (c_upd_visit V) tr (c, e) in
    CI (fst r) /\ (e <= snd r)%Z /\ c_loaded (fst r) = c_loaded c /\
    (forall k, des_get V (c_t (fst r)) k = des_get V (c_t c) k) /\
    (forall k, get (ND (c_t (fst r))) k = get (ND (c_t c)) k) /\
    (forall k, (forall x, In x tr -> fst (fst x) = k -> snd x = false) -> get (DU (c_t (fst r))) k = get (DU (c_t c)) k) /\
    (snd r = e -> forall k, In k (map (fun x => fst (fst x)) tr) -> get (DU (c_t (fst r))) k = None).
  Proof.
    induction tr as [|x tr IH]; intros c e HC; cbn [fold_left]; cbn zeta.
    - cbn [fst snd]. splits; auto; try lia. intros _ k [].
    - destruct (c_upd_visit_ci c e x HC) as (H1 & H2 & H3 & H4 & H5).
      destruct (c_upd_visit V (c, e) x) as [c1 e1] eqn:E1. cbn [fst snd] in *.
      destruct (IH c1 e1 H1) as (J1 & J2 & J3 & J4 & J5 & J6 & J7). cbn zeta in *.
      split; [assumption|]. split; [lia|]. split; [congruence|].
      split; [intros k; rewrite J4; apply H4|]. split; [intros k; rewrite J5; apply H5|]. split.
      + intros k Hk. rewrite J6 by (intros y Hy; apply Hk; right; exact Hy).
        unfold c_upd_visit in E1. destruct (get (DU (c_t c)) (fst (fst x))) as [v|] eqn:Eg; [|congruence].
        destruct (snd x) eqn:Es; [|congruence].
        destruct (N.eq_dec (fst (fst x)) k) as [Hx|Hx].
        * rewrite (Hk x (or_introl eq_refl) Hx) in Es. discriminate.
        * inversion E1; subst. cbn [c_t]. unfold pu_visit. rewrite Eg. cbn [DU]. rewrite get_del.
          destruct (N.eqb_spec (fst (fst x)) k); [contradiction|reflexivity].
      + intros He k Hin. assert (e1 = e) by lia. subst e1.
        destruct (in_dec N.eq_dec k (map (fun x => fst (fst x)) tr)) as [Hr|Hr]; [apply (J7 He k Hr)|].
        destruct Hin as [Hk|Hk]; [|contradiction].
        (* k is visited here and not again: it must be absent, or cleared now *)
        rewrite J6.
        * unfold c_upd_visit in E1. rewrite Hk in E1. destruct (get (DU (c_t c)) k) as [v|] eqn:Eg.
          -- destruct (snd x); inversion E1; subst; [|lia]. cbn [c_t]. unfold pu_visit. rewrite Eg. cbn [DU].
             rewrite get_del, N.eqb_refl. reflexivity.
          -- inversion E1; subst. exact Eg.
        * intros y Hy Hyk. exfalso. apply Hr. rewrite <- Hyk. apply (in_map (fun x => fst (fst x))), Hy.
  Qed.

  Lemma c_del_fold tr : forall c e, CI c ->
    let r := fold_left (c_del_visit V) tr (c, e) in
    CI (fst r) /\ (e <= snd r)%Z /\ c_loaded (fst r) = c_loaded c /\
    (forall k, des_get V (c_t (fst r)) k = des_get V (c_t c) k) /\
    (forall k, get (DU (c_t (fst r))) k = get (DU (c_t c)) k) /\
    (forall k, (forall x, In x tr -> fst x = k -> snd x = false) -> get (ND (c_t (fst r))) k = get (ND (c_t c)) k) /\
    (snd r = e -> forall k, In k (map fst tr) -> get (ND (c_t (fst r))) k = None).
  Proof.
    induction tr as [|x tr IH]; intros c e HC; cbn [fold_left]; cbn zeta.
    - cbn [fst snd]. splits; auto; try lia. intros _ k [].
    - destruct (c_del_visit_ci c e x HC) as (H1 & H2 & H3 & H4 & H5).
      destruct (c_del_visit V (c, e) x) as [c1 e1] eqn:E1. cbn [fst snd] in *.
      destruct (IH c1 e1 H1) as (J1 & J2 & J3 & J4 & J5 & J6 & J7). cbn zeta in *.
      split; [assumption|]. split; [lia|]. split; [congruence|].
      split; [intros k; rewrite J4; apply H4|]. split; [intros k; rewrite J5; apply H5|]. split.
      + intros k Hk. rewrite J6 by (intros y Hy; apply Hk; right; exact Hy).
        unfold c_del_visit in E1. destruct (get (ND (c_t c)) (fst x)) as [v|] eqn:Eg; [|congruence].
        destruct (snd x) eqn:Es; [|congruence].
        destruct (N.eq_dec (fst x) k) as [Hx|Hx].
        * rewrite (Hk x (or_introl eq_refl) Hx) in Es. discriminate.
        * inversion E1; subst. cbn [c_t]. unfold pd_visit. rewrite Eg. cbn [ND]. rewrite get_del.
          destruct (N.eqb_spec (fst x) k); [contradiction|reflexivity].
      + intros He k Hin. assert (e1 = e) by lia. subst e1.
        destruct (in_dec N.eq_dec k (map fst tr)) as [Hr|Hr]; [apply (J7 He k Hr)|].
        destruct Hin as [Hk|Hk]; [|contradiction].
        rewrite J6.
        * unfold c_del_visit in E1. rewrite Hk in E1. destruct (get (ND (c_t c)) k) as [v|] eqn:Eg.
          -- destruct (snd x); inversion E1; subst; [|lia]. cbn [c_t]. unfold pd_visit. rewrite Eg. cbn [ND].
             rewrite get_del, N.eqb_refl. reflexivity.
          -- inversion E1; subst. exact Eg.
        * intros y Hy Hyk. exfalso. apply Hr. rewrite <- Hyk. apply (in_map fst), Hy.
  Qed.

  Lemma synced s : (forall a b, veq a b = true -> a = b) -> Inv s ->
    (forall k, pu_get V s k = None) -> (forall k, pd_get V s k = None) -> forall k, des_get V s k = dp_get V s k.
  Proof.
    intros Heq I Hu Hd k. specialize (Hu k). specialize (Hd k).
    rewrite (inv_pu V veq veq_refl s k I) in Hu. rewrite (inv_pd V veq s k I) in Hd.
    unfold pending_update, pending_del in *.
    destruct (des_get V s k) as [d|], (dp_get V s k) as [p|]; try congruence.
    destruct (veq p d) eqn:E; [|congruence]. apply Heq in E. congruence.
  Qed.

  (* ApplyDeletionsOnly / ApplyUpdatesOnly / ApplyAllChanges keep the CachingMap invariant whatever fails:
     the tracker goes on reporting the exact difference between the desired map and the REAL dataplane map *)
  Lemma c_del_ci fixed lf tr c : CI c -> CI (fst (c_del V veq fixed lf tr c)) /\ (0 <= snd (c_del V veq fixed lf tr c))%Z.
  Proof.
    intros HC. unfold c_del. destruct (c_maybe_load_ok fixed lf c HC) as (H1 & H2 & H3 & H4 & H5). cbn zeta in *.
    destruct (c_maybe_load V veq fixed lf c) as [c1 e0]. cbn [fst snd] in *.
    destruct (Z.eqb e0 0); [|auto]. destruct (c_del_fold tr c1 0%Z H1) as (J1 & J2 & _). auto.
  Qed.
  Lemma c_upd_ci fixed lf tr c : CI c -> CI (fst (c_upd V veq fixed lf tr c)) /\ (0 <= snd (c_upd V veq fixed lf tr c))%Z.
  Proof.
    intros HC. unfold c_upd. destruct (c_maybe_load_ok fixed lf c HC) as (H1 & H2 & H3 & H4 & H5). cbn zeta in *.
    destruct (c_maybe_load V veq fixed lf c) as [c1 e0]. cbn [fst snd] in *.
    destruct (Z.eqb e0 0); [|auto]. destruct (c_upd_fold tr c1 0%Z H1) as (J1 & J2 & _). auto.
  Qed.

  Theorem apply_exact_after_failures fixed lf trd tru c : CI c ->
    let c' := fst (c_all V veq fixed lf trd tru c) in
    CI c' /\
    (c_loaded c' = true -> forall k,
       pu_get V (c_t c') k = pending_update V veq (des_get V (c_t c')) (get (c_dp c')) k /\
       pd_get V (c_t c') k = pending_del V (des_get V (c_t c')) (get (c_dp c')) k).
  Proof.
    intros HC. cbn zeta. unfold c_all.
    destruct (c_del_ci fixed lf trd c HC) as (H1 & _). destruct (c_del V veq fixed lf trd c) as [c1 e1]. cbn [fst] in H1.
    destruct (c_upd_ci fixed lf tru c1 H1) as (H2 & _). destruct (c_upd V veq fixed lf tru c1) as [c2 e2]. cbn [fst] in *.
    split; [assumption|]. intros L k. destruct H2 as [I ND C]. specialize (C L).
    rewrite (inv_pu V veq veq_refl _ k I), (inv_pd V veq _ k I). unfold pending_update, pending_del. rewrite !C. auto.
  Qed.

  (* a write that fails leaves its key pending (no load in between: the cache is loaded) *)
  Theorem failed_update_stays_pending fixed lf tr c k : CI c -> c_loaded c = true ->
    (forall x, In x tr -> fst (fst x) = k -> snd x = false) ->
    pu_get V (c_t (fst (c_upd V veq fixed lf tr c))) k = pu_get V (c_t c) k.
  Proof using All.
    intros HC L H. unfold c_upd, c_maybe_load. rewrite L. cbn [Z.eqb].
    destruct (c_upd_fold tr c 0%Z HC) as (_ & _ & _ & _ & _ & J6 & _). apply (J6 k H).
  Qed.
  Theorem failed_delete_stays_pending fixed lf tr c k : CI c -> c_loaded c = true ->
    (forall x, In x tr -> fst x = k -> snd x = false) ->
    pd_get V (c_t (fst (c_del V veq fixed lf tr c))) k = pd_get V (c_t c) k.
  Proof using All.
    intros HC L H. unfold c_del, c_maybe_load. rewrite L. cbn [Z.eqb].
    destruct (c_del_fold tr c 0%Z HC) as (_ & _ & _ & _ & _ & J6 & _). apply (J6 k H).
  Qed.

  (* convergence: ApplyAllChanges returned nil and the Apply loops visited every pending key (the code
     ranges over the whole map; trd/tru are the calls it made) => the real dataplane map equals the
     desired map and nothing is pending.  valuesEqual is identity here (CachingMap fixes it to ==). *)
  Theorem apply_all_converges fixed lf trd tru c :
    (forall a b, veq a b = true -> a = b) -> CI c ->
    let c1 := fst (c_maybe_load V veq fixed lf c) in
    (forall k, get (ND (c_t c1)) k <> None -> In k (map fst trd)) ->
    (forall k, get (DU (c_t c1)) k <> None -> In k (map (fun x => fst (fst x)) tru)) ->
    let r := c_all V veq fixed lf trd tru c in
    snd r = 0%Z ->
    CI (fst r) /\ c_loaded (fst r) = true /\
    (forall k, get (c_dp (fst r)) k = des_get V (c_t (fst r)) k) /\
    (forall k, pu_get V (c_t (fst r)) k = None) /\ (forall k, pd_get V (c_t (fst r)) k = None) /\
    (forall k, des_get V (c_t (fst r)) k = des_get V (c_t c) k).
  Proof.
    intros Heq HC. cbn zeta. intros CovD CovU.
    unfold c_all, c_del.
    destruct (c_maybe_load_ok fixed lf c HC) as (H1 & H2 & H3 & H4 & H5). cbn zeta in *.
    destruct (c_maybe_load V veq fixed lf c) as [c1 e0] eqn:EL. cbn [fst snd] in *.
    destruct (Z.eqb_spec e0 0) as [->|Hne].
    2:{ (* the load failed *)
        destruct (c_upd_ci fixed lf tru c1 H1) as (_ & P). destruct (c_upd V veq fixed lf tru c1) as [c2 e2]. cbn [fst snd] in *.
        destruct (Z.eqb_spec e0 0); [contradiction|]. destruct (Z.eqb e2 0); intros; lia. }
    specialize (H4 eq_refl).
    destruct (c_del_fold trd c1 0%Z H1) as (J1 & J2 & J3 & J4 & J5 & J6 & J7). cbn zeta in *.
    destruct (fold_left (c_del_visit V) trd (c1, 0%Z)) as [c2 e1] eqn:ED. cbn [fst snd] in *.
    unfold c_upd, c_maybe_load. rewrite J3, H4.
    change (Z.eqb 0 0) with true. cbn iota.
    destruct (c_upd_fold tru c2 0%Z J1) as (K1 & K2 & K3 & K4 & K5 & K6 & K7). cbn zeta in *.
    destruct (fold_left (c_upd_visit V) tru (c2, 0%Z)) as [c3 e2] eqn:EU. cbn [fst snd] in *.
    intros Hz. assert (e1 = 0%Z /\ e2 = 0%Z) as [-> ->].
    { destruct (Z.eqb_spec e1 0), (Z.eqb_spec e2 0); lia. }
    assert (ND3 : forall k, get (ND (c_t c3)) k = None).
    { intros k. rewrite K5. destruct (in_dec N.eq_dec k (map fst trd)) as [Hi|Hi]; [apply (J7 eq_refl k Hi)|].
      rewrite J6; [|intros y Hy Hk; exfalso; apply Hi; rewrite <- Hk; apply in_map, Hy].
      destruct (get (ND (c_t c1)) k) eqn:E; [|reflexivity]. exfalso. apply Hi, CovD. congruence. }
    assert (DU3 : forall k, get (DU (c_t c3)) k = None).
    { intros k. destruct (in_dec N.eq_dec k (map (fun x => fst (fst x)) tru)) as [Hi|Hi]; [apply (K7 eq_refl k Hi)|].
      rewrite K6; [|intros y Hy Hk; exfalso; apply Hi; rewrite <- Hk; apply (in_map (fun x => fst (fst x))), Hy].
      rewrite J5. destruct (get (DU (c_t c1)) k) eqn:E; [|reflexivity]. exfalso. apply Hi, CovU. congruence. }
    assert (L3 : c_loaded c3 = true) by congruence.
    split; [assumption|]. split; [assumption|]. split.
    - intros k. rewrite <- (ci_coh c3 K1 L3 k). symmetry. apply synced; auto. apply K1.
    - split; [exact DU3|]. split; [exact ND3|].
      intros k. rewrite K4, J4. specialize (H5 k).
      destruct (des_get V (c_t c1) k), (des_get V (c_t c) k); cbn in H5; try congruence. apply Heq in H5. congruence.
  Qed.
  (* ---- reachable CachingMap states (no writes behind the cache's back) satisfy CI ---- *)
  Definition cop_ok (o : cop V) : Prop :=
    match o with
    | COp (DesSet _ _) | COp (DesDel _) | COp DesDelAll | COp (DesSetMany _) => True
    | COp _ | ExtSet _ _ | ExtDel _ | CUpdB _ _ | CDelB _ _ | CAllB _ _ _ => False
    | _ => True
    end.
  Definition crun (fixed : bool) (ops : list (cop V)) : cst := fold_left (fun c o => fst (cstep V veq fixed c o)) ops (cst0 V).

  Lemma cstep_ci fixed c o : cop_ok o -> CI c -> CI (fst (cstep V veq fixed c o)).
  Proof.
    intros Ho HC. pose proof HC as [I ND C]. destruct o as [o| | | | | | | | |]; cbn [cstep cop_ok] in *; try contradiction.
    - destruct o; try contradiction; cbn [fst step c_t c_dp c_loaded]; constructor; cbn [c_t c_dp c_loaded]; auto.
      + apply des_set_inv; assumption.
      + intros L k'. unfold Coh. cbn [c_t c_dp]. rewrite (des_set_dp V veq) by assumption. apply (C L).
      + apply des_delete_inv; assumption.
      + intros L k'. unfold Coh. cbn [c_t c_dp]. rewrite (des_delete_dp V veq) by assumption. apply (C L).
      + apply des_delete_all_inv; assumption.
      + intros L k'. unfold Coh. cbn [c_t c_dp]. rewrite (des_delete_all_dp V veq) by assumption. apply (C L).
      + apply (fold_inv V veq (fun s kv => des_set V veq (fst kv) (snd kv) s)); auto using des_set_inv.
      + intros L k'. unfold Coh. cbn [c_t c_dp].
        rewrite (fold_same V veq (fun s => dp_get V s k') (fun s kv => des_set V veq (fst kv) (snd kv) s)); auto using des_set_inv.
        * apply (C L).
        * intros. apply des_set_dp; assumption.
    - unfold c_load. destruct fail; [exact HC|]. apply (c_load_ok fixed c I ND).
    - apply c_upd_ci, HC.
    - apply c_del_ci, HC.
    - unfold c_all. destruct (c_del_ci fixed loadfail trd c HC) as (H1 & _). destruct (c_del V veq fixed loadfail trd c) as [c1 e1].
      destruct (c_upd_ci fixed loadfail tru c1 H1) as (H2 & _). destruct (c_upd V veq fixed loadfail tru c1) as [c2 e2]. exact H2.
  Qed.

  Lemma CI_cst0 : CI (cst0 V).
  Proof. constructor; cbn; [apply Inv_st0|constructor|discriminate]. Qed.

  Theorem crun_ci fixed ops : Forall cop_ok ops -> CI (crun fixed ops).
  Proof.
    unfold crun. generalize (cst0 V) CI_cst0. induction ops as [|o ops IH]; intros c HC H; cbn [fold_left]; [assumption|].
    inversion H; subst. apply IH; [apply cstep_ci; assumption|assumption].
  Qed.
End Cache.
