(* C18 — specification: what the property text says, independent of how the tracker stores things.

   Two abstract maps: D (desired) and P (dataplane), changed by the operations in the obvious way.
   The tracker must always report:   Desired view = D,  Dataplane view = P,
     PendingUpdates   = { k |-> D k  |  k in D and (k not in P  or  P k differs from D k) },
     PendingDeletions = { k          |  k in P and k not in D },
   and each Len() = number of keys of the corresponding view.
   "Differs"/"=" on values are the tracker's valuesEqual (veq), an equivalence; where veq is
   identity everything is literal equality. *)
From Coq Require Import List NArith ZArith Bool.
From Verif.C18 Require Import Model.
Import ListNotations.
Open Scope N_scope.

Section Spec.
  Variable V : Type.
  Variable veq : V -> V -> bool.

  (* the exact difference of two maps, given as lookup functions *)
  Definition pending_update (D P : N -> option V) (k : N) : option V :=
    match D k with
    | None => None
    | Some d => match P k with
                | None => Some d
                | Some p => if veq p d then None else Some d
                end
    end.
  Definition pending_del (D P : N -> option V) (k : N) : option V :=
    match P k, D k with
    | Some p, None => Some p
    | _, _ => None
    end.

  Definition opt_veq (a b : option V) : bool :=
    match a, b with
    | Some x, Some y => veq x y
    | None, None => true
    | _, _ => false
    end.

  (* ---- the two abstract maps under the operations ---- *)
  Definition of_list (kvs : list (N * V)) (m : amap V) : amap V :=
    fold_left (fun m p => set (fst p) (snd p) m) kvs m.

  Definition a_pu_visit (DP : amap V * amap V) (ka : N * act) : amap V * amap V :=
    let '(D, P) := DP in
    match snd ka with
    | AUpd => match pending_update (get D) (get P) (fst ka) with
              | Some d => (D, set (fst ka) d P)       (* the pending KV is now in the dataplane *)
              | None => (D, P)
              end
    | _ => (D, P)
    end.
  Definition a_pd_visit (DP : amap V * amap V) (ka : N * act) : amap V * amap V :=
    let '(D, P) := DP in
    match snd ka with
    | AUpd => match pending_del (get D) (get P) (fst ka) with
              | Some _ => (D, del (fst ka) P)
              | None => (D, P)
              end
    | _ => (D, P)
    end.

  Definition a_step (DP : amap V * amap V) (o : op V) : amap V * amap V :=
    let '(D, P) := DP in
    match o with
    | DesSet k v => (set k v D, P)
    | DesDel k => (del k D, P)
    | DesDelAll => ([], P)
    | DpSet k v => (D, set k v P)
    | DpDel k => (D, del k P)
    | DpDelAll => (D, [])
    | Replace kvs false => (D, of_list kvs [])      (* contents replaced by what the iterator produced *)
    | Replace kvs true => (D, of_list kvs P)        (* failed part-way: the KVs seen so far are applied *)
    | IterUpd tr => fold_left a_pu_visit (map (fun x => (fst (fst x), snd x)) tr) (D, P)
    | IterDel tr => fold_left a_pd_visit tr (D, P)
    (* IterBatched: the items applyFn reported as applied (the first `applied` of each batch shown) *)
    | IterBatchUpd calls => fold_left a_pu_visit (map (fun kv => (fst kv, AUpd)) (applied_of calls)) (D, P)
    | IterBatchDel calls => fold_left a_pd_visit (map (fun kv => (fst kv, AUpd)) (applied_of calls)) (D, P)
    | DesSetMany kvs => (of_list kvs D, P)
    end.
  Definition a_run (ops : list (op V)) : amap V * amap V := fold_left a_step ops ([], []).

  (* ---- CachingMap: D, the tracker's belief P, the real dataplane map Rl, cacheLoaded, and whether the
     cache is coherent (loaded and not bypassed since) ---- *)
  (* raw tracker operations that change the Dataplane view without touching the real map *)
  Definition touches_dp (o : op V) : bool :=
    match o with DesSet _ _ | DesDel _ | DesDelAll | DesSetMany _ => false | _ => true end.
  Record astate := AS { a_D : amap V; a_P : amap V; a_R : amap V; a_loaded : bool; a_coh : bool }.
  Definition a_load (fail : bool) (a : astate) : astate * Z :=
    if fail then (a, 1%Z) else (AS (a_D a) (a_R a) (a_R a) true true, 0%Z).
  Definition a_maybe_load (fail : bool) (a : astate) : astate * Z :=
    if a_loaded a then (a, 0%Z) else a_load fail a.
  Definition a_upd_visit (ae : astate * Z) (x : N * V * bool) : astate * Z :=
    let '(a, e) := ae in let k := fst (fst x) in
    match pending_update (get (a_D a)) (get (a_P a)) k with
    | None => ae
    | Some d => if snd x then (AS (a_D a) (set k d (a_P a)) (set k d (a_R a)) (a_loaded a) (a_coh a), e)
                else (a, (e + 1)%Z)          (* the write failed: the key must stay pending *)
    end.
  Definition a_del_visit (ae : astate * Z) (x : N * bool) : astate * Z :=
    let '(a, e) := ae in let k := fst x in
    match pending_del (get (a_D a)) (get (a_P a)) k with
    | None => ae
    | Some _ => if snd x then (AS (a_D a) (del k (a_P a)) (del k (a_R a)) (a_loaded a) (a_coh a), e)
                else (a, (e + 1)%Z)
    end.
  Definition a_upd (lf : bool) (tr : list (N * V * bool)) (a : astate) : astate * Z :=
    let '(a1, e) := a_maybe_load lf a in if Z.eqb e 0 then fold_left a_upd_visit tr (a1, 0%Z) else (a1, e).
  Definition a_del (lf : bool) (tr : list (N * bool)) (a : astate) : astate * Z :=
    let '(a1, e) := a_maybe_load lf a in if Z.eqb e 0 then fold_left a_del_visit tr (a1, 0%Z) else (a1, e).
  (* batched path: the items BatchUpdate / BatchDelete reported done (ErrNotExists counts as done) *)
  Definition a_upd_b (lf : bool) (calls : list (list (N * V) * (nat * N))) (a : astate) : astate * Z :=
    let '(a1, e) := a_maybe_load lf a in
    if Z.eqb e 0
    then (fst (fold_left a_upd_visit (map (fun kv => (fst kv, snd kv, true)) (applied_of (adj_calls V false calls))) (a1, 0%Z)),
          nerr_of V false calls)
    else (a1, e).
  Definition a_del_b (lf : bool) (calls : list (list (N * V) * (nat * N))) (a : astate) : astate * Z :=
    let '(a1, e) := a_maybe_load lf a in
    if Z.eqb e 0
    then (fst (fold_left a_del_visit (map (fun kv => (fst kv, true)) (applied_of (adj_calls V true calls))) (a1, 0%Z)),
          nerr_of V true calls)
    else (a1, e).
  Definition a_cstep (a : astate) (o : cop V) : astate * Z :=
    match o with
    | COp o => let DP := a_step (a_D a, a_P a) o in
               (AS (fst DP) (snd DP) (a_R a) (a_loaded a) (a_coh a && negb (touches_dp o)), 0%Z)
    | ExtSet k v => (AS (a_D a) (a_P a) (set k v (a_R a)) (a_loaded a) false, 0%Z)
    | ExtDel k => (AS (a_D a) (a_P a) (del k (a_R a)) (a_loaded a) false, 0%Z)
    | CLoad fail => a_load fail a
    | CUpd lf tr => a_upd lf tr a
    | CDel lf tr => a_del lf tr a
    | CAll lf trd tru => let '(a1, e1) := a_del lf trd a in let '(a2, e2) := a_upd lf tru a1 in
                         (a2, ((if Z.eqb e1 0 then 0 else 1) + (if Z.eqb e2 0 then 0 else 1))%Z)
    | CUpdB lf calls => a_upd_b lf calls a
    | CDelB lf calls => a_del_b lf calls a
    | CAllB lf cd cu => let '(a1, e1) := a_del_b lf cd a in let '(a2, e2) := a_upd_b lf cu a1 in
                        (a2, ((if Z.eqb e1 0 then 0 else 1) + (if Z.eqb e2 0 then 0 else 1))%Z)
    end.
  Definition as0 : astate := AS [] [] [] false false.

  (* ---- the statement about one tracker state, in terms of its four views ---- *)
  (* views as lookup functions + Len()s *)
  Record views := Views {
    v_des : N -> option V; v_dp : N -> option V; v_pu : N -> option V; v_pd : N -> option V }.

  Definition views_exact (w : views) (D P : amap V) : Prop :=
    (forall k, opt_veq (v_des w k) (get D k) = true) /\
    (forall k, opt_veq (v_dp w k) (get P k) = true) /\
    (forall k, v_pu w k = pending_update (v_des w) (v_dp w) k) /\
    (forall k, v_pd w k = pending_del (v_des w) (v_dp w) k).
End Spec.

Arguments AS {V}. Arguments a_D {V}. Arguments a_P {V}. Arguments a_R {V}. Arguments a_loaded {V}. Arguments a_coh {V}.
Arguments Views {V}. Arguments v_des {V}. Arguments v_dp {V}. Arguments v_pu {V}. Arguments v_pd {V}.

(* ---------- boolean oracle over the implementation's dumps (V = N) ---------- *)
Definition nodup_keysb (l : list N) : bool :=
  (fix go (l : list N) := match l with [] => true | x :: l' => negb (existsb (N.eqb x) l') && go l' end) l.

Definition dedup_keys (l : list N) : list N := nodup N.eq_dec l.

Definition ok_obs (kd : kind) (univ : list N) (D P : amap N) (o : obs) : bool :=
  let veq := veq_of kd in
  let ks := dedup_keys (univ ++ keys D ++ keys P ++ keys (o_des o) ++ keys (o_dp o) ++ keys (o_pu o) ++ o_pd o) in
  let des := get (o_des o) in let dp := get (o_dp o) in
  (* every view lists a key once *)
  nodup_keysb (keys (o_des o)) && nodup_keysb (keys (o_dp o)) && nodup_keysb (keys (o_pu o)) && nodup_keysb (o_pd o) &&
  (* Desired = D, Dataplane = P *)
  forallb (fun k => opt_veq N veq (des k) (get D k) && opt_veq N veq (dp k) (get P k)) ks &&
  (* pending updates / deletions = the exact difference, with the Desired view's own value *)
  forallb (fun k => on_eqb (get (o_pu o) k) (pending_update N veq des dp k)) ks &&
  forallb (fun k => Bool.eqb (existsb (N.eqb k) (o_pd o))
                             (match pending_del N des dp k with Some _ => true | None => false end)) ks &&
  (* Len()s *)
  Z.eqb (o_deslen o) (len (o_des o)) && Z.eqb (o_dplen o) (len (o_dp o)) &&
  Z.eqb (o_pulen o) (len (o_pu o)) && Z.eqb (o_pdlen o) (Z.of_nat (length (o_pd o))) &&
  (* Get()s agree with the iterated views *)
  Nat.eqb (length (o_gets o)) (length univ) &&
  forallb (fun kg => let '(k, (g1, g2, g3, g4)) := kg in
                     on_eqb g1 (des k) && on_eqb g2 (dp k) && on_eqb g3 (get (o_pu o) k) &&
                     on_eqb g4 (pending_del N des dp k)) (combine univ (o_gets o)) &&
  (* LenUpperBound really is an upper bound *)
  (match kd with KSet => Z.leb (o_deslen o) (o_ub o) | _ => true end).

(* what the callbacks of an iteration were shown: each visited key once, pending before the
   iteration with exactly the value shown; without a stop request every pending key is visited *)
Definition ok_iter_upd (prev_pu : list (N * N)) (tr : list (N * N * act)) : bool :=
  nodup_keysb (map (fun x => fst (fst x)) tr) &&
  forallb (fun x => on_eqb (get prev_pu (fst (fst x))) (Some (snd (fst x)))) tr &&
  (existsb (fun x => match snd x with AStop => true | _ => false end) tr
   || forallb (fun p => existsb (fun x => N.eqb (fst (fst x)) (fst p)) tr) prev_pu).
Definition ok_iter_del (prev_pd : list N) (tr : list (N * act)) : bool :=
  nodup_keysb (map fst tr) &&
  forallb (fun x => existsb (N.eqb (fst x)) prev_pd) tr &&
  (existsb (fun x => match snd x with AStop => true | _ => false end) tr
   || forallb (fun k => existsb (fun x => N.eqb (fst x) k) tr) prev_pd).

(* equality of two maps given as lists with unique keys *)
Definition map_eqb (a b : list (N * N)) : bool :=
  forallb (fun p => on_eqb (get b (fst p)) (Some (snd p))) a && forallb (fun p => on_eqb (get a (fst p)) (Some (snd p))) b.

(* CachingMap part of an observation: the real map is what the operations made of it; the number of errors
   is the number of failed calls; a coherent cache's Dataplane view is the real map (coherent = loaded and not
   bypassed by out-of-band writes since); after an ApplyAllChanges without error on a coherent cache the real map equals the desired map and nothing is pending. *)
Definition ok_cache (a : astate N) (e : Z) (o : cop N) (ob : obs) : bool :=
  nodup_keysb (keys (o_real ob)) && map_eqb (o_real ob) (a_R a) && Z.eqb (o_nerr ob) e &&
  (if a_coh a then map_eqb (o_dp ob) (o_real ob) else true) &&
  (match o with
   | CAll _ _ _ | CAllB _ _ _ => if a_coh a && Z.eqb (o_nerr ob) 0
                   then map_eqb (o_real ob) (o_des ob) && Nat.eqb (length (o_pu ob)) 0 && Nat.eqb (length (o_pd ob)) 0
                   else true
   | _ => true
   end).

(* IterBatched: every item shown was pending with that value; an applied count never exceeds the batch *)
Definition ok_batch_upd (prev_pu : list (N * N)) (calls : list (list (N * N) * (nat * bool))) : bool :=
  forallb (fun c => forallb (fun kv => on_eqb (get prev_pu (fst kv)) (Some (snd kv))) (fst c)) calls &&
  nodup_keysb (keys (applied_of calls)).
Definition ok_batch_del (prev_pd : list N) (calls : list (list (N * N) * (nat * bool))) : bool :=
  forallb (fun c => forallb (fun kv => existsb (N.eqb (fst kv)) prev_pd) (fst c)) calls &&
  nodup_keysb (keys (applied_of calls)).

Fixpoint ok_trace_from (kd : kind) (univ : list N) (a : astate N) (prev_pu : list (N * N)) (prev_pd : list N)
         (ops : list (cop N)) (outs : list obs) : bool :=
  match ops, outs with
  | [], [] => true
  | o :: ops', ob :: outs' =>
      let '(a', e) := a_cstep N (veq_of kd) a o in
      (match o with
       | COp (IterUpd tr) => ok_iter_upd prev_pu tr
       | COp (IterDel tr) => ok_iter_del prev_pd tr
       | COp (IterBatchUpd calls) => ok_batch_upd prev_pu calls
       | COp (IterBatchDel calls) => ok_batch_del prev_pd calls
       | _ => true
       end) &&
      ok_obs kd univ (a_D a') (a_P a') ob &&
      ok_cache a' e o ob &&
      ok_trace_from kd univ a' (o_pu ob) (o_pd ob) ops' outs'
  | _, _ => false
  end.

Definition ok_trace (kd : kind) (univ : list N) (ops : list (cop N)) (outs : list obs) : bool :=
  ok_trace_from kd univ (as0 N) [] [] ops outs.

(* one correspondence case, as written by the Go harness *)
Record case := { c_kind : kind; c_univ : list N; c_ops : list (cop N); c_outs : list obs }.

(* The model is compared as pinned before the repair (fixed=false) and with the repair of
   fixes/C18-replace-iter-duplicate-key.patch (fixed=true): the implementation must be one of them. *)
Definition check_case (c : case) : bool * bool :=
  (obsl_eqb (run_obs false (c_kind c) (c_univ c) (cst0 N) (c_ops c)) (c_outs c)
   || obsl_eqb (run_obs true (c_kind c) (c_univ c) (cst0 N) (c_ops c)) (c_outs c),
   ok_trace (c_kind c) (c_univ c) (c_ops c) (c_outs c)).
