(* C18 — specification: what the property text says, independent of how the tracker stores things.

   Two abstract maps: D (desired) and P (dataplane), changed by the operations in the obvious way.
   The tracker must always report:   Desired view = D,  Dataplane view = P,
     PendingUpdates   = { k |-> D k  |  k in D and (k not in P  or  P k differs from D k) },
     PendingDeletions = { k          |  k in P and k not in D },
   and each Len() = number of keys of the corresponding view.
   "Differs"/"=" on values are the tracker's valuesEqual (veq), an equivalence; where veq is
   identity everything is literal equality. *)
From Coq Require Import List NArith ZArith Bool.
From Verif.C18 Require Import Model.
Import ListNotations.
Open Scope N_scope.

Section Spec.
  Variable V : Type.
  Variable veq : V -> V -> bool.

  (* the exact difference of two maps, given as lookup functions *)
  Definition pending_update (D P : N -> option V) (k : N) : option V :=
    match D k with
    | None => None
    | Some d => match P k with
                | None => Some d
                | Some p => if veq p d then None else Some d
                end
    end.
  Definition pending_del (D P : N -> option V) (k : N) : option V :=
    match P k, D k with
    | Some p, None => Some p
    | _, _ => None
    end.

  Definition opt_veq (a b : option V) : bool :=
    match a, b with
    | Some x, Some y => veq x y
    | None, None => true
    | _, _ => false
    end.

  (* ---- the two abstract maps under the operations ---- *)
  Definition of_list (kvs : list (N * V)) (m : amap V) : amap V :=
    fold_left (fun m p => set (fst p) (snd p) m) kvs m.

  Definition a_pu_visit (DP : amap V * amap V) (ka : N * act) : amap V * amap V :=
    let '(D, P) := DP in
    match snd ka with
    | AUpd => match pending_update (get D) (get P) (fst ka) with
              | Some d => (D, set (fst ka) d P)       (* the pending KV is now in the dataplane *)
              | None => (D, P)
              end
    | _ => (D, P)
    end.
  Definition a_pd_visit (DP : amap V * amap V) (ka : N * act) : amap V * amap V :=
    let '(D, P) := DP in
    match snd ka with
    | AUpd => match pending_del (get D) (get P) (fst ka) with
              | Some _ => (D, del (fst ka) P)
              | None => (D, P)
              end
    | _ => (D, P)
    end.

  Definition a_step (DP : amap V * amap V) (o : op V) : amap V * amap V :=
    let '(D, P) := DP in
    match o with
    | DesSet k v => (set k v D, P)
    | DesDel k => (del k D, P)
    | DesDelAll => ([], P)
    | DpSet k v => (D, set k v P)
    | DpDel k => (D, del k P)
    | DpDelAll => (D, [])
    | Replace kvs false => (D, of_list kvs [])      (* contents replaced by what the iterator produced *)
    | Replace kvs true => (D, of_list kvs P)        (* failed part-way: the KVs seen so far are applied *)
    | IterUpd tr => fold_left a_pu_visit (map (fun x => (fst (fst x), snd x)) tr) (D, P)
    | IterDel tr => fold_left a_pd_visit tr (D, P)
    end.
  Definition a_run (ops : list (op V)) : amap V * amap V := fold_left a_step ops ([], []).

  (* ---- the statement about one tracker state, in terms of its four views ---- *)
  (* views as lookup functions + Len()s *)
  Record views := Views {
    v_des : N -> option V; v_dp : N -> option V; v_pu : N -> option V; v_pd : N -> option V }.

  Definition views_exact (w : views) (D P : amap V) : Prop :=
    (forall k, opt_veq (v_des w k) (get D k) = true) /\
    (forall k, opt_veq (v_dp w k) (get P k) = true) /\
    (forall k, v_pu w k = pending_update (v_des w) (v_dp w) k) /\
    (forall k, v_pd w k = pending_del (v_des w) (v_dp w) k).
End Spec.

Arguments Views {V}. Arguments v_des {V}. Arguments v_dp {V}. Arguments v_pu {V}. Arguments v_pd {V}.

(* ---------- boolean oracle over the implementation's dumps (V = N) ---------- *)
Definition nodup_keysb (l : list N) : bool :=
  (fix go (l : list N) := match l with [] => true | x :: l' => negb (existsb (N.eqb x) l') && go l' end) l.

Definition dedup_keys (l : list N) : list N := nodup N.eq_dec l.

Definition ok_obs (kd : kind) (univ : list N) (D P : amap N) (o : obs) : bool :=
  let veq := veq_of kd in
  let ks := dedup_keys (univ ++ keys D ++ keys P ++ keys (o_des o) ++ keys (o_dp o) ++ keys (o_pu o) ++ o_pd o) in
  let des := get (o_des o) in let dp := get (o_dp o) in
  (* every view lists a key once *)
  nodup_keysb (keys (o_des o)) && nodup_keysb (keys (o_dp o)) && nodup_keysb (keys (o_pu o)) && nodup_keysb (o_pd o) &&
  (* Desired = D, Dataplane = P *)
  forallb (fun k => opt_veq N veq (des k) (get D k) && opt_veq N veq (dp k) (get P k)) ks &&
  (* pending updates / deletions = the exact difference, with the Desired view's own value *)
  forallb (fun k => on_eqb (get (o_pu o) k) (pending_update N veq des dp k)) ks &&
  forallb (fun k => Bool.eqb (existsb (N.eqb k) (o_pd o))
                             (match pending_del N des dp k with Some _ => true | None => false end)) ks &&
  (* Len()s *)
  Z.eqb (o_deslen o) (len (o_des o)) && Z.eqb (o_dplen o) (len (o_dp o)) &&
  Z.eqb (o_pulen o) (len (o_pu o)) && Z.eqb (o_pdlen o) (Z.of_nat (length (o_pd o))) &&
  (* Get()s agree with the iterated views *)
  Nat.eqb (length (o_gets o)) (length univ) &&
  forallb (fun kg => let '(k, (g1, g2, g3, g4)) := kg in
                     on_eqb g1 (des k) && on_eqb g2 (dp k) && on_eqb g3 (get (o_pu o) k) &&
                     on_eqb g4 (pending_del N des dp k)) (combine univ (o_gets o)) &&
  (* LenUpperBound really is an upper bound *)
  (match kd with KSet => Z.leb (o_deslen o) (o_ub o) | _ => true end).

(* what the callbacks of an iteration were shown: each visited key once, pending before the
   iteration with exactly the value shown; without a stop request every pending key is visited *)
Definition ok_iter_upd (prev_pu : list (N * N)) (tr : list (N * N * act)) : bool :=
  nodup_keysb (map (fun x => fst (fst x)) tr) &&
  forallb (fun x => on_eqb (get prev_pu (fst (fst x))) (Some (snd (fst x)))) tr &&
  (existsb (fun x => match snd x with AStop => true | _ => false end) tr
   || forallb (fun p => existsb (fun x => N.eqb (fst (fst x)) (fst p)) tr) prev_pu).
Definition ok_iter_del (prev_pd : list N) (tr : list (N * act)) : bool :=
  nodup_keysb (map fst tr) &&
  forallb (fun x => existsb (N.eqb (fst x)) prev_pd) tr &&
  (existsb (fun x => match snd x with AStop => true | _ => false end) tr
   || forallb (fun k => existsb (fun x => N.eqb (fst x) k) tr) prev_pd).

Fixpoint ok_trace_from (kd : kind) (univ : list N) (DP : amap N * amap N) (prev_pu : list (N * N)) (prev_pd : list N)
         (ops : list (op N)) (outs : list obs) : bool :=
  match ops, outs with
  | [], [] => true
  | o :: ops', ob :: outs' =>
      let DP' := a_step N (veq_of kd) DP o in
      (match o with
       | IterUpd tr => ok_iter_upd prev_pu tr
       | IterDel tr => ok_iter_del prev_pd tr
       | _ => true
       end) &&
      ok_obs kd univ (fst DP') (snd DP') ob &&
      ok_trace_from kd univ DP' (o_pu ob) (o_pd ob) ops' outs'
  | _, _ => false
  end.

Definition ok_trace (kd : kind) (univ : list N) (ops : list (op N)) (outs : list obs) : bool :=
  ok_trace_from kd univ ([], []) [] [] ops outs.

(* one correspondence case, as written by the Go harness *)
Record case := { c_kind : kind; c_univ : list N; c_ops : list (op N); c_outs : list obs }.

(* The model is compared as pinned (fixed=false) and with the repair of
   fixes/C18-replace-iter-duplicate-key.patch (fixed=true): the implementation must be one of them. *)
Definition check_case (c : case) : bool * bool :=
  (obsl_eqb (run_obs false (c_kind c) (c_univ c) (st0 N) (c_ops c)) (c_outs c)
   || obsl_eqb (run_obs true (c_kind c) (c_univ c) (st0 N) (c_ops c)) (c_outs c),
   ok_trace (c_kind c) (c_univ c) (c_ops c) (c_outs c)).
