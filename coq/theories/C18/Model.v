(* C18 — executable model of felix/deltatracker/delta_tracker.go (DeltaTracker[K,V]) and, by
   instantiation (V := one value, valuesEqual := always true), of delta_set.go (SetDeltaTracker).
   Hand-written; tied to the Go code by the correspondence run (harness/C18).

   Go maps are association lists with unique keys (`get` = lookup, `set` = delete-then-cons,
   `del` = filter); only `get` and `length` are ever observed.  Keys are N (Go: any comparable K).
   The value type and the valuesEqual function are Section parameters.
   The three internal maps and desiredLen are modelled exactly as in the Go struct. *)
From Coq Require Import List NArith ZArith Bool.
Import ListNotations.
Open Scope N_scope.

(* ---------- Go map[K]V ---------- *)
Definition amap (V : Type) := list (N * V).

Fixpoint get {V} (m : amap V) (k : N) : option V :=
  match m with
  | [] => None
  | (k', v) :: m' => if N.eqb k' k then Some v else get m' k
  end.
Definition del {V} (k : N) (m : amap V) : amap V := filter (fun p => negb (N.eqb (fst p) k)) m.
Definition set {V} (k : N) (v : V) (m : amap V) : amap V := (k, v) :: del k m.
Definition mem {V} (k : N) (m : amap V) : bool := match get m k with Some _ => true | None => false end.
Definition keys {V} (m : amap V) : list N := map fst m.
Definition len {V} (m : amap V) : Z := Z.of_nat (length m).
(* maps.Copy(dst, src) *)
Definition copy_into {V} (dst src : amap V) : amap V := fold_left (fun d p => set (fst p) (snd p) d) src dst.

Inductive act := ANoOp | AUpd | AStop.   (* IterActionNoOp / IterActionUpdateDataplane / IterActionNoOpStopIteration *)

Section Tracker.
  Variable V : Type.
  Variable veq : V -> V -> bool.          (* the tracker's valuesEqual *)

  Record st := mk { AD : amap V;          (* inDataplaneAndDesired *)
                    ND : amap V;          (* inDataplaneNotDesired *)
                    DU : amap V;          (* desiredUpdates *)
                    dlen : Z }.           (* desiredLen *)

  Definition st0 : st := mk [] [] [] 0%Z.

  (* ---- DesiredView ---- *)
  Definition des_get (s : st) (k : N) : option V :=
    match get (DU s) k with Some v => Some v | None => get (AD s) k end.

  Definition des_set (k : N) (v : V) (s : st) : st :=
    match get (ND s) k with
    | Some cur =>
        (* move from "not desired" to "desired"; desiredLen++ *)
        let ad := set k cur (AD s) in
        let nd := del k (ND s) in
        let dl := (dlen s + 1)%Z in
        if veq cur v then mk ad nd (del k (DU s)) dl
        else mk ad nd (set k v (DU s)) dl
    | None =>
        match get (AD s) k with
        | Some cur =>
            if veq cur v then mk (AD s) (ND s) (del k (DU s)) (dlen s)
            else mk (AD s) (ND s) (set k v (DU s)) (dlen s)
        | None =>
            mk (AD s) (ND s) (set k v (DU s)) (if mem k (DU s) then dlen s else (dlen s + 1)%Z)
        end
    end.

  Definition des_delete (k : N) (s : st) : st :=
    let pdes := mem k (DU s) in
    let du := del k (DU s) in
    match get (AD s) k with
    | Some cur => mk (del k (AD s)) (set k cur (ND s)) du (dlen s - 1)%Z
    | None => mk (AD s) (ND s) du (if pdes then (dlen s - 1)%Z else dlen s)
    end.

  (* DesiredView.Iter: desiredUpdates first, then inDataplaneAndDesired entries not shadowed *)
  Definition des_iter (s : st) : amap V :=
    DU s ++ filter (fun p => negb (mem (fst p) (DU s))) (AD s).

  (* DeleteAll = Iter(func(k, v) { Delete(k) }): the callback mutates the maps being ranged over.
     Go's range never yields a deleted key, so: Delete every key of desiredUpdates (in order
     `o1`), then every key still in inDataplaneAndDesired that is not (now) in desiredUpdates. *)
  Definition des_delete_all (s : st) : st :=
    let s1 := fold_left (fun s k => des_delete k s) (keys (DU s)) s in
    fold_left (fun s k => if mem k (AD s) && negb (mem k (DU s)) then des_delete k s else s) (keys (AD s1)) s1.

  Definition des_len (s : st) : Z := dlen s.

  (* ---- DataplaneView ---- *)
  Definition dp_get (s : st) (k : N) : option V :=
    match get (AD s) k with Some v => Some v | None => get (ND s) k end.

  Definition dp_set (k : N) (v : V) (s : st) : st :=
    match des_get s k with
    | Some dv =>
        let ad := set k v (AD s) in
        if veq dv v then mk ad (ND s) (del k (DU s)) (dlen s)
        else mk ad (ND s) (set k dv (DU s)) (dlen s)
    | None => mk (AD s) (set k v (ND s)) (DU s) (dlen s)
    end.

  Definition dp_delete (k : N) (s : st) : st :=
    let d := des_get s k in
    let ad := del k (AD s) in
    let nd := del k (ND s) in
    match d with
    | Some dv => mk ad nd (set k dv (DU s)) (dlen s)
    | None => mk ad nd (DU s) (dlen s)
    end.

  Definition dp_iter (s : st) : amap V := AD s ++ ND s.
  Definition dp_len (s : st) : Z := (len (ND s) + len (AD s))%Z.

  (* ReplaceAllIter.  Scratch state while the caller's iterator runs:
     oad/ond are c.inDataplaneAndDesired / c.inDataplaneNotDesired (the "old" maps, still installed
     in the struct and shrinking), nad/nnd the new maps, du = desiredUpdates.
     `fixed` selects the repaired lookup of fixes/C18-replace-iter-duplicate-key.patch (the key is
     also looked for in newInDPDesired); fixed=false is the code as pinned. *)
  Record rst := mkr { oad : amap V; ond : amap V; nad : amap V; nnd : amap V; rdu : amap V }.

  Definition repl_cb (fixed : bool) (r : rst) (kv : N * V) : rst :=
    let '(k, v) := kv in
    let d := match get (rdu r) k with
             | Some x => Some x
             | None => match get (oad r) k with
                       | Some x => Some x
                       | None => if fixed then get (nad r) k else None
                       end
             end in
    match d with
    | Some dv =>
        mkr (del k (oad r)) (del k (ond r)) (set k v (nad r)) (nnd r)
            (if veq dv v then del k (rdu r) else set k dv (rdu r))
    | None =>
        mkr (del k (oad r)) (del k (ond r)) (nad r) (set k v (nnd r)) (rdu r)
    end.

  (* kvs: what the iterator hands to the callback, in order; err: the iterator then returns an error *)
  Definition dp_replace (fixed : bool) (kvs : list (N * V)) (err : bool) (s : st) : st :=
    let r := fold_left (repl_cb fixed) kvs (mkr (AD s) (ND s) [] [] (DU s)) in
    if err then
      mk (copy_into (oad r) (nad r)) (copy_into (ond r) (nnd r)) (rdu r) (dlen s)
    else
      (* keys left in oldInDPDesired are desired (Get finds them) but gone from the dataplane *)
      (* Get(k) = desiredUpdates[k] if present (then the assignment changes nothing), else old[k] *)
      let du := fold_left (fun du p => match get du (fst p) with
                                        | Some _ => du
                                        | None => set (fst p) (snd p) du end) (oad r) (rdu r) in
      mk (nad r) (nnd r) du (dlen s).

  (* ---- PendingUpdatesView / PendingDeletionsView ---- *)
  Definition pu_get (s : st) (k : N) : option V := get (DU s) k.
  Definition pu_len (s : st) : Z := len (DU s).
  Definition pd_get (s : st) (k : N) : option V := get (ND s) k.
  Definition pd_len (s : st) : Z := len (ND s).

  (* One turn of the `for k, v := range c.desiredUpdates` loop with the callback's answer.
     AStop: `break` inside the `switch` leaves only the switch; nothing happens and the loop goes on. *)
  Definition pu_visit (s : st) (ka : N * act) : st :=
    let '(k, a) := ka in
    match get (DU s) k with
    | None => s                        (* range never yields an absent key *)
    | Some v =>
        match a with
        | AUpd => mk (set k v (AD s)) (ND s) (del k (DU s)) (dlen s)
        | ANoOp | AStop => s
        end
    end.
  Definition pd_visit (s : st) (ka : N * act) : st :=
    let '(k, a) := ka in
    match get (ND s) k with
    | None => s
    | Some _ =>
        match a with
        | AUpd => mk (AD s) (del k (ND s)) (DU s) (dlen s)
        | ANoOp | AStop => s
        end
    end.
  (* An iteration = the sequence of (key visited, answer); keys never visited behave like NoOp. *)
  Definition pu_iter (tr : list (N * act)) (s : st) : st := fold_left pu_visit tr s.
  Definition pd_iter (tr : list (N * act)) (s : st) : st := fold_left pd_visit tr s.

  (* The complete iteration the code performs for a callback `f` that does not itself touch the
     tracker: every key of the map once, in the order `order` (any list; keys of the map missing
     from it follow in map order).  Nothing stops it early (see AStop above). *)
  Definition visit_order (order : list N) (m : amap V) : list N :=
    nodup N.eq_dec (filter (fun k => mem k m) order) ++
    filter (fun k => negb (existsb (N.eqb k) order)) (keys m).
  Definition pu_iter_full (order : list N) (f : N -> V -> act) (s : st) : st :=
    pu_iter (map (fun k => (k, match get (DU s) k with Some v => f k v | None => ANoOp end))
                 (visit_order order (DU s))) s.
  Definition pd_iter_full (order : list N) (f : N -> act) (s : st) : st :=
    pd_iter (map (fun k => (k, f k)) (visit_order order (ND s))) s.

  (* SetDeltaTracker's DesiredSetView.LenUpperBound *)
  Definition len_upper_bound (s : st) : Z := (len (AD s) + len (DU s))%Z.

  (* ---- operations ---- *)
  Inductive op :=
  | DesSet (k : N) (v : V)
  | DesDel (k : N)
  | DesDelAll
  | DpSet (k : N) (v : V)
  | DpDel (k : N)
  | DpDelAll
  | Replace (kvs : list (N * V)) (err : bool)      (* ReplaceAllIter / ReplaceAllMap / ReplaceFromIter *)
  | IterUpd (tr : list (N * V * act))               (* PendingUpdates().Iter: (key, value given to f, answer) *)
  | IterDel (tr : list (N * act)).                  (* PendingDeletions().Iter *)

  Definition step (fixed : bool) (s : st) (o : op) : st :=
    match o with
    | DesSet k v => des_set k v s
    | DesDel k => des_delete k s
    | DesDelAll => des_delete_all s
    | DpSet k v => dp_set k v s
    | DpDel k => dp_delete k s
    | DpDelAll => dp_replace fixed [] false s
    | Replace kvs err => dp_replace fixed kvs err s
    | IterUpd tr => pu_iter (map (fun x => (fst (fst x), snd x)) tr) s
    | IterDel tr => pd_iter tr s
    end.

  Definition run (fixed : bool) (ops : list op) : st := fold_left (step fixed) ops st0.
End Tracker.

Arguments mkr {V}. Arguments oad {V}. Arguments ond {V}. Arguments nad {V}. Arguments nnd {V}. Arguments rdu {V}.
Arguments mk {V}. Arguments AD {V}. Arguments ND {V}. Arguments DU {V}. Arguments dlen {V}.
Arguments DesSet {V}. Arguments DesDel {V}. Arguments DesDelAll {V}. Arguments DpSet {V}.
Arguments DpDel {V}. Arguments DpDelAll {V}. Arguments Replace {V}. Arguments IterUpd {V}. Arguments IterDel {V}.

(* ---------- concrete instance used by the correspondence run: V = N ---------- *)
Inductive kind := KExact | KCoarse | KSet.
(* KExact: valuesEqual = (==);  KCoarse: a/2 == b/2 (an equivalence coarser than identity);
   KSet: SetDeltaTracker (all values 0, valuesEqual = true). *)
Definition veq_of (kd : kind) : N -> N -> bool :=
  match kd with
  | KExact => N.eqb
  | KCoarse => fun a b => N.eqb (N.div2 a) (N.div2 b)
  | KSet => fun _ _ => true
  end.

(* sorted dump of a view, as the driver prints it (sorted by key, then value) *)
Definition kv_leb (a b : N * N) : bool :=
  if N.ltb (fst a) (fst b) then true else if N.eqb (fst a) (fst b) then N.leb (snd a) (snd b) else false.
Fixpoint kv_insert (x : N * N) (l : list (N * N)) : list (N * N) :=
  match l with
  | [] => [x]
  | y :: l' => if kv_leb x y then x :: l else y :: kv_insert x l'
  end.
Definition kv_sort (l : list (N * N)) : list (N * N) := fold_right kv_insert [] l.

(* what is observed after every operation *)
Record obs := Obs {
  o_des : list (N * N); o_deslen : Z;      (* Desired().Iter sorted, Desired().Len() *)
  o_dp : list (N * N); o_dplen : Z;        (* Dataplane().Iter sorted, Dataplane().Len() *)
  o_pu : list (N * N); o_pulen : Z;        (* PendingUpdates().Iter (all NoOp) sorted, Len() *)
  o_pd : list N; o_pdlen : Z;              (* PendingDeletions().Iter (all NoOp) sorted, Len() *)
  o_gets : list (option N * option N * option N * option N);  (* per universe key: the four Get()s *)
  o_ub : Z                                 (* sets: Desired().LenUpperBound(); maps: -1 *)
}.

Definition observe (kd : kind) (univ : list N) (s : st N) : obs :=
  Obs (kv_sort (des_iter N s)) (des_len N s)
      (kv_sort (dp_iter N s)) (dp_len N s)
      (kv_sort (DU s)) (pu_len N s)
      (map fst (kv_sort (ND s))) (pd_len N s)
      (map (fun k => (des_get N s k, dp_get N s k, pu_get N s k, pd_get N s k)) univ)
      (match kd with KSet => len_upper_bound N s | _ => (-1)%Z end).

Fixpoint run_obs (fixed : bool) (kd : kind) (univ : list N) (s : st N) (ops : list (op N)) : list obs :=
  match ops with
  | [] => []
  | o :: ops' => let s' := step N (veq_of kd) fixed s o in observe kd univ s' :: run_obs fixed kd univ s' ops'
  end.

(* ---------- equality of observations ---------- *)
Definition kvl_eqb (a b : list (N * N)) : bool :=
  Nat.eqb (length a) (length b) && forallb (fun p => N.eqb (fst (fst p)) (fst (snd p)) && N.eqb (snd (fst p)) (snd (snd p))) (combine a b).
Definition nl_eqb (a b : list N) : bool :=
  Nat.eqb (length a) (length b) && forallb (fun p => N.eqb (fst p) (snd p)) (combine a b).
Definition on_eqb (a b : option N) : bool :=
  match a, b with Some x, Some y => N.eqb x y | None, None => true | _, _ => false end.
Definition g4_eqb (a b : option N * option N * option N * option N) : bool :=
  let '(a1, a2, a3, a4) := a in let '(b1, b2, b3, b4) := b in
  on_eqb a1 b1 && on_eqb a2 b2 && on_eqb a3 b3 && on_eqb a4 b4.
Definition obs_eqb (a b : obs) : bool :=
  kvl_eqb (o_des a) (o_des b) && Z.eqb (o_deslen a) (o_deslen b) &&
  kvl_eqb (o_dp a) (o_dp b) && Z.eqb (o_dplen a) (o_dplen b) &&
  kvl_eqb (o_pu a) (o_pu b) && Z.eqb (o_pulen a) (o_pulen b) &&
  nl_eqb (o_pd a) (o_pd b) && Z.eqb (o_pdlen a) (o_pdlen b) &&
  (Nat.eqb (length (o_gets a)) (length (o_gets b)) && forallb (fun p => g4_eqb (fst p) (snd p)) (combine (o_gets a) (o_gets b))) &&
  Z.eqb (o_ub a) (o_ub b).
Fixpoint obsl_eqb (a b : list obs) : bool :=
  match a, b with
  | [], [] => true
  | x :: a', y :: b' => obs_eqb x y && obsl_eqb a' b'
  | _, _ => false
  end.
