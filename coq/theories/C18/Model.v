(* C18 — executable model of felix/deltatracker/delta_tracker.go (DeltaTracker[K,V]) and, by
   instantiation (V := one value, valuesEqual := always true), of delta_set.go (SetDeltaTracker).
   Hand-written; tied to the Go code by the correspondence run (harness/C18).

   Go maps are association lists with unique keys (`get` = lookup, `set` = delete-then-cons,
   `del` = filter); only `get` and `length` are ever observed.  Keys are N (Go: any comparable K).
   The value type and the valuesEqual function are Section parameters.
   The three internal maps and desiredLen are modelled exactly as in the Go struct. *)
From Coq Require Import List NArith ZArith Bool.
Import ListNotations.
Open Scope N_scope.

(* ---------- Go map[K]V ---------- *)
Definition amap (V : Type) := list (N * V).

Fixpoint get {V} (m : amap V) (k : N) : option V :=
  match m with
  | [] => None
  | (k', v) :: m' => if N.eqb k' k then Some v else get m' k
  end.
Definition del {V} (k : N) (m : amap V) : amap V := filter (fun p => negb (N.eqb (fst p) k)) m.
Definition set {V} (k : N) (v : V) (m : amap V) : amap V := (k, v) :: del k m.
Definition mem {V} (k : N) (m : amap V) : bool := match get m k with Some _ => true | None => false end.
Definition keys {V} (m : amap V) : list N := map fst m.
Definition len {V} (m : amap V) : Z := Z.of_nat (length m).
(* maps.Copy(dst, src) *)
Definition copy_into {V} (dst src : amap V) : amap V := fold_left (fun d p => set (fst p) (snd p) d) src dst.

Inductive act := ANoOp | AUpd | AStop.   (* IterActionNoOp / IterActionUpdateDataplane / IterActionNoOpStopIteration *)

(* ---------- the batching protocol of IterBatched (both variants share it) ----------
   Items come off the `range` in the order `rng`; `buf` is ks/vs (count = len(ks) throughout);
   when the buffer reaches the batch size applyFn is called on it and answers (applied, err):
   the first `applied` items are applied, an erring item is skipped, the rest is carried over.
   After the range the tail loop keeps calling applyFn while items are left.
   `resps` are applyFn's answers in call order.  Result: the calls made (batch shown, answer) and
   the items never applied.  Where Go would panic (applied > len(ks)) firstn/skipn clamp; the
   theorems' guard `resp_valid` excludes those answers. *)
Definition respond {A} (buf : list A) (r : nat * bool) : list A * list A * list A :=
  let t := skipn (fst r) buf in
  (firstn (fst r) buf, (if snd r then firstn 1 t else []), (if snd r then tl t else t)).

Fixpoint ploop1 {A} (bs : nat) (rng buf : list A) (resps : list (nat * bool))
         (calls : list (list A * (nat * bool))) (rest : list A)
  : list A * list (nat * bool) * list (list A * (nat * bool)) * list A :=
  match rng with
  | [] => (buf, resps, calls, rest)
  | x :: rng' =>
      let buf1 := buf ++ [x] in
      if Nat.eqb (length buf1) bs then
        let r := hd (0%nat, false) resps in
        let '(_, sk, buf2) := respond buf1 r in
        ploop1 bs rng' buf2 (tl resps) (calls ++ [(buf1, r)]) (rest ++ sk)
      else ploop1 bs rng' buf1 resps calls rest
  end.
Fixpoint ptail {A} (buf : list A) (resps : list (nat * bool))
         (calls : list (list A * (nat * bool))) (rest : list A)
  : list (list A * (nat * bool)) * list A :=
  match resps with
  | [] => (calls, rest ++ buf)
  | r :: resps' =>
      match buf with
      | [] => (calls, rest)
      | _ :: _ => let '(_, sk, buf2) := respond buf r in ptail buf2 resps' (calls ++ [(buf, r)]) (rest ++ sk)
      end
  end.
Definition proto {A} (bs : nat) (rng : list A) (resps : list (nat * bool)) : list (list A * (nat * bool)) * list A :=
  let '(buf, resps', calls, rest) := ploop1 bs rng [] resps [] [] in ptail buf resps' calls rest.
Definition applied_of {A} (calls : list (list A * (nat * bool))) : list A :=
  concat (map (fun c => firstn (fst (snd c)) (fst c)) calls).
Definition batch_size : nat := 128.

Section Tracker.
  Variable V : Type.
  Variable veq : V -> V -> bool.          (* the tracker's valuesEqual *)

  Record st := mk { AD : amap V;          (* inDataplaneAndDesired *)
                    ND : amap V;          (* inDataplaneNotDesired *)
                    DU : amap V;          (* desiredUpdates *)
                    dlen : Z }.           (* desiredLen *)

  Definition st0 : st := mk [] [] [] 0%Z.

  (* ---- DesiredView ---- *)
  Definition des_get (s : st) (k : N) : option V :=
    match get (DU s) k with Some v => Some v | None => get (AD s) k end.

  Definition des_set (k : N) (v : V) (s : st) : st :=
    match get (ND s) k with
    | Some cur =>
        (* move from "not desired" to "desired"; desiredLen++ *)
        let ad := set k cur (AD s) in
        let nd := del k (ND s) in
        let dl := (dlen s + 1)%Z in
        if veq cur v then mk ad nd (del k (DU s)) dl
        else mk ad nd (set k v (DU s)) dl
    | None =>
        match get (AD s) k with
        | Some cur =>
            if veq cur v then mk (AD s) (ND s) (del k (DU s)) (dlen s)
            else mk (AD s) (ND s) (set k v (DU s)) (dlen s)
        | None =>
            mk (AD s) (ND s) (set k v (DU s)) (if mem k (DU s) then dlen s else (dlen s + 1)%Z)
        end
    end.

  Definition des_delete (k : N) (s : st) : st :=
    let pdes := mem k (DU s) in
    let du := del k (DU s) in
    match get (AD s) k with
    | Some cur => mk (del k (AD s)) (set k cur (ND s)) du (dlen s - 1)%Z
    | None => mk (AD s) (ND s) du (if pdes then (dlen s - 1)%Z else dlen s)
    end.

  (* DesiredView.Iter: desiredUpdates first, then inDataplaneAndDesired entries not shadowed *)
  Definition des_iter (s : st) : amap V :=
    DU s ++ filter (fun p => negb (mem (fst p) (DU s))) (AD s).

  (* DeleteAll = Iter(func(k, v) { Delete(k) }): the callback mutates the maps being ranged over.
     Go's range never yields a deleted key, so: Delete every key of desiredUpdates (in order
     `o1`), then every key still in inDataplaneAndDesired that is not (now) in desiredUpdates. *)
  Definition des_delete_all (s : st) : st :=
    let s1 := fold_left (fun s k => des_delete k s) (keys (DU s)) s in
    fold_left (fun s k => if mem k (AD s) && negb (mem k (DU s)) then des_delete k s else s) (keys (AD s1)) s1.

  Definition des_len (s : st) : Z := dlen s.

  (* ---- DataplaneView ---- *)
  Definition dp_get (s : st) (k : N) : option V :=
    match get (AD s) k with Some v => Some v | None => get (ND s) k end.

  Definition dp_set (k : N) (v : V) (s : st) : st :=
    match des_get s k with
    | Some dv =>
        let ad := set k v (AD s) in
        if veq dv v then mk ad (ND s) (del k (DU s)) (dlen s)
        else mk ad (ND s) (set k dv (DU s)) (dlen s)
    | None => mk (AD s) (set k v (ND s)) (DU s) (dlen s)
    end.

  Definition dp_delete (k : N) (s : st) : st :=
    let d := des_get s k in
    let ad := del k (AD s) in
    let nd := del k (ND s) in
    match d with
    | Some dv => mk ad nd (set k dv (DU s)) (dlen s)
    | None => mk ad nd (DU s) (dlen s)
    end.

  Definition dp_iter (s : st) : amap V := AD s ++ ND s.
  Definition dp_len (s : st) : Z := (len (ND s) + len (AD s))%Z.

  (* ReplaceAllIter.  Scratch state while the caller's iterator runs:
     oad/ond are c.inDataplaneAndDesired / c.inDataplaneNotDesired (the "old" maps, still installed
     in the struct and shrinking), nad/nnd the new maps, du = desiredUpdates.
     `fixed` selects the repaired lookup of fixes/C18-replace-iter-duplicate-key.patch (the key is
     also looked for in newInDPDesired); fixed=false is the code as pinned. *)
  Record rst := mkr { oad : amap V; ond : amap V; nad : amap V; nnd : amap V; rdu : amap V }.

  Definition repl_cb (fixed : bool) (r : rst) (kv : N * V) : rst :=
    let '(k, v) := kv in
    let d := match get (rdu r) k with
             | Some x => Some x
             | None => match get (oad r) k with
                       | Some x => Some x
                       | None => if fixed then get (nad r) k else None
                       end
             end in
    match d with
    | Some dv =>
        mkr (del k (oad r)) (del k (ond r)) (set k v (nad r)) (nnd r)
            (if veq dv v then del k (rdu r) else set k dv (rdu r))
    | None =>
        mkr (del k (oad r)) (del k (ond r)) (nad r) (set k v (nnd r)) (rdu r)
    end.

  (* kvs: what the iterator hands to the callback, in order; err: the iterator then returns an error *)
  Definition dp_replace (fixed : bool) (kvs : list (N * V)) (err : bool) (s : st) : st :=
    let r := fold_left (repl_cb fixed) kvs (mkr (AD s) (ND s) [] [] (DU s)) in
    if err then
      mk (copy_into (oad r) (nad r)) (copy_into (ond r) (nnd r)) (rdu r) (dlen s)
    else
      (* keys left in oldInDPDesired are desired (Get finds them) but gone from the dataplane *)
      (* Get(k) = desiredUpdates[k] if present (then the assignment changes nothing), else old[k] *)
      let du := fold_left (fun du p => match get du (fst p) with
                                        | Some _ => du
                                        | None => set (fst p) (snd p) du end) (oad r) (rdu r) in
      mk (nad r) (nnd r) du (dlen s).

  (* ---- PendingUpdatesView / PendingDeletionsView ---- *)
  Definition pu_get (s : st) (k : N) : option V := get (DU s) k.
  Definition pu_len (s : st) : Z := len (DU s).
  Definition pd_get (s : st) (k : N) : option V := get (ND s) k.
  Definition pd_len (s : st) : Z := len (ND s).

  (* One turn of the `for k, v := range c.desiredUpdates` loop with the callback's answer.
     AStop: `break` inside the `switch` leaves only the switch; nothing happens and the loop goes on. *)
  Definition pu_visit (s : st) (ka : N * act) : st :=
    let '(k, a) := ka in
    match get (DU s) k with
    | None => s                        (* range never yields an absent key *)
    | Some v =>
        match a with
        | AUpd => mk (set k v (AD s)) (ND s) (del k (DU s)) (dlen s)
        | ANoOp | AStop => s
        end
    end.
  Definition pd_visit (s : st) (ka : N * act) : st :=
    let '(k, a) := ka in
    match get (ND s) k with
    | None => s
    | Some _ =>
        match a with
        | AUpd => mk (AD s) (del k (ND s)) (DU s) (dlen s)
        | ANoOp | AStop => s
        end
    end.
  (* An iteration = the sequence of (key visited, answer); keys never visited behave like NoOp. *)
  Definition pu_iter (tr : list (N * act)) (s : st) : st := fold_left pu_visit tr s.
  Definition pd_iter (tr : list (N * act)) (s : st) : st := fold_left pd_visit tr s.

  (* The complete iteration the code performs for a callback `f` that does not itself touch the
     tracker: every key of the map once, in the order `order` (any list; keys of the map missing
     from it follow in map order).  Nothing stops it early (see AStop above). *)
  Definition visit_order (order : list N) (m : amap V) : list N :=
    nodup N.eq_dec (filter (fun k => mem k m) order) ++
    filter (fun k => negb (existsb (N.eqb k) order)) (keys m).
  Definition pu_iter_full (order : list N) (f : N -> V -> act) (s : st) : st :=
    pu_iter (map (fun k => (k, match get (DU s) k with Some v => f k v | None => ANoOp end))
                 (visit_order order (DU s))) s.
  Definition pd_iter_full (order : list N) (f : N -> act) (s : st) : st :=
    pd_iter (map (fun k => (k, f k)) (visit_order order (ND s))) s.

  (* IterBatched (PendingUpdates / PendingDeletions): the range order is `order` (as in visit_order),
     applyFn's answers are `resps`; an applied item does delete(desiredUpdates,k); inDataplaneAndDesired[k]=v
     (resp. delete(inDataplaneNotDesired,k)) with the value captured when it came off the range. *)
  Definition range_of (order : list N) (m : amap V) : list (N * V) :=
    flat_map (fun k => match get m k with Some v => [(k, v)] | None => [] end) (visit_order order m).
  Definition pu_apply (s : st) (kv : N * V) : st := mk (set (fst kv) (snd kv) (AD s)) (ND s) (del (fst kv) (DU s)) (dlen s).
  Definition pd_apply (s : st) (kv : N * V) : st := mk (AD s) (del (fst kv) (ND s)) (DU s) (dlen s).
  Definition pu_iter_batched (bs : nat) (order : list N) (resps : list (nat * bool)) (s : st)
    : st * list (list (N * V) * (nat * bool)) :=
    let calls := fst (proto bs (range_of order (DU s)) resps) in
    (fold_left pu_apply (applied_of calls) s, calls).
  Definition pd_iter_batched (bs : nat) (order : list N) (resps : list (nat * bool)) (s : st)
    : st * list (list (N * V) * (nat * bool)) :=
    let calls := fst (proto bs (range_of order (ND s)) resps) in
    (fold_left pd_apply (applied_of calls) s, calls).

  (* DeltaTracker.InSync / SetDeltaTracker.InSync *)
  Definition in_sync (s : st) : bool := Z.eqb (pd_len s) 0 && Z.eqb (pu_len s) 0.

  (* SetDeltaTracker's DesiredSetView.LenUpperBound *)
  Definition len_upper_bound (s : st) : Z := (len (AD s) + len (DU s))%Z.

  (* ---- operations ---- *)
  Inductive op :=
  | DesSet (k : N) (v : V)
  | DesDel (k : N)
  | DesDelAll
  | DpSet (k : N) (v : V)
  | DpDel (k : N)
  | DpDelAll
  | Replace (kvs : list (N * V)) (err : bool)      (* ReplaceAllIter / ReplaceAllMap / ReplaceFromIter *)
  | IterUpd (tr : list (N * V * act))               (* PendingUpdates().Iter: (key, value given to f, answer) *)
  | IterDel (tr : list (N * act))                   (* PendingDeletions().Iter *)
  (* IterBatched: calls = what applyFn was shown and answered, in call order (recorded) *)
  | IterBatchUpd (calls : list (list (N * V) * (nat * bool)))
  | IterBatchDel (calls : list (list (N * V) * (nat * bool)))
  | DesSetMany (kvs : list (N * V)).                (* Desired().Set for each, in order (bulk set-up) *)

  (* range order as the recorded calls reveal it: first appearance of each key in the batches *)
  Definition order_of_calls (calls : list (list (N * V) * (nat * bool))) : list N :=
    nodup N.eq_dec (flat_map (fun c => keys (fst c)) calls).

  Definition step (fixed : bool) (s : st) (o : op) : st :=
    match o with
    | DesSet k v => des_set k v s
    | DesDel k => des_delete k s
    | DesDelAll => des_delete_all s
    | DpSet k v => dp_set k v s
    | DpDel k => dp_delete k s
    | DpDelAll => dp_replace fixed [] false s
    | Replace kvs err => dp_replace fixed kvs err s
    | IterUpd tr => pu_iter (map (fun x => (fst (fst x), snd x)) tr) s
    | IterDel tr => pd_iter tr s
    | IterBatchUpd calls => fst (pu_iter_batched batch_size (order_of_calls calls) (map snd calls) s)
    | IterBatchDel calls => fst (pd_iter_batched batch_size (order_of_calls calls) (map snd calls) s)
    | DesSetMany kvs => fold_left (fun s kv => des_set (fst kv) (snd kv) s) kvs s
    end.
  (* the batches the model's IterBatched shows to applyFn for that operation *)
  Definition step_calls (s : st) (o : op) : list (list (N * V) * (nat * bool)) :=
    match o with
    | IterBatchUpd calls => snd (pu_iter_batched batch_size (order_of_calls calls) (map snd calls) s)
    | IterBatchDel calls => snd (pd_iter_batched batch_size (order_of_calls calls) (map snd calls) s)
    | _ => []
    end.

  Definition run (fixed : bool) (ops : list op) : st := fold_left (step fixed) ops st0.

  (* ---------- felix/cachingmap CachingMap over an abstract dataplane map ----------
     c_t: the DeltaTracker; c_dp: the real dataplane map behind the DataplaneMap interface;
     c_loaded: cacheLoaded.  Failures are injected per call (recorded in the operation). *)
  Record cst := mkc { c_t : st; c_dp : amap V; c_loaded : bool }.
  Inductive cop :=
  | COp (o : op)                                    (* Desired()/Dataplane() pass-through and raw tracker ops *)
  | ExtSet (k : N) (v : V)                          (* the dataplane map changes behind the cache's back *)
  | ExtDel (k : N)
  | CLoad (fail : bool)                             (* LoadCacheFromDataplane; fail: Load() returns an error *)
  | CUpd (loadfail : bool) (tr : list (N * V * bool))   (* ApplyUpdatesOnly; tr: Update(k,v) calls and whether they succeeded *)
  | CDel (loadfail : bool) (tr : list (N * bool))       (* ApplyDeletionsOnly; tr: Delete(k) calls; true = nil or ErrNotExists *)
  | CAll (loadfail : bool) (trd : list (N * bool)) (tru : list (N * V * bool))   (* ApplyAllChanges *)
  (* the same three over a dataplane map that also implements DataplaneBatchedMap (IterBatched path):
     calls = batches handed to BatchUpdate/BatchDelete and the map's raw answer (n, code),
     code 0 = nil, 1 = error, 2 = ErrNotExists (ApplyDeletionsOnly then counts the item as done: n+1, nil) *)
  | CUpdB (loadfail : bool) (calls : list (list (N * V) * (nat * N)))
  | CDelB (loadfail : bool) (calls : list (list (N * V) * (nat * N)))
  | CAllB (loadfail : bool) (callsd callsu : list (list (N * V) * (nat * N))).

  Definition c_load (fixed fail : bool) (c : cst) : cst * Z :=
    if fail then (c, 1%Z)
    else (mkc (dp_replace fixed (c_dp c) false (c_t c)) (c_dp c) true, 0%Z).
  Definition c_maybe_load (fixed fail : bool) (c : cst) : cst * Z :=
    if c_loaded c then (c, 0%Z) else c_load fixed fail c.

  Definition c_upd_visit (ce : cst * Z) (x : N * V * bool) : cst * Z :=
    let '(c, e) := ce in let k := fst (fst x) in
    match get (DU (c_t c)) k with
    | None => ce
    | Some v => if snd x
                then (mkc (pu_visit (c_t c) (k, AUpd)) (set k v (c_dp c)) (c_loaded c), e)   (* Update ok -> UpdateDataplane *)
                else (c, (e + 1)%Z)                                                        (* Update failed -> NoOp, stays pending *)
    end.
  Definition c_del_visit (ce : cst * Z) (x : N * bool) : cst * Z :=
    let '(c, e) := ce in let k := fst x in
    match get (ND (c_t c)) k with
    | None => ce
    | Some _ => if snd x
                then (mkc (pd_visit (c_t c) (k, AUpd)) (del k (c_dp c)) (c_loaded c), e)
                else (c, (e + 1)%Z)
    end.
  Definition c_upd (fixed loadfail : bool) (tr : list (N * V * bool)) (c : cst) : cst * Z :=
    let '(c1, e) := c_maybe_load fixed loadfail c in
    if Z.eqb e 0 then fold_left c_upd_visit tr (c1, 0%Z) else (c1, e).
  Definition c_del (fixed loadfail : bool) (tr : list (N * bool)) (c : cst) : cst * Z :=
    let '(c1, e) := c_maybe_load fixed loadfail c in
    if Z.eqb e 0 then fold_left c_del_visit tr (c1, 0%Z) else (c1, e).
  Definition c_all (fixed loadfail : bool) (trd : list (N * bool)) (tru : list (N * V * bool)) (c : cst) : cst * Z :=
    let '(c1, e1) := c_del fixed loadfail trd c in
    let '(c2, e2) := c_upd fixed loadfail tru c1 in
    (* ApplyAllChanges appends each phase's error (itself a slice) once: the count is the number of failed phases *)
    (c2, ((if Z.eqb e1 0 then 0 else 1) + (if Z.eqb e2 0 then 0 else 1))%Z).

  (* what IterBatched sees of the map's answer *)
  Definition adj_resp (del : bool) (r : nat * N) : nat * bool :=
    if N.eqb (snd r) 0 then (fst r, false)
    else if del && N.eqb (snd r) 2 then (S (fst r), false)
    else (fst r, true).
  Definition adj_calls (del : bool) (calls : list (list (N * V) * (nat * N))) : list (list (N * V) * (nat * bool)) :=
    map (fun c => (fst c, adj_resp del (snd c))) calls.
  Definition nerr_of (del : bool) (calls : list (list (N * V) * (nat * N))) : Z :=
    Z.of_nat (length (filter (fun c => snd (adj_resp del (snd c))) calls)).
  Definition c_upd_b (fixed loadfail : bool) (calls : list (list (N * V) * (nat * N))) (c : cst)
    : cst * Z * list (list (N * V) * (nat * bool)) :=
    let '(c1, e) := c_maybe_load fixed loadfail c in
    if Z.eqb e 0 then
      let '(t', shown) := pu_iter_batched batch_size (order_of_calls (adj_calls false calls)) (map snd (adj_calls false calls)) (c_t c1) in
      (mkc t' (fold_left (fun m kv => set (fst kv) (snd kv) m) (applied_of shown) (c_dp c1)) (c_loaded c1),
       nerr_of false calls, shown)
    else (c1, e, []).
  Definition c_del_b (fixed loadfail : bool) (calls : list (list (N * V) * (nat * N))) (c : cst)
    : cst * Z * list (list (N * V) * (nat * bool)) :=
    let '(c1, e) := c_maybe_load fixed loadfail c in
    if Z.eqb e 0 then
      let '(t', shown) := pd_iter_batched batch_size (order_of_calls (adj_calls true calls)) (map snd (adj_calls true calls)) (c_t c1) in
      (mkc t' (fold_left (fun m kv => del (fst kv) m) (applied_of shown) (c_dp c1)) (c_loaded c1),
       nerr_of true calls, shown)
    else (c1, e, []).

  Definition cstep (fixed : bool) (c : cst) (o : cop) : cst * Z :=
    match o with
    | COp o => (mkc (step fixed (c_t c) o) (c_dp c) (c_loaded c), 0%Z)
    | ExtSet k v => (mkc (c_t c) (set k v (c_dp c)) (c_loaded c), 0%Z)
    | ExtDel k => (mkc (c_t c) (del k (c_dp c)) (c_loaded c), 0%Z)
    | CLoad fail => c_load fixed fail c
    | CUpd lf tr => c_upd fixed lf tr c
    | CDel lf tr => c_del fixed lf tr c
    | CAll lf trd tru => c_all fixed lf trd tru c
    | CUpdB lf calls => fst (c_upd_b fixed lf calls c)
    | CDelB lf calls => fst (c_del_b fixed lf calls c)
    | CAllB lf cd cu =>
        let '(c1, e1) := fst (c_del_b fixed lf cd c) in
        let '(c2, e2) := fst (c_upd_b fixed lf cu c1) in
        (c2, ((if Z.eqb e1 0 then 0 else 1) + (if Z.eqb e2 0 then 0 else 1))%Z)
    end.
  (* batches shown to BatchUpdate / BatchDelete by that operation (deletions first for ApplyAllChanges) *)
  Definition cstep_calls (fixed : bool) (c : cst) (o : cop) : list (list (N * V)) * list (list (N * V)) :=
    match o with
    | CUpdB lf calls => ([], map fst (snd (c_upd_b fixed lf calls c)))
    | CDelB lf calls => (map fst (snd (c_del_b fixed lf calls c)), [])
    | CAllB lf cd cu =>
        let r := c_del_b fixed lf cd c in
        (map fst (snd r), map fst (snd (c_upd_b fixed lf cu (fst (fst r)))))
    | _ => ([], [])
    end.
  Definition cst0 : cst := mkc st0 [] false.
End Tracker.

Arguments mkr {V}. Arguments oad {V}. Arguments ond {V}. Arguments nad {V}. Arguments nnd {V}. Arguments rdu {V}.
Arguments mk {V}. Arguments AD {V}. Arguments ND {V}. Arguments DU {V}. Arguments dlen {V}.
Arguments DesSet {V}. Arguments DesDel {V}. Arguments DesDelAll {V}. Arguments DpSet {V}.
Arguments DpDel {V}. Arguments DpDelAll {V}. Arguments Replace {V}. Arguments IterUpd {V}. Arguments IterDel {V}.
Arguments mkc {V}. Arguments c_t {V}. Arguments c_dp {V}. Arguments c_loaded {V}.
Arguments COp {V}. Arguments ExtSet {V}. Arguments ExtDel {V}. Arguments CLoad {V}. Arguments CUpd {V}. Arguments CDel {V}. Arguments CAll {V}. Arguments CUpdB {V}. Arguments CDelB {V}. Arguments CAllB {V}.
Arguments IterBatchUpd {V}. Arguments IterBatchDel {V}. Arguments DesSetMany {V}.

(* ---------- concrete instance used by the correspondence run: V = N ---------- *)
Inductive kind := KExact | KCoarse | KSet | KCache.
(* KExact: valuesEqual = (==);  KCoarse: a/2 == b/2 (an equivalence coarser than identity);
   KSet: SetDeltaTracker (all values 0, valuesEqual = true). *)
Definition veq_of (kd : kind) : N -> N -> bool :=
  match kd with
  | KExact => N.eqb
  | KCoarse => fun a b => N.eqb (N.div2 a) (N.div2 b)
  | KSet => fun _ _ => true
  | KCache => N.eqb          (* CachingMap fixes valuesEqual to == *)
  end.

(* sorted dump of a view, as the driver prints it (sorted by key, then value) *)
Definition kv_leb (a b : N * N) : bool :=
  if N.ltb (fst a) (fst b) then true else if N.eqb (fst a) (fst b) then N.leb (snd a) (snd b) else false.
Fixpoint kv_insert (x : N * N) (l : list (N * N)) : list (N * N) :=
  match l with
  | [] => [x]
  | y :: l' => if kv_leb x y then x :: l else y :: kv_insert x l'
  end.
Definition kv_sort (l : list (N * N)) : list (N * N) := fold_right kv_insert [] l.

(* what is observed after every operation *)
Record obs := Obs {
  o_des : list (N * N); o_deslen : Z;      (* Desired().Iter sorted, Desired().Len() *)
  o_dp : list (N * N); o_dplen : Z;        (* Dataplane().Iter sorted, Dataplane().Len() *)
  o_pu : list (N * N); o_pulen : Z;        (* PendingUpdates().Iter (all NoOp) sorted, Len() *)
  o_pd : list N; o_pdlen : Z;              (* PendingDeletions().Iter (all NoOp) sorted, Len() *)
  o_gets : list (option N * option N * option N * option N);  (* per universe key: the four Get()s *)
  o_ub : Z;                                (* sets: Desired().LenUpperBound(); maps: -1 *)
  o_calls : list (list (N * N));           (* IterBatched: the batches applyFn was shown (deletions: values 0) *)
  o_real : list (N * N);                   (* CachingMap: the real dataplane map, sorted *)
  o_nerr : Z                               (* CachingMap: number of errors the call returned (0 = nil) *)
}.

Definition observe (kd : kind) (univ : list N) (c : cst N) (calls : list (list (N * N))) (nerr : Z) : obs :=
  let s := c_t c in
  Obs (kv_sort (des_iter N s)) (des_len N s)
      (kv_sort (dp_iter N s)) (dp_len N s)
      (kv_sort (DU s)) (pu_len N s)
      (map fst (kv_sort (ND s))) (pd_len N s)
      (map (fun k => (des_get N s k, dp_get N s k, pu_get N s k, pd_get N s k)) univ)
      (match kd with KSet => len_upper_bound N s | _ => (-1)%Z end)
      calls (kv_sort (c_dp c)) nerr.

Definition zero_vals (b : list (N * N)) : list (N * N) := map (fun kv => (fst kv, 0)) b.
Definition shown_calls (fixed : bool) (kd : kind) (c : cst N) (o : cop N) : list (list (N * N)) :=
  match o with
  | COp (IterBatchUpd calls) => map fst (step_calls N (c_t c) (IterBatchUpd calls))
  | COp (IterBatchDel calls) => map (fun c => zero_vals (fst c)) (step_calls N (c_t c) (IterBatchDel calls))
  | CUpdB _ _ | CDelB _ _ | CAllB _ _ _ =>
      let '(d, u) := cstep_calls N (veq_of kd) fixed c o in map zero_vals d ++ u
  | _ => []
  end.

Fixpoint run_obs (fixed : bool) (kd : kind) (univ : list N) (c : cst N) (ops : list (cop N)) : list obs :=
  match ops with
  | [] => []
  | o :: ops' => let '(c', e) := cstep N (veq_of kd) fixed c o in
                 observe kd univ c' (shown_calls fixed kd c o) e :: run_obs fixed kd univ c' ops'
  end.

(* ---------- equality of observations ---------- *)
Definition kvl_eqb (a b : list (N * N)) : bool :=
  Nat.eqb (length a) (length b) && forallb (fun p => N.eqb (fst (fst p)) (fst (snd p)) && N.eqb (snd (fst p)) (snd (snd p))) (combine a b).
Definition nl_eqb (a b : list N) : bool :=
  Nat.eqb (length a) (length b) && forallb (fun p => N.eqb (fst p) (snd p)) (combine a b).
Definition on_eqb (a b : option N) : bool :=
  match a, b with Some x, Some y => N.eqb x y | None, None => true | _, _ => false end.
Definition g4_eqb (a b : option N * option N * option N * option N) : bool :=
  let '(a1, a2, a3, a4) := a in let '(b1, b2, b3, b4) := b in
  on_eqb a1 b1 && on_eqb a2 b2 && on_eqb a3 b3 && on_eqb a4 b4.
Definition obs_eqb (a b : obs) : bool :=
  kvl_eqb (o_des a) (o_des b) && Z.eqb (o_deslen a) (o_deslen b) &&
  kvl_eqb (o_dp a) (o_dp b) && Z.eqb (o_dplen a) (o_dplen b) &&
  kvl_eqb (o_pu a) (o_pu b) && Z.eqb (o_pulen a) (o_pulen b) &&
  nl_eqb (o_pd a) (o_pd b) && Z.eqb (o_pdlen a) (o_pdlen b) &&
  (Nat.eqb (length (o_gets a)) (length (o_gets b)) && forallb (fun p => g4_eqb (fst p) (snd p)) (combine (o_gets a) (o_gets b))) &&
  Z.eqb (o_ub a) (o_ub b) &&
  (Nat.eqb (length (o_calls a)) (length (o_calls b)) && forallb (fun p => kvl_eqb (fst p) (snd p)) (combine (o_calls a) (o_calls b))) &&
  kvl_eqb (o_real a) (o_real b) && Z.eqb (o_nerr a) (o_nerr b).
Fixpoint obsl_eqb (a b : list obs) : bool :=
  match a, b with
  | [], [] => true
  | x :: a', y :: b' => obs_eqb x y && obsl_eqb a' b'
  | _, _ => false
  end.
