(* C11/EmitProofs.v — instruction level: the templates Emit.v produces for the protocol, ICMP-type and numeric port
   tests, run by Bpf.step on a machine whose state-map value encodes the packet state (Spec.state_bytes), take
   their jump exactly when the IR test (Model.eval_cond) says so, and change nothing but R1. *)
From Coq Require Import List NArith ZArith Bool Lia ZifyN ZifyBool.
From Verif.Common Require Import Packet PolicyRef.
From Verif.C11 Require Import Bpf Model Emit Spec.
Import ListNotations.
Open Scope Z_scope.
Ltac Zify.zify_post_hook ::= Z.div_mod_to_equations.

(* ------------------------------------------------------------------ what the program reads from the state struct *)
Lemma state_proto : forall v6 ps,
  load_le (mem_of_bytes (state_bytes v6 ps)) RgState OFFS_PROTO 1 = Some (ps_proto ps mod 256)%N.
Proof. intros [] ps; cbv -[N.modulo N.div N.add N.mul]; rewrite N.mul_0_r, N.add_0_r; reflexivity. Qed.

Lemma state_icmp_type : forall v6 ps,
  load_le (mem_of_bytes (state_bytes v6 ps)) RgState OFFS_ICMP 1 = Some (ps_icmp_type ps mod 256)%N.
Proof. intros [] ps; cbv -[N.modulo N.div N.add N.mul]; rewrite N.mul_0_r, N.add_0_r; reflexivity. Qed.

Lemma two_bytes : forall x : N, (x mod 256 + 256 * ((x / 256) mod 256 + 256 * 0) = x mod 65536)%N.
Proof. intro x. lia. Qed.

Lemma state_port : forall v6 ps lg,
  load_le (mem_of_bytes (state_bytes v6 ps)) RgState (port_off lg) 2 = Some (leg_port ps lg mod 65536)%N.
Proof.
  intros [] ps []; cbv -[N.modulo N.div N.add N.mul]; rewrite two_bytes; reflexivity.
Qed.

(* ------------------------------------------------------------------ single steps *)
Section Steps.
Variables (e : env) (p : tree raw).

Lemma step_ldx : forall pc ms op off n b,
  (op = OP_LDX8 /\ n = 1%nat) \/ (op = OP_LDX16 /\ n = 2%nat) ->
  tnth p pc = Some (R op 1 9 off 0) ->
  getr (m_regs ms) 9 = VP RgState 0 ->
  load_le (m_state ms) RgState off n = Some b ->
  step e p pc ms = SNext (pc + 1) (set_regs ms (setr (m_regs ms) 1 (VS b))).
Proof.
  intros pc ms op off n b Hop Hf Hr Hl. unfold step. rewrite Hf.
  destruct Hop as [[-> ->] | [-> ->]]; cbn -[load_le region_mem getr setr]; rewrite Hr;
    cbn -[load_le getr setr]; rewrite Hl; reflexivity.
Qed.

(* a conditional jump comparing the scalar in R1 with an immediate *)
Definition jcond (op : N) (a imm : N) : bool :=
  if N.eqb op OP_JEQIMM then N.eqb a imm
  else if N.eqb op OP_JNEIMM then negb (N.eqb a imm)
  else if N.eqb op OP_JLTIMM then N.ltb a imm
  else N.leb a imm.

Lemma step_jcc : forall pc ms op off imm a,
  op = OP_JEQIMM \/ op = OP_JNEIMM \/ op = OP_JLTIMM \/ op = OP_JLEIMM ->
  tnth p pc = Some (R op 1 0 off (Z.of_N imm)) -> (imm < 2147483648)%N ->
  getr (m_regs ms) 1 = VS a ->
  step e p pc ms = SNext (if jcond op a imm then pc + 1 + off else pc + 1) ms.
Proof.
  intros pc ms op off imm a Hop Hf Hi Hr. unfold step. rewrite Hf.
  assert (Hw : wrap64 (Z.of_N imm) = imm).
  { unfold wrap64. rewrite Z.mod_small by lia. apply N2Z.id. }
  destruct Hop as [-> | [-> | [-> | ->]]]; cbn -[getr wrap64]; rewrite Hr; cbn -[getr wrap64]; rewrite Hw; unfold jcond; cbn -[N.eqb N.ltb N.leb];
    try (destruct (N.eqb a imm); reflexivity); try (destruct (N.ltb a imm); reflexivity); destruct (N.leb a imm); reflexivity.
Qed.

End Steps.

Lemma getr_setr_same : forall rs v, (1 < length rs)%nat -> getr (setr rs 1 v) 1 = v.
Proof. intros [|a [|b rs]] v H; simpl in H; try lia. reflexivity. Qed.

(* ------------------------------------------------------------------ the templates *)
(* machine invariant of the program body: R9 points at the state-map value, which encodes ps *)
Record body_inv (v6 : bool) (ps : pstate) (ms : mstate) : Prop := {
  bi_r9 : getr (m_regs ms) 9 = VP RgState 0;
  bi_regs : length (m_regs ms) = 11%nat;
  bi_state : m_state ms = mem_of_bytes (state_bytes v6 ps) }.

Definition clobber_r1 (ms : mstate) (x : N) : mstate := set_regs ms (setr (m_regs ms) 1 (VS x)).

Section Templates.
Variables (e : env) (p : tree raw) (v6 : bool) (ps : pstate).

(* load + compare-and-jump: the shape of writeProtoMatch, writeICMPTypeMatch and of a single-port match *)
Lemma load_jcc : forall pc ms ldop n off jop joff imm b,
  (ldop = OP_LDX8 /\ n = 1%nat) \/ (ldop = OP_LDX16 /\ n = 2%nat) ->
  jop = OP_JEQIMM \/ jop = OP_JNEIMM \/ jop = OP_JLTIMM \/ jop = OP_JLEIMM ->
  body_inv v6 ps ms ->
  tnth p pc = Some (R ldop 1 9 off 0) ->
  tnth p (pc + 1) = Some (R jop 1 0 joff (Z.of_N imm)) -> (imm < 2147483648)%N ->
  load_le (mem_of_bytes (state_bytes v6 ps)) RgState off n = Some b ->
  step e p pc ms = SNext (pc + 1) (clobber_r1 ms b)
  /\ step e p (pc + 1) (clobber_r1 ms b) = SNext (if jcond jop b imm then pc + 2 + joff else pc + 2) (clobber_r1 ms b).
Proof.
  intros pc ms ldop n off jop joff imm b Hld Hj [H9 Hlen Hst] Hf1 Hf2 Hi Hb. split.
  - apply (step_ldx e p pc ms ldop off n b Hld Hf1 H9). rewrite Hst. exact Hb.
  - rewrite (step_jcc e p (pc + 1) (clobber_r1 ms b) jop joff imm b Hj Hf2 Hi).
    + replace (pc + 1 + 1 + joff) with (pc + 2 + joff) by lia. replace (pc + 1 + 1) with (pc + 2) by lia. reflexivity.
    + unfold clobber_r1. simpl m_regs. apply getr_setr_same. lia.
Qed.

End Templates.

(* writeProtoMatch: [LDX8 R1,[R9+ip_proto]; JNE/JEQ R1, n -> no_match] jumps iff the IR test fires *)
Theorem emit_proto_exact : forall e p v v6 bs ps pc ms sense n joff,
  body_inv v6 ps ms -> (ps_proto ps < 256)%N -> (n < 256)%N ->
  tnth p pc = Some (R OP_LDX8 1 9 OFFS_PROTO 0) ->
  tnth p (pc + 1) = Some (R (jcc sense) 1 0 joff (Z.of_N n)) ->
  exists ms', step e p pc ms = SNext (pc + 1) ms'
    /\ step e p (pc + 1) ms' = SNext (if Bool.eqb (eval_cond v bs ps (CProto n)) sense then pc + 2 + joff else pc + 2) ms'
    /\ body_inv v6 ps ms'.
Proof.
  intros e p v v6 bs ps pc ms sense n joff Hinv Hp Hn Hf1 Hf2.
  assert (Hj : jcc sense = OP_JEQIMM \/ jcc sense = OP_JNEIMM \/ jcc sense = OP_JLTIMM \/ jcc sense = OP_JLEIMM)
    by (destruct sense; simpl; auto).
  destruct (load_jcc e p v6 ps pc ms OP_LDX8 1%nat OFFS_PROTO (jcc sense) joff n _ (or_introl (conj eq_refl eq_refl)) Hj Hinv Hf1 Hf2
              ltac:(lia) (state_proto v6 ps)) as [S1 S2].
  exists (clobber_r1 ms (ps_proto ps mod 256)%N). split; [exact S1|]. split.
  - rewrite S2. rewrite N.mod_small by exact Hp. simpl eval_cond.
    destruct sense; unfold jcond, jcc; simpl; destruct (N.eqb (ps_proto ps) n); reflexivity.
  - destruct Hinv as [H9 Hlen Hst]. constructor; unfold clobber_r1; simpl.
    + destruct (m_regs ms) as [|r0 [|r1 rs]]; simpl in Hlen; try lia. exact H9.
    + destruct (m_regs ms) as [|r0 [|r1 rs]]; simpl in Hlen |- *; try lia.
    + exact Hst.
Qed.

(* writeICMPTypeMatch *)
Theorem emit_icmp_type_exact : forall e p v v6 bs ps pc ms sense t joff,
  body_inv v6 ps ms -> (ps_icmp_type ps < 256)%N -> (t < 256)%N ->
  tnth p pc = Some (R OP_LDX8 1 9 OFFS_ICMP 0) ->
  tnth p (pc + 1) = Some (R (jcc sense) 1 0 joff (Z.of_N t)) ->
  exists ms', step e p pc ms = SNext (pc + 1) ms'
    /\ step e p (pc + 1) ms' = SNext (if Bool.eqb (eval_cond v bs ps (CIcmpType t)) sense then pc + 2 + joff else pc + 2) ms'.
Proof.
  intros e p v v6 bs ps pc ms sense t joff Hinv Hp Hn Hf1 Hf2.
  assert (Hj : jcc sense = OP_JEQIMM \/ jcc sense = OP_JNEIMM \/ jcc sense = OP_JLTIMM \/ jcc sense = OP_JLEIMM)
    by (destruct sense; simpl; auto).
  destruct (load_jcc e p v6 ps pc ms OP_LDX8 1%nat OFFS_ICMP (jcc sense) joff t _ (or_introl (conj eq_refl eq_refl)) Hj Hinv Hf1 Hf2
              ltac:(lia) (state_icmp_type v6 ps)) as [S1 S2].
  exists (clobber_r1 ms (ps_icmp_type ps mod 256)%N). split; [exact S1|].
  rewrite S2. rewrite N.mod_small by exact Hp. simpl eval_cond.
  destruct sense; unfold jcond, jcc; simpl; destruct (N.eqb (ps_icmp_type ps) t); reflexivity.
Qed.

(* writePortsMatch, single port: [LDX16 R1,[R9+port]; JEQ R1, port -> on_match] *)
Theorem emit_single_port_exact : forall e p v v6 bs ps pc ms lg port joff,
  body_inv v6 ps ms -> (leg_port ps lg < 65536)%N -> (port < 65536)%N ->
  tnth p pc = Some (R OP_LDX16 1 9 (port_off lg) 0) ->
  tnth p (pc + 1) = Some (R OP_JEQIMM 1 0 joff (Z.of_N port)) ->
  exists ms', step e p pc ms = SNext (pc + 1) ms'
    /\ step e p (pc + 1) ms' = SNext (if eval_cond v bs ps (CPort lg (port, port)) then pc + 2 + joff else pc + 2) ms'.
Proof.
  intros e p v v6 bs ps pc ms lg port joff Hinv Hp Hn Hf1 Hf2.
  destruct (load_jcc e p v6 ps pc ms OP_LDX16 2%nat (port_off lg) OP_JEQIMM joff port _ (or_intror (conj eq_refl eq_refl))
              (or_introl eq_refl) Hinv Hf1 Hf2 ltac:(lia) (state_port v6 ps lg)) as [S1 S2].
  exists (clobber_r1 ms (leg_port ps lg mod 65536)%N). split; [exact S1|].
  rewrite S2. rewrite N.mod_small by exact Hp. simpl eval_cond. unfold in_range, jcond. simpl.
  destruct (N.eqb (leg_port ps lg) port) eqn:E.
  - apply N.eqb_eq in E. rewrite E, N.leb_refl. reflexivity.
  - destruct (N.leb port (leg_port ps lg)) eqn:E1, (N.leb (leg_port ps lg) port) eqn:E2; try reflexivity.
    apply N.leb_le in E1, E2. apply N.eqb_neq in E. lia.
Qed.
