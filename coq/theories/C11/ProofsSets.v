(* C11/ProofsSets.v — the two readings of one IP-set member table (the LPM lookup the program performs, Bpf.set_lookup,
   and PolicyRef's oracle, Spec.ref_sets) agree in the sense c11_ir_verdict needs, as soon as every set holds members
   of one kind.  This ties the hypotheses of the theorem to the concrete oracles check_case evaluates. *)
From Coq Require Import List NArith Bool Lia.
From Verif.Common Require Import Packet PolicyRef.
From Verif.C11 Require Import Bpf Model Spec.
Import ListNotations.

Definition entry_is_port (e : set_entry) : bool := match e with EPort _ _ _ => true | ECidr _ _ => false end.
Definition table_kind (tbl : sets_table) (id : N) : bool :=
  match assoc id tbl with Some ens => existsb entry_is_port ens | None => false end.
Definition homogeneous (ens : list set_entry) : bool :=
  forallb entry_is_port ens || forallb (fun e => negb (entry_is_port e)) ens.
Definition table_homogeneous (tbl : sets_table) : bool := forallb (fun x => homogeneous (snd x)) tbl.

Lemma assoc_in : forall {A} id (tbl : list (N * A)) a, assoc id tbl = Some a -> In (id, a) tbl.
Proof.
  induction tbl as [|[k x] tbl IH]; intros a H; simpl in H; [discriminate|].
  destruct (N.eqb id k) eqn:E.
  - apply N.eqb_eq in E. inversion H; subst. left. reflexivity.
  - right. apply IH. exact H.
Qed.

Lemma existsb_ext_in : forall {A} (f g : A -> bool) l, (forall a, In a l -> f a = g a) -> existsb f l = existsb g l.
Proof.
  induction l as [|a l IH]; intros H; simpl; [reflexivity|].
  rewrite (H a (or_introl eq_refl)), IH; [reflexivity|]. intros b Hb. apply H. right. exact Hb.
Qed.

Lemma existsb_false_in : forall {A} (f : A -> bool) l, (forall a, In a l -> f a = false) -> existsb f l = false.
Proof.
  induction l as [|a l IH]; intros H; simpl; [reflexivity|].
  rewrite (H a (or_introl eq_refl)), IH; [reflexivity|]. intros b Hb. apply H. right. exact Hb.
Qed.

Theorem table_sets_agree : forall (e : env),
  table_homogeneous (e_sets e) = true ->
  forall id a pr po,
    set_lookup e id a pr po =
    if table_kind (e_sets e) id then ref_sets (addr_bits e) (e_sets e) id (MemIPPort a pr po)
    else ref_sets (addr_bits e) (e_sets e) id (MemIP a).
Proof.
  intros e Hh id a pr po. unfold set_lookup, table_kind, ref_sets.
  destruct (assoc id (e_sets e)) as [ens|] eqn:Ea; [|reflexivity].
  assert (Hens : homogeneous ens = true).
  { unfold table_homogeneous in Hh. rewrite forallb_forall in Hh. apply (Hh (id, ens)). apply assoc_in. exact Ea. }
  unfold homogeneous in Hens. apply orb_true_iff in Hens. destruct Hens as [Hp|Hc].
  - rewrite forallb_forall in Hp. destruct (existsb entry_is_port ens) eqn:Ex.
    + apply existsb_ext_in. intros en Hin. specialize (Hp en Hin). destruct en; [discriminate | reflexivity].
    + (* all port entries and none of them: the set is empty *)
      destruct ens as [|en ens']; [reflexivity|].
      simpl in Ex. rewrite (Hp en (or_introl eq_refl)) in Ex. discriminate.
  - rewrite forallb_forall in Hc.
    assert (Ex : existsb entry_is_port ens = false).
    { apply existsb_false_in. intros en Hin. specialize (Hc en Hin). apply negb_true_iff in Hc. exact Hc. }
    rewrite Ex. apply existsb_ext_in. intros en Hin. specialize (Hc en Hin). destruct en; [reflexivity | discriminate].
Qed.
