(* C11/ProofsPinned.v — the builder as it is in the pinned tree (pinned_variant) writes the same program as the
   repaired one on every configuration that stays clear of the three defect classes (no profile rule with action
   Log or Pass, no protocol given by the names icmpv6 / udplite).  So c11_ir_verdict carries over to the unchanged
   code on exactly that domain. *)
From Coq Require Import List NArith Bool.
From Verif.Common Require Import Packet PolicyRef.
From Verif.C11 Require Import Bpf Model Spec.
Import ListNotations.

Definition common_name (o : option pname) : bool :=
  match o with Some PnIcmpv6 | Some PnUdplite => false | _ => true end.
Definition clear_rule (b : brule) : bool := common_name (b_pname b) && common_name (b_npname b).
Definition clear_profile_rule (b : brule) : bool :=
  clear_rule b && match r_action (b_rule b) with Log | Pass => false | _ => true end.
Definition clear_tier (t : btier) : bool := forallb (forallb clear_rule) (bt_policies t).
Definition clear_of_findings (r : brules) : bool :=
  forallb clear_tier (br_tiers r) && forallb clear_tier (br_pre_dnat r) && forallb clear_tier (br_forward r)
  && forallb clear_tier (br_host_normal r)
  && forallb (forallb clear_profile_rule) (br_profiles r) && forallb (forallb clear_profile_rule) (br_host_profiles r).

Lemma write_rule_pinned : forall v rid b tg dleg, clear_rule b = true ->
  write_rule pinned_variant v rid b tg dleg = write_rule fixed_variant v rid b tg dleg.
Proof.
  intros v rid b tg dleg H. unfold clear_rule in H. apply andb_true_iff in H. destruct H as [H1 H2].
  unfold write_rule.
  destruct (b_pname b) as [[]|]; destruct (b_npname b) as [[]|]; simpl in H1, H2; try discriminate; reflexivity.
Qed.

Lemma write_rules_pinned : forall v tgt1 tgt2 dleg rs rid,
  (forall b, In b rs -> clear_rule b = true /\ tgt1 (r_action (b_rule b)) = tgt2 (r_action (b_rule b))) ->
  write_rules pinned_variant v rid tgt1 dleg rs = write_rules fixed_variant v rid tgt2 dleg rs.
Proof.
  intros v tgt1 tgt2 dleg. induction rs as [|b rs IH]; intros rid H; simpl; [reflexivity|].
  destruct (H b (or_introl eq_refl)) as [Hc Ht]. rewrite Ht, (write_rule_pinned _ _ _ _ _ Hc).
  destruct (write_rule fixed_variant v rid b (tgt2 (r_action (b_rule b))) dleg) as [[c1 rid1]|]; [|reflexivity].
  rewrite IH; [reflexivity|]. intros b' Hb'. apply H. right. exact Hb'.
Qed.

Lemma write_policies_pinned : forall v tgt dleg ps rid, forallb (forallb clear_rule) ps = true ->
  write_policies pinned_variant v rid tgt dleg ps = write_policies fixed_variant v rid tgt dleg ps.
Proof.
  intros v tgt dleg. induction ps as [|p ps IH]; intros rid H; simpl; [reflexivity|].
  simpl in H. apply andb_true_iff in H. destruct H as [Hp Hps].
  rewrite (write_rules_pinned v tgt tgt dleg p rid).
  - destruct (write_rules fixed_variant v rid tgt dleg p) as [[c1 rid1]|]; [|reflexivity]. rewrite IH by exact Hps. reflexivity.
  - intros b Hb. split; [|reflexivity]. rewrite forallb_forall in Hp. apply Hp. exact Hb.
Qed.

Lemma write_tiers_pinned : forall v allowl dleg ts ctr, forallb clear_tier ts = true ->
  write_tiers pinned_variant v ctr allowl dleg ts = write_tiers fixed_variant v ctr allowl dleg ts.
Proof.
  intros v allowl dleg. induction ts as [|t ts IH]; intros ctr H; [reflexivity|].
  destruct ctr as [[rid tid] pid]. cbn [write_tiers].
  simpl in H. apply andb_true_iff in H. destruct H as [Ht Hts]. unfold clear_tier in Ht.
  rewrite (write_policies_pinned v _ dleg _ rid Ht).
  destruct (write_policies fixed_variant v rid (tier_target allowl tid) dleg (bt_policies t)) as [[c1 rid1]|]; [|reflexivity].
  rewrite (write_rule_pinned v rid1 (empty_brule Deny) _ dleg eq_refl).
  match goal with |- context [write_rule fixed_variant ?a ?b ?c ?d ?e] =>
    destruct (write_rule fixed_variant a b c d e) as [[c2 rid2]|]; [|reflexivity] end.
  rewrite IH by exact Hts. reflexivity.
Qed.

Lemma write_profile_list_pinned : forall v allowl ps rid pid, forallb (forallb clear_profile_rule) ps = true ->
  write_profile_list pinned_variant v rid pid allowl ps = write_profile_list fixed_variant v rid pid allowl ps.
Proof.
  intros v allowl. induction ps as [|p ps IH]; intros rid pid H; simpl; [reflexivity|].
  simpl in H. apply andb_true_iff in H. destruct H as [Hp Hps].
  rewrite (write_rules_pinned v (profile_target pinned_variant allowl pid) (profile_target fixed_variant allowl pid) LegDst p rid).
  - destruct (write_rules fixed_variant v rid (profile_target fixed_variant allowl pid) LegDst p) as [[c1 rid1]|]; [|reflexivity].
    rewrite IH by exact Hps. reflexivity.
  - intros b Hb. rewrite forallb_forall in Hp. specialize (Hp b Hb). unfold clear_profile_rule in Hp.
    apply andb_true_iff in Hp. destruct Hp as [Hc Ha]. split; [exact Hc|].
    destruct (r_action (b_rule b)); try discriminate; reflexivity.
Qed.

Lemma write_profiles_pinned : forall v ctr allowl ps, forallb (forallb clear_profile_rule) ps = true ->
  write_profiles pinned_variant v ctr allowl ps = write_profiles fixed_variant v ctr allowl ps.
Proof.
  intros v ctr allowl ps H. unfold write_profiles. destruct ctr as [[rid tid] pid].
  rewrite (write_profile_list_pinned v allowl ps rid pid H).
  destruct (write_profile_list fixed_variant v rid pid allowl ps) as [[c1 [rid1 pid1]]|]; [|reflexivity].
  rewrite (write_rule_pinned v rid1 (empty_brule Deny) _ LegDst eq_refl). reflexivity.
Qed.

Theorem instructions_pinned : forall v r, clear_of_findings r = true ->
  instructions pinned_variant v r = instructions fixed_variant v r.
Proof.
  intros v r H. unfold clear_of_findings in H.
  repeat (apply andb_true_iff in H; destruct H as [H ?]).
  rename H into Ct, H4 into Cpre, H3 into Cfwd, H2 into Cnorm, H1 into Cp, H0 into Chp.
  assert (Hw : forall ctr, write_workload pinned_variant v ctr r = write_workload fixed_variant v ctr r).
  { intro ctr. unfold write_workload. destruct (br_for_host r); [reflexivity|].
    rewrite (write_tiers_pinned v LAllow LegDst _ ctr Ct). unfold wbind.
    destruct (write_tiers fixed_variant v ctr LAllow LegDst (br_tiers r)) as [[c1 ctr1]|]; [|reflexivity].
    rewrite (write_profiles_pinned v ctr1 LAllow _ Cp). reflexivity. }
  assert (Hn : forall ctr, write_normal pinned_variant v ctr r = write_normal fixed_variant v ctr r).
  { intro ctr. unfold write_normal. destruct (br_suppress r); [reflexivity|]. destruct (br_xdp r).
    - rewrite (write_tiers_pinned v LAllowedByHost LegDstPre _ ctr Cnorm). reflexivity.
    - rewrite (write_tiers_pinned v LAllowedByHost LegDst _ ctr Cnorm). unfold wbind.
      destruct (write_tiers fixed_variant v ctr LAllowedByHost LegDst (br_host_normal r)) as [[c1 ctr1]|]; [|reflexivity].
      rewrite (write_profiles_pinned v ctr1 LAllowedByHost _ Chp). reflexivity. }
  unfold instructions. cbv zeta.
  destruct (br_xdp r).
  - cbn [wbind]. rewrite Hn. destruct (write_normal fixed_variant v (0%N, 0%N, 0%N) r) as [[cb ctrb]|]; [|reflexivity].
    cbn [wbind]. rewrite Hw. reflexivity.
  - rewrite (write_tiers_pinned v LAllowedByHost LegDstPre _ _ Cpre).
    destruct (write_tiers fixed_variant v (0%N, 0%N, 0%N) LAllowedByHost LegDstPre (br_pre_dnat r)) as [[c1 ctr1]|]; [|reflexivity].
    cbn [wbind]. rewrite (write_tiers_pinned v LAllowedByHost LegDst _ ctr1 Cfwd).
    destruct (write_tiers fixed_variant v ctr1 LAllowedByHost LegDst (br_forward r)) as [[c2 ctr2]|]; [|reflexivity].
    cbn [wbind]. rewrite Hn. destruct (write_normal fixed_variant v ctr2 r) as [[cb ctrb]|]; [|reflexivity].
    cbn [wbind]. rewrite Hw. reflexivity.
Qed.
